(** C13: conservation (the multiset equation pushed = returned + remaining, per list) for the
    histories of list commands ([reach_g] of Spec/BlockingSpec.v): any requests from the list
    catalogue, clients going away at any time - blocked or not -, wake-ups, timeouts.  No command
    of the catalogue gives a key a deadline, so lazy expiry never removes anything in these
    histories: that is part of the invariant ([NOEXPd], theorem [no_deadlines]), not an
    assumption. *)
From Ferrous Require Import Base.Bytes Generated Model.Resp Model.Types Model.Strings Model.Lists
  Model.Server Model.Blocking Spec.BlockingSpec Proofs.BytesFacts Proofs.StringsFacts Proofs.ServerFacts
  Proofs.GroupFacts Proofs.BlockingFacts.
From Coq Require Import ZifyBool Lia.
Open Scope Z_scope.

(** ================= a key seen as a list ================= *)
(** [Some l]: the key holds the list l, or nothing (l = []); [None]: it holds another type *)
Definition lview (d : db) (k : bytes) : option (list bytes) :=
  match get_val d k with Some (VList l) => Some l | None => Some [] | Some _ => None end.

Lemma beq_false_sym a b : beq a b = false -> beq b a = false.
Proof.
  intros H. destruct (beq b a) eqn:E; [|reflexivity]. apply beq_eq in E. subst. rewrite beq_refl in H. discriminate.
Qed.
Lemma get_val_apply_other d k k' cur u : beq k' k = false -> get_val (apply_upd d k cur u) k' = get_val d k'.
Proof.
  intros Hn. unfold get_val, apply_upd. destruct u.
  - reflexivity.
  - rewrite get_entry_put_other by exact Hn. reflexivity.
  - rewrite get_entry_del_other by exact Hn. reflexivity.
Qed.
Lemma lview_on_key_other d k f k' : beq k' k = false -> lview (snd (on_key d k f)) k' = lview d k'.
Proof.
  intros Hn. unfold lview, on_key. destruct (f (option_map e_val (get_entry d k))) as [r u]. cbn [snd].
  rewrite get_val_apply_other by exact Hn. reflexivity.
Qed.
Lemma get_val_put d k e : get_val (put_entry d k e) k = Some (e_val e).
Proof. unfold get_val. rewrite get_entry_put_same. reflexivity. Qed.
Lemma get_val_del d k : get_val (del_entry d k) k = None.
Proof. unfold get_val. rewrite get_entry_del_same. reflexivity. Qed.

(** lpop / rpop through the view *)
Lemma pop_view (left : bool) d k (l : list bytes) : lview d k = Some l ->
  match (if left then l else rev l) with
  | [] => fst (on_key d k (e_pop left)) = r_nil /\ lview (snd (on_key d k (e_pop left))) k = Some []
  | x :: t => fst (on_key d k (e_pop left)) = FBulk x
              /\ lview (snd (on_key d k (e_pop left))) k = Some (if left then t else rev t)
  end.
Proof.
  unfold lview, on_key. fold (get_val d k). intros Hv.
  destruct (get_val d k) as [[| l0 | | | |]|] eqn:Eg; try discriminate.
  - injection Hv as ->. unfold e_pop. destruct left.
    + destruct l as [|x t]; cbn [fst snd apply_upd].
      * split; [reflexivity|]. unfold lview. rewrite get_val_del. reflexivity.
      * split; [reflexivity|]. destruct t as [|y t]; cbn [apply_upd]; unfold lview.
        -- rewrite get_val_del. reflexivity.
        -- rewrite get_val_put. reflexivity.
    + destruct (rev l) as [|x t]; cbn [fst snd apply_upd].
      * split; [reflexivity|]. unfold lview. rewrite get_val_del. reflexivity.
      * split; [reflexivity|]. destruct t as [|y t]; cbn [apply_upd]; unfold lview.
        -- rewrite get_val_del. reflexivity.
        -- rewrite get_val_put. reflexivity.
  - injection Hv as <-. unfold e_pop. destruct left; cbn [rev fst snd apply_upd]; (split; [reflexivity|]);
      unfold lview; rewrite Eg; reflexivity.
Qed.
(** a key of another type: WRONGTYPE, nothing changes *)
Lemma pop_view_other left d k : lview d k = None ->
  is_error (fst (on_key d k (e_pop left))) = true /\ snd (on_key d k (e_pop left)) = d.
Proof.
  unfold lview, on_key. fold (get_val d k). destruct (get_val d k) as [[| l0 | | | |]|]; try discriminate; intros _; split; reflexivity.
Qed.
(** lpush / rpush through the view *)
Lemma push_view (left : bool) (els : list bytes) d k (l : list bytes) : lview d k = Some l ->
  let l' := if left then rev els ++ l else l ++ els in
  fst (on_key d k (e_push left els)) = FInt (len l') /\ lview (snd (on_key d k (e_push left els))) k = Some l'.
Proof.
  unfold lview, on_key. fold (get_val d k). intros Hv. cbv zeta.
  destruct (get_val d k) as [[| l0 | | | |]|] eqn:Eg; try discriminate.
  - injection Hv as ->. unfold e_push. cbn [fst snd apply_upd]. split; [reflexivity|]. unfold lview. rewrite get_val_put. reflexivity.
  - injection Hv as <-. unfold e_push. cbn [fst snd apply_upd]. rewrite app_nil_r. cbn [app].
    split; [destruct left; reflexivity|]. unfold lview. rewrite get_val_put. destruct left; reflexivity.
Qed.
Lemma push_view_other left els d k : lview d k = None ->
  is_error (fst (on_key d k (e_push left els))) = true /\ snd (on_key d k (e_push left els)) = d.
Proof.
  unfold lview, on_key. fold (get_val d k). destruct (get_val d k) as [[| l0 | | | |]|]; try discriminate; intros _; split; reflexivity.
Qed.
(** functions that only read *)
Lemma keep_view d k f : (forall cur, snd (f cur) = Keep) -> snd (on_key d k f) = d.
Proof. intros H. unfold on_key. specialize (H (option_map e_val (get_entry d k))). destruct (f _) as [r u]. cbn [snd] in *. subst. reflexivity. Qed.

(** ================= no deadlines: lazy expiry removes nothing ================= *)
Definition NOEXPd (d : db) : Prop := d_index d = [] /\ forall k e, get_entry d k = Some e -> e_exp e = None.
Lemma noexp_on_key d k f : NOEXPd d -> NOEXPd (snd (on_key d k f)).
Proof.
  intros [H1 H2]. unfold on_key. destruct (f (option_map e_val (get_entry d k))) as [r u]. cbn [snd].
  destruct u; cbn [apply_upd].
  - split; assumption.
  - split; [exact H1|]. intros k' e He. destruct (beq k' k) eqn:Ek.
    + apply beq_eq in Ek. subst k'. rewrite get_entry_put_same in He. injection He as <-. cbn [e_exp].
      destruct (get_entry d k) as [e0|] eqn:E0; [eapply H2; exact E0|reflexivity].
    + rewrite get_entry_put_other in He by exact Ek. eapply H2; exact He.
  - split; [exact H1|]. intros k' e He. destruct (beq k' k) eqn:Ek.
    + apply beq_eq in Ek. subst k'. rewrite get_entry_del_same in He. discriminate.
    + rewrite get_entry_del_other in He by exact Ek. eapply H2; exact He.
Qed.
Lemma purge_noexp now d k acc : NOEXPd d -> purge_key now (d, acc) k = (d, acc).
Proof.
  intros [_ H2]. unfold purge_key. cbn [fst snd]. destruct (get_entry d k) as [e|] eqn:E; [|reflexivity].
  unfold expired. rewrite (H2 _ _ E). reflexivity.
Qed.
Lemma expire_before_noexp now d name parts : NOEXPd d -> expire_before now d name parts = (d, []).
Proof.
  intros HN. unfold expire_before. cbv zeta.
  assert (F : forall l acc, fold_left (purge_key now) l (d, acc) = (d, acc)).
  { induction l as [|k l IH]; intros acc; cbn [fold_left]; [reflexivity|]. rewrite purge_noexp by exact HN. apply IH. }
  assert (E : (if lazy_expires_every_arg then fold_left (purge_key now) (lazy_args parts) (d, []) else (d, [])) = (d, [])).
  { destruct lazy_expires_every_arg; [apply F|reflexivity]. }
  rewrite E. destruct (bmem name lazy_keyspace_commands); [|reflexivity].
  unfold purge_due, due_keys. cbn [fst]. rewrite (proj1 HN). reflexivity.
Qed.
Lemma list_set_nth_id {A} (dflt : A) : forall l i, list_set l i (nth i l dflt) = l.
Proof. induction l as [|y l IH]; intros [|i]; cbn [list_set nth]; try reflexivity. rewrite IH. reflexivity. Qed.
Lemma lazy_expire_noexp now s dbi name parts : NOEXPd (get_db s dbi) ->
  s_dbs (lazy_expire now s dbi name parts) = s_dbs s.
Proof.
  intros HN. unfold lazy_expire. destruct lazy_expiry_before_dispatch; [|reflexivity].
  rewrite expire_before_noexp by exact HN. cbn [set_trk set_db s_dbs]. unfold get_db. apply list_set_nth_id.
Qed.
Lemma normal_command_noexp now s c dbi nm rest o : NOEXPd (get_db s dbi) ->
  exists s1, normal_command now s c dbi (FBulk nm :: rest) o = dispatch_command now s1 c dbi (FBulk nm :: rest) o
    /\ s_dbs s1 = s_dbs s /\ s_conns s1 = s_conns s /\ s_password s1 = s_password s.
Proof.
  intros HN. exists (lazy_expire now s dbi (upper nm) (FBulk nm :: rest)). split; [reflexivity|].
  split; [apply lazy_expire_noexp; exact HN|].
  destruct (lazy_expire_rest now s dbi (upper nm) (FBulk nm :: rest)) as (L1 & L2 & _). split; assumption.
Qed.

(** ================= the list commands through exec_db ================= *)
Lemma exec_db_lpush now d parts o : exec_db now d (bs "LPUSH") parts o = Some (h_push true d parts).
Proof. reflexivity. Qed.
Lemma exec_db_rpush now d parts o : exec_db now d (bs "RPUSH") parts o = Some (h_push false d parts).
Proof. reflexivity. Qed.
Lemma exec_db_lpop now d parts o : exec_db now d (bs "LPOP") parts o = Some (h_key1 (e_pop true) d parts).
Proof. reflexivity. Qed.
Lemma exec_db_rpop now d parts o : exec_db now d (bs "RPOP") parts o = Some (h_key1 (e_pop false) d parts).
Proof. reflexivity. Qed.
Lemma exec_db_llen now d parts o : exec_db now d (bs "LLEN") parts o = Some (h_key1 e_llen d parts).
Proof. reflexivity. Qed.
Lemma exec_db_lrange now d parts o : exec_db now d (bs "LRANGE") parts o = Some (h_range e_lrange d parts).
Proof. reflexivity. Qed.
Lemma exec_db_lindex now d parts o : exec_db now d (bs "LINDEX") parts o = Some (h_lindex d parts).
Proof. reflexivity. Qed.

Definition special_names : list bytes :=
  [bs "PING"; bs "ECHO"; bs "SELECT"; bs "FLUSHALL"; bs "RANDOMKEY"; bs "AUTH"; bs "QUIT"; bs "VERIF"].
(** a command that process_normal_command hands to the storage commands: reply and database
    from exec_db, connections untouched *)
Lemma dc_via_exec_db now s c dbi nm rest o r d' :
  forallb (fun sp => negb (beq (upper nm) sp)) special_names = true ->
  exec_db now (get_db s dbi) (upper nm) (FBulk nm :: rest) o = Some (r, d') ->
  exists s', dispatch_command now s c dbi (FBulk nm :: rest) o = (r, s')
    /\ s_conns s' = s_conns s /\ s_password s' = s_password s
    /\ s_dbs s' = list_set (s_dbs s) (Z.to_nat dbi) d'.
Proof.
  intros Hsp He. unfold special_names in Hsp. cbn [forallb] in Hsp.
  repeat (apply andb_true_iff in Hsp; destruct Hsp as [?H Hsp]).
  repeat match goal with H : negb _ = true |- _ => apply negb_true_iff in H end.
  unfold dispatch_command.
  set (s0 := if logs_before (upper nm) (FBulk nm :: rest) then log_aof_in s dbi (FBulk nm :: rest) else s).
  assert (Hd : get_db s0 dbi = get_db s dbi) by (unfold s0; destruct (logs_before (upper nm) (FBulk nm :: rest)); [unfold log_aof_in; destruct (same_db _ _)|]; reflexivity).
  assert (Hc : s_conns s0 = s_conns s) by (unfold s0; destruct (logs_before (upper nm) (FBulk nm :: rest)); [unfold log_aof_in; destruct (same_db _ _)|]; reflexivity).
  assert (Hp : s_password s0 = s_password s) by (unfold s0; destruct (logs_before (upper nm) (FBulk nm :: rest)); [unfold log_aof_in; destruct (same_db _ _)|]; reflexivity).
  assert (Hl : s_dbs s0 = s_dbs s) by (unfold s0; destruct (logs_before (upper nm) (FBulk nm :: rest)); [unfold log_aof_in; destruct (same_db _ _)|]; reflexivity).
  rewrite H, H0, H1, H2, H3, H4, H5, H6. rewrite Hd, He.
  eexists. split; [reflexivity|]. cbn [log_after set_trk set_db s_conns s_password s_dbs]. rewrite Hl. repeat split; assumption.
Qed.
Lemma nc_via_exec_db now s c dbi nm rest o r d' :
  NOEXPd (get_db s dbi) ->
  forallb (fun sp => negb (beq (upper nm) sp)) special_names = true ->
  exec_db now (get_db s dbi) (upper nm) (FBulk nm :: rest) o = Some (r, d') ->
  exists s', normal_command now s c dbi (FBulk nm :: rest) o = (r, s')
    /\ s_conns s' = s_conns s /\ s_password s' = s_password s
    /\ s_dbs s' = list_set (s_dbs s) (Z.to_nat dbi) d'.
Proof.
  intros HN Hsp He. destruct (normal_command_noexp now s c dbi nm rest o HN) as (s1 & E & D1 & D2 & D3).
  assert (Hg : get_db s1 dbi = get_db s dbi) by (unfold get_db; rewrite D1; reflexivity).
  rewrite <- Hg in He. destruct (dc_via_exec_db now s1 c dbi nm rest o r d' Hsp He) as (s' & H1 & H2 & H3 & H4).
  exists s'. rewrite E. split; [exact H1|]. rewrite H2, H3, H4, D1, D2, D3. repeat split; reflexivity.
Qed.

(** ================= counting =================
    Elements are counted through a matcher: [Some x] counts the occurrences of x, [None] counts
    every element (lengths) - one set of lemmas serves the multiset equation and the
    no-stranding invariant. *)
Definition mbeq (y : bytes) (m : option bytes) : bool := match m with None => true | Some x => beq y x end.
Definition occm (m : option bytes) (l : list bytes) : Z := len (filter (fun y => mbeq y m) l).
Definition meqb (q : Z * bytes * option bytes) (a : elem) : bool :=
  match q, a with (db, k, m), (d', k', x') => (db =? d') && beq k k' && mbeq x' m end.
Definition ecountm (q : Z * bytes * option bytes) (l : list elem) : Z := len (filter (meqb q) l).
Lemma occ_app x l1 l2 : occm x (l1 ++ l2) = occm x l1 + occm x l2.
Proof. unfold occm, len. rewrite filter_app, app_length. lia. Qed.
Lemma occ_nil x : occm x [] = 0.
Proof. reflexivity. Qed.
Lemma occ_cons x y l : occm x (y :: l) = (if mbeq y x then 1 else 0) + occm x l.
Proof. unfold occm, len. cbn [filter]. destruct (mbeq y x); cbn [length]; lia. Qed.
Lemma occ_rev x l : occm x (rev l) = occm x l.
Proof. induction l as [|y l IH]; [reflexivity|]. cbn [rev]. rewrite occ_app, IH, !occ_cons, occ_nil. lia. Qed.
Lemma occ_nonneg x l : 0 <= occm x l.
Proof. unfold occm, len. lia. Qed.
Lemma ecount_app e l1 l2 : ecountm e (l1 ++ l2) = ecountm e l1 + ecountm e l2.
Proof. unfold ecountm, len. rewrite filter_app, app_length. lia. Qed.
Lemma ecount_nil e : ecountm e [] = 0.
Proof. reflexivity. Qed.
Lemma ecount_nonneg e l : 0 <= ecountm e l.
Proof. unfold ecountm, len. lia. Qed.
Lemma ecount_cons e a l : ecountm e (a :: l) = (if meqb e a then 1 else 0) + ecountm e l.
Proof. unfold ecountm, len. cbn [filter]. destruct (meqb e a); cbn [length]; lia. Qed.
Lemma elem_eqb_spec db k x db' k' x' :
  meqb (db, k, x) (db', k', x') = (db =? db') && beq k k' && mbeq x' x.
Proof. reflexivity. Qed.
(** the elements of one push *)
Lemma ecount_tag dbi k els db k' x :
  ecountm (db, k', x) (map (fun e => (dbi, k, e)) els) = if (db =? dbi) && beq k' k then occm x els else 0.
Proof.
  induction els as [|e els IH]; [destruct ((db =? dbi) && beq k' k); reflexivity|].
  cbn [map]. rewrite ecount_cons, IH, elem_eqb_spec, occ_cons.
  destruct (db =? dbi); cbn [andb]; [|lia]. destruct (beq k' k); cbn [andb]; [|lia].
  reflexivity.
Qed.

(** ================= the databases of the server ================= *)
Definition sview (s : server) (db : Z) (k : bytes) : option (list bytes) := lview (get_db s db) k.
Definition lst (d : db) (k : bytes) : list bytes := match lview d k with Some l => l | None => [] end.
Lemma list_at_lst s db k : list_at s db k = lst (get_db s db) k.
Proof. unfold list_at, lst, lview. destruct (get_val (get_db s db) k) as [[]|]; reflexivity. Qed.

Lemma length_list_set {A} (l : list A) : forall i x, length (list_set l i x) = length l.
Proof. induction l as [|y l IH]; intros [|i] x; cbn [list_set length]; try reflexivity. rewrite IH. reflexivity. Qed.
Lemma get_db_after_set s s' dbi d' :
  length (s_dbs s) = 16%nat -> 0 <= dbi < 16 -> s_dbs s' = list_set (s_dbs s) (Z.to_nat dbi) d' ->
  get_db s' dbi = d' /\ (forall j, 0 <= j -> j <> dbi -> get_db s' j = get_db s j) /\ length (s_dbs s') = 16%nat.
Proof.
  intros Hl Hr Hs. unfold get_db. rewrite Hs. split; [|split].
  - apply nth_list_set_same. lia.
  - intros j Hj Hn. apply nth_list_set_other. lia.
  - rewrite length_list_set. exact Hl.
Qed.

(** the multiset change of a step on the lists: added and removed elements *)
Definition delta (s s' : server) (add rem : list elem) : Prop :=
  forall db k x, 0 <= db ->
  occm x (list_at s' db k) + ecountm (db, k, x) rem = occm x (list_at s db k) + ecountm (db, k, x) add.
Lemma delta_same s s' : (forall db, get_db s' db = get_db s db) -> delta s s' [] [].
Proof. intros H db k x _. rewrite !list_at_lst, H. reflexivity. Qed.
Lemma delta_trans s1 s2 s3 a1 r1 a2 r2 : delta s1 s2 a1 r1 -> delta s2 s3 a2 r2 -> delta s1 s3 (a1 ++ a2) (r1 ++ r2).
Proof. intros H1 H2 db k x Hd. specialize (H1 db k x Hd). specialize (H2 db k x Hd). rewrite !ecount_app. lia. Qed.

(** every element of these lists lives in database dbi *)
Definition in_db (dbi : Z) (l : list elem) : Prop := forall e, In e l -> fst (fst e) = dbi.
Lemma ecount_other_db dbi l db k x : in_db dbi l -> db <> dbi -> ecountm (db, k, x) l = 0.
Proof.
  intros H Hn. induction l as [|[[d1 k1] x1] l IH]; [reflexivity|].
  rewrite ecount_cons, elem_eqb_spec, IH by (intros e He; apply H; right; exact He).
  pose proof (H (d1, k1, x1) (or_introl eq_refl)) as Hd. cbn [fst] in Hd. subst d1.
  replace (db =? dbi) with false by lia. reflexivity.
Qed.
Lemma in_db_nil dbi : in_db dbi [].
Proof. intros e0 []. Qed.
Lemma pushed_of_in_db dbi parts rep : in_db dbi (pushed_of dbi parts rep).
Proof.
  unfold pushed_of. destruct parts as [|p1 [|p2 els]]; try apply in_db_nil;
    destruct p1; try apply in_db_nil.
  destruct p2; try apply in_db_nil; destruct rep; try apply in_db_nil.
  destruct (is_push_name (upper b)); [|apply in_db_nil].
  intros e0 He. apply in_map_iff in He. destruct He as [y [<- _]]. reflexivity.
Qed.
Lemma returned_of_in_db dbi parts rep : in_db dbi (returned_of dbi parts rep).
Proof.
  unfold returned_of. destruct parts as [|p1 rest]; try apply in_db_nil; destruct p1; try apply in_db_nil.
  destruct (beq (upper b) (bs "LPOP") || beq (upper b) (bs "RPOP")).
  - destruct rest as [|p2 ?]; try apply in_db_nil. destruct p2; try apply in_db_nil.
    destruct rep; try apply in_db_nil. intros e0 [<-|[]]. reflexivity.
  - destruct (is_bpop_name (upper b)); [|apply in_db_nil]. destruct rep; try apply in_db_nil.
    destruct l as [|q1 l1]; try apply in_db_nil. destruct q1; try apply in_db_nil.
    destruct l1 as [|q2 l2]; try apply in_db_nil. destruct q2; try apply in_db_nil.
    destruct l2; try apply in_db_nil. intros e0 [<-|[]]. reflexivity.
Qed.

(** a handler that worked on database dbi alone *)
Lemma delta_one_db s s' dbi d' add rem :
  length (s_dbs s) = 16%nat -> 0 <= dbi < 16 -> s_dbs s' = list_set (s_dbs s) (Z.to_nat dbi) d' ->
  in_db dbi add -> in_db dbi rem ->
  (forall k x, occm x (lst d' k) + ecountm (dbi, k, x) rem = occm x (lst (get_db s dbi) k) + ecountm (dbi, k, x) add) ->
  delta s s' add rem.
Proof.
  intros Hl Hr Hs Ha Hm H db k x Hd. destruct (get_db_after_set s s' dbi d' Hl Hr Hs) as (G1 & G2 & _).
  rewrite !list_at_lst. destruct (Z.eq_dec db dbi) as [->|Hn].
  - rewrite G1. apply H.
  - rewrite (G2 db Hd Hn), (ecount_other_db dbi add) by assumption. rewrite (ecount_other_db dbi rem) by assumption. reflexivity.
Qed.

(** ================= handlers on a database whose keys all hold lists ================= *)
Definition ALLd (d : db) : Prop := (forall k, lview d k <> None) /\ NOEXPd d.
Lemma ALLd_on_key d k f : ALLd d -> lview (snd (on_key d k f)) k <> None -> ALLd (snd (on_key d k f)).
Proof.
  intros [H1 H2] Hk. split; [|apply noexp_on_key; exact H2].
  intros k'. destruct (beq k' k) eqn:Ek; [apply beq_eq in Ek; subst; exact Hk|rewrite lview_on_key_other by exact Ek; apply H1].
Qed.
Lemma all_bulks_bulk_args : forall l els, all_bulks l = Some els -> bulk_args l = els.
Proof.
  induction l as [|f l IH]; intros els H; cbn [all_bulks bulk_args] in *; [injection H as <-; reflexivity|].
  destruct f; try discriminate. destruct (all_bulks l) as [t|]; [|discriminate]. injection H as <-. rewrite (IH t eq_refl). reflexivity.
Qed.
Lemma lst_view d k l : lview d k = Some l -> lst d k = l.
Proof. unfold lst. intros ->. reflexivity. Qed.
Lemma on_key_other_lst d k f k' : beq k' k = false -> lst (snd (on_key d k f)) k' = lst d k'.
Proof. intros H. unfold lst. rewrite lview_on_key_other by exact H. reflexivity. Qed.

Lemma h_push_delta left d nm rest dbi r d' :
  ALLd d -> is_push_name (upper nm) = true -> h_push left d (FBulk nm :: rest) = (r, d') ->
  ALLd d' /\ forall k x, occm x (lst d' k) = occm x (lst d k) + ecountm (dbi, k, x) (pushed_of dbi (FBulk nm :: rest) r).
Proof.
  intros HA Hn H. unfold h_push in H.
  assert (Same : forall r0, (forall els0 z, r0 <> FInt z \/ rest = els0 -> True) -> (match r0 with FInt _ => False | _ => True end) ->
            (r0, d) = (r, d') -> ALLd d' /\ forall k x, occm x (lst d' k) = occm x (lst d k) + ecountm (dbi, k, x) (pushed_of dbi (FBulk nm :: rest) r)).
  { intros r0 _ Hr E. injection E as <- <-. split; [exact HA|]. intros k x.
    unfold pushed_of. destruct rest as [|[] ?]; try (rewrite ecount_nil; lia). destruct r0; try (rewrite ecount_nil; lia). contradiction. }
  destruct (nparts (FBulk nm :: rest) <? 3); [eapply (Same r_err); [auto|exact I|exact H]|].
  unfold key_of, nth_arg in H. cbn [nth_error] in H. destruct rest as [|kf els]; [eapply (Same r_err); [auto|exact I|exact H]|].
  cbn [nth_error arg_bytes] in H. destruct kf as [| | |k| | | | | | | | |]; try (eapply (Same r_err); [auto|exact I|exact H]).
  cbn [skipn arg_bytes] in H. destruct (all_bulks els) as [els'|] eqn:Eb; [|eapply (Same r_err); [auto|exact I|exact H]].
  destruct (lview d k) as [l|] eqn:El; [|exfalso; exact (proj1 HA k El)].
  pose proof (push_view left els' d k l El) as Hp. cbv zeta in Hp. destruct Hp as [Hp1 Hp2].
  assert (E1 : r = fst (on_key d k (e_push left els'))) by (rewrite H; reflexivity).
  assert (E2 : d' = snd (on_key d k (e_push left els'))) by (rewrite H; reflexivity).
  split.
  - subst d'. apply ALLd_on_key; [exact HA|rewrite Hp2; discriminate].
  - intros k' x. subst r. rewrite Hp1. unfold pushed_of. rewrite Hn, (all_bulks_bulk_args _ _ Eb), ecount_tag, Z.eqb_refl. cbn [andb].
    subst d'. destruct (beq k' k) eqn:Ek.
    + apply beq_eq in Ek. subst k'. rewrite (lst_view _ _ _ Hp2), (lst_view _ _ _ El).
      destruct left; rewrite occ_app, ?occ_rev; lia.
    + rewrite on_key_other_lst by exact Ek. lia.
Qed.

Lemma rev_nil_inv {A} (l : list A) : rev l = [] -> l = [].
Proof. intros H. apply (f_equal (@rev A)) in H. rewrite rev_involutive in H. exact H. Qed.
Lemma rev_cons_inv {A} (l : list A) x t : rev l = x :: t -> l = rev t ++ [x].
Proof. intros H. apply (f_equal (@rev A)) in H. rewrite rev_involutive in H. exact H. Qed.

Lemma on_key_pop_delta left d k dbi :
  ALLd d ->
  let r := fst (on_key d k (e_pop left)) in let d' := snd (on_key d k (e_pop left)) in
  ALLd d' /\ (match r with FBulk _ | FNullBulk => True | _ => False end) /\
  forall k' x, occm x (lst d' k') + ecountm (dbi, k', x) (match r with FBulk v => [(dbi, k, v)] | _ => [] end) = occm x (lst d k').
Proof.
  intros HA. cbv zeta. destruct (lview d k) as [l|] eqn:El; [|exfalso; exact (proj1 HA k El)].
  pose proof (pop_view left d k l El) as Hp.
  assert (Hoth : forall k', beq k' k = false -> lview (snd (on_key d k (e_pop left))) k' = lview d k')
    by (intros k' Hk; apply lview_on_key_other; exact Hk).
  destruct (if left then l else rev l) as [|v t] eqn:Ev; destruct Hp as [Hp1 Hp2]; rewrite Hp1.
  - split; [|split; [exact I|]].
    + apply ALLd_on_key; [exact HA|rewrite Hp2; discriminate].
    + intros k' x. cbn [r_nil]. rewrite ecount_nil. destruct (beq k' k) eqn:Ek.
      * apply beq_eq in Ek. subst k'. rewrite (lst_view _ _ _ Hp2), (lst_view _ _ _ El).
        assert (l = []) by (destruct left; [exact Ev|apply rev_nil_inv; exact Ev]). subst l. reflexivity.
      * unfold lst. rewrite Hoth by exact Ek. lia.
  - split; [|split; [exact I|]].
    + apply ALLd_on_key; [exact HA|rewrite Hp2; discriminate].
    + intros k' x. rewrite ecount_cons, ecount_nil, elem_eqb_spec, Z.eqb_refl. cbn [andb]. destruct (beq k' k) eqn:Ek.
      * apply beq_eq in Ek. subst k'. rewrite (lst_view _ _ _ Hp2), (lst_view _ _ _ El). cbn [andb].
        destruct left.
        -- subst l. rewrite occ_cons. lia.
        -- apply rev_cons_inv in Ev. subst l. rewrite occ_app, occ_cons, occ_nil. lia.
      * cbn [andb]. unfold lst. rewrite Hoth by exact Ek. lia.
Qed.

Lemma h_pop_delta left d nm rest dbi r d' :
  ALLd d -> beq (upper nm) (bs "LPOP") || beq (upper nm) (bs "RPOP") = true ->
  h_key1 (e_pop left) d (FBulk nm :: rest) = (r, d') ->
  ALLd d' /\ forall k x, occm x (lst d' k) + ecountm (dbi, k, x) (returned_of dbi (FBulk nm :: rest) r) = occm x (lst d k).
Proof.
  intros HA Hn H. unfold h_key1 in H.
  assert (Err : (r_err, d) = (r, d') ->
            ALLd d' /\ forall k x, occm x (lst d' k) + ecountm (dbi, k, x) (returned_of dbi (FBulk nm :: rest) r) = occm x (lst d k)).
  { intros E. injection E as <- <-. split; [exact HA|]. intros k x. unfold returned_of. rewrite Hn.
    destruct rest as [|[] ?]; rewrite ecount_nil; lia. }
  destruct (negb (nparts (FBulk nm :: rest) =? 2)) eqn:En; [apply Err; exact H|].
  unfold key_of, nth_arg in H. cbn [nth_error] in H. destruct rest as [|kf rest']; [apply Err; exact H|].
  cbn [nth_error arg_bytes] in H. destruct kf as [| | |k| | | | | | | | |]; try (apply Err; exact H). cbn [arg_bytes] in H.
  pose proof (on_key_pop_delta left d k dbi HA) as Hp. cbv zeta in Hp. rewrite H in Hp. cbn [fst snd] in Hp.
  destruct Hp as (P1 & P2 & P3). split; [exact P1|]. intros k' x. unfold returned_of. rewrite Hn.
  destruct r; try contradiction; apply P3.
Qed.

(** the reading list commands leave the database alone *)
Lemma h_llen_keep d parts : snd (h_key1 e_llen d parts) = d.
Proof.
  unfold h_key1. destruct (negb (nparts parts =? 2)); [reflexivity|]. destruct (key_of parts); [|reflexivity].
  apply keep_view. intros cur. unfold e_llen. destruct cur as [[]|]; reflexivity.
Qed.
Lemma h_lrange_keep d parts : snd (h_range e_lrange d parts) = d.
Proof.
  unfold h_range. destruct (negb (nparts parts =? 4)); [reflexivity|]. destruct (key_of parts); [|reflexivity].
  destruct (nth_arg parts 2); [|reflexivity]. destruct (parse_isize b0); [|reflexivity].
  destruct (nth_arg parts 3); [|reflexivity]. destruct (parse_isize b1); [|reflexivity].
  apply keep_view. intros cur. unfold e_lrange. destruct cur as [[]|]; reflexivity.
Qed.
Lemma h_lindex_keep d parts : snd (h_lindex d parts) = d.
Proof.
  unfold h_lindex. destruct (negb (nparts parts =? 3)); [reflexivity|]. destruct (key_of parts); [|reflexivity].
  destruct (nth_arg parts 2); [|reflexivity]. destruct (parse_isize b0); [|reflexivity].
  apply keep_view. intros cur. unfold e_lindex. destruct cur as [[]|]; reflexivity.
Qed.

(** ================= the server-side invariant of the list-command histories ================= *)
Definition list_parts (parts : list frame) : bool := list_frame (FArray parts).
Record cinv (s : server) : Prop := mk_cinv {
  ci_len : length (s_dbs s) = 16%nat;
  ci_all : forall db, ALLd (get_db s db);                (* every stored value is a list *)
  ci_db : forall c cn, zlookup c (s_conns s) = Some cn -> 0 <= c_db cn < 16;
  ci_pw : s_password s = None;
  ci_q : forall c cn, zlookup c (s_conns s) = Some cn -> forallb list_parts (c_queue cn) = true
}.
Lemma nth_list_set_cases {A} (l : list A) : forall i j x dflt, nth j (list_set l i x) dflt = x \/ nth j (list_set l i x) dflt = nth j l dflt.
Proof.
  induction l as [|y l IH]; intros i j x dflt; [right; destruct i; reflexivity|].
  destruct i, j; cbn [list_set nth]; auto.
Qed.
Lemma cinv_set_db s s' dbi d' :
  cinv s -> s_dbs s' = list_set (s_dbs s) (Z.to_nat dbi) d' -> ALLd d' ->
  s_conns s' = s_conns s -> s_password s' = s_password s -> cinv s'.
Proof.
  intros [H1 H2 H3 H4 H5] Hd Ha Hc Hp. constructor.
  - rewrite Hd, length_list_set. exact H1.
  - intros db. unfold get_db. rewrite Hd. destruct (nth_list_set_cases (s_dbs s) (Z.to_nat dbi) (Z.to_nat db) d' empty_db) as [->| ->]; [exact Ha|apply H2].
  - rewrite Hc. exact H3.
  - rewrite Hp. exact H4.
  - rewrite Hc. exact H5.
Qed.
Lemma cinv_same_dbs s s' : cinv s -> s_dbs s' = s_dbs s -> s_conns s' = s_conns s -> s_password s' = s_password s -> cinv s'.
Proof.
  intros [H1 H2 H3 H4 H5] Hd Hc Hp. constructor.
  - rewrite Hd. exact H1.
  - intros db. unfold get_db. rewrite Hd. apply H2.
  - rewrite Hc. exact H3.
  - rewrite Hp. exact H4.
  - rewrite Hc. exact H5.
Qed.
Lemma delta_same_dbs s s' : s_dbs s' = s_dbs s -> delta s s' [] [].
Proof. intros H. apply delta_same. intros db. unfold get_db. rewrite H. reflexivity. Qed.

(** effects of the commands that neither push nor pop *)
Lemma pushed_of_nil dbi nm rest rep : is_push_name (upper nm) = false -> pushed_of dbi (FBulk nm :: rest) rep = [].
Proof. intros H. unfold pushed_of. destruct rest as [|[] ?]; try reflexivity. destruct rep; try reflexivity. rewrite H. reflexivity. Qed.
Lemma returned_of_nil dbi nm rest rep :
  beq (upper nm) (bs "LPOP") || beq (upper nm) (bs "RPOP") = false -> is_bpop_name (upper nm) = false ->
  returned_of dbi (FBulk nm :: rest) rep = [].
Proof. intros H1 H2. unfold returned_of. rewrite H1, H2. reflexivity. Qed.

Lemma bmem_In x l : bmem x l = true -> In x l.
Proof.
  induction l as [|y l IH]; cbn [bmem]; [discriminate|]. intros H. apply orb_true_iff in H. destruct H as [H|H].
  - left. apply beq_eq in H. congruence.
  - right. apply IH. exact H.
Qed.

(** process_normal_command + the blocking manager, for a command handed to exec_db *)
Lemma bnormal_exec_db now s b c dbi nm rest oms r d' :
  NOEXPd (get_db s dbi) ->
  forallb (fun sp => negb (beq (upper nm) sp)) special_names = true ->
  bpop_parts (FBulk nm :: rest) = false -> beq (upper nm) (bs "EVAL") = false ->
  exec_db now (get_db s dbi) (upper nm) (FBulk nm :: rest) None = Some (r, d') ->
  exists s', bnormal now s b c dbi (FBulk nm :: rest) None oms = (r, s', notify_after_push b dbi (upper nm) (FBulk nm :: rest) r)
    /\ s_conns s' = s_conns s /\ s_password s' = s_password s /\ s_dbs s' = list_set (s_dbs s) (Z.to_nat dbi) d'.
Proof.
  intros HN Hsp Hb Hev He. rewrite bpop_parts_names in Hb. apply orb_false_iff in Hb. destruct Hb as [Hb1 Hb2].
  destruct (nc_via_exec_db now s c dbi nm rest None r d' HN Hsp He) as (s' & H1 & H2 & H3 & H4).
  exists s'. unfold bnormal. rewrite Hb1, Hb2, H1, Hev. repeat split; assumption.
Qed.
(** ... and for a name exec_db does not know: an error, nothing changes *)
Lemma dc_unknown now s c dbi nm rest :
  forallb (fun sp => negb (beq (upper nm) sp)) special_names = true ->
  exec_db now (get_db s dbi) (upper nm) (FBulk nm :: rest) None = None ->
  exists r s', dispatch_command now s c dbi (FBulk nm :: rest) None = (r, s')
    /\ s_conns s' = s_conns s /\ s_password s' = s_password s /\ s_dbs s' = s_dbs s.
Proof.
  intros Hsp He.
  unfold special_names in Hsp. cbn [forallb] in Hsp.
  repeat (apply andb_true_iff in Hsp; destruct Hsp as [?H Hsp]).
  repeat match goal with H : negb _ = true |- _ => apply negb_true_iff in H end.
  unfold dispatch_command.
  set (s0 := if logs_before (upper nm) (FBulk nm :: rest) then log_aof_in s dbi (FBulk nm :: rest) else s).
  assert (Hd : get_db s0 dbi = get_db s dbi) by (unfold s0; destruct (logs_before (upper nm) (FBulk nm :: rest)); [unfold log_aof_in; destruct (same_db _ _)|]; reflexivity).
  assert (Hc : s_conns s0 = s_conns s) by (unfold s0; destruct (logs_before (upper nm) (FBulk nm :: rest)); [unfold log_aof_in; destruct (same_db _ _)|]; reflexivity).
  assert (Hp : s_password s0 = s_password s) by (unfold s0; destruct (logs_before (upper nm) (FBulk nm :: rest)); [unfold log_aof_in; destruct (same_db _ _)|]; reflexivity).
  assert (Hl : s_dbs s0 = s_dbs s) by (unfold s0; destruct (logs_before (upper nm) (FBulk nm :: rest)); [unfold log_aof_in; destruct (same_db _ _)|]; reflexivity).
  rewrite H, H0, H1, H2, H3, H4, H5, H6. rewrite Hd, He.
  eexists. exists s0. split; [reflexivity|]. repeat split; assumption.
Qed.
Lemma bnormal_unknown now s b c dbi nm rest oms :
  NOEXPd (get_db s dbi) ->
  forallb (fun sp => negb (beq (upper nm) sp)) special_names = true ->
  bpop_parts (FBulk nm :: rest) = false -> is_push_name (upper nm) = false -> beq (upper nm) (bs "EVAL") = false ->
  exec_db now (get_db s dbi) (upper nm) (FBulk nm :: rest) None = None ->
  exists r s', bnormal now s b c dbi (FBulk nm :: rest) None oms = (r, s', b)
    /\ s_conns s' = s_conns s /\ s_password s' = s_password s /\ s_dbs s' = s_dbs s.
Proof.
  intros HN Hsp Hb Hpn Hev He. rewrite bpop_parts_names in Hb. apply orb_false_iff in Hb. destruct Hb as [Hb1 Hb2].
  destruct (normal_command_noexp now s c dbi nm rest None HN) as (s1 & E & D1 & D2 & D3).
  assert (Hg : get_db s1 dbi = get_db s dbi) by (unfold get_db; rewrite D1; reflexivity).
  rewrite <- Hg in He. destruct (dc_unknown now s1 c dbi nm rest Hsp He) as (r & s' & H1 & H2 & H3 & H4).
  exists r, s'. unfold bnormal. rewrite Hb1, Hb2, E, H1, Hev. cbv zeta.
  split; [unfold notify_after_push; rewrite Hpn; reflexivity|].
  rewrite H2, H3, H4, D1, D2, D3. repeat split; reflexivity.
Qed.

(** PING and SELECT are answered by process_normal_command itself *)
Lemma nc_ping now s c dbi nm rest o r s' :
  NOEXPd (get_db s dbi) ->
  beq (upper nm) (bs "PING") = true -> normal_command now s c dbi (FBulk nm :: rest) o = (r, s') ->
  s_dbs s' = s_dbs s /\ s_conns s' = s_conns s /\ s_password s' = s_password s.
Proof.
  intros HN Hp H. destruct (normal_command_noexp now s c dbi nm rest o HN) as (s1 & E & D1 & D2 & D3).
  rewrite E in H. unfold dispatch_command in H. rewrite Hp in H.
  destruct (logs_before (upper nm) (FBulk nm :: rest)); [unfold log_aof_in in H; destruct (same_db _ _)|]; injection H as _ <-;
    cbn [s_dbs s_conns s_password]; repeat split; assumption.
Qed.
Lemma dc_select now s c dbi nm rest o r s' :
  beq (upper nm) (bs "PING") = false -> beq (upper nm) (bs "ECHO") = false -> beq (upper nm) (bs "SELECT") = true ->
  dispatch_command now s c dbi (FBulk nm :: rest) o = (r, s') ->
  s_dbs s' = s_dbs s /\ s_password s' = s_password s /\
  (forall c' cn', zlookup c' (s_conns s') = Some cn' ->
    exists cn, zlookup c' (s_conns s) = Some cn /\ c_queue cn' = c_queue cn /\ (c_db cn' = c_db cn \/ 0 <= c_db cn' < 16)) /\
  (forall cn, zlookup c (s_conns s) = Some cn ->
    exists cn', zlookup c (s_conns s') = Some cn' /\ c_db cn' = next_db (c_db cn) (FBulk nm :: rest) r).
Proof.
  intros H1 H2 H3 H. unfold dispatch_command in H. rewrite H1, H2, H3 in H.
  set (s0 := if logs_before (upper nm) (FBulk nm :: rest) then log_aof_in s dbi (FBulk nm :: rest) else s) in *.
  assert (Hc : s_conns s0 = s_conns s) by (unfold s0; destruct (logs_before (upper nm) (FBulk nm :: rest)); [unfold log_aof_in; destruct (same_db _ _)|]; reflexivity).
  assert (Hp : s_password s0 = s_password s) by (unfold s0; destruct (logs_before (upper nm) (FBulk nm :: rest)); [unfold log_aof_in; destruct (same_db _ _)|]; reflexivity).
  assert (Hl : s_dbs s0 = s_dbs s) by (unfold s0; destruct (logs_before (upper nm) (FBulk nm :: rest)); [unfold log_aof_in; destruct (same_db _ _)|]; reflexivity).
  assert (Keep : forall c' cn', zlookup c' (s_conns s0) = Some cn' ->
            exists cn, zlookup c' (s_conns s) = Some cn /\ c_queue cn' = c_queue cn /\ (c_db cn' = c_db cn \/ 0 <= c_db cn' < 16)).
  { intros c' cn' Hc'. rewrite Hc in Hc'. exists cn'. split; [exact Hc'|]. split; [reflexivity|left; reflexivity]. }
  assert (Same : forall r0, is_ok r0 = false -> (r0, s0) = (r, s') ->
            s_dbs s' = s_dbs s /\ s_password s' = s_password s /\
            (forall c' cn', zlookup c' (s_conns s') = Some cn' ->
               exists cn, zlookup c' (s_conns s) = Some cn /\ c_queue cn' = c_queue cn /\ (c_db cn' = c_db cn \/ 0 <= c_db cn' < 16)) /\
            (forall cn, zlookup c (s_conns s) = Some cn ->
               exists cn', zlookup c (s_conns s') = Some cn' /\ c_db cn' = next_db (c_db cn) (FBulk nm :: rest) r)).
  { intros r0 Hr0 E. injection E as <- <-. split; [exact Hl|]. split; [exact Hp|]. split; [exact Keep|].
    intros cn Hcn. exists cn. rewrite Hc. split; [exact Hcn|]. unfold next_db.
    destruct rest as [|a0 [|? ?]]; try reflexivity; destruct a0; try reflexivity. rewrite Hr0, andb_false_r. reflexivity. }
  destruct rest as [|a [|? ?]].
  1:{ eapply Same; [|exact H]; reflexivity. }
  2:{ destruct a; (eapply Same; [|exact H]; reflexivity). }
  destruct a; try (eapply Same; [|exact H]; reflexivity).
  destruct (parse_usize b) as [n|] eqn:En; [|eapply Same; [|exact H]; reflexivity].
  destruct (16 <=? n) eqn:E16; [eapply Same; [|exact H]; reflexivity|].
  destruct (zlookup c (s_conns s0)) as [cn|] eqn:Ec.
  2:{ injection H as <- <-. split; [exact Hl|]. split; [exact Hp|]. split; [exact Keep|].
      intros cn Hcn. rewrite Hc in Ec. congruence. }
  injection H as <- <-. cbn [set_conn s_dbs s_password s_conns]. split; [exact Hl|]. split; [exact Hp|]. split.
  - intros c' cn' Hc'. destruct (Z.eq_dec c' c) as [->|Hne].
    + rewrite zlookup_zset_same in Hc'. injection Hc' as <-. rewrite Hc in Ec. exists cn. split; [exact Ec|]. split; [reflexivity|].
      right. cbn [c_db]. pose proof (parse_usize_nonneg _ _ En). lia.
    + rewrite zlookup_zset_other in Hc' by exact Hne. apply Keep. exact Hc'.
  - intros cn0 Hcn0. eexists. rewrite zlookup_zset_same. split; [reflexivity|]. cbn [c_db]. unfold next_db.
    rewrite H3, En. reflexivity.
Qed.
Lemma nc_select now s c dbi nm rest o r s' :
  NOEXPd (get_db s dbi) ->
  beq (upper nm) (bs "PING") = false -> beq (upper nm) (bs "ECHO") = false -> beq (upper nm) (bs "SELECT") = true ->
  normal_command now s c dbi (FBulk nm :: rest) o = (r, s') ->
  s_dbs s' = s_dbs s /\ s_password s' = s_password s /\
  (forall c' cn', zlookup c' (s_conns s') = Some cn' ->
    exists cn, zlookup c' (s_conns s) = Some cn /\ c_queue cn' = c_queue cn /\ (c_db cn' = c_db cn \/ 0 <= c_db cn' < 16)) /\
  (forall cn, zlookup c (s_conns s) = Some cn ->
    exists cn', zlookup c (s_conns s') = Some cn' /\ c_db cn' = next_db (c_db cn) (FBulk nm :: rest) r).
Proof.
  intros HN H1 H2 H3 H. destruct (normal_command_noexp now s c dbi nm rest o HN) as (s1 & E & D1 & D2 & D3).
  rewrite E in H. destruct (dc_select _ _ _ _ _ _ _ _ _ H1 H2 H3 H) as (G1 & G2 & G3 & G4).
  rewrite D1 in G1. rewrite D3 in G2. rewrite D2 in G3, G4. repeat split; assumption.
Qed.
(** the invariant survives a SELECT *)
Lemma cinv_after_select s s' :
  cinv s -> s_dbs s' = s_dbs s -> s_password s' = s_password s ->
  (forall c' cn', zlookup c' (s_conns s') = Some cn' ->
    exists cn, zlookup c' (s_conns s) = Some cn /\ c_queue cn' = c_queue cn /\ (c_db cn' = c_db cn \/ 0 <= c_db cn' < 16)) ->
  cinv s'.
Proof.
  intros [C1 C2 C3 C4 C5] E1 E2 E3. constructor.
  - rewrite E1. exact C1.
  - intros db. unfold get_db. rewrite E1. apply C2.
  - intros c' cn' Hc'. destruct (E3 c' cn' Hc') as (cn & G1 & G2 & [G3|G3]); [rewrite G3; eapply C3; exact G1|exact G3].
  - rewrite E2. exact C4.
  - intros c' cn' Hc'. destruct (E3 c' cn' Hc') as (cn & G1 & G2 & _). rewrite G2. eapply C5; exact G1.
Qed.

Ltac name_facts Hn := rewrite ?Hn; reflexivity.

(** one list command (not a blocking pop) through process_normal_command *)
Lemma bnormal_list now s b c dbi nm rest oms rep s' b' :
  cinv s -> 0 <= dbi < 16 -> bmem (upper nm) list_cmds = true -> bpop_parts (FBulk nm :: rest) = false ->
  bnormal now s b c dbi (FBulk nm :: rest) None oms = (rep, s', b') ->
  cinv s' /\ delta s s' (pushed_of dbi (FBulk nm :: rest) rep) (returned_of dbi (FBulk nm :: rest) rep).
Proof.
  intros CI Hr Hin Hb H. apply bmem_In in Hin. unfold list_cmds in Hin. cbn [In] in Hin.
  pose proof (ci_all s CI dbi) as HA. pose proof (ci_len s CI) as HL.
  destruct Hin as [Hn|[Hn|[Hn|[Hn|[Hn|[Hn|[Hn|[Hn|[Hn|[Hn|[Hn|[Hn|[Hn|[Hn|[]]]]]]]]]]]]]]]; symmetry in Hn.
  - (* LPUSH *)
    destruct (h_push true (get_db s dbi) (FBulk nm :: rest)) as [r d'] eqn:Eh.
    assert (He : exec_db now (get_db s dbi) (upper nm) (FBulk nm :: rest) None = Some (r, d')) by (rewrite Hn, exec_db_lpush, Eh; reflexivity).
    destruct (bnormal_exec_db now s b c dbi nm rest oms r d' (proj2 HA) ltac:(name_facts Hn) Hb ltac:(name_facts Hn) He) as (s1 & E1 & E2 & E3 & E4).
    rewrite E1 in H. injection H as <- <- <-.
    destruct (h_push_delta true _ nm rest dbi r d' HA ltac:(name_facts Hn) Eh) as [A1 A2].
    split; [eapply cinv_set_db; eauto|].
    rewrite (returned_of_nil dbi nm rest r) by (name_facts Hn).
    eapply delta_one_db; eauto using pushed_of_in_db, in_db_nil. intros k x. rewrite ecount_nil, A2. lia.
  - (* RPUSH *)
    destruct (h_push false (get_db s dbi) (FBulk nm :: rest)) as [r d'] eqn:Eh.
    assert (He : exec_db now (get_db s dbi) (upper nm) (FBulk nm :: rest) None = Some (r, d')) by (rewrite Hn, exec_db_rpush, Eh; reflexivity).
    destruct (bnormal_exec_db now s b c dbi nm rest oms r d' (proj2 HA) ltac:(name_facts Hn) Hb ltac:(name_facts Hn) He) as (s1 & E1 & E2 & E3 & E4).
    rewrite E1 in H. injection H as <- <- <-.
    destruct (h_push_delta false _ nm rest dbi r d' HA ltac:(name_facts Hn) Eh) as [A1 A2].
    split; [eapply cinv_set_db; eauto|].
    rewrite (returned_of_nil dbi nm rest r) by (name_facts Hn).
    eapply delta_one_db; eauto using pushed_of_in_db, in_db_nil. intros k x. rewrite ecount_nil, A2. lia.
  - (* LPOP *)
    destruct (h_key1 (e_pop true) (get_db s dbi) (FBulk nm :: rest)) as [r d'] eqn:Eh.
    assert (He : exec_db now (get_db s dbi) (upper nm) (FBulk nm :: rest) None = Some (r, d')) by (rewrite Hn, exec_db_lpop, Eh; reflexivity).
    destruct (bnormal_exec_db now s b c dbi nm rest oms r d' (proj2 HA) ltac:(name_facts Hn) Hb ltac:(name_facts Hn) He) as (s1 & E1 & E2 & E3 & E4).
    rewrite E1 in H. injection H as <- <- <-.
    destruct (h_pop_delta true _ nm rest dbi r d' HA ltac:(name_facts Hn) Eh) as [A1 A2].
    split; [eapply cinv_set_db; eauto|].
    rewrite (pushed_of_nil dbi nm rest r) by (name_facts Hn).
    eapply delta_one_db; eauto using returned_of_in_db, in_db_nil. intros k x. rewrite ecount_nil, A2. lia.
  - (* RPOP *)
    destruct (h_key1 (e_pop false) (get_db s dbi) (FBulk nm :: rest)) as [r d'] eqn:Eh.
    assert (He : exec_db now (get_db s dbi) (upper nm) (FBulk nm :: rest) None = Some (r, d')) by (rewrite Hn, exec_db_rpop, Eh; reflexivity).
    destruct (bnormal_exec_db now s b c dbi nm rest oms r d' (proj2 HA) ltac:(name_facts Hn) Hb ltac:(name_facts Hn) He) as (s1 & E1 & E2 & E3 & E4).
    rewrite E1 in H. injection H as <- <- <-.
    destruct (h_pop_delta false _ nm rest dbi r d' HA ltac:(name_facts Hn) Eh) as [A1 A2].
    split; [eapply cinv_set_db; eauto|].
    rewrite (pushed_of_nil dbi nm rest r) by (name_facts Hn).
    eapply delta_one_db; eauto using returned_of_in_db, in_db_nil. intros k x. rewrite ecount_nil, A2. lia.
  - (* BLPOP *) rewrite bpop_parts_names, Hn in Hb. discriminate.
  - (* BRPOP *) rewrite bpop_parts_names, Hn in Hb. discriminate.
  - (* LLEN *)
    destruct (h_key1 e_llen (get_db s dbi) (FBulk nm :: rest)) as [r d'] eqn:Eh.
    assert (Hd' : d' = get_db s dbi) by (rewrite <- (h_llen_keep (get_db s dbi) (FBulk nm :: rest)), Eh; reflexivity).
    assert (He : exec_db now (get_db s dbi) (upper nm) (FBulk nm :: rest) None = Some (r, d')) by (rewrite Hn, exec_db_llen, Eh; reflexivity).
    destruct (bnormal_exec_db now s b c dbi nm rest oms r d' (proj2 HA) ltac:(name_facts Hn) Hb ltac:(name_facts Hn) He) as (s1 & E1 & E2 & E3 & E4).
    rewrite E1 in H. injection H as <- <- <-.
    split; [eapply cinv_set_db; eauto; subst d'; exact HA|].
    rewrite (pushed_of_nil dbi nm rest r) by (name_facts Hn). rewrite (returned_of_nil dbi nm rest r) by (name_facts Hn).
    eapply delta_one_db; eauto using in_db_nil. intros k x. subst d'. reflexivity.
  - (* LRANGE *)
    destruct (h_range e_lrange (get_db s dbi) (FBulk nm :: rest)) as [r d'] eqn:Eh.
    assert (Hd' : d' = get_db s dbi) by (rewrite <- (h_lrange_keep (get_db s dbi) (FBulk nm :: rest)), Eh; reflexivity).
    assert (He : exec_db now (get_db s dbi) (upper nm) (FBulk nm :: rest) None = Some (r, d')) by (rewrite Hn, exec_db_lrange, Eh; reflexivity).
    destruct (bnormal_exec_db now s b c dbi nm rest oms r d' (proj2 HA) ltac:(name_facts Hn) Hb ltac:(name_facts Hn) He) as (s1 & E1 & E2 & E3 & E4).
    rewrite E1 in H. injection H as <- <- <-.
    split; [eapply cinv_set_db; eauto; subst d'; exact HA|].
    rewrite (pushed_of_nil dbi nm rest r) by (name_facts Hn). rewrite (returned_of_nil dbi nm rest r) by (name_facts Hn).
    eapply delta_one_db; eauto using in_db_nil. intros k x. subst d'. reflexivity.
  - (* LINDEX *)
    destruct (h_lindex (get_db s dbi) (FBulk nm :: rest)) as [r d'] eqn:Eh.
    assert (Hd' : d' = get_db s dbi) by (rewrite <- (h_lindex_keep (get_db s dbi) (FBulk nm :: rest)), Eh; reflexivity).
    assert (He : exec_db now (get_db s dbi) (upper nm) (FBulk nm :: rest) None = Some (r, d')) by (rewrite Hn, exec_db_lindex, Eh; reflexivity).
    destruct (bnormal_exec_db now s b c dbi nm rest oms r d' (proj2 HA) ltac:(name_facts Hn) Hb ltac:(name_facts Hn) He) as (s1 & E1 & E2 & E3 & E4).
    rewrite E1 in H. injection H as <- <- <-.
    split; [eapply cinv_set_db; eauto; subst d'; exact HA|].
    rewrite (pushed_of_nil dbi nm rest r) by (name_facts Hn). rewrite (returned_of_nil dbi nm rest r) by (name_facts Hn).
    eapply delta_one_db; eauto using in_db_nil. intros k x. subst d'. reflexivity.
  - (* MULTI reaching process_normal_command: unknown command *)
    destruct (bnormal_unknown now s b c dbi nm rest oms (proj2 HA) ltac:(name_facts Hn) Hb ltac:(name_facts Hn) ltac:(name_facts Hn) ltac:(name_facts Hn)) as (r & s1 & E1 & E2 & E3 & E4).
    rewrite E1 in H. injection H as <- <- <-. split; [eapply cinv_same_dbs; eauto|].
    rewrite (pushed_of_nil dbi nm rest r) by (name_facts Hn). rewrite (returned_of_nil dbi nm rest r) by (name_facts Hn).
    apply delta_same_dbs. exact E4.
  - (* EXEC *)
    destruct (bnormal_unknown now s b c dbi nm rest oms (proj2 HA) ltac:(name_facts Hn) Hb ltac:(name_facts Hn) ltac:(name_facts Hn) ltac:(name_facts Hn)) as (r & s1 & E1 & E2 & E3 & E4).
    rewrite E1 in H. injection H as <- <- <-. split; [eapply cinv_same_dbs; eauto|].
    rewrite (pushed_of_nil dbi nm rest r) by (name_facts Hn). rewrite (returned_of_nil dbi nm rest r) by (name_facts Hn).
    apply delta_same_dbs. exact E4.
  - (* DISCARD *)
    destruct (bnormal_unknown now s b c dbi nm rest oms (proj2 HA) ltac:(name_facts Hn) Hb ltac:(name_facts Hn) ltac:(name_facts Hn) ltac:(name_facts Hn)) as (r & s1 & E1 & E2 & E3 & E4).
    rewrite E1 in H. injection H as <- <- <-. split; [eapply cinv_same_dbs; eauto|].
    rewrite (pushed_of_nil dbi nm rest r) by (name_facts Hn). rewrite (returned_of_nil dbi nm rest r) by (name_facts Hn).
    apply delta_same_dbs. exact E4.
  - (* PING *)
    rewrite (pushed_of_nil dbi nm rest rep) by (name_facts Hn). rewrite (returned_of_nil dbi nm rest rep) by (name_facts Hn).
    rewrite bpop_parts_names in Hb. apply orb_false_iff in Hb. destruct Hb as [Hb1 Hb2].
    unfold bnormal in H. rewrite Hb1, Hb2 in H.
    destruct (normal_command now s c dbi (FBulk nm :: rest) None) as [r s1] eqn:En. cbv zeta in H. injection H as <- <- _.
    destruct (nc_ping _ _ _ _ _ _ _ _ _ (proj2 HA) ltac:(name_facts Hn) En) as (E1 & E2 & E3).
    split; [eapply cinv_same_dbs; eauto|apply delta_same_dbs; exact E1].
  - (* SELECT *)
    rewrite (pushed_of_nil dbi nm rest rep) by (name_facts Hn). rewrite (returned_of_nil dbi nm rest rep) by (name_facts Hn).
    rewrite bpop_parts_names in Hb. apply orb_false_iff in Hb. destruct Hb as [Hb1 Hb2].
    unfold bnormal in H. rewrite Hb1, Hb2 in H.
    destruct (normal_command now s c dbi (FBulk nm :: rest) None) as [r s1] eqn:En. cbv zeta in H. injection H as <- <- _.
    destruct (nc_select _ _ _ _ _ _ _ _ _ (proj2 HA) ltac:(name_facts Hn) ltac:(name_facts Hn) ltac:(name_facts Hn) En) as (E1 & E2 & E3 & _).
    split; [|apply delta_same_dbs; exact E1]. eapply cinv_after_select; eauto.
Qed.

(** ================= BLPOP / BRPOP ================= *)
Lemma fast_path_delta left dbi : forall keys d o d',
  ALLd d -> fast_path left d keys = (o, d') ->
  ALLd d' /\
  (match o with None => True | Some (FArray [FBulk _; FBulk _]) => True | _ => False end) /\
  forall k' x, occm x (lst d' k') + ecountm (dbi, k', x) (match o with Some (FArray [FBulk k; FBulk v]) => [(dbi, k, v)] | _ => [] end)
               = occm x (lst d k').
Proof.
  induction keys as [|k keys IH]; intros d o d' HA H; cbn [fast_path] in H.
  - injection H as <- <-. split; [exact HA|]. split; [exact I|]. intros k' x. rewrite ecount_nil. lia.
  - pose proof (on_key_pop_delta left d k dbi HA) as Hp. cbv zeta in Hp.
    destruct (on_key d k (e_pop left)) as [r d1]. cbn [fst snd] in Hp. destruct Hp as (P1 & P2 & P3).
    destruct r; try contradiction.
    + injection H as <- <-. split; [exact P1|]. split; [exact I|]. exact P3.
    + destruct (IH d1 o d' P1 H) as (Q1 & Q2 & Q3). split; [exact Q1|]. split; [exact Q2|].
      intros k' x. rewrite Q3. specialize (P3 k' x). rewrite ecount_nil in P3. lia.
Qed.

Lemma bpop_not_pop nm : is_bpop_name (upper nm) = true ->
  beq (upper nm) (bs "LPOP") || beq (upper nm) (bs "RPOP") = false /\ is_push_name (upper nm) = false.
Proof.
  unfold is_bpop_name. intros H. apply orb_true_iff in H. destruct H as [H|H]; apply beq_eq in H; rewrite H; split; reflexivity.
Qed.

Lemma h_bpop_delta left now s b c dbi nm rest oms rep s' b' :
  cinv s -> 0 <= dbi < 16 -> is_bpop_name (upper nm) = true ->
  h_bpop left now s b c dbi (FBulk nm :: rest) oms = (rep, s', b') ->
  cinv s' /\ delta s s' (pushed_of dbi (FBulk nm :: rest) rep) (returned_of dbi (FBulk nm :: rest) rep).
Proof.
  intros CI Hr Hn H. destruct (bpop_not_pop nm Hn) as [Hnp Hnq].
  rewrite (pushed_of_nil dbi nm rest rep) by exact Hnq.
  assert (Ret : returned_of dbi (FBulk nm :: rest) rep = match rep with FArray [FBulk k'; FBulk v] => [(dbi, k', v)] | _ => [] end).
  { unfold returned_of. rewrite Hnp, Hn. reflexivity. }
  rewrite Ret. clear Ret.
  assert (Err : (r_err, s, b) = (rep, s', b') -> cinv s' /\ delta s s' [] (match rep with FArray [FBulk k'; FBulk v] => [(dbi, k', v)] | _ => [] end)).
  { intros E. injection E as <- <- <-. split; [exact CI|]. apply delta_same. reflexivity. }
  unfold h_bpop in H.
  destruct (len (FBulk nm :: rest) <? 3); [apply Err; exact H|].
  destruct (timeout_of _ oms) as [tmo|]; [|apply Err; exact H].
  destruct (all_bulks (removelast (tl (FBulk nm :: rest)))) as [keys|]; [|apply Err; exact H].
  destruct (fast_path left (get_db s dbi) keys) as [o d'] eqn:Ef.
  destruct (fast_path_delta left dbi keys _ o d' (ci_all s CI dbi) Ef) as (A1 & A2 & A3).
  assert (Hset : forall sx, s_dbs sx = list_set (s_dbs s) (Z.to_nat dbi) d' -> s_conns sx = s_conns s -> s_password sx = s_password s ->
            forall rem, in_db dbi rem -> (forall k' x, occm x (lst d' k') + ecountm (dbi, k', x) rem = occm x (lst (get_db s dbi) k')) ->
            cinv sx /\ delta s sx [] rem).
  { intros sx E1 E2 E3 rem Hin Hq. split; [eapply cinv_set_db; eauto|].
    eapply delta_one_db; eauto using in_db_nil, (ci_len s CI). intros k x. rewrite ecount_nil, Hq. lia. }
  destruct o as [r|].
  - injection H as <- <- <-. destruct r; try contradiction.
    destruct l as [|q1 l1]; try contradiction. destruct q1; try contradiction.
    destruct l1 as [|q2 l2]; try contradiction. destruct q2; try contradiction. destruct l2; try contradiction.
    cbn [log_served].
    match goal with |- cinv (log_pop ?sx ?db ?lf ?kk) /\ _ => destruct (log_pop_rest sx db lf kk) as (L1 & L2 & L3 & _) end.
    apply Hset; [rewrite L1; reflexivity|rewrite L2; reflexivity|rewrite L3; reflexivity|intros e0 [<-|[]]; reflexivity|exact A3].
  - destruct (c =? 0); injection H as <- <- <-; (apply Hset; try reflexivity; [apply in_db_nil|]; intros k' x; rewrite <- (A3 k' x); reflexivity).
Qed.

(** ================= any list command; the queue of an EXEC ================= *)
Lemma cinv_lazy now s dbi name parts : cinv s ->
  cinv (lazy_expire now s dbi name parts) /\ s_dbs (lazy_expire now s dbi name parts) = s_dbs s.
Proof.
  intros CI. pose proof (lazy_expire_noexp now s dbi name parts (proj2 (ci_all s CI dbi))) as E.
  destruct (lazy_expire_rest now s dbi name parts) as (L1 & L2 & _).
  split; [eapply cinv_same_dbs; eauto|exact E].
Qed.
Lemma delta_from s s1 s' a r : s_dbs s1 = s_dbs s -> delta s1 s' a r -> delta s s' a r.
Proof.
  intros E H db k x Hd. specialize (H db k x Hd). unfold list_at, get_db in *. rewrite E in H. exact H.
Qed.
Lemma bnormal_any now s b c dbi nm rest oms rep s' b' :
  cinv s -> 0 <= dbi < 16 -> bmem (upper nm) list_cmds = true ->
  bnormal now s b c dbi (FBulk nm :: rest) None oms = (rep, s', b') ->
  cinv s' /\ delta s s' (pushed_of dbi (FBulk nm :: rest) rep) (returned_of dbi (FBulk nm :: rest) rep).
Proof.
  intros CI Hr Hin H. destruct (bpop_parts (FBulk nm :: rest)) eqn:Hb; [|eapply bnormal_list; eauto].
  rewrite bpop_parts_names in Hb. unfold bnormal in H.
  destruct (cinv_lazy now s dbi (upper nm) (FBulk nm :: rest) CI) as [CI1 E].
  destruct (beq (upper nm) (bs "BLPOP")) eqn:E1.
  - destruct (h_bpop_delta _ _ _ _ _ _ _ _ _ _ _ _ CI1 Hr ltac:(unfold is_bpop_name; rewrite E1; reflexivity) H) as [G1 G2].
    split; [exact G1|eapply delta_from; eauto].
  - cbn [orb] in Hb. rewrite Hb in H.
    destruct (h_bpop_delta _ _ _ _ _ _ _ _ _ _ _ _ CI1 Hr ltac:(unfold is_bpop_name; rewrite Hb; apply orb_true_r) H) as [G1 G2].
    split; [exact G1|eapply delta_from; eauto].
Qed.
(** parts that do not start with a bulk string: "invalid command format" *)
Lemma bnormal_badhead now s b c dbi parts oms rep s' b' :
  bnormal now s b c dbi parts None oms = (rep, s', b') ->
  (match parts with FBulk _ :: _ => False | _ => True end) -> s' = s /\ b' = b.
Proof.
  intros H Hs. unfold bnormal, normal_command in H. destruct parts as [|p ?]; [injection H as _ <- <-; split; reflexivity|].
  destruct p; try contradiction; injection H as _ <- <-; split; reflexivity.
Qed.
(** commands run with the placeholder id 0 leave the real connections alone *)
Lemma bnormal_conns0 now s b dbi parts o oms rep s' b' :
  bnormal now s b 0 dbi parts o oms = (rep, s', b') ->
  forall c', c' <> 0 -> zlookup c' (s_conns s') = zlookup c' (s_conns s).
Proof.
  intros H c' Hc'. unfold bnormal in H.
  assert (NC : forall (F : frame -> server -> blocking), (let (r, s'0) := normal_command now s 0 dbi parts o in (r, s'0, F r s'0)) = (rep, s', b') ->
            zlookup c' (s_conns s') = zlookup c' (s_conns s)).
  { intros F E. destruct (normal_command now s 0 dbi parts o) as [r s1] eqn:En. injection E as _ <- _.
    eapply normal_command_conns; eauto. }
  destruct parts as [|p rest]; [apply (NC (fun _ _ => b)); exact H|].
  destruct p; try (apply (NC (fun _ _ => b)); exact H).
  assert (HB : forall left, h_bpop left now (lazy_expire now s dbi (upper b0) (FBulk b0 :: rest)) b 0 dbi (FBulk b0 :: rest) oms = (rep, s', b') ->
            zlookup c' (s_conns s') = zlookup c' (s_conns s)).
  { intros left E. unfold h_bpop in E. rewrite <- (proj1 (lazy_expire_rest now s dbi (upper b0) (FBulk b0 :: rest))).
    destruct (len (FBulk b0 :: rest) <? 3); [injection E as _ <- _; reflexivity|].
    destruct (timeout_of _ oms); [|injection E as _ <- _; reflexivity].
    destruct (all_bulks _); [|injection E as _ <- _; reflexivity].
    destruct (fast_path left _ l) as [[r|] d']; injection E as _ <- _; rewrite ?(proj1 (proj2 (log_served_rest _ _ _ _))); reflexivity. }
  destruct (beq (upper b0) (bs "BLPOP")); [apply (HB true); exact H|].
  destruct (beq (upper b0) (bs "BRPOP")); [apply (HB false); exact H|].
  apply (NC (fun r s'0 => let b1 := notify_after_push b dbi (upper b0) (FBulk b0 :: rest) r in
                          if beq (upper b0) (bs "EVAL") then notify_after_script s'0 b1 dbi (FBulk b0 :: rest) else b1)). exact H.
Qed.
Lemma next_db_other dbi parts rep : beq (queued_name parts) (bs "SELECT") = false -> list_parts parts = true -> next_db dbi parts rep = dbi.
Proof.
  intros Hq Hl. unfold next_db. destruct parts as [|p [|a [|? ?]]]; try reflexivity; destruct p; try reflexivity; destruct a; try reflexivity.
  unfold list_parts, list_frame in Hl. apply andb_true_iff in Hl. destruct Hl as [_ Ht]. apply beq_eq in Ht.
  cbn [queued_name] in Hq. rewrite Ht in Hq. rewrite Hq. reflexivity.
Qed.

Lemma bexec_queue_delta now c : forall q s b dbi acc reps s' b',
  cinv s -> c <> 0 -> (exists cn, zlookup c (s_conns s) = Some cn /\ c_db cn = dbi) -> forallb list_parts q = true ->
  bexec_queue now s b c dbi q acc = (reps, s', b') ->
  cinv s' /\ exists reps1, reps = rev acc ++ reps1 /\
    delta s s' (zip_effects pushed_of dbi q reps1) (zip_effects returned_of dbi q reps1).
Proof.
  induction q as [|parts q IH]; intros s b dbi acc reps s' b' CI Hc0 Hex Hq H; cbn [bexec_queue] in H.
  - injection H as <- <- <-. split; [exact CI|]. exists []. rewrite app_nil_r. split; [reflexivity|]. apply delta_same. reflexivity.
  - cbn [forallb] in Hq. apply andb_true_iff in Hq. destruct Hq as [Hp Hq].
    destruct Hex as (cn & Hcn & Hdb). assert (Hr : 0 <= dbi < 16) by (rewrite <- Hdb; eapply ci_db; eauto).
    destruct (beq (queued_name parts) (bs "SELECT")) eqn:Esel.
    + (* a queued SELECT: runs for the connection *)
      rewrite (bnormal_select _ _ _ _ _ _ _ _ Esel) in H.
      destruct parts as [|p rest]; [discriminate|]. destruct p; try discriminate.
      pose proof Hp as Hp'. unfold list_parts, list_frame in Hp'. apply andb_true_iff in Hp'. destruct Hp' as [Hin Ht]. apply beq_eq in Ht.
      cbn [queued_name] in Esel. rewrite Ht in Esel.
      assert (NP : beq (upper b0) (bs "PING") = false) by (apply beq_eq in Esel; rewrite Esel; reflexivity).
      assert (NE : beq (upper b0) (bs "ECHO") = false) by (apply beq_eq in Esel; rewrite Esel; reflexivity).
      destruct (normal_command now s c dbi (FBulk b0 :: rest) None) as [rep s1] eqn:En.
      destruct (nc_select _ _ _ _ _ _ _ _ _ (proj2 (ci_all s CI dbi)) NP NE Esel En) as (E1 & E2 & E3 & E4).
      destruct (E4 cn Hcn) as (cn1 & Hcn1 & Hdb1). rewrite Hcn1 in H.
      assert (CI1 : cinv s1) by (eapply cinv_after_select; eauto).
      destruct (IH _ _ _ _ _ _ _ CI1 Hc0 (ex_intro _ cn1 (conj Hcn1 eq_refl)) Hq H) as (CI2 & reps1 & E & D2).
      split; [exact CI2|]. exists (rep :: reps1). cbn [rev] in E. rewrite <- app_assoc in E. split; [exact E|].
      cbn [zip_effects]. rewrite Hdb in Hdb1. rewrite <- Hdb1.
      rewrite (pushed_of_nil dbi b0 rest rep) by (apply beq_eq in Esel; rewrite Esel; reflexivity).
      rewrite (returned_of_nil dbi b0 rest rep) by (apply beq_eq in Esel; rewrite Esel; reflexivity).
      cbn [app]. intros db k x Hd. specialize (D2 db k x Hd). unfold list_at, get_db in *. rewrite <- E1. exact D2.
    + destruct (bnormal now s b 0 dbi parts None None) as [[rep s1] b1] eqn:En.
      assert (Step : cinv s1 /\ delta s s1 (pushed_of dbi parts rep) (returned_of dbi parts rep)).
      { destruct parts as [|p rest].
        - destruct (bnormal_badhead _ _ _ _ _ _ _ _ _ _ En I) as [-> _]. split; [exact CI|]. apply delta_same. reflexivity.
        - destruct p; try (destruct (bnormal_badhead _ _ _ _ _ _ _ _ _ _ En I) as [-> _]; split; [exact CI|apply delta_same; reflexivity]).
          pose proof Hp as Hp'. unfold list_parts, list_frame in Hp'. apply andb_true_iff in Hp'. destruct Hp' as [Hp' _].
          eapply bnormal_any; eauto. }
      destruct Step as [CI1 D1].
      assert (Hex1 : exists cn1, zlookup c (s_conns s1) = Some cn1 /\ c_db cn1 = dbi).
      { exists cn. rewrite (bnormal_conns0 _ _ _ _ _ _ _ _ _ _ En c Hc0). split; assumption. }
      destruct (IH _ _ _ _ _ _ _ CI1 Hc0 Hex1 Hq H) as (CI2 & reps1 & E & D2).
      split; [exact CI2|]. exists (rep :: reps1). cbn [rev] in E. rewrite <- app_assoc in E. split; [exact E|].
      cbn [zip_effects]. rewrite (next_db_other dbi parts rep Esel Hp). eapply delta_trans; eauto.
Qed.

(** ================= one frame of a list-command history ================= *)
Lemma list_cmd_not_other x : bmem x list_cmds = true ->
  beq x (bs "WATCH") = false /\ beq x (bs "UNWATCH") = false /\ beq x (bs "AUTH") = false.
Proof.
  intros H. apply bmem_In in H. unfold list_cmds in H. cbn [In] in H.
  repeat (destruct H as [H|H]; [subst x; repeat split; reflexivity|]). contradiction.
Qed.
Lemma cinv_set_conn s c cn cn' :
  cinv s -> zlookup c (s_conns s) = Some cn -> c_db cn' = c_db cn -> forallb list_parts (c_queue cn') = true ->
  cinv (set_conn s c cn').
Proof.
  intros [H1 H2 H3 H4 H5] Hc Hd Hq. constructor; cbn [set_conn s_dbs s_conns s_password]; try assumption.
  - intros c' cn2. destruct (Z.eq_dec c' c) as [->|Hne].
    + rewrite zlookup_zset_same. intros E. injection E as <-. rewrite Hd. eapply H3; eauto.
    + rewrite zlookup_zset_other by exact Hne. apply H3.
  - intros c' cn2. destruct (Z.eq_dec c' c) as [->|Hne].
    + rewrite zlookup_zset_same. intros E. injection E as <-. exact Hq.
    + rewrite zlookup_zset_other by exact Hne. apply H5.
Qed.

Lemma bprocess_frame_delta now s b c cn f oms rep s' b' :
  cinv s -> c <> 0 -> zlookup c (s_conns s) = Some cn -> list_frame f = true ->
  bprocess_frame now s b c f None oms = (rep, s', b') ->
  cinv s' /\ delta s s' (frame_effect pushed_of s c f rep) (frame_effect returned_of s c f rep).
Proof.
  intros CI Hc0 Hc Hl H. unfold bprocess_frame in H.
  assert (NoEff : forall g : Z -> list frame -> frame -> list elem, (match f with FArray (FBulk _ :: _) => False | _ => True end) -> frame_effect g s c f rep = []).
  { intros g Hs. unfold frame_effect. rewrite Hc. destruct f; try reflexivity. destruct l as [|p ?]; try reflexivity. destruct p; try reflexivity. contradiction. }
  assert (PassErr : (match f with FArray (FBulk _ :: _) => False | _ => True end) ->
            (let (r, s'0) := process_frame now s c f None in (r, s'0, b)) = (rep, s', b') ->
            cinv s' /\ delta s s' (frame_effect pushed_of s c f rep) (frame_effect returned_of s c f rep)).
  { intros Hs E. rewrite !NoEff by exact Hs. unfold process_frame in E.
    destruct f; try (injection E as _ <- _; split; [exact CI|apply delta_same; reflexivity]).
    destruct l as [|p ?]; [injection E as _ <- _; split; [exact CI|apply delta_same; reflexivity]|].
    destruct p; try (injection E as _ <- _; split; [exact CI|apply delta_same; reflexivity]). contradiction. }
  destruct f as [| | | | |l| | | | | | |]; try (apply PassErr; [exact I|exact H]).
  destruct l as [|first rest]; [apply PassErr; [exact I|exact H]|].
  destruct first as [| | |nm| | | | | | | | |]; try (apply PassErr; [exact I|exact H]).
  clear PassErr NoEff.
  cbn [list_frame] in Hl. apply andb_true_iff in Hl. destruct Hl as [Hin Htrim]. apply beq_eq in Htrim.
  rewrite Hc in H. rewrite Htrim in H. rewrite (ci_pw s CI) in H. cbn [andb] in H.
  destruct (list_cmd_not_other _ Hin) as (NW & NU & NA).
  unfold frame_effect. rewrite Hc.
  destruct (c_intx cn && negb (mem_name (upper nm) tx_not_queued)) eqn:Eq.
  { (* queued *)
    apply andb_true_iff in Eq. destruct Eq as [Ei Eq]. rewrite Ei.
    assert (NE : beq (upper nm) (bs "EXEC") = false).
    { destruct (beq (upper nm) (bs "EXEC")) eqn:EE; [|reflexivity]. apply beq_eq in EE. rewrite EE in Eq. vm_compute in Eq. discriminate. }
    rewrite NE.
    unfold process_frame in H. rewrite Hc, Htrim, (ci_pw s CI) in H. cbn [andb] in H. rewrite Ei, Eq in H. cbn [andb] in H.
    injection H as _ <- _. split; [|apply delta_same; reflexivity].
    apply (cinv_set_conn s c cn _ CI Hc); [reflexivity|]. cbn [with_tx c_queue]. rewrite forallb_app, (ci_q s CI c cn Hc). cbn [forallb].
    unfold list_parts, list_frame. rewrite Hin, Htrim, beq_refl. reflexivity. }
  destruct (beq (upper nm) (bs "MULTI")) eqn:EM.
  { (* MULTI *)
    assert (NE : beq (upper nm) (bs "EXEC") = false) by (apply beq_eq in EM; rewrite EM; reflexivity).
    assert (NP : is_push_name (upper nm) = false) by (apply beq_eq in EM; rewrite EM; reflexivity).
    assert (NR : beq (upper nm) (bs "LPOP") || beq (upper nm) (bs "RPOP") = false) by (apply beq_eq in EM; rewrite EM; reflexivity).
    assert (NB : is_bpop_name (upper nm) = false) by (apply beq_eq in EM; rewrite EM; reflexivity).
    rewrite NE, (pushed_of_nil _ nm rest rep NP), (returned_of_nil _ nm rest rep NR NB).
    unfold process_frame in H. rewrite Hc, Htrim, (ci_pw s CI) in H. cbn [andb] in H. rewrite Eq, EM in H.
    destruct (c_intx cn); injection H as _ <- _.
    - split; [exact CI|apply delta_same; reflexivity].
    - split; [eapply cinv_set_conn; eauto; reflexivity|apply delta_same; reflexivity]. }
  destruct (beq (upper nm) (bs "EXEC")) eqn:EE.
  { (* EXEC *)
    assert (NP : is_push_name (upper nm) = false) by (apply beq_eq in EE; rewrite EE; reflexivity).
    assert (NR : beq (upper nm) (bs "LPOP") || beq (upper nm) (bs "RPOP") = false) by (apply beq_eq in EE; rewrite EE; reflexivity).
    assert (NB : is_bpop_name (upper nm) = false) by (apply beq_eq in EE; rewrite EE; reflexivity).
    unfold bh_exec in H. cbv zeta in H. destruct (c_intx cn) eqn:Ei; cbn [negb] in H.
    2:{ injection H as <- <- <-. rewrite (pushed_of_nil _ nm rest _ NP), (returned_of_nil _ nm rest _ NR NB).
        split; [exact CI|apply delta_same; reflexivity]. }
    destruct (watch_violated now s cn).
    { injection H as <- <- <-. split; [eapply cinv_set_conn; eauto; reflexivity|apply delta_same; reflexivity]. }
    revert H. destruct (bexec_queue _ _ _ _ _ _ _) as [[reps s2] b2] eqn:Eq2. intros H. injection H as <- <- <-.
    assert (CI1 : cinv (set_conn s c (clear_tx cn))) by (eapply cinv_set_conn; eauto; reflexivity).
    assert (Hex : exists cn1, zlookup c (s_conns (set_conn s c (clear_tx cn))) = Some cn1 /\ c_db cn1 = c_db cn).
    { exists (clear_tx cn). cbn [set_conn s_conns]. rewrite zlookup_zset_same. split; reflexivity. }
    destruct (bexec_queue_delta _ _ _ _ _ _ _ _ _ _ CI1 Hc0 Hex (ci_q s CI c cn Hc) Eq2) as (CI2 & reps1 & E & D).
    cbn [rev app] in E. subst reps1. split; [exact CI2|].
    intros db k x Hd. specialize (D db k x Hd).
    change (list_at (set_conn s c (clear_tx cn)) db k) with (list_at s db k) in D. exact D. }
  destruct (beq (upper nm) (bs "DISCARD")) eqn:ED.
  { assert (NP : is_push_name (upper nm) = false) by (apply beq_eq in ED; rewrite ED; reflexivity).
    assert (NR : beq (upper nm) (bs "LPOP") || beq (upper nm) (bs "RPOP") = false) by (apply beq_eq in ED; rewrite ED; reflexivity).
    assert (NB : is_bpop_name (upper nm) = false) by (apply beq_eq in ED; rewrite ED; reflexivity).
    rewrite (pushed_of_nil _ nm rest rep NP), (returned_of_nil _ nm rest rep NR NB).
    cbn [orb] in H. unfold process_frame in H. rewrite Hc, Htrim, (ci_pw s CI) in H. cbn [andb] in H. rewrite Eq, EM, EE, ED in H.
    destruct (c_intx cn); cbn [negb] in H; injection H as _ <- _.
    - split; [eapply cinv_set_conn; eauto; reflexivity|apply delta_same; reflexivity].
    - split; [exact CI|apply delta_same; reflexivity]. }
  rewrite NW, NU, NA in H. cbn [orb] in H.
  (* process_normal_command: the connection is not in MULTI *)
  assert (Ei : c_intx cn = false).
  { destruct (c_intx cn); [|reflexivity]. cbn [andb] in Eq. apply negb_false_iff in Eq.
    unfold mem_name, tx_not_queued in Eq. cbn [bmem] in Eq. rewrite EM, EE, ED, NW, NU in Eq. discriminate. }
  rewrite Ei. eapply bnormal_any; eauto. eapply ci_db; eauto.
Qed.

(** ================= the databases named by the Blocked states ================= *)
Definition blk_from (dbi : Z) (b b' : blocking) : Prop :=
  forall c' st', zlookup c' (b_blk b') = Some st' -> zlookup c' (b_blk b) = Some st' \/ bl_db st' = dbi.
Lemma blk_from_same dbi b b' : b_blk b' = b_blk b -> blk_from dbi b b'.
Proof. intros H c' st' Hc. left. rewrite <- H. exact Hc. Qed.
Lemma blk_from_trans dbi b1 b2 b3 : blk_from dbi b1 b2 -> blk_from dbi b2 b3 -> blk_from dbi b1 b3.
Proof. intros H1 H2 c' st' Hc. destruct (H2 c' st' Hc) as [H|H]; [apply H1; exact H|right; exact H]. Qed.
Lemma h_bpop_blk_db left now s b c dbi parts oms rep s' b' :
  h_bpop left now s b c dbi parts oms = (rep, s', b') -> blk_from dbi b b'.
Proof.
  intros H. unfold h_bpop in H.
  destruct (len parts <? 3); [injection H as _ _ <-; apply blk_from_same; reflexivity|].
  destruct (timeout_of (last parts FNull) oms); [|injection H as _ _ <-; apply blk_from_same; reflexivity].
  destruct (all_bulks (removelast (tl parts))); [|injection H as _ _ <-; apply blk_from_same; reflexivity].
  destruct (fast_path left (get_db s dbi) l) as [[r|] d']; [injection H as _ _ <-; apply blk_from_same; reflexivity|].
  destruct (c =? 0); [injection H as _ _ <-; apply blk_from_same; reflexivity|].
  destruct (zlookup c (s_conns s)); injection H as _ _ <-; [|apply blk_from_same; reflexivity].
  intros c' st' Hc. cbn [set_blocked with_blk with_reg b_blk] in Hc. destruct (Z.eq_dec c' c) as [->|Hne].
  - rewrite zlookup_zset_same in Hc. injection Hc as <-. right. reflexivity.
  - rewrite zlookup_zset_other in Hc by exact Hne. left. exact Hc.
Qed.
Lemma bnormal_blk_db now s b c dbi parts o oms rep s' b' :
  bnormal now s b c dbi parts o oms = (rep, s', b') -> blk_from dbi b b'.
Proof.
  intros H. unfold bnormal in H.
  destruct parts as [|p rest].
  { destruct (normal_command now s c dbi [] o). injection H as _ _ <-. apply blk_from_same. reflexivity. }
  destruct p; try (destruct (normal_command now s c dbi _ o); injection H as _ _ <-; apply blk_from_same; reflexivity).
  destruct (beq (upper b0) (bs "BLPOP")); [eapply h_bpop_blk_db; exact H|].
  destruct (beq (upper b0) (bs "BRPOP")); [eapply h_bpop_blk_db; exact H|].
  destruct (normal_command now s c dbi (FBulk b0 :: rest) o) as [r s1]. injection H as _ _ <-.
  apply blk_from_same. cbv zeta.
  destruct (notify_after_push_fields b dbi (upper b0) (FBulk b0 :: rest) r) as (F & _).
  destruct (beq (upper b0) _); [|exact F].
  destruct (notify_after_script_fields s1 (notify_after_push b dbi (upper b0) (FBulk b0 :: rest) r) dbi (FBulk b0 :: rest)) as (K & _).
  congruence.
Qed.
(** the Blocked states an EXEC leaves are the ones it found (nothing blocks inside EXEC) *)
Lemma bprocess_frame_blk_db now s b c cn f o oms rep s' b' :
  agree b -> zlookup c (s_conns s) = Some cn -> bprocess_frame now s b c f o oms = (rep, s', b') -> blk_from (c_db cn) b b'.
Proof.
  intros HA Hc H. unfold bprocess_frame in H.
  assert (Pass : (let (r, s'0) := process_frame now s c f o in (r, s'0, b)) = (rep, s', b') -> blk_from (c_db cn) b b').
  { destruct (process_frame now s c f o). intros E. injection E as _ _ <-. apply blk_from_same. reflexivity. }
  destruct f as [| | | | |l| | | | | | |]; try (apply Pass; exact H).
  destruct l as [|first rest]; [apply Pass; exact H|].
  destruct first as [| | |nm| | | | | | | | |]; try (apply Pass; exact H).
  rewrite Hc in H.
  destruct (_ && negb (c_auth cn)); [apply Pass; exact H|].
  destruct (c_intx cn && _); [apply Pass; exact H|].
  destruct (beq (upper (trim nm)) (bs "MULTI")); [apply Pass; exact H|].
  destruct (beq (upper (trim nm)) (bs "EXEC")).
  { unfold bh_exec in H. cbv zeta in H. destruct (negb (c_intx cn)); [injection H as _ _ <-; apply blk_from_same; reflexivity|].
    destruct (watch_violated now s cn); [injection H as _ _ <-; apply blk_from_same; reflexivity|].
    revert H. destruct (bexec_queue _ _ _ _ _ _ _) as [[reps s2] b2] eqn:E. intros H. injection H as _ _ <-.
    apply blk_from_same. eapply bexec_queue_inv; eauto. }
  destruct (_ || _ || _ || _); [apply Pass; exact H|].
  eapply bnormal_blk_db; exact H.
Qed.

(** ================= wake-ups ================= *)
Definition BR (b : blocking) : Prop := forall c st, zlookup c (b_blk b) = Some st -> 0 <= bl_db st < 16.

Lemma cinv_set_db_direct s dbi d' : cinv s -> ALLd d' -> cinv (set_db s dbi d').
Proof. intros CI HA. eapply cinv_set_db; eauto; reflexivity. Qed.

(** an element popped for a client that has gone and pushed back at the end it came from:
    the list is as it was *)
Lemma pop_push_back left d k v d1 :
  ALLd d -> on_key d k (e_pop left) = (FBulk v, d1) ->
  ALLd (snd (on_key d1 k (e_push left [v]))) /\ forall k', lst (snd (on_key d1 k (e_push left [v]))) k' = lst d k'.
Proof.
  intros HA E. destruct (lview d k) as [l|] eqn:El; [|exfalso; exact (proj1 HA k El)].
  pose proof (pop_view left d k l El) as Hp. rewrite E in Hp. cbn [fst snd] in Hp.
  assert (Ed1 : d1 = snd (on_key d k (e_pop left))) by (rewrite E; reflexivity).
  destruct (if left then l else rev l) as [|x t] eqn:Ev; destruct Hp as [Hp1 Hp2]; [discriminate|]. injection Hp1 as Hv. subst x.
  assert (HA1 : ALLd d1) by (rewrite Ed1; apply ALLd_on_key; [exact HA|rewrite <- Ed1, Hp2; discriminate]).
  pose proof (push_view left [v] d1 k _ Hp2) as Hq. cbv zeta in Hq. destruct Hq as [_ Hq2].
  split; [apply ALLd_on_key; [exact HA1|rewrite Hq2; discriminate]|].
  intros k'. destruct (beq k' k) eqn:Ek.
  - apply beq_eq in Ek. subst k'. rewrite (lst_view _ _ _ Hq2), (lst_view _ _ _ El). destruct left.
    + subst l. reflexivity.
    + apply rev_cons_inv in Ev. rewrite Ev. reflexivity.
  - rewrite on_key_other_lst by exact Ek. rewrite Ed1. apply on_key_other_lst. exact Ek.
Qed.
Lemma nth_list_set_fun {B} (F : db -> B) (l : list db) dX : forall i j,
  F dX = F (nth i l empty_db) -> F (nth j (list_set l i dX) empty_db) = F (nth j l empty_db).
Proof.
  induction l as [|y l IH]; intros i j H; [reflexivity|].
  destruct i as [|i], j as [|j]; cbn [list_set nth] in *; try reflexivity; [exact H|apply IH; exact H].
Qed.
Lemma delta_same_counts s s' i dX : s_dbs s' = list_set (s_dbs s) i dX ->
  (forall k x, occm x (lst dX k) = occm x (lst (nth i (s_dbs s) empty_db) k)) -> delta s s' [] [].
Proof.
  intros E H db k x _. rewrite !list_at_lst, !ecount_nil. unfold get_db. rewrite E.
  rewrite (nth_list_set_fun (fun d => occm x (lst d k)) (s_dbs s) dX i (Z.to_nat db) (H k x)). reflexivity.
Qed.

(** the AOF record of a served pop (293eff6) changes neither the counted lists nor the invariant *)
Lemma cinv_log_pop s dbi lf k : cinv s -> cinv (log_pop s dbi lf k).
Proof. intros H. destruct (log_pop_rest s dbi lf k) as (L1 & L2 & L3 & _). eapply cinv_same_dbs; eauto. Qed.
Lemma delta_log_pop s0 s dbi lf k a r : delta s0 s a r -> delta s0 (log_pop s dbi lf k) a r.
Proof. intros H db kk x Hd. specialize (H db kk x Hd). rewrite !list_at_lst in *. rewrite get_db_log_pop. exact H. Qed.

Lemma wake_client_cons now s b u W :
  agreeW b (u :: W) -> cinv s -> BR b ->
  b_crashed (snd (wake_client now s b u)) = b_crashed b /\ cinv (fst (wake_client now s b u)) /\
  ((b_out (snd (wake_client now s b u)) = b_out b /\ b_blk (snd (wake_client now s b u)) = b_blk b /\ delta s (fst (wake_client now s b u)) [] [])
   \/ (exists st k v, zlookup (u_conn u) (b_blk b) = Some st /\
         b_out (snd (wake_client now s b u)) = (u_conn u, FArray [FBulk k; FBulk v]) :: b_out b /\
         b_blk (snd (wake_client now s b u)) = zremove (u_conn u) (b_blk b) /\
         delta s (fst (wake_client now s b u)) [] [(bl_db st, k, v)])).
Proof.
  intros HA CI HB.
  destruct HA as (_ & A2 & _). destruct (A2 u (or_introl eq_refl)) as (_ & U). cbn [with_wake b_blk] in U.
  split; [apply wake_client_crashed|].
  pose proof (ci_all s CI (u_db u)) as HAd.
  unfold wake_client. rewrite purge_noexp by (exact (proj2 HAd)). cbn [fst].
  pose proof (on_key_pop_delta (u_left u) (get_db s (u_db u)) (u_key u) (u_db u) HAd) as Hp. cbv zeta in Hp.
  destruct (on_key (get_db s (u_db u)) (u_key u) (e_pop (u_left u))) as [r d'] eqn:Epop. cbn [fst snd] in Hp. destruct Hp as (P1 & P2 & P3).
  destruct (zlookup (u_conn u) (b_blk b)) as [st|] eqn:Eb.
  - destruct (U st eq_refl) as (U1 & U2 & U3). pose proof (HB _ _ Eb) as Hr. rewrite <- U1 in Hr.
    destruct r; try contradiction; cbn [fst snd].
    + (* an element: delivered *)
      split; [apply cinv_log_pop, cinv_set_db_direct; assumption|]. right. exists st, (u_key u), b0.
      split; [reflexivity|]. split; [reflexivity|]. split; [reflexivity|]. rewrite <- U1. apply delta_log_pop.
      apply (delta_one_db s (set_db s (u_db u) d') (u_db u) d' [] [(u_db u, u_key u, b0)] (ci_len s CI) Hr eq_refl (in_db_nil _)).
      * intros e0 [<-|[]]. reflexivity.
      * intros k x. rewrite ecount_nil, P3. lia.
    + (* nothing there: registered again, the heads of its keys that hold an element notified;
         nothing is popped, nothing is written *)
      split; [apply cinv_set_db_direct; assumption|]. left.
      split; [exact (proj1 (proj2 (renotify_fields _ _ _ _)))|]. split; [exact (proj1 (renotify_fields _ _ _ _))|].
      apply (delta_one_db s (set_db s (u_db u) d') (u_db u) d' [] [] (ci_len s CI) Hr eq_refl (in_db_nil _) (in_db_nil _)).
      intros k' x. specialize (P3 k' x). rewrite ecount_nil in *. lia.
  - (* the client has gone: what was popped for it goes back *)
    destruct r; try contradiction; cbn [fst snd].
    + destruct (pop_push_back _ _ _ _ _ HAd Epop) as (B1 & B2).
      split; [apply cinv_set_db_direct; assumption|]. left.
      split; [exact (proj1 (proj2 (notify_key_ready_fields _ _ _)))|]. split; [exact (proj1 (notify_key_ready_fields _ _ _))|].
      eapply delta_same_counts; [reflexivity|]. intros k x. rewrite B2. reflexivity.
    + split; [apply cinv_set_db_direct; assumption|]. left. split; [reflexivity|]. split; [reflexivity|].
      eapply delta_same_counts; [reflexivity|]. intros k x. specialize (P3 k x). rewrite ecount_nil in P3. unfold get_db in P3. lia.
Qed.

Lemma async_returns_app b l1 l2 : async_returns b (l1 ++ l2) = async_returns b l1 ++ async_returns b l2.
Proof.
  unfold async_returns. induction l1 as [|a l1 IH]; [reflexivity|]. cbn [app flat_map]. rewrite IH, app_assoc. reflexivity.
Qed.
Lemma async_returns_blk b b1 new :
  (forall c f, In (c, f) new -> zlookup c (b_blk b1) = zlookup c (b_blk b)) -> async_returns b1 new = async_returns b new.
Proof.
  intros H. unfold async_returns. induction new as [|[c f] new IH]; [reflexivity|]. cbn [flat_map fst snd].
  assert (H2 : forall c2 f2, In (c2, f2) new -> zlookup c2 (b_blk b1) = zlookup c2 (b_blk b))
    by (intros c2 f2 Hin; apply (H c2 f2); right; exact Hin).
  rewrite (H c f (or_introl eq_refl)), (IH H2). reflexivity.
Qed.

Lemma wake_fold_cons now : forall l s b,
  agreeW b (l ++ b_wake b) -> b_crashed b = false -> cinv s -> BR b ->
  b_crashed (snd (fold_left (wake_step now) l (s, b))) = false /\ cinv (fst (fold_left (wake_step now) l (s, b))) /\
  BR (snd (fold_left (wake_step now) l (s, b))) /\
  exists new, b_out (snd (fold_left (wake_step now) l (s, b))) = rev new ++ b_out b
    /\ delta s (fst (fold_left (wake_step now) l (s, b))) [] (async_returns b new)
    /\ (forall c f, In (c, f) new -> In c (map u_conn l)).
Proof.
  induction l as [|u l IH]; intros s b HA Hc CI HB; cbn [fold_left fst snd].
  - split; [exact Hc|]. split; [exact CI|]. split; [exact HB|]. exists []. split; [reflexivity|]. split; [apply delta_same; reflexivity|intros c f []].
  - rewrite wake_step_eq, Hc. cbn [app] in HA.
    pose proof (agree_wake_next now s b u l HA) as Hnext.
    destruct (wake_client_cons now s b u (l ++ b_wake b) HA CI HB) as (W1 & W2 & W3).
    assert (Hnd : ~ In (u_conn u) (map u_conn l)).
    { destruct HA as (_ & _ & A3 & _). unfold wakes_unique in A3. cbn [with_wake b_wake map] in A3.
      apply NoDup_cons_iff in A3. destruct A3 as [A3 _]. intros Hin. apply A3. rewrite map_app. apply in_or_app. left. exact Hin. }
    destruct (wake_client now s b u) as [s1 b1]. cbn [fst snd] in *.
    rewrite Hc in W1.
    assert (HB1 : BR b1).
    { destruct W3 as [(_ & O2 & _)|(st & k & v & _ & _ & O4 & _)]; intros c st0 Hl.
      - rewrite O2 in Hl. eapply HB; exact Hl.
      - rewrite O4 in Hl. apply zlookup_zremove_some in Hl. eapply HB; exact Hl. }
    destruct (IH s1 b1 Hnext W1 W2 HB1) as (I1 & I2 & I3 & new & I4 & I5 & I6).
    split; [exact I1|]. split; [exact I2|]. split; [exact I3|].
    destruct W3 as [(O1 & O2 & O3)|(st & k & v & O1 & O3 & O4 & O5)].
    + exists new. rewrite I4, O1. split; [reflexivity|]. split.
      * rewrite <- (async_returns_blk b b1 new) by (intros c f _; rewrite O2; reflexivity).
        intros db k x Hd. specialize (O3 db k x Hd). specialize (I5 db k x Hd). rewrite ecount_nil in O3. lia.
      * intros c f Hin. right. eapply I6; exact Hin.
    + exists ((u_conn u, FArray [FBulk k; FBulk v]) :: new). rewrite I4, O3.
      split; [cbn [rev]; rewrite <- app_assoc; reflexivity|]. split.
      * change ((u_conn u, FArray [FBulk k; FBulk v]) :: new) with ([(u_conn u, FArray [FBulk k; FBulk v])] ++ new).
        rewrite async_returns_app.
        assert (E1 : async_returns b [(u_conn u, FArray [FBulk k; FBulk v])] = [(bl_db st, k, v)]).
        { unfold async_returns. cbn [flat_map fst snd]. rewrite O1. reflexivity. }
        rewrite E1. rewrite <- (async_returns_blk b b1 new).
        -- intros db k0 x Hd. specialize (O5 db k0 x Hd). specialize (I5 db k0 x Hd). rewrite ecount_app. rewrite ecount_nil in *. lia.
        -- intros c f Hin. rewrite O4. apply zlookup_zremove_other. intros E. subst c. apply Hnd. eapply I6; exact Hin.
      * intros c f [Hin|Hin]; [injection Hin as <- _; left; reflexivity|right; eapply I6; exact Hin].
Qed.

(** ================= conservation over all list-command histories ================= *)
Lemma new_out_spec b b' new : b_out b' = rev new ++ b_out b -> new_out b b' = new.
Proof.
  intros H. unfold new_out. rewrite H, app_length. replace (length (rev new) + length (b_out b) - length (b_out b))%nat with (length (rev new)) by lia.
  rewrite firstn_app, Nat.sub_diag, firstn_all. cbn [firstn]. rewrite app_nil_r. apply rev_involutive.
Qed.
Lemma get_db_init pw db : get_db (init_server pw) db = empty_db.
Proof.
  unfold get_db, init_server. cbn [s_dbs]. generalize (Z.to_nat db). intros n.
  do 17 (destruct n as [|n]; [reflexivity|]). reflexivity.
Qed.
Lemma cinv_init : cinv (init_server None).
Proof.
  constructor; try reflexivity.
  - intros db. rewrite get_db_init. split; [intros k; discriminate|]. split; [reflexivity|intros k e H; discriminate].
  - intros c cn H. discriminate.
  - intros c cn H. discriminate.
Qed.

Definition ginv (st : sys) (P R : list elem) : Prop :=
  reach None st /\ b_crashed (snd st) = false /\ cinv (fst st) /\ BR (snd st) /\
  forall db k x, 0 <= db -> ecountm (db, k, x) P = ecountm (db, k, x) R + occm x (list_at (fst st) db k).

Lemma ok_cons_ok st e : ok_cons st e = true -> ok st e = true.
Proof. unfold ok_cons. intros H. apply andb_true_iff in H. tauto. Qed.

Lemma ginv_step st P R e : ginv st P R -> ok_cons st e = true ->
  ginv (step st e) (P ++ pushed_in st e) (R ++ returned_in st e).
Proof.
  intros (HR & Hc & CI & HB & HE) Hok. pose proof (ok_cons_ok _ _ Hok) as Hok1.
  assert (HR' : reach None (step st e)) by (apply reach_step; assumption).
  destruct st as [s b]. cbn [fst snd] in *.
  destruct (reach_inv None _ HR) as [Hi|(HA & H0 & HO & HD)]; [cbn [snd] in Hi; congruence|]. cbn [fst snd] in *.
  unfold ginv. split; [exact HR'|]. clear HR'.
  assert (Fin : forall s' b', b_crashed b' = false -> cinv s' -> BR b' ->
            delta s s' (pushed_in (s, b) e) (returned_in (s, b) e) ->
            step (s, b) e = (s', b') ->
            b_crashed (snd (step (s, b) e)) = false /\ cinv (fst (step (s, b) e)) /\ BR (snd (step (s, b) e)) /\
            forall db k x, 0 <= db -> ecountm (db, k, x) (P ++ pushed_in (s, b) e)
                                      = ecountm (db, k, x) (R ++ returned_in (s, b) e) + occm x (list_at (fst (step (s, b) e)) db k)).
  { intros s' b' F1 F2 F3 F4 F5. rewrite F5. cbn [fst snd]. split; [exact F1|]. split; [exact F2|]. split; [exact F3|].
    intros db k x Hd. rewrite !ecount_app. specialize (F4 db k x Hd). specialize (HE db k x Hd). lia. }
  unfold ok_cons in Hok. apply andb_true_iff in Hok. destruct Hok as [_ Hok2].
  destruct e as [now c f oms|now|now|c|c|].
  - (* a request *)
    cbn [ok] in Hok1. destruct (zlookup c (s_conns s)) as [cn|] eqn:Hcn; [|discriminate].
    apply andb_true_iff in Hok1. destruct Hok1 as [Hnb Hq].
    apply negb_true_iff in Hnb. apply is_blocked_false in Hnb.
    pose proof (live_no_wake s b c cn HO Hcn Hnb) as Hnw.
    assert (Hc0 : c <> 0) by (intros E0; subst c; congruence).
    destruct (bprocess_frame now s b c f None oms) as [[rep s'] b1] eqn:E.
    destruct (bprocess_frame_inv _ _ _ _ _ _ _ _ _ _ _ HA H0 Hcn Hnb Hnw E) as (G1 & G3 & G4 & G5 & G6).
    destruct (bprocess_frame_delta _ _ _ _ _ _ _ _ _ _ CI Hc0 Hcn Hok2 E) as (D1 & D2).
    pose proof (bprocess_frame_blk_db _ _ _ _ _ _ _ _ _ _ _ HA Hcn E) as D3.
    apply (Fin s' (match rep with FNoResponse => b1 | _ => emit b1 c rep end)).
    + destruct rep; exact (eq_trans G4 Hc).
    + exact D1.
    + intros c' st' Hl. assert (Hl' : zlookup c' (b_blk b1) = Some st') by (destruct rep; exact Hl).
      destruct (D3 c' st' Hl') as [Ho|Ho]; [eapply HB; exact Ho|rewrite Ho; exact (ci_db s CI c cn Hcn)].
    + unfold pushed_in, returned_in, reply_at. cbn [fst snd]. rewrite E. cbn [fst]. exact D2.
    + cbn [step]. rewrite Hc. unfold frame_step. rewrite E. reflexivity.
  - (* wake-ups *)
    assert (HA' : agreeW (with_wake b (skipn 32 (b_wake b))) (firstn 32 (b_wake b) ++ b_wake (with_wake b (skipn 32 (b_wake b))))).
    { cbn [with_wake b_wake]. unfold agreeW. rewrite firstn_skipn. apply agreeW_self in HA. unfold agreeW in HA. destruct b; exact HA. }
    destruct (wake_fold_cons now (firstn 32 (b_wake b)) s (with_wake b (skipn 32 (b_wake b))) HA' Hc CI HB) as (W1 & W2 & W3 & new & W4 & W5 & _).
    cbn [with_wake b_out] in W4.
    destruct (fold_left (wake_step now) (firstn 32 (b_wake b)) (s, with_wake b (skipn 32 (b_wake b)))) as [s' b'] eqn:Ef. cbn [fst snd] in *.
    assert (Hstep : step (s, b) (EWakeups now) = (s', b')) by (cbn [step]; rewrite Hc; unfold process_wakeups; exact Ef).
    apply (Fin s' b'); try assumption.
    unfold pushed_in, returned_in. rewrite Hstep. cbn [fst snd]. rewrite (new_out_spec b b' new W4).
    rewrite (async_returns_blk (with_wake b (skipn 32 (b_wake b))) b new) by reflexivity. exact W5.
  - (* timeouts *)
    destruct (expire_reg now (b_reg b)) as [ex r'] eqn:Ee.
    destruct (timeout_fold ex (with_reg b r')) as (_ & _ & T3 & T4). cbn [with_reg b_crashed b_blk] in T3, T4.
    apply (Fin s (process_timeouts now b)).
    + unfold process_timeouts. rewrite Ee. congruence.
    + exact CI.
    + intros c' st' Hl. unfold process_timeouts in Hl. rewrite Ee, T4 in Hl. destruct (existsb _ ex); [discriminate|]. eapply HB; exact Hl.
    + apply delta_same. reflexivity.
    + cbn [step]. rewrite Hc. reflexivity.
  - (* connect *)
    apply (Fin (connect s c) b); try assumption.
    + destruct CI as [C1 C2 C3 C4 C5]. unfold connect. constructor; cbn [set_conn s_dbs s_conns s_password]; try assumption.
      * intros c' cn'. destruct (Z.eq_dec c' c) as [->|Hne]; [rewrite zlookup_zset_same; intros E; injection E as <-; cbn; lia|].
        rewrite zlookup_zset_other by exact Hne. apply C3.
      * intros c' cn'. destruct (Z.eq_dec c' c) as [->|Hne]; [rewrite zlookup_zset_same; intros E; injection E as <-; reflexivity|].
        rewrite zlookup_zset_other by exact Hne. apply C5.
    + apply delta_same. reflexivity.
    + cbn [step]. rewrite Hc. reflexivity.
  - (* a client goes away, blocked or not *)
    apply (Fin (del_conn s c) (with_dead b (c :: b_dead b))).
    + exact Hc.
    + destruct CI as [C1 C2 C3 C4 C5]. constructor; cbn [del_conn s_dbs s_conns s_password]; try assumption.
      * intros c' cn' Hl. apply zlookup_zremove_some in Hl. eapply C3; exact Hl.
      * intros c' cn' Hl. apply zlookup_zremove_some in Hl. eapply C5; exact Hl.
    + exact HB.
    + apply delta_same. reflexivity.
    + cbn [step]. rewrite Hc. reflexivity.
  - (* the server notices the clients that went away *)
    unfold reap_dead in *.
    destruct (drop_fold (filter (noticed b) (b_dead b)) (with_dead b (filter (fun c => negb (noticed b c)) (b_dead b)))) as (_ & _ & _ & D4 & _ & D6).
    cbn [with_dead b_crashed b_blk] in D4, D6.
    apply (Fin s (reap_dead b)).
    + unfold reap_dead. congruence.
    + exact CI.
    + intros c' st' Hl. unfold reap_dead in Hl. rewrite D6 in Hl. destruct (existsb _ _); [discriminate|]. eapply HB; exact Hl.
    + apply delta_same. reflexivity.
    + cbn [step]. rewrite Hc. reflexivity.
Qed.

Theorem reach_g_ginv st P R : reach_g st P R -> ginv st P R.
Proof.
  induction 1.
  - split; [constructor|]. split; [reflexivity|]. split; [exact cinv_init|]. split; [intros c st H; discriminate|].
    intros db k x _. cbn [fst]. rewrite list_at_lst, get_db_init. reflexivity.
  - apply ginv_step; assumption.
Qed.

(** the matcher counts are the plain counts *)
Lemma occm_some x l : occm (Some x) l = occ x l.
Proof. reflexivity. Qed.
Lemma occm_none l : occm None l = len l.
Proof.
  unfold occm. f_equal. induction l as [|y l IH]; [reflexivity|]. cbn [filter mbeq]. f_equal. exact IH.
Qed.
Lemma ecountm_some db k x l : ecountm (db, k, Some x) l = ecount (db, k, x) l.
Proof.
  unfold ecountm, ecount. f_equal.
  assert (E : filter (meqb (db, k, Some x)) l = filter (elem_eqb (db, k, x)) l); [|rewrite E; reflexivity].
  apply filter_ext. intros [[d' k'] x']. cbn [meqb elem_eqb mbeq]. rewrite (beq_sym x' x). reflexivity.
Qed.

(** the multiset equation, per list: pushed = returned + remaining *)
Theorem conservation st P R : reach_g st P R ->
  forall db k x, 0 <= db -> ecount (db, k, x) P = ecount (db, k, x) R + occ x (list_at (fst st) db k).
Proof.
  intros H db k x Hd. destruct (reach_g_ginv _ _ _ H) as (_ & _ & _ & _ & HE).
  specialize (HE db k (Some x) Hd). rewrite !ecountm_some, occm_some in HE. exact HE.
Qed.
(** no element is returned more often than it was pushed *)
Theorem no_duplicate st P R : reach_g st P R -> forall db k x, 0 <= db -> ecount (db, k, x) R <= ecount (db, k, x) P.
Proof. intros H db k x Hd. rewrite (conservation _ _ _ H db k x Hd). pose proof (occ_nonneg (Some x) (list_at (fst st) db k)) as Hn. rewrite occm_some in Hn. lia. Qed.
(** the event loop does not end; every stored value is a list *)
Theorem no_crash st P R : reach_g st P R -> b_crashed (snd st) = false.
Proof. intros H. destruct (reach_g_ginv _ _ _ H) as (_ & Hc & _). exact Hc. Qed.
(** no key of these histories ever has a deadline: the lazy expiry that runs before every
    command (and at the top of wake_client) removes nothing, so the equation needs no
    "expired" term *)
Theorem no_deadlines st P R : reach_g st P R ->
  (forall db k e, get_entry (get_db (fst st) db) k = Some e -> e_exp e = None) /\
  (forall now dbi name parts, s_dbs (lazy_expire now (fst st) dbi name parts) = s_dbs (fst st)) /\
  (forall now db k, fst (purge_key now (get_db (fst st) db, []) k) = get_db (fst st) db).
Proof.
  intros H. destruct (reach_g_ginv _ _ _ H) as (_ & _ & CI & _).
  split; [intros db k e; apply (proj2 (proj2 (ci_all _ CI db)))|].
  split; [intros now dbi name parts; apply lazy_expire_noexp; exact (proj2 (ci_all _ CI dbi))|].
  intros now db k. rewrite purge_noexp by (exact (proj2 (ci_all _ CI db))). reflexivity.
Qed.

Lemma gtrace_reach : forall evs st P R, reach_g st P R -> all_ok_cons st evs = true ->
  reach_g (fst (fst (gtrace st P R evs))) (snd (fst (gtrace st P R evs))) (snd (gtrace st P R evs)).
Proof.
  induction evs as [|e evs IH]; intros st P R H Hok; cbn [gtrace all_ok_cons] in *; [exact H|].
  apply andb_true_iff in Hok. destruct Hok as [H1 H2]. apply IH; [apply rg_step; assumption|exact H2].
Qed.
