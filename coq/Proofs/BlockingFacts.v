(** Proofs about Model/Blocking.v (C13): the registry, the agreement invariant of the
    event-loop transition system of Spec/BlockingSpec.v, replies of blocking calls,
    conservation, FIFO. *)
From Ferrous Require Import Base.Bytes Generated Model.Resp Model.Types Model.Strings Model.Lists
  Model.Server Model.Blocking Spec.BlockingSpec Proofs.BytesFacts Proofs.StringsFacts Proofs.ServerFacts.
From Coq Require Import ZifyBool Lia.
Open Scope Z_scope.

(** ================= the registry ================= *)
(** the AOF record of a served pop (293eff6) touches the log only *)
Lemma log_pop_rest s dbi lf k :
  s_dbs (log_pop s dbi lf k) = s_dbs s /\ s_conns (log_pop s dbi lf k) = s_conns s /\
  s_password (log_pop s dbi lf k) = s_password s /\ s_trk (log_pop s dbi lf k) = s_trk s /\
  s_pubsub (log_pop s dbi lf k) = s_pubsub s.
Proof. unfold log_pop, log_aof_in. destruct (same_db _ _); repeat split; reflexivity. Qed.
Lemma log_served_rest s dbi lf r :
  s_dbs (log_served s dbi lf r) = s_dbs s /\ s_conns (log_served s dbi lf r) = s_conns s /\
  s_password (log_served s dbi lf r) = s_password s /\ s_trk (log_served s dbi lf r) = s_trk s /\
  s_pubsub (log_served s dbi lf r) = s_pubsub s.
Proof.
  unfold log_served.
  repeat match goal with |- context [match ?v with _ => _ end] => destruct v; try (repeat split; reflexivity) end;
  apply log_pop_rest.
Qed.
Lemma get_db_log_pop s dbi lf k j : get_db (log_pop s dbi lf k) j = get_db s j.
Proof. unfold get_db. rewrite (proj1 (log_pop_rest s dbi lf k)). reflexivity. Qed.
Lemma get_db_log_served s dbi lf r j : get_db (log_served s dbi lf r) j = get_db s j.
Proof. unfold get_db. rewrite (proj1 (log_served_rest s dbi lf r)). reflexivity. Qed.

Lemma rk_eqb_refl k : rk_eqb k k = true.
Proof. unfold rk_eqb. rewrite Z.eqb_refl, beq_refl. reflexivity. Qed.
Lemma rk_eqb_eq a b : rk_eqb a b = true <-> a = b.
Proof.
  unfold rk_eqb. destruct a as [d k], b as [d' k']. cbn [fst snd]. split.
  - intros H. apply andb_true_iff in H. destruct H as [H1 H2]. apply Z.eqb_eq in H1. apply beq_eq in H2. congruence.
  - intros H. inversion H; subst. rewrite Z.eqb_refl, beq_refl. reflexivity.
Qed.
Lemma rk_eqb_sym a b : rk_eqb a b = rk_eqb b a.
Proof.
  destruct (rk_eqb a b) eqn:E; symmetry.
  - apply rk_eqb_eq in E. subst. apply rk_eqb_refl.
  - destruct (rk_eqb b a) eqn:E2; [|reflexivity]. apply rk_eqb_eq in E2. subst. rewrite rk_eqb_refl in E. discriminate.
Qed.

(** reg_get only sees what is in some entry *)
Lemma reg_get_in r rk w : In w (reg_get r rk) -> exists q, In (rk, q) r /\ In w q.
Proof.
  induction r as [|[k' q] t IH]; cbn [reg_get]; [intros []|].
  destruct (rk_eqb rk k') eqn:E.
  - apply rk_eqb_eq in E. subst. intros H. exists q. split; [left; reflexivity|exact H].
  - intros H. destruct (IH H) as [q' [H1 H2]]. exists q'. split; [right; exact H1|exact H2].
Qed.

Lemma in_reg_remove r k rk q : In (rk, q) (reg_remove r k) -> In (rk, q) r /\ rk_eqb k rk = false.
Proof.
  induction r as [|[k' q'] t IH]; cbn [reg_remove]; [intros []|].
  destruct (rk_eqb k k') eqn:E.
  - intros H. destruct (IH H). split; [right; assumption|assumption].
  - intros [H|H].
    + inversion H; subst. split; [left; reflexivity|exact E].
    + destruct (IH H). split; [right; assumption|assumption].
Qed.
Lemma reg_get_remove_same r k : reg_get (reg_remove r k) k = [].
Proof.
  induction r as [|[k' q'] t IH]; cbn [reg_remove reg_get]; [reflexivity|].
  destruct (rk_eqb k k') eqn:E; [exact IH|]. cbn [reg_get]. rewrite E. exact IH.
Qed.
Lemma reg_get_remove_other r k k' : rk_eqb k' k = false -> reg_get (reg_remove r k) k' = reg_get r k'.
Proof.
  intros Hn. induction r as [|[k2 q2] t IH]; cbn [reg_remove reg_get]; [reflexivity|].
  destruct (rk_eqb k k2) eqn:E.
  - apply rk_eqb_eq in E. subst k2. rewrite Hn. exact IH.
  - cbn [reg_get]. rewrite IH. reflexivity.
Qed.
Lemma reg_get_put_same r k q : reg_get (reg_put r k q) k = q.
Proof. unfold reg_put. cbn [reg_get]. rewrite rk_eqb_refl. reflexivity. Qed.
Lemma reg_get_put_other r k k' q : rk_eqb k' k = false -> reg_get (reg_put r k q) k' = reg_get r k'.
Proof. intros Hn. unfold reg_put. cbn [reg_get]. rewrite Hn. apply reg_get_remove_other. exact Hn. Qed.
Lemma in_reg_put r k q rk q' : In (rk, q') (reg_put r k q) -> (rk = k /\ q' = q) \/ (In (rk, q') r /\ rk_eqb k rk = false).
Proof.
  unfold reg_put. intros [H|H].
  - inversion H; subst. left. split; reflexivity.
  - right. apply in_reg_remove. exact H.
Qed.

(** unregister / unregister_all / expire_reg act entry by entry *)
Lemma in_unregister r db c rk q :
  In (rk, q) (unregister r db c) ->
  exists q0, In (rk, q0) r /\ q = if fst rk =? db then filter (not_conn c) q0 else q0.
Proof.
  unfold unregister. intros H. apply in_map_iff in H. destruct H as [[rk0 q0] [H1 H2]]. cbn [fst snd] in H1.
  exists q0. destruct (fst rk0 =? db) eqn:E; injection H1 as Hrk Hq; subst rk q; (split; [exact H2|]); rewrite E; reflexivity.
Qed.
Lemma reg_get_unregister r db c rk :
  reg_get (unregister r db c) rk = if fst rk =? db then filter (not_conn c) (reg_get r rk) else reg_get r rk.
Proof.
  induction r as [|[k' q'] t IH]; cbn [unregister map reg_get]; [destruct (fst rk =? db); reflexivity|].
  fold (unregister t db c). cbn [fst snd].
  destruct (rk_eqb rk k') eqn:E.
  - apply rk_eqb_eq in E. subst k'. destruct (fst rk =? db) eqn:E2; cbn [reg_get]; rewrite rk_eqb_refl; reflexivity.
  - destruct (fst k' =? db); cbn [reg_get]; rewrite E; exact IH.
Qed.
Lemma in_unregister_all r c rk q :
  In (rk, q) (unregister_all r c) -> exists q0, In (rk, q0) r /\ q = filter (not_conn c) q0.
Proof.
  unfold unregister_all. intros H. apply in_map_iff in H. destruct H as [[rk0 q0] [H1 H2]]. cbn [fst snd] in H1.
  injection H1 as <- <-. exists q0. split; [exact H2|reflexivity].
Qed.
Lemma reg_get_unregister_all r c rk : reg_get (unregister_all r c) rk = filter (not_conn c) (reg_get r rk).
Proof.
  induction r as [|[k' q'] t IH]; cbn [unregister_all map reg_get]; [reflexivity|].
  fold (unregister_all t c). cbn [fst snd]. destruct (rk_eqb rk k'); [reflexivity|exact IH].
Qed.
Lemma in_expire now r rk q :
  In (rk, q) (snd (expire_reg now r)) -> exists q0, In (rk, q0) r /\ q = filter (live_w now) q0.
Proof.
  unfold expire_reg. cbn [snd]. intros H. apply in_map_iff in H. destruct H as [[rk0 q0] [H1 H2]].
  cbn [fst snd] in H1. inversion H1; subst. exists q0. split; [exact H2|reflexivity].
Qed.
Lemma reg_get_expire now r rk : reg_get (snd (expire_reg now r)) rk = filter (live_w now) (reg_get r rk).
Proof.
  unfold expire_reg. cbn [snd]. induction r as [|[k' q'] t IH]; cbn [map reg_get]; [reflexivity|]. cbn [fst snd].
  destruct (rk_eqb rk k'); [reflexivity|exact IH].
Qed.
Lemma in_expired_ids now r c :
  In c (fst (expire_reg now r)) <-> exists rk q w, In (rk, q) r /\ In w q /\ expired_w now w = true /\ w_conn w = c.
Proof.
  unfold expire_reg, expired_ids. cbn [fst]. rewrite in_flat_map. split.
  - intros [[rk q] [H1 H2]]. cbn [snd] in H2. apply in_map_iff in H2. destruct H2 as [w [H3 H4]].
    apply in_rev in H4. apply filter_In in H4. destruct H4 as [H5 H6]. exists rk, q, w. repeat split; assumption.
  - intros [rk [q [w [H1 [H2 [H3 H4]]]]]]. exists (rk, q). split; [exact H1|]. cbn [snd].
    apply in_map_iff. exists w. split; [exact H4|]. apply -> in_rev. apply filter_In. split; assumption.
Qed.

(** register: one more waiter at the BACK of the queue of every named key *)
Definition mkw (c : Z) (dl : option Z) (left : bool) (at_ : Z) : waiter := {| w_conn := c; w_dl := dl; w_left := left; w_at := at_ |}.
Lemma reg_get_register db c left dl at_ : forall keys r0 rk,
  exists n, reg_get (register r0 db c keys left dl at_) rk = reg_get r0 rk ++ repeat (mkw c dl left at_) n
            /\ (n <> O <-> (fst rk = db /\ bmem (snd rk) keys = true)).
Proof.
  intros keys. induction keys as [|k keys IH]; intros r0 rk.
  - exists O. cbn. rewrite app_nil_r. split; [reflexivity|]. split; [congruence|intros [_ H]; discriminate].
  - unfold register. cbn [fold_left]. fold (mkw c dl left at_).
    set (r1 := reg_put r0 (db, k) (reg_get r0 (db, k) ++ [mkw c dl left at_])).
    destruct (IH r1 rk) as [n [Hn Hiff]]. unfold register in Hn. fold (mkw c dl left at_) in Hn.
    destruct (rk_eqb rk (db, k)) eqn:E.
    + apply rk_eqb_eq in E. subst rk. exists (S n). split.
      * rewrite Hn. unfold r1. rewrite reg_get_put_same. rewrite <- app_assoc. reflexivity.
      * split; [intros _|congruence]. cbn [fst snd bmem]. rewrite beq_refl. split; reflexivity.
    + exists n. split.
      * rewrite Hn. unfold r1. rewrite reg_get_put_other by exact E. reflexivity.
      * rewrite Hiff. cbn [bmem]. unfold rk_eqb in E. cbn [fst snd] in E.
        split; intros [H1 H2]; (split; [exact H1|]).
        -- rewrite H2. apply orb_true_r.
        -- apply orb_true_iff in H2. destruct H2 as [H2|H2]; [|exact H2].
           rewrite H1, Z.eqb_refl, H2 in E. discriminate.
Qed.
Lemma in_register db c left dl at_ : forall keys r0 rk q,
  In (rk, q) (register r0 db c keys left dl at_) ->
  forall w, In w q ->
  (w = mkw c dl left at_ /\ fst rk = db /\ bmem (snd rk) keys = true) \/ exists q0, In (rk, q0) r0 /\ In w q0.
Proof.
  intros keys. induction keys as [|k keys IH]; intros r0 rk q Hin w Hw.
  - right. exists q. split; assumption.
  - unfold register in Hin. cbn [fold_left] in Hin. fold (mkw c dl left at_) in Hin.
    set (r1 := reg_put r0 (db, k) (reg_get r0 (db, k) ++ [mkw c dl left at_])) in Hin.
    destruct (IH r1 rk q Hin w Hw) as [(H & H' & H'')|[q0 [H1 H2]]].
    { left. split; [exact H|]. split; [exact H'|]. cbn [bmem]. rewrite H''. apply orb_true_r. }
    unfold r1 in H1. apply in_reg_put in H1. destruct H1 as [[H1 H3]|[H1 _]].
    + subst q0. apply in_app_or in H2. destruct H2 as [H2|[H2|[]]].
      * apply reg_get_in in H2. destruct H2 as [q1 [H4 H5]]. right. exists q1. subst rk. split; assumption.
      * left. subst rk. cbn [fst snd bmem]. rewrite beq_refl. repeat split. symmetry. exact H2.
    + right. exists q0. split; assumption.
Qed.

(** reregister: the same waiter once more per named key, at the place its stamp gives it *)
Lemma in_ins_at w q x : In x (ins_at w q) <-> x = w \/ In x q.
Proof.
  induction q as [|y q IH]; cbn [ins_at].
  - split; [intros [H|[]]; left; congruence|intros [H|[]]; left; congruence].
  - destruct (w_at w <? w_at y).
    + split; [intros [H|H]; [left; congruence|right; exact H]|intros [H|H]; [left; congruence|right; exact H]].
    + cbn [In]. rewrite IH. tauto.
Qed.
Lemma in_reregister db c left dl at_ : forall keys r0 rk q,
  In (rk, q) (reregister r0 db c keys left dl at_) ->
  forall w, In w q ->
  (w = mkw c dl left at_ /\ fst rk = db /\ bmem (snd rk) keys = true) \/ exists q0, In (rk, q0) r0 /\ In w q0.
Proof.
  intros keys. induction keys as [|k keys IH]; intros r0 rk q Hin w Hw.
  - right. exists q. split; assumption.
  - unfold reregister in Hin. cbn [fold_left] in Hin. fold (mkw c dl left at_) in Hin.
    set (r1 := reg_put r0 (db, k) (ins_at (mkw c dl left at_) (reg_get r0 (db, k)))) in Hin.
    destruct (IH r1 rk q Hin w Hw) as [(H & H' & H'')|[q0 [H1 H2]]].
    { left. split; [exact H|]. split; [exact H'|]. cbn [bmem]. rewrite H''. apply orb_true_r. }
    unfold r1 in H1. apply in_reg_put in H1. destruct H1 as [[H1 H3]|[H1 _]].
    + subst q0. apply in_ins_at in H2. destruct H2 as [H2|H2].
      * left. subst rk. cbn [fst snd bmem]. rewrite beq_refl. repeat split. exact H2.
      * apply reg_get_in in H2. destruct H2 as [q1 [H4 H5]]. right. exists q1. subst rk. split; assumption.
    + right. exists q0. split; assumption.
Qed.
Lemma reg_get_reregister db c left dl at_ : forall keys r0 rk,
  (forall x, In x (reg_get r0 rk) -> In x (reg_get (reregister r0 db c keys left dl at_) rk)) /\
  ((fst rk = db /\ bmem (snd rk) keys = true) -> In (mkw c dl left at_) (reg_get (reregister r0 db c keys left dl at_) rk)) /\
  ((fst rk = db /\ bmem (snd rk) keys = true) \/ reg_get (reregister r0 db c keys left dl at_) rk = reg_get r0 rk).
Proof.
  intros keys. induction keys as [|k keys IH]; intros r0 rk.
  - cbn. split; [auto|]. split; [intros [_ H]; discriminate|right; reflexivity].
  - unfold reregister. cbn [fold_left]. fold (mkw c dl left at_).
    set (r1 := reg_put r0 (db, k) (ins_at (mkw c dl left at_) (reg_get r0 (db, k)))).
    destruct (IH r1 rk) as (I1 & I2 & I3). unfold reregister in I1, I2, I3. fold (mkw c dl left at_) in I1, I2, I3.
    destruct (rk_eqb rk (db, k)) eqn:E.
    + apply rk_eqb_eq in E. subst rk.
      assert (Hg : reg_get r1 (db, k) = ins_at (mkw c dl left at_) (reg_get r0 (db, k))) by (unfold r1; apply reg_get_put_same).
      split; [intros x Hx; apply I1; rewrite Hg; apply in_ins_at; right; exact Hx|].
      split; [intros _; apply I1; rewrite Hg; apply in_ins_at; left; reflexivity|].
      left. cbn [fst snd bmem]. rewrite beq_refl. split; reflexivity.
    + assert (Hg : reg_get r1 rk = reg_get r0 rk) by (unfold r1; apply reg_get_put_other; exact E).
      split; [intros x Hx; apply I1; rewrite Hg; exact Hx|].
      split.
      * intros [H1 H2]. apply I2. split; [exact H1|]. cbn [bmem] in H2. apply orb_true_iff in H2. destruct H2 as [H2|H2]; [|exact H2].
        unfold rk_eqb in E. cbn [fst snd] in E. rewrite H1, Z.eqb_refl, H2 in E. discriminate.
      * destruct I3 as [[H1 H2]|H3]; [left; split; [exact H1|]; cbn [bmem]; rewrite H2; apply orb_true_r|right; rewrite H3; exact Hg].
Qed.

Lemma in_reg_get_reregister db c left dl a : forall keys r rk w,
  In w (reg_get (reregister r db c keys left dl a) rk) -> w = mkw c dl left a \/ In w (reg_get r rk).
Proof.
  induction keys as [|k keys IH]; intros r rk w H; [right; exact H|].
  change (reregister r db c (k :: keys) left dl a) with
    (reregister (reg_put r (db, k) (ins_at (mkw c dl left a) (reg_get r (db, k)))) db c keys left dl a) in H.
  apply IH in H. destruct H as [H|H]; [left; exact H|].
  destruct (rk_eqb rk (db, k)) eqn:E.
  - apply rk_eqb_eq in E. subst rk. rewrite reg_get_put_same in H. apply in_ins_at in H. exact H.
  - rewrite reg_get_put_other in H by exact E. right. exact H.
Qed.

(** ================= small facts ================= *)
Lemma cnt_zero c q : cnt c q = O <-> forall w, In w q -> w_conn w <> c.
Proof.
  unfold cnt. induction q as [|w q IH]; cbn [filter length]; [split; [intros _ ? []|reflexivity]|].
  destruct (w_conn w =? c) eqn:E; cbn [length].
  - split; [discriminate|]. intros H. exfalso. apply (H w); [left; reflexivity|]. lia.
  - rewrite IH. split.
    + intros H w' [Hw|Hw]; [subst; lia|auto].
    + intros H w' Hw. apply H. right. exact Hw.
Qed.
Lemma cnt_nonzero c q : cnt c q <> O <-> exists w, In w q /\ w_conn w = c.
Proof.
  unfold cnt. induction q as [|w q IH]; cbn [filter length]; [split; [congruence|intros [? [[] _]]]|].
  destruct (w_conn w =? c) eqn:E; cbn [length].
  - split; [intros _; exists w; split; [left; reflexivity|lia]|intros _; lia].
  - rewrite IH. split; intros [w' [H1 H2]].
    + exists w'. split; [right; exact H1|exact H2].
    + destruct H1 as [H1|H1]; [subst; lia|]. exists w'. split; assumption.
Qed.
Lemma cnt_app c q1 q2 : cnt c (q1 ++ q2) = (cnt c q1 + cnt c q2)%nat.
Proof. unfold cnt. rewrite filter_app, app_length. reflexivity. Qed.
Lemma wakes_for_nil c l : wakes_for c l = [] <-> forall u, In u l -> u_conn u <> c.
Proof.
  unfold wakes_for. induction l as [|u l IH]; cbn [filter]; [split; [intros _ ? []|reflexivity]|].
  destruct (u_conn u =? c) eqn:E.
  - split; [discriminate|]. intros H. exfalso. apply (H u); [left; reflexivity|lia].
  - rewrite IH. split.
    + intros H u' [Hu|Hu]; [subst; lia|auto].
    + intros H u' Hu. apply H. right. exact Hu.
Qed.
Lemma is_blocked_true b c : is_blocked b c = true <-> exists st, zlookup c (b_blk b) = Some st.
Proof. unfold is_blocked. destruct (zlookup c (b_blk b)); split; try discriminate; eauto. intros [? H]; discriminate. Qed.
Lemma is_blocked_false b c : is_blocked b c = false <-> zlookup c (b_blk b) = None.
Proof. unfold is_blocked. destruct (zlookup c (b_blk b)); split; congruence. Qed.

(** agreement with an explicit wake queue (wake-ups taken out of the queue by
    process_wakeups are still "under way" until wake_client has run) *)
Definition agreeW (b : blocking) (W : list wakeup) : Prop := agree (with_wake b W).
Lemma agreeW_self b : agreeW b (b_wake b) <-> agree b.
Proof. unfold agreeW. destruct b; reflexivity. Qed.

(** a connection that is not Blocked has no registration *)
Lemma not_blocked_clean b c : agree b -> zlookup c (b_blk b) = None ->
  forall rk q, In (rk, q) (b_reg b) -> cnt c q = O.
Proof.
  intros (A1 & _) Hc rk q Hin. apply cnt_zero. intros w Hw Hcw. destruct (A1 rk q w Hin Hw) as (st & H & _). congruence.
Qed.

(** ---- a connection blocks (handle_blpop/handle_brpop) or is registered again (wake_client):
    [reg'] adds waiters for [c] alone, all with the data of its Blocked state, at least one on
    each of its keys, and keeps the others ---- *)
Lemma agree_register_gen b W c st blk' reg' :
  agreeW b W -> zlookup c (b_blk b) = None -> wakes_for c W = [] -> zlookup c blk' = Some st ->
  (forall c2, c2 <> c -> zlookup c2 blk' = zlookup c2 (b_blk b)) ->
  (forall rk q w, In (rk, q) reg' -> In w q ->
     (w_conn w = c /\ w_dl w = bl_dl st /\ w_left w = bl_left st /\ fst rk = bl_db st /\ bmem (snd rk) (bl_keys st) = true)
     \/ exists q0, In (rk, q0) (b_reg b) /\ In w q0) ->
  (forall rk x, In x (reg_get (b_reg b) rk) -> In x (reg_get reg' rk)) ->
  (forall k, bmem k (bl_keys st) = true -> cnt c (reg_get reg' (bl_db st, k)) <> O) ->
  agreeW (with_blk (with_reg b reg') blk') W.
Proof.
  intros HA Hnb Hnw Hst Hoth I1 I2 I3.
  destruct HA as (A1 & A2 & A3 & A4).
  unfold agreeW, agree, waiters_agree, wakes_agree, wakes_unique, blocked_registered in *.
  cbn [with_wake with_reg with_blk b_reg b_wake b_blk] in *.
  split; [|split; [|split]].
  - intros rk q w Hin Hw.
    destruct (I1 _ _ _ Hin Hw) as [(Hc & Hd & Hl & Hrk & Hk)|[q0 [H1 H2]]].
    + exists st. rewrite Hc. repeat split; try assumption; congruence.
    + destruct (A1 rk q0 w H1 H2) as (st2 & B1 & B2 & B3 & B4 & B5 & B6).
      assert (Hne : w_conn w <> c) by (intros E; rewrite E in B1; congruence).
      exists st2. rewrite (Hoth _ Hne). repeat split; assumption.
  - intros u Hu. destruct (A2 u Hu) as (B1 & B2).
    assert (Hne : u_conn u <> c) by (rewrite wakes_for_nil in Hnw; apply Hnw; exact Hu).
    split.
    + intros rk q Hin. apply cnt_zero. intros w Hw.
      destruct (I1 _ _ _ Hin Hw) as [(Hc & _)|[q0 [H1 H2]]]; [congruence|].
      pose proof (B1 rk q0 H1) as Hz. rewrite cnt_zero in Hz. apply Hz. exact H2.
    + intros st2. rewrite (Hoth _ Hne). apply B2.
  - exact A3.
  - intros c2 st2 Hc2 Hw2 k Hk.
    destruct (Z.eq_dec c2 c) as [E|E].
    + subst c2. rewrite Hst in Hc2. injection Hc2 as <-. apply I3. exact Hk.
    + rewrite (Hoth _ E) in Hc2. pose proof (A4 c2 st2 Hc2 Hw2 k Hk) as Hold.
      apply cnt_nonzero in Hold. destruct Hold as [w [G1 G2]]. apply cnt_nonzero. exists w. split; [apply I2; exact G1|exact G2].
Qed.
Lemma repeat_in {A} (x y : A) n : In y (repeat x n) -> y = x.
Proof. induction n; cbn; [intros []|intros [H|H]; [congruence|auto]]. Qed.
Lemma agree_register b W c st blk' at_ :
  agreeW b W -> zlookup c (b_blk b) = None -> wakes_for c W = [] -> zlookup c blk' = Some st ->
  (forall c2, c2 <> c -> zlookup c2 blk' = zlookup c2 (b_blk b)) ->
  agreeW (with_blk (with_reg b (register (b_reg b) (bl_db st) c (bl_keys st) (bl_left st) (bl_dl st) at_)) blk') W.
Proof.
  intros HA Hnb Hnw Hst Hoth. apply (agree_register_gen b W c st blk' _ HA Hnb Hnw Hst Hoth).
  - intros rk q w Hin Hw. destruct (in_register _ _ _ _ _ _ _ _ _ Hin w Hw) as [(-> & H1 & H2)|H]; [left|right; exact H].
    cbn [mkw w_conn w_dl w_left]. repeat split; assumption.
  - intros rk x Hx. destruct (reg_get_register (bl_db st) c (bl_left st) (bl_dl st) at_ (bl_keys st) (b_reg b) rk) as [n [Hn _]].
    rewrite Hn. apply in_or_app. left. exact Hx.
  - intros k Hk. destruct (reg_get_register (bl_db st) c (bl_left st) (bl_dl st) at_ (bl_keys st) (b_reg b) (bl_db st, k)) as [n [Hn Hiff]].
    rewrite Hn, cnt_app. assert (n <> O) by (apply Hiff; cbn [fst snd]; split; [reflexivity|exact Hk]).
    destruct n as [|n]; [congruence|]. cbn [repeat]. unfold cnt at 2. cbn [filter mkw w_conn]. rewrite Z.eqb_refl. cbn [length]. lia.
Qed.
Lemma agree_reregister_gen b W c st blk' at_ :
  agreeW b W -> zlookup c (b_blk b) = None -> wakes_for c W = [] -> zlookup c blk' = Some st ->
  (forall c2, c2 <> c -> zlookup c2 blk' = zlookup c2 (b_blk b)) ->
  agreeW (with_blk (with_reg b (reregister (b_reg b) (bl_db st) c (bl_keys st) (bl_left st) (bl_dl st) at_)) blk') W.
Proof.
  intros HA Hnb Hnw Hst Hoth. apply (agree_register_gen b W c st blk' _ HA Hnb Hnw Hst Hoth).
  - intros rk q w Hin Hw. destruct (in_reregister _ _ _ _ _ _ _ _ _ Hin w Hw) as [(-> & H1 & H2)|H]; [left|right; exact H].
    cbn [mkw w_conn w_dl w_left]. repeat split; assumption.
  - intros rk x Hx. apply (reg_get_reregister (bl_db st) c (bl_left st) (bl_dl st) at_ (bl_keys st) (b_reg b) rk). exact Hx.
  - intros k Hk. apply cnt_nonzero. exists (mkw c (bl_dl st) (bl_left st) at_). split; [|reflexivity].
    apply (reg_get_reregister (bl_db st) c (bl_left st) (bl_dl st) at_ (bl_keys st) (b_reg b) (bl_db st, k)). split; [reflexivity|exact Hk].
Qed.

(** ---- a push notifies the first waiter of the key ---- *)
Lemma cnt_filter_other c c' q : c <> c' -> cnt c (filter (not_conn c') q) = cnt c q.
Proof.
  intros Hn. unfold cnt, not_conn. induction q as [|w q IH]; cbn [filter]; [reflexivity|].
  destruct (w_conn w =? c') eqn:E1; cbn [negb filter]; destruct (w_conn w =? c) eqn:E2; cbn [length]; try rewrite IH; try reflexivity.
  lia.
Qed.
Lemma in_filter_sub {A} (f : A -> bool) l x : In x (filter f l) -> In x l.
Proof. intros H. apply filter_In in H. tauto. Qed.

Lemma NoDup_app_disjoint {A} (l1 l2 : list A) : NoDup (l1 ++ l2) -> forall x, In x l1 -> In x l2 -> False.
Proof.
  induction l1 as [|a l1 IH]; cbn [app]; intros H x H1 H2; [destruct H1|].
  apply NoDup_cons_iff in H. destruct H as [Hn Hd].
  destruct H1 as [->|H1]; [apply Hn; apply in_or_app; right; exact H2|eapply IH; eauto].
Qed.
Lemma NoDup_app_single {A} (l : list A) x : NoDup l -> ~ In x l -> NoDup (l ++ [x]).
Proof.
  induction l as [|y l IH]; intros Hn Hx; cbn [app]; [constructor; [intros []|constructor]|].
  inversion Hn; subst. constructor.
  - intros Hin. apply in_app_or in Hin. destruct Hin as [Hin|[Hin|[]]]; [contradiction|]. subst. apply Hx. left. reflexivity.
  - apply IH; [assumption|]. intros Hin. apply Hx. right. exact Hin.
Qed.

Lemma agree_notify b db k : agree b -> agree (notify_key_ready b db k).
Proof.
  intros HA. unfold notify_key_ready. destruct (reg_get (b_reg b) (db, k)) as [|w q] eqn:Eg; [exact HA|].
  assert (Hwin : In w (reg_get (b_reg b) (db, k))) by (rewrite Eg; left; reflexivity).
  destruct (reg_get_in _ _ _ Hwin) as [q0 [Hq0 Hwq0]].
  destruct HA as (A1 & A2 & A3 & A4).
  destruct (A1 _ _ _ Hq0 Hwq0) as (st' & S1 & S2 & S3 & S4 & S5 & S6). cbn [fst snd] in S2, S3.
  set (c' := w_conn w) in *.
  (* every waiter of the new registry was a waiter of the same key; none of c' is left in database db *)
  assert (Hsub : forall rk2 q2, In (rk2, q2) (unregister (reg_put (b_reg b) (db, k) q) db c') ->
            forall w2, In w2 q2 ->
            (exists q3, In (rk2, q3) (b_reg b) /\ In w2 q3) /\ (fst rk2 = db -> w_conn w2 <> c')).
  { intros rk2 q2 Hin w2 Hw2. apply in_unregister in Hin. destruct Hin as [q3 [H1 H2]].
    assert (Hw3 : In w2 q3) by (subst q2; destruct (fst rk2 =? db); [eapply in_filter_sub; exact Hw2|exact Hw2]).
    split.
    - apply in_reg_put in H1. destruct H1 as [[H1 H3]|[H1 _]].
      + subst rk2 q3. apply reg_get_in. rewrite Eg. right. exact Hw3.
      + exists q3. split; assumption.
    - intros Hdb. subst q2. replace (fst rk2 =? db) with true in Hw2 by lia.
      apply filter_In in Hw2. destruct Hw2 as [_ Hf]. unfold not_conn in Hf. lia. }
  (* c' has no registration outside database db *)
  assert (Hc'db : forall rk2 q3 w2, In (rk2, q3) (b_reg b) -> In w2 q3 -> w_conn w2 = c' -> fst rk2 = db).
  { intros rk2 q3 w2 H1 H2 H3. destruct (A1 _ _ _ H1 H2) as (st2 & T1 & T2 & _). rewrite H3, S1 in T1.
    injection T1 as <-. congruence. }
  unfold agree, waiters_agree, wakes_agree, wakes_unique, blocked_registered.
  cbn [with_wake with_reg b_reg b_wake b_blk].
  split; [|split; [|split]].
  - intros rk2 q2 w2 Hin Hw2. destruct (Hsub _ _ Hin _ Hw2) as [[q3 [H1 H2]] Hne].
    destruct (A1 _ _ _ H1 H2) as (st2 & T1 & T2 & T3 & T4 & T5 & T6).
    exists st2. repeat split; try assumption.
    apply wakes_for_nil. intros u Hu. apply in_app_or in Hu. destruct Hu as [Hu|[Hu|[]]].
    + rewrite wakes_for_nil in T6. apply T6. exact Hu.
    + subst u. cbn [u_conn]. intros E. destruct (Z.eq_dec (fst rk2) db) as [Ed|Ed]; [apply (Hne Ed); symmetry; exact E|].
      apply Ed. eapply Hc'db; eauto.
  - intros u0 Hu. apply in_app_or in Hu. destruct Hu as [Hu|[Hu|[]]].
    + destruct (A2 u0 Hu) as (T5 & T6). split; [|exact T6].
      intros rk2 q2 Hin. apply cnt_zero. intros w2 Hw2. destruct (Hsub _ _ Hin _ Hw2) as [[q3 [H1 H2]] _].
      pose proof (T5 _ _ H1) as Hz. rewrite cnt_zero in Hz. apply Hz. exact H2.
    + subst u0. cbn [u_conn u_db u_key u_left]. split.
      * intros rk2 q2 Hin. apply cnt_zero. intros w2 Hw2 E. destruct (Hsub _ _ Hin _ Hw2) as [[q3 [H1 H2]] Hne].
        apply Hne; [|exact E]. eapply Hc'db; eauto.
      * intros st0 Hst0. fold c' in Hst0. rewrite S1 in Hst0. injection Hst0 as <-. repeat split; try assumption; congruence.
  - rewrite map_app. cbn [map u_conn]. apply NoDup_app_single; [exact A3|].
    intros Hin. apply in_map_iff in Hin. destruct Hin as [u [H1 H2]].
    rewrite wakes_for_nil in S6. apply (S6 u H2). exact H1.
  - intros c2 st2 Hc2 Hw2 k2 Hk2.
    assert (Hne : c2 <> c').
    { intros E. rewrite wakes_for_nil in Hw2. apply (Hw2 {| u_conn := c'; u_db := db; u_key := k; u_left := w_left w; u_at := w_at w |}).
      - apply in_or_app. right. left. reflexivity.
      - cbn [u_conn]. congruence. }
    assert (Hw2' : wakes_for c2 (b_wake b) = []).
    { apply wakes_for_nil. intros u Hu. rewrite wakes_for_nil in Hw2. apply Hw2. apply in_or_app. left. exact Hu. }
    pose proof (A4 c2 st2 Hc2 Hw2' k2 Hk2) as Hold.
    rewrite reg_get_unregister. cbn [fst].
    assert (Hput : cnt c2 (reg_get (reg_put (b_reg b) (db, k) q) (bl_db st2, k2)) = cnt c2 (reg_get (b_reg b) (bl_db st2, k2))).
    { destruct (rk_eqb (bl_db st2, k2) (db, k)) eqn:E.
      - apply rk_eqb_eq in E. rewrite E, reg_get_put_same, Eg. unfold cnt. cbn [filter].
        replace (w_conn w =? c2) with false by (fold c'; lia). reflexivity.
      - rewrite reg_get_put_other by exact E. reflexivity. }
    destruct (bl_db st2 =? db); [rewrite cnt_filter_other by exact Hne|]; rewrite Hput; exact Hold.
Qed.

Lemma agree_notify_n n : forall b db k, agree b -> agree (notify_n n b db k).
Proof.
  induction n as [|n IH]; intros b db k HA; cbn [notify_n]; [exact HA|].
  destruct (reg_get (b_reg b) (db, k)); [exact HA|]. apply IH. apply agree_notify. exact HA.
Qed.
Lemma agree_notify_after_push b dbi name parts r : agree b -> agree (notify_after_push b dbi name parts r).
Proof.
  intros HA. unfold notify_after_push. destruct (is_push_name name); [|exact HA].
  destruct r; try exact HA. destruct parts as [|? [|[] [|? ?]]]; try exact HA.
  destruct (0 <? z); [|exact HA]. apply agree_notify_n. exact HA.
Qed.
(** the blocking manager's other fields are not touched by a notification *)
Lemma notify_key_ready_fields b db k :
  b_blk (notify_key_ready b db k) = b_blk b /\ b_out (notify_key_ready b db k) = b_out b /\
  b_crashed (notify_key_ready b db k) = b_crashed b /\ b_dead (notify_key_ready b db k) = b_dead b /\
  b_in (notify_key_ready b db k) = b_in b.
Proof. unfold notify_key_ready. destruct (reg_get (b_reg b) (db, k)); repeat split; reflexivity. Qed.
Lemma notify_n_fields n : forall b db k,
  b_blk (notify_n n b db k) = b_blk b /\ b_out (notify_n n b db k) = b_out b /\
  b_crashed (notify_n n b db k) = b_crashed b /\ b_dead (notify_n n b db k) = b_dead b /\
  b_in (notify_n n b db k) = b_in b.
Proof.
  induction n as [|n IH]; intros b db k; cbn [notify_n]; [repeat split; reflexivity|].
  destruct (reg_get (b_reg b) (db, k)); [repeat split; reflexivity|].
  destruct (IH (notify_key_ready b db k) db k) as (H1 & H2 & H3 & H4 & H5).
  destruct (notify_key_ready_fields b db k) as (G1 & G2 & G3 & G4 & G5).
  repeat split; congruence.
Qed.
Lemma notify_after_push_fields b dbi name parts r :
  let b' := notify_after_push b dbi name parts r in
  b_blk b' = b_blk b /\ b_out b' = b_out b /\ b_crashed b' = b_crashed b /\ b_dead b' = b_dead b /\ b_in b' = b_in b.
Proof.
  unfold notify_after_push. destruct (is_push_name name); [|repeat split; reflexivity].
  destruct r; try (repeat split; reflexivity). destruct parts as [|? [|[] [|? ?]]]; try (repeat split; reflexivity).
  destruct (0 <? z); [|repeat split; reflexivity]. apply notify_n_fields.
Qed.

(** the notification after a script: a series of notify_n *)
Lemma agree_notify_after_script s b dbi parts : agree b -> agree (notify_after_script s b dbi parts).
Proof.
  unfold notify_after_script. generalize (firstn (match nth_error parts 2 with
    | Some (FBulk t) => match parse_usize t with Some n => Z.to_nat n | None => O end | _ => O end) (skipn 3 parts)).
  intros l. revert b. induction l as [|f l IH]; intros b HA; cbn [fold_left]; [exact HA|].
  apply IH. destruct f; try exact HA. apply agree_notify_n. exact HA.
Qed.
Lemma notify_after_script_fields s b dbi parts :
  let b' := notify_after_script s b dbi parts in
  b_blk b' = b_blk b /\ b_out b' = b_out b /\ b_crashed b' = b_crashed b /\ b_dead b' = b_dead b /\ b_in b' = b_in b.
Proof.
  cbv zeta. unfold notify_after_script. generalize (firstn (match nth_error parts 2 with
    | Some (FBulk t) => match parse_usize t with Some n => Z.to_nat n | None => O end | _ => O end) (skipn 3 parts)).
  intros l. revert b. induction l as [|f l IH]; intros b; cbn [fold_left]; [repeat split; reflexivity|].
  destruct (IH (match f with FBulk key => notify_n (llen_of (get_db s dbi) key) b dbi key | _ => b end)) as (H1 & H2 & H3 & H4 & H5).
  assert (G : let b1 := match f with FBulk key => notify_n (llen_of (get_db s dbi) key) b dbi key | _ => b end in
              b_blk b1 = b_blk b /\ b_out b1 = b_out b /\ b_crashed b1 = b_crashed b /\ b_dead b1 = b_dead b /\ b_in b1 = b_in b).
  { destruct f; try (repeat split; reflexivity). apply notify_n_fields. }
  cbv zeta in G. destruct G as (G1 & G2 & G3 & G4 & G5). repeat split; congruence.
Qed.

(** ---- wake_client ---- *)
Lemma agree_emit b c f W : agreeW b W -> agreeW (emit b c f) W.
Proof. intros H. exact H. Qed.
(** taking a wake-up off the queue *)
Lemma wake_unique_head b u W : agreeW b (u :: W) -> forall u2, In u2 W -> u_conn u2 <> u_conn u.
Proof.
  intros (_ & _ & A3 & _). unfold wakes_unique in A3. cbn [with_wake b_wake map] in A3.
  inversion A3 as [|x l Hnotin Hnd]; subst. intros u2 Hu2 E. apply Hnotin. rewrite <- E. apply in_map. exact Hu2.
Qed.
(** ... of a connection that is Blocked no more (or never again): the others are untouched *)
Lemma agree_unblock b W u :
  agreeW b (u :: W) -> agreeW (unblock b (u_conn u)) W /\ zlookup (u_conn u) (b_blk (unblock b (u_conn u))) = None.
Proof.
  intros HA. pose proof (wake_unique_head b u W HA) as HW. destruct HA as (A1 & A2 & A3 & A4).
  unfold agreeW, agree, waiters_agree, wakes_agree, wakes_unique, blocked_registered in *.
  cbn [with_wake unblock with_blk b_reg b_wake b_blk] in *.
  destruct (A2 u (or_introl eq_refl)) as (U5 & _).
  inversion A3 as [|x l Hnotin Hnd]; subst.
  split; [|apply zlookup_zremove_same].
  split; [|split; [|split]].
  - intros rk q w Hin Hw. destruct (A1 _ _ _ Hin Hw) as (st2 & T1 & T2 & T3 & T4 & T5 & T6).
    assert (Hne : w_conn w <> u_conn u).
    { intros E. pose proof (U5 _ _ Hin) as Hz. rewrite cnt_zero in Hz. exact (Hz w Hw E). }
    exists st2. rewrite zlookup_zremove_other by exact Hne. repeat split; try assumption.
    apply wakes_for_nil. intros u2 Hu2. rewrite wakes_for_nil in T6. apply T6. right. exact Hu2.
  - intros u2 Hu2. destruct (A2 u2 (or_intror Hu2)) as (T5 & T6). split; [exact T5|].
    intros st2. rewrite zlookup_zremove_other by (apply HW; exact Hu2). apply T6.
  - exact Hnd.
  - intros c2 st2 Hc2 Hw2 k Hk.
    assert (Hne : c2 <> u_conn u) by (intros E; subst c2; rewrite zlookup_zremove_same in Hc2; discriminate).
    rewrite zlookup_zremove_other in Hc2 by exact Hne.
    apply (A4 c2 st2 Hc2); [|exact Hk].
    apply wakes_for_nil. intros u2 [Hu2|Hu2]; [subst; congruence|]. rewrite wakes_for_nil in Hw2. apply Hw2. exact Hu2.
Qed.
(** ... of a connection that is not Blocked: nothing else changes *)
Lemma agree_drop_wake b W u : agreeW b (u :: W) -> zlookup (u_conn u) (b_blk b) = None -> agreeW b W.
Proof.
  intros HA Hn. destruct (agree_unblock b W u HA) as [H _].
  unfold agreeW, agree, waiters_agree, wakes_agree, wakes_unique, blocked_registered in *.
  cbn [with_wake unblock with_blk b_reg b_wake b_blk] in *.
  assert (E : forall c2, zlookup c2 (zremove (u_conn u) (b_blk b)) = zlookup c2 (b_blk b)).
  { intros c2. destruct (Z.eq_dec c2 (u_conn u)) as [->|Hne]; [rewrite zlookup_zremove_same; congruence|apply zlookup_zremove_other; exact Hne]. }
  destruct H as (B1 & B2 & B3 & B4). split; [|split; [|split]].
  - intros rk q w Hin Hw. destruct (B1 rk q w Hin Hw) as (st2 & T). rewrite E in T. exists st2. exact T.
  - intros u2 Hu2. destruct (B2 u2 Hu2) as (T5 & T6). split; [exact T5|]. intros st2 Hs. apply T6. rewrite E. exact Hs.
  - exact B3.
  - intros c2 st2 Hc2. apply B4. rewrite E. exact Hc2.
Qed.

Lemma with_reg_unblock_restore b c r :
  with_blk (with_reg (unblock b c) r) (b_blk b) = with_reg b r.
Proof. destruct b; reflexivity. Qed.

Lemma agree_reregister b W u st :
  agreeW b (u :: W) -> zlookup (u_conn u) (b_blk b) = Some st ->
  agreeW (with_reg b (reregister (b_reg b) (u_db u) (u_conn u) (bl_keys st) (bl_left st) (bl_dl st) (u_at u))) W.
Proof.
  intros HA Hst.
  assert (Hdb : u_db u = bl_db st).
  { destruct HA as (_ & A2 & _). destruct (A2 u (or_introl eq_refl)) as (_ & U2).
    cbn [with_wake b_blk] in U2. destruct (U2 st Hst) as (G & _). exact G. }
  pose proof (wake_unique_head b u W HA) as HW.
  destruct (agree_unblock b W u HA) as [H1 H2].
  assert (Hnw : wakes_for (u_conn u) W = []) by (apply wakes_for_nil; exact HW).
  pose proof (agree_reregister_gen (unblock b (u_conn u)) W (u_conn u) st (b_blk b) (u_at u) H1 H2 Hnw Hst) as H3.
  rewrite <- Hdb in H3. cbn [unblock with_blk b_reg] in H3. rewrite <- with_reg_unblock_restore with (c := u_conn u).
  apply H3. intros c2 Hne. cbn [b_blk]. symmetry. apply zlookup_zremove_other. exact Hne.
Qed.

(** what a wake-up adds to the wake queue: nothing, except when it puts its element back for a
    client that has gone - then the next waiter of the key is notified (0715a3b) *)
Definition renotified (b : blocking) (db : Z) (k : bytes) : list wakeup :=
  match reg_get (b_reg b) (db, k) with
  | [] => []
  | w :: _ => [{| u_conn := w_conn w; u_db := db; u_key := k; u_left := w_left w; u_at := w_at w |}]
  end.
Lemma notify_key_ready_wake b db k : b_wake (notify_key_ready b db k) = b_wake b ++ renotified b db k.
Proof. unfold notify_key_ready, renotified. destruct (reg_get (b_reg b) (db, k)); [rewrite app_nil_r|]; reflexivity. Qed.
Lemma notify_with_wake b W db k :
  notify_key_ready (with_wake b W) db k = with_wake (notify_key_ready b db k) (W ++ renotified b db k).
Proof.
  unfold notify_key_ready, renotified. cbn [with_wake b_reg b_wake].
  destruct (reg_get (b_reg b) (db, k)); [rewrite app_nil_r; reflexivity|reflexivity].
Qed.
Lemma app_self_nil {A} (l ex : list A) : l = l ++ ex -> ex = [].
Proof. intros H. rewrite <- (app_nil_r l) in H at 1. apply app_inv_head in H. symmetry. exact H. Qed.
(** ---- renotify (a wake-up that found nothing, after the client is registered again): a
    series of notify_key_ready, one for each key of the call that holds an element ---- *)
Lemma agree_renotify d dbi : forall keys b, agree b -> agree (renotify d b dbi keys).
Proof.
  unfold renotify. induction keys as [|k keys IH]; intros b HA; cbn [fold_left]; [exact HA|].
  apply IH. destruct (llen_of d k); [exact HA|apply agree_notify; exact HA].
Qed.
Lemma renotify_cons d b dbi k keys :
  renotify d b dbi (k :: keys) = renotify d (match llen_of d k with O => b | S _ => notify_key_ready b dbi k end) dbi keys.
Proof. reflexivity. Qed.
Lemma renotify_fields d dbi : forall keys b,
  b_blk (renotify d b dbi keys) = b_blk b /\ b_out (renotify d b dbi keys) = b_out b /\
  b_crashed (renotify d b dbi keys) = b_crashed b /\ b_dead (renotify d b dbi keys) = b_dead b /\
  b_in (renotify d b dbi keys) = b_in b.
Proof.
  induction keys as [|k keys IH]; intros b; [repeat split; reflexivity|]. rewrite renotify_cons.
  destruct (IH (match llen_of d k with O => b | S _ => notify_key_ready b dbi k end)) as (H1 & H2 & H3 & H4 & H5).
  destruct (llen_of d k); [repeat split; assumption|].
  destruct (notify_key_ready_fields b dbi k) as (G1 & G2 & G3 & G4 & G5). repeat split; congruence.
Qed.
(** the waiters left in a queue were there before *)
Lemma notify_key_ready_reg_sub b db k rk w :
  In w (reg_get (b_reg (notify_key_ready b db k)) rk) -> In w (reg_get (b_reg b) rk).
Proof.
  unfold notify_key_ready. destruct (reg_get (b_reg b) (db, k)) as [|w0 q] eqn:Eg; [auto|].
  cbn [with_wake with_reg b_reg]. rewrite reg_get_unregister. intros H.
  assert (H1 : In w (reg_get (reg_put (b_reg b) (db, k) q) rk)) by (destruct (fst rk =? db); [eapply in_filter_sub; exact H|exact H]).
  destruct (rk_eqb rk (db, k)) eqn:E.
  - apply rk_eqb_eq in E. subst rk. rewrite reg_get_put_same in H1. rewrite Eg. right. exact H1.
  - rewrite reg_get_put_other in H1 by exact E. exact H1.
Qed.
Lemma renotify_reg_sub d dbi rk w : forall keys b,
  In w (reg_get (b_reg (renotify d b dbi keys)) rk) -> In w (reg_get (b_reg b) rk).
Proof.
  induction keys as [|k keys IH]; intros b H; [exact H|]. rewrite renotify_cons in H. apply IH in H.
  destruct (llen_of d k); [exact H|eapply notify_key_ready_reg_sub; exact H].
Qed.
(** what it appends to the wake queue *)
Fixpoint renotified_l (d : db) (b : blocking) (dbi : Z) (keys : list bytes) : list wakeup :=
  match keys with
  | [] => []
  | k :: r => match llen_of d k with
              | O => renotified_l d b dbi r
              | S _ => renotified b dbi k ++ renotified_l d (notify_key_ready b dbi k) dbi r
              end
  end.
Lemma renotify_wake d dbi : forall keys b, b_wake (renotify d b dbi keys) = b_wake b ++ renotified_l d b dbi keys.
Proof.
  induction keys as [|k keys IH]; intros b; [cbn; rewrite app_nil_r; reflexivity|]. rewrite renotify_cons. cbn [renotified_l].
  destruct (llen_of d k); [apply IH|]. rewrite IH, notify_key_ready_wake, app_assoc. reflexivity.
Qed.
Lemma renotified_l_with_wake d dbi : forall keys b W, renotified_l d (with_wake b W) dbi keys = renotified_l d b dbi keys.
Proof.
  induction keys as [|k keys IH]; intros b W; cbn [renotified_l]; [reflexivity|].
  destruct (llen_of d k); [apply IH|]. rewrite notify_with_wake, IH. reflexivity.
Qed.
Lemma renotify_with_wake d dbi : forall keys b W,
  renotify d (with_wake b W) dbi keys = with_wake (renotify d b dbi keys) (W ++ renotified_l d b dbi keys).
Proof.
  induction keys as [|k keys IH]; intros b W.
  - cbn [renotify fold_left renotified_l]. rewrite app_nil_r. reflexivity.
  - rewrite !renotify_cons. cbn [renotified_l]. destruct (llen_of d k); [apply IH|].
    rewrite notify_with_wake, IH, app_assoc. reflexivity.
Qed.
(** everybody it wakes is a waiter, hence Blocked *)
Lemma renotified_l_blocked d dbi : forall keys b x, agree b -> In x (renotified_l d b dbi keys) ->
  zlookup (u_conn x) (b_blk b) <> None.
Proof.
  induction keys as [|k keys IH]; intros b x HA Hx; cbn [renotified_l] in Hx; [destruct Hx|].
  destruct (llen_of d k); [apply IH; assumption|]. apply in_app_or in Hx. destruct Hx as [Hx|Hx].
  - unfold renotified in Hx. destruct (reg_get (b_reg b) (dbi, k)) as [|w q] eqn:Eg; [destruct Hx|].
    destruct Hx as [<-|[]]. cbn [u_conn].
    assert (Hw : In w (reg_get (b_reg b) (dbi, k))) by (rewrite Eg; left; reflexivity).
    destruct (reg_get_in _ _ _ Hw) as [q0 [K1 K2]]. destruct HA as (A1 & _).
    destruct (A1 _ _ _ K1 K2) as (st & T & _). congruence.
  - rewrite <- (proj1 (notify_key_ready_fields b dbi k)). apply IH; [apply agree_notify; exact HA|exact Hx].
Qed.

(** the state a wake-up that found nothing leaves: the client registered again *)
Definition again (b : blocking) (u : wakeup) (st : bstate) : blocking :=
  with_reg b (reregister (b_reg b) (u_db u) (u_conn u) (bl_keys st) (bl_left st) (bl_dl st) (u_at u)).
Lemma wake_client_wake now s b u :
  exists ex, b_wake (snd (wake_client now s b u)) = b_wake b ++ ex /\
             (ex = [] \/ (zlookup (u_conn u) (b_blk b) = None /\ ex = renotified b (u_db u) (u_key u))
              \/ (exists st d', zlookup (u_conn u) (b_blk b) = Some st /\ ex = renotified_l d' (again b u st) (u_db u) (bl_keys st)
                                /\ b_blk (snd (wake_client now s b u)) = b_blk b)).
Proof.
  unfold wake_client.
  destruct (on_key (fst (purge_key now (get_db s (u_db u), []) (u_key u))) (u_key u) (e_pop (u_left u))) as [r d'].
  destruct (zlookup (u_conn u) (b_blk b)) as [st|]; destruct r; cbn [snd];
    try (exists []; rewrite app_nil_r; split; [reflexivity|left; reflexivity]);
    try (exists (renotified_l d' (again b u st) (u_db u) (bl_keys st)); split;
         [apply (renotify_wake d' (u_db u) (bl_keys st) (again b u st))
         |right; right; exists st, d'; split; [reflexivity|split; [reflexivity|exact (proj1 (renotify_fields _ _ _ _))]]]).
  exists (renotified b (u_db u) (u_key u)). split; [apply notify_key_ready_wake|right; left; split; reflexivity].
Qed.

Lemma agree_wake_client now s b u W ex :
  agreeW b (u :: W) -> b_wake (snd (wake_client now s b u)) = b_wake b ++ ex ->
  agreeW (snd (wake_client now s b u)) (W ++ ex).
Proof.
  intros HA. unfold wake_client.
  destruct (on_key (fst (purge_key now (get_db s (u_db u), []) (u_key u))) (u_key u) (e_pop (u_left u))) as [r d'].
  destruct (zlookup (u_conn u) (b_blk b)) as [st|] eqn:Hst.
  - assert (Deliver : forall k v, agreeW (unblock (emit b (u_conn u) (FArray [FBulk k; FBulk v])) (u_conn u)) W)
      by (intros k v; apply (agree_unblock (emit b (u_conn u) (FArray [FBulk k; FBulk v])) W u); exact HA).
    (* registered again; the heads of its keys that hold an element are notified *)
    assert (Again : forall ex0, b_wake (renotify d' (again b u st) (u_db u) (bl_keys st)) = b_wake b ++ ex0 ->
              agreeW (renotify d' (again b u st) (u_db u) (bl_keys st)) (W ++ ex0)).
    { intros ex0 E. rewrite renotify_wake in E. cbn [again with_reg b_wake] in E. apply app_inv_head in E. subst ex0.
      unfold agreeW. rewrite <- renotify_with_wake. apply agree_renotify. apply (agree_reregister b W u st HA Hst). }
    destruct r; cbn [snd]; intros E; try (apply Again; exact E).
    cbn [unblock emit with_blk b_wake] in E. apply app_self_nil in E. subst ex. rewrite app_nil_r. apply Deliver.
  - assert (Drop : agreeW b W) by (eapply agree_drop_wake; eauto).
    destruct r; cbn [snd]; intros E; try (apply app_self_nil in E; subst ex; rewrite app_nil_r; exact Drop).
    (* the element goes back, the next waiter of the key is notified *)
    rewrite notify_key_ready_wake in E. apply app_inv_head in E. subst ex.
    unfold agreeW in *. rewrite <- notify_with_wake. apply agree_notify. exact Drop.
Qed.
(** the shape the event loop needs: the rest of the batch, then the queue *)
Lemma agree_wake_next now s b u l :
  agreeW b (u :: l ++ b_wake b) ->
  agreeW (snd (wake_client now s b u)) (l ++ b_wake (snd (wake_client now s b u))).
Proof.
  intros H. destruct (wake_client_wake now s b u) as (ex & E & _). rewrite E, app_assoc.
  apply agree_wake_client; assumption.
Qed.

(** process_wakeups: the requests taken out of the queue are handled one after the other *)
Lemma agree_wake_fold now : forall l sb,
  (b_crashed (snd sb) = true \/ agreeW (snd sb) (l ++ b_wake (snd sb))) ->
  b_crashed (snd (fold_left (wake_step now) l sb)) = true \/ agree (snd (fold_left (wake_step now) l sb)).
Proof.
  induction l as [|u l IH]; intros [s b] H; cbn [fold_left snd] in *.
  - destruct H as [H|H]; [left; exact H|right; apply agreeW_self; exact H].
  - apply IH. unfold wake_step. cbn [fst snd]. destruct (b_crashed b) eqn:Ec; [left; exact Ec|].
    destruct H as [H|H]; [discriminate|]. cbn [app] in H. right.
    apply agree_wake_next. exact H.
Qed.
Lemma agree_process_wakeups now s b :
  b_crashed b = true \/ agree b ->
  b_crashed (snd (process_wakeups now s b)) = true \/ agree (snd (process_wakeups now s b)).
Proof.
  intros H. unfold process_wakeups. apply agree_wake_fold. cbn [snd with_wake b_crashed b_wake].
  destruct H as [H|H]; [left; exact H|right].
  unfold agreeW. rewrite firstn_skipn.
  apply agreeW_self in H. unfold agreeW in H. destruct b; exact H.
Qed.

(** ---- process_blocked_timeouts ---- *)
Lemma timeout_conn_blk b c0 c :
  zlookup c (b_blk (timeout_conn b c0)) = if c =? c0 then None else zlookup c (b_blk b).
Proof.
  unfold timeout_conn. destruct (zlookup c0 (b_blk b)) eqn:E; cbn [unblock emit with_blk b_blk].
  - destruct (c =? c0) eqn:E2.
    + apply Z.eqb_eq in E2. subst. apply zlookup_zremove_same.
    + apply zlookup_zremove_other. lia.
  - destruct (c =? c0) eqn:E2; [|reflexivity]. apply Z.eqb_eq in E2. subst. exact E.
Qed.
Lemma timeout_conn_reg_wake b c0 :
  b_reg (timeout_conn b c0) = b_reg b /\ b_wake (timeout_conn b c0) = b_wake b /\ b_crashed (timeout_conn b c0) = b_crashed b.
Proof. unfold timeout_conn. destruct (zlookup c0 (b_blk b)); repeat split; reflexivity. Qed.
Lemma timeout_fold : forall ex b,
  b_reg (fold_left timeout_conn ex b) = b_reg b /\ b_wake (fold_left timeout_conn ex b) = b_wake b /\
  b_crashed (fold_left timeout_conn ex b) = b_crashed b /\
  forall c, zlookup c (b_blk (fold_left timeout_conn ex b)) = if existsb (Z.eqb c) ex then None else zlookup c (b_blk b).
Proof.
  induction ex as [|c0 ex IH]; intros b; cbn [fold_left existsb]; [repeat split; reflexivity|].
  destruct (IH (timeout_conn b c0)) as (H1 & H2 & H3 & H4).
  destruct (timeout_conn_reg_wake b c0) as (G1 & G2 & G3).
  repeat split; try congruence.
  intros c. rewrite H4, timeout_conn_blk. destruct (c =? c0); cbn [orb]; [destruct (existsb (Z.eqb c) ex); reflexivity|reflexivity].
Qed.
Lemma existsb_eqb_in c l : existsb (Z.eqb c) l = true <-> In c l.
Proof.
  rewrite existsb_exists. split.
  - intros [x [H1 H2]]. apply Z.eqb_eq in H2. subst. exact H1.
  - intros H. exists c. split; [exact H|apply Z.eqb_refl].
Qed.
Lemma expired_same_dl now w w' : w_dl w = w_dl w' -> expired_w now w = expired_w now w'.
Proof. unfold expired_w. intros ->. reflexivity. Qed.

Lemma agree_process_timeouts now b : agree b -> agree (process_timeouts now b).
Proof.
  intros (A1 & A2 & A3 & A4). unfold process_timeouts.
  destruct (expire_reg now (b_reg b)) as [ex r'] eqn:Ee.
  assert (Hex : ex = fst (expire_reg now (b_reg b))) by (rewrite Ee; reflexivity).
  assert (Hr' : r' = snd (expire_reg now (b_reg b))) by (rewrite Ee; reflexivity).
  destruct (timeout_fold ex (with_reg b r')) as (F1 & F2 & _ & F4).
  cbn [with_reg b_reg b_wake b_blk] in F1, F2, F4.
  (* a connection one of whose registrations expired has every registration expired *)
  assert (Hall : forall rk q w, In (rk, q) (b_reg b) -> In w q -> In (w_conn w) ex -> expired_w now w = true).
  { intros rk q w Hin Hw Hc. rewrite Hex in Hc. apply in_expired_ids in Hc.
    destruct Hc as (rk3 & q3 & w3 & H1 & H2 & H3 & H4).
    destruct (A1 _ _ _ Hin Hw) as (st & T1 & _ & _ & T4 & _).
    destruct (A1 _ _ _ H1 H2) as (st3 & T1' & _ & _ & T4' & _).
    rewrite H4, T1 in T1'. injection T1' as <-. rewrite <- H3. apply expired_same_dl. congruence. }
  unfold agree, waiters_agree, wakes_agree, wakes_unique, blocked_registered.
  rewrite F1, F2.
  split; [|split; [|split]].
  - intros rk q w Hin Hw. rewrite Hr' in Hin. apply in_expire in Hin. destruct Hin as [q0 [H1 H2]].
    subst q. apply filter_In in Hw. destruct Hw as [Hw Hlive].
    destruct (A1 _ _ _ H1 Hw) as (st & T1 & T2 & T3 & T4 & T5 & T6).
    exists st. rewrite F4. destruct (existsb (Z.eqb (w_conn w)) ex) eqn:Eex.
    + apply existsb_eqb_in in Eex. pose proof (Hall _ _ _ H1 Hw Eex) as Hx. unfold live_w in Hlive. rewrite Hx in Hlive. discriminate.
    + repeat split; assumption.
  - intros u Hu. destruct (A2 u Hu) as (T5 & T6). split.
    + intros rk q Hin. rewrite Hr' in Hin. apply in_expire in Hin.
      destruct Hin as [q0 [H1 H2]]. subst q. apply cnt_zero. intros w Hw. apply in_filter_sub in Hw.
      pose proof (T5 _ _ H1) as Hz. rewrite cnt_zero in Hz. apply Hz. exact Hw.
    + intros st. rewrite F4. destruct (existsb (Z.eqb (u_conn u)) ex) eqn:Eex; [discriminate|]. apply T6.
  - exact A3.
  - intros c st Hc Hw k Hk. rewrite F4 in Hc. destruct (existsb (Z.eqb c) ex) eqn:Eex; [discriminate|].
    pose proof (A4 c st Hc Hw k Hk) as Hold. apply cnt_nonzero in Hold. destruct Hold as [w [H1 H2]].
    apply cnt_nonzero. exists w. split; [|exact H2].
    rewrite Hr', reg_get_expire. apply filter_In. split; [exact H1|].
    unfold live_w. destruct (expired_w now w) eqn:Ew; [|reflexivity]. exfalso.
    destruct (reg_get_in _ _ _ H1) as [q0 [H3 H4]].
    assert (In c ex).
    { rewrite Hex. apply in_expired_ids. exists (bl_db st, k), q0, w. repeat split; assumption. }
    apply existsb_eqb_in in H. congruence.
Qed.

(** ================= the server side of a frame ================= *)
(** connection records: same set of connections, same transaction queues *)
Definition conns_rel (s s' : server) : Prop :=
  forall c', match zlookup c' (s_conns s'), zlookup c' (s_conns s) with
             | Some cn', Some cn => c_queue cn' = c_queue cn /\ c_intx cn' = c_intx cn
             | None, None => True
             | _, _ => False
             end.
Definition dom_same (s s' : server) : Prop :=
  forall c', zlookup c' (s_conns s') = None <-> zlookup c' (s_conns s) = None.
Lemma conns_rel_eq s s' : s_conns s' = s_conns s -> conns_rel s s'.
Proof. intros H c'. rewrite H. destruct (zlookup c' (s_conns s)); [split; reflexivity|exact I]. Qed.
Lemma conns_rel_refl s : conns_rel s s.
Proof. apply conns_rel_eq. reflexivity. Qed.
Lemma conns_rel_trans s1 s2 s3 : conns_rel s1 s2 -> conns_rel s2 s3 -> conns_rel s1 s3.
Proof.
  intros H1 H2 c'. specialize (H1 c'). specialize (H2 c').
  destruct (zlookup c' (s_conns s3)), (zlookup c' (s_conns s2)), (zlookup c' (s_conns s1)); try tauto.
  destruct H1, H2. split; congruence.
Qed.
Lemma conns_rel_dom s s' : conns_rel s s' -> dom_same s s'.
Proof.
  intros H c'. specialize (H c'). destruct (zlookup c' (s_conns s')), (zlookup c' (s_conns s)); try tauto; split; congruence.
Qed.
Lemma dom_same_refl s : dom_same s s.
Proof. intros c'. reflexivity. Qed.

(** replacing the record of an existing connection, transaction state kept *)
Lemma conns_rel_set_conn s0 s c cn cn' :
  s_conns s0 = s_conns s -> zlookup c (s_conns s) = Some cn ->
  c_queue cn' = c_queue cn -> c_intx cn' = c_intx cn -> conns_rel s (set_conn s0 c cn').
Proof.
  intros H0 Hc Hq Hi c'. cbn [set_conn s_conns]. rewrite H0. destruct (Z.eq_dec c' c) as [E|E].
  - subst. rewrite zlookup_zset_same, Hc. split; assumption.
  - rewrite zlookup_zset_other by exact E. destruct (zlookup c' (s_conns s)); [split; reflexivity|exact I].
Qed.
(** ... or with another one: the set of connections stays *)
Lemma dom_same_set_conn s0 s c cn cn' :
  s_conns s0 = s_conns s -> zlookup c (s_conns s) = Some cn -> dom_same s (set_conn s0 c cn').
Proof.
  intros H0 Hc c'. cbn [set_conn s_conns]. rewrite H0. destruct (Z.eq_dec c' c) as [E|E].
  - subst. rewrite zlookup_zset_same, Hc. split; discriminate.
  - rewrite zlookup_zset_other by exact E. reflexivity.
Qed.

Lemma h_auth_rel s c parts r s' : h_auth s c parts = (r, s') -> conns_rel s s'.
Proof.
  unfold h_auth. intros H.
  destruct parts as [|a [|p [|? ?]]]; try (inversion H; subst; apply conns_rel_refl);
    try (destruct p; inversion H; subst; apply conns_rel_refl).
  destruct p; try (inversion H; subst; apply conns_rel_refl).
  destruct (s_password s); [|inversion H; subst; apply conns_rel_refl].
  destruct (beq b b0); [|inversion H; subst; apply conns_rel_refl].
  destruct (zlookup c (s_conns s)) as [cn|] eqn:E; inversion H; subst; [|apply conns_rel_refl].
  eapply conns_rel_set_conn; eauto.
Qed.

Lemma dispatch_command_rel now s c dbi parts oracle r s' :
  dispatch_command now s c dbi parts oracle = (r, s') -> conns_rel s s'.
Proof.
  unfold dispatch_command. intros H.
  destruct parts as [|first rest]; [inversion H; subst; apply conns_rel_refl|].
  destruct first; try (inversion H; subst; apply conns_rel_refl).
  set (s0 := if logs_before (upper b) (FBulk b :: rest) then log_aof_in s dbi (FBulk b :: rest) else s) in *.
  assert (Hs0 : s_conns s0 = s_conns s) by (unfold s0; destruct (logs_before (upper b) (FBulk b :: rest)); [unfold log_aof_in; destruct (same_db _ _)|]; reflexivity).
  assert (R0 : conns_rel s s0) by (apply conns_rel_eq; exact Hs0).
  destruct (beq (upper b) (bs "PING")); [inversion H; subst; exact R0|].
  destruct (beq (upper b) (bs "ECHO")); [inversion H; subst; exact R0|].
  destruct (beq (upper b) (bs "SELECT")).
  { destruct rest as [|a [|? ?]]; try (inversion H; subst; exact R0);
      try (destruct a; inversion H; subst; exact R0).
    destruct a; try (inversion H; subst; exact R0).
    destruct (parse_usize b0); [|inversion H; subst; exact R0].
    destruct (16 <=? z); [inversion H; subst; exact R0|].
    destruct (zlookup c (s_conns s0)) as [cn|] eqn:E; inversion H; subst; [|exact R0].
    eapply conns_rel_trans; [exact R0|]. eapply conns_rel_set_conn; eauto. }
  destruct (beq (upper b) (bs "FLUSHALL")).
  { destruct (negb (len (FBulk b :: rest) =? 1)); inversion H; subst; [exact R0|].
    apply conns_rel_eq. cbn [s_conns]. exact Hs0. }
  destruct (beq (upper b) (bs "RANDOMKEY")); [inversion H; subst; exact R0|].
  destruct (beq (upper b) (bs "AUTH")).
  { eapply conns_rel_trans; [exact R0|]. eapply h_auth_rel; eauto. }
  destruct (beq (upper b) (bs "QUIT")); [inversion H; subst; exact R0|].
  destruct (beq (upper b) (bs "VERIF")); [inversion H; subst; exact R0|].
  destruct (exec_db now (get_db s0 dbi) (upper b) (FBulk b :: rest) oracle) as [[r0 d']|];
    inversion H; subst; [|exact R0].
  apply conns_rel_eq. cbn [set_trk set_db s_conns]. exact Hs0.
Qed.
Lemma normal_command_rel now s c dbi parts oracle r s' :
  normal_command now s c dbi parts oracle = (r, s') -> conns_rel s s'.
Proof.
  unfold normal_command. intros H.
  destruct parts as [|first rest]; [inversion H; subst; apply conns_rel_refl|].
  destruct first; try (inversion H; subst; apply conns_rel_refl).
  eapply conns_rel_trans; [|eapply dispatch_command_rel; exact H].
  apply conns_rel_eq. apply lazy_expire_rest.
Qed.
Lemma exec_queue_rel now c : forall q s dbi acc reps s',
  exec_queue now s c dbi q acc = (reps, s') -> conns_rel s s'.
Proof.
  induction q as [|parts q IH]; intros s dbi acc reps s' H; cbn [exec_queue] in H.
  - inversion H; subst. apply conns_rel_refl.
  - destruct (beq (queued_name parts) (bs "SELECT")).
    + destruct (normal_command now s c dbi parts None) as [rep s1] eqn:E.
      eapply conns_rel_trans; [eapply normal_command_rel; exact E|eapply IH; exact H].
    + destruct (normal_command now s 0 dbi parts None) as [rep s1] eqn:E.
      eapply conns_rel_trans; [eapply normal_command_rel; exact E|eapply IH; exact H].
Qed.
Lemma unwatch_all_conns : forall w s, s_conns (unwatch_all s w) = s_conns s.
Proof.
  unfold unwatch_all. induction w as [|kb w IH]; intros s; cbn [fold_left]; [reflexivity|]. rewrite IH. reflexivity.
Qed.

(** Server.process_frame neither adds nor removes a connection *)
Lemma process_frame_dom now s c cn f oracle r s' :
  zlookup c (s_conns s) = Some cn -> process_frame now s c f oracle = (r, s') -> dom_same s s'.
Proof.
  intros Hc H. unfold process_frame in H.
  assert (Same : forall r0, (r0, s) = (r, s') -> dom_same s s').
  { intros r0 E. inversion E; subst. apply dom_same_refl. }
  destruct f as [| | | | |l| | | | | | |]; try (eapply Same; exact H).
  destruct l as [|first rest]; [eapply Same; exact H|].
  destruct first as [| | |nm| | | | | | | | |]; try (eapply Same; exact H).
  rewrite Hc in H.
  destruct ((match s_password s with Some _ => true | None => false end) && negb (c_auth cn)).
  { destruct (beq (upper (trim nm)) (bs "AUTH")); [apply conns_rel_dom; eapply h_auth_rel; exact H|].
    destruct (beq (upper (trim nm)) (bs "PING")); [eapply Same; exact H|].
    destruct (beq (upper (trim nm)) (bs "QUIT")); eapply Same; exact H. }
  destruct (c_intx cn && negb (mem_name (upper (trim nm)) tx_not_queued)) eqn:Eq.
  { inversion H; subst. eapply dom_same_set_conn; eauto. }
  destruct (beq (upper (trim nm)) (bs "MULTI")).
  { destruct (c_intx cn); [eapply Same; exact H|]. inversion H; subst. eapply dom_same_set_conn; eauto. }
  destruct (beq (upper (trim nm)) (bs "EXEC")).
  { unfold h_exec in H. cbv zeta in H. destruct (negb (c_intx cn)); [eapply Same; exact H|].
    destruct (watch_violated now s cn).
    - inversion H; subst. eapply dom_same_set_conn; eauto.
    - revert H. destruct (exec_queue _ _ _ _ _ _) as [reps s2] eqn:E.
      intros H. inversion H; subst.
      pose proof (dom_same_set_conn s s c cn (clear_tx cn) eq_refl Hc) as D1.
      pose proof (conns_rel_dom _ _ (exec_queue_rel _ _ _ _ _ _ _ _ E)) as D2.
      intros c'. etransitivity; [apply D2|apply D1]. }
  destruct (beq (upper (trim nm)) (bs "DISCARD")).
  { destruct (negb (c_intx cn)); [eapply Same; exact H|]. inversion H; subst. eapply dom_same_set_conn; eauto. }
  destruct (beq (upper (trim nm)) (bs "WATCH")).
  { destruct (len (FBulk nm :: rest) <? 2); [eapply Same; exact H|].
    destruct (c_intx cn) eqn:Ei; [eapply Same; exact H|].
    destruct (watch_loop_partial now (c_db cn) (get_db s (c_db cn)) (get_trk s (c_db cn)) rest (c_watched cn)) as [[[d' t'] w'] okb].
    inversion H; subst. eapply dom_same_set_conn with (s := s); eauto. }
  destruct (beq (upper (trim nm)) (bs "UNWATCH")).
  { inversion H; subst. eapply dom_same_set_conn with (s := s); [apply unwatch_all_conns|eauto]. }
  destruct (beq (upper (trim nm)) (bs "AUTH")); [apply conns_rel_dom; eapply h_auth_rel; exact H|].
  apply conns_rel_dom. eapply normal_command_rel; exact H.
Qed.

(** ================= the blocking side of a frame ================= *)
Lemma agreeW_wake_eq b W : b_wake b = W -> agreeW b W -> agree b.
Proof. intros <- H. apply agreeW_self. exact H. Qed.

(** how a frame changes the Blocked states: not at all, or - answered NoResponse - the
    issuing connection becomes Blocked *)
Definition blk_change (c : Z) (rep : frame) (b b' : blocking) : Prop :=
  b_blk b' = b_blk b \/ (rep = FNoResponse /\ exists st, b_blk b' = zset_ c st (b_blk b)).

Lemma agree_ext b1 b2 : b_reg b2 = b_reg b1 -> b_wake b2 = b_wake b1 -> b_blk b2 = b_blk b1 -> agree b1 -> agree b2.
Proof.
  intros E1 E2 E3 H. unfold agree, waiters_agree, wakes_agree, wakes_unique, blocked_registered in *.
  rewrite E1, E2, E3. exact H.
Qed.
Lemma h_bpop_inv left now s b c dbi parts oms rep s' b' :
  agree b -> (c <> 0 -> zlookup c (b_blk b) = None /\ wakes_for c (b_wake b) = [] /\ exists cn, zlookup c (s_conns s) = Some cn) ->
  h_bpop left now s b c dbi parts oms = (rep, s', b') ->
  agree b' /\ s_conns s' = s_conns s /\ b_crashed b' = b_crashed b /\ b_out b' = b_out b /\ blk_change c rep b b'
  /\ (c = 0 -> b' = b).
Proof.
  intros HA Hc0 H. unfold h_bpop in H.
  assert (Same : forall r0 s0, s_conns s0 = s_conns s -> (r0, s0, b) = (rep, s', b') ->
            agree b' /\ s_conns s' = s_conns s /\ b_crashed b' = b_crashed b /\ b_out b' = b_out b /\ blk_change c rep b b' /\ (c = 0 -> b' = b)).
  { intros r0 s0 Hs E. injection E as E1 E2 E3. subst s0 b'. split; [exact HA|]. split; [exact Hs|].
    split; [reflexivity|]. split; [reflexivity|]. split; [left; reflexivity|reflexivity]. }
  destruct (len parts <? 3); [eapply Same; [reflexivity|exact H]|].
  destruct (timeout_of (last parts FNull) oms) as [tmo|]; [|eapply Same; [reflexivity|exact H]].
  destruct (all_bulks (removelast (tl parts))) as [keys|]; [|eapply Same; [reflexivity|exact H]].
  destruct (fast_path left (get_db s dbi) keys) as [[r0|] d'].
  - eapply Same; [|exact H]. rewrite (proj1 (proj2 (log_served_rest _ _ _ _))). reflexivity.
  - destruct (c =? 0) eqn:Ec0; [eapply Same; [|exact H]; reflexivity|].
    assert (Hne : c <> 0) by lia. destruct (Hc0 Hne) as [Hnb [Hnw [cn Hcn]]].
    rewrite Hcn in H. injection H as E1 E2 E3. subst s' b' rep.
    set (st := {| bl_db := dbi; bl_keys := keys; bl_dl := option_map (fun ms => now + ms) tmo; bl_left := left |}).
    split; [|split; [reflexivity|split; [reflexivity|split; [reflexivity|split; [|intros; lia]]]]].
    + apply agreeW_self in HA.
      pose proof (agree_register b (b_wake b) c st (zset_ c st (b_blk b)) (b_seq b) HA Hnb Hnw (zlookup_zset_same _ _ _)
               (fun c2 Hne2 => zlookup_zset_other c c2 st (b_blk b) Hne2)) as H3.
      eapply agree_ext; [| | |exact H3]; reflexivity.
    + right. split; [reflexivity|]. exists st. reflexivity.
Qed.

Lemma bpop_parts_names nm rest :
  bpop_parts (FBulk nm :: rest) = beq (upper nm) (bs "BLPOP") || beq (upper nm) (bs "BRPOP").
Proof. reflexivity. Qed.

(** a name that trims to SELECT is neither a push nor a blocking pop nor EVAL: the queued
    SELECT that handle_exec runs for the connection does not involve the blocking manager *)
Lemma drop_while_head p a l : p a = false -> drop_while p (a :: l) = a :: l.
Proof. intros H. cbn [drop_while]. rewrite H. reflexivity. Qed.
Lemma rev_head_last : forall (l : bytes) a, exists x l', rev (a :: l) = x :: l' /\ x = last (a :: l) 0.
Proof.
  induction l as [|b l IH]; intros a; [exists a, []; split; reflexivity|].
  destruct (IH b) as (x & l' & E & Hx). exists x, (l' ++ [a]). split.
  - change (rev (a :: b :: l)) with (rev (b :: l) ++ [a]). rewrite E. reflexivity.
  - rewrite Hx. reflexivity.
Qed.
Lemma trim_id a l : is_space a = false -> is_space (last (a :: l) 0) = false -> trim (a :: l) = a :: l.
Proof.
  intros H1 H2. unfold trim. rewrite (drop_while_head _ _ _ H1).
  destruct (rev_head_last l a) as (x & l' & E & Hx). rewrite E, drop_while_head by (rewrite Hx; exact H2).
  rewrite <- E. apply rev_involutive.
Qed.
Lemma upper1_space c : is_space (upper1 c) = false -> is_space c = false.
Proof. unfold is_space, upper1. destruct ((97 <=? c) && (c <=? 122)) eqn:E; [lia|intros H; exact H]. Qed.
Lemma last_map_upper : forall (l : bytes) a, last (map upper1 (a :: l)) 0 = upper1 (last (a :: l) 0).
Proof.
  induction l as [|b l IH]; intros a; [reflexivity|].
  change (last (map upper1 (a :: b :: l)) 0) with (last (map upper1 (b :: l)) 0). rewrite IH. reflexivity.
Qed.
Lemma upper_nospace nm x X : upper nm = x :: X -> is_space x = false -> is_space (last (x :: X) 0) = false ->
  upper (trim nm) = x :: X.
Proof.
  intros E H1 H2. destruct nm as [|a l]; [discriminate|]. rewrite trim_id; [exact E| |].
  - apply upper1_space. unfold upper in E. cbn [map] in E. injection E as E _. rewrite E. exact H1.
  - apply upper1_space. rewrite <- last_map_upper. unfold upper in E. rewrite E. exact H2.
Qed.
Lemma select_name nm X : beq (upper (trim nm)) (bs "SELECT") = true ->
  (match X with x :: X' => is_space x = false /\ is_space (last X 0) = false | [] => False end) ->
  beq X (bs "SELECT") = false -> beq (upper nm) X = false.
Proof.
  intros H HX Hne. destruct (beq (upper nm) X) eqn:E; [|reflexivity]. apply beq_eq in E.
  destruct X as [|x X']; [contradiction|]. destruct HX as [H1 H2].
  rewrite (upper_nospace nm x X' E H1 H2) in H. congruence.
Qed.
Lemma bnormal_select now s b c dbi parts o oms :
  beq (queued_name parts) (bs "SELECT") = true ->
  bnormal now s b c dbi parts o oms = (let (r, s') := normal_command now s c dbi parts o in (r, s', b)).
Proof.
  intros H. destruct parts as [|first rest]; [discriminate|]. destruct first; try discriminate.
  cbn [queued_name] in H. unfold bnormal.
  rewrite (select_name b0 (bs "BLPOP") H) by (vm_compute; auto).
  rewrite (select_name b0 (bs "BRPOP") H) by (vm_compute; auto).
  rewrite (select_name b0 (bs "EVAL") H) by (vm_compute; auto).
  destruct (normal_command now s c dbi (FBulk b0 :: rest) o) as [r s1]. cbv zeta.
  unfold notify_after_push, is_push_name.
  rewrite (select_name b0 (bs "LPUSH") H) by (vm_compute; auto).
  rewrite (select_name b0 (bs "RPUSH") H) by (vm_compute; auto). reflexivity.
Qed.

(** process_normal_command with the blocking manager: a blocking pop on a real connection needs
    one that exists and is not blocked (with the id 0 of EXEC it never blocks); anything else only
    notifies *)
Lemma bnormal_inv now s b c dbi parts oracle oms rep s' b' :
  agree b ->
  (bpop_parts parts = true -> c <> 0 -> zlookup c (b_blk b) = None /\ wakes_for c (b_wake b) = [] /\ exists cn, zlookup c (s_conns s) = Some cn) ->
  bnormal now s b c dbi parts oracle oms = (rep, s', b') ->
  agree b' /\ conns_rel s s' /\ b_crashed b' = b_crashed b /\ b_out b' = b_out b /\
  (if bpop_parts parts then blk_change c rep b b' /\ (c = 0 -> b' = b) else b_blk b' = b_blk b).
Proof.
  intros HA Hg H. unfold bnormal in H.
  assert (NC : forall nmx (ev : bool), (let (r, s'0) := normal_command now s c dbi parts oracle in
                (r, s'0, if ev then notify_after_script s'0 (notify_after_push b dbi nmx parts r) dbi parts else notify_after_push b dbi nmx parts r)) = (rep, s', b') ->
            agree b' /\ conns_rel s s' /\ b_crashed b' = b_crashed b /\ b_out b' = b_out b /\ b_blk b' = b_blk b).
  { intros nmx ev E. destruct (normal_command now s c dbi parts oracle) as [r s1] eqn:En. injection E as E1 E2 E3. subst.
    destruct (notify_after_push_fields b dbi nmx parts rep) as (F1 & F2 & F3 & _).
    destruct (notify_after_script_fields s' (notify_after_push b dbi nmx parts rep) dbi parts) as (K1 & K2 & K3 & _).
    split; [destruct ev; [apply agree_notify_after_script|]; apply agree_notify_after_push; exact HA|].
    split; [eapply normal_command_rel; exact En|]. destruct ev; repeat split; congruence. }
  destruct parts as [|first rest].
  { destruct (normal_command now s c dbi [] oracle) as [r s1] eqn:En. injection H as E1 E2 E3. subst.
    split; [exact HA|]. split; [eapply normal_command_rel; exact En|]. repeat split; reflexivity. }
  destruct first as [| | |nm| | | | | | | | |];
    try (destruct (normal_command now s c dbi _ oracle) as [r s1] eqn:En; injection H as E1 E2 E3; subst;
         split; [exact HA|]; split; [eapply normal_command_rel; exact En|]; repeat split; reflexivity).
  rewrite bpop_parts_names in *.
  assert (Hg' : beq (upper nm) (bs "BLPOP") || beq (upper nm) (bs "BRPOP") = true -> c <> 0 ->
                zlookup c (b_blk b) = None /\ wakes_for c (b_wake b) = [] /\
                exists cn, zlookup c (s_conns (lazy_expire now s dbi (upper nm) (FBulk nm :: rest))) = Some cn).
  { intros X Y. destruct (Hg X Y) as (G1 & G2 & G3). split; [exact G1|]. split; [exact G2|].
    destruct (lazy_expire_rest now s dbi (upper nm) (FBulk nm :: rest)) as (L & _). rewrite L. exact G3. }
  destruct (beq (upper nm) (bs "BLPOP")) eqn:E1.
  { destruct (h_bpop_inv _ _ _ _ _ _ _ _ _ _ _ HA (Hg' eq_refl) H) as (G1 & G2 & G3 & G4 & G5 & G6).
    split; [exact G1|]. split; [apply conns_rel_eq; rewrite G2; apply lazy_expire_rest|]. cbn [orb]. repeat split; assumption. }
  destruct (beq (upper nm) (bs "BRPOP")) eqn:E2.
  { destruct (h_bpop_inv _ _ _ _ _ _ _ _ _ _ _ HA (Hg' eq_refl) H) as (G1 & G2 & G3 & G4 & G5 & G6).
    split; [exact G1|]. split; [apply conns_rel_eq; rewrite G2; apply lazy_expire_rest|]. cbn [orb]. repeat split; assumption. }
  cbn [orb]. eapply NC. exact H.
Qed.

(** the queue of an EXEC: nobody blocks, whatever is queued *)
Lemma bexec_queue_inv now c : forall q s b dbi acc reps s' b',
  agree b ->
  bexec_queue now s b c dbi q acc = (reps, s', b') ->
  agree b' /\ conns_rel s s' /\ b_crashed b' = b_crashed b /\ b_out b' = b_out b /\ b_blk b' = b_blk b.
Proof.
  induction q as [|parts q IH]; intros s b dbi acc reps s' b' HA H; cbn [bexec_queue] in H.
  - injection H as E1 E2 E3. subst. split; [exact HA|]. split; [apply conns_rel_refl|]. repeat split; reflexivity.
  - destruct (beq (queued_name parts) (bs "SELECT")) eqn:Esel.
    { rewrite (bnormal_select _ _ _ _ _ _ _ _ Esel) in H.
      destruct (normal_command now s c dbi parts None) as [rep s1] eqn:En.
      destruct (IH _ _ _ _ _ _ _ HA H) as (K1 & K2 & K3 & K4 & K5).
      split; [exact K1|]. split; [eapply conns_rel_trans; [eapply normal_command_rel; exact En|exact K2]|].
      split; [exact K3|]. split; [exact K4|exact K5]. }
    destruct (bnormal now s b 0 dbi parts None None) as [[rep s1] b1] eqn:En.
    assert (Hg : bpop_parts parts = true -> 0 <> 0 -> zlookup 0 (b_blk b) = None /\ wakes_for 0 (b_wake b) = [] /\ exists cn, zlookup 0 (s_conns s) = Some cn)
      by (intros _ Hb; congruence).
    destruct (bnormal_inv _ _ _ _ _ _ _ _ _ _ _ HA Hg En) as (G1 & G2 & G3 & G4 & G5).
    assert (G5' : b_blk b1 = b_blk b) by (destruct (bpop_parts parts); [destruct G5 as [_ G5]; rewrite (G5 eq_refl); reflexivity|exact G5]).
    destruct (IH _ _ _ _ _ _ _ G1 H) as (K1 & K2 & K3 & K4 & K5).
    split; [exact K1|]. split; [eapply conns_rel_trans; eauto|]. repeat split; congruence.
Qed.

(** one frame: agreement, no connection 0 *)
Lemma bprocess_frame_inv now s b c cn f oracle oms rep s' b' :
  agree b -> zlookup 0 (s_conns s) = None ->
  zlookup c (s_conns s) = Some cn -> zlookup c (b_blk b) = None -> wakes_for c (b_wake b) = [] ->
  bprocess_frame now s b c f oracle oms = (rep, s', b') ->
  agree b' /\ dom_same s s' /\ b_crashed b' = b_crashed b /\ b_out b' = b_out b /\ blk_change c rep b b'.
Proof.
  intros HA H0 Hc Hnb Hnw H. unfold bprocess_frame in H.
  assert (Pass : (let (r, s'0) := process_frame now s c f oracle in (r, s'0, b)) = (rep, s', b') ->
            agree b' /\ dom_same s s' /\ b_crashed b' = b_crashed b /\ b_out b' = b_out b /\ blk_change c rep b b').
  { intros E. destruct (process_frame now s c f oracle) as [r s1] eqn:Ep. injection E as E1 E2 E3. subst.
    split; [exact HA|]. split; [eapply process_frame_dom; eauto|]. split; [reflexivity|]. split; [reflexivity|]. left. reflexivity. }
  destruct f as [| | | | |l| | | | | | |]; try (apply Pass; exact H).
  destruct l as [|first rest]; [apply Pass; exact H|].
  destruct first as [| | |nm| | | | | | | | |]; try (apply Pass; exact H).
  rewrite Hc in H.
  destruct ((match s_password s with Some _ => true | None => false end) && negb (c_auth cn)); [apply Pass; exact H|].
  destruct (c_intx cn && negb (mem_name (upper (trim nm)) tx_not_queued)) eqn:Eq; [apply Pass; exact H|].
  destruct (beq (upper (trim nm)) (bs "MULTI")); [apply Pass; exact H|].
  destruct (beq (upper (trim nm)) (bs "EXEC")).
  { unfold bh_exec in H. cbv zeta in H.
    destruct (negb (c_intx cn)).
    { injection H as E1 E2 E3. subst. split; [exact HA|]. split; [apply dom_same_refl|].
      split; [reflexivity|]. split; [reflexivity|]. left. reflexivity. }
    destruct (watch_violated now s cn).
    { injection H as E1 E2 E3. subst. split; [exact HA|]. split; [eapply dom_same_set_conn; eauto|]. split; [reflexivity|]. split; [reflexivity|]. left. reflexivity. }
    revert H. destruct (bexec_queue _ _ _ _ _ _ _) as [[reps s2] b2] eqn:E. intros H. injection H as E1 E2 E3. subst.
    pose proof (dom_same_set_conn s s c cn (clear_tx cn) eq_refl Hc) as D1.
    destruct (bexec_queue_inv _ _ _ _ _ _ _ _ _ _ HA E) as (G1 & G2 & G3 & G4 & G5).
    pose proof (conns_rel_dom _ _ G2) as D2.
    split; [exact G1|]. split; [intros c'; etransitivity; [apply D2|apply D1]|].
    split; [exact G3|]. split; [exact G4|]. left. exact G5. }
  destruct (beq (upper (trim nm)) (bs "DISCARD") || beq (upper (trim nm)) (bs "WATCH")
            || beq (upper (trim nm)) (bs "UNWATCH") || beq (upper (trim nm)) (bs "AUTH")); [apply Pass; exact H|].
  assert (Hg' : bpop_parts (FBulk nm :: rest) = true -> c <> 0 -> zlookup c (b_blk b) = None /\ wakes_for c (b_wake b) = [] /\ exists cn0, zlookup c (s_conns s) = Some cn0).
  { intros _ _. split; [exact Hnb|]. split; [exact Hnw|]. exists cn. exact Hc. }
  destruct (bnormal_inv _ _ _ _ _ _ _ _ _ _ _ HA Hg' H) as (G1 & G2 & G3 & G4 & G5).
  split; [exact G1|]. split; [apply conns_rel_dom; exact G2|]. split; [exact G3|]. split; [exact G4|].
  destruct (bpop_parts (FBulk nm :: rest)); [exact (proj1 G5)|left; exact G5].
Qed.

(** ================= the invariant of the transition system ================= *)
Lemma wake_client_conns now s b u : s_conns (fst (wake_client now s b u)) = s_conns s.
Proof.
  unfold wake_client.
  destruct (on_key (fst (purge_key now (get_db s (u_db u), []) (u_key u))) (u_key u) (e_pop (u_left u))) as [r d'].
  destruct (zlookup (u_conn u) (b_blk b)) as [st|]; destruct r; cbn [fst];
    rewrite ?(proj1 (proj2 (log_pop_rest _ _ _ _))); reflexivity.
Qed.
Lemma wake_fold_conns now : forall l sb, s_conns (fst (fold_left (wake_step now) l sb)) = s_conns (fst sb).
Proof.
  induction l as [|u l IH]; intros sb; cbn [fold_left]; [reflexivity|]. rewrite IH.
  unfold wake_step. destruct (b_crashed (snd sb)); [reflexivity|]. apply wake_client_conns.
Qed.
Lemma process_wakeups_conns now s b : s_conns (fst (process_wakeups now s b)) = s_conns s.
Proof. unfold process_wakeups. rewrite wake_fold_conns. reflexivity. Qed.

Lemma zlookup_zremove_some {A} k k' (l : list (Z * A)) v : zlookup k' (zremove k l) = Some v -> zlookup k' l = Some v.
Proof.
  destruct (Z.eq_dec k' k) as [E|E]; [subst; rewrite zlookup_zremove_same; discriminate|].
  rewrite zlookup_zremove_other by exact E. auto.
Qed.

(** cleanup_connections of a connection, Blocked or not: it leaves every queue and is Blocked no
    more; a wake-up under way for it stays in the queue (it will find nobody and put the element back) *)
Lemma agree_drop_conn b c : agree b -> agree (drop_conn b c).
Proof.
  intros (A1 & A2 & A3 & A4).
  unfold agree, waiters_agree, wakes_agree, wakes_unique, blocked_registered in *.
  cbn [drop_conn with_in with_blk with_reg b_reg b_wake b_blk].
  split; [|split; [|split]].
  - intros rk q w Hin Hw. apply in_unregister_all in Hin. destruct Hin as [q0 [H1 ->]].
    apply filter_In in Hw. destruct Hw as [Hw Hf]. unfold not_conn in Hf.
    destruct (A1 _ _ _ H1 Hw) as (st & T1 & T). exists st. rewrite zlookup_zremove_other by lia. split; [exact T1|exact T].
  - intros u Hu. destruct (A2 u Hu) as (T5 & T6). split.
    + intros rk q Hin. apply in_unregister_all in Hin. destruct Hin as [q0 [H1 ->]]. apply cnt_zero. intros w Hw. apply in_filter_sub in Hw.
      pose proof (T5 _ _ H1) as Hz. rewrite cnt_zero in Hz. apply Hz. exact Hw.
    + intros st Hs. apply T6. eapply zlookup_zremove_some. exact Hs.
  - exact A3.
  - intros c2 st Hc2 Hw k Hk.
    assert (Hne : c2 <> c) by (intros E; subst c2; rewrite zlookup_zremove_same in Hc2; discriminate).
    rewrite zlookup_zremove_other in Hc2 by exact Hne.
    rewrite reg_get_unregister_all, cnt_filter_other by exact Hne. eapply A4; eauto.
Qed.
Lemma drop_conn_fields b c :
  b_wake (drop_conn b c) = b_wake b /\ b_out (drop_conn b c) = b_out b /\ b_crashed (drop_conn b c) = b_crashed b /\
  b_dead (drop_conn b c) = b_dead b /\ forall c2, zlookup c2 (b_blk (drop_conn b c)) = if c2 =? c then None else zlookup c2 (b_blk b).
Proof.
  repeat split. intros c2. cbn [drop_conn with_in with_blk with_reg b_blk]. destruct (c2 =? c) eqn:E.
  - apply Z.eqb_eq in E. subst. apply zlookup_zremove_same.
  - apply zlookup_zremove_other. lia.
Qed.
Lemma drop_fold : forall l b,
  (agree b -> agree (fold_left drop_conn l b)) /\
  b_wake (fold_left drop_conn l b) = b_wake b /\ b_out (fold_left drop_conn l b) = b_out b /\
  b_crashed (fold_left drop_conn l b) = b_crashed b /\ b_dead (fold_left drop_conn l b) = b_dead b /\
  forall c2, zlookup c2 (b_blk (fold_left drop_conn l b)) = if existsb (Z.eqb c2) l then None else zlookup c2 (b_blk b).
Proof.
  induction l as [|c l IH]; intros b; cbn [fold_left existsb];
    [split; [intros H; exact H|split; [|split; [|split; [|split]]]; reflexivity]|].
  destruct (IH (drop_conn b c)) as (I1 & I2 & I3 & I4 & I5 & I6).
  destruct (drop_conn_fields b c) as (D2 & D3 & D4 & D5 & D6).
  split; [intros HA; apply I1; apply agree_drop_conn; exact HA|].
  split; [congruence|]. split; [congruence|]. split; [congruence|]. split; [congruence|].
  intros c2. rewrite I6, D6. destruct (c2 =? c); cbn [orb]; [destruct (existsb (Z.eqb c2) l); reflexivity|reflexivity].
Qed.

(** where the wake-ups of a state come from: they were there, or their connection was Blocked *)
Definition NW (b b' : blocking) : Prop :=
  forall u, In u (b_wake b') -> In u (b_wake b) \/ zlookup (u_conn u) (b_blk b) <> None.
Lemma NW_refl b : NW b b.
Proof. intros u Hu. left. exact Hu. Qed.
Lemma NW_same b b' : b_wake b' = b_wake b -> NW b b'.
Proof. intros E u Hu. left. rewrite <- E. exact Hu. Qed.
Lemma NW_trans b1 b2 b3 : NW b1 b2 -> b_blk b2 = b_blk b1 -> NW b2 b3 -> NW b1 b3.
Proof. intros H1 E H2 u Hu. destruct (H2 u Hu) as [G|G]; [apply H1; exact G|right; rewrite <- E; exact G]. Qed.
Lemma notify_key_ready_nw b db k : agree b -> NW b (notify_key_ready b db k).
Proof.
  intros (A1 & _). unfold notify_key_ready. destruct (reg_get (b_reg b) (db, k)) as [|w q] eqn:Eg; [apply NW_refl|].
  intros u Hu. cbn [with_wake with_reg b_wake] in Hu. apply in_app_or in Hu. destruct Hu as [Hu|[Hu|[]]]; [left; exact Hu|].
  right. subst u. cbn [u_conn].
  assert (Hw : In w (reg_get (b_reg b) (db, k))) by (rewrite Eg; left; reflexivity).
  destruct (reg_get_in _ _ _ Hw) as [q0 [H1 H2]]. destruct (A1 _ _ _ H1 H2) as (st & T & _). congruence.
Qed.
Lemma notify_n_nw n : forall b db k, agree b -> NW b (notify_n n b db k).
Proof.
  induction n as [|n IH]; intros b db k HA; cbn [notify_n]; [apply NW_refl|].
  destruct (reg_get (b_reg b) (db, k)); [apply NW_refl|].
  eapply NW_trans; [apply notify_key_ready_nw; exact HA|apply notify_key_ready_fields|apply IH; apply agree_notify; exact HA].
Qed.
Lemma notify_after_push_nw b dbi name parts r : agree b -> NW b (notify_after_push b dbi name parts r).
Proof.
  intros HA. unfold notify_after_push. destruct (is_push_name name); [|apply NW_refl].
  destruct r; try apply NW_refl. destruct parts as [|? [|[] [|? ?]]]; try apply NW_refl.
  destruct (0 <? z); [|apply NW_refl]. apply notify_n_nw. exact HA.
Qed.
Lemma notify_after_script_nw s b dbi parts : agree b -> NW b (notify_after_script s b dbi parts).
Proof.
  unfold notify_after_script. generalize (firstn (match nth_error parts 2 with
    | Some (FBulk t) => match parse_usize t with Some n => Z.to_nat n | None => O end | _ => O end) (skipn 3 parts)).
  intros l. revert b. induction l as [|f l IH]; intros b HA; cbn [fold_left]; [apply NW_refl|].
  destruct f; try (apply IH; exact HA).
  eapply NW_trans; [apply notify_n_nw; exact HA|apply notify_n_fields|apply IH; apply agree_notify_n; exact HA].
Qed.
Lemma h_bpop_wake left now s b c dbi parts oms rep s' b' :
  h_bpop left now s b c dbi parts oms = (rep, s', b') -> b_wake b' = b_wake b.
Proof.
  intros H. unfold h_bpop in H.
  destruct (len parts <? 3); [injection H as _ _ <-; reflexivity|].
  destruct (timeout_of (last parts FNull) oms); [|injection H as _ _ <-; reflexivity].
  destruct (all_bulks (removelast (tl parts))); [|injection H as _ _ <-; reflexivity].
  destruct (fast_path left (get_db s dbi) l) as [[r|] d']; [injection H as _ _ <-; reflexivity|].
  destruct (c =? 0); [injection H as _ _ <-; reflexivity|].
  destruct (zlookup c (s_conns s)); injection H as _ _ <-; reflexivity.
Qed.
Lemma bnormal_nw now s b c dbi parts oracle oms rep s' b' :
  agree b -> bnormal now s b c dbi parts oracle oms = (rep, s', b') -> NW b b'.
Proof.
  intros HA H. unfold bnormal in H.
  destruct parts as [|first rest]; [destruct (normal_command now s c dbi [] oracle); injection H as _ _ <-; apply NW_refl|].
  destruct first as [| | |nm| | | | | | | | |];
    try (destruct (normal_command now s c dbi _ oracle); injection H as _ _ <-; apply NW_refl).
  destruct (beq (upper nm) (bs "BLPOP")); [apply NW_same; eapply h_bpop_wake; exact H|].
  destruct (beq (upper nm) (bs "BRPOP")); [apply NW_same; eapply h_bpop_wake; exact H|].
  destruct (normal_command now s c dbi (FBulk nm :: rest) oracle) as [r s1]. injection H as _ _ <-.
  cbv zeta. destruct (beq (upper nm) _); [|apply notify_after_push_nw; exact HA].
  eapply NW_trans; [apply notify_after_push_nw; exact HA|exact (proj1 (notify_after_push_fields _ _ _ _ _))|].
  apply notify_after_script_nw. apply agree_notify_after_push. exact HA.
Qed.
Lemma bexec_queue_nw now c : forall q s b dbi acc reps s' b',
  agree b -> bexec_queue now s b c dbi q acc = (reps, s', b') -> NW b b'.
Proof.
  induction q as [|parts q IH]; intros s b dbi acc reps s' b' HA H; cbn [bexec_queue] in H.
  - injection H as _ _ <-. apply NW_refl.
  - destruct (beq (queued_name parts) (bs "SELECT")) eqn:Esel.
    { rewrite (bnormal_select _ _ _ _ _ _ _ _ Esel) in H.
      destruct (normal_command now s c dbi parts None) as [rep s1]. eapply IH; eauto. }
    destruct (bnormal now s b 0 dbi parts None None) as [[rep s1] b1] eqn:En.
    assert (Hg : bpop_parts parts = true -> 0 <> 0 -> zlookup 0 (b_blk b) = None /\ wakes_for 0 (b_wake b) = [] /\ exists cn, zlookup 0 (s_conns s) = Some cn)
      by (intros _ Hb; congruence).
    destruct (bnormal_inv _ _ _ _ _ _ _ _ _ _ _ HA Hg En) as (G1 & _ & _ & _ & G5).
    assert (G5' : b_blk b1 = b_blk b) by (destruct (bpop_parts parts); [destruct G5 as [_ G5]; rewrite (G5 eq_refl); reflexivity|exact G5]).
    eapply NW_trans; [eapply bnormal_nw; eauto|exact G5'|eapply IH; eauto].
Qed.
Lemma bprocess_frame_nw now s b c f oracle oms rep s' b' :
  agree b -> bprocess_frame now s b c f oracle oms = (rep, s', b') -> NW b b'.
Proof.
  intros HA H. unfold bprocess_frame in H.
  assert (Pass : (let (r, s'0) := process_frame now s c f oracle in (r, s'0, b)) = (rep, s', b') -> NW b b').
  { destruct (process_frame now s c f oracle). intros E. injection E as _ _ <-. apply NW_refl. }
  destruct f as [| | | | |l| | | | | | |]; try (apply Pass; exact H).
  destruct l as [|first rest]; [apply Pass; exact H|].
  destruct first as [| | |nm| | | | | | | | |]; try (apply Pass; exact H).
  destruct (zlookup c (s_conns s)) as [cn|]; [|apply Pass; exact H].
  destruct (_ && negb (c_auth cn)); [apply Pass; exact H|].
  destruct (c_intx cn && _); [apply Pass; exact H|].
  destruct (beq (upper (trim nm)) (bs "MULTI")); [apply Pass; exact H|].
  destruct (beq (upper (trim nm)) (bs "EXEC")).
  { unfold bh_exec in H. cbv zeta in H. destruct (negb (c_intx cn)); [injection H as _ _ <-; apply NW_refl|].
    destruct (watch_violated now s cn); [injection H as _ _ <-; apply NW_refl|].
    revert H. destruct (bexec_queue _ _ _ _ _ _ _) as [[reps s2] b2] eqn:E. intros H. injection H as _ _ <-.
    eapply bexec_queue_nw; eauto. }
  destruct (_ || _ || _ || _); [apply Pass; exact H|].
  eapply bnormal_nw; eauto.
Qed.

(** no request touches the list of the clients that went away *)
Lemma h_bpop_dead left now s b c dbi parts oms rep s' b' :
  h_bpop left now s b c dbi parts oms = (rep, s', b') -> b_dead b' = b_dead b.
Proof.
  intros H. unfold h_bpop in H.
  destruct (len parts <? 3); [injection H as _ _ <-; reflexivity|].
  destruct (timeout_of (last parts FNull) oms); [|injection H as _ _ <-; reflexivity].
  destruct (all_bulks (removelast (tl parts))); [|injection H as _ _ <-; reflexivity].
  destruct (fast_path left (get_db s dbi) l) as [[r|] d']; [injection H as _ _ <-; reflexivity|].
  destruct (c =? 0); [injection H as _ _ <-; reflexivity|].
  destruct (zlookup c (s_conns s)); injection H as _ _ <-; reflexivity.
Qed.
Lemma bnormal_dead now s b c dbi parts o oms rep s' b' :
  bnormal now s b c dbi parts o oms = (rep, s', b') -> b_dead b' = b_dead b.
Proof.
  intros H. unfold bnormal in H.
  destruct parts as [|p rest]; [destruct (normal_command now s c dbi [] o); injection H as _ _ <-; reflexivity|].
  destruct p; try (destruct (normal_command now s c dbi _ o); injection H as _ _ <-; reflexivity).
  destruct (beq (upper b0) (bs "BLPOP")); [eapply h_bpop_dead; exact H|].
  destruct (beq (upper b0) (bs "BRPOP")); [eapply h_bpop_dead; exact H|].
  destruct (normal_command now s c dbi (FBulk b0 :: rest) o) as [r s1]. injection H as _ _ <-.
  destruct (notify_after_push_fields b dbi (upper b0) (FBulk b0 :: rest) r) as (_ & _ & _ & F & _).
  cbv zeta. destruct (beq (upper b0) _); [|exact F].
  destruct (notify_after_script_fields s1 (notify_after_push b dbi (upper b0) (FBulk b0 :: rest) r) dbi (FBulk b0 :: rest)) as (_ & _ & _ & K & _).
  congruence.
Qed.
Lemma bexec_queue_dead now c : forall q s b dbi acc reps s' b',
  bexec_queue now s b c dbi q acc = (reps, s', b') -> b_dead b' = b_dead b.
Proof.
  induction q as [|parts q IH]; intros s b dbi acc reps s' b' H; cbn [bexec_queue] in H.
  - injection H as _ _ <-. reflexivity.
  - destruct (beq (queued_name parts) (bs "SELECT")).
    + destruct (bnormal now s b c dbi parts None None) as [[rep s1] b1] eqn:En.
      rewrite (IH _ _ _ _ _ _ _ H). eapply bnormal_dead; exact En.
    + destruct (bnormal now s b 0 dbi parts None None) as [[rep s1] b1] eqn:En.
      rewrite (IH _ _ _ _ _ _ _ H). eapply bnormal_dead; exact En.
Qed.
Lemma bprocess_frame_dead now s b c f o oms rep s' b' :
  bprocess_frame now s b c f o oms = (rep, s', b') -> b_dead b' = b_dead b.
Proof.
  intros H. unfold bprocess_frame in H.
  assert (Pass : (let (r, s'0) := process_frame now s c f o in (r, s'0, b)) = (rep, s', b') -> b_dead b' = b_dead b).
  { destruct (process_frame now s c f o). intros E. injection E as _ _ <-. reflexivity. }
  destruct f as [| | | | |l| | | | | | |]; try (apply Pass; exact H).
  destruct l as [|first rest]; [apply Pass; exact H|].
  destruct first as [| | |nm| | | | | | | | |]; try (apply Pass; exact H).
  destruct (zlookup c (s_conns s)) as [cn|]; [|apply Pass; exact H].
  destruct (_ && negb (c_auth cn)); [apply Pass; exact H|].
  destruct (c_intx cn && _); [apply Pass; exact H|].
  destruct (beq (upper (trim nm)) (bs "MULTI")); [apply Pass; exact H|].
  destruct (beq (upper (trim nm)) (bs "EXEC")).
  { unfold bh_exec in H. cbv zeta in H. destruct (negb (c_intx cn)); [injection H as _ _ <-; reflexivity|].
    destruct (watch_violated now s cn); [injection H as _ _ <-; reflexivity|].
    revert H. destruct (bexec_queue _ _ _ _ _ _ _) as [[reps s2] b2] eqn:E. intros H. injection H as _ _ <-.
    eapply bexec_queue_dead; exact E. }
  destruct (_ || _ || _ || _); [apply Pass; exact H|].
  eapply bnormal_dead; exact H.
Qed.
Lemma wake_client_misc now s b u :
  b_dead (snd (wake_client now s b u)) = b_dead b /\
  forall c2, zlookup c2 (b_blk (snd (wake_client now s b u))) = None <-> (zlookup c2 (b_blk b) = None \/ (c2 = u_conn u /\ zlookup c2 (b_blk (snd (wake_client now s b u))) = None)).
Proof.
  unfold wake_client.
  destruct (on_key (fst (purge_key now (get_db s (u_db u), []) (u_key u))) (u_key u) (e_pop (u_left u))) as [r d'].
  assert (Un : forall f, b_dead (unblock (emit b (u_conn u) f) (u_conn u)) = b_dead b /\
             forall c2, zlookup c2 (b_blk (unblock (emit b (u_conn u) f) (u_conn u))) = None <->
                        (zlookup c2 (b_blk b) = None \/ (c2 = u_conn u /\ zlookup c2 (b_blk (unblock (emit b (u_conn u) f) (u_conn u))) = None))).
  { intros f. split; [reflexivity|]. intros c2. cbn [unblock emit with_blk b_blk]. destruct (Z.eq_dec c2 (u_conn u)) as [->|Hne].
    - rewrite zlookup_zremove_same. split; [intros _; right; split; reflexivity|reflexivity].
    - rewrite zlookup_zremove_other by exact Hne. split; [intros G; left; exact G|intros [G|[G _]]; [exact G|contradiction]]. }
  assert (Id : forall bx, b_dead bx = b_dead b -> b_blk bx = b_blk b ->
             b_dead bx = b_dead b /\ forall c2, zlookup c2 (b_blk bx) = None <-> (zlookup c2 (b_blk b) = None \/ (c2 = u_conn u /\ zlookup c2 (b_blk bx) = None))).
  { intros bx E1 E2. split; [exact E1|]. intros c2. rewrite E2. split; [intros G; left; exact G|intros [G|[_ G]]; exact G]. }
  destruct (zlookup (u_conn u) (b_blk b)) as [st|]; destruct r; cbn [snd];
    first [apply Un | apply Id; reflexivity
          | apply Id; [exact (proj1 (proj2 (proj2 (proj2 (notify_key_ready_fields _ _ _)))))|exact (proj1 (notify_key_ready_fields _ _ _))]
          | apply Id; [exact (proj1 (proj2 (proj2 (proj2 (renotify_fields _ _ _ _)))))|exact (proj1 (renotify_fields _ _ _ _))]].
Qed.

Lemma wake_step_eq0 now s b u : wake_step now (s, b) u = if b_crashed b then (s, b) else wake_client now s b u.
Proof. reflexivity. Qed.
Lemma wake_client_crashed0 now s b u : b_crashed (snd (wake_client now s b u)) = b_crashed b.
Proof.
  unfold wake_client. destruct (on_key _ (u_key u) (e_pop (u_left u))) as [r d'].
  destruct (zlookup (u_conn u) (b_blk b)) as [st|]; destruct r; cbn [snd];
    first [reflexivity | exact (proj1 (proj2 (proj2 (notify_key_ready_fields _ _ _))))
          | exact (proj1 (proj2 (proj2 (renotify_fields _ _ _ _))))].
Qed.
(** the wake-up step: the queue loses its first 32 requests (re-notifications join its back),
    nobody goes on the list of the clients that went away, and only connections whose request was
    handled can have left the Blocked state *)
Lemma process_wakeups_misc now s b :
  b_dead (snd (process_wakeups now s b)) = b_dead b /\
  (exists ex, b_wake (snd (process_wakeups now s b)) = skipn 32 (b_wake b) ++ ex) /\
  forall c2, zlookup c2 (b_blk (snd (process_wakeups now s b))) = None ->
             zlookup c2 (b_blk b) = None \/ In c2 (map u_conn (firstn 32 (b_wake b))).
Proof.
  unfold process_wakeups.
  assert (F : forall l sb, b_dead (snd (fold_left (wake_step now) l sb)) = b_dead (snd sb) /\
             (exists ex, b_wake (snd (fold_left (wake_step now) l sb)) = b_wake (snd sb) ++ ex) /\
             forall c2, zlookup c2 (b_blk (snd (fold_left (wake_step now) l sb))) = None ->
                        zlookup c2 (b_blk (snd sb)) = None \/ In c2 (map u_conn l)).
  { induction l as [|u l IH]; intros sb; cbn [fold_left map];
      [split; [reflexivity|split; [exists []; rewrite app_nil_r; reflexivity|intros c2 Hn; left; exact Hn]]|].
    destruct (IH (wake_step now sb u)) as (I1 & (ex2 & I2) & I3).
    assert (W : b_dead (snd (wake_step now sb u)) = b_dead (snd sb) /\ (exists ex, b_wake (snd (wake_step now sb u)) = b_wake (snd sb) ++ ex) /\
                forall c2, zlookup c2 (b_blk (snd (wake_step now sb u))) = None -> zlookup c2 (b_blk (snd sb)) = None \/ c2 = u_conn u).
    { unfold wake_step. destruct (b_crashed (snd sb));
        [split; [reflexivity|split; [exists []; rewrite app_nil_r; reflexivity|intros c2 Hn; left; exact Hn]]|].
      destruct (wake_client_misc now (fst sb) (snd sb) u) as (M1 & M2). split; [exact M1|].
      split; [destruct (wake_client_wake now (fst sb) (snd sb) u) as (ex & E & _); exists ex; exact E|].
      intros c2 Hn. apply M2 in Hn. destruct Hn as [Hn|[Hn _]]; [left; exact Hn|right; exact Hn]. }
    destruct W as (W1 & (ex1 & W2) & W3). split; [congruence|]. split; [exists (ex1 ++ ex2); rewrite I2, W2, app_assoc; reflexivity|].
    intros c2 Hn. destruct (I3 c2 Hn) as [G|G]; [destruct (W3 c2 G) as [G2|G2]; [left; exact G2|right; left; congruence]|right; right; exact G]. }
  destruct (F (firstn 32 (b_wake b)) (s, with_wake b (skipn 32 (b_wake b)))) as (F1 & F2 & F3).
  cbn [snd with_wake b_dead b_wake b_blk] in F1, F2, F3. split; [exact F1|]. split; [exact F2|exact F3].
Qed.
(** a wake-up that is (still or newly) queued for a connection that is not Blocked belongs to a
    connection that was like that before: P is any property of such connections *)
Lemma wake_fold_gone now (P : Z -> Prop) : forall l s b,
  agreeW b (l ++ b_wake b) -> b_crashed b = false ->
  (forall x, In x (l ++ b_wake b) -> zlookup (u_conn x) (b_blk b) = None -> P (u_conn x)) ->
  forall x, In x (b_wake (snd (fold_left (wake_step now) l (s, b)))) ->
            zlookup (u_conn x) (b_blk (snd (fold_left (wake_step now) l (s, b)))) = None -> P (u_conn x).
Proof.
  induction l as [|u l IH]; intros s b HA Hc HG; cbn [fold_left snd].
  - intros x Hx Hn. apply HG; assumption.
  - rewrite wake_step_eq0, Hc. cbn [app] in HA.
    pose proof (agree_wake_next now s b u l HA) as Hnext.
    destruct (wake_client_wake now s b u) as (ex & E & Eex).
    destruct (wake_client_misc now s b u) as (_ & M2).
    pose proof (wake_client_crashed0 now s b u) as Hcr.
    destruct (wake_client now s b u) as [s1 b1]. cbn [snd] in *.
    apply IH; [exact Hnext|congruence|].
    intros x Hx Hn. rewrite E, app_assoc in Hx. apply in_app_or in Hx. destruct Hx as [Hx|Hx].
    + apply M2 in Hn. destruct Hn as [Hn|[Hn _]]; [apply HG; [right; exact Hx|exact Hn]|].
      exfalso. destruct HA as (_ & _ & A3 & _). unfold wakes_unique in A3. cbn [with_wake b_wake map] in A3.
      apply NoDup_cons_iff in A3. destruct A3 as [A3 _]. apply A3. rewrite <- Hn. apply in_map. exact Hx.
    + destruct Eex as [->|[(Hnb & ->)|(st0 & d0 & Hst0 & -> & Eblk)]]; [destruct Hx| |].
      2:{ (* woken after the client was registered again: a waiter, hence Blocked *)
          exfalso. pose proof (agree_reregister b (l ++ b_wake b) u st0 HA Hst0) as HA0. fold (again b u st0) in HA0.
          unfold agreeW in HA0. rewrite <- (renotified_l_with_wake d0 (u_db u) (bl_keys st0) (again b u st0) (l ++ b_wake b)) in Hx.
          apply (renotified_l_blocked _ _ _ _ _ HA0) in Hx. cbn [with_wake again with_reg b_blk] in Hx.
          rewrite Eblk in Hn. contradiction. }
      exfalso.
      unfold renotified in Hx. destruct (reg_get (b_reg b) (u_db u, u_key u)) as [|w q] eqn:Eg; [destruct Hx|].
      destruct Hx as [<-|[]]. cbn [u_conn] in Hn.
      assert (Hw : In w (reg_get (b_reg b) (u_db u, u_key u))) by (rewrite Eg; left; reflexivity).
      destruct (reg_get_in _ _ _ Hw) as [q0 [K1 K2]]. destruct HA as (A1 & _).
      destruct (A1 _ _ _ K1 K2) as (st & T & _). cbn [with_wake b_blk] in T.
      apply M2 in Hn. destruct Hn as [Hn|[Hn _]]; congruence.
Qed.
Lemma drop_fold_reg : forall l b rk w, In w (reg_get (b_reg (fold_left drop_conn l b)) rk) -> In w (reg_get (b_reg b) rk).
Proof.
  induction l as [|c l IH]; intros b rk w H; cbn [fold_left] in H; [exact H|].
  apply IH in H. cbn [drop_conn with_in with_blk with_reg b_reg] in H. rewrite reg_get_unregister_all in H.
  eapply in_filter_sub; exact H.
Qed.

Theorem inv_step st e : inv st -> ok st e = true -> inv (step st e).
Proof.
  destruct st as [s b]. intros HI Hok. unfold inv, gone_ok in *. cbn [fst snd] in HI. cbn [step].
  destruct (b_crashed b) eqn:Ecr; [left; exact Ecr|].
  destruct HI as [HI|(HA & H0 & HO & HD)]; [congruence|].
  destruct e as [now c f oms|now|now|c|c|]; cbn [ok] in *.
  - (* a frame *)
    destruct (zlookup c (s_conns s)) as [cn|] eqn:Hc; [|discriminate].
    apply andb_true_iff in Hok. destruct Hok as [Hnb Hq].
    apply negb_true_iff in Hnb. apply is_blocked_false in Hnb.
    assert (Hnw : wakes_for c (b_wake b) = []).
    { apply wakes_for_nil. intros u Hu E. pose proof (HO u Hu) as G. rewrite E in G. specialize (G Hnb). congruence. }
    unfold frame_step. destruct (bprocess_frame now s b c f None oms) as [[rep s'] b'] eqn:E. cbn [fst snd].
    destruct (bprocess_frame_inv _ _ _ _ _ _ _ _ _ _ _ HA H0 Hc Hnb Hnw E) as (G1 & G3 & G4 & G5 & G6).
    pose proof (bprocess_frame_nw _ _ _ _ _ _ _ _ _ _ HA E) as G7.
    pose proof (bprocess_frame_dead _ _ _ _ _ _ _ _ _ _ E) as G8.
    assert (Hblk : forall c2, zlookup c2 (b_blk b') = None -> zlookup c2 (b_blk b) = None).
    { intros c2 Hn. destruct G6 as [G6|(_ & st & G6)]; [rewrite <- G6; exact Hn|].
      rewrite G6 in Hn. destruct (Z.eq_dec c2 c) as [->|Hne]; [rewrite zlookup_zset_same in Hn; discriminate|].
      rewrite zlookup_zset_other in Hn by exact Hne. exact Hn. }
    right. split; [destruct rep; exact G1|]. split; [apply G3; exact H0|].
    assert (Goal : (forall u, In u (b_wake b') -> zlookup (u_conn u) (b_blk b') = None -> zlookup (u_conn u) (s_conns s') = None)
                   /\ (forall c0, In c0 (b_dead b') -> zlookup c0 (s_conns s') = None)).
    { split.
      - intros u Hu Hn. apply G3. destruct (G7 u Hu) as [G|G]; [apply HO; [exact G|apply Hblk; exact Hn]|].
        exfalso. apply G. apply Hblk. exact Hn.
      - intros c0 Hin. rewrite G8 in Hin. apply G3. apply HD. exact Hin. }
    destruct rep; exact Goal.
  - (* wake-ups *)
    destruct (agree_process_wakeups now s b (or_intror HA)) as [H|H]; [left; exact H|right].
    split; [exact H|]. rewrite process_wakeups_conns. split; [exact H0|].
    destruct (process_wakeups_misc now s b) as (F1 & _ & _).
    split.
    + assert (HA' : agreeW (with_wake b (skipn 32 (b_wake b))) (firstn 32 (b_wake b) ++ b_wake (with_wake b (skipn 32 (b_wake b))))).
      { cbn [with_wake b_wake]. unfold agreeW. rewrite firstn_skipn. apply agreeW_self in HA. unfold agreeW in HA. destruct b; exact HA. }
      unfold process_wakeups.
      apply (wake_fold_gone now (fun c => zlookup c (s_conns s) = None) (firstn 32 (b_wake b)) s (with_wake b (skipn 32 (b_wake b))) HA' Ecr).
      intros x Hx Hn. cbn [with_wake b_wake b_blk] in Hx, Hn. rewrite firstn_skipn in Hx. apply HO; assumption.
    + intros c0 Hin. rewrite F1 in Hin. apply HD. exact Hin.
  - (* timeouts *)
    right. cbn [fst snd]. split; [apply agree_process_timeouts; exact HA|]. split; [exact H0|].
    unfold process_timeouts. destruct (expire_reg now (b_reg b)) as [ex r'] eqn:Ee.
    destruct (timeout_fold ex (with_reg b r')) as (_ & T2 & _ & T4). cbn [with_reg b_wake b_blk] in T2, T4.
    assert (Td : forall ex0 bx, b_dead (fold_left timeout_conn ex0 bx) = b_dead bx).
    { induction ex0 as [|c0 ex0 IH]; intros bx; cbn [fold_left]; [reflexivity|]. rewrite IH. unfold timeout_conn. destruct (zlookup c0 (b_blk bx)); reflexivity. }
    split.
    + intros u Hu Hn. rewrite T2 in Hu. rewrite T4 in Hn. destruct (existsb (Z.eqb (u_conn u)) ex) eqn:Eex; [|apply HO; assumption].
      (* a connection with a wake-up under way has no registration, so it cannot time out *)
      exfalso. apply existsb_eqb_in in Eex. assert (ex = fst (expire_reg now (b_reg b))) by (rewrite Ee; reflexivity). subst ex.
      apply in_expired_ids in Eex. destruct Eex as (rk3 & q3 & w3 & H1 & H2 & _ & H4).
      destruct HA as (_ & A2 & _). destruct (A2 u Hu) as (T5 & _). pose proof (T5 _ _ H1) as Hz. rewrite cnt_zero in Hz. exact (Hz w3 H2 H4).
    + intros c0 Hin. rewrite Td in Hin. apply HD. exact Hin.
  - (* a client connects *)
    apply andb_true_iff in Hok. destruct Hok as [Hok Hnd]. apply andb_true_iff in Hok. destruct Hok as [Hok Hnw].
    apply andb_true_iff in Hok. destruct Hok as [Hok Hfresh]. apply andb_true_iff in Hok. destruct Hok as [Hne _].
    right. unfold connect. cbn [fst snd set_conn s_conns]. split; [exact HA|].
    split; [rewrite zlookup_zset_other by lia; exact H0|]. split.
    + intros u Hu Hn. assert (u_conn u <> c).
      { intros E. destruct (wakes_for c (b_wake b)) eqn:Ew; [|discriminate]. rewrite wakes_for_nil in Ew. exact (Ew u Hu E). }
      rewrite zlookup_zset_other by exact H. apply HO; assumption.
    + intros c0 Hin. assert (c0 <> c).
      { intros E. subst c0. apply negb_true_iff in Hnd. assert (existsb (Z.eqb c) (b_dead b) = true) by (apply existsb_eqb_in; exact Hin). congruence. }
      rewrite zlookup_zset_other by exact H. apply HD. exact Hin.
  - (* a client goes away *)
    right. cbn [fst snd del_conn s_conns with_dead b_wake b_blk b_dead]. split; [exact HA|].
    split; [destruct (Z.eq_dec 0 c) as [E|E]; [subst; apply zlookup_zremove_same|rewrite zlookup_zremove_other by exact E; exact H0]|].
    assert (Rm : forall c2, zlookup c2 (s_conns s) = None -> zlookup c2 (zremove c (s_conns s)) = None).
    { intros c2 G. destruct (Z.eq_dec c2 c) as [->|Hne]; [apply zlookup_zremove_same|rewrite zlookup_zremove_other by exact Hne; exact G]. }
    split.
    + intros u Hu Hn. apply Rm. apply HO; assumption.
    + intros c0 [<-|Hin]; [apply zlookup_zremove_same|apply Rm; apply HD; exact Hin].
  - (* the server notices the clients that went away *)
    right. cbn [fst snd]. unfold reap_dead.
    destruct (drop_fold (filter (noticed b) (b_dead b)) (with_dead b (filter (fun c => negb (noticed b c)) (b_dead b)))) as (D1 & D2 & _ & _ & D5 & D6).
    cbn [with_dead b_wake b_dead b_blk] in D2, D5, D6.
    split; [apply D1; exact HA|]. split; [exact H0|]. split.
    + intros u Hu Hn. rewrite D2 in Hu. rewrite D6 in Hn. destruct (existsb (Z.eqb (u_conn u)) (filter (noticed b) (b_dead b))) eqn:Eex.
      * apply existsb_eqb_in in Eex. apply in_filter_sub in Eex. apply HD. exact Eex.
      * apply HO; assumption.
    + intros c0 Hin. rewrite D5 in Hin. apply in_filter_sub in Hin. apply HD. exact Hin.
Qed.

Lemma inv_init pw : inv (init_server pw, init_blocking).
Proof.
  right. cbn [fst snd]. split; [|split; [reflexivity|split; [intros u []|intros c []]]].
  split; [|split; [|split]].
  - intros rk q w [].
  - intros u [].
  - constructor.
  - intros c st H. discriminate.
Qed.
Theorem reach_inv pw st : reach pw st -> inv st.
Proof. induction 1; [apply inv_init|apply inv_step; assumption]. Qed.

(** ================= what the asynchronous phases write ================= *)
Lemma wrote_nil b : wrote b b [].
Proof. reflexivity. Qed.

(** timeouts: a null array to each connection that was Blocked and had an expired registration,
    one each; those connections are no longer Blocked *)
Lemma timeout_fold_out : forall ex b,
  exists new, b_out (fold_left timeout_conn ex b) = rev new ++ b_out b
    /\ (forall c f, In (c, f) new -> f = FNullArray /\ In c ex /\ zlookup c (b_blk b) <> None)
    /\ NoDup (map fst new)
    /\ (forall c, In c ex -> zlookup c (b_blk b) <> None -> In c (map fst new)).
Proof.
  induction ex as [|c0 ex IH]; intros b; cbn [fold_left].
  - exists []. repeat split; try (intros; contradiction). constructor.
  - destruct (IH (timeout_conn b c0)) as (new & H1 & H2 & H3 & H4).
    unfold timeout_conn in *. destruct (zlookup c0 (b_blk b)) as [st|] eqn:E.
    + exists ((c0, FNullArray) :: new). cbn [unblock emit with_blk b_out b_blk] in *.
      split; [rewrite H1; cbn [rev]; rewrite <- app_assoc; reflexivity|].
      split; [|split].
      * intros c f [Hin|Hin].
        -- injection Hin as <- <-. split; [reflexivity|]. split; [left; reflexivity|congruence].
        -- destruct (H2 c f Hin) as (G1 & G2 & G3). split; [exact G1|]. split; [right; exact G2|].
           intros Hn. apply G3. destruct (Z.eq_dec c c0) as [->|Hne]; [apply zlookup_zremove_same|].
           rewrite zlookup_zremove_other by exact Hne. exact Hn.
      * cbn [map fst]. constructor; [|exact H3]. intros Hin. apply in_map_iff in Hin. destruct Hin as [[c f] [Hc Hin]].
        cbn [fst] in Hc. subst c. destruct (H2 c0 f Hin) as (_ & _ & G3). apply G3. apply zlookup_zremove_same.
      * intros c [Hc|Hc] Hb; [subst; left; reflexivity|]. destruct (Z.eq_dec c c0) as [->|Hne]; [left; reflexivity|].
        right. apply H4; [exact Hc|]. rewrite zlookup_zremove_other by exact Hne. exact Hb.
    + exists new. split; [exact H1|]. split; [|split; [exact H3|]].
      * intros c f Hin. destruct (H2 c f Hin) as (G1 & G2 & G3). split; [exact G1|]. split; [right; exact G2|exact G3].
      * intros c [Hc|Hc] Hb; [subst; congruence|]. apply H4; assumption.
Qed.

Lemma process_timeouts_wrote now b : agree b ->
  exists new, wrote b (process_timeouts now b) new
    /\ NoDup (map fst new)
    /\ (forall c f, In (c, f) new ->
          f = FNullArray /\ zlookup c (b_blk (process_timeouts now b)) = None /\
          exists st d, zlookup c (b_blk b) = Some st /\ bl_dl st = Some d /\ d <= now)
    /\ (forall c, zlookup c (b_blk b) <> None -> zlookup c (b_blk (process_timeouts now b)) = None -> In c (map fst new))
    /\ (forall c, zlookup c (b_blk b) = None -> zlookup c (b_blk (process_timeouts now b)) = None).
Proof.
  intros (A1 & A2 & A3 & A4). unfold process_timeouts.
  destruct (expire_reg now (b_reg b)) as [ex r'] eqn:Ee.
  assert (Hex : ex = fst (expire_reg now (b_reg b))) by (rewrite Ee; reflexivity).
  destruct (timeout_fold ex (with_reg b r')) as (_ & _ & _ & F4).
  destruct (timeout_fold_out ex (with_reg b r')) as (new & H1 & H2 & H3 & H4).
  cbn [with_reg b_out b_blk] in *.
  exists new. split; [exact H1|]. split; [exact H3|]. split; [|split].
  - intros c f Hin. destruct (H2 c f Hin) as (G1 & G2 & G3). split; [exact G1|]. split.
    + rewrite F4. apply existsb_eqb_in in G2. rewrite G2. reflexivity.
    + rewrite Hex in G2. apply in_expired_ids in G2. destruct G2 as (rk & q & w & K1 & K2 & K3 & K4).
      destruct (A1 _ _ _ K1 K2) as (st & T1 & _ & _ & T4 & _). rewrite K4 in T1.
      unfold expired_w in K3. rewrite T4 in K3. destruct (bl_dl st) as [d|] eqn:Ed; [|discriminate].
      exists st, d. split; [exact T1|]. split; [exact Ed|]. apply Z.leb_le. exact K3.
  - intros c Hb Hn. rewrite F4 in Hn. destruct (existsb (Z.eqb c) ex) eqn:Eex.
    + apply H4; [apply existsb_eqb_in; exact Eex|exact Hb].
    + congruence.
  - intros c Hn. rewrite F4. destruct (existsb (Z.eqb c) ex); [reflexivity|exact Hn].
Qed.

(** wake-ups: [key, element] to connections that were Blocked on that key, one each.  (A wake-up
    that finds its own key empty writes nothing: the client is registered again and the heads of
    the queues of its keys that hold an element are woken; the key of a reply is the key of the
    wake-up that delivered it, which is one of the keys of the call) *)
Lemma wake_client_out now s b u W : agreeW b (u :: W) ->
  let b' := snd (wake_client now s b u) in
  (b_out b' = b_out b /\ b_blk b' = b_blk b) \/
  (exists st k v, zlookup (u_conn u) (b_blk b) = Some st /\ bmem k (bl_keys st) = true /\
                b_out b' = (u_conn u, FArray [FBulk k; FBulk v]) :: b_out b /\
                b_blk b' = zremove (u_conn u) (b_blk b)).
Proof.
  intros HA. cbv zeta. unfold wake_client.
  destruct HA as (_ & A2 & _). destruct (A2 u (or_introl eq_refl)) as (_ & U).
  cbn [with_wake b_blk] in U.
  destruct (on_key _ (u_key u) (e_pop (u_left u))) as [r d'].
  destruct (zlookup (u_conn u) (b_blk b)) as [st|] eqn:Eb.
  - destruct (U st eq_refl) as (U1 & U2 & U3).
    destruct r; cbn [snd];
      try (left; split; [exact (proj1 (proj2 (renotify_fields _ _ _ _)))|exact (proj1 (renotify_fields _ _ _ _))]).
    right. exists st, (u_key u), b0. split; [reflexivity|]. split; [exact U2|]. split; reflexivity.
  - destruct r; cbn [snd]; left; (split; first [reflexivity|exact (proj1 (proj2 (notify_key_ready_fields _ _ _)))|exact (proj1 (notify_key_ready_fields _ _ _))]).
Qed.
Definition delivery_of (b : blocking) (c : Z) (f : frame) : Prop :=
  exists st k v, zlookup c (b_blk b) = Some st /\ bmem k (bl_keys st) = true /\ f = FArray [FBulk k; FBulk v].

Lemma wake_step_eq now s b u : wake_step now (s, b) u = if b_crashed b then (s, b) else wake_client now s b u.
Proof. reflexivity. Qed.
Lemma wake_fold_out now : forall l s b,
  (b_crashed b = true \/ agreeW b (l ++ b_wake b)) ->
  exists new, b_out (snd (fold_left (wake_step now) l (s, b))) = rev new ++ b_out b
    /\ (forall c f, In (c, f) new -> In c (map u_conn l) /\ delivery_of b c f)
    /\ NoDup (map fst new)
    /\ (forall c, zlookup c (b_blk (snd (fold_left (wake_step now) l (s, b)))) =
                  if existsb (Z.eqb c) (map fst new) then None else zlookup c (b_blk b)).
Proof.
  induction l as [|u l IH]; intros s b H; cbn [fold_left snd].
  - exists []. repeat split; try (intros; contradiction). constructor.
  - rewrite wake_step_eq. destruct (b_crashed b) eqn:Ec.
    + destruct (IH s b (or_introl Ec)) as (new & H1 & H2 & H3 & H4). exists new. split; [exact H1|].
      split; [|split; assumption]. intros c f Hin. destruct (H2 c f Hin) as [G1 G2]. split; [right; exact G1|exact G2].
    + destruct H as [H|H]; [congruence|]. cbn [app] in H.
      pose proof (agree_wake_next now s b u l H) as Hnext.
      pose proof (wake_client_out now s b u (l ++ b_wake b) H) as Hout. cbv zeta in Hout.
      destruct (wake_client now s b u) as [s1 b1]. cbn [snd] in *.
      destruct (IH s1 b1 (or_intror Hnext)) as (new & H1 & H2 & H3 & H4).
      assert (Hnd : ~ In (u_conn u) (map u_conn l)).
      { destruct H as (_ & _ & A3 & _). unfold wakes_unique in A3. cbn [with_wake b_wake map] in A3.
        apply NoDup_cons_iff in A3. destruct A3 as [A3 _]. intros Hin. apply A3. rewrite map_app. apply in_or_app. left. exact Hin. }
      destruct Hout as [[O1 O2]|(st & k & v & O1 & O2 & O3 & O4)].
      * exists new. rewrite H1, O1. split; [reflexivity|]. split; [|split; [exact H3|]].
        -- intros c f Hin. destruct (H2 c f Hin) as [G1 G2]. split; [right; exact G1|].
           unfold delivery_of in *. rewrite O2 in G2. exact G2.
        -- intros c. rewrite H4, O2. reflexivity.
      * exists ((u_conn u, FArray [FBulk k; FBulk v]) :: new). rewrite H1, O3.
        split; [cbn [rev]; rewrite <- app_assoc; reflexivity|]. split; [|split].
        -- intros c f [Hin|Hin].
           ++ injection Hin as <- <-. split; [left; reflexivity|]. exists st, k, v. split; [exact O1|]. split; [exact O2|reflexivity].
           ++ destruct (H2 c f Hin) as [G1 G2]. split; [right; exact G1|].
              destruct G2 as (st2 & k2 & v2 & K1 & K2 & K3). exists st2, k2, v2. split; [|split; assumption].
              rewrite O4 in K1. eapply zlookup_zremove_some. exact K1.
        -- cbn [map fst]. constructor; [|exact H3]. intros Hin. apply in_map_iff in Hin. destruct Hin as [[c f] [Hc Hin]].
           cbn [fst] in Hc. subst c. destruct (H2 _ _ Hin) as [G1 _]. contradiction.
        -- intros c. rewrite H4, O4. cbn [map fst existsb]. destruct (c =? u_conn u) eqn:E.
           ++ apply Z.eqb_eq in E. subst c. cbn [orb]. destruct (existsb _ (map fst new)); [reflexivity|apply zlookup_zremove_same].
           ++ cbn [orb]. destruct (existsb _ (map fst new)); [reflexivity|]. apply zlookup_zremove_other. lia.
Qed.

Lemma process_wakeups_wrote now s b : agree b ->
  exists new, wrote b (snd (process_wakeups now s b)) new
    /\ NoDup (map fst new)
    /\ (forall c f, In (c, f) new -> delivery_of b c f /\ zlookup c (b_blk (snd (process_wakeups now s b))) = None)
    /\ (forall c, zlookup c (b_blk b) <> None -> zlookup c (b_blk (snd (process_wakeups now s b))) = None -> In c (map fst new))
    /\ (forall c, zlookup c (b_blk b) = None -> zlookup c (b_blk (snd (process_wakeups now s b))) = None).
Proof.
  intros HA. unfold process_wakeups.
  assert (H0 : b_crashed (with_wake b (skipn 32 (b_wake b))) = true \/
               agreeW (with_wake b (skipn 32 (b_wake b))) (firstn 32 (b_wake b) ++ b_wake (with_wake b (skipn 32 (b_wake b))))).
  { right. cbn [with_wake b_wake]. unfold agreeW. rewrite firstn_skipn. apply agreeW_self in HA. unfold agreeW in HA.
    destruct b; exact HA. }
  destruct (wake_fold_out now _ s _ H0) as (new & H1 & H2 & H3 & H4). cbn [with_wake b_out b_blk] in *.
  exists new. split; [exact H1|]. split; [exact H3|]. split; [|split].
  - intros c f Hin. destruct (H2 c f Hin) as [_ G2]. split; [exact G2|].
    rewrite H4. replace (existsb (Z.eqb c) (map fst new)) with true; [reflexivity|].
    symmetry. apply existsb_eqb_in. apply in_map_iff. exists (c, f). split; [reflexivity|exact Hin].
  - intros c Hb Hn. rewrite H4 in Hn. destruct (existsb (Z.eqb c) (map fst new)) eqn:E; [apply existsb_eqb_in; exact E|congruence].
  - intros c Hn. rewrite H4. destruct (existsb (Z.eqb c) (map fst new)); [reflexivity|exact Hn].
Qed.

(** ================= theorems over reachable states ================= *)
Theorem reach_agree pw st : reach pw st -> b_crashed (snd st) = false -> agree (snd st).
Proof. intros H Hc. destruct (reach_inv pw st H) as [H1|[H1 _]]; [congruence|exact H1]. Qed.

Lemma reg_get_entries b rk w : In w (reg_get (b_reg b) rk) -> exists q, In (rk, q) (b_reg b) /\ In w q.
Proof. apply reg_get_in. Qed.

(** waiter in the registry -> its connection is Blocked on that key, with that deadline *)
Theorem waiter_blocked pw st : reach pw st -> b_crashed (snd st) = false ->
  forall db k w, In w (reg_get (b_reg (snd st)) (db, k)) ->
  exists bst, zlookup (w_conn w) (b_blk (snd st)) = Some bst /\ bl_db bst = db /\ bmem k (bl_keys bst) = true
              /\ bl_dl bst = w_dl w /\ bl_left bst = w_left w.
Proof.
  intros H Hc db k w Hw. destruct (reach_agree pw st H Hc) as (A1 & _).
  destruct (reg_get_in _ _ _ Hw) as [q [H1 H2]].
  destruct (A1 _ _ _ H1 H2) as (bst & T1 & T2 & T3 & T4 & T5 & _). cbn [fst snd] in *.
  exists bst. repeat split; congruence.
Qed.
(** Blocked -> registered on every key of the call, or its wake-up is under way (and then it
    is registered nowhere) *)
Theorem blocked_waiter pw st : reach pw st -> b_crashed (snd st) = false ->
  forall c bst, zlookup c (b_blk (snd st)) = Some bst ->
  (forall k, bmem k (bl_keys bst) = true -> exists w, In w (reg_get (b_reg (snd st)) (bl_db bst, k)) /\ w_conn w = c)
  \/ (exists u, In u (b_wake (snd st)) /\ u_conn u = c /\ u_db u = bl_db bst /\ bmem (u_key u) (bl_keys bst) = true
                /\ forall rk q, In (rk, q) (b_reg (snd st)) -> cnt c q = O).
Proof.
  intros H Hc c bst Hb. destruct (reach_agree pw st H Hc) as (A1 & A2 & A3 & A4).
  destruct (wakes_for c (b_wake (snd st))) as [|u l] eqn:Ew.
  - left. intros k Hk. apply cnt_nonzero. eapply A4; eauto.
  - right. assert (Hin : In u (wakes_for c (b_wake (snd st)))) by (rewrite Ew; left; reflexivity).
    unfold wakes_for in Hin. apply filter_In in Hin. destruct Hin as [Hin Hcu]. apply Z.eqb_eq in Hcu.
    destruct (A2 u Hin) as (T5 & T6). rewrite Hcu in T6. destruct (T6 _ Hb) as (T2 & T3 & T4).
    exists u. split; [exact Hin|]. split; [exact Hcu|]. split; [exact T2|]. split; [exact T3|]. rewrite <- Hcu. exact T5.
Qed.
(** once served, timed out or gone (not Blocked): no registration; a wake-up can still be
    under way only for a connection that has gone away (it will put the element back) *)
Theorem no_leftover pw st : reach pw st -> b_crashed (snd st) = false ->
  forall c, zlookup c (b_blk (snd st)) = None ->
  (forall rk, cnt c (reg_get (b_reg (snd st)) rk) = O) /\
  (wakes_for c (b_wake (snd st)) = [] \/ zlookup c (s_conns (fst st)) = None).
Proof.
  intros H Hc c Hn. pose proof (not_blocked_clean _ c (reach_agree pw st H Hc) Hn) as H1. split.
  - intros rk. apply cnt_zero. intros w Hw. destruct (reg_get_in _ _ _ Hw) as [q [G1 G2]].
    pose proof (H1 _ _ G1) as Hz. rewrite cnt_zero in Hz. apply Hz. exact G2.
  - destruct (reach_inv pw st H) as [Hi|(_ & _ & HO & _)]; [congruence|].
    destruct (wakes_for c (b_wake (snd st))) as [|u l] eqn:Ew; [left; reflexivity|right].
    assert (Hin : In u (wakes_for c (b_wake (snd st)))) by (rewrite Ew; left; reflexivity).
    unfold wakes_for in Hin. apply filter_In in Hin. destruct Hin as [Hin Hcu]. apply Z.eqb_eq in Hcu.
    rewrite <- Hcu. apply HO; [exact Hin|rewrite Hcu; exact Hn].
Qed.
(** at most one wake-up per connection is under way *)
Theorem one_wakeup_each pw st : reach pw st -> b_crashed (snd st) = false -> NoDup (map u_conn (b_wake (snd st))).
Proof. intros H Hc. destruct (reach_agree pw st H Hc) as (_ & _ & A3 & _). exact A3. Qed.

(** timeouts: nil only, only to connections Blocked with a deadline that has passed, one each *)
Theorem timeouts_reply pw s b now : reach pw (s, b) -> b_crashed b = false ->
  let b' := snd (step (s, b) (ETimeouts now)) in
  exists new, wrote b b' new /\ NoDup (map fst new)
    /\ (forall c f, In (c, f) new ->
          f = FNullArray /\ zlookup c (b_blk b') = None /\
          exists bst d, zlookup c (b_blk b) = Some bst /\ bl_dl bst = Some d /\ d <= now)
    /\ (forall c, zlookup c (b_blk b) <> None -> zlookup c (b_blk b') = None -> In c (map fst new))
    /\ (forall c, zlookup c (b_blk b) = None -> zlookup c (b_blk b') = None).
Proof.
  intros H Hc. cbn [step]. rewrite Hc. cbn [snd]. apply process_timeouts_wrote. exact (reach_agree pw (s, b) H Hc).
Qed.
(** wake-ups: [key, element] only, only to connections Blocked on that key, one each *)
Theorem wakeups_reply pw s b now : reach pw (s, b) -> b_crashed b = false ->
  let b' := snd (step (s, b) (EWakeups now)) in
  exists new, wrote b b' new /\ NoDup (map fst new)
    /\ (forall c f, In (c, f) new -> delivery_of b c f /\ zlookup c (b_blk b') = None)
    /\ (forall c, zlookup c (b_blk b) <> None -> zlookup c (b_blk b') = None -> In c (map fst new))
    /\ (forall c, zlookup c (b_blk b) = None -> zlookup c (b_blk b') = None).
Proof.
  intros H Hc. cbn [step]. rewrite Hc. apply process_wakeups_wrote. exact (reach_agree pw (s, b) H Hc).
Qed.
(** a connection that is there and not Blocked has no wake-up under way *)
Lemma live_no_wake s b c cn :
  (forall u, In u (b_wake b) -> zlookup (u_conn u) (b_blk b) = None -> zlookup (u_conn u) (s_conns s) = None) ->
  zlookup c (s_conns s) = Some cn -> zlookup c (b_blk b) = None -> wakes_for c (b_wake b) = [].
Proof.
  intros HO Hc Hnb. apply wakes_for_nil. intros u Hu E. pose proof (HO u Hu) as G. rewrite E in G. specialize (G Hnb). congruence.
Qed.
(** a request: at most one reply, to the issuing connection; no reply exactly when the request
    was answered NoResponse, and only then can the connection have become Blocked; nobody else's
    Blocked state changes *)
Theorem frame_reply pw s b now c f oms : reach pw (s, b) -> b_crashed b = false ->
  ok (s, b) (EFrame now c f oms) = true ->
  let b' := snd (step (s, b) (EFrame now c f oms)) in
  exists rep, (match rep with FNoResponse => wrote b b' [] | _ => wrote b b' [(c, rep)] end)
              /\ blk_change c rep b b' /\ zlookup c (b_blk b) = None.
Proof.
  intros H Hc Hok. destruct (reach_inv pw _ H) as [Hi|(HA & H0 & HO & _)]; [cbn [snd] in Hi; congruence|].
  cbn [fst snd] in *. cbn [step ok] in *. rewrite Hc.
  destruct (zlookup c (s_conns s)) as [cn|] eqn:Hcn; [|discriminate].
  apply andb_true_iff in Hok. destruct Hok as [Hnb Hq].
  apply negb_true_iff in Hnb. apply is_blocked_false in Hnb.
  pose proof (live_no_wake s b c cn HO Hcn Hnb) as Hnw.
  unfold frame_step. destruct (bprocess_frame now s b c f None oms) as [[rep s'] b1] eqn:E. cbn [snd].
  destruct (bprocess_frame_inv _ _ _ _ _ _ _ _ _ _ _ HA H0 Hcn Hnb Hnw E) as (G1 & G3 & G4 & G5 & G6).
  exists rep. split; [|split; [|exact Hnb]].
  - unfold wrote. destruct rep; cbn [emit b_out rev app]; rewrite G5; reflexivity.
  - unfold blk_change in *. destruct rep; exact G6.
Qed.
(** the other events write nothing and wake nobody; connecting and going away change nobody's
    Blocked state; when the server notices the clients that went away their connections are
    Blocked no more (cleanup_connections), nobody else's state changes *)
Theorem connect_disconnect_silent s b e : b_crashed b = false ->
  (match e with EConnect _ | EDisconnect _ => True | _ => False end) ->
  b_out (snd (step (s, b) e)) = b_out b /\ b_blk (snd (step (s, b) e)) = b_blk b /\ b_wake (snd (step (s, b) e)) = b_wake b.
Proof.
  intros Hc He. cbn [step]. rewrite Hc. destruct e; try contradiction; cbn [snd]; (split; [reflexivity|split; reflexivity]).
Qed.
Theorem hangups_silent s b : b_crashed b = false ->
  let b' := snd (step (s, b) EHangups) in
  b_out b' = b_out b /\ b_wake b' = b_wake b /\
  forall c, zlookup c (b_blk b') = if existsb (Z.eqb c) (filter (noticed b) (b_dead b)) then None else zlookup c (b_blk b).
Proof.
  intros Hc. cbn [step]. rewrite Hc. cbn [snd]. unfold reap_dead.
  destruct (drop_fold (filter (noticed b) (b_dead b)) (with_dead b (filter (fun c => negb (noticed b c)) (b_dead b)))) as (_ & D2 & D3 & _ & _ & D6).
  split; [exact D3|]. split; [exact D2|exact D6].
Qed.

(** ---- the deadline of a blocking call is its arrival time plus its timeout; no timeout, no deadline ---- *)
Lemma fast_path_reply left : forall keys d r d', fast_path left d keys = (Some r, d') -> r <> FNoResponse.
Proof.
  induction keys as [|k keys IH]; intros d r d' H; cbn [fast_path] in H; [discriminate|].
  destruct (on_key d k (e_pop left)) as [r0 d0]. destruct r0; try (eapply IH; exact H); injection H as <- _; discriminate.
Qed.
Theorem blocking_call_deadline left now s b c dbi parts oms rep s' b' cn :
  zlookup c (s_conns s) = Some cn -> c <> 0 ->
  h_bpop left now s b c dbi parts oms = (rep, s', b') ->
  (rep <> FNoResponse /\ b' = b) \/
  (rep = FNoResponse /\ exists tmo keys,
     timeout_of (last parts FNull) oms = Some tmo /\
     zlookup c (b_blk b') = Some {| bl_db := dbi; bl_keys := keys; bl_dl := option_map (fun ms => now + ms) tmo; bl_left := left |}).
Proof.
  intros Hcn Hc0 H. unfold h_bpop in H.
  destruct (len parts <? 3); [left; injection H as <- _ <-; split; [discriminate|reflexivity]|].
  destruct (timeout_of (last parts FNull) oms) as [tmo|]; [|left; injection H as <- _ <-; split; [discriminate|reflexivity]].
  destruct (all_bulks (removelast (tl parts))) as [keys|]; [|left; injection H as <- _ <-; split; [discriminate|reflexivity]].
  destruct (fast_path left (get_db s dbi) keys) as [[r0|] d'] eqn:Ef.
  - left. injection H as <- _ <-. split; [eapply fast_path_reply; exact Ef|reflexivity].
  - right. replace (c =? 0) with false in H by lia. rewrite Hcn in H. injection H as <- _ <-. split; [reflexivity|]. exists tmo, keys. split; [reflexivity|].
    cbn [set_blocked with_blk with_seq b_blk]. apply zlookup_zset_same.
Qed.
Lemma timeout_of_forever arg oms : timeout_of arg oms = Some None ->
  exists t, arg = FBulk t /\ (match oms with Some z => z | None => simple_timeout t end) = 0.
Proof.
  unfold timeout_of. destruct arg; try discriminate. intros H. exists b. split; [reflexivity|].
  destruct (_ <? 0); [discriminate|]. destruct (_ =? 0) eqn:E; [lia|discriminate].
Qed.

(** ================= the queue of a key: the operations ================= *)
(** a blocking call joins at the back of every queue it names (the order and the history
    property are in BlockingFifo.v) *)
Theorem fifo_join_back db c left dl at_ keys r rk :
  exists n, reg_get (register r db c keys left dl at_) rk = reg_get r rk ++ repeat (mkw c dl left at_) n
            /\ (n <> O <-> (fst rk = db /\ bmem (snd rk) keys = true)).
Proof. apply reg_get_register. Qed.
(** a push serves the HEAD of the key's queue: its wake-up goes to the back of the wake queue,
    the others keep their order (the served connection leaves every queue of that database) *)
Theorem fifo_serve_head b db k w q :
  reg_get (b_reg b) (db, k) = w :: q ->
  let b' := notify_key_ready b db k in
  b_wake b' = b_wake b ++ [{| u_conn := w_conn w; u_db := db; u_key := k; u_left := w_left w; u_at := w_at w |}]
  /\ reg_get (b_reg b') (db, k) = filter (not_conn (w_conn w)) q
  /\ forall k2, rk_eqb (db, k2) (db, k) = false ->
       reg_get (b_reg b') (db, k2) = filter (not_conn (w_conn w)) (reg_get (b_reg b) (db, k2)).
Proof.
  intros Hg. cbv zeta. unfold notify_key_ready. rewrite Hg. cbn [with_wake with_reg b_wake b_reg].
  split; [reflexivity|]. split.
  - rewrite reg_get_unregister. cbn [fst]. rewrite Z.eqb_refl, reg_get_put_same. reflexivity.
  - intros k2 Hne. rewrite reg_get_unregister. cbn [fst]. rewrite Z.eqb_refl, reg_get_put_other by exact Hne. reflexivity.
Qed.
(** timeouts and cleanups only take waiters out: the others keep their order *)
Theorem fifo_expire_keeps_order now r rk : reg_get (snd (expire_reg now r)) rk = filter (live_w now) (reg_get r rk).
Proof. apply reg_get_expire. Qed.
Theorem fifo_unregister_keeps_order r db c rk :
  reg_get (unregister r db c) rk = if fst rk =? db then filter (not_conn c) (reg_get r rk) else reg_get r rk.
Proof. apply reg_get_unregister. Qed.
(** the wake queue is served from the front, 32 at a time; what the wake-ups themselves add
    (the re-notification after an element was put back) joins its back *)
Theorem fifo_wake_queue now s b :
  exists ex, b_wake (snd (process_wakeups now s b)) = skipn 32 (b_wake b) ++ ex.
Proof. exact (proj1 (proj2 (process_wakeups_misc now s b))). Qed.

(** ================= the runner's functions are sequences of steps ================= *)
Lemma h_bpop_crashed left now s b c dbi parts oms rep s' b' :
  h_bpop left now s b c dbi parts oms = (rep, s', b') -> b_crashed b' = b_crashed b.
Proof.
  intros H. unfold h_bpop in H.
  destruct (len parts <? 3); [injection H as _ _ <-; reflexivity|].
  destruct (timeout_of (last parts FNull) oms); [|injection H as _ _ <-; reflexivity].
  destruct (all_bulks (removelast (tl parts))); [|injection H as _ _ <-; reflexivity].
  destruct (fast_path left (get_db s dbi) l) as [[r|] d']; [injection H as _ _ <-; reflexivity|].
  destruct (c =? 0); [injection H as _ _ <-; reflexivity|].
  destruct (zlookup c (s_conns s)); injection H as _ _ <-; reflexivity.
Qed.
Lemma bnormal_crashed now s b c dbi parts o oms rep s' b' :
  bnormal now s b c dbi parts o oms = (rep, s', b') -> b_crashed b' = b_crashed b.
Proof.
  intros H. unfold bnormal in H.
  destruct parts as [|p rest]; [destruct (normal_command now s c dbi [] o); injection H as _ _ <-; reflexivity|].
  destruct p; try (destruct (normal_command now s c dbi _ o); injection H as _ _ <-; reflexivity).
  destruct (beq (upper b0) (bs "BLPOP")); [eapply h_bpop_crashed; exact H|].
  destruct (beq (upper b0) (bs "BRPOP")); [eapply h_bpop_crashed; exact H|].
  destruct (normal_command now s c dbi (FBulk b0 :: rest) o) as [r s1]. injection H as _ _ <-.
  destruct (notify_after_push_fields b dbi (upper b0) (FBulk b0 :: rest) r) as (_ & _ & F & _).
  cbv zeta. destruct (beq (upper b0) _); [|exact F].
  destruct (notify_after_script_fields s1 (notify_after_push b dbi (upper b0) (FBulk b0 :: rest) r) dbi (FBulk b0 :: rest)) as (_ & _ & K & _).
  congruence.
Qed.
Lemma bexec_queue_crashed now c : forall q s b dbi acc reps s' b',
  bexec_queue now s b c dbi q acc = (reps, s', b') -> b_crashed b' = b_crashed b.
Proof.
  induction q as [|parts q IH]; intros s b dbi acc reps s' b' H; cbn [bexec_queue] in H.
  - injection H as _ _ <-. reflexivity.
  - destruct (beq (queued_name parts) (bs "SELECT")).
    + destruct (bnormal now s b c dbi parts None None) as [[rep s1] b1] eqn:En.
      rewrite (IH _ _ _ _ _ _ _ H). eapply bnormal_crashed; exact En.
    + destruct (bnormal now s b 0 dbi parts None None) as [[rep s1] b1] eqn:En.
      rewrite (IH _ _ _ _ _ _ _ H). eapply bnormal_crashed; exact En.
Qed.
Lemma bprocess_frame_crashed now s b c f o oms rep s' b' :
  bprocess_frame now s b c f o oms = (rep, s', b') -> b_crashed b' = b_crashed b.
Proof.
  intros H. unfold bprocess_frame in H.
  assert (Pass : (let (r, s'0) := process_frame now s c f o in (r, s'0, b)) = (rep, s', b') -> b_crashed b' = b_crashed b).
  { destruct (process_frame now s c f o). intros E. injection E as _ _ <-. reflexivity. }
  destruct f as [| | | | |l| | | | | | |]; try (apply Pass; exact H).
  destruct l as [|first rest]; [apply Pass; exact H|].
  destruct first as [| | |nm| | | | | | | | |]; try (apply Pass; exact H).
  destruct (zlookup c (s_conns s)) as [cn|]; [|apply Pass; exact H].
  destruct (_ && negb (c_auth cn)); [apply Pass; exact H|].
  destruct (c_intx cn && _); [apply Pass; exact H|].
  destruct (beq (upper (trim nm)) (bs "MULTI")); [apply Pass; exact H|].
  destruct (beq (upper (trim nm)) (bs "EXEC")).
  { unfold bh_exec in H. cbv zeta in H. destruct (negb (c_intx cn)); [injection H as _ _ <-; reflexivity|].
    destruct (watch_violated now s cn); [injection H as _ _ <-; reflexivity|].
    revert H. destruct (bexec_queue _ _ _ _ _ _ _) as [[reps s2] b2] eqn:E. intros H. injection H as _ _ <-.
    eapply bexec_queue_crashed; exact E. }
  destruct (_ || _ || _ || _); [apply Pass; exact H|].
  eapply bnormal_crashed; exact H.
Qed.
Lemma frame_step_crashed now s b c f oms : b_crashed (snd (frame_step now s b c f oms)) = b_crashed b.
Proof.
  unfold frame_step. destruct (bprocess_frame now s b c f None oms) as [[rep s'] b'] eqn:E. cbn [snd].
  rewrite <- (bprocess_frame_crashed _ _ _ _ _ _ _ _ _ _ E). destruct rep; reflexivity.
Qed.
(** process_connection (939522b): the frames of one read are EFrame steps of that connection,
    in order, UP TO the first one that leaves the connection Blocked; what follows that one is
    not processed: it is kept, in order, in front of what the connection had already deferred *)
Definition evs_of (now c : Z) (fs : list (frame * option Z)) : list event :=
  map (fun fo => EFrame now c (fst fo) (snd fo)) fs.
Theorem serve_batch_is_run : forall fs now s b c,
  b_crashed b = false -> forallb (fun fo => negb (is_quit (fst fo))) fs = true ->
  exists done rest, fs = done ++ rest /\
    serve_batch now s b c fs false =
      (fst (run (s, b) (evs_of now c done)), defer (snd (run (s, b) (evs_of now c done))) c rest) /\
    (rest = [] \/ is_blocked (snd (run (s, b) (evs_of now c done))) c = true) /\
    (forall d1 fo d2, done = d1 ++ fo :: d2 -> d2 <> [] ->
       is_blocked (snd (run (s, b) (evs_of now c (d1 ++ [fo])))) c = false).
Proof.
  induction fs as [|[f oms] fs IH]; intros now s b c Hc Hq.
  - exists [], []. cbn [serve_batch evs_of map run fold_left fst snd defer finish_batch app].
    split; [reflexivity|]. split; [reflexivity|]. split; [left; reflexivity|].
    intros d1 fo d2 E. destruct d1; discriminate.
  - cbn [forallb fst] in Hq. apply andb_true_iff in Hq. destruct Hq as [Hq1 Hq2]. apply negb_true_iff in Hq1.
    cbn [serve_batch].
    pose proof (frame_step_crashed now s b c f oms) as Hcr.
    assert (Est : step (s, b) (EFrame now c f oms) = frame_step now s b c f oms) by (cbn [step]; rewrite Hc; reflexivity).
    unfold frame_step in Hcr, Est.
    destruct (bprocess_frame now s b c f None oms) as [[rep s'] b'] eqn:E. cbn [snd] in Hcr.
    rewrite Hq1. cbn [orb].
    set (b'' := match rep with FNoResponse => b' | _ => emit b' c rep end) in *.
    destruct (is_blocked b'' c) eqn:Eb.
    + exists [(f, oms)], fs. split; [reflexivity|].
      unfold evs_of. cbn [map run fold_left fst snd]. rewrite Est. cbn [fst snd finish_batch].
      split; [reflexivity|]. split; [right; exact Eb|].
      intros d1 fo d2 E1 Hne. destruct d1 as [|x d1]; cbn [app] in E1; [injection E1 as _ <-; congruence|].
      injection E1 as _ E1. destruct d1; discriminate.
    + destruct (IH now s' b'' c) as (done & rest & F1 & F2 & F3 & F4); [congruence|exact Hq2|].
      exists ((f, oms) :: done), rest. split; [cbn [app]; rewrite F1; reflexivity|].
      unfold evs_of in *. cbn [map run fold_left fst snd]. rewrite Est. fold (run (s', b'')).
      split; [exact F2|]. split; [exact F3|].
      intros d1 fo d2 E1 Hne. destruct d1 as [|x d1]; cbn [app] in E1.
      * injection E1 as <- _. unfold run. cbn [app map fold_left fst snd]. rewrite Est. exact Eb.
      * injection E1 as <- E1. unfold run. cbn [app map fold_left fst snd]. rewrite Est. exact (F4 d1 fo d2 E1 Hne).
Qed.
(** while a connection is Blocked nothing it sent is read *)
Theorem blocked_not_read now s b c fs : is_blocked b c = true -> conn_step now (s, b) (c, fs) = (s, b).
Proof. intros H. unfold conn_step. cbn [fst snd]. rewrite H. reflexivity. Qed.
(** one iteration of Server::run is: the wake-up step, the reads of the connections that are
    not blocked, the timeout step *)
Theorem iteration_phases now s b : b_crashed b = false ->
  iteration now (s, b) =
    (let sb1 := step (s, b) (EWakeups now) in
     if b_crashed (snd sb1) then sb1 else
     let sb2 := process_conns now (fst sb1) (snd sb1) in
     (fst sb2, process_timeouts now (snd sb2))).
Proof.
  intros Hc. unfold iteration. cbn [fst snd step]. rewrite Hc.
  destruct (process_wakeups now s b) as [s1 b1]. cbn [fst snd]. destruct (b_crashed b1); [reflexivity|].
  destruct (process_conns now s1 b1) as [s2 b2]. reflexivity.
Qed.

(** ================= the event loop never ends (since repair e1d4020) ================= *)
Lemma wake_client_crashed now s b u : b_crashed (snd (wake_client now s b u)) = b_crashed b.
Proof. apply wake_client_crashed0. Qed.
Lemma wake_fold_crashed now : forall l sb, b_crashed (snd (fold_left (wake_step now) l sb)) = b_crashed (snd sb).
Proof.
  induction l as [|u l IH]; intros sb; cbn [fold_left]; [reflexivity|]. rewrite IH.
  unfold wake_step. destruct (b_crashed (snd sb)) eqn:E; [exact E|]. rewrite wake_client_crashed. exact E.
Qed.
Lemma step_crashed st e : b_crashed (snd (step st e)) = b_crashed (snd st).
Proof.
  destruct st as [s b]. cbn [step snd]. destruct (b_crashed b) eqn:Ec; [exact Ec|].
  destruct e as [now c f oms|now|now|c|c|]; cbn [snd].
  - rewrite frame_step_crashed. exact Ec.
  - unfold process_wakeups. rewrite wake_fold_crashed. exact Ec.
  - unfold process_timeouts. destruct (expire_reg now (b_reg b)) as [ex r']. destruct (timeout_fold ex (with_reg b r')) as (_ & _ & T & _). rewrite T. exact Ec.
  - exact Ec.
  - exact Ec.
  - unfold reap_dead. destruct (drop_fold (filter (noticed b) (b_dead b)) (with_dead b (filter (fun c => negb (noticed b c)) (b_dead b)))) as (_ & _ & _ & D & _).
    rewrite D. exact Ec.
Qed.
Theorem never_crashes pw st : reach pw st -> b_crashed (snd st) = false.
Proof. induction 1; [reflexivity|]. rewrite step_crashed. exact IHreach. Qed.
