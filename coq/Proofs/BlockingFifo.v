(** C13: FIFO service as a property of the history.  Every registration carries the stamp of
    the blocking call it belongs to; stamps are handed out in the order the calls block
    ([seq_counts]: the stamp is the number of calls that blocked before), they are never changed
    while the call waits ([stamps_step]), every queue is in stamp order ([fifo_reach]) and a push
    serves the head of the queue (BlockingFacts.fifo_serve_head): clients are served in the order
    they blocked. *)
From Ferrous Require Import Base.Bytes Generated Model.Resp Model.Types Model.Strings Model.Lists
  Model.Server Model.Blocking Spec.BlockingSpec Proofs.BytesFacts Proofs.StringsFacts Proofs.ServerFacts
  Proofs.BlockingFacts.
From Coq Require Import ZifyBool Lia Sorted.
Open Scope Z_scope.

(** ================= queues in stamp order ================= *)
Definition qbelow (n : Z) (q : list waiter) : Prop := Forall (fun w => w_at w < n) q.
Lemma qsorted_filter f q : in_blocking_order q -> in_blocking_order (filter f q).
Proof.
  induction q as [|a q IH]; intros H; cbn [filter]; [constructor|].
  apply StronglySorted_inv in H. destruct H as [Hs Hf]. destruct (f a); [|apply IH; exact Hs].
  constructor; [apply IH; exact Hs|]. rewrite Forall_forall in *. intros x Hx. apply Hf. apply filter_In in Hx. tauto.
Qed.
Lemma qbelow_filter n f q : qbelow n q -> qbelow n (filter f q).
Proof. unfold qbelow. rewrite !Forall_forall. intros H x Hx. apply H. apply filter_In in Hx. tauto. Qed.
Lemma qsorted_snoc q w : in_blocking_order q -> Forall (fun x => w_at x <= w_at w) q -> in_blocking_order (q ++ [w]).
Proof.
  induction q as [|a q IH]; intros H HF; cbn [app]; [constructor; constructor|].
  apply StronglySorted_inv in H. destruct H as [Hs Hf]. apply Forall_cons_iff in HF. destruct HF as [Ha HF].
  constructor; [apply IH; assumption|]. apply Forall_app. split; [exact Hf|]. constructor; [exact Ha|constructor].
Qed.
Lemma forall_ins_at (P : waiter -> Prop) w q : P w -> Forall P q -> Forall P (ins_at w q).
Proof.
  intros Hw H. apply Forall_forall. intros x Hx. apply in_ins_at in Hx. destruct Hx as [->|Hx]; [exact Hw|].
  rewrite Forall_forall in H. apply H. exact Hx.
Qed.
(** reregister_blocked (8ab686d): the client goes back in front of everybody who blocked later *)
Lemma qsorted_ins_at w q : in_blocking_order q -> in_blocking_order (ins_at w q).
Proof.
  induction q as [|x t IH]; intros H; cbn [ins_at]; [constructor; constructor|].
  apply StronglySorted_inv in H. destruct H as [Ht Hx].
  destruct (w_at w <? w_at x) eqn:E.
  - constructor; [constructor; assumption|]. constructor; [unfold stamp_le; lia|].
    rewrite Forall_forall in *. intros y Hy. specialize (Hx y Hy). unfold stamp_le in *. lia.
  - constructor; [apply IH; exact Ht|]. apply forall_ins_at; [unfold stamp_le; lia|exact Hx].
Qed.

Definition fifo_reg (n : Z) (r : registry) : Prop := forall rk, in_blocking_order (reg_get r rk) /\ qbelow n (reg_get r rk).
Definition fifo_ok (b : blocking) : Prop :=
  fifo_reg (b_seq b) (b_reg b) /\ Forall (fun u => u_at u < b_seq b) (b_wake b).

Lemma fifo_reg_mono n m r : n <= m -> fifo_reg n r -> fifo_reg m r.
Proof.
  intros Hle H rk. destruct (H rk) as [H1 H2]. split; [exact H1|]. unfold qbelow in *. rewrite Forall_forall in *.
  intros x Hx. specialize (H2 x Hx). lia.
Qed.
Lemma fifo_reg_put n r k q : fifo_reg n r -> in_blocking_order q -> qbelow n q -> fifo_reg n (reg_put r k q).
Proof.
  intros H Hs Hb rk. destruct (rk_eqb rk k) eqn:E.
  - apply rk_eqb_eq in E. subst. rewrite reg_get_put_same. split; assumption.
  - rewrite reg_get_put_other by exact E. apply H.
Qed.
Lemma fifo_reg_unregister n r db c : fifo_reg n r -> fifo_reg n (unregister r db c).
Proof.
  intros H rk. rewrite reg_get_unregister. destruct (fst rk =? db); [|apply H]. destruct (H rk).
  split; [apply qsorted_filter|apply qbelow_filter]; assumption.
Qed.
Lemma fifo_reg_unregister_all n r c : fifo_reg n r -> fifo_reg n (unregister_all r c).
Proof. intros H rk. rewrite reg_get_unregister_all. destruct (H rk). split; [apply qsorted_filter|apply qbelow_filter]; assumption. Qed.
Lemma fifo_reg_expire n now r : fifo_reg n r -> fifo_reg n (snd (expire_reg now r)).
Proof. intros H rk. rewrite reg_get_expire. destruct (H rk). split; [apply qsorted_filter|apply qbelow_filter]; assumption. Qed.
(** a new call gets the next stamp and joins at the back: the order is kept *)
Lemma fifo_reg_register n db c left dl : forall keys r, fifo_reg (n + 1) r -> fifo_reg (n + 1) (register r db c keys left dl n).
Proof.
  induction keys as [|k keys IH]; intros r H; [exact H|].
  change (register r db c (k :: keys) left dl n) with
    (register (reg_put r (db, k) (reg_get r (db, k) ++ [mkw c dl left n])) db c keys left dl n).
  apply IH. destruct (H (db, k)) as [Hs Hb]. apply fifo_reg_put; [exact H| |].
  - apply qsorted_snoc; [exact Hs|]. unfold qbelow in Hb. rewrite Forall_forall in *. intros x Hx. specialize (Hb x Hx). cbn [mkw w_at]. lia.
  - apply Forall_app. split; [exact Hb|]. constructor; [cbn [mkw w_at]; lia|constructor].
Qed.
Lemma fifo_reg_reregister n db c left dl a : a < n -> forall keys r, fifo_reg n r -> fifo_reg n (reregister r db c keys left dl a).
Proof.
  intros Ha. induction keys as [|k keys IH]; intros r H; [exact H|].
  change (reregister r db c (k :: keys) left dl a) with
    (reregister (reg_put r (db, k) (ins_at (mkw c dl left a) (reg_get r (db, k)))) db c keys left dl a).
  apply IH. destruct (H (db, k)) as [Hs Hb]. apply fifo_reg_put; [exact H|apply qsorted_ins_at; exact Hs|].
  apply forall_ins_at; [cbn [mkw w_at]; exact Ha|exact Hb].
Qed.
(** ================= one relation for everything a request does ================= *)
(** [FR c0 b b']: the order is kept; stamps only grow; a stamp found afterwards was there before
    (with the same connection) or is a fresh one of connection c0 *)
Definition FR (c0 : Z) (b b' : blocking) : Prop :=
  (fifo_ok b -> fifo_ok b') /\ b_seq b <= b_seq b' /\
  forall c t, stamp_in b' c t -> stamp_in b c t \/ (c = c0 /\ c0 <> 0 /\ b_seq b <= t < b_seq b').
Lemma FR_same c0 b b' : b_reg b' = b_reg b -> b_wake b' = b_wake b -> b_seq b' = b_seq b -> FR c0 b b'.
Proof.
  intros E1 E2 E3. unfold FR, fifo_ok, stamp_in. rewrite E1, E2, E3. split; [auto|]. split; [lia|]. intros c t H. left. exact H.
Qed.
Lemma FR_refl c0 b : FR c0 b b.
Proof. apply FR_same; reflexivity. Qed.
Lemma FR_trans c0 b1 b2 b3 : FR c0 b1 b2 -> FR c0 b2 b3 -> FR c0 b1 b3.
Proof.
  intros (A1 & A2 & A3) (B1 & B2 & B3). split; [auto|]. split; [lia|].
  intros c t H. destruct (B3 c t H) as [G|(G1 & G2 & G3)]; [|right; split; [exact G1|split; [exact G2|lia]]].
  destruct (A3 c t G) as [K|(K1 & K2 & K3)]; [left; exact K|right; split; [exact K1|split; [exact K2|lia]]].
Qed.
Lemma FR_zero c b b' : FR 0 b b' -> FR c b b'.
Proof.
  intros (A1 & A2 & A3). split; [exact A1|]. split; [exact A2|]. intros c1 t H.
  destruct (A3 c1 t H) as [G|(_ & G & _)]; [left; exact G|congruence].
Qed.

Lemma notify_key_ready_seq b db k : b_seq (notify_key_ready b db k) = b_seq b.
Proof. unfold notify_key_ready. destruct (reg_get (b_reg b) (db, k)); reflexivity. Qed.
Lemma notify_key_ready_in b db k rk w :
  In w (reg_get (b_reg (notify_key_ready b db k)) rk) -> In w (reg_get (b_reg b) rk).
Proof.
  unfold notify_key_ready. destruct (reg_get (b_reg b) (db, k)) as [|w0 q] eqn:Eg; [auto|].
  cbn [with_wake with_reg b_reg]. rewrite reg_get_unregister. intros H.
  assert (H1 : In w (reg_get (reg_put (b_reg b) (db, k) q) rk)) by (destruct (fst rk =? db); [eapply in_filter_sub; exact H|exact H]).
  destruct (rk_eqb rk (db, k)) eqn:E.
  - apply rk_eqb_eq in E. subst rk. rewrite reg_get_put_same in H1. rewrite Eg. right. exact H1.
  - rewrite reg_get_put_other in H1 by exact E. exact H1.
Qed.
Lemma FR_notify_key_ready c0 b db k : FR c0 b (notify_key_ready b db k).
Proof.
  split; [|split; [rewrite notify_key_ready_seq; lia|]].
  - intros [H1 H2]. unfold fifo_ok. rewrite notify_key_ready_seq. unfold notify_key_ready.
    destruct (reg_get (b_reg b) (db, k)) as [|w q] eqn:Eg; [split; assumption|].
    cbn [with_wake with_reg b_reg b_wake]. destruct (H1 (db, k)) as [Hs Hb]. rewrite Eg in Hs, Hb.
    apply StronglySorted_inv in Hs. apply Forall_cons_iff in Hb. split.
    + apply fifo_reg_unregister. apply fifo_reg_put; [exact H1|exact (proj1 Hs)|exact (proj2 Hb)].
    + apply Forall_app. split; [exact H2|]. constructor; [exact (proj1 Hb)|constructor].
  - intros c t [(rk & w & G1 & G2 & G3)|(u & G1 & G2 & G3)].
    + left. left. exists rk, w. split; [eapply notify_key_ready_in; exact G1|split; assumption].
    + left. unfold notify_key_ready in G1. destruct (reg_get (b_reg b) (db, k)) as [|w q] eqn:Eg; [right; exists u; auto|].
      cbn [with_wake with_reg b_wake] in G1. apply in_app_or in G1. destruct G1 as [G1|[G1|[]]]; [right; exists u; auto|].
      left. exists (db, k), w. rewrite Eg. subst u. cbn [u_conn u_at] in *. split; [left; reflexivity|split; assumption].
Qed.
Lemma FR_notify_n c0 n : forall b db k, FR c0 b (notify_n n b db k).
Proof.
  induction n as [|n IH]; intros b db k; cbn [notify_n]; [apply FR_refl|].
  destruct (reg_get (b_reg b) (db, k)); [apply FR_refl|]. eapply FR_trans; [apply FR_notify_key_ready|apply IH].
Qed.
Lemma FR_notify_after_push c0 b dbi name parts r : FR c0 b (notify_after_push b dbi name parts r).
Proof.
  unfold notify_after_push. destruct (is_push_name name); [|apply FR_refl].
  destruct r; try apply FR_refl. destruct parts as [|? [|[] [|? ?]]]; try apply FR_refl.
  destruct (0 <? z); [|apply FR_refl]. apply FR_notify_n.
Qed.
Lemma FR_notify_after_script c0 s b dbi parts : FR c0 b (notify_after_script s b dbi parts).
Proof.
  unfold notify_after_script. generalize (firstn (match nth_error parts 2 with
    | Some (FBulk t) => match parse_usize t with Some n => Z.to_nat n | None => O end | _ => O end) (skipn 3 parts)).
  intros l. revert b. induction l as [|f l IH]; intros b; cbn [fold_left]; [apply FR_refl|].
  destruct f; try apply IH. eapply FR_trans; [apply FR_notify_n|apply IH].
Qed.
Lemma in_repeat {A} (x y : A) n : In y (repeat x n) -> y = x.
Proof. induction n as [|n IH]; cbn [repeat]; [intros []|intros [H|H]; [congruence|apply IH; exact H]]. Qed.
Lemma FR_h_bpop left now s b c dbi parts oms rep s' b' :
  h_bpop left now s b c dbi parts oms = (rep, s', b') -> FR c b b'.
Proof.
  intros H. unfold h_bpop in H.
  destruct (len parts <? 3); [injection H as _ _ <-; apply FR_refl|].
  destruct (timeout_of (last parts FNull) oms) as [tmo|]; [|injection H as _ _ <-; apply FR_refl].
  destruct (all_bulks (removelast (tl parts))) as [keys|]; [|injection H as _ _ <-; apply FR_refl].
  destruct (fast_path left (get_db s dbi) keys) as [[r|] d']; [injection H as _ _ <-; apply FR_refl|].
  destruct (c =? 0) eqn:Ec0; [injection H as _ _ <-; apply FR_refl|].
  assert (Main : forall bx, b_reg bx = register (b_reg b) dbi c keys left (option_map (fun ms => now + ms) tmo) (b_seq b) ->
            b_wake bx = b_wake b -> b_seq bx = b_seq b + 1 -> FR c b bx).
  { intros bx E1 E2 E3. split; [|split; [lia|]].
    - intros [H1 H2]. unfold fifo_ok. rewrite E1, E2, E3. split.
      + apply fifo_reg_register. eapply fifo_reg_mono; [|exact H1]. lia.
      + eapply Forall_impl; [|exact H2]. cbn beta. intros u Hu. lia.
    - intros c1 t [(rk & w & G1 & G2 & G3)|(u & G1 & G2 & G3)].
      + rewrite E1 in G1. destruct (reg_get_register dbi c left (option_map (fun ms => now + ms) tmo) (b_seq b) keys (b_reg b) rk) as [n [Hn _]].
        rewrite Hn in G1. apply in_app_or in G1. destruct G1 as [G1|G1]; [left; left; exists rk, w; auto|].
        apply in_repeat in G1. subst w. cbn [mkw w_conn w_at] in *. right. split; [congruence|]. split; [lia|lia].
      + left. right. exists u. rewrite E2 in G1. auto. }
  destruct (zlookup c (s_conns s)); injection H as _ _ <-; apply Main; reflexivity.
Qed.
Lemma FR_bnormal now s b c dbi parts o oms rep s' b' :
  bnormal now s b c dbi parts o oms = (rep, s', b') -> FR c b b'.
Proof.
  intros H. unfold bnormal in H.
  destruct parts as [|p rest]; [destruct (normal_command now s c dbi [] o); injection H as _ _ <-; apply FR_refl|].
  destruct p; try (destruct (normal_command now s c dbi _ o); injection H as _ _ <-; apply FR_refl).
  destruct (beq (upper b0) (bs "BLPOP")); [eapply FR_h_bpop; exact H|].
  destruct (beq (upper b0) (bs "BRPOP")); [eapply FR_h_bpop; exact H|].
  destruct (normal_command now s c dbi (FBulk b0 :: rest) o) as [r s1]. injection H as _ _ <-. cbv zeta.
  destruct (beq (upper b0) _); [|apply FR_notify_after_push].
  eapply FR_trans; [apply FR_notify_after_push|apply FR_notify_after_script].
Qed.
Lemma FR_bexec_queue now c : forall q s b dbi acc reps s' b',
  bexec_queue now s b c dbi q acc = (reps, s', b') -> FR c b b'.
Proof.
  induction q as [|parts q IH]; intros s b dbi acc reps s' b' H; cbn [bexec_queue] in H.
  - injection H as _ _ <-. apply FR_refl.
  - destruct (beq (queued_name parts) (bs "SELECT")).
    + destruct (bnormal now s b c dbi parts None None) as [[rep s1] b1] eqn:En.
      eapply FR_trans; [eapply FR_bnormal; exact En|eapply IH; exact H].
    + destruct (bnormal now s b 0 dbi parts None None) as [[rep s1] b1] eqn:En.
      eapply FR_trans; [apply FR_zero; eapply FR_bnormal; exact En|eapply IH; exact H].
Qed.
Lemma FR_bprocess_frame now s b c f o oms rep s' b' :
  bprocess_frame now s b c f o oms = (rep, s', b') -> FR c b b'.
Proof.
  intros H. unfold bprocess_frame in H.
  assert (Pass : (let (r, s'0) := process_frame now s c f o in (r, s'0, b)) = (rep, s', b') -> FR c b b').
  { destruct (process_frame now s c f o). intros E. injection E as _ _ <-. apply FR_refl. }
  destruct f as [| | | | |l| | | | | | |]; try (apply Pass; exact H).
  destruct l as [|first rest]; [apply Pass; exact H|].
  destruct first as [| | |nm| | | | | | | | |]; try (apply Pass; exact H).
  destruct (zlookup c (s_conns s)) as [cn|]; [|apply Pass; exact H].
  destruct (_ && negb (c_auth cn)); [apply Pass; exact H|].
  destruct (c_intx cn && _); [apply Pass; exact H|].
  destruct (beq (upper (trim nm)) (bs "MULTI")); [apply Pass; exact H|].
  destruct (beq (upper (trim nm)) (bs "EXEC")).
  { unfold bh_exec in H. cbv zeta in H. destruct (negb (c_intx cn)); [injection H as _ _ <-; apply FR_refl|].
    destruct (watch_violated now s cn); [injection H as _ _ <-; apply FR_refl|].
    revert H. destruct (bexec_queue _ _ _ _ _ _ _) as [[reps s2] b2] eqn:E. intros H. injection H as _ _ <-.
    eapply FR_bexec_queue; exact E. }
  destruct (_ || _ || _ || _); [apply Pass; exact H|].
  eapply FR_bnormal; exact H.
Qed.

(** ================= wake-ups, timeouts, hang-ups ================= *)
Lemma fifo_reg_notify n b db k : fifo_reg n (b_reg b) -> fifo_reg n (b_reg (notify_key_ready b db k)).
Proof.
  intros H1. unfold notify_key_ready. destruct (reg_get (b_reg b) (db, k)) as [|w q] eqn:Eg; [exact H1|].
  cbn [with_wake with_reg b_reg]. destruct (H1 (db, k)) as [Hs Hb]. rewrite Eg in Hs, Hb.
  apply StronglySorted_inv in Hs. apply Forall_cons_iff in Hb.
  apply fifo_reg_unregister. apply fifo_reg_put; [exact H1|exact (proj1 Hs)|exact (proj2 Hb)].
Qed.
(** where a registration or a wake-up comes from: a registration, or one of the wake-ups being handled *)
Definition src (b : blocking) (l : list wakeup) (c t : Z) : Prop :=
  (exists rk w, In w (reg_get (b_reg b) rk) /\ w_conn w = c /\ w_at w = t) \/
  (exists u, In u l /\ u_conn u = c /\ u_at u = t).
(** the notifications a wake-up that found nothing makes once the client is registered again *)
Lemma renotify_seq d dbi : forall keys b, b_seq (renotify d b dbi keys) = b_seq b.
Proof.
  induction keys as [|k keys IH]; intros b; [reflexivity|]. rewrite renotify_cons, IH.
  destruct (llen_of d k); [reflexivity|apply notify_key_ready_seq].
Qed.
Lemma fifo_reg_renotify n d dbi : forall keys b, fifo_reg n (b_reg b) -> fifo_reg n (b_reg (renotify d b dbi keys)).
Proof.
  induction keys as [|k keys IH]; intros b H; [exact H|]. rewrite renotify_cons. apply IH.
  destruct (llen_of d k); [exact H|apply fifo_reg_notify; exact H].
Qed.
Lemma renotified_l_src d dbi : forall keys b x, In x (renotified_l d b dbi keys) ->
  exists rk w, In w (reg_get (b_reg b) rk) /\ w_conn w = u_conn x /\ w_at w = u_at x.
Proof.
  induction keys as [|k keys IH]; intros b x Hx; cbn [renotified_l] in Hx; [destruct Hx|].
  destruct (llen_of d k); [apply IH; exact Hx|]. apply in_app_or in Hx. destruct Hx as [Hx|Hx].
  - unfold renotified in Hx. destruct (reg_get (b_reg b) (dbi, k)) as [|w q] eqn:Eg; [destruct Hx|].
    destruct Hx as [<-|[]]. exists (dbi, k), w. rewrite Eg. split; [left; reflexivity|split; reflexivity].
  - destruct (IH _ _ Hx) as (rk & w & K1 & K2 & K3). exists rk, w. split; [eapply notify_key_ready_in; exact K1|split; assumption].
Qed.
Lemma wake_client_fifo now s b u :
  b_seq (snd (wake_client now s b u)) = b_seq b /\
  (fifo_reg (b_seq b) (b_reg b) -> u_at u < b_seq b -> fifo_reg (b_seq b) (b_reg (snd (wake_client now s b u)))) /\
  (forall rk w, In w (reg_get (b_reg (snd (wake_client now s b u))) rk) ->
                In w (reg_get (b_reg b) rk) \/ (w_conn w = u_conn u /\ w_at w = u_at u)) /\
  exists ex, b_wake (snd (wake_client now s b u)) = b_wake b ++ ex /\
             forall x, In x ex -> (exists rk w, In w (reg_get (b_reg b) rk) /\ w_conn w = u_conn x /\ w_at w = u_at x)
                                  \/ (u_conn x = u_conn u /\ u_at x = u_at u).
Proof.
  unfold wake_client. destruct (on_key _ (u_key u) (e_pop (u_left u))) as [r d'].
  assert (Id : forall bx, b_seq bx = b_seq b -> b_reg bx = b_reg b -> b_wake bx = b_wake b ->
            b_seq bx = b_seq b /\ (fifo_reg (b_seq b) (b_reg b) -> u_at u < b_seq b -> fifo_reg (b_seq b) (b_reg bx)) /\
            (forall rk w, In w (reg_get (b_reg bx) rk) -> In w (reg_get (b_reg b) rk) \/ (w_conn w = u_conn u /\ w_at w = u_at u)) /\
            exists ex, b_wake bx = b_wake b ++ ex /\
                       forall x, In x ex -> (exists rk w, In w (reg_get (b_reg b) rk) /\ w_conn w = u_conn x /\ w_at w = u_at x)
                                            \/ (u_conn x = u_conn u /\ u_at x = u_at u)).
  { intros bx E1 E2 E3. split; [exact E1|]. rewrite E2. split; [auto|]. split; [intros rk w H; left; exact H|].
    exists []. rewrite app_nil_r. split; [exact E3|intros x []]. }
  destruct (zlookup (u_conn u) (b_blk b)) as [st|]; destruct r; cbn [snd];
    try (apply Id; reflexivity).
  (* registered again, under its old stamp; the heads of its keys that hold an element are notified *)
  all: try (fold (again b u st); split; [rewrite renotify_seq; reflexivity|]; split;
    [intros H1 H2; apply fifo_reg_renotify; cbn [again with_reg b_reg]; apply fifo_reg_reregister; assumption|]; split;
    [intros rk w H; apply renotify_reg_sub in H; cbn [again with_reg b_reg] in H; apply in_reg_get_reregister in H;
     destruct H as [->|H]; [right; split; reflexivity|left; exact H]
    |exists (renotified_l d' (again b u st) (u_db u) (bl_keys st)); split; [apply (renotify_wake d' (u_db u) (bl_keys st) (again b u st))|];
     intros x Hx; destruct (renotified_l_src _ _ _ _ _ Hx) as (rk & w & K1 & K2 & K3); cbn [again with_reg b_reg] in K1;
     apply in_reg_get_reregister in K1; destruct K1 as [->|K1];
     [right; cbn [mkw w_conn w_at] in K2, K3; split; congruence|left; exists rk, w; auto]]).
  (* the element goes back: the next waiter is notified *)
  split; [apply notify_key_ready_seq|]. split; [intros H1 _; apply fifo_reg_notify; exact H1|].
  split; [intros rk w H; left; eapply notify_key_ready_in; exact H|].
  exists (renotified b (u_db u) (u_key u)). split; [apply notify_key_ready_wake|].
  intros x Hx. left. unfold renotified in Hx. destruct (reg_get (b_reg b) (u_db u, u_key u)) as [|w q] eqn:Eg; [destruct Hx|].
  destruct Hx as [<-|[]]. exists (u_db u, u_key u), w. rewrite Eg. split; [left; reflexivity|split; reflexivity].
Qed.
Lemma wake_fold_fifo now : forall l s b,
  fifo_reg (b_seq b) (b_reg b) -> Forall (fun u => u_at u < b_seq b) l ->
  b_seq (snd (fold_left (wake_step now) l (s, b))) = b_seq b /\
  fifo_reg (b_seq b) (b_reg (snd (fold_left (wake_step now) l (s, b)))) /\
  (forall rk w, In w (reg_get (b_reg (snd (fold_left (wake_step now) l (s, b)))) rk) -> src b l (w_conn w) (w_at w)) /\
  exists ex, b_wake (snd (fold_left (wake_step now) l (s, b))) = b_wake b ++ ex /\
             Forall (fun u => u_at u < b_seq b) ex /\ forall x, In x ex -> src b l (u_conn x) (u_at x).
Proof.
  induction l as [|u l IH]; intros s b H1 H2; cbn [fold_left].
  - cbn [snd]. split; [reflexivity|]. split; [exact H1|]. split; [intros rk w H; left; exists rk, w; auto|].
    exists []. rewrite app_nil_r. split; [reflexivity|]. split; [constructor|intros x []].
  - apply Forall_cons_iff in H2. destruct H2 as [Hu H2]. rewrite wake_step_eq.
    assert (Up : forall c t, src b l c t -> src b (u :: l) c t).
    { intros c t [G|(x & G1 & G2)]; [left; exact G|right; exists x; split; [right; exact G1|exact G2]]. }
    destruct (b_crashed b).
    + destruct (IH s b H1 H2) as (I1 & I3 & I4 & ex & I5 & I6 & I7). split; [exact I1|]. split; [exact I3|].
      split; [intros rk w H; apply Up; apply I4 with rk; exact H|].
      exists ex. split; [exact I5|]. split; [exact I6|intros x Hx; apply Up; apply I7; exact Hx].
    + destruct (wake_client_fifo now s b u) as (W1 & W2 & W3 & ex1 & W4 & W5).
      destruct (wake_client now s b u) as [s1 b1]. cbn [snd] in *.
      assert (H1' : fifo_reg (b_seq b1) (b_reg b1)) by (rewrite W1; apply W2; assumption).
      assert (H2' : Forall (fun u0 => u_at u0 < b_seq b1) l) by (rewrite W1; exact H2).
      assert (Up1 : forall c t, src b1 l c t -> src b (u :: l) c t).
      { intros c t [(rk & w & G1 & G2 & G3)|(x & G1 & G2)]; [|right; exists x; split; [right; exact G1|exact G2]].
        destruct (W3 rk w G1) as [K|[K1 K2]]; [left; exists rk, w; auto|right; exists u; split; [left; reflexivity|split; congruence]]. }
      destruct (IH s1 b1 H1' H2') as (I1 & I3 & I4 & ex2 & I5 & I6 & I7). rewrite W1 in *.
      split; [exact I1|]. split; [exact I3|]. split; [intros rk w H; apply Up1; apply I4 with rk; exact H|].
      exists (ex1 ++ ex2). split; [rewrite I5, W4, app_assoc; reflexivity|]. split.
      * apply Forall_app. split; [|exact I6]. apply Forall_forall. intros x Hx. destruct (W5 x Hx) as [(rk & w & K1 & _ & K3)|(_ & K3)]; [|lia].
        rewrite <- K3. destruct (H1 rk) as [_ Hb]. unfold qbelow in Hb. rewrite Forall_forall in Hb. apply Hb. exact K1.
      * intros x Hx. apply in_app_or in Hx. destruct Hx as [Hx|Hx]; [|apply Up1; apply I7; exact Hx].
        destruct (W5 x Hx) as [(rk & w & K1 & K2 & K3)|(K2 & K3)]; [left; exists rk, w; auto|].
        right. exists u. split; [left; reflexivity|split; congruence].
Qed.
Lemma timeout_fold_seq : forall ex b, b_seq (fold_left timeout_conn ex b) = b_seq b.
Proof.
  induction ex as [|c0 ex IH]; intros b; cbn [fold_left]; [reflexivity|]. rewrite IH. unfold timeout_conn. destruct (zlookup c0 (b_blk b)); reflexivity.
Qed.
Lemma drop_fold_fifo n : forall l b, fifo_reg n (b_reg b) ->
  fifo_reg n (b_reg (fold_left drop_conn l b)) /\ b_seq (fold_left drop_conn l b) = b_seq b.
Proof.
  induction l as [|c l IH]; intros b H; cbn [fold_left]; [split; [exact H|reflexivity]|].
  destruct (IH (drop_conn b c)) as [I1 I2]; [cbn [drop_conn with_in with_blk with_reg b_reg]; apply fifo_reg_unregister_all; exact H|].
  split; [exact I1|rewrite I2; reflexivity].
Qed.

(** ================= every step keeps the order; stamps are never changed ================= *)
Lemma forall_sub {A} (P : A -> Prop) l l' : (forall x, In x l' -> In x l) -> Forall P l -> Forall P l'.
Proof. intros H HF. rewrite Forall_forall in *. intros x Hx. apply HF. apply H. exact Hx. Qed.
Lemma in_skipn {A} n (l : list A) x : In x (skipn n l) -> In x l.
Proof. intros H. rewrite <- (firstn_skipn n l). apply in_or_app. right. exact H. Qed.
Lemma in_firstn {A} n (l : list A) x : In x (firstn n l) -> In x l.
Proof. intros H. rewrite <- (firstn_skipn n l). apply in_or_app. left. exact H. Qed.

Theorem fifo_step st e : fifo_ok (snd st) ->
  fifo_ok (snd (step st e)) /\ b_seq (snd st) <= b_seq (snd (step st e)) /\
  forall c t, stamp_in (snd (step st e)) c t ->
    stamp_in (snd st) c t \/
    (match e with EFrame _ c1 _ _ => c = c1 | _ => False end /\ c <> 0 /\ b_seq (snd st) <= t < b_seq (snd (step st e))).
Proof.
  destruct st as [s b]. intros HF. cbn [step fst snd].
  destruct (b_crashed b); [cbn [snd]; split; [exact HF|]; split; [lia|]; intros c t H; left; exact H|].
  destruct e as [now c f oms|now|now|c|c|]; cbn [snd].
  - (* a frame *)
    unfold frame_step. destruct (bprocess_frame now s b c f None oms) as [[rep s'] b1] eqn:E. cbn [snd].
    pose proof (FR_bprocess_frame _ _ _ _ _ _ _ _ _ _ E) as R.
    assert (R2 : FR c b (match rep with FNoResponse => b1 | _ => emit b1 c rep end)).
    { destruct rep; try exact R; (eapply FR_trans; [exact R|apply FR_same; reflexivity]). }
    destruct R2 as (A1 & A2 & A3). split; [apply A1; exact HF|]. split; [exact A2|].
    intros c1 t H. destruct (A3 c1 t H) as [G|(G1 & G2 & G3)]; [left; exact G|right]. split; [exact G1|]. split; [congruence|exact G3].
  - (* wake-ups *)
    destruct HF as [H1 H2]. unfold process_wakeups.
    assert (H2a : Forall (fun u => u_at u < b_seq (with_wake b (skipn 32 (b_wake b)))) (firstn 32 (b_wake b))).
    { eapply forall_sub; [|exact H2]. intros x. apply in_firstn. }
    destruct (wake_fold_fifo now (firstn 32 (b_wake b)) s (with_wake b (skipn 32 (b_wake b))) H1 H2a) as (I1 & I3 & I4 & ex & I5 & I6 & I7).
    cbn [with_wake b_seq b_wake b_reg] in I1, I3, I5, I6.
    assert (Src : forall c t, src (with_wake b (skipn 32 (b_wake b))) (firstn 32 (b_wake b)) c t -> stamp_in b c t).
    { intros c t [(rk & w & G1 & G2)|(u & G1 & G2)]; [left; exists rk, w; auto|right; exists u; split; [eapply in_firstn; exact G1|exact G2]]. }
    split; [|split; [lia|]].
    + unfold fifo_ok. rewrite I1, I5. split; [exact I3|]. apply Forall_app. split; [|exact I6].
      eapply forall_sub; [|exact H2]. intros x. apply in_skipn.
    + intros c t [(rk & w & G1 & G2 & G3)|(u & G1 & G2 & G3)]; left.
      * subst c t. apply Src. apply I4 with rk. exact G1.
      * rewrite I5 in G1. apply in_app_or in G1. destruct G1 as [G1|G1].
        -- right. exists u. split; [eapply in_skipn; exact G1|auto].
        -- subst c t. apply Src. apply I7. exact G1.
  - (* timeouts *)
    destruct HF as [H1 H2]. unfold process_timeouts. destruct (expire_reg now (b_reg b)) as [ex r'] eqn:Ee.
    destruct (timeout_fold ex (with_reg b r')) as (T1 & T2 & _). pose proof (timeout_fold_seq ex (with_reg b r')) as T3.
    cbn [with_reg b_reg b_wake b_seq] in T1, T2, T3.
    assert (Er : r' = snd (expire_reg now (b_reg b))) by (rewrite Ee; reflexivity).
    split; [|split; [lia|]].
    + unfold fifo_ok. rewrite T1, T2, T3, Er. split; [apply fifo_reg_expire; exact H1|exact H2].
    + intros c t [(rk & w & G1 & G2 & G3)|(u & G1 & G2 & G3)]; left.
      * left. exists rk, w. rewrite T1, Er, reg_get_expire in G1. split; [eapply in_filter_sub; exact G1|auto].
      * right. exists u. rewrite T2 in G1. auto.
  - split; [exact HF|]. split; [lia|]. intros c1 t H. left. exact H.
  - split; [exact HF|]. split; [cbn [with_dead b_seq]; lia|]. intros c1 t H. left. exact H.
  - (* hang-ups *)
    destruct HF as [H1 H2]. unfold reap_dead.
    destruct (drop_fold (filter (noticed b) (b_dead b)) (with_dead b (filter (fun c => negb (noticed b c)) (b_dead b)))) as (_ & D2 & _).
    destruct (drop_fold_fifo (b_seq b) (filter (noticed b) (b_dead b)) (with_dead b (filter (fun c => negb (noticed b c)) (b_dead b))) H1) as (D3 & D4).
    cbn [with_dead b_wake b_seq] in D2, D4.
    split; [|split; [lia|]].
    + unfold fifo_ok. rewrite D2, D4. split; [exact D3|exact H2].
    + intros c t [(rk & w & G1 & G2 & G3)|(u & G1 & G2 & G3)]; left.
      * left. exists rk, w. split; [exact (drop_fold_reg _ _ _ _ G1)|auto].
      * right. exists u. rewrite D2 in G1. auto.
Qed.

Lemma fifo_init : fifo_ok init_blocking.
Proof. split; [intros rk; split; constructor|constructor]. Qed.
(** every queue is in the order its waiters blocked, in every reachable state *)
Theorem fifo_reach pw st : reach pw st -> fifo_ok (snd st).
Proof. induction 1; [exact fifo_init|]. apply fifo_step. exact IHreach. Qed.
Theorem fifo_queue_order pw st db k : reach pw st -> in_blocking_order (reg_get (b_reg (snd st)) (db, k)).
Proof. intros H. apply (proj1 (fifo_reach pw st H)). Qed.
(** ... so the waiter a push serves - the head - blocked no later than anybody else in the queue *)
Theorem fifo_head_first pw st db k w q : reach pw st -> reg_get (b_reg (snd st)) (db, k) = w :: q ->
  forall w', In w' q -> w_at w <= w_at w'.
Proof.
  intros H E w' Hw. pose proof (fifo_queue_order pw st db k H) as Hs. rewrite E in Hs.
  apply StronglySorted_inv in Hs. destruct Hs as [_ Hf]. rewrite Forall_forall in Hf. exact (Hf w' Hw).
Qed.
(** stamps never change: whatever a step leaves in a queue or in the wake-up queue was there
    before, for the same connection with the same stamp - unless it is the registration of the
    connection whose request the step processed *)
Theorem stamps_step st e c t : fifo_ok (snd st) -> stamp_in (snd (step st e)) c t ->
  stamp_in (snd st) c t \/
  (match e with EFrame _ c1 _ _ => c = c1 | _ => False end /\ c <> 0 /\ b_seq (snd st) <= t < b_seq (snd (step st e))).
Proof. intros HF H. exact (proj2 (proj2 (fifo_step st e HF)) c t H). Qed.
Theorem stamps_kept pw st e c t : reach pw st -> stamp_in (snd (step st e)) c t ->
  stamp_in (snd st) c t \/
  (match e with EFrame _ c1 _ _ => c = c1 | _ => False end /\ c <> 0 /\ b_seq (snd st) <= t < b_seq (snd (step st e))).
Proof. intros H. apply stamps_step. exact (fifo_reach pw st H). Qed.

(** ================= the stamp is the number of calls that blocked before ================= *)
Definition SQ (c : Z) (s : server) (b b' : blocking) : Prop :=
  (b_seq b' = b_seq b /\ b_blk b' = b_blk b) \/
  (b_seq b' = b_seq b + 1 /\ c <> 0 /\
   match zlookup c (s_conns s) with Some _ => exists st, b_blk b' = zset_ c st (b_blk b) | None => b_blk b' = b_blk b end).
Lemma notify_n_seq n : forall b db k, b_seq (notify_n n b db k) = b_seq b.
Proof.
  induction n as [|n IH]; intros b db k; cbn [notify_n]; [reflexivity|].
  destruct (reg_get (b_reg b) (db, k)); [reflexivity|]. rewrite IH. apply notify_key_ready_seq.
Qed.
Lemma notify_after_push_seq b dbi name parts r : b_seq (notify_after_push b dbi name parts r) = b_seq b.
Proof.
  unfold notify_after_push. destruct (is_push_name name); [|reflexivity].
  destruct r; try reflexivity. destruct parts as [|? [|[] [|? ?]]]; try reflexivity.
  destruct (0 <? z); [|reflexivity]. apply notify_n_seq.
Qed.
Lemma notify_after_script_seq s b dbi parts : b_seq (notify_after_script s b dbi parts) = b_seq b.
Proof.
  unfold notify_after_script. generalize (firstn (match nth_error parts 2 with
    | Some (FBulk t) => match parse_usize t with Some n => Z.to_nat n | None => O end | _ => O end) (skipn 3 parts)).
  intros l. revert b. induction l as [|f l IH]; intros b; cbn [fold_left]; [reflexivity|].
  destruct f; try apply IH. rewrite IH. apply notify_n_seq.
Qed.
Lemma h_bpop_sq left now s b c dbi parts oms rep s' b' :
  h_bpop left now s b c dbi parts oms = (rep, s', b') -> SQ c s b b'.
Proof.
  intros H. unfold h_bpop in H.
  destruct (len parts <? 3); [injection H as _ _ <-; left; split; reflexivity|].
  destruct (timeout_of (last parts FNull) oms) as [tmo|]; [|injection H as _ _ <-; left; split; reflexivity].
  destruct (all_bulks (removelast (tl parts))) as [keys|]; [|injection H as _ _ <-; left; split; reflexivity].
  destruct (fast_path left (get_db s dbi) keys) as [[r|] d']; [injection H as _ _ <-; left; split; reflexivity|].
  destruct (c =? 0) eqn:Ec0; [injection H as _ _ <-; left; split; reflexivity|].
  right. destruct (zlookup c (s_conns s)); injection H as _ _ <-; (split; [reflexivity|]; split; [lia|]).
  - eexists. reflexivity.
  - reflexivity.
Qed.
Lemma bnormal_sq now s b c dbi parts o oms rep s' b' :
  bnormal now s b c dbi parts o oms = (rep, s', b') -> SQ c s b b'.
Proof.
  intros H. unfold bnormal in H.
  destruct parts as [|p rest]; [destruct (normal_command now s c dbi [] o); injection H as _ _ <-; left; split; reflexivity|].
  destruct p; try (destruct (normal_command now s c dbi _ o); injection H as _ _ <-; left; split; reflexivity).
  assert (HB : forall left, h_bpop left now (lazy_expire now s dbi (upper b0) (FBulk b0 :: rest)) b c dbi (FBulk b0 :: rest) oms = (rep, s', b') -> SQ c s b b').
  { intros left E. apply h_bpop_sq in E. unfold SQ in *. rewrite (proj1 (lazy_expire_rest now s dbi (upper b0) (FBulk b0 :: rest))) in E. exact E. }
  destruct (beq (upper b0) (bs "BLPOP")); [apply (HB true); exact H|].
  destruct (beq (upper b0) (bs "BRPOP")); [apply (HB false); exact H|].
  destruct (normal_command now s c dbi (FBulk b0 :: rest) o) as [r s1]. injection H as _ _ <-. cbv zeta. left.
  destruct (notify_after_push_fields b dbi (upper b0) (FBulk b0 :: rest) r) as (F & _).
  destruct (beq (upper b0) _).
  - destruct (notify_after_script_fields s1 (notify_after_push b dbi (upper b0) (FBulk b0 :: rest) r) dbi (FBulk b0 :: rest)) as (K & _).
    rewrite notify_after_script_seq, notify_after_push_seq. split; [reflexivity|congruence].
  - rewrite notify_after_push_seq. split; [reflexivity|exact F].
Qed.
Lemma bexec_queue_sq now c : forall q s b dbi acc reps s' b',
  bexec_queue now s b c dbi q acc = (reps, s', b') -> b_seq b' = b_seq b /\ b_blk b' = b_blk b.
Proof.
  induction q as [|parts q IH]; intros s b dbi acc reps s' b' H; cbn [bexec_queue] in H.
  - injection H as _ _ <-. split; reflexivity.
  - destruct (beq (queued_name parts) (bs "SELECT")) eqn:Esel.
    + rewrite (bnormal_select _ _ _ _ _ _ _ _ Esel) in H. destruct (normal_command now s c dbi parts None) as [rep s1].
      eapply IH; exact H.
    + destruct (bnormal now s b 0 dbi parts None None) as [[rep s1] b1] eqn:En.
      destruct (IH _ _ _ _ _ _ _ H) as [I1 I2]. destruct (bnormal_sq _ _ _ _ _ _ _ _ _ _ _ En) as [[G1 G2]|(_ & G & _)]; [|congruence].
      split; congruence.
Qed.
Lemma bprocess_frame_sq now s b c cn f o oms rep s' b' :
  zlookup c (s_conns s) = Some cn -> bprocess_frame now s b c f o oms = (rep, s', b') ->
  (b_seq b' = b_seq b /\ b_blk b' = b_blk b) \/ (b_seq b' = b_seq b + 1 /\ exists st, b_blk b' = zset_ c st (b_blk b)).
Proof.
  intros Hc H. unfold bprocess_frame in H.
  assert (Pass : (let (r, s'0) := process_frame now s c f o in (r, s'0, b)) = (rep, s', b') ->
            (b_seq b' = b_seq b /\ b_blk b' = b_blk b) \/ (b_seq b' = b_seq b + 1 /\ exists st, b_blk b' = zset_ c st (b_blk b))).
  { destruct (process_frame now s c f o). intros E. injection E as _ _ <-. left. split; reflexivity. }
  destruct f as [| | | | |l| | | | | | |]; try (apply Pass; exact H).
  destruct l as [|first rest]; [apply Pass; exact H|].
  destruct first as [| | |nm| | | | | | | | |]; try (apply Pass; exact H).
  rewrite Hc in H.
  destruct (_ && negb (c_auth cn)); [apply Pass; exact H|].
  destruct (c_intx cn && _); [apply Pass; exact H|].
  destruct (beq (upper (trim nm)) (bs "MULTI")); [apply Pass; exact H|].
  destruct (beq (upper (trim nm)) (bs "EXEC")).
  { unfold bh_exec in H. cbv zeta in H. destruct (negb (c_intx cn)); [injection H as _ _ <-; left; split; reflexivity|].
    destruct (watch_violated now s cn); [injection H as _ _ <-; left; split; reflexivity|].
    revert H. destruct (bexec_queue _ _ _ _ _ _ _) as [[reps s2] b2] eqn:E. intros H. injection H as _ _ <-.
    left. eapply bexec_queue_sq; exact E. }
  destruct (_ || _ || _ || _); [apply Pass; exact H|].
  destruct (bnormal_sq _ _ _ _ _ _ _ _ _ _ _ H) as [G|(G1 & _ & G2)]; [left; exact G|right]. rewrite Hc in G2. split; assumption.
Qed.
Lemma wake_fold_seq now : forall l sb, b_seq (snd (fold_left (wake_step now) l sb)) = b_seq (snd sb).
Proof.
  induction l as [|u l IH]; intros sb; cbn [fold_left]; [reflexivity|]. rewrite IH.
  unfold wake_step. destruct (b_crashed (snd sb)); [reflexivity|]. apply (proj1 (wake_client_fifo now (fst sb) (snd sb) u)).
Qed.
(** one more stamp is handed out exactly when the event leaves its connection Blocked *)
Lemma seq_step st e : ok st e = true ->
  b_seq (snd (step st e)) = b_seq (snd st) + (if blocks st e then 1 else 0).
Proof.
  destruct st as [s b]. intros Hok. unfold blocks. cbn [step fst snd].
  destruct (b_crashed b) eqn:Ec.
  { destruct e; cbn [snd]; try lia. destruct (is_blocked b c); cbn [negb andb]; lia. }
  destruct e as [now c f oms|now|now|c|c|]; cbn [snd].
  - cbn [ok] in Hok. destruct (zlookup c (s_conns s)) as [cn|] eqn:Hc; [|discriminate].
    apply andb_true_iff in Hok. destruct Hok as [Hnb _]. rewrite Hnb. cbn [andb]. apply negb_true_iff in Hnb.
    unfold frame_step. destruct (bprocess_frame now s b c f None oms) as [[rep s'] b1] eqn:E. cbn [snd].
    assert (Eq : b_seq (match rep with FNoResponse => b1 | _ => emit b1 c rep end) = b_seq b1 /\
                 is_blocked (match rep with FNoResponse => b1 | _ => emit b1 c rep end) c = is_blocked b1 c) by (destruct rep; split; reflexivity).
    destruct Eq as [Eq1 Eq2]. rewrite Eq1, Eq2.
    destruct (bprocess_frame_sq _ _ _ _ _ _ _ _ _ _ _ Hc E) as [[G1 G2]|(G1 & st & G2)].
    + unfold is_blocked in *. rewrite G2. destruct (zlookup c (b_blk b)); [discriminate|]. lia.
    + unfold is_blocked. rewrite G2, zlookup_zset_same. lia.
  - unfold process_wakeups. rewrite wake_fold_seq. cbn [snd with_wake b_seq]. lia.
  - unfold process_timeouts. destruct (expire_reg now (b_reg b)) as [ex r']. rewrite timeout_fold_seq. cbn [with_reg b_seq]. lia.
  - lia.
  - cbn [with_dead b_seq]. lia.
  - unfold reap_dead.
    assert (F : forall l bx, b_seq (fold_left drop_conn l bx) = b_seq bx) by (induction l as [|c0 l IH]; intros bx; cbn [fold_left]; [reflexivity|rewrite IH; reflexivity]).
    rewrite F. cbn [with_dead b_seq]. lia.
Qed.
Theorem seq_counts pw n st : reach_n pw n st -> b_seq (snd st) = Z.of_nat n.
Proof.
  induction 1 as [|n st e Hr IH Hok]; [reflexivity|]. rewrite (seq_step st e Hok), IH. destruct (blocks st e); lia.
Qed.
Lemma reach_n_reach pw n st : reach_n pw n st -> reach pw st.
Proof. induction 1; [constructor|apply reach_step; assumption]. Qed.
(** the call that blocks as the (n+1)-th gets stamp n on every key it names *)
Theorem stamp_is_ordinal pw n st e c : reach_n pw n st -> ok st e = true ->
  (match e with EFrame _ c1 _ _ => c = c1 | _ => False end) -> blocks st e = true ->
  forall t, stamp_in (snd (step st e)) c t -> t = Z.of_nat n.
Proof.
  intros Hr Hok He Hb t Hs. pose proof (reach_n_reach _ _ _ Hr) as Hreach.
  pose proof (fifo_reach pw st Hreach) as HF.
  pose proof (seq_step st e Hok) as Hq. rewrite Hb in Hq. rewrite <- (seq_counts pw n st Hr).
  destruct (stamps_step st e c t HF Hs) as [G|(_ & _ & G)]; [|lia].
  (* the connection was not Blocked before: it had no registration and no wake-up *)
  exfalso. destruct e as [now c1 f oms| | | | |]; try contradiction. subst c1.
  destruct st as [s b]. cbn [fst snd] in *. cbn [ok] in Hok. destruct (zlookup c (s_conns s)) as [cn|] eqn:Hc; [|discriminate].
  apply andb_true_iff in Hok. destruct Hok as [Hnb _]. apply negb_true_iff in Hnb. apply is_blocked_false in Hnb.
  pose proof (never_crashes pw _ Hreach) as Hcr. cbn [snd] in Hcr.
  destruct (reach_inv pw _ Hreach) as [Hi|(HA & _ & HO & _)]; [cbn [snd] in Hi; congruence|]. cbn [fst snd] in *.
  destruct G as [(rk & w & G1 & G2 & G3)|(u & G1 & G2 & G3)].
  - destruct (reg_get_in _ _ _ G1) as [q [K1 K2]]. pose proof (not_blocked_clean _ c HA Hnb _ _ K1) as Hz.
    rewrite cnt_zero in Hz. exact (Hz w K2 G2).
  - pose proof (live_no_wake s b c cn HO Hc Hnb) as Hnw. rewrite wakes_for_nil in Hnw. exact (Hnw u G1 G2).
Qed.
