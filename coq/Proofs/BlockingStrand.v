(** C13: no stranding - in the histories of list commands whose blocking pops name one key, a
    key with a waiter never holds more elements than wake-ups are under way for it. *)
From Ferrous Require Import Base.Bytes Generated Model.Resp Model.Types Model.Strings Model.Lists
  Model.Server Model.Blocking Spec.BlockingSpec Proofs.BytesFacts Proofs.StringsFacts Proofs.ServerFacts
  Proofs.BlockingFacts Proofs.BlockingCons.
From Coq Require Import ZifyBool Lia.
Open Scope Z_scope.

(** ================= wake-up counts ================= *)
Definition wmatch (db : Z) (k : bytes) (u : wakeup) : bool := (u_db u =? db) && beq (u_key u) k.
Lemma wcount_app db k W1 W2 : wcount db k (W1 ++ W2) = wcount db k W1 + wcount db k W2.
Proof. unfold wcount, len. rewrite filter_app, app_length. lia. Qed.
Lemma wcount_cons db k u W : wcount db k (u :: W) = (if wmatch db k u then 1 else 0) + wcount db k W.
Proof. unfold wcount, len, wmatch. cbn [filter]. destruct ((u_db u =? db) && beq (u_key u) k); cbn [length]; lia. Qed.
Lemma wcount_nonneg db k W : 0 <= wcount db k W.
Proof. unfold wcount, len. lia. Qed.
Lemma wcount_nil db k : wcount db k [] = 0.
Proof. reflexivity. Qed.

(** the invariant with an explicit wake list (wake-ups being handled are still under way) *)
Definition STRW (s : server) (r : registry) (W : list wakeup) : Prop :=
  forall db k, 0 <= db -> reg_get r (db, k) <> [] -> len (list_at s db k) <= wcount db k W.

(** [Rel b b' A]: a queue that is not empty afterwards was not empty before, and A more wake-ups
    are under way for its key *)
Definition Rel (b b' : blocking) (A : Z -> bytes -> Z) : Prop :=
  forall db k, reg_get (b_reg b') (db, k) <> [] ->
  reg_get (b_reg b) (db, k) <> [] /\ wcount db k (b_wake b) + A db k <= wcount db k (b_wake b').
Lemma Rel_refl b : Rel b b (fun _ _ => 0).
Proof. intros db k H. split; [exact H|lia]. Qed.
Lemma Rel_trans b1 b2 b3 A1 A2 : Rel b1 b2 A1 -> Rel b2 b3 A2 -> Rel b1 b3 (fun db k => A1 db k + A2 db k).
Proof.
  intros H1 H2 db k H. destruct (H2 db k H) as [G1 G2]. destruct (H1 db k G1) as [G3 G4]. split; [exact G3|lia].
Qed.
Lemma Rel_weaken b b' A A' : Rel b b' A -> (forall db k, A' db k <= A db k) -> Rel b b' A'.
Proof. intros H Hle db k Hq. destruct (H db k Hq) as [G1 G2]. split; [exact G1|]. specialize (Hle db k). lia. Qed.

(** notify_key_ready / notify_n *)
Lemma notify_key_ready_sub b db k rk w :
  In w (reg_get (b_reg (notify_key_ready b db k)) rk) -> In w (reg_get (b_reg b) rk).
Proof.
  unfold notify_key_ready. destruct (reg_get (b_reg b) (db, k)) as [|w0 q] eqn:Eg; [auto|].
  cbn [with_wake with_reg b_reg]. rewrite reg_get_unregister. intros H.
  assert (H1 : In w (reg_get (reg_put (b_reg b) (db, k) q) rk)) by (destruct (fst rk =? db); [eapply in_filter_sub; exact H|exact H]).
  destruct (rk_eqb rk (db, k)) eqn:E.
  - apply rk_eqb_eq in E. subst rk. rewrite reg_get_put_same in H1. rewrite Eg. right. exact H1.
  - rewrite reg_get_put_other in H1 by exact E. exact H1.
Qed.
Lemma notify_key_ready_wake b db k :
  reg_get (b_reg b) (db, k) <> [] ->
  forall db2 k2, wcount db2 k2 (b_wake (notify_key_ready b db k)) =
                 wcount db2 k2 (b_wake b) + (if (db =? db2) && beq k k2 then 1 else 0).
Proof.
  intros Hne db2 k2. unfold notify_key_ready. destruct (reg_get (b_reg b) (db, k)) as [|w0 q]; [congruence|].
  cbn [with_wake with_reg b_wake]. rewrite wcount_app, wcount_cons, wcount_nil. unfold wmatch. cbn [u_db u_key]. lia.
Qed.
Lemma nonempty_sub (q q' : list waiter) : (forall w, In w q' -> In w q) -> q' <> [] -> q <> [].
Proof. intros H Hn E. subst q. destruct q' as [|w ?]; [congruence|]. exact (H w (or_introl eq_refl)). Qed.

Lemma notify_n_rel : forall n b db k,
  Rel b (notify_n n b db k) (fun db2 k2 => if (db =? db2) && beq k k2 then Z.of_nat n else 0).
Proof.
  induction n as [|n IH]; intros b db k; cbn [notify_n].
  - eapply Rel_weaken; [apply Rel_refl|]. intros db2 k2. destruct ((db =? db2) && beq k k2); cbn; lia.
  - destruct (reg_get (b_reg b) (db, k)) as [|w0 q] eqn:Eg.
    + (* nobody waits on the key: it cannot have a queue afterwards either *)
      intros db2 k2 Hq. split; [exact Hq|]. destruct ((db =? db2) && beq k k2) eqn:E; [|lia].
      apply andb_true_iff in E. destruct E as [E1 E2]. apply Z.eqb_eq in E1. apply beq_eq in E2. subst. congruence.
    + assert (Hne : reg_get (b_reg b) (db, k) <> []) by (rewrite Eg; discriminate).
      specialize (IH (notify_key_ready b db k) db k).
      intros db2 k2 Hq. destruct (IH db2 k2 Hq) as [G1 G2]. split.
      * eapply nonempty_sub; [|exact G1]. intros w. apply notify_key_ready_sub.
      * rewrite (notify_key_ready_wake b db k Hne db2 k2) in G2. destruct ((db =? db2) && beq k k2); lia.
Qed.

(** ================= pushes ================= *)
Lemma len_bulk_args_le l : len (bulk_args l) <= len l.
Proof. unfold len. induction l as [|f l IH]; cbn [bulk_args length]; [lia|]. destruct f; cbn [length]; lia. Qed.
Lemma h_push_reply_ge left d nm key els n d' :
  h_push left d (FBulk nm :: FBulk key :: els) = (FInt n, d') -> len (bulk_args els) <= n.
Proof.
  unfold h_push. destruct (nparts _ <? 3); [discriminate|].
  unfold key_of, nth_arg. cbn [nth_error arg_bytes skipn].
  destruct (all_bulks els) as [els'|] eqn:Eb; [|discriminate]. rewrite (all_bulks_bulk_args _ _ Eb).
  unfold on_key. destruct (option_map e_val (get_entry d key)) as [[| l0 | | | |]|]; cbn [e_push r_int r_wrongtype]; try discriminate.
  - intros H. injection H as <- _. unfold len. destruct left; rewrite app_length, ?rev_length; lia.
  - intros H. injection H as <- _. unfold len. destruct left; rewrite ?rev_length; lia.
Qed.

Lemma Zeqb_sym a b : (a =? b) = (b =? a).
Proof. destruct (a =? b) eqn:E1, (b =? a) eqn:E2; lia. Qed.

(** the notification after a push: as many wake-ups as elements, or the queue is empty *)
Lemma nap_rel b dbi nm rest rep :
  (forall n key els, rep = FInt n -> is_push_name (upper nm) = true -> rest = FBulk key :: els -> len (bulk_args els) <= n) ->
  Rel b (notify_after_push b dbi (upper nm) (FBulk nm :: rest) rep)
      (fun db k => ecountm (db, k, None) (pushed_of dbi (FBulk nm :: rest) rep)).
Proof.
  intros Hrep. unfold notify_after_push, pushed_of.
  destruct (is_push_name (upper nm)) eqn:Ep.
  2:{ eapply Rel_weaken; [apply Rel_refl|]. intros db k. destruct rest as [|[] ?]; try (rewrite ecount_nil; lia). destruct rep; rewrite ecount_nil; lia. }
  destruct rep; try (eapply Rel_weaken; [apply Rel_refl|]; intros db k; destruct rest as [|[] ?]; rewrite ?ecount_nil; lia).
  destruct rest as [|kf els]; [eapply Rel_weaken; [apply Rel_refl|]; intros db k; rewrite ecount_nil; lia|].
  destruct kf; try (eapply Rel_weaken; [apply Rel_refl|]; intros db k; rewrite ecount_nil; lia).
  pose proof (Hrep z b0 els eq_refl eq_refl eq_refl) as Hn.
  assert (HA : forall db k, ecountm (db, k, None) (map (fun e => (dbi, b0, e)) (bulk_args els))
                            = if (db =? dbi) && beq k b0 then len (bulk_args els) else 0).
  { intros db k. rewrite ecount_tag, occm_none. reflexivity. }
  destruct els as [|e els'].
  - eapply Rel_weaken; [apply Rel_refl|]. intros db k. rewrite HA. cbn [bulk_args]. destruct ((db =? dbi) && beq k b0); cbn; lia.
  - destruct (0 <? z) eqn:Ez.
    + eapply Rel_weaken; [apply notify_n_rel|]. intros db k. rewrite HA, (Zeqb_sym db dbi), (beq_sym k b0).
      destruct ((dbi =? db) && beq b0 k); [|lia].
      pose proof (len_bulk_args_le (e :: els')). unfold len in *. cbn [length] in *. lia.
    + eapply Rel_weaken; [apply Rel_refl|]. intros db k. rewrite HA. destruct ((db =? dbi) && beq k b0); lia.
Qed.

Lemma push_reply_fact now s c dbi nm rest rep s1 :
  normal_command now s c dbi (FBulk nm :: rest) None = (rep, s1) ->
  forall n key els, rep = FInt n -> is_push_name (upper nm) = true -> rest = FBulk key :: els -> len (bulk_args els) <= n.
Proof.
  intros En n key els -> Hp ->. unfold is_push_name in Hp. apply orb_true_iff in Hp.
  destruct Hp as [Hp|Hp]; apply beq_eq in Hp.
  - destruct (h_push true (get_db s dbi) (FBulk nm :: FBulk key :: els)) as [r d'] eqn:Eh.
    assert (He : exec_db now (get_db s dbi) (upper nm) (FBulk nm :: FBulk key :: els) None = Some (r, d')) by (rewrite Hp, exec_db_lpush, Eh; reflexivity).
    destruct (nc_via_exec_db now s c dbi nm (FBulk key :: els) None r d' ltac:(rewrite Hp; reflexivity) He) as (s2 & E1 & _).
    rewrite E1 in En. injection En as -> _. eapply h_push_reply_ge; exact Eh.
  - destruct (h_push false (get_db s dbi) (FBulk nm :: FBulk key :: els)) as [r d'] eqn:Eh.
    assert (He : exec_db now (get_db s dbi) (upper nm) (FBulk nm :: FBulk key :: els) None = Some (r, d')) by (rewrite Hp, exec_db_rpush, Eh; reflexivity).
    destruct (nc_via_exec_db now s c dbi nm (FBulk key :: els) None r d' ltac:(rewrite Hp; reflexivity) He) as (s2 & E1 & _).
    rewrite E1 in En. injection En as -> _. eapply h_push_reply_ge; exact Eh.
Qed.

(** a command that is not a blocking pop, through process_normal_command *)
Lemma bnormal_rel now s b c dbi nm rest oms rep s' b' :
  bpop_parts (FBulk nm :: rest) = false ->
  bnormal now s b c dbi (FBulk nm :: rest) None oms = (rep, s', b') ->
  Rel b b' (fun db k => ecountm (db, k, None) (pushed_of dbi (FBulk nm :: rest) rep)).
Proof.
  intros Hb H. rewrite bpop_parts_names in Hb. apply orb_false_iff in Hb. destruct Hb as [Hb1 Hb2].
  unfold bnormal in H. rewrite Hb1, Hb2 in H.
  destruct (normal_command now s c dbi (FBulk nm :: rest) None) as [r s1] eqn:En. injection H as <- <- <-.
  apply nap_rel. eapply push_reply_fact; exact En.
Qed.
Lemma bnormal_badhead_rel now s b c dbi parts oms rep s' b' :
  bnormal now s b c dbi parts None oms = (rep, s', b') ->
  (match parts with FBulk _ :: _ => False | _ => True end) ->
  Rel b b' (fun db k => ecountm (db, k, None) (pushed_of dbi parts rep)).
Proof.
  intros H Hs. destruct (bnormal_badhead _ _ _ _ _ _ _ _ _ _ H Hs) as [_ ->].
  eapply Rel_weaken; [apply Rel_refl|]. intros db k. unfold pushed_of. destruct parts as [|p ?]; [rewrite ecount_nil; lia|].
  destruct p; try (rewrite ecount_nil; lia). contradiction.
Qed.

(** a blocking pop with the id 0 of EXEC never touches the blocking manager *)
Lemma h_bpop_zero left now s b dbi parts oms rep s' b' :
  h_bpop left now s b 0 dbi parts oms = (rep, s', b') -> b' = b.
Proof.
  intros H. unfold h_bpop in H.
  destruct (len parts <? 3); [injection H as _ _ <-; reflexivity|].
  destruct (timeout_of (last parts FNull) oms); [|injection H as _ _ <-; reflexivity].
  destruct (all_bulks (removelast (tl parts))); [|injection H as _ _ <-; reflexivity].
  destruct (fast_path left (get_db s dbi) l) as [[r|] d']; injection H as _ _ <-; reflexivity.
Qed.
(** the queue of an EXEC *)
Lemma bexec_queue_rel now dbi : forall q s b acc reps s' b',
  bexec_queue now s b dbi q acc = (reps, s', b') ->
  exists reps1, reps = rev acc ++ reps1 /\
    Rel b b' (fun db k => ecountm (db, k, None) (zip_effects (pushed_of dbi) q reps1)).
Proof.
  induction q as [|parts q IH]; intros s b acc reps s' b' H; cbn [bexec_queue] in H.
  - injection H as <- _ <-. exists []. rewrite app_nil_r. split; [reflexivity|]. apply Rel_refl.
  - destruct (bnormal now s b 0 dbi parts None None) as [[rep s1] b1] eqn:En.
    assert (R1 : Rel b b1 (fun db k => ecountm (db, k, None) (pushed_of dbi parts rep))).
    { destruct parts as [|p rest]; [eapply bnormal_badhead_rel; [exact En|exact I]|].
      destruct p; try (eapply bnormal_badhead_rel; [exact En|exact I]).
      destruct (bpop_parts (FBulk b0 :: rest)) eqn:Hp; [|eapply bnormal_rel; eauto].
      assert (b1 = b).
      { unfold bnormal in En. rewrite bpop_parts_names in Hp. destruct (beq (upper b0) (bs "BLPOP")); [eapply h_bpop_zero; exact En|].
        cbn [orb] in Hp. rewrite Hp in En. eapply h_bpop_zero; exact En. }
      subst b1. eapply Rel_weaken; [apply Rel_refl|]. intros db k. rewrite pushed_of_nil; [rewrite ecount_nil; lia|].
      rewrite bpop_parts_names in Hp. apply orb_true_iff in Hp. destruct Hp as [Hp|Hp]; apply beq_eq in Hp; rewrite Hp; reflexivity. }
    destruct (IH _ _ _ _ _ _ H) as (reps1 & E & R2).
    exists (rep :: reps1). cbn [rev] in E. rewrite <- app_assoc in E. split; [exact E|].
    cbn [zip_effects]. eapply Rel_weaken; [eapply Rel_trans; eauto|]. intros db k. cbn beta. rewrite ecount_app. lia.
Qed.

(** ================= a blocking pop on one key ================= *)
Lemma pop_nil_empty left d k : ALLd d ->
  (match fst (on_key d k (e_pop left)) with FBulk _ | FError _ => False | _ => True end) ->
  lst (snd (on_key d k (e_pop left))) k = [].
Proof.
  intros HA Hr. destruct (lview d k) as [l|] eqn:El; [|exfalso; exact (HA k El)].
  pose proof (pop_view left d k l El) as Hp. destruct (if left then l else rev l) as [|v t]; destruct Hp as [Hp1 Hp2].
  - apply lst_view. exact Hp2.
  - rewrite Hp1 in Hr. contradiction.
Qed.

Lemma block_case s dbi d1 k0 reg c left dl :
  cinv s -> 0 <= dbi < 16 -> lst d1 k0 = [] ->
  forall db k, reg_get (register reg dbi c [k0] left dl) (db, k) <> [] ->
  reg_get reg (db, k) <> [] \/ len (list_at (set_db s dbi d1) db k) = 0.
Proof.
  intros CI Hr Hnil db k Hq.
  destruct (reg_get_register dbi c left dl [k0] reg (db, k)) as [n [Hn Hiff]]. rewrite Hn in Hq.
  destruct (reg_get reg (db, k)) as [|w0 q0] eqn:Eq0; [|left; discriminate]. right.
  assert (Hnz : n <> O) by (destruct n; [cbn in Hq; congruence|discriminate]).
  apply Hiff in Hnz. cbn [fst snd bmem] in Hnz. destruct Hnz as [-> Hk]. rewrite orb_false_r in Hk. apply beq_eq in Hk. subst k.
  rewrite list_at_lst. destruct (get_db_after_set s (set_db s dbi d1) dbi d1 (ci_len s CI) Hr eq_refl) as (G1 & _).
  rewrite G1, Hnil. reflexivity.
Qed.

Lemma h_bpop_strand left now s b c dbi nm rest oms rep s' b' :
  cinv s -> 0 <= dbi < 16 -> len (FBulk nm :: rest) = 3 ->
  h_bpop left now s b c dbi (FBulk nm :: rest) oms = (rep, s', b') ->
  b_wake b' = b_wake b /\
  forall db k, reg_get (b_reg b') (db, k) <> [] -> reg_get (b_reg b) (db, k) <> [] \/ len (list_at s' db k) = 0.
Proof.
  intros CI Hr Hlen H. unfold h_bpop in H.
  assert (Same : forall r0 s0, (r0, s0, b) = (rep, s', b') ->
            b_wake b' = b_wake b /\ forall db k, reg_get (b_reg b') (db, k) <> [] -> reg_get (b_reg b) (db, k) <> [] \/ len (list_at s' db k) = 0).
  { intros r0 s0 E. injection E as _ _ <-. split; [reflexivity|]. intros db k Hq. left. exact Hq. }
  destruct (len (FBulk nm :: rest) <? 3); [eapply Same; exact H|].
  destruct (timeout_of _ oms) as [tmo|]; [|eapply Same; exact H].
  destruct rest as [|kf [|tf [|? ?]]]; try (unfold len in Hlen; cbn [length] in Hlen; lia).
  cbn [tl removelast] in H. destruct kf as [| | |k0| | | | | | | | |]; cbn [all_bulks] in H; try (eapply Same; exact H).
  unfold fast_path in H.
  pose proof (pop_nil_empty left (get_db s dbi) k0 (ci_all s CI dbi)) as Hnil.
  destruct (on_key (get_db s dbi) k0 (e_pop left)) as [r d1]. cbn [fst snd] in Hnil.
  assert (Blk : forall bx, b_wake bx = b_wake b ->
            b_reg bx = register (b_reg b) dbi c [k0] left (option_map (fun ms => now + ms) tmo) ->
            lst d1 k0 = [] ->
            (FNoResponse, set_db s dbi d1, bx) = (rep, s', b') ->
            b_wake b' = b_wake b /\ forall db k, reg_get (b_reg b') (db, k) <> [] -> reg_get (b_reg b) (db, k) <> [] \/ len (list_at s' db k) = 0).
  { intros bx W1 W2 W3 E. injection E as _ <- <-. split; [exact W1|]. intros db k Hq. rewrite W2 in Hq.
    eapply block_case; eauto. }
  destruct r; try (eapply Same; exact H);
    (destruct (c =? 0); [eapply Same; exact H|]);
    (destruct (zlookup c (s_conns s)); (eapply Blk; [| |apply Hnil; exact I|exact H]; reflexivity)).
Qed.

(** ================= the three ways a list frame touches the blocking manager ================= *)
Lemma bpf_shape now s b c cn f oms rep s' b' :
  cinv s -> zlookup c (s_conns s) = Some cn -> list_frame f = true ->
  bprocess_frame now s b c f None oms = (rep, s', b') ->
  (b' = b /\ frame_effect pushed_of s c f rep = [])
  \/ (exists reps, rep = FArray reps /\
        bexec_queue now (set_conn s c (clear_tx cn)) b (c_db cn) (c_queue cn) [] = (reps, s', b') /\
        frame_effect pushed_of s c f rep = zip_effects (pushed_of (c_db cn)) (c_queue cn) reps)
  \/ (exists nm rest, f = FArray (FBulk nm :: rest) /\
        bnormal now s b c (c_db cn) (FBulk nm :: rest) None oms = (rep, s', b') /\
        frame_effect pushed_of s c f rep = pushed_of (c_db cn) (FBulk nm :: rest) rep).
Proof.
  intros CI Hc Hl H. unfold bprocess_frame in H.
  assert (NoEff : (match f with FArray (FBulk _ :: _) => False | _ => True end) -> frame_effect pushed_of s c f rep = []).
  { intros Hs. unfold frame_effect. rewrite Hc. destruct f; try reflexivity. destruct l as [|p ?]; try reflexivity. destruct p; try reflexivity. contradiction. }
  assert (Pass0 : (match f with FArray (FBulk _ :: _) => False | _ => True end) ->
            (let (r, s'0) := process_frame now s c f None in (r, s'0, b)) = (rep, s', b') -> b' = b /\ frame_effect pushed_of s c f rep = []).
  { intros Hs E. destruct (process_frame now s c f None). injection E as _ _ <-. split; [reflexivity|apply NoEff; exact Hs]. }
  destruct f as [| | | | |l| | | | | | |]; try (left; apply Pass0; [exact I|exact H]).
  destruct l as [|first rest]; [left; apply Pass0; [exact I|exact H]|].
  destruct first as [| | |nm| | | | | | | | |]; try (left; apply Pass0; [exact I|exact H]).
  clear Pass0 NoEff.
  cbn [list_frame] in Hl. apply andb_true_iff in Hl. destruct Hl as [Hin Htrim]. apply beq_eq in Htrim.
  rewrite Hc in H. rewrite Htrim in H. rewrite (ci_pw s CI) in H. cbn [andb] in H.
  destruct (list_cmd_not_other _ Hin) as (NW & NU & NA).
  unfold frame_effect. rewrite Hc.
  destruct (beq (upper nm) (bs "MULTI")) eqn:EM.
  { left. assert (NE : beq (upper nm) (bs "EXEC") = false) by (apply beq_eq in EM; rewrite EM; reflexivity).
    assert (NP : is_push_name (upper nm) = false) by (apply beq_eq in EM; rewrite EM; reflexivity).
    rewrite NE, (pushed_of_nil _ nm rest rep NP). destruct (process_frame now s c _ None). injection H as _ _ <-.
    split; [reflexivity|destruct (c_intx cn); reflexivity]. }
  destruct (beq (upper nm) (bs "EXEC")) eqn:EE.
  { assert (NP : is_push_name (upper nm) = false) by (apply beq_eq in EE; rewrite EE; reflexivity).
    unfold bh_exec in H. cbv zeta in H. destruct (c_intx cn) eqn:Ei; cbn [negb] in H.
    2:{ left. injection H as <- _ <-. split; [reflexivity|apply pushed_of_nil; exact NP]. }
    destruct (existsb _ (c_watched cn)); [left; injection H as <- _ <-; split; reflexivity|].
    right. left. revert H. destruct (bexec_queue _ _ _ _ _ _) as [[reps s2] b2] eqn:Eq. intros H. injection H as <- <- <-.
    exists reps. split; [reflexivity|]. split; [first [exact Eq|reflexivity]|reflexivity]. }
  destruct (beq (upper nm) (bs "DISCARD")) eqn:ED.
  { left. assert (NP : is_push_name (upper nm) = false) by (apply beq_eq in ED; rewrite ED; reflexivity).
    rewrite (pushed_of_nil _ nm rest rep NP). cbn [orb] in H. destruct (process_frame now s c _ None). injection H as _ _ <-.
    split; [reflexivity|destruct (c_intx cn); reflexivity]. }
  rewrite NW, NU, NA in H. cbn [orb] in H.
  destruct (c_intx cn && negb (mem_name (upper nm) tx_not_queued)) eqn:Eq.
  { left. apply andb_true_iff in Eq. destruct Eq as [Ei _]. rewrite Ei.
    destruct (process_frame now s c _ None). injection H as _ _ <-. split; reflexivity. }
  assert (Ei : c_intx cn = false).
  { destruct (c_intx cn); [|reflexivity]. cbn [andb] in Eq. apply negb_false_iff in Eq.
    unfold mem_name, tx_not_queued in Eq. cbn [bmem] in Eq. rewrite EM, EE, ED, NW, NU in Eq. discriminate. }
  rewrite Ei. right. right. exists nm, rest. split; [reflexivity|]. split; [exact H|reflexivity].
Qed.

(** ================= every Blocked connection waits on one key ================= *)
Definition SK (b : blocking) : Prop := forall c st, zlookup c (b_blk b) = Some st -> exists k, bl_keys st = [k].
Lemma h_bpop_keys left now s b c dbi nm rest oms rep s' b' :
  len (FBulk nm :: rest) = 3 -> h_bpop left now s b c dbi (FBulk nm :: rest) oms = (rep, s', b') ->
  forall c' st', zlookup c' (b_blk b') = Some st' -> zlookup c' (b_blk b) = Some st' \/ exists k, bl_keys st' = [k].
Proof.
  intros Hlen H. unfold h_bpop in H.
  destruct (len (FBulk nm :: rest) <? 3); [injection H as _ _ <-; auto|].
  destruct (timeout_of _ oms) as [tmo|]; [|injection H as _ _ <-; auto].
  destruct rest as [|kf [|tf [|? ?]]]; try (unfold len in Hlen; cbn [length] in Hlen; lia).
  cbn [tl removelast] in H. destruct kf as [| | |k0| | | | | | | | |]; cbn [all_bulks] in H; try (injection H as _ _ <-; auto).
  destruct (fast_path left (get_db s dbi) [k0]) as [[r|] d1]; [injection H as _ _ <-; auto|].
  destruct (c =? 0); [injection H as _ _ <-; auto|].
  destruct (zlookup c (s_conns s)); injection H as _ _ <-; [|auto].
  intros c' st' Hl. cbn [set_blocked with_blk with_reg b_blk] in Hl. destruct (Z.eq_dec c' c) as [->|Hne].
  - rewrite zlookup_zset_same in Hl. injection Hl as <-. right. exists k0. reflexivity.
  - rewrite zlookup_zset_other in Hl by exact Hne. left. exact Hl.
Qed.

Lemma len_none_delta s s' add rem db k : delta s s' add rem -> 0 <= db ->
  len (list_at s' db k) + ecountm (db, k, None) rem = len (list_at s db k) + ecountm (db, k, None) add.
Proof. intros D Hd. specialize (D db k None Hd). rewrite !occm_none in D. exact D. Qed.

(** ================= one frame ================= *)
Lemma frame_strand now s b c cn f oms rep s' b' :
  cinv s -> agree b -> zlookup 0 (s_conns s) = None ->
  zlookup c (s_conns s) = Some cn -> zlookup c (b_blk b) = None ->
  list_frame f = true -> single_key f = true ->
  SK b -> STRW s (b_reg b) (b_wake b) ->
  bprocess_frame now s b c f None oms = (rep, s', b') ->
  SK b' /\ STRW s' (b_reg b') (b_wake b').
Proof.
  intros CI HA H0 Hc Hnb Hl Hsk HSK HST E.
  destruct (bprocess_frame_delta _ _ _ _ _ _ _ _ _ _ CI Hc Hl E) as (CI' & D).
  destruct (bpf_shape _ _ _ _ _ _ _ _ _ _ CI Hc Hl E) as [[-> Eff]|[(reps & -> & Eq & Eff)|(nm & rest & -> & En & Eff)]].
  - (* nothing for the blocking manager *)
    split; [exact HSK|]. intros db k Hd Hq. pose proof (len_none_delta _ _ _ _ db k D Hd) as L. rewrite Eff, ecount_nil in L.
    pose proof (ecount_nonneg (db, k, None) (frame_effect returned_of s c f rep)). specialize (HST db k Hd Hq). lia.
  - (* EXEC *)
    destruct (bexec_queue_inv _ _ _ _ _ _ _ _ _ HA Eq) as (_ & _ & _ & _ & Hblk).
    destruct (bexec_queue_rel _ _ _ _ _ _ _ _ _ Eq) as (reps1 & E1 & R). cbn [rev app] in E1. subst reps1.
    split; [intros c' st' Hl'; rewrite Hblk in Hl'; eapply HSK; exact Hl'|].
    intros db k Hd Hq. destruct (R db k Hq) as [G1 G2]. pose proof (len_none_delta _ _ _ _ db k D Hd) as L. rewrite Eff in L.
    pose proof (ecount_nonneg (db, k, None) (frame_effect returned_of s c f (FArray reps))). specialize (HST db k Hd G1). lia.
  - (* process_normal_command *)
    destruct (bpop_parts (FBulk nm :: rest)) eqn:Hb.
    + (* a blocking pop on one key *)
      cbn [single_key] in Hsk. rewrite Hb in Hsk. apply Z.eqb_eq in Hsk.
      assert (Hpn : pushed_of (c_db cn) (FBulk nm :: rest) rep = []).
      { apply pushed_of_nil. rewrite bpop_parts_names in Hb. apply orb_true_iff in Hb. destruct Hb as [Hb|Hb]; apply beq_eq in Hb; rewrite Hb; reflexivity. }
      assert (Hh : exists left, h_bpop left now s b c (c_db cn) (FBulk nm :: rest) oms = (rep, s', b')).
      { unfold bnormal in En. rewrite bpop_parts_names in Hb. destruct (beq (upper nm) (bs "BLPOP")); [exists true; exact En|].
        cbn [orb] in Hb. rewrite Hb in En. exists false. exact En. }
      destruct Hh as [left Hh].
      destruct (h_bpop_strand _ _ _ _ _ _ _ _ _ _ _ _ CI (ci_db s CI c cn Hc) Hsk Hh) as [W1 W2].
      split.
      * intros c' st' Hl'. destruct (h_bpop_keys _ _ _ _ _ _ _ _ _ _ _ _ Hsk Hh c' st' Hl') as [Ho|Ho]; [eapply HSK; exact Ho|exact Ho].
      * intros db k Hd Hq. rewrite W1. destruct (W2 db k Hq) as [G|G].
        -- pose proof (len_none_delta _ _ _ _ db k D Hd) as L. rewrite Eff, Hpn, ecount_nil in L.
           pose proof (ecount_nonneg (db, k, None) (frame_effect returned_of s c (FArray (FBulk nm :: rest)) rep)). specialize (HST db k Hd G). lia.
        -- pose proof (wcount_nonneg db k (b_wake b)). lia.
    + (* anything else: a push notifies *)
      assert (Hg' : bpop_parts (FBulk nm :: rest) = true -> c <> 0 -> zlookup c (b_blk b) = None /\ exists cn0, zlookup c (s_conns s) = Some cn0) by (intros; congruence).
      destruct (bnormal_inv _ _ _ _ _ _ _ _ _ _ _ HA Hg' En) as (_ & _ & _ & _ & Hblk). rewrite Hb in Hblk.
      pose proof (bnormal_rel _ _ _ _ _ _ _ _ _ _ _ Hb En) as R.
      split; [intros c' st' Hl'; rewrite Hblk in Hl'; eapply HSK; exact Hl'|].
      intros db k Hd Hq. destruct (R db k Hq) as [G1 G2]. pose proof (len_none_delta _ _ _ _ db k D Hd) as L. rewrite Eff in L.
      pose proof (ecount_nonneg (db, k, None) (frame_effect returned_of s c (FArray (FBulk nm :: rest)) rep)). specialize (HST db k Hd G1). lia.
Qed.

(** ================= wake-ups ================= *)
Lemma ecountm_single db k db' k' v :
  ecountm (db, k, None) [(db', k', v)] = if (db =? db') && beq k k' then 1 else 0.
Proof. rewrite ecount_cons, ecount_nil, elem_eqb_spec. cbn [mbeq]. rewrite andb_true_r. lia. Qed.
Lemma wmatch_sym db k u : wmatch db k u = (db =? u_db u) && beq k (u_key u).
Proof. unfold wmatch. rewrite (Zeqb_sym (u_db u) db), (beq_sym (u_key u) k). reflexivity. Qed.

Lemma wake_client_str s b u W :
  agreeW b (u :: W) -> cinv s -> BR b -> SK b -> STRW s (b_reg b) (u :: W) ->
  SK (snd (wake_client s b u)) /\ STRW (fst (wake_client s b u)) (b_reg (snd (wake_client s b u))) W.
Proof.
  intros HA CI HB HSK HST.
  destruct HA as (_ & A2 & _). destruct (A2 u (or_introl eq_refl)) as (st & U1 & U2 & U3 & _). cbn [with_wake b_blk] in U1.
  pose proof (HB _ _ U1) as Hr. rewrite <- U2 in Hr.
  destruct (HSK _ _ U1) as [k0 Hk0]. rewrite Hk0 in U3. cbn [bmem] in U3. rewrite orb_false_r in U3. apply beq_eq in U3.
  unfold wake_client.
  pose proof (on_key_pop_delta (u_left u) (get_db s (u_db u)) (u_key u) (u_db u) (ci_all s CI (u_db u))) as Hp. cbv zeta in Hp.
  pose proof (pop_nil_empty (u_left u) (get_db s (u_db u)) (u_key u) (ci_all s CI (u_db u))) as Hnil.
  destruct (on_key (get_db s (u_db u)) (u_key u) (e_pop (u_left u))) as [r d']. cbn [fst snd] in Hp, Hnil. destruct Hp as (P1 & P2 & P3).
  destruct r; try contradiction; rewrite U1; cbn [fst snd].
  - (* delivered *)
    split.
    + intros c' st' Hl. cbn [unblock emit with_blk b_blk] in Hl. apply zlookup_zremove_some in Hl. eapply HSK; exact Hl.
    + cbn [unblock emit with_blk b_reg].
      assert (D : delta s (set_db s (u_db u) d') [] [(u_db u, u_key u, b0)]).
      { apply (delta_one_db s (set_db s (u_db u) d') (u_db u) d' [] [(u_db u, u_key u, b0)] (ci_len s CI) Hr eq_refl (in_db_nil _)).
        - intros e0 [<-|[]]. reflexivity.
        - intros k x. rewrite ecount_nil, P3. lia. }
      intros db k Hd Hq. pose proof (len_none_delta _ _ _ _ db k D Hd) as L. rewrite ecount_nil, ecountm_single in L.
      specialize (HST db k Hd Hq). rewrite wcount_cons, wmatch_sym in HST. destruct ((db =? u_db u) && beq k (u_key u)); lia.
  - (* nothing there: registered again, on its one key, whose list is empty *)
    split; [intros c' st' Hl; cbn [with_reg b_blk] in Hl; eapply HSK; exact Hl|].
    cbn [with_reg b_reg]. rewrite Hk0.
    assert (D : delta s (set_db s (u_db u) d') [] []).
    { apply (delta_one_db s (set_db s (u_db u) d') (u_db u) d' [] [] (ci_len s CI) Hr eq_refl (in_db_nil _) (in_db_nil _)).
      intros k x. specialize (P3 k x). rewrite ecount_nil in *. lia. }
    intros db k Hd Hq. pose proof (len_none_delta _ _ _ _ db k D Hd) as L. rewrite !ecount_nil in L.
    destruct ((db =? u_db u) && beq k (u_key u)) eqn:Em.
    + (* the key of the wake-up: its list is empty *)
      apply andb_true_iff in Em. destruct Em as [E1 E2]. apply Z.eqb_eq in E1. apply beq_eq in E2. subst db k.
      rewrite list_at_lst. destruct (get_db_after_set s (set_db s (u_db u) d') (u_db u) d' (ci_len s CI) Hr eq_refl) as (G1 & _).
      rewrite G1, (Hnil I). pose proof (wcount_nonneg (u_db u) (u_key u) W). cbn. lia.
    + (* another key: its queue is as before *)
      destruct (reg_get_register (u_db u) (u_conn u) (bl_left st) (bl_dl st) [k0] (b_reg b) (db, k)) as [n [Hn Hiff]].
      assert (n = O).
      { destruct n; [reflexivity|]. exfalso. assert (Hnz : S n <> O) by discriminate. apply Hiff in Hnz. cbn [fst snd bmem] in Hnz.
        destruct Hnz as [Hz Hkk]. rewrite orb_false_r in Hkk. apply beq_eq in Hkk. subst db k k0. rewrite Z.eqb_refl, beq_refl in Em. discriminate. }
      subst n. rewrite Hn in Hq. cbn [repeat] in Hq. rewrite app_nil_r in Hq.
      specialize (HST db k Hd Hq). rewrite wcount_cons, wmatch_sym, Em in HST. lia.
Qed.

Lemma wake_fold_str : forall l s b,
  agreeW b (l ++ b_wake b) -> b_crashed b = false -> cinv s -> BR b -> SK b -> STRW s (b_reg b) (l ++ b_wake b) ->
  SK (snd (fold_left wake_step l (s, b))) /\
  STRW (fst (fold_left wake_step l (s, b))) (b_reg (snd (fold_left wake_step l (s, b)))) (b_wake (snd (fold_left wake_step l (s, b)))).
Proof.
  induction l as [|u l IH]; intros s b HA Hc CI HB HSK HST; cbn [fold_left fst snd]; [split; assumption|].
  rewrite wake_step_eq, Hc. cbn [app] in HA, HST.
  pose proof (agree_wake_client s b u (l ++ b_wake b) HA) as Hnext. rewrite <- (wake_client_wake s b u) in Hnext.
  destruct (wake_client_cons s b u (l ++ b_wake b) HA CI HB) as (W1 & W2 & W3).
  destruct (wake_client_str s b u (l ++ b_wake b) HA CI HB HSK HST) as (S1 & S2).
  rewrite <- (wake_client_wake s b u) in S2.
  destruct (wake_client s b u) as [s1 b1]. cbn [fst snd] in *.
  rewrite Hc in W1. destruct Hnext as [Hx|Hnext]; [congruence|].
  assert (HB1 : BR b1).
  { destruct W3 as [(_ & O2 & _)|(st & v & _ & _ & O4 & _)]; intros c st0 Hl.
    - rewrite O2 in Hl. eapply HB; exact Hl.
    - rewrite O4 in Hl. apply zlookup_zremove_some in Hl. eapply HB; exact Hl. }
  apply IH; assumption.
Qed.

(** ================= the invariant over all single-key list histories ================= *)
Definition sinv (st : sys) : Prop :=
  (exists P R, reach_g st P R) /\ SK (snd st) /\ STRW (fst st) (b_reg (snd st)) (b_wake (snd st)).

Lemma STRW_mono s s' r r' W :
  STRW s r W -> (forall db k, 0 <= db -> len (list_at s' db k) <= len (list_at s db k)) ->
  (forall rk w, In w (reg_get r' rk) -> In w (reg_get r rk)) -> STRW s' r' W.
Proof.
  intros H Hl Hr db k Hd Hq. specialize (Hl db k Hd).
  assert (reg_get r (db, k) <> []) by (eapply nonempty_sub; [apply Hr|exact Hq]). specialize (H db k Hd H0). lia.
Qed.

Lemma ok_sk_cons st e : ok_sk st e = true -> ok_cons st e = true.
Proof. unfold ok_sk. intros H. apply andb_true_iff in H. tauto. Qed.

Lemma sinv_step st e : sinv st -> ok_sk st e = true -> sinv (step st e).
Proof.
  intros ((P & R & HG) & HSK & HST) Hok. pose proof (ok_sk_cons _ _ Hok) as Hokc.
  split; [exists (P ++ pushed_in st e), (R ++ returned_in st e); apply rg_step; assumption|].
  destruct (reach_g_ginv _ _ _ HG) as (HR & Hc & CI & HB & _).
  pose proof (ok_cons_ok _ _ Hokc) as Hok1.
  destruct st as [s b]. cbn [fst snd] in *.
  destruct (reach_inv None _ HR) as [Hi|(HA & H0)]; [cbn [snd] in Hi; congruence|]. cbn [fst snd] in *.
  unfold ok_sk in Hok. apply andb_true_iff in Hok. destruct Hok as [_ Hsk].
  unfold ok_cons in Hokc. apply andb_true_iff in Hokc. destruct Hokc as [_ Hlf].
  cbn [step]. rewrite Hc.
  destruct e as [now c f oms| |now|c|c].
  - (* a request *)
    cbn [ok] in Hok1. destruct (zlookup c (s_conns s)) as [cn|] eqn:Hcn; [|discriminate].
    apply andb_true_iff in Hok1. destruct Hok1 as [Hnb Hq].
    apply negb_true_iff in Hnb. apply is_blocked_false in Hnb.
    unfold frame_step. destruct (bprocess_frame now s b c f None oms) as [[rep s'] b1] eqn:E. cbn [fst snd].
    destruct (frame_strand _ _ _ _ _ _ _ _ _ _ CI HA H0 Hcn Hnb Hlf Hsk HSK HST E) as [S1 S2].
    destruct rep; split; assumption.
  - (* wake-ups *)
    assert (HA' : agreeW (with_wake b (skipn 32 (b_wake b))) (firstn 32 (b_wake b) ++ b_wake (with_wake b (skipn 32 (b_wake b))))).
    { cbn [with_wake b_wake]. unfold agreeW. rewrite firstn_skipn. apply agreeW_self in HA. unfold agreeW in HA. destruct b; exact HA. }
    unfold process_wakeups.
    apply (wake_fold_str (firstn 32 (b_wake b)) s (with_wake b (skipn 32 (b_wake b))) HA' Hc CI HB HSK).
    cbn [with_wake b_reg b_wake]. rewrite firstn_skipn. exact HST.
  - (* timeouts: waiters leave, nothing else *)
    cbn [fst snd]. unfold process_timeouts. destruct (expire_reg now (b_reg b)) as [ex r'] eqn:Ee.
    destruct (timeout_fold ex (with_reg b r')) as (T1 & T2 & _ & T4). cbn [with_reg b_reg b_wake b_blk] in T1, T2, T4.
    split.
    + intros c' st' Hl. rewrite T4 in Hl. destruct (existsb _ ex); [discriminate|]. eapply HSK; exact Hl.
    + rewrite T1, T2. eapply STRW_mono; [exact HST|intros; lia|].
      intros rk w Hw. assert (r' = snd (expire_reg now (b_reg b))) by (rewrite Ee; reflexivity). subst r'.
      rewrite reg_get_expire in Hw. eapply in_filter_sub; exact Hw.
  - (* connect *)
    cbn [fst snd]. split; [exact HSK|]. eapply STRW_mono; [exact HST|intros; apply Z.le_refl|auto].
  - (* disconnect *)
    cbn [fst snd]. destruct (is_blocked b c); cbn [with_dead with_reg b_blk b_reg b_wake].
    + split; [exact HSK|]. eapply STRW_mono; [exact HST|intros; apply Z.le_refl|auto].
    + split; [exact HSK|]. eapply STRW_mono; [exact HST|intros; apply Z.le_refl|].
      intros rk w Hw. rewrite reg_get_unregister_all in Hw. eapply in_filter_sub; exact Hw.
Qed.

Theorem reach_sk_sinv st : reach_sk st -> sinv st.
Proof.
  induction 1.
  - split; [exists [], []; constructor|]. split; [intros c st H; discriminate|]. intros db k _ Hq. cbn in Hq. congruence.
  - apply sinv_step; assumption.
Qed.

(** a key with a waiter holds at most as many elements as wake-ups are under way for it *)
Theorem no_stranding st : reach_sk st -> no_strand st.
Proof. intros H. destruct (reach_sk_sinv st H) as (_ & _ & HS). exact HS. Qed.
(** once the wake-up queue has drained, nobody is blocked on a key that holds an element *)
Theorem no_stranding_drained st : reach_sk st -> b_wake (snd st) = [] ->
  forall db k, 0 <= db -> reg_get (b_reg (snd st)) (db, k) <> [] -> list_at (fst st) db k = [].
Proof.
  intros H Hw db k Hd Hq. pose proof (no_stranding st H db k Hd Hq) as Hl. rewrite Hw in Hl. cbn in Hl.
  destruct (list_at (fst st) db k); [reflexivity|]. unfold len in Hl. cbn [length] in Hl. lia.
Qed.

Lemma run_reach_sk : forall evs st, reach_sk st -> all_ok_sk st evs = true -> reach_sk (run st evs).
Proof.
  induction evs as [|e evs IH]; intros st H Hok; cbn [run fold_left all_ok_sk] in *; [exact H|].
  apply andb_true_iff in Hok. destruct Hok as [H1 H2]. apply IH; [apply rsk_step; assumption|exact H2].
Qed.
