(** C13: no stranding - in the histories of list commands (blocking pops on any number of keys,
    clients going away at any time), a key with a waiter never holds more elements than wake-ups
    are under way for it. *)
From Ferrous Require Import Base.Bytes Generated Model.Resp Model.Types Model.Strings Model.Lists
  Model.Server Model.Blocking Spec.BlockingSpec Proofs.BytesFacts Proofs.StringsFacts Proofs.ServerFacts
  Proofs.BlockingFacts Proofs.BlockingCons.
From Coq Require Import ZifyBool Lia.
Open Scope Z_scope.

(** ================= wake-up counts ================= *)
Definition wmatch (db : Z) (k : bytes) (u : wakeup) : bool := (u_db u =? db) && beq (u_key u) k.
Lemma wcount_app db k W1 W2 : wcount db k (W1 ++ W2) = wcount db k W1 + wcount db k W2.
Proof. unfold wcount, len. rewrite filter_app, app_length. lia. Qed.
Lemma wcount_cons db k u W : wcount db k (u :: W) = (if wmatch db k u then 1 else 0) + wcount db k W.
Proof. unfold wcount, len, wmatch. cbn [filter]. destruct ((u_db u =? db) && beq (u_key u) k); cbn [length]; lia. Qed.
Lemma wcount_nonneg db k W : 0 <= wcount db k W.
Proof. unfold wcount, len. lia. Qed.
Lemma wcount_nil db k : wcount db k [] = 0.
Proof. reflexivity. Qed.

(** the invariant with an explicit wake list (wake-ups being handled are still under way) *)
Definition STRW (s : server) (r : registry) (W : list wakeup) : Prop :=
  forall db k, 0 <= db -> reg_get r (db, k) <> [] -> len (list_at s db k) <= wcount db k W.

(** [Rel b b' A]: a queue that is not empty afterwards was not empty before, and A more wake-ups
    are under way for its key *)
Definition Rel (b b' : blocking) (A : Z -> bytes -> Z) : Prop :=
  forall db k, reg_get (b_reg b') (db, k) <> [] ->
  reg_get (b_reg b) (db, k) <> [] /\ wcount db k (b_wake b) + A db k <= wcount db k (b_wake b').
Lemma Rel_refl b : Rel b b (fun _ _ => 0).
Proof. intros db k H. split; [exact H|lia]. Qed.
Lemma Rel_trans b1 b2 b3 A1 A2 : Rel b1 b2 A1 -> Rel b2 b3 A2 -> Rel b1 b3 (fun db k => A1 db k + A2 db k).
Proof.
  intros H1 H2 db k H. destruct (H2 db k H) as [G1 G2]. destruct (H1 db k G1) as [G3 G4]. split; [exact G3|lia].
Qed.
Lemma Rel_weaken b b' A A' : Rel b b' A -> (forall db k, A' db k <= A db k) -> Rel b b' A'.
Proof. intros H Hle db k Hq. destruct (H db k Hq) as [G1 G2]. split; [exact G1|]. specialize (Hle db k). lia. Qed.

(** notify_key_ready / notify_n *)
Lemma notify_key_ready_sub b db k rk w :
  In w (reg_get (b_reg (notify_key_ready b db k)) rk) -> In w (reg_get (b_reg b) rk).
Proof.
  unfold notify_key_ready. destruct (reg_get (b_reg b) (db, k)) as [|w0 q] eqn:Eg; [auto|].
  cbn [with_wake with_reg b_reg]. rewrite reg_get_unregister. intros H.
  assert (H1 : In w (reg_get (reg_put (b_reg b) (db, k) q) rk)) by (destruct (fst rk =? db); [eapply in_filter_sub; exact H|exact H]).
  destruct (rk_eqb rk (db, k)) eqn:E.
  - apply rk_eqb_eq in E. subst rk. rewrite reg_get_put_same in H1. rewrite Eg. right. exact H1.
  - rewrite reg_get_put_other in H1 by exact E. exact H1.
Qed.
Lemma notify_key_ready_wake b db k :
  reg_get (b_reg b) (db, k) <> [] ->
  forall db2 k2, wcount db2 k2 (b_wake (notify_key_ready b db k)) =
                 wcount db2 k2 (b_wake b) + (if (db =? db2) && beq k k2 then 1 else 0).
Proof.
  intros Hne db2 k2. unfold notify_key_ready. destruct (reg_get (b_reg b) (db, k)) as [|w0 q]; [congruence|].
  cbn [with_wake with_reg b_wake]. rewrite wcount_app, wcount_cons, wcount_nil. unfold wmatch. cbn [u_db u_key]. lia.
Qed.
Lemma nonempty_sub (q q' : list waiter) : (forall w, In w q' -> In w q) -> q' <> [] -> q <> [].
Proof. intros H Hn E. subst q. destruct q' as [|w ?]; [congruence|]. exact (H w (or_introl eq_refl)). Qed.

Lemma notify_n_rel : forall n b db k,
  Rel b (notify_n n b db k) (fun db2 k2 => if (db =? db2) && beq k k2 then Z.of_nat n else 0).
Proof.
  induction n as [|n IH]; intros b db k; cbn [notify_n].
  - eapply Rel_weaken; [apply Rel_refl|]. intros db2 k2. destruct ((db =? db2) && beq k k2); cbn; lia.
  - destruct (reg_get (b_reg b) (db, k)) as [|w0 q] eqn:Eg.
    + (* nobody waits on the key: it cannot have a queue afterwards either *)
      intros db2 k2 Hq. split; [exact Hq|]. destruct ((db =? db2) && beq k k2) eqn:E; [|lia].
      apply andb_true_iff in E. destruct E as [E1 E2]. apply Z.eqb_eq in E1. apply beq_eq in E2. subst. congruence.
    + assert (Hne : reg_get (b_reg b) (db, k) <> []) by (rewrite Eg; discriminate).
      specialize (IH (notify_key_ready b db k) db k).
      intros db2 k2 Hq. destruct (IH db2 k2 Hq) as [G1 G2]. split.
      * eapply nonempty_sub; [|exact G1]. intros w. apply notify_key_ready_sub.
      * rewrite (notify_key_ready_wake b db k Hne db2 k2) in G2. destruct ((db =? db2) && beq k k2); lia.
Qed.

(** ================= pushes ================= *)
Lemma len_bulk_args_le l : len (bulk_args l) <= len l.
Proof. unfold len. induction l as [|f l IH]; cbn [bulk_args length]; [lia|]. destruct f; cbn [length]; lia. Qed.
Lemma h_push_reply_ge left d nm key els n d' :
  h_push left d (FBulk nm :: FBulk key :: els) = (FInt n, d') -> len (bulk_args els) <= n.
Proof.
  unfold h_push. destruct (nparts _ <? 3); [discriminate|].
  unfold key_of, nth_arg. cbn [nth_error arg_bytes skipn].
  destruct (all_bulks els) as [els'|] eqn:Eb; [|discriminate]. rewrite (all_bulks_bulk_args _ _ Eb).
  unfold on_key. destruct (option_map e_val (get_entry d key)) as [[| l0 | | | |]|]; cbn [e_push r_int r_wrongtype]; try discriminate.
  - intros H. injection H as <- _. unfold len. destruct left; rewrite app_length, ?rev_length; lia.
  - intros H. injection H as <- _. unfold len. destruct left; rewrite ?rev_length; lia.
Qed.

Lemma Zeqb_sym a b : (a =? b) = (b =? a).
Proof. destruct (a =? b) eqn:E1, (b =? a) eqn:E2; lia. Qed.

(** the notification after a push: as many wake-ups as elements, or the queue is empty *)
Lemma nap_rel b dbi nm rest rep :
  (forall n key els, rep = FInt n -> is_push_name (upper nm) = true -> rest = FBulk key :: els -> len (bulk_args els) <= n) ->
  Rel b (notify_after_push b dbi (upper nm) (FBulk nm :: rest) rep)
      (fun db k => ecountm (db, k, None) (pushed_of dbi (FBulk nm :: rest) rep)).
Proof.
  intros Hrep. unfold notify_after_push, pushed_of.
  destruct (is_push_name (upper nm)) eqn:Ep.
  2:{ eapply Rel_weaken; [apply Rel_refl|]. intros db k. destruct rest as [|[] ?]; try (rewrite ecount_nil; lia). destruct rep; rewrite ecount_nil; lia. }
  destruct rep; try (eapply Rel_weaken; [apply Rel_refl|]; intros db k; destruct rest as [|[] ?]; rewrite ?ecount_nil; lia).
  destruct rest as [|kf els]; [eapply Rel_weaken; [apply Rel_refl|]; intros db k; rewrite ecount_nil; lia|].
  destruct kf; try (eapply Rel_weaken; [apply Rel_refl|]; intros db k; rewrite ecount_nil; lia).
  pose proof (Hrep z b0 els eq_refl eq_refl eq_refl) as Hn.
  assert (HA : forall db k, ecountm (db, k, None) (map (fun e => (dbi, b0, e)) (bulk_args els))
                            = if (db =? dbi) && beq k b0 then len (bulk_args els) else 0).
  { intros db k. rewrite ecount_tag, occm_none. reflexivity. }
  destruct els as [|e els'].
  - eapply Rel_weaken; [apply Rel_refl|]. intros db k. rewrite HA. cbn [bulk_args]. destruct ((db =? dbi) && beq k b0); cbn; lia.
  - destruct (0 <? z) eqn:Ez.
    + eapply Rel_weaken; [apply notify_n_rel|]. intros db k. rewrite HA, (Zeqb_sym db dbi), (beq_sym k b0).
      destruct ((dbi =? db) && beq b0 k); [|lia].
      pose proof (len_bulk_args_le (e :: els')). unfold len in *. cbn [length] in *. lia.
    + eapply Rel_weaken; [apply Rel_refl|]. intros db k. rewrite HA. destruct ((db =? dbi) && beq k b0); lia.
Qed.

Lemma push_reply_fact now s c dbi nm rest rep s1 :
  NOEXPd (get_db s dbi) ->
  normal_command now s c dbi (FBulk nm :: rest) None = (rep, s1) ->
  forall n key els, rep = FInt n -> is_push_name (upper nm) = true -> rest = FBulk key :: els -> len (bulk_args els) <= n.
Proof.
  intros HN En n key els -> Hp ->. unfold is_push_name in Hp. apply orb_true_iff in Hp.
  destruct Hp as [Hp|Hp]; apply beq_eq in Hp.
  - destruct (h_push true (get_db s dbi) (FBulk nm :: FBulk key :: els)) as [r d'] eqn:Eh.
    assert (He : exec_db now (get_db s dbi) (upper nm) (FBulk nm :: FBulk key :: els) None = Some (r, d')) by (rewrite Hp, exec_db_lpush, Eh; reflexivity).
    destruct (nc_via_exec_db now s c dbi nm (FBulk key :: els) None r d' HN ltac:(rewrite Hp; reflexivity) He) as (s2 & E1 & _).
    rewrite E1 in En. injection En as -> _. eapply h_push_reply_ge; exact Eh.
  - destruct (h_push false (get_db s dbi) (FBulk nm :: FBulk key :: els)) as [r d'] eqn:Eh.
    assert (He : exec_db now (get_db s dbi) (upper nm) (FBulk nm :: FBulk key :: els) None = Some (r, d')) by (rewrite Hp, exec_db_rpush, Eh; reflexivity).
    destruct (nc_via_exec_db now s c dbi nm (FBulk key :: els) None r d' HN ltac:(rewrite Hp; reflexivity) He) as (s2 & E1 & _).
    rewrite E1 in En. injection En as -> _. eapply h_push_reply_ge; exact Eh.
Qed.

(** a command that is not a blocking pop (nor EVAL), through process_normal_command *)
Lemma bnormal_rel now s b c dbi nm rest oms rep s' b' :
  NOEXPd (get_db s dbi) ->
  bpop_parts (FBulk nm :: rest) = false -> beq (upper nm) (bs "EVAL") = false ->
  bnormal now s b c dbi (FBulk nm :: rest) None oms = (rep, s', b') ->
  Rel b b' (fun db k => ecountm (db, k, None) (pushed_of dbi (FBulk nm :: rest) rep)).
Proof.
  intros HN Hb Hev H. rewrite bpop_parts_names in Hb. apply orb_false_iff in Hb. destruct Hb as [Hb1 Hb2].
  unfold bnormal in H. rewrite Hb1, Hb2, Hev in H.
  destruct (normal_command now s c dbi (FBulk nm :: rest) None) as [r s1] eqn:En. cbv zeta in H. injection H as <- <- <-.
  apply nap_rel. eapply push_reply_fact; eauto.
Qed.
Lemma bnormal_badhead_rel now s b c dbi parts oms rep s' b' :
  bnormal now s b c dbi parts None oms = (rep, s', b') ->
  (match parts with FBulk _ :: _ => False | _ => True end) ->
  Rel b b' (fun db k => ecountm (db, k, None) (pushed_of dbi parts rep)).
Proof.
  intros H Hs. destruct (bnormal_badhead _ _ _ _ _ _ _ _ _ _ H Hs) as [_ ->].
  eapply Rel_weaken; [apply Rel_refl|]. intros db k. unfold pushed_of. destruct parts as [|p ?]; [rewrite ecount_nil; lia|].
  destruct p; try (rewrite ecount_nil; lia). contradiction.
Qed.
Lemma list_cmd_not_eval x : bmem x list_cmds = true -> beq x (bs "EVAL") = false.
Proof.
  intros H. apply bmem_In in H. unfold list_cmds in H. cbn [In] in H.
  repeat (destruct H as [H|H]; [subst x; reflexivity|]). contradiction.
Qed.

(** a blocking pop with the id 0 of EXEC never touches the blocking manager *)
Lemma h_bpop_zero left now s b dbi parts oms rep s' b' :
  h_bpop left now s b 0 dbi parts oms = (rep, s', b') -> b' = b.
Proof.
  intros H. unfold h_bpop in H.
  destruct (len parts <? 3); [injection H as _ _ <-; reflexivity|].
  destruct (timeout_of (last parts FNull) oms); [|injection H as _ _ <-; reflexivity].
  destruct (all_bulks (removelast (tl parts))); [|injection H as _ _ <-; reflexivity].
  destruct (fast_path left (get_db s dbi) l) as [[r|] d']; injection H as _ _ <-; reflexivity.
Qed.
(** the queue of an EXEC *)
Lemma bexec_queue_rel now c : forall q s b dbi acc reps s' b',
  cinv s -> c <> 0 -> (exists cn, zlookup c (s_conns s) = Some cn /\ c_db cn = dbi) -> forallb list_parts q = true ->
  bexec_queue now s b c dbi q acc = (reps, s', b') ->
  exists reps1, reps = rev acc ++ reps1 /\
    Rel b b' (fun db k => ecountm (db, k, None) (zip_effects pushed_of dbi q reps1)).
Proof.
  induction q as [|parts q IH]; intros s b dbi acc reps s' b' CI Hc0 Hex Hq H; cbn [bexec_queue] in H.
  - injection H as <- _ <-. exists []. rewrite app_nil_r. split; [reflexivity|]. apply Rel_refl.
  - cbn [forallb] in Hq. apply andb_true_iff in Hq. destruct Hq as [Hp Hq].
    destruct Hex as (cn & Hcn & Hdb). assert (Hr : 0 <= dbi < 16) by (rewrite <- Hdb; eapply ci_db; eauto).
    destruct (beq (queued_name parts) (bs "SELECT")) eqn:Esel.
    + rewrite (bnormal_select _ _ _ _ _ _ _ _ Esel) in H.
      destruct parts as [|p rest]; [discriminate|]. destruct p; try discriminate.
      pose proof Hp as Hp'. unfold list_parts, list_frame in Hp'. apply andb_true_iff in Hp'. destruct Hp' as [Hin Ht]. apply beq_eq in Ht.
      cbn [queued_name] in Esel. rewrite Ht in Esel.
      assert (NP : beq (upper b0) (bs "PING") = false) by (apply beq_eq in Esel; rewrite Esel; reflexivity).
      assert (NE : beq (upper b0) (bs "ECHO") = false) by (apply beq_eq in Esel; rewrite Esel; reflexivity).
      destruct (normal_command now s c dbi (FBulk b0 :: rest) None) as [rep s1] eqn:En.
      destruct (nc_select _ _ _ _ _ _ _ _ _ (proj2 (ci_all s CI dbi)) NP NE Esel En) as (E1 & E2 & E3 & E4).
      destruct (E4 cn Hcn) as (cn1 & Hcn1 & Hdb1). rewrite Hcn1 in H.
      assert (CI1 : cinv s1) by (eapply cinv_after_select; eauto).
      destruct (IH _ _ _ _ _ _ _ CI1 Hc0 (ex_intro _ cn1 (conj Hcn1 eq_refl)) Hq H) as (reps1 & E & R2).
      exists (rep :: reps1). cbn [rev] in E. rewrite <- app_assoc in E. split; [exact E|].
      cbn [zip_effects]. rewrite Hdb in Hdb1. rewrite <- Hdb1.
      rewrite (pushed_of_nil dbi b0 rest rep) by (apply beq_eq in Esel; rewrite Esel; reflexivity). exact R2.
    + destruct (bnormal now s b 0 dbi parts None None) as [[rep s1] b1] eqn:En.
      assert (CI1 : cinv s1).
      { destruct parts as [|p rest].
        - destruct (bnormal_badhead _ _ _ _ _ _ _ _ _ _ En I) as [-> _]. exact CI.
        - destruct p; try (destruct (bnormal_badhead _ _ _ _ _ _ _ _ _ _ En I) as [-> _]; exact CI).
          pose proof Hp as Hp'. unfold list_parts, list_frame in Hp'. apply andb_true_iff in Hp'. destruct Hp' as [Hp' _].
          eapply bnormal_any; eauto. }
      assert (R1 : Rel b b1 (fun db k => ecountm (db, k, None) (pushed_of dbi parts rep))).
      { destruct parts as [|p rest]; [eapply bnormal_badhead_rel; [exact En|exact I]|].
        destruct p; try (eapply bnormal_badhead_rel; [exact En|exact I]).
        pose proof Hp as Hp'. unfold list_parts, list_frame in Hp'. apply andb_true_iff in Hp'. destruct Hp' as [Hin _].
        destruct (bpop_parts (FBulk b0 :: rest)) eqn:Hbp;
          [|eapply bnormal_rel; eauto; [exact (proj2 (ci_all s CI dbi))|apply list_cmd_not_eval; exact Hin]].
        assert (b1 = b).
        { unfold bnormal in En. rewrite bpop_parts_names in Hbp. destruct (beq (upper b0) (bs "BLPOP")); [eapply h_bpop_zero; exact En|].
          cbn [orb] in Hbp. rewrite Hbp in En. eapply h_bpop_zero; exact En. }
        subst b1. eapply Rel_weaken; [apply Rel_refl|]. intros db k. rewrite pushed_of_nil; [rewrite ecount_nil; lia|].
        rewrite bpop_parts_names in Hbp. apply orb_true_iff in Hbp. destruct Hbp as [Hbp|Hbp]; apply beq_eq in Hbp; rewrite Hbp; reflexivity. }
      assert (Hex1 : exists cn1, zlookup c (s_conns s1) = Some cn1 /\ c_db cn1 = dbi).
      { exists cn. rewrite (bnormal_conns0 _ _ _ _ _ _ _ _ _ _ En c Hc0). split; assumption. }
      destruct (IH _ _ _ _ _ _ _ CI1 Hc0 Hex1 Hq H) as (reps1 & E & R2).
      exists (rep :: reps1). cbn [rev] in E. rewrite <- app_assoc in E. split; [exact E|].
      cbn [zip_effects]. rewrite (next_db_other dbi parts rep Esel Hp).
      eapply Rel_weaken; [eapply Rel_trans; eauto|]. intros db k. cbn beta. rewrite ecount_app. lia.
Qed.

(** ================= a blocking pop: every key it names is empty when it blocks ================= *)
Lemma pop_nil_empty left d k : ALLd d ->
  (match fst (on_key d k (e_pop left)) with FBulk _ | FError _ => False | _ => True end) ->
  lst (snd (on_key d k (e_pop left))) k = [].
Proof.
  intros HA Hr. destruct (lview d k) as [l|] eqn:El; [|exfalso; exact (proj1 HA k El)].
  pose proof (pop_view left d k l El) as Hp. destruct (if left then l else rev l) as [|v t]; destruct Hp as [Hp1 Hp2].
  - apply lst_view. exact Hp2.
  - rewrite Hp1 in Hr. contradiction.
Qed.
Lemma len_zero_nil (l : list bytes) : len l = 0 -> l = [].
Proof. destruct l; [reflexivity|]. unfold len. cbn [length]. lia. Qed.
(** a pop that finds nothing changes no list *)
Lemma pop_nil_same left d k : ALLd d ->
  (match fst (on_key d k (e_pop left)) with FBulk _ => False | _ => True end) ->
  forall k', len (lst (snd (on_key d k (e_pop left))) k') = len (lst d k').
Proof.
  intros HA Hr k'. pose proof (on_key_pop_delta left d k 0 HA) as Hp. cbv zeta in Hp. destruct Hp as (_ & _ & P3).
  specialize (P3 k' None). rewrite !occm_none in P3. destruct (fst (on_key d k (e_pop left))); try (rewrite ecount_nil in P3; lia). contradiction.
Qed.
Lemma fast_path_none left : forall keys d d', ALLd d -> fast_path left d keys = (None, d') ->
  (forall k', len (lst d' k') = len (lst d k')) /\ forall k, bmem k keys = true -> lst d' k = [].
Proof.
  induction keys as [|k0 keys IH]; intros d d' HA H; cbn [fast_path] in H.
  - injection H as <-. split; [reflexivity|intros k Hk; discriminate].
  - pose proof (on_key_pop_delta left d k0 0 HA) as Hp. cbv zeta in Hp.
    pose proof (pop_nil_empty left d k0 HA) as Hnil. pose proof (pop_nil_same left d k0 HA) as Hsame.
    destruct (on_key d k0 (e_pop left)) as [r d1]. cbn [fst snd] in *. destruct Hp as (P1 & P2 & _).
    destruct r; try contradiction; try discriminate.
    destruct (IH d1 d' P1 H) as (I1 & I2). split.
    + intros k'. rewrite I1. apply Hsame. exact I.
    + intros k Hk. cbn [bmem] in Hk. apply orb_true_iff in Hk. destruct Hk as [Hk|Hk]; [|apply I2; exact Hk].
      apply beq_eq in Hk. subst k. apply len_zero_nil. rewrite I1, (Hnil I). reflexivity.
Qed.
Lemma list_at_set_db s dbi d1 db k : cinv s -> 0 <= dbi < 16 -> 0 <= db ->
  list_at (set_db s dbi d1) db k = if db =? dbi then lst d1 k else list_at s db k.
Proof.
  intros CI Hr Hd. rewrite !list_at_lst. destruct (get_db_after_set s (set_db s dbi d1) dbi d1 (ci_len s CI) Hr eq_refl) as (G1 & G2 & _).
  destruct (db =? dbi) eqn:E; [apply Z.eqb_eq in E; subst; rewrite G1; reflexivity|]. rewrite G2 by lia. reflexivity.
Qed.

Lemma h_bpop_strand left now s b c dbi parts oms rep s' b' :
  cinv s -> 0 <= dbi < 16 ->
  h_bpop left now s b c dbi parts oms = (rep, s', b') ->
  b_wake b' = b_wake b /\
  forall db k, 0 <= db -> reg_get (b_reg b') (db, k) <> [] -> reg_get (b_reg b) (db, k) <> [] \/ len (list_at s' db k) = 0.
Proof.
  intros CI Hr H. unfold h_bpop in H.
  assert (Same : forall r0 s0, (r0, s0, b) = (rep, s', b') ->
            b_wake b' = b_wake b /\ forall db k, 0 <= db -> reg_get (b_reg b') (db, k) <> [] -> reg_get (b_reg b) (db, k) <> [] \/ len (list_at s' db k) = 0).
  { intros r0 s0 E. injection E as _ _ <-. split; [reflexivity|]. intros db k _ Hq. left. exact Hq. }
  destruct (len parts <? 3); [eapply Same; exact H|].
  destruct (timeout_of _ oms) as [tmo|]; [|eapply Same; exact H].
  destruct (all_bulks (removelast (tl parts))) as [keys|]; [|eapply Same; exact H].
  destruct (fast_path left (get_db s dbi) keys) as [[r|] d1] eqn:Ef; [eapply Same; exact H|].
  destruct (c =? 0); [eapply Same; exact H|].
  destruct (fast_path_none left keys _ _ (ci_all s CI dbi) Ef) as (_ & Hnil).
  assert (Blk : forall bx, b_wake bx = b_wake b ->
            b_reg bx = register (b_reg b) dbi c keys left (option_map (fun ms => now + ms) tmo) (b_seq b) ->
            (FNoResponse, set_db s dbi d1, bx) = (rep, s', b') ->
            b_wake b' = b_wake b /\ forall db k, 0 <= db -> reg_get (b_reg b') (db, k) <> [] -> reg_get (b_reg b) (db, k) <> [] \/ len (list_at s' db k) = 0).
  { intros bx W1 W2 E. injection E as _ <- <-. split; [exact W1|]. intros db k Hd Hq. rewrite W2 in Hq.
    destruct (reg_get_register dbi c left (option_map (fun ms => now + ms) tmo) (b_seq b) keys (b_reg b) (db, k)) as [n [Hn Hiff]]. rewrite Hn in Hq.
    destruct (reg_get (b_reg b) (db, k)) as [|w0 q0] eqn:Eq0; [|left; discriminate]. right.
    assert (Hnz : n <> O) by (destruct n; [cbn in Hq; congruence|discriminate]).
    apply Hiff in Hnz. cbn [fst snd] in Hnz. destruct Hnz as [-> Hk].
    rewrite (list_at_set_db s dbi d1 dbi k CI Hr Hd), Z.eqb_refl, (Hnil k Hk). reflexivity. }
  destruct (zlookup c (s_conns s)); (eapply Blk; [| |exact H]; reflexivity).
Qed.

(** ================= the three ways a list frame touches the blocking manager ================= *)
Lemma bpf_shape now s b c cn f oms rep s' b' :
  cinv s -> zlookup c (s_conns s) = Some cn -> list_frame f = true ->
  bprocess_frame now s b c f None oms = (rep, s', b') ->
  (b' = b /\ frame_effect pushed_of s c f rep = [])
  \/ (exists reps, rep = FArray reps /\
        bexec_queue now (set_conn s c (clear_tx cn)) b c (c_db cn) (c_queue cn) [] = (reps, s', b') /\
        frame_effect pushed_of s c f rep = zip_effects pushed_of (c_db cn) (c_queue cn) reps)
  \/ (exists nm rest, f = FArray (FBulk nm :: rest) /\
        bnormal now s b c (c_db cn) (FBulk nm :: rest) None oms = (rep, s', b') /\
        frame_effect pushed_of s c f rep = pushed_of (c_db cn) (FBulk nm :: rest) rep).
Proof.
  intros CI Hc Hl H. unfold bprocess_frame in H.
  assert (NoEff : (match f with FArray (FBulk _ :: _) => False | _ => True end) -> frame_effect pushed_of s c f rep = []).
  { intros Hs. unfold frame_effect. rewrite Hc. destruct f; try reflexivity. destruct l as [|p ?]; try reflexivity. destruct p; try reflexivity. contradiction. }
  assert (Pass0 : (match f with FArray (FBulk _ :: _) => False | _ => True end) ->
            (let (r, s'0) := process_frame now s c f None in (r, s'0, b)) = (rep, s', b') -> b' = b /\ frame_effect pushed_of s c f rep = []).
  { intros Hs E. destruct (process_frame now s c f None). injection E as _ _ <-. split; [reflexivity|apply NoEff; exact Hs]. }
  destruct f as [| | | | |l| | | | | | |]; try (left; apply Pass0; [exact I|exact H]).
  destruct l as [|first rest]; [left; apply Pass0; [exact I|exact H]|].
  destruct first as [| | |nm| | | | | | | | |]; try (left; apply Pass0; [exact I|exact H]).
  clear Pass0 NoEff.
  cbn [list_frame] in Hl. apply andb_true_iff in Hl. destruct Hl as [Hin Htrim]. apply beq_eq in Htrim.
  rewrite Hc in H. rewrite Htrim in H. rewrite (ci_pw s CI) in H. cbn [andb] in H.
  destruct (list_cmd_not_other _ Hin) as (NW & NU & NA).
  unfold frame_effect. rewrite Hc.
  destruct (c_intx cn && negb (mem_name (upper nm) tx_not_queued)) eqn:Eq.
  { left. apply andb_true_iff in Eq. destruct Eq as [Ei Eq]. rewrite Ei.
    assert (NE : beq (upper nm) (bs "EXEC") = false).
    { destruct (beq (upper nm) (bs "EXEC")) eqn:EE; [|reflexivity]. apply beq_eq in EE. rewrite EE in Eq. vm_compute in Eq. discriminate. }
    rewrite NE. destruct (process_frame now s c _ None). injection H as _ _ <-. split; reflexivity. }
  destruct (beq (upper nm) (bs "MULTI")) eqn:EM.
  { left. assert (NE : beq (upper nm) (bs "EXEC") = false) by (apply beq_eq in EM; rewrite EM; reflexivity).
    assert (NP : is_push_name (upper nm) = false) by (apply beq_eq in EM; rewrite EM; reflexivity).
    rewrite NE, (pushed_of_nil _ nm rest rep NP). destruct (process_frame now s c _ None). injection H as _ _ <-.
    split; [reflexivity|destruct (c_intx cn); reflexivity]. }
  destruct (beq (upper nm) (bs "EXEC")) eqn:EE.
  { assert (NP : is_push_name (upper nm) = false) by (apply beq_eq in EE; rewrite EE; reflexivity).
    unfold bh_exec in H. cbv zeta in H. destruct (c_intx cn) eqn:Ei; cbn [negb] in H.
    2:{ left. injection H as <- _ <-. split; [reflexivity|apply pushed_of_nil; exact NP]. }
    destruct (watch_violated now s cn); [left; injection H as <- _ <-; split; reflexivity|].
    right. left. revert H. destruct (bexec_queue _ _ _ _ _ _ _) as [[reps s2] b2] eqn:Eq2. intros H. injection H as <- <- <-.
    exists reps. split; [reflexivity|]. split; [first [exact Eq2|reflexivity]|reflexivity]. }
  destruct (beq (upper nm) (bs "DISCARD")) eqn:ED.
  { left. assert (NP : is_push_name (upper nm) = false) by (apply beq_eq in ED; rewrite ED; reflexivity).
    rewrite (pushed_of_nil _ nm rest rep NP). cbn [orb] in H. destruct (process_frame now s c _ None). injection H as _ _ <-.
    split; [reflexivity|destruct (c_intx cn); reflexivity]. }
  rewrite NW, NU, NA in H. cbn [orb] in H.
  assert (Ei : c_intx cn = false).
  { destruct (c_intx cn); [|reflexivity]. cbn [andb] in Eq. apply negb_false_iff in Eq.
    unfold mem_name, tx_not_queued in Eq. cbn [bmem] in Eq. rewrite EM, EE, ED, NW, NU in Eq. discriminate. }
  rewrite Ei. right. right. exists nm, rest. split; [reflexivity|]. split; [exact H|reflexivity].
Qed.

Lemma len_none_delta s s' add rem db k : delta s s' add rem -> 0 <= db ->
  len (list_at s' db k) + ecountm (db, k, None) rem = len (list_at s db k) + ecountm (db, k, None) add.
Proof. intros D Hd. specialize (D db k None Hd). rewrite !occm_none in D. exact D. Qed.

(** ================= one frame ================= *)
Lemma frame_strand now s b c cn f oms rep s' b' :
  cinv s -> agree b -> zlookup 0 (s_conns s) = None ->
  zlookup c (s_conns s) = Some cn -> zlookup c (b_blk b) = None -> wakes_for c (b_wake b) = [] ->
  list_frame f = true ->
  STRW s (b_reg b) (b_wake b) ->
  bprocess_frame now s b c f None oms = (rep, s', b') ->
  STRW s' (b_reg b') (b_wake b').
Proof.
  intros CI HA H0 Hc Hnb Hnw Hl HST E.
  assert (Hc0 : c <> 0) by (intros E0; subst c; congruence).
  destruct (bprocess_frame_delta _ _ _ _ _ _ _ _ _ _ CI Hc0 Hc Hl E) as (CI' & D).
  destruct (bpf_shape _ _ _ _ _ _ _ _ _ _ CI Hc Hl E) as [[-> Eff]|[(reps & -> & Eq & Eff)|(nm & rest & -> & En & Eff)]].
  - (* nothing for the blocking manager *)
    intros db k Hd Hq. pose proof (len_none_delta _ _ _ _ db k D Hd) as L. rewrite Eff, ecount_nil in L.
    pose proof (ecount_nonneg (db, k, None) (frame_effect returned_of s c f rep)). specialize (HST db k Hd Hq). lia.
  - (* EXEC *)
    assert (CI1 : cinv (set_conn s c (clear_tx cn))) by (eapply cinv_set_conn; eauto; reflexivity).
    assert (Hex : exists cn1, zlookup c (s_conns (set_conn s c (clear_tx cn))) = Some cn1 /\ c_db cn1 = c_db cn).
    { exists (clear_tx cn). cbn [set_conn s_conns]. rewrite zlookup_zset_same. split; reflexivity. }
    destruct (bexec_queue_rel _ _ _ _ _ _ _ _ _ _ CI1 Hc0 Hex (ci_q s CI c cn Hc) Eq) as (reps1 & E1 & R). cbn [rev app] in E1. subst reps1.
    intros db k Hd Hq. destruct (R db k Hq) as [G1 G2]. pose proof (len_none_delta _ _ _ _ db k D Hd) as L. rewrite Eff in L.
    pose proof (ecount_nonneg (db, k, None) (frame_effect returned_of s c f (FArray reps))). specialize (HST db k Hd G1). lia.
  - (* process_normal_command *)
    cbn [list_frame] in Hl. apply andb_true_iff in Hl. destruct Hl as [Hin _].
    destruct (bpop_parts (FBulk nm :: rest)) eqn:Hb.
    + (* a blocking pop: it blocks only when every key it names is empty *)
      assert (Hpn : pushed_of (c_db cn) (FBulk nm :: rest) rep = []).
      { apply pushed_of_nil. rewrite bpop_parts_names in Hb. apply orb_true_iff in Hb. destruct Hb as [Hb|Hb]; apply beq_eq in Hb; rewrite Hb; reflexivity. }
      destruct (cinv_lazy now s (c_db cn) (upper nm) (FBulk nm :: rest) CI) as [CI1 Edbs].
      assert (Hh : exists left, h_bpop left now (lazy_expire now s (c_db cn) (upper nm) (FBulk nm :: rest)) b c (c_db cn) (FBulk nm :: rest) oms = (rep, s', b')).
      { unfold bnormal in En. rewrite bpop_parts_names in Hb. destruct (beq (upper nm) (bs "BLPOP")); [exists true; exact En|].
        cbn [orb] in Hb. rewrite Hb in En. exists false. exact En. }
      destruct Hh as [left Hh].
      destruct (h_bpop_strand _ _ _ _ _ _ _ _ _ _ _ CI1 (ci_db s CI c cn Hc) Hh) as [W1 W2].
      intros db k Hd Hq. rewrite W1. destruct (W2 db k Hd Hq) as [G|G].
      * pose proof (len_none_delta _ _ _ _ db k D Hd) as L. rewrite Eff, Hpn, ecount_nil in L.
        pose proof (ecount_nonneg (db, k, None) (frame_effect returned_of s c (FArray (FBulk nm :: rest)) rep)). specialize (HST db k Hd G). lia.
      * pose proof (wcount_nonneg db k (b_wake b)). lia.
    + (* anything else: a push notifies *)
      pose proof (bnormal_rel _ _ _ _ _ _ _ _ _ _ _ (proj2 (ci_all s CI (c_db cn))) Hb (list_cmd_not_eval _ Hin) En) as R.
      intros db k Hd Hq. destruct (R db k Hq) as [G1 G2]. pose proof (len_none_delta _ _ _ _ db k D Hd) as L. rewrite Eff in L.
      pose proof (ecount_nonneg (db, k, None) (frame_effect returned_of s c (FArray (FBulk nm :: rest)) rep)). specialize (HST db k Hd G1). lia.
Qed.

(** ================= wake-ups ================= *)
Lemma wmatch_sym db k u : wmatch db k u = (db =? u_db u) && beq k (u_key u).
Proof. unfold wmatch. rewrite (Zeqb_sym (u_db u) db), (beq_sym (u_key u) k). reflexivity. Qed.

(** a wake-up: the element it finds on its key is delivered; when there is none the call is
    registered again (its key is empty) and the head of the queue of every key it names that holds
    an element is notified - a key on which the client is the only waiter has nobody left waiting
    after that, the others satisfied the invariant before; when the client has gone the element
    goes back and the next waiter of the key is notified (0715a3b) *)
Lemma filter_none {A} (f : A -> bool) l : (forall x, In x l -> f x = false) -> filter f l = [].
Proof.
  induction l as [|a l IH]; intros H; cbn [filter]; [reflexivity|]. rewrite (H a (or_introl eq_refl)).
  apply IH. intros x Hx. apply H. right. exact Hx.
Qed.
Lemma llen_of_lst d k : llen_of d k = length (lst d k).
Proof. unfold llen_of, lst, lview. destruct (get_val d k) as [[]|]; reflexivity. Qed.
(** a queue in which only one connection waits is empty once its head has been notified *)
Lemma notify_clears_own b dbi k c :
  (forall w, In w (reg_get (b_reg b) (dbi, k)) -> w_conn w = c) ->
  reg_get (b_reg (notify_key_ready b dbi k)) (dbi, k) = [].
Proof.
  intros Hc. unfold notify_key_ready. destruct (reg_get (b_reg b) (dbi, k)) as [|w q] eqn:Eg; [exact Eg|].
  cbn [with_wake with_reg b_reg]. rewrite reg_get_unregister. cbn [fst]. rewrite Z.eqb_refl, reg_get_put_same.
  apply filter_none. intros x Hx. unfold not_conn.
  rewrite (Hc x (or_intror Hx)), (Hc w (or_introl eq_refl)), Z.eqb_refl. reflexivity.
Qed.
Lemma renotify_clears d dbi c k : forall keys b,
  (forall w, In w (reg_get (b_reg b) (dbi, k)) -> w_conn w = c) ->
  bmem k keys = true -> llen_of d k <> O ->
  reg_get (b_reg (renotify d b dbi keys)) (dbi, k) = [].
Proof.
  induction keys as [|k0 keys IH]; intros b Hc Hk Hl; [discriminate|]. rewrite renotify_cons.
  cbn [bmem] in Hk. destruct (beq k k0) eqn:Ek.
  - apply beq_eq in Ek. subst k0. destruct (llen_of d k) eqn:El; [congruence|].
    pose proof (notify_clears_own b dbi k c Hc) as Hn.
    destruct (reg_get (b_reg (renotify d (notify_key_ready b dbi k) dbi keys)) (dbi, k)) as [|w q] eqn:Eg; [reflexivity|].
    exfalso. assert (Hin : In w (reg_get (b_reg (notify_key_ready b dbi k)) (dbi, k)))
      by (apply (renotify_reg_sub d dbi (dbi, k) w keys); rewrite Eg; left; reflexivity).
    rewrite Hn in Hin. destruct Hin.
  - cbn [orb] in Hk. apply IH; [|exact Hk|exact Hl].
    intros w Hw. apply Hc. destruct (llen_of d k0); [exact Hw|eapply notify_key_ready_reg_sub; exact Hw].
Qed.
Lemma wcount_renotified b db k db2 k2 :
  wcount db2 k2 (renotified b db k) =
  if (db2 =? db) && beq k2 k then (match reg_get (b_reg b) (db, k) with [] => 0 | _ => 1 end) else 0.
Proof.
  unfold renotified. destruct (reg_get (b_reg b) (db, k)) as [|w q].
  - rewrite wcount_nil. destruct ((db2 =? db) && beq k2 k); reflexivity.
  - rewrite wcount_cons, wcount_nil, wmatch_sym. cbn [u_db u_key]. destruct ((db2 =? db) && beq k2 k); reflexivity.
Qed.
(** the AOF record of a served pop (293eff6) does not touch the lists *)
Lemma STRW_log_pop s r W dbi lf k : STRW s r W -> STRW (log_pop s dbi lf k) r W.
Proof. intros H db kk Hd Hq. specialize (H db kk Hd Hq). rewrite !list_at_lst in *. rewrite get_db_log_pop. exact H. Qed.
Lemma wake_client_str now s b u W ex :
  agreeW b (u :: W) -> cinv s -> BR b -> STRW s (b_reg b) (u :: W) ->
  b_wake (snd (wake_client now s b u)) = b_wake b ++ ex ->
  STRW (fst (wake_client now s b u)) (b_reg (snd (wake_client now s b u))) (W ++ ex).
Proof.
  intros HA CI HB HST.
  destruct HA as (_ & A2 & _). destruct (A2 u (or_introl eq_refl)) as (_ & U). cbn [with_wake b_blk] in U.
  pose proof (ci_all s CI (u_db u)) as HAd.
  unfold wake_client. rewrite purge_noexp by (exact (proj2 HAd)). cbn [fst].
  pose proof (on_key_pop_delta (u_left u) (get_db s (u_db u)) (u_key u) (u_db u) HAd) as Hp. cbv zeta in Hp.
  pose proof (pop_nil_empty (u_left u) (get_db s (u_db u)) (u_key u) HAd) as Hnil.
  pose proof (pop_nil_same (u_left u) (get_db s (u_db u)) (u_key u) HAd) as Hsame.
  destruct (on_key (get_db s (u_db u)) (u_key u) (e_pop (u_left u))) as [r d'] eqn:Epop. cbn [fst snd] in Hp, Hnil, Hsame. destruct Hp as (P1 & P2 & P3).
  destruct (zlookup (u_conn u) (b_blk b)) as [st|] eqn:Eb.
  - (* the connection is still Blocked *)
    destruct (U st eq_refl) as (U1 & U2 & U3). pose proof (HB _ _ Eb) as Hr. rewrite <- U1 in Hr.
    assert (Fin : forall d2, (forall k', len (lst d2 k') <= len (lst (get_db s (u_db u)) k')) ->
              len (lst d2 (u_key u)) + 1 <= len (lst (get_db s (u_db u)) (u_key u)) \/ lst d2 (u_key u) = [] ->
              STRW (set_db s (u_db u) d2) (b_reg b) W).
    { intros d2 Hle Hkey db k Hd Hq. specialize (HST db k Hd Hq). rewrite wcount_cons, wmatch_sym in HST.
      rewrite (list_at_set_db s (u_db u) d2 db k CI Hr Hd).
      destruct (db =? u_db u) eqn:E1; cbn [andb] in HST; [|cbv iota in HST; lia]. apply Z.eqb_eq in E1. subst db. specialize (Hle k).
      rewrite list_at_lst in HST.
      destruct (beq k (u_key u)) eqn:E2; cbv iota in HST; [|lia]. apply beq_eq in E2. subst k.
      destruct Hkey as [Hk|Hk]; [lia|]. rewrite Hk. pose proof (wcount_nonneg (u_db u) (u_key u) W). cbn. lia. }
    destruct r; try contradiction; cbn [fst snd].
    + intros E. cbn [unblock emit with_blk b_wake] in E. apply app_self_nil in E. subst ex. rewrite app_nil_r.
      cbn [unblock emit with_blk b_reg]. apply STRW_log_pop, Fin.
      * intros k'. specialize (P3 k' None). rewrite !occm_none in P3. pose proof (ecount_nonneg (u_db u, k', None) [(u_db u, u_key u, b0)]). lia.
      * left. specialize (P3 (u_key u) None). rewrite !occm_none, ecount_cons, ecount_nil, elem_eqb_spec, Z.eqb_refl, beq_refl in P3. cbn [mbeq andb] in P3. lia.
    + (* nothing there: registered again, the heads of the keys that hold an element notified *)
      intros E db k Hd Hq. fold (again b u st) in Hq, E.
      rewrite (list_at_set_db s (u_db u) d' db k CI Hr Hd).
      assert (Hq0 : reg_get (b_reg (again b u st)) (db, k) <> [])
        by (eapply nonempty_sub; [|exact Hq]; intros w; apply renotify_reg_sub).
      rewrite wcount_app. pose proof (wcount_nonneg db k ex) as Hex. pose proof (wcount_nonneg db k W) as HW.
      destruct (reg_get (b_reg b) (db, k)) as [|w0 q0] eqn:Eq0.
      * (* nobody else waited on the key: the client is alone in the queue *)
        destruct (reg_get_reregister (u_db u) (u_conn u) (bl_left st) (bl_dl st) (u_at u) (bl_keys st) (b_reg b) (db, k)) as (_ & _ & R3).
        cbn [fst snd] in R3. destruct R3 as [[R3 R4]|R3].
        2:{ cbn [again with_reg b_reg] in Hq0. rewrite R3, Eq0 in Hq0. congruence. }
        subst db. rewrite Z.eqb_refl.
        destruct (llen_of d' k) eqn:El.
        -- rewrite llen_of_lst in El. unfold len. lia.
        -- exfalso. apply Hq. apply (renotify_clears d' (u_db u) (u_conn u) k); [|exact R4|congruence].
           intros w Hw. cbn [again with_reg b_reg] in Hw. apply in_reg_get_reregister in Hw.
           destruct Hw as [->|Hw]; [reflexivity|]. rewrite Eq0 in Hw. destruct Hw.
      * (* the key had a waiter: the invariant held for it, and the lists are as they were *)
        assert (Hqb : reg_get (b_reg b) (db, k) <> []) by (rewrite Eq0; discriminate).
        specialize (HST db k Hd Hqb). rewrite wcount_cons, wmatch_sym in HST.
        destruct (db =? u_db u) eqn:E1; cbn [andb] in HST; [|cbv iota in HST; lia].
        apply Z.eqb_eq in E1. subst db. rewrite list_at_lst in HST.
        destruct (beq k (u_key u)) eqn:E2; cbv iota in HST.
        -- apply beq_eq in E2. subst k. rewrite (Hnil I). unfold len. cbn [length]. lia.
        -- rewrite (Hsame I k). lia.
  - (* the client has gone *)
    destruct r; try contradiction; cbn [fst snd]; intros E.
    + (* the element goes back: the lists are as before, the next waiter of the key is notified *)
      rewrite BlockingFacts.notify_key_ready_wake in E. apply app_inv_head in E. subst ex.
      destruct (pop_push_back _ _ _ _ _ HAd Epop) as (B1 & B2).
      assert (D : delta s (set_db s (u_db u) (snd (on_key d' (u_key u) (e_push (u_left u) [b0])))) [] []).
      { eapply delta_same_counts; [reflexivity|]. intros k x. rewrite B2. reflexivity. }
      intros db k Hd Hq. pose proof (len_none_delta _ _ _ _ db k D Hd) as L. rewrite !ecount_nil in L.
      assert (Hq0 : reg_get (b_reg b) (db, k) <> []) by (eapply nonempty_sub; [|exact Hq]; intros w; apply notify_key_ready_sub).
      specialize (HST db k Hd Hq0). rewrite wcount_cons, wmatch_sym in HST. rewrite wcount_app, wcount_renotified.
      destruct ((db =? u_db u) && beq k (u_key u)) eqn:Em; [|lia].
      apply andb_true_iff in Em. destruct Em as [E1 E2]. apply Z.eqb_eq in E1. apply beq_eq in E2. subst db k.
      destruct (reg_get (b_reg b) (u_db u, u_key u)); [congruence|lia].
    + (* nothing there *)
      apply app_self_nil in E. subst ex. rewrite app_nil_r.
      assert (D : delta s (set_db s (u_db u) d') [] []).
      { eapply delta_same_counts; [reflexivity|]. intros k x. specialize (P3 k x). rewrite ecount_nil in P3. unfold get_db in P3. lia. }
      intros db k Hd Hq. pose proof (len_none_delta _ _ _ _ db k D Hd) as L. rewrite !ecount_nil in L.
      specialize (HST db k Hd Hq). rewrite wcount_cons, wmatch_sym in HST.
      destruct ((db =? u_db u) && beq k (u_key u)) eqn:Em; [|lia].
      apply andb_true_iff in Em. destruct Em as [E1 E2]. apply Z.eqb_eq in E1. apply beq_eq in E2. subst db k.
      rewrite (list_at_lst s (u_db u)) in L. pose proof (Hsame I (u_key u)) as Hs. rewrite (Hnil I) in Hs. unfold len in Hs at 1. cbn [length] in Hs.
      pose proof (wcount_nonneg (u_db u) (u_key u) W). lia.
Qed.

Lemma wake_fold_str now : forall l s b,
  agreeW b (l ++ b_wake b) -> b_crashed b = false -> cinv s -> BR b ->
  STRW s (b_reg b) (l ++ b_wake b) ->
  STRW (fst (fold_left (wake_step now) l (s, b))) (b_reg (snd (fold_left (wake_step now) l (s, b)))) (b_wake (snd (fold_left (wake_step now) l (s, b)))).
Proof.
  induction l as [|u l IH]; intros s b HA Hc CI HB HST; cbn [fold_left fst snd]; [exact HST|].
  rewrite wake_step_eq, Hc. cbn [app] in HA, HST.
  pose proof (agree_wake_next now s b u l HA) as Hnext.
  destruct (wake_client_cons now s b u (l ++ b_wake b) HA CI HB) as (W1 & W2 & W3).
  destruct (wake_client_wake now s b u) as (ex & E & _).
  pose proof (wake_client_str now s b u (l ++ b_wake b) ex HA CI HB HST E) as S2.
  rewrite <- app_assoc, <- E in S2.
  destruct (wake_client now s b u) as [s1 b1]. cbn [fst snd] in *.
  rewrite Hc in W1.
  assert (HB1 : BR b1).
  { destruct W3 as [(_ & O2 & _)|(st & k & v & _ & _ & O4 & _)]; intros c st0 Hl.
    - rewrite O2 in Hl. eapply HB; exact Hl.
    - rewrite O4 in Hl. apply zlookup_zremove_some in Hl. eapply HB; exact Hl. }
  apply IH; assumption.
Qed.

(** ================= the wake-up that finds nothing (repair of stolen-wakeup-overtakes) ================= *)
(** a notification leaves the waiters of the other connections where they are *)
Lemma notify_keeps_others b dbi k w0 q k' w :
  reg_get (b_reg b) (dbi, k) = w0 :: q -> In w (reg_get (b_reg b) (dbi, k')) -> w_conn w <> w_conn w0 ->
  In w (reg_get (b_reg (notify_key_ready b dbi k)) (dbi, k')).
Proof.
  intros Eg Hw Hne. destruct (fifo_serve_head b dbi k w0 q Eg) as (_ & F2 & F3). cbv zeta in F2, F3.
  assert (Hf : not_conn (w_conn w0) w = true) by (unfold not_conn; lia).
  destruct (rk_eqb (dbi, k') (dbi, k)) eqn:E.
  - apply rk_eqb_eq in E. injection E as ->. rewrite F2. rewrite Eg in Hw. apply filter_In. split; [|exact Hf].
    destruct Hw as [<-|Hw]; [congruence|exact Hw].
  - rewrite (F3 k' E). apply filter_In. split; [exact Hw|exact Hf].
Qed.
(** the client keeps all its registrations, or it is woken itself *)
Lemma renotify_self d dbi c t (K : list bytes) : forall keys b,
  (forall rk w, In w (reg_get (b_reg b) rk) -> w_conn w = c -> w_at w = t) ->
  (forall k, bmem k K = true -> exists w, In w (reg_get (b_reg b) (dbi, k)) /\ w_conn w = c /\ w_at w = t) ->
  (forall k, bmem k K = true -> exists w, In w (reg_get (b_reg (renotify d b dbi keys)) (dbi, k)) /\ w_conn w = c /\ w_at w = t)
  \/ exists x, In x (renotified_l d b dbi keys) /\ u_conn x = c /\ u_at x = t /\ bmem (u_key x) keys = true.
Proof.
  induction keys as [|k0 keys IH]; intros b Hst HP; [left; exact HP|]. rewrite renotify_cons. cbn [renotified_l].
  assert (Weak : forall l, (exists x, In x l /\ u_conn x = c /\ u_at x = t /\ bmem (u_key x) keys = true) ->
            forall l0, exists x, In x (l0 ++ l) /\ u_conn x = c /\ u_at x = t /\ bmem (u_key x) (k0 :: keys) = true).
  { intros l (x & X1 & X2 & X3 & X4) l0. exists x. split; [apply in_or_app; right; exact X1|]. split; [exact X2|]. split; [exact X3|].
    cbn [bmem]. rewrite X4. apply orb_true_r. }
  destruct (llen_of d k0).
  { destruct (IH b Hst HP) as [G|G]; [left; exact G|right; exact (Weak _ G [])]. }
  destruct (reg_get (b_reg b) (dbi, k0)) as [|w0 q] eqn:Eg.
  { assert (En : notify_key_ready b dbi k0 = b) by (unfold notify_key_ready; rewrite Eg; reflexivity). rewrite En.
    destruct (IH b Hst HP) as [G|G]; [left; exact G|right; exact (Weak _ G _)]. }
  destruct (Z.eq_dec (w_conn w0) c) as [Ec|Ec].
  - (* the client is the head: it is woken *)
    right. exists {| u_conn := w_conn w0; u_db := dbi; u_key := k0; u_left := w_left w0; u_at := w_at w0 |}.
    split; [apply in_or_app; left; unfold renotified; rewrite Eg; left; reflexivity|]. cbn [u_conn u_at u_key].
    split; [exact Ec|]. split; [apply (Hst (dbi, k0) w0); [rewrite Eg; left; reflexivity|exact Ec]|].
    cbn [bmem]. rewrite beq_refl. reflexivity.
  - (* somebody who blocked earlier is: the client stays where it is *)
    destruct (IH (notify_key_ready b dbi k0)) as [G|G]; [| |left; exact G|right; exact (Weak _ G _)].
    + intros rk w Hw. apply (Hst rk). eapply notify_key_ready_reg_sub; exact Hw.
    + intros k Hk. destruct (HP k Hk) as (w & W1 & W2 & W3). exists w. split; [|split; assumption].
      eapply notify_keeps_others; [exact Eg|exact W1|congruence].
Qed.
(** every key of the call that holds an element gets a wake-up, or has nobody in its queue *)
Lemma renotify_served d dbi k : forall keys b, bmem k keys = true -> llen_of d k <> O ->
  reg_get (b_reg (renotify d b dbi keys)) (dbi, k) = [] \/
  exists x, In x (renotified_l d b dbi keys) /\ u_db x = dbi /\ u_key x = k.
Proof.
  induction keys as [|k0 keys IH]; intros b Hk Hl; [discriminate|]. rewrite renotify_cons. cbn [renotified_l].
  cbn [bmem] in Hk. destruct (beq k k0) eqn:Ek.
  - apply beq_eq in Ek. subst k0. destruct (llen_of d k); [congruence|].
    destruct (reg_get (b_reg b) (dbi, k)) as [|w0 q] eqn:Eg.
    + left. destruct (reg_get (b_reg (renotify d (notify_key_ready b dbi k) dbi keys)) (dbi, k)) as [|w q] eqn:E2; [reflexivity|].
      exfalso. assert (Hin : In w (reg_get (b_reg b) (dbi, k))).
      { eapply notify_key_ready_reg_sub. apply (renotify_reg_sub d dbi (dbi, k) w keys). rewrite E2. left. reflexivity. }
      rewrite Eg in Hin. destruct Hin.
    + right. exists {| u_conn := w_conn w0; u_db := dbi; u_key := k; u_left := w_left w0; u_at := w_at w0 |}.
      split; [apply in_or_app; left; unfold renotified; rewrite Eg; left; reflexivity|split; reflexivity].
  - cbn [orb] in Hk. destruct (llen_of d k0); [apply IH; assumption|].
    destruct (IH (notify_key_ready b dbi k0) Hk Hl) as [G|(x & X1 & X2)]; [left; exact G|].
    right. exists x. split; [apply in_or_app; right; exact X1|exact X2].
Qed.

(** the branch as a whole.  [Hfree]: the connection of a wake-up has no registration (wakes_agree,
    part of the invariant of every reachable state) *)
Theorem empty_wakeup_pops_nothing now s b u st :
  zlookup (u_conn u) (b_blk b) = Some st ->
  (forall rk w, In w (reg_get (b_reg b) rk) -> w_conn w <> u_conn u) ->
  let d := fst (purge_key now (get_db s (u_db u), []) (u_key u)) in
  (match fst (on_key d (u_key u) (e_pop (u_left u))) with FBulk _ => False | _ => True end) ->
  let d' := snd (on_key d (u_key u) (e_pop (u_left u))) in
  let s' := fst (wake_client now s b u) in
  let b' := snd (wake_client now s b u) in
  s' = set_db s (u_db u) d' /\ b_out b' = b_out b /\ b_blk b' = b_blk b /\
  (forall rk w, In w (reg_get (b_reg b') rk) ->
     In w (reg_get (b_reg b) rk) \/ (w_conn w = u_conn u /\ w_at w = u_at u /\ fst rk = u_db u /\ bmem (snd rk) (bl_keys st) = true)) /\
  exists ex, b_wake b' = b_wake b ++ ex /\
    ((forall k, bmem k (bl_keys st) = true ->
        exists w, In w (reg_get (b_reg b') (u_db u, k)) /\ w_conn w = u_conn u /\ w_at w = u_at u)
     \/ exists x, In x ex /\ u_conn x = u_conn u /\ u_at x = u_at u /\ bmem (u_key x) (bl_keys st) = true) /\
    (forall k, bmem k (bl_keys st) = true -> llen_of d' k <> O ->
       reg_get (b_reg b') (u_db u, k) = [] \/ exists x, In x ex /\ u_db x = u_db u /\ u_key x = k).
Proof.
  intros Hst Hfree. cbv zeta. unfold wake_client.
  destruct (on_key (fst (purge_key now (get_db s (u_db u), []) (u_key u))) (u_key u) (e_pop (u_left u))) as [r d'].
  rewrite Hst. cbn [fst snd]. intros Hr.
  assert (Main : let b' := renotify d' (again b u st) (u_db u) (bl_keys st) in
    b_out b' = b_out b /\ b_blk b' = b_blk b /\
    (forall rk w, In w (reg_get (b_reg b') rk) ->
       In w (reg_get (b_reg b) rk) \/ (w_conn w = u_conn u /\ w_at w = u_at u /\ fst rk = u_db u /\ bmem (snd rk) (bl_keys st) = true)) /\
    exists ex, b_wake b' = b_wake b ++ ex /\
      ((forall k, bmem k (bl_keys st) = true ->
          exists w, In w (reg_get (b_reg b') (u_db u, k)) /\ w_conn w = u_conn u /\ w_at w = u_at u)
       \/ exists x, In x ex /\ u_conn x = u_conn u /\ u_at x = u_at u /\ bmem (u_key x) (bl_keys st) = true) /\
      (forall k, bmem k (bl_keys st) = true -> llen_of d' k <> O ->
         reg_get (b_reg b') (u_db u, k) = [] \/ exists x, In x ex /\ u_db x = u_db u /\ u_key x = k)).
  { cbv zeta.
    split; [exact (proj1 (proj2 (renotify_fields _ _ _ _)))|]. split; [exact (proj1 (renotify_fields _ _ _ _))|].
    assert (Hin0 : forall rk w, In w (reg_get (b_reg (again b u st)) rk) ->
              In w (reg_get (b_reg b) rk) \/ (w = mkw (u_conn u) (bl_dl st) (bl_left st) (u_at u) /\ fst rk = u_db u /\ bmem (snd rk) (bl_keys st) = true)).
    { intros rk w Hw. cbn [again with_reg b_reg] in Hw.
      destruct (reg_get_reregister (u_db u) (u_conn u) (bl_left st) (bl_dl st) (u_at u) (bl_keys st) (b_reg b) rk) as (_ & _ & [R3|R3]).
      - apply in_reg_get_reregister in Hw. destruct Hw as [Hw|Hw]; [right; split; [exact Hw|exact R3]|left; exact Hw].
      - rewrite R3 in Hw. left. exact Hw. }
    split.
    { intros rk w Hw. apply renotify_reg_sub in Hw. destruct (Hin0 rk w Hw) as [G|(-> & G2 & G3)]; [left; exact G|].
      right. cbn [mkw w_conn w_at]. repeat split; assumption. }
    exists (renotified_l d' (again b u st) (u_db u) (bl_keys st)).
    split; [apply (renotify_wake d' (u_db u) (bl_keys st) (again b u st))|]. split.
    - apply renotify_self.
      + intros rk w Hw Hc. destruct (Hin0 rk w Hw) as [G|(-> & _)]; [exfalso; exact (Hfree rk w G Hc)|reflexivity].
      + intros k Hk. exists (mkw (u_conn u) (bl_dl st) (bl_left st) (u_at u)). split; [|split; reflexivity].
        cbn [again with_reg b_reg].
        apply (reg_get_reregister (u_db u) (u_conn u) (bl_left st) (bl_dl st) (u_at u) (bl_keys st) (b_reg b) (u_db u, k)).
        split; [reflexivity|exact Hk].
    - intros k Hk Hl. apply renotify_served; assumption. }
  cbv zeta in Main. destruct r; try contradiction; cbn [fst snd]; (split; [reflexivity|exact Main]).
Qed.

(** ================= the invariant over all list-command histories ================= *)
Definition sinv (st : sys) : Prop :=
  (exists P R, reach_g st P R) /\ STRW (fst st) (b_reg (snd st)) (b_wake (snd st)).

Lemma STRW_mono s s' r r' W :
  STRW s r W -> (forall db k, 0 <= db -> len (list_at s' db k) <= len (list_at s db k)) ->
  (forall rk w, In w (reg_get r' rk) -> In w (reg_get r rk)) -> STRW s' r' W.
Proof.
  intros H Hl Hr db k Hd Hq. specialize (Hl db k Hd).
  assert (reg_get r (db, k) <> []) by (eapply nonempty_sub; [apply Hr|exact Hq]). specialize (H db k Hd H0). lia.
Qed.

Lemma sinv_step st e : sinv st -> ok_cons st e = true -> sinv (step st e).
Proof.
  intros ((P & R & HG) & HST) Hokc.
  split; [exists (P ++ pushed_in st e), (R ++ returned_in st e); apply rg_step; assumption|].
  destruct (reach_g_ginv _ _ _ HG) as (HR & Hc & CI & HB & _).
  pose proof (ok_cons_ok _ _ Hokc) as Hok1.
  destruct st as [s b]. cbn [fst snd] in *.
  destruct (reach_inv None _ HR) as [Hi|(HA & H0 & HO & HD)]; [cbn [snd] in Hi; congruence|]. cbn [fst snd] in *.
  unfold ok_cons in Hokc. apply andb_true_iff in Hokc. destruct Hokc as [_ Hlf].
  cbn [step]. rewrite Hc.
  destruct e as [now c f oms|now|now|c|c|].
  - (* a request *)
    cbn [ok] in Hok1. destruct (zlookup c (s_conns s)) as [cn|] eqn:Hcn; [|discriminate].
    apply andb_true_iff in Hok1. destruct Hok1 as [Hnb Hq].
    apply negb_true_iff in Hnb. apply is_blocked_false in Hnb.
    pose proof (live_no_wake s b c cn HO Hcn Hnb) as Hnw.
    unfold frame_step. destruct (bprocess_frame now s b c f None oms) as [[rep s'] b1] eqn:E. cbn [fst snd].
    pose proof (frame_strand _ _ _ _ _ _ _ _ _ _ CI HA H0 Hcn Hnb Hnw Hlf HST E) as S2.
    destruct rep; exact S2.
  - (* wake-ups *)
    assert (HA' : agreeW (with_wake b (skipn 32 (b_wake b))) (firstn 32 (b_wake b) ++ b_wake (with_wake b (skipn 32 (b_wake b))))).
    { cbn [with_wake b_wake]. unfold agreeW. rewrite firstn_skipn. apply agreeW_self in HA. unfold agreeW in HA. destruct b; exact HA. }
    assert (HST1 : STRW s (b_reg (with_wake b (skipn 32 (b_wake b)))) (firstn 32 (b_wake b) ++ b_wake (with_wake b (skipn 32 (b_wake b))))).
    { cbn [with_wake b_reg b_wake]. rewrite firstn_skipn. exact HST. }
    exact (wake_fold_str now (firstn 32 (b_wake b)) s (with_wake b (skipn 32 (b_wake b))) HA' Hc CI HB HST1).
  - (* timeouts: waiters leave, nothing else *)
    cbn [fst snd]. unfold process_timeouts. destruct (expire_reg now (b_reg b)) as [ex r'] eqn:Ee.
    destruct (timeout_fold ex (with_reg b r')) as (T1 & T2 & _). cbn [with_reg b_reg b_wake] in T1, T2.
    rewrite T1, T2. eapply STRW_mono; [exact HST|intros; lia|].
    intros rk w Hw. assert (r' = snd (expire_reg now (b_reg b))) by (rewrite Ee; reflexivity). subst r'.
    rewrite reg_get_expire in Hw. eapply in_filter_sub; exact Hw.
  - (* connect *)
    cbn [fst snd]. eapply STRW_mono; [exact HST|intros; apply Z.le_refl|auto].
  - (* a client goes away, blocked or not *)
    cbn [fst snd with_dead b_wake b_reg]. eapply STRW_mono; [exact HST|intros; apply Z.le_refl|auto].
  - (* the server notices the clients that went away: waiters leave *)
    cbn [fst snd]. unfold reap_dead.
    destruct (drop_fold (filter (noticed b) (b_dead b)) (with_dead b (filter (fun c => negb (noticed b c)) (b_dead b)))) as (_ & D2 & _).
    cbn [with_dead b_wake] in D2. rewrite D2. eapply STRW_mono; [exact HST|intros; apply Z.le_refl|].
    intros rk w Hw. exact (drop_fold_reg _ _ _ _ Hw).
Qed.

Theorem reach_g_sinv st P R : reach_g st P R -> sinv st.
Proof.
  induction 1.
  - split; [exists [], []; constructor|]. intros db k _ Hq. cbn in Hq. congruence.
  - apply sinv_step; assumption.
Qed.

(** a key with a waiter holds at most as many elements as wake-ups are under way for it *)
Theorem no_stranding st P R : reach_g st P R -> no_strand st.
Proof. intros H. exact (proj2 (reach_g_sinv st P R H)). Qed.
(** once the wake-up queue has drained, nobody is blocked on a key that holds an element *)
Theorem no_stranding_drained st P R : reach_g st P R -> b_wake (snd st) = [] ->
  forall db k, 0 <= db -> reg_get (b_reg (snd st)) (db, k) <> [] -> list_at (fst st) db k = [].
Proof.
  intros H Hw db k Hd Hq. pose proof (no_stranding st P R H db k Hd Hq) as Hl. rewrite Hw in Hl. cbn in Hl.
  destruct (list_at (fst st) db k); [reflexivity|]. unfold len in Hl. cbn [length] in Hl. lia.
Qed.
