(** Lemmas about Base/Bytes.v: decimal text round-trip, CRLF splitting. *)
From Ferrous Require Import Base.Bytes.
Open Scope Z_scope.

Lemma len_app {A} (a b : list A) : len (a ++ b) = len a + len b.
Proof. unfold len. rewrite app_length. lia. Qed.
Lemma len_cons {A} (x : A) (l : list A) : len (x :: l) = 1 + len l.
Proof. unfold len. cbn [length]. lia. Qed.
Lemma len_nil {A} : len (@nil A) = 0.
Proof. reflexivity. Qed.
Lemma len_nonneg {A} (l : list A) : 0 <= len l.
Proof. unfold len. lia. Qed.

Lemma beq_refl a : beq a a = true.
Proof. induction a as [|x a IH]; cbn; [reflexivity|]. rewrite Z.eqb_refl, IH. reflexivity. Qed.
Lemma beq_eq a b : beq a b = true <-> a = b.
Proof.
  split; [|intros ->; apply beq_refl].
  revert b; induction a as [|x a IH]; intros [|y b] H; cbn in H; try discriminate; [reflexivity|].
  apply andb_prop in H as [H1 H2]. apply Z.eqb_eq in H1. f_equal; auto.
Qed.

(** ---- digits ---- *)
Lemma digits_val_app l1 l2 a :
  digits_val (l1 ++ l2) a =
  match digits_val l1 a with Some a' => digits_val l2 a' | None => None end.
Proof.
  revert a; induction l1 as [|c l1 IH]; intros a; cbn [app digits_val]; [reflexivity|].
  destruct (is_digit c); [apply IH|reflexivity].
Qed.

Lemma digits_acc_app fuel : forall n acc, digits_acc fuel n acc = digits_acc fuel n [] ++ acc.
Proof.
  induction fuel as [|f IH]; intros n acc; cbn [digits_acc]; [reflexivity|].
  destruct (n <? 10); [reflexivity|].
  rewrite (IH (n / 10) ((48 + n mod 10) :: acc)), (IH (n / 10) [48 + n mod 10]).
  rewrite <- app_assoc. reflexivity.
Qed.

Lemma digit_char_ok n : 0 <= n -> is_digit (48 + n mod 10) = true.
Proof. intros H. unfold is_digit. pose proof (Z.mod_pos_bound n 10 ltac:(lia)). lia. Qed.

Lemma digits_acc_val fuel : forall n, 0 <= n < 10 ^ Z.of_nat (S fuel) ->
  digits_val (digits_acc (S fuel) n []) 0 = Some n /\ digits_acc (S fuel) n [] <> [] /\
  Forall (fun c => is_digit c = true) (digits_acc (S fuel) n []).
Proof.
  induction fuel as [|f IH]; intros n Hn.
  - change (10 ^ Z.of_nat 1) with 10 in Hn. cbn [digits_acc].
    replace (n <? 10) with true by lia. rewrite Z.mod_small by lia. cbn [digits_val].
    assert (Hd : is_digit (48 + n) = true) by (unfold is_digit; lia).
    rewrite Hd. split; [f_equal; lia|]. split; [discriminate|]. constructor; auto.
  - remember (S f) as f1. cbn [digits_acc]. destruct (n <? 10) eqn:E.
    + apply Z.ltb_lt in E. rewrite Z.mod_small by lia. cbn [digits_val].
      assert (Hd : is_digit (48 + n) = true) by (unfold is_digit; lia).
      rewrite Hd. split; [f_equal; lia|]. split; [discriminate|]. constructor; auto.
    + apply Z.ltb_ge in E.
      assert (Hq : 0 <= n / 10 < 10 ^ Z.of_nat f1).
      { split; [apply Z.div_pos; lia|]. apply Z.div_lt_upper_bound; [lia|].
        replace (Z.of_nat (S f1)) with (Z.of_nat f1 + 1) in Hn by lia.
        rewrite Z.pow_add_r in Hn by lia. lia. }
      subst f1. destruct (IH _ Hq) as (Hv & Hne & Hall).
      rewrite digits_acc_app. rewrite digits_val_app, Hv. cbn [digits_val].
      rewrite digit_char_ok by lia. split.
      * f_equal. pose proof (Z.div_mod n 10 ltac:(lia)). lia.
      * split.
        -- intros Hc. apply app_eq_nil in Hc as [_ Hc]. discriminate.
        -- apply Forall_app. split; [exact Hall|]. constructor; [apply digit_char_ok; lia|constructor].
Qed.

Definition pow10_40 := 10 ^ 40.

Lemma print_nat_spec n : 0 <= n < 10 ^ 40 ->
  parse_digits (print_nat n) = Some n /\ Forall (fun c => is_digit c = true) (print_nat n).
Proof.
  intros H. unfold print_nat.
  destruct (digits_acc_val 39 n) as (Hv & Hne & Hall); [exact H|].
  split; [|exact Hall]. unfold parse_digits.
  destruct (digits_acc 40 n []) eqn:E; [congruence|]. exact Hv.
Qed.

Lemma print_nat_head n : 0 <= n < 10 ^ 40 ->
  exists c r, print_nat n = c :: r /\ is_digit c = true.
Proof.
  intros H. destruct (print_nat_spec n H) as (Hp & Hall).
  destruct (print_nat n) as [|c r] eqn:E; [discriminate|].
  exists c, r. split; [reflexivity|]. inversion Hall; assumption.
Qed.

Lemma i64_lt_pow : i64_max < 10 ^ 40.
Proof. reflexivity. Qed.
Lemma u64_lt_pow : u64_max < 10 ^ 40.
Proof. reflexivity. Qed.

Lemma parse_signed_print lo hi z :
  lo <= z <= hi -> - 10 ^ 40 < z < 10 ^ 40 -> parse_signed lo hi (print_int z) = Some z.
Proof.
  intros Hr Hb. unfold print_int, parse_signed.
  destruct (z <? 0) eqn:E.
  - apply Z.ltb_lt in E. destruct (print_nat_spec (- z)) as (Hp & _); [lia|].
    rewrite Hp. cbn [option_map]. rewrite Z.opp_involutive.
    replace ((lo <=? z) && (z <=? hi)) with true by lia. reflexivity.
  - apply Z.ltb_ge in E. destruct (print_nat_head z) as (c & r & Hc & Hd); [lia|].
    destruct (print_nat_spec z) as (Hp & _); [lia|].
    rewrite Hc in *. unfold is_digit in Hd.
    destruct (c =? 43) eqn:E1; [lia|]. destruct (c =? 45) eqn:E2; [lia|].
    assert (Hm : match c :: r with
                 | 43 :: d => parse_digits d
                 | 45 :: d => option_map Z.opp (parse_digits d)
                 | _ => parse_digits (c :: r) end = parse_digits (c :: r)).
    { destruct c as [|p|p]; try reflexivity.
      do 6 (destruct p as [p|p|]; try reflexivity); lia. }
    rewrite Hm, Hp. replace ((lo <=? z) && (z <=? hi)) with true by lia. reflexivity.
Qed.

Lemma parse_i64_print z : in_i64 z = true -> parse_i64 (print_int z) = Some z.
Proof.
  unfold in_i64, parse_i64. intros H. apply parse_signed_print.
  - unfold i64_min, i64_max in *. lia.
  - pose proof i64_lt_pow. unfold i64_min, i64_max in *. lia.
Qed.

Lemma print_int_nonneg n : 0 <= n -> print_int n = print_nat n.
Proof. intros H. unfold print_int. replace (n <? 0) with false by lia. reflexivity. Qed.

Lemma parse_i64_print_nat n : 0 <= n <= i64_max -> parse_i64 (print_nat n) = Some n.
Proof.
  intros H. rewrite <- print_int_nonneg by lia. apply parse_i64_print.
  unfold in_i64, i64_min, i64_max in *. lia.
Qed.

Lemma parse_unsigned_print hi n :
  0 <= n <= hi -> n < 10 ^ 40 -> parse_unsigned hi (print_nat n) = Some n.
Proof.
  intros Hr Hb. unfold parse_unsigned.
  destruct (print_nat_head n) as (c & r & Hc & Hd); [lia|].
  destruct (print_nat_spec n) as (Hp & _); [lia|].
  rewrite Hc in *. unfold is_digit in Hd.
  assert (Hm : match c :: r with
               | 43 :: d => parse_digits d
               | _ => parse_digits (c :: r) end = parse_digits (c :: r)).
  { destruct c as [|p|p]; try reflexivity.
    do 6 (destruct p as [p|p|]; try reflexivity); lia. }
  rewrite Hm, Hp. replace (n <=? hi) with true by lia. reflexivity.
Qed.

Lemma parse_usize_print_nat n : 0 <= n <= u64_max -> parse_usize (print_nat n) = Some n.
Proof.
  intros H. apply parse_unsigned_print; [exact H|]. pose proof u64_lt_pow. lia.
Qed.

(** digit strings contain no CR *)
Lemma digits_no_cr l : Forall (fun c => is_digit c = true) l -> Forall (fun c => c <> 13) l.
Proof. intros H. eapply Forall_impl; [|exact H]. cbn. unfold is_digit. intros. lia. Qed.

(** ---- split_crlf ---- *)
Lemma split_crlf_cons c r :
  split_crlf (c :: r) =
  match r with
  | d :: r' => if (c =? 13) && (d =? 10) then Some ([], r')
               else match split_crlf r with Some (a, b) => Some (c :: a, b) | None => None end
  | [] => None
  end.
Proof. reflexivity. Qed.

Lemma split_crlf_app l : forall a b m,
  split_crlf l = Some (a, b) -> split_crlf (l ++ m) = Some (a, b ++ m).
Proof.
  induction l as [|c r IH]; intros a b m H; [discriminate|].
  rewrite split_crlf_cons in H. destruct r as [|d r']; [discriminate|].
  change ((c :: d :: r') ++ m) with (c :: d :: (r' ++ m)). rewrite split_crlf_cons.
  destruct ((c =? 13) && (d =? 10)).
  - inversion H; subst. reflexivity.
  - destruct (split_crlf (d :: r')) as [[a' b']|] eqn:E; [|discriminate].
    inversion H; subst. change (d :: r' ++ m) with ((d :: r') ++ m).
    rewrite (IH _ _ m eq_refl). reflexivity.
Qed.

Lemma split_crlf_eq l : forall a b, split_crlf l = Some (a, b) -> l = a ++ crlf ++ b.
Proof.
  induction l as [|c r IH]; intros a b H; [discriminate|].
  rewrite split_crlf_cons in H. destruct r as [|d r']; [discriminate|].
  destruct ((c =? 13) && (d =? 10)) eqn:E.
  - inversion H; subst. apply andb_prop in E as [E1 E2].
    apply Z.eqb_eq in E1, E2. subst. reflexivity.
  - destruct (split_crlf (d :: r')) as [[a' b']|] eqn:E'; [|discriminate].
    inversion H; subst. rewrite (IH _ _ eq_refl). reflexivity.
Qed.

Lemma split_crlf_length l a b : split_crlf l = Some (a, b) -> (length b < length l)%nat.
Proof.
  intros H. apply split_crlf_eq in H. subst. rewrite !app_length. cbn. lia.
Qed.

(** the first CR LF after a CRLF-free line is the terminator that was appended *)
Lemma split_crlf_line l : forall rest,
  has_crlf l = false -> split_crlf (l ++ crlf ++ rest) = Some (l, rest).
Proof.
  unfold has_crlf.
  induction l as [|c r IH]; intros rest H.
  - reflexivity.
  - destruct r as [|d r'].
    + change (split_crlf (c :: 13 :: 10 :: rest) = Some ([c], rest)).
      rewrite split_crlf_cons. destruct (c =? 13) eqn:E; cbn [andb]; reflexivity.
    + change ((c :: d :: r') ++ crlf ++ rest) with (c :: d :: (r' ++ crlf ++ rest)).
      rewrite split_crlf_cons. rewrite split_crlf_cons in H.
      destruct ((c =? 13) && (d =? 10)) eqn:Ecd; [discriminate|].
      destruct (split_crlf (d :: r')) as [[a' b']|] eqn:E; [discriminate|].
      change (d :: r' ++ crlf ++ rest) with ((d :: r') ++ crlf ++ rest).
      rewrite IH; [reflexivity|]. reflexivity.
Qed.

Lemma no_cr_no_crlf l : Forall (fun c => c <> 13) l -> has_crlf l = false.
Proof.
  unfold has_crlf. induction l as [|c r IH]; intros H; [reflexivity|].
  rewrite split_crlf_cons. inversion H as [|? ? Hc Hr]; subst.
  destruct r as [|d r']; [reflexivity|].
  replace (c =? 13) with false by lia. cbn [andb].
  specialize (IH Hr). destruct (split_crlf (d :: r')) as [[? ?]|]; [discriminate|reflexivity].
Qed.

Lemma print_nat_no_crlf n : 0 <= n < 10 ^ 40 -> has_crlf (print_nat n) = false.
Proof.
  intros H. apply no_cr_no_crlf, digits_no_cr. apply (print_nat_spec n H).
Qed.

Lemma print_int_no_crlf z : - 10 ^ 40 < z < 10 ^ 40 -> has_crlf (print_int z) = false.
Proof.
  intros H. unfold print_int. destruct (z <? 0) eqn:E.
  - apply no_cr_no_crlf. constructor; [lia|]. apply digits_no_cr.
    apply (print_nat_spec (- z)). lia.
  - apply print_nat_no_crlf. lia.
Qed.
