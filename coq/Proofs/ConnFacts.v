(** Proofs for C05: every request gets exactly one reply, in order; the client decodes
    exactly those replies whatever bytes they carry. *)
From Ferrous Require Import Base.Bytes Generated Model.Resp Model.Types Model.Server Model.Conn
  Proofs.BytesFacts Proofs.RespFacts.
From Coq Require Import ZifyBool.
Open Scope Z_scope.

(** ---- one reply per frame, in order ---- *)
Lemma serve_frames_length now c : forall fs s acc q reps s' q',
  serve_frames now s c fs acc q = (reps, s', q') -> length reps = (length acc + length fs)%nat.
Proof.
  induction fs as [|f fs IH]; intros s acc q reps s' q' H; cbn [serve_frames] in H.
  - inversion H; subst. rewrite rev_length. cbn. lia.
  - destruct (process_frame now s c f None) as [rep s1]. rewrite (IH _ _ _ _ _ _ H). cbn [length]. lia.
Qed.
Lemma serve_frames_acc now c : forall fs s acc q,
  serve_frames now s c fs acc q =
  match serve_frames now s c fs [] q with (reps, s', q') => (rev acc ++ reps, s', q') end.
Proof.
  induction fs as [|f fs IH]; intros s acc q; cbn [serve_frames].
  - cbn [rev]. rewrite app_nil_r. reflexivity.
  - destruct (process_frame now s c f None) as [rep s1].
    rewrite (IH s1 (rep :: acc)), (IH s1 [rep]).
    destruct (serve_frames now s1 c fs [] (q || is_quit f)) as [[reps s'] q']. cbn [rev app].
    rewrite <- app_assoc. reflexivity.
Qed.
(** frames that arrive in two reads are served exactly as if they had arrived in one *)
Lemma serve_frames_app now c : forall fs1 fs2 s q,
  serve_frames now s c (fs1 ++ fs2) [] q =
  match serve_frames now s c fs1 [] q with
  | (r1, s1, q1) => match serve_frames now s1 c fs2 [] q1 with
                    | (r2, s2, q2) => (r1 ++ r2, s2, q2) end
  end.
Proof.
  induction fs1 as [|f fs1 IH]; intros fs2 s q; cbn [app serve_frames].
  - destruct (serve_frames now s c fs2 [] q) as [[r2 s2] q2]. reflexivity.
  - destruct (process_frame now s c f None) as [rep s1].
    rewrite (serve_frames_acc now c (fs1 ++ fs2) s1 [rep]), (serve_frames_acc now c fs1 s1 [rep]).
    rewrite IH. destruct (serve_frames now s1 c fs1 [] (q || is_quit f)) as [[r1 s1'] q1].
    destruct (serve_frames now s1' c fs2 [] q1) as [[r2 s2] q2]. cbn [rev app]. reflexivity.
Qed.

(** ---- the output stream decodes to exactly the replies ---- *)
Notation ser' := (ser no_dprint).
Notation wfb' := (wfb no_double no_dprint).

(** a serialised reply never starts with whitespace, a newline or 'P' *)
Definition type_byte (c : Z) : bool :=
  (c =? 43) || (c =? 45) || (c =? 58) || (c =? 36) || (c =? 42) || (c =? 95) || (c =? 35) ||
  (c =? 44) || (c =? 37) || (c =? 126).
Lemma ser_head f b : ser' f = (b, true) -> exists c r, b = c :: r /\ type_byte c = true.
Proof.
  destruct f; try (cbn [Resp.ser]; intros H; inversion H; subst; eexists; eexists; split; reflexivity).
  - rewrite ser_array. destruct (ser_list no_dprint l). intros H; inversion H; subst.
    eexists; eexists; split; reflexivity.
  - cbn [Resp.ser]. destruct b0; intros H; inversion H; subst; eexists; eexists; split; reflexivity.
  - rewrite ser_map. destruct (ser_list no_dprint kvs). intros H; inversion H; subst.
    eexists; eexists; split; reflexivity.
  - rewrite ser_set. destruct (ser_list no_dprint l). intros H; inversion H; subst.
    eexists; eexists; split; reflexivity.
Qed.

Lemma type_byte_not_ws c : type_byte c = true -> is_ws c = false /\ is_nl c = false /\ (c =? 80) = false.
Proof. unfold type_byte, is_ws, is_nl. lia. Qed.

(** parse_top on a buffer that starts with a serialised well-formed reply *)
Lemma parse_top_reply f b rest :
  wfb' max_levels (sanitize f) = true -> ser' f = (b, true) ->
  parse_top no_double (b ++ rest) = (Done (sanitize f) [], drop_while is_nl rest).
Proof.
  intros Hwf Hs. destruct (ser_head f b Hs) as (c & r & -> & Htb).
  destruct (type_byte_not_ws c Htb) as (Hws & Hnl & HP).
  destruct (reply_framing no_double no_dprint f rest Hwf) as (b' & Hs' & Hp).
  rewrite Hs in Hs'. inversion Hs'; subst b'.
  unfold parse_top. change ((c :: r) ++ rest) with (c :: (r ++ rest)).
  cbn [drop_while]. rewrite Hws.
  assert (H1 : is_prefix (c :: r ++ rest) ping = false) by (unfold ping; cbn [is_prefix]; rewrite HP; reflexivity).
  assert (H2 : is_prefix ping (c :: r ++ rest) = false).
  { unfold ping. cbn [is_prefix]. replace (80 =? c) with false by lia. reflexivity. }
  rewrite H1, andb_false_r, H2. change (c :: r ++ rest) with ((c :: r) ++ rest). rewrite Hp. reflexivity.
Qed.

(** replies with nothing unserialisable inside *)
Definition sendable (f : frame) : Prop := wfb' max_levels (sanitize f) = true.

Lemma write_replies_cons f reps : f <> FNoResponse ->
  write_replies (f :: reps) = fst (ser' f) ++ write_replies reps.
Proof. intros Hn. destruct f; reflexivity. Qed.

Lemma sendable_ser f : sendable f -> exists b, ser' f = (b, true) /\ f <> FNoResponse.
Proof.
  intros H. destruct (reply_framing no_double no_dprint f [] H) as (b & Hs & _).
  exists b. split; [exact Hs|]. intros ->. discriminate.
Qed.

(** decoding loop on a stream of serialised replies *)
Lemma drain_replies : forall reps fuel acc,
  Forall sendable reps -> (length (write_replies reps) < fuel)%nat ->
  drain no_double fuel (write_replies reps) acc = (rev acc ++ map sanitize reps, NeedMore, []).
Proof.
  induction reps as [|f reps IH]; intros fuel acc Hall Hf.
  - destruct fuel as [|fuel]; [cbn in Hf; lia|]. cbn. rewrite app_nil_r. reflexivity.
  - inversion Hall as [|? ? Hf1 Hr]; subst. destruct (sendable_ser f Hf1) as (b & Hs & Hne).
    rewrite write_replies_cons in * by exact Hne. rewrite Hs in *. cbn [fst] in *.
    destruct fuel as [|fuel]; [lia|]. cbn [drain].
    rewrite (parse_top_reply f b (write_replies reps) Hf1 Hs).
    (* the next reply starts with a type byte, so no newline is dropped *)
    assert (Hd : drop_while is_nl (write_replies reps) = write_replies reps).
    { destruct reps as [|g reps']; [reflexivity|].
      inversion Hr as [|? ? Hg _]; subst. destruct (sendable_ser g Hg) as (bg & Hsg & Hng).
      rewrite write_replies_cons by exact Hng. rewrite Hsg. cbn [fst].
      destruct (ser_head g bg Hsg) as (c & r & -> & Htb). destruct (type_byte_not_ws c Htb) as (_ & Hnl & _).
      change ((c :: r) ++ write_replies reps') with (c :: (r ++ write_replies reps')).
      cbn [drop_while]. rewrite Hnl. reflexivity. }
    rewrite Hd. rewrite IH; [|exact Hr|].
    + cbn [rev map]. rewrite <- app_assoc. reflexivity.
    + destruct (ser_head f b Hs) as (c & r & -> & _). rewrite app_length in Hf. cbn [length] in Hf. lia.
Qed.

Lemma decode_replies reps : Forall sendable reps ->
  decode_out (write_replies reps) = (map sanitize reps, NeedMore).
Proof.
  intros H. unfold decode_out, drain_buf. rewrite drain_replies by (auto; lia). reflexivity.
Qed.

(** ================= segmentation independence at the connection level ================= *)
(** How the request bytes are cut into reads does not matter: as long as the connection is
    not closed by an earlier read (QUIT or a protocol violation end a connection after the
    read they arrive in, so what follows them in LATER reads is never processed), feeding the
    chunks one read after the other produces the same output bytes, the same parser
    remainder, the same server state and the same closing decision as one read of their
    concatenation. *)
Lemma write_replies_app r1 r2 : write_replies (r1 ++ r2) = write_replies r1 ++ write_replies r2.
Proof.
  induction r1 as [|f r1 IH]; [reflexivity|]. cbn [app].
  destruct f; cbn [write_replies]; rewrite ?IH, ?app_assoc; reflexivity.
Qed.

Lemma conn_read_split now s c buf c1 c2 o1 b1 s1 :
  conn_read now s c buf c1 = (o1, b1, s1, false) ->
  conn_read now s c buf (c1 ++ c2) =
  match conn_read now s1 c b1 c2 with (o2, b2, s2, cl) => (o1 ++ o2, b2, s2, cl) end.
Proof.
  unfold conn_read. intros H.
  rewrite app_assoc, (drain_buf_split no_double (buf ++ c1) c2).
  destruct (drain_buf no_double (buf ++ c1)) as [[fs1 st1] bb1] eqn:D1.
  destruct (serve_frames now s c fs1 [] false) as [[r1 s1'] q1] eqn:S1.
  (* the first read did not close: no QUIT, no violation *)
  assert (Hopen : q1 = false /\ st1 = NeedMore).
  { destruct st1; destruct q1; cbn [orb] in H; inversion H; split; reflexivity. }
  destruct Hopen as [-> ->]. cbn [orb] in H. inversion H; subst o1 b1 s1. clear H.
  destruct (drain_buf no_double (bb1 ++ c2)) as [[fs2 st2] b2] eqn:D2.
  rewrite serve_frames_app, S1.
  destruct (serve_frames now s1' c fs2 [] false) as [[r2 s2] q2] eqn:S2.
  destruct st2; cbn [orb]; rewrite <- ?app_assoc, !write_replies_app; reflexivity.
Qed.

(** every read but the last leaves the connection open *)
Fixpoint opens (now : Z) (s : server) (c : Z) (buf : bytes) (chunks : list bytes) : bool :=
  match chunks with
  | [] => true
  | [_] => true
  | ch :: r => match conn_read now s c buf ch with
               | (_, b', s', closed) => negb closed && opens now s' c b' r
               end
  end.

Lemma conn_feed_out now c : forall chunks s buf out,
  conn_feed now s c buf chunks out =
  match conn_feed now s c buf chunks [] with (o, b, s', cl) => (out ++ o, b, s', cl) end.
Proof.
  induction chunks as [|ch r IH]; intros s buf out; cbn [conn_feed].
  - rewrite app_nil_r. reflexivity.
  - destruct (conn_read now s c buf ch) as [[[o b'] s'] [|]].
    + reflexivity.
    + rewrite (IH s' b' (out ++ o)), (IH s' b' ([] ++ o)).
      destruct (conn_feed now s' c b' r []) as [[[o2 b2] s2] cl]. cbn [app]. rewrite app_assoc. reflexivity.
Qed.

Theorem conn_feed_concat now c : forall chunks s buf,
  chunks <> [] -> opens now s c buf chunks = true ->
  conn_feed now s c buf chunks [] = conn_feed now s c buf [concat chunks] [].
Proof.
  induction chunks as [|ch r IH]; intros s buf Hne Ho; [congruence|].
  destruct r as [|ch2 r'].
  - cbn [concat]. rewrite app_nil_r. reflexivity.
  - cbn [opens] in Ho.
    destruct (conn_read now s c buf ch) as [[[o1 b1] s1] cl1] eqn:R1.
    apply andb_prop in Ho as [Hc Ho]. apply negb_true_iff in Hc. subst cl1.
    change (conn_feed now s c buf (ch :: ch2 :: r') []) with
      (match conn_read now s c buf ch with
       | (o, buf', s', true) => ([] ++ o, buf', s', true)
       | (o, buf', s', false) => conn_feed now s' c buf' (ch2 :: r') ([] ++ o)
       end).
    rewrite R1. cbn [app]. rewrite conn_feed_out. rewrite (IH s1 b1 ltac:(discriminate) Ho).
    change (concat (ch :: ch2 :: r')) with (ch ++ concat (ch2 :: r')).
    change (conn_feed now s c buf [ch ++ concat (ch2 :: r')] []) with
      (match conn_read now s c buf (ch ++ concat (ch2 :: r')) with
       | (o, buf', s', true) => ([] ++ o, buf', s', true)
       | (o, buf', s', false) => ([] ++ o, buf', s', false)
       end).
    rewrite (conn_read_split now s c buf ch (concat (ch2 :: r')) o1 b1 s1 R1).
    change (conn_feed now s1 c b1 [concat (ch2 :: r')] []) with
      (match conn_read now s1 c b1 (concat (ch2 :: r')) with
       | (o, buf', s', true) => ([] ++ o, buf', s', true)
       | (o, buf', s', false) => ([] ++ o, buf', s', false)
       end).
    destruct (conn_read now s1 c b1 (concat (ch2 :: r'))) as [[[o2 b2] s2] [|]]; cbn [app]; reflexivity.
Qed.
