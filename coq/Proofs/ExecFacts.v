(** Parity of the two command paths: the executor model (Model/Exec.v, the path of
    redis.call) against the handler models (Model/Strings.v, Model/Lists.v, the path of
    a directly sent command), command by command, for every database and every
    argument list a script can produce (bulk strings of valid UTF-8). *)
From Ferrous Require Import Base.Bytes Generated Model.Resp Model.Types Model.Glob Model.Utf8 Model.Strings
  Model.Lists Model.ZSets Model.Streams Model.Scan Model.Exec Model.Lua Model.Server Proofs.BytesFacts.
From Ferrous Require Proofs.StringsFacts.
Open Scope Z_scope.

Definition bulks (l : list bytes) : list frame := map FBulk l.

Ltac kill_beq :=
  repeat match goal with
  | |- context [beq (bs ?a) (bs ?b)] =>
      let v := eval vm_compute in (beq (bs a) (bs b)) in change (beq (bs a) (bs b)) with v
  end.

(** ---- small facts ---- *)
Lemma len_map {A B} (f : A -> B) l : len (map f l) = len l.
Proof. unfold len. now rewrite map_length. Qed.
Lemma len_bulks' l : len (bulks l) = len l. Proof. apply len_map. Qed.

Ltac lens := repeat rewrite ?len_cons, ?len_nil, ?len_bulks' in *.
Ltac len_bool :=
  lens;
  repeat match goal with
  | |- context [len ?l] => lazymatch goal with
                           | H : 0 <= len l |- _ => fail
                           | _ => pose proof (len_nonneg l)
                           end
  end.

Lemma bulks_cons a l : bulks (a :: l) = FBulk a :: bulks l. Proof. reflexivity. Qed.
Lemma bulks_nil : bulks [] = []. Proof. reflexivity. Qed.
Lemma x_all_bytes_bulks l : x_all_bytes (bulks l) = Some l.
Proof. induction l as [|a l IH]; [reflexivity|]. rewrite bulks_cons. cbn [x_all_bytes x_bytes arg_bytes]. now rewrite IH. Qed.
Lemma all_bulks_bulks l : all_bulks (bulks l) = Some l.
Proof. induction l as [|a l IH]; [reflexivity|]. rewrite bulks_cons. cbn [all_bulks]. now rewrite IH. Qed.
Lemma only_bulks_bulks l : only_bulks (bulks l) = l.
Proof. induction l as [|a l IH]; [reflexivity|]. rewrite bulks_cons. cbn [only_bulks]. now rewrite IH. Qed.

Lemma x_str_valid b : utf8_valid b = true -> x_str (FBulk b) = Some b.
Proof. intros H. unfold x_str. now rewrite H. Qed.
Lemma x_int_valid p b : utf8_valid b = true -> x_int p (FBulk b) = p b.
Proof. intros H. unfold x_int. now rewrite x_str_valid. Qed.

(** ASCII text is valid UTF-8; text that parses as an integer is ASCII: extract_string(..)?.parse()
    fails exactly when parse fails *)
Definition ascii (l : bytes) : bool := forallb (fun c => c <? 128) l.
Lemma ascii_valid_f : forall fuel l, ascii l = true -> utf8_valid_f fuel l = true.
Proof.
  induction fuel as [|f IH]; intros l Ha; [reflexivity|]. destruct l as [|c r]; [reflexivity|].
  cbn [ascii forallb] in Ha. apply andb_prop in Ha. destruct Ha as [Hc Hr].
  cbn [utf8_valid_f utf8_step]. rewrite Hc. cbn [skipn]. now apply IH.
Qed.
Lemma ascii_valid l : ascii l = true -> utf8_valid l = true.
Proof. apply ascii_valid_f. Qed.
Lemma digits_val_ascii l : forall acc v, digits_val l acc = Some v -> ascii l = true.
Proof.
  induction l as [|c r IH]; intros acc v E; [reflexivity|]. cbn [digits_val] in E.
  destruct (is_digit c) eqn:Ed; [|discriminate]. cbn [ascii forallb]. fold (ascii r). rewrite (IH _ _ E), andb_true_r.
  unfold is_digit in Ed. apply andb_prop in Ed. destruct Ed as [_ H]. apply Z.leb_le in H. apply Z.ltb_lt. lia.
Qed.
Lemma parse_digits_ascii l v : parse_digits l = Some v -> ascii l = true.
Proof. unfold parse_digits. destruct l; [discriminate|]. apply digits_val_ascii. Qed.
Lemma parse_signed_ascii lo hi l v : parse_signed lo hi l = Some v -> ascii l = true.
Proof.
  unfold parse_signed. intros E.
  assert (G : forall r0, match r0 with Some v0 => if (lo <=? v0) && (v0 <=? hi) then Some v0 else None | None => None end = Some v -> r0 <> None).
  { intros [x|] H; [discriminate|discriminate H]. }
  destruct l as [|c r]; [discriminate|].
  destruct (c =? 43) eqn:E43; [apply Z.eqb_eq in E43; subst c|].
  { destruct (parse_digits r) as [w|] eqn:Ew; [|cbn in E; discriminate E]. cbn [ascii forallb]. fold (ascii r). now rewrite (parse_digits_ascii _ _ Ew). }
  destruct (c =? 45) eqn:E45; [apply Z.eqb_eq in E45; subst c|].
  { destruct (parse_digits r) as [w|] eqn:Ew; [|cbn in E; discriminate E]. cbn [ascii forallb]. fold (ascii r). now rewrite (parse_digits_ascii _ _ Ew). }
  assert (Hr : match c :: r with 43 :: d0 => parse_digits d0 | 45 :: d0 => option_map Z.opp (parse_digits d0) | _ => parse_digits (c :: r) end = parse_digits (c :: r)).
  { destruct c as [|q|q]; try reflexivity. do 6 (destruct q; try reflexivity); cbn in E43, E45; discriminate. }
  rewrite Hr in E. destruct (parse_digits (c :: r)) as [w|] eqn:Ew; [|cbn in E; discriminate E]. exact (parse_digits_ascii _ _ Ew).
Qed.
Lemma parse_unsigned_ascii hi l v : parse_unsigned hi l = Some v -> ascii l = true.
Proof.
  unfold parse_unsigned. intros E.
  destruct l as [|c r]; [discriminate|].
  destruct (c =? 43) eqn:E43; [apply Z.eqb_eq in E43; subst c|].
  { destruct (parse_digits r) as [w|] eqn:Ew; [|discriminate]. cbn [ascii forallb]. fold (ascii r). now rewrite (parse_digits_ascii _ _ Ew). }
  assert (Hr : match c :: r with 43 :: d0 => parse_digits d0 | _ => parse_digits (c :: r) end = parse_digits (c :: r)).
  { destruct c as [|q|q]; try reflexivity. do 6 (destruct q; try reflexivity); cbn in E43; discriminate. }
  rewrite Hr in E. destruct (parse_digits (c :: r)) as [w|] eqn:Ew; [|discriminate]. exact (parse_digits_ascii _ _ Ew).
Qed.
Lemma x_int_of p b : (forall v, p b = Some v -> ascii b = true) -> x_int p (FBulk b) = p b.
Proof.
  intros H. unfold x_int, x_str. destruct (utf8_valid b) eqn:E; [reflexivity|].
  destruct (p b) as [v|] eqn:Ep; [|reflexivity]. rewrite (ascii_valid _ (H v eq_refl)) in E. discriminate.
Qed.
Lemma x_int_i64 b : x_int parse_i64 (FBulk b) = parse_i64 b.
Proof. apply x_int_of. intros v. apply parse_signed_ascii. Qed.
Lemma x_int_isize b : x_int parse_isize (FBulk b) = parse_isize b.
Proof. apply x_int_of. intros v. apply parse_signed_ascii. Qed.
Lemma x_int_u64 b : x_int parse_u64 (FBulk b) = parse_u64 b.
Proof. apply x_int_of. intros v. apply parse_unsigned_ascii. Qed.
Lemma x_int_usize b : x_int parse_usize (FBulk b) = parse_usize b.
Proof. apply x_int_of. intros v. apply parse_unsigned_ascii. Qed.
Lemma x_int_canonical b : x_int parse_canonical (FBulk b) = parse_canonical b.
Proof. apply x_int_of. intros v H. apply StringsFacts.parse_canonical_sub in H. exact (parse_signed_ascii _ _ _ _ H). Qed.
Lemma x_int_pos_u64 b : x_int parse_pos_u64 (FBulk b) = parse_pos_u64 b.
Proof.
  apply x_int_of. intros v. unfold parse_pos_u64. destruct (parse_u64 b) as [n|] eqn:E; [|discriminate].
  intros _. exact (parse_unsigned_ascii _ _ _ E).
Qed.
Ltac xints := rewrite ?x_int_isize, ?x_int_usize, ?x_int_i64, ?x_int_u64, ?x_int_canonical, ?x_int_pos_u64; unfold parse_isize, parse_usize, parse_u64.
(** a word that upper-cases to ASCII text is ASCII *)
Lemma upper_ascii l : ascii (upper l) = true -> ascii l = true.
Proof.
  induction l as [|c r IH]; [reflexivity|]. unfold upper. cbn [map ascii forallb]. fold (upper r). fold (ascii (upper r)). fold (ascii r).
  intros H. apply andb_prop in H. destruct H as [Hc Hr]. rewrite (IH Hr), andb_true_r.
  unfold upper1 in Hc. destruct ((97 <=? c) && (c <=? 122)) eqn:E; [|exact Hc].
  apply andb_prop in E. destruct E as [_ E]. apply Z.leb_le in E. apply Z.ltb_lt. lia.
Qed.
Lemma invalid_not_word a K : ascii K = true -> utf8_valid a = false -> beq (upper a) K = false.
Proof.
  intros HK Hv. destruct (beq (upper a) K) eqn:E; [|reflexivity]. apply beq_eq in E.
  rewrite <- E in HK. rewrite (ascii_valid _ (upper_ascii _ HK)) in Hv. discriminate.
Qed.

(** pairs: x_pairs and pairs_of agree on bulk lists *)
Lemma x_pairs_pairs_of l : x_pairs (bulks l) = pairs_of (bulks l).
Proof.
  assert (H : forall n l, (length l <= n)%nat -> x_pairs (bulks l) = pairs_of (bulks l)).
  { induction n as [|n IH]; intros [|a [|b r]] Hl; cbn [length] in Hl; try lia; try reflexivity.
    rewrite !bulks_cons. cbn [x_pairs pairs_of x_bytes arg_bytes].
    rewrite (IH r) by lia. reflexivity. }
  now apply (H (length l)).
Qed.
Lemma x_pairs_flat l ps : x_pairs (bulks l) = Some ps -> bulks (flat_bytes ps) = bulks l.
Proof.
  assert (H : forall n l ps, (length l <= n)%nat -> x_pairs (bulks l) = Some ps -> bulks (flat_bytes ps) = bulks l).
  { induction n as [|n IH]; intros [|a [|b r]] ps0 Hl; cbn [length] in Hl; try lia;
      rewrite ?bulks_cons, ?bulks_nil; cbn [x_pairs x_bytes arg_bytes]; intros E; try discriminate.
    - now inversion E.
    - now inversion E.
    - destruct (x_pairs (bulks r)) as [t|] eqn:Et; [|discriminate].
      inversion E; subst. cbn [flat_bytes]. rewrite !bulks_cons. f_equal. f_equal. apply (IH r t); [lia|exact Et]. }
  intros E. now apply (H (length l) l ps).
Qed.

(** ---- the handler side: the dispatcher of the server model ---- *)
Definition direct (now : Z) (d : db) (name : bytes) (parts : list frame) : option (frame * db) :=
  exec_db now d name parts None.

Definition via (now : Z) (d : db) (p : option xcmd) : frame * db :=
  match p with Some c => execute now d c None | None => (r_err, d) end.

(** ---- shapes shared by many commands ---- *)
Section Shapes.
Variables (now : Z) (d : db) (F : frame).
Notation via := (via now d).

Lemma shape_k1 (c : bytes -> xcmd) (f : option value -> frame * upd) :
  (forall k, execute now d (c k) None = on_key d k f) ->
  forall args, via (parse_k c (F :: bulks args)) = h_key1 f d (F :: bulks args).
Proof.
  intros Hc [|k [|a r]]; unfold h_key1, nparts, parse_k, via, key_of, nth_arg;
    rewrite ?bulks_cons, ?bulks_nil; cbn [nth_error x_bytes arg_bytes option_map]; lens.
  - reflexivity.
  - rewrite Hc. reflexivity.
  - len_bool. destruct (1 + (1 + (1 + len r)) =? 2) eqn:E; [lia|]. reflexivity.
Qed.

Lemma shape_kv (c : bytes -> bytes -> xcmd) (f : bytes -> option value -> frame * upd) :
  (forall k v, execute now d (c k v) None = on_key d k (f v)) ->
  forall args, via (parse_kv c (F :: bulks args)) = h_key_bulk f d (F :: bulks args).
Proof.
  intros Hc [|k [|a [|b r]]]; unfold h_key_bulk, nparts, parse_kv, via, key_of, nth_arg;
    rewrite ?bulks_cons, ?bulks_nil; cbn [nth_error x_bytes arg_bytes option_map]; lens; try reflexivity.
  - rewrite Hc. reflexivity.
  - len_bool. destruct (1 + (1 + (1 + (1 + len r))) =? 3) eqn:E; [lia|]. reflexivity.
Qed.

Lemma shape_k_vs (c : bytes -> list bytes -> xcmd) (f : list bytes -> option value -> frame * upd)
      (h : db -> list frame -> frame * db) :
  (forall k vs, execute now d (c k vs) None = on_key d k (f vs)) ->
  (forall parts, h d parts =
     if nparts parts <? 3 then (r_err, d) else
     match key_of parts with
     | None => (r_err, d)
     | Some k => match all_bulks (skipn 2 parts) with
                 | None => (r_err, d)
                 | Some els => on_key d k (f els)
                 end
     end) ->
  forall args, via (parse_k_vs c (F :: bulks args)) = h d (F :: bulks args).
Proof.
  intros Hc Hh [|k [|a r]]; rewrite Hh; unfold nparts, parse_k_vs, via, key_of, nth_arg;
    rewrite ?bulks_cons, ?bulks_nil; cbn [nth_error x_bytes arg_bytes skipn]; lens; try reflexivity.
  rewrite <- (bulks_cons a r).
  rewrite x_all_bytes_bulks, all_bulks_bulks, Hc.
  len_bool. destruct (1 + (1 + (1 + len r)) <? 3) eqn:E; [lia|]. reflexivity.
Qed.

Lemma shape_k_vs_skipping (c : bytes -> list bytes -> xcmd) (f : list bytes -> option value -> frame * upd) :
  (forall k vs, execute now d (c k vs) None = on_key d k (f vs)) ->
  forall args, via (parse_k_vs c (F :: bulks args)) = h_skipping f d (F :: bulks args).
Proof.
  intros Hc [|k [|a r]]; unfold h_skipping, nparts, parse_k_vs, via, key_of, nth_arg;
    rewrite ?bulks_cons, ?bulks_nil; cbn [nth_error x_bytes arg_bytes skipn]; lens; try reflexivity.
  rewrite <- (bulks_cons a r).
  rewrite x_all_bytes_bulks, only_bulks_bulks, Hc.
  len_bool. destruct (1 + (1 + (1 + len r)) <? 3) eqn:E; [lia|]. reflexivity.
Qed.

Lemma shape_ks_setalg (c : list bytes -> xcmd) (f : db -> list bytes -> Lists.sres) :
  (forall ks, execute now d (c ks) None = (Lists.sres_reply (f d ks), d)) ->
  forall args, via (parse_ks c (F :: bulks args)) = h_setalg f d (F :: bulks args).
Proof.
  intros Hc [|k r]; unfold h_setalg, nparts, parse_ks, via; rewrite ?bulks_cons, ?bulks_nil; cbn [tl option_map]; lens; try reflexivity.
  rewrite <- (bulks_cons k r).
  rewrite x_all_bytes_bulks, all_bulks_bulks. cbn [option_map]. rewrite Hc.
  len_bool. destruct (1 + (1 + len r) <? 2) eqn:E; [lia|]. reflexivity.
Qed.
End Shapes.

(** ---- arguments a script can produce: valid UTF-8 ---- *)
Ltac valids H :=
  cbn [forallb] in H;
  repeat match type of H with
  | (_ && _) = true => let H1 := fresh "Hv" in apply andb_prop in H; destruct H as [H1 H]
  end.

Section Shapes2.
Variables (now : Z) (d : db) (F : frame).
Notation via := (via now d).

Lemma shape_range (c : bytes -> Z -> Z -> xcmd) (f : Z -> Z -> option value -> frame * upd) :
  (forall k s e, execute now d (c k s e) None = on_key d k (f s e)) ->
  forall args,
  via (parse_k_int_int c (F :: bulks args)) = h_range f d (F :: bulks args).
Proof.
  intros Hc [|k [|a [|b [|x r]]]]; unfold h_range, nparts, parse_k_int_int, ExecFacts.via, key_of, nth_arg;
    rewrite ?bulks_cons, ?bulks_nil; cbn [nth_error x_bytes arg_bytes]; lens; try reflexivity.
  - xints.
    destruct (parse_i64 a) as [s|]; [|reflexivity].
    destruct (parse_i64 b) as [e|]; [|reflexivity].
    rewrite Hc. reflexivity.
  - len_bool. destruct (1 + (1 + (1 + (1 + (1 + len r)))) =? 4) eqn:E; [lia|]. reflexivity.
Qed.

Lemma shape_int_bulk (c : bytes -> Z -> bytes -> xcmd) (f : Z -> bytes -> option value -> frame * upd) :
  (forall k i v, execute now d (c k i v) None = on_key d k (f i v)) ->
  forall args,
  via (parse_k_int_v parse_isize c (F :: bulks args)) = h_int_bulk f d (F :: bulks args).
Proof.
  intros Hc [|k [|a [|b [|x r]]]]; unfold h_int_bulk, nparts, parse_k_int_v, ExecFacts.via, key_of, nth_arg;
    rewrite ?bulks_cons, ?bulks_nil; cbn [nth_error x_bytes arg_bytes]; lens; try reflexivity.
  - xints.
    destruct (parse_i64 a) as [s|]; [|reflexivity].
    rewrite Hc. reflexivity.
  - len_bool. destruct (1 + (1 + (1 + (1 + (1 + len r)))) =? 4) eqn:E; [lia|]. reflexivity.
Qed.

Lemma shape_lindex args :
  via (parse_k_int parse_isize XLIndex (F :: bulks args)) = h_lindex d (F :: bulks args).
Proof.
  destruct args as [|k [|a [|x r]]]; unfold h_lindex, nparts, parse_k_int, ExecFacts.via, key_of, nth_arg;
    rewrite ?bulks_cons, ?bulks_nil; cbn [nth_error x_bytes arg_bytes]; lens; try reflexivity.
  - xints.
    destruct (parse_i64 a) as [s|]; reflexivity.
  - len_bool. destruct (1 + (1 + (1 + (1 + len r))) =? 3) eqn:E; [lia|]. reflexivity.
Qed.

Lemma shape_hincrby args :
  via (match F :: bulks args with
       | [_; k; f; a] =>
           match x_int parse_i64 a, x_bytes k, x_bytes f with
           | Some n, Some kb, Some fb => Some (XHIncrBy kb fb n)
           | _, _, _ => None
           end
       | _ => None
       end) = h_hincrby d (F :: bulks args).
Proof.
  destruct args as [|k [|a [|b [|x r]]]]; unfold h_hincrby, nparts, ExecFacts.via, key_of, nth_arg;
    rewrite ?bulks_cons, ?bulks_nil; cbn [nth_error x_bytes arg_bytes]; lens; try reflexivity.
  - xints.
    destruct (parse_i64 b) as [s|]; reflexivity.
  - len_bool. destruct (1 + (1 + (1 + (1 + (1 + len r)))) =? 4) eqn:E; [lia|]. reflexivity.
Qed.

Lemma shape_hset (ok : bool) (c : bytes -> list (bytes * bytes) -> xcmd) :
  (forall k ps, execute now d (c k ps) None = on_key d k (e_hset ok ps)) ->
  forall args, via (parse_k_pairs c (F :: bulks args)) = h_hset ok d (F :: bulks args).
Proof.
  intros Hc args. unfold h_hset, parse_k_pairs, nparts, ExecFacts.via, key_of, nth_arg. lens.
  replace ((1 + len args - 2) mod 2 =? 0) with ((1 + len args) mod 2 =? 0).
  2:{ replace (1 + len args - 2) with (1 + len args + (-1) * 2) by lia. now rewrite Z.mod_add by lia. }
  destruct ((1 + len args <? 4) || negb ((1 + len args) mod 2 =? 0)) eqn:E; [reflexivity|].
  destruct args as [|k r]; [reflexivity|].
  rewrite bulks_cons. cbn [nth_error x_bytes arg_bytes skipn].
  rewrite x_pairs_pairs_of. destruct (pairs_of (bulks r)); [|reflexivity]. now rewrite Hc.
Qed.
End Shapes2.

(** ---- strings and keys ---- *)
Section StringsParity.
Variables (now : Z) (d : db) (F : frame).
Notation via := (via now d).

Lemma del_loop_bulks ks : forall d0 n, del_loop d0 (bulks ks) n = x_del_loop d0 ks n.
Proof.
  induction ks as [|k r IH]; intros d0 n; [reflexivity|].
  rewrite bulks_cons. cbn [del_loop x_del_loop]. destruct (eng_delete d0 k) as [[|] d']; apply IH.
Qed.
Lemma exists_count_bulks ks : forall n, exists_count now d (bulks ks) n = x_exists_count now d ks n.
Proof.
  induction ks as [|k r IH]; intros n; [reflexivity|].
  rewrite bulks_cons. cbn [exists_count x_exists_count]. apply IH.
Qed.

Lemma parity_get args :
  match args with [k] => beq k [] = false | _ => True end ->
  via (parse_k XGet (F :: bulks args)) = h_get now d (F :: bulks args).
Proof.
  destruct args as [|k [|a r]]; intros Hk; unfold h_get, nparts, parse_k, ExecFacts.via, nth_arg;
    rewrite ?bulks_cons, ?bulks_nil; cbn [nth_error x_bytes arg_bytes option_map]; lens; try reflexivity.
  - rewrite Hk. cbn [execute]. destruct (get_string now d k) as [[[b|]|] d']; reflexivity.
  - len_bool. destruct (1 + (1 + (1 + len r)) =? 2) eqn:E; [lia|]. reflexivity.
Qed.

Lemma parity_incr (empty_refused : bool) (delta : Z) (c : bytes -> xcmd) args :
  (forall k, execute now d (c k) None = reply_incr (eng_incr_by d k delta)) ->
  match args with [k] => empty_refused && beq k [] = false | _ => True end ->
  via (parse_k c (F :: bulks args)) = h_incr empty_refused delta d (F :: bulks args).
Proof.
  intros Hc. destruct args as [|k [|a r]]; intros Hk; unfold h_incr, nparts, parse_k, ExecFacts.via, nth_arg;
    rewrite ?bulks_cons, ?bulks_nil; cbn [nth_error x_bytes arg_bytes option_map]; lens; try reflexivity.
  - rewrite Hk, Hc. reflexivity.
  - len_bool. destruct (1 + (1 + (1 + len r)) =? 2) eqn:E; [lia|]. reflexivity.
Qed.

Lemma parity_incrby args :
  match args with k :: _ => beq k [] = false | _ => True end ->
  via (parse_k_int parse_canonical XIncrBy (F :: bulks args)) = h_incrby d (F :: bulks args).
Proof.
  destruct args as [|k [|a [|x r]]]; intros Hk; unfold h_incrby, nparts, parse_k_int, ExecFacts.via, nth_arg;
    rewrite ?bulks_cons, ?bulks_nil; cbn [nth_error x_bytes arg_bytes]; lens; try reflexivity.
  - rewrite Hk; xints. destruct (parse_canonical a); reflexivity.
  - len_bool. destruct (1 + (1 + (1 + (1 + len r))) =? 3) eqn:E; [lia|]. reflexivity.
Qed.

Lemma parity_decrby args :
  via (parse_k_int parse_canonical XDecrBy (F :: bulks args)) = h_decrby d (F :: bulks args).
Proof.
  destruct args as [|k [|a [|x r]]]; unfold h_decrby, nparts, parse_k_int, ExecFacts.via, nth_arg;
    rewrite ?bulks_cons, ?bulks_nil; cbn [nth_error x_bytes arg_bytes]; lens; try reflexivity.
  - xints. destruct (parse_canonical a) as [n|]; reflexivity.
  - len_bool. destruct (1 + (1 + (1 + (1 + len r))) =? 3) eqn:E; [lia|]. reflexivity.
Qed.

Lemma parity_del args : via (parse_ks XDel (F :: bulks args)) = h_del d (F :: bulks args).
Proof.
  destruct args as [|k r]; unfold h_del, nparts, parse_ks, ExecFacts.via; rewrite ?bulks_cons, ?bulks_nil; lens; [reflexivity|].
  rewrite <- (bulks_cons k r), x_all_bytes_bulks. cbn [option_map tl execute].
  rewrite del_loop_bulks. len_bool. destruct (1 + (1 + len r) <? 2) eqn:E; [lia|]. reflexivity.
Qed.
Lemma parity_exists args : via (parse_ks XExists (F :: bulks args)) = h_exists now d (F :: bulks args).
Proof.
  destruct args as [|k r]; unfold h_exists, nparts, parse_ks, ExecFacts.via; rewrite ?bulks_cons, ?bulks_nil; lens; [reflexivity|].
  rewrite <- (bulks_cons k r), x_all_bytes_bulks. cbn [option_map tl execute].
  rewrite exists_count_bulks. len_bool. destruct (1 + (1 + len r) <? 2) eqn:E; [lia|]. reflexivity.
Qed.

Lemma parity_setnx args : via (parse_kv XSetNx (F :: bulks args)) = h_setnx now d (F :: bulks args).
Proof.
  destruct args as [|k [|a [|b r]]]; unfold h_setnx, nparts, parse_kv, ExecFacts.via, nth_arg;
    rewrite ?bulks_cons, ?bulks_nil; cbn [nth_error x_bytes arg_bytes]; lens; try reflexivity.
  - cbn [execute eng_set_nx]. destruct (eng_exists now d k); reflexivity.
  - len_bool. destruct (1 + (1 + (1 + (1 + len r))) =? 3) eqn:E; [lia|]. reflexivity.
Qed.

Lemma parity_setex (mult : Z) (c : bytes -> bytes -> Z -> xcmd) args :
  (forall k v n, execute now d (c k v n) None =
     match eng_set now d k v (Some (n * mult)) with Some d' => (r_ok, d') | None => (r_err, d) end) ->
  via (parse_k_int_v parse_pos_u64 (fun k n v => c k v n) (F :: bulks args)) = h_setex mult now d (F :: bulks args).
Proof.
  intros Hc. destruct args as [|k [|a [|b [|x r]]]]; unfold h_setex, nparts, parse_k_int_v, ExecFacts.via, nth_arg;
    rewrite ?bulks_cons, ?bulks_nil; cbn [nth_error x_bytes arg_bytes]; lens; try reflexivity.
  - xints. unfold parse_pos_u64, parse_u64. destruct (parse_unsigned u64_max a) as [n|]; [|reflexivity].
    destruct (n =? 0); [reflexivity|].
    rewrite Hc. unfold eng_set. destruct (ttl_ok (n * mult)); reflexivity.
  - len_bool. destruct (1 + (1 + (1 + (1 + (1 + len r)))) =? 4) eqn:E; [lia|]. reflexivity.
Qed.

Lemma h_mget_tl parts parts' : tl parts = tl parts' -> len parts = len parts' -> h_mget now d parts = h_mget now d parts'.
Proof. intros Ht Hl. unfold h_mget, nparts. now rewrite Ht, Hl. Qed.
Lemma parity_mget args : via (parse_ks XMGet (F :: bulks args)) = h_mget now d (F :: bulks args).
Proof.
  destruct args as [|k r]; unfold parse_ks, ExecFacts.via; rewrite ?bulks_cons, ?bulks_nil.
  - unfold h_mget, nparts. lens. reflexivity.
  - rewrite <- (bulks_cons k r), x_all_bytes_bulks. cbn [option_map execute].
    apply h_mget_tl; [reflexivity|]. unfold frames_of. lens. fold (bulks (k :: r)). now lens.
Qed.

Lemma pairs_none_odd : forall l, pairs_of (bulks l) = None -> Z.odd (len l) = true.
Proof.
  assert (G : forall n l, (length l <= n)%nat -> pairs_of (bulks l) = None -> Z.odd (len l) = true).
  { induction n as [|n IH]; intros [|a [|b r]] Hl; cbn [length] in Hl; try lia; rewrite ?bulks_cons, ?bulks_nil;
      cbn [pairs_of]; intros E; try discriminate.
    - reflexivity.
    - destruct (pairs_of (bulks r)) eqn:Er; [discriminate|].
      lens. replace (1 + (1 + len r)) with (len r + 2) by lia. rewrite Z.odd_add_even by (exists 1; lia). apply (IH r); [lia|exact Er]. }
  intros l. apply (G (length l)). lia.
Qed.

Lemma parity_mset args : via (parse_mset (F :: bulks args)) = h_mset now d (F :: bulks args).
Proof.
  unfold parse_mset, h_mset, nparts, ExecFacts.via. lens.
  destruct ((1 + len args <? 3) || ((1 + len args) mod 2 =? 0)) eqn:E; [reflexivity|].
  cbn [tl]. destruct (x_pairs (bulks args)) as [ps|] eqn:Ep; cbn [option_map].
  - cbn [execute]. unfold h_mset, nparts, frames_of. cbn [tl].
    change (map FBulk (flat_bytes ps)) with (bulks (flat_bytes ps)).
    rewrite (x_pairs_flat _ _ Ep). lens. now rewrite E.
  - rewrite x_pairs_pairs_of in Ep. apply pairs_none_odd in Ep.
    apply Z.odd_spec in Ep. destruct Ep as [m Hm].
    apply orb_false_elim in E. destruct E as [_ E]. apply Z.eqb_neq in E. exfalso. apply E.
    rewrite Hm. replace (1 + (2 * m + 1)) with ((m + 1) * 2) by lia. apply Z.mod_mul. lia.
Qed.
Lemma h_getset_frames k v : h_getset now d (frames_of (bs "GETSET") [k; v]) = h_getset now d [F; FBulk k; FBulk v].
Proof. reflexivity. Qed.
Lemma parity_getset args : via (parse_kv XGetSet (F :: bulks args)) = h_getset now d (F :: bulks args).
Proof.
  destruct args as [|k [|a [|b r]]]; unfold parse_kv, ExecFacts.via;
    rewrite ?bulks_cons, ?bulks_nil; cbn [x_bytes arg_bytes]; try reflexivity.
  unfold h_getset, nparts. lens. len_bool. destruct (1 + (1 + (1 + (1 + len r))) =? 3) eqn:E; [lia|]. reflexivity.
Qed.

Lemma parity_append args : via (parse_kv XAppend (F :: bulks args)) = h_append d (F :: bulks args).
Proof.
  destruct args as [|k [|a [|b r]]]; unfold h_append, nparts, parse_kv, ExecFacts.via, nth_arg;
    rewrite ?bulks_cons, ?bulks_nil; cbn [nth_error x_bytes arg_bytes]; lens; try reflexivity.
  len_bool. destruct (1 + (1 + (1 + (1 + len r))) =? 3) eqn:E; [lia|]. reflexivity.
Qed.
Lemma parity_strlen args : via (parse_k XStrLen (F :: bulks args)) = h_strlen d (F :: bulks args).
Proof.
  destruct args as [|k [|a r]]; unfold h_strlen, nparts, parse_k, ExecFacts.via, nth_arg;
    rewrite ?bulks_cons, ?bulks_nil; cbn [nth_error x_bytes arg_bytes option_map]; lens; try reflexivity.
  - cbn [execute]. unfold eng_strlen. destruct (get_entry d k) as [e|]; [destruct (e_val e)|]; reflexivity.
  - len_bool. destruct (1 + (1 + (1 + len r)) =? 2) eqn:E; [lia|]. reflexivity.
Qed.
Lemma parity_getrange args :
  via (parse_k_int_int XGetRange (F :: bulks args)) = h_getrange d (F :: bulks args).
Proof.
  destruct args as [|k [|a [|b [|x r]]]]; unfold h_getrange, nparts, parse_k_int_int, ExecFacts.via, nth_arg;
    rewrite ?bulks_cons, ?bulks_nil; cbn [nth_error x_bytes arg_bytes]; lens; try reflexivity.
  - xints.
    destruct (parse_i64 a) as [s|]; [|reflexivity]. destruct (parse_i64 b) as [e|]; [|reflexivity].
    cbn [execute]. unfold eng_getrange. destruct (get_entry d k) as [en|]; [destruct (e_val en)|]; reflexivity.
  - len_bool. destruct (1 + (1 + (1 + (1 + (1 + len r)))) =? 4) eqn:E; [lia|]. reflexivity.
Qed.
Lemma parity_setrange args :
  via (parse_k_int_v parse_usize XSetRange (F :: bulks args)) = h_setrange d (F :: bulks args).
Proof.
  destruct args as [|k [|a [|b [|x r]]]]; unfold h_setrange, nparts, parse_k_int_v, ExecFacts.via, nth_arg;
    rewrite ?bulks_cons, ?bulks_nil; cbn [nth_error x_bytes arg_bytes]; lens; try reflexivity.
  - xints.
    destruct (parse_unsigned u64_max a) as [s|]; reflexivity.
  - len_bool. destruct (1 + (1 + (1 + (1 + (1 + len r)))) =? 4) eqn:E; [lia|]. reflexivity.
Qed.

Lemma parity_expire args :
  via (match F :: bulks args with
       | [_; k; a] => match x_bytes k, x_int parse_i64 a with Some kb, Some n => Some (XExpire kb n) | _, _ => None end
       | _ => None
       end) = h_expire now d (F :: bulks args).
Proof.
  destruct args as [|k [|a [|x r]]]; unfold h_expire, nparts, ExecFacts.via, nth_arg;
    rewrite ?bulks_cons, ?bulks_nil; cbn [nth_error x_bytes arg_bytes]; lens; try reflexivity.
  - xints. destruct (parse_i64 a) as [s0|]; reflexivity.
  - len_bool. destruct (1 + (1 + (1 + (1 + len r))) =? 3) eqn:E; [lia|]. reflexivity.
Qed.
Lemma parity_pexpire args :
  via (match F :: bulks args with
       | [_; k; a] => match x_bytes k, x_int parse_u64 a with Some kb, Some n => Some (XPExpire kb n) | _, _ => None end
       | _ => None
       end) = h_pexpire now d (F :: bulks args).
Proof.
  destruct args as [|k [|a [|x r]]]; unfold h_pexpire, nparts, ExecFacts.via, nth_arg;
    rewrite ?bulks_cons, ?bulks_nil; cbn [nth_error x_bytes arg_bytes]; lens; try reflexivity.
  - xints. destruct (parse_unsigned u64_max a) as [n|]; reflexivity.
  - len_bool. destruct (1 + (1 + (1 + (1 + len r))) =? 3) eqn:E; [lia|]. reflexivity.
Qed.
Lemma parity_ttl args : via (parse_k XTtl (F :: bulks args)) = h_ttl now d (F :: bulks args).
Proof.
  destruct args as [|k [|a r]]; unfold h_ttl, nparts, parse_k, ExecFacts.via, nth_arg;
    rewrite ?bulks_cons, ?bulks_nil; cbn [nth_error x_bytes arg_bytes option_map]; lens; try reflexivity.
  len_bool. destruct (1 + (1 + (1 + len r)) =? 2) eqn:E; [lia|]. reflexivity.
Qed.
Lemma parity_pttl args : via (parse_k XPttl (F :: bulks args)) = h_pttl now d (F :: bulks args).
Proof.
  destruct args as [|k [|a r]]; unfold h_pttl, nparts, parse_k, ExecFacts.via, nth_arg;
    rewrite ?bulks_cons, ?bulks_nil; cbn [nth_error x_bytes arg_bytes option_map]; lens; try reflexivity.
  len_bool. destruct (1 + (1 + (1 + len r)) =? 2) eqn:E; [lia|]. reflexivity.
Qed.
Lemma parity_persist args : via (parse_k XPersist (F :: bulks args)) = h_persist d (F :: bulks args).
Proof.
  destruct args as [|k [|a r]]; unfold h_persist, nparts, parse_k, ExecFacts.via, nth_arg;
    rewrite ?bulks_cons, ?bulks_nil; cbn [nth_error x_bytes arg_bytes option_map]; lens; try reflexivity.
  len_bool. destruct (1 + (1 + (1 + len r)) =? 2) eqn:E; [lia|]. reflexivity.
Qed.
Lemma parity_rename args : via (parse_kv XRename (F :: bulks args)) = h_rename d (F :: bulks args).
Proof.
  destruct args as [|k [|a [|b r]]]; unfold h_rename, nparts, parse_kv, ExecFacts.via, nth_arg;
    rewrite ?bulks_cons, ?bulks_nil; cbn [nth_error x_bytes arg_bytes]; lens; try reflexivity.
  len_bool. destruct (1 + (1 + (1 + (1 + len r))) =? 3) eqn:E; [lia|]. reflexivity.
Qed.
Lemma parity_renamenx args : via (parse_kv XRenameNx (F :: bulks args)) = h_renamenx now d (F :: bulks args).
Proof.
  destruct args as [|k [|a [|b r]]]; unfold h_renamenx, nparts, parse_kv, ExecFacts.via, nth_arg;
    rewrite ?bulks_cons, ?bulks_nil; cbn [nth_error x_bytes arg_bytes]; lens; try reflexivity.
  len_bool. destruct (1 + (1 + (1 + (1 + len r))) =? 3) eqn:E; [lia|]. reflexivity.
Qed.
Lemma parity_keys args :
  via (match F :: bulks args with [_; p] => option_map XKeys (x_bytes p) | _ => None end) = h_keys d (F :: bulks args).
Proof.
  destruct args as [|k [|a r]]; unfold h_keys, nparts, ExecFacts.via, nth_arg;
    rewrite ?bulks_cons, ?bulks_nil; cbn [nth_error x_bytes arg_bytes option_map]; lens; try reflexivity.
  len_bool. destruct (1 + (1 + (1 + len r)) =? 2) eqn:E; [lia|]. reflexivity.
Qed.
Lemma parity_dbsize : via (Some XDbSize) = h_dbsize d (F :: bulks []).
Proof. reflexivity. Qed.
Lemma parity_flushdb : via (Some XFlushDb) = h_flushdb d (F :: bulks []).
Proof. reflexivity. Qed.
(** TYPE: the same state and, as Lua values, the same reply (a status reply and a bulk
    string are both Lua strings) *)
Lemma parity_type_conv args pc :
  let r1 := via (parse_k XType (F :: bulks args)) in
  let r2 := h_type d (F :: bulks args) in
  snd r1 = snd r2 /\ resp_to_lua pc (fst r1) = resp_to_lua pc (fst r2).
Proof.
  destruct args as [|k [|a r]]; unfold h_type, nparts, parse_k, ExecFacts.via, nth_arg;
    rewrite ?bulks_cons, ?bulks_nil; cbn [nth_error x_bytes arg_bytes option_map]; lens; cbv zeta; try (split; reflexivity).
  - cbn [execute fst snd]. unfold eng_key_type. destruct (get_entry d k) as [e|]; [destruct (e_val e)|]; split; reflexivity.
  - len_bool. destruct (1 + (1 + (1 + len r)) =? 2) eqn:E; [lia|]. split; reflexivity.
Qed.

(** SET: the two option parsers in lockstep *)
Definition plain (o : set_options) : bool := negb (o_get o) && negb (o_keepttl o).
Lemma set_options_get_mono opts : forall o ex px o', parse_set_options opts o ex px = Some o' ->
  (o_get o = true -> o_get o' = true) /\ (o_keepttl o = true -> o_keepttl o' = true).
Proof.
  assert (G : forall n opts, (length opts <= n)%nat -> forall o ex px o', parse_set_options opts o ex px = Some o' ->
              (o_get o = true -> o_get o' = true) /\ (o_keepttl o = true -> o_keepttl o' = true)).
  { induction n as [|n IH]; intros [|f rest] Hl o ex px o'; cbn [length] in Hl; try lia; cbn [parse_set_options]; intros E.
    - inversion E; subst; tauto.
    - inversion E; subst; tauto.
    - destruct (x_str f) as [s0|]; [|discriminate].
      repeat match type of E with
      | (if ?c then _ else _) = _ => destruct c
      end; try discriminate;
      try (apply IH in E; [cbn [o_get o_keepttl] in E; tauto|lia]).
      + destruct rest as [|a rest']; [discriminate|]. destruct (x_int parse_u64 a) as [zz|]; [|discriminate].
        destruct (zz =? 0); [discriminate|].
        apply IH in E; [cbn [o_get o_keepttl] in E; tauto|cbn [length] in *; lia].
      + destruct rest as [|a rest']; [discriminate|]. destruct (x_int parse_u64 a) as [zz|]; [|discriminate].
        destruct (zz =? 0); [discriminate|].
        apply IH in E; [cbn [o_get o_keepttl] in E; tauto|cbn [length] in *; lia]. }
  intros o ex px o'. apply (G (length opts)). lia.
Qed.

Definition refusal (r : setopt) : Prop := match r with SetOpts _ _ _ => False | _ => True end.

Lemma set_opts_rel : forall n opts, (length opts <= n)%nat -> forall fuel o ex px,
  plain o = true -> (length opts <= fuel)%nat ->
  match parse_set_options (bulks opts) o ex px with
  | Some o' => plain o' = true ->
               parse_set_opts fuel (bulks opts) (o_exp o) ex px (o_nx o) (o_xx o) = SetOpts (o_exp o') (o_nx o') (o_xx o')
  | None => refusal (parse_set_opts fuel (bulks opts) (o_exp o) ex px (o_nx o) (o_xx o))
  end.
Proof.
  induction n as [|n IH]; intros [|a rest] Hl fuel o ex px Hp Hf; cbn [length] in Hl; try lia.
  - rewrite bulks_nil. cbn [parse_set_options]. intros _. destruct fuel; reflexivity.
  - rewrite bulks_nil. cbn [parse_set_options]. intros _. destruct fuel; reflexivity.
  - destruct fuel as [|fuel]; [cbn [length] in Hf; lia|].
    rewrite bulks_cons. cbn [parse_set_options parse_set_opts]. cbn [length] in Hf.
    destruct (utf8_valid a) eqn:Ha.
    2:{ (* an option word that is not UTF-8: Err(InvalidUtf8) there, a syntax error here *)
        unfold x_str. rewrite Ha.
        rewrite (invalid_not_word a (bs "EX") eq_refl Ha), (invalid_not_word a (bs "PX") eq_refl Ha),
                (invalid_not_word a (bs "NX") eq_refl Ha), (invalid_not_word a (bs "XX") eq_refl Ha). exact I. }
    rewrite (x_str_valid _ Ha).
    destruct (beq (upper a) (bs "NX")) eqn:E1.
    { apply beq_eq in E1. rewrite E1. kill_beq. cbv iota.
      apply (IH rest ltac:(lia) fuel {| o_nx := true; o_xx := o_xx o; o_get := o_get o; o_exp := o_exp o; o_keepttl := o_keepttl o |} ex px);
        [exact Hp|lia]. }
    destruct (beq (upper a) (bs "XX")) eqn:E2.
    { apply beq_eq in E2. rewrite E2. kill_beq. cbv iota.
      apply (IH rest ltac:(lia) fuel {| o_nx := o_nx o; o_xx := true; o_get := o_get o; o_exp := o_exp o; o_keepttl := o_keepttl o |} ex px);
        [exact Hp|lia]. }
    destruct (beq (upper a) (bs "GET")) eqn:E3.
    { apply beq_eq in E3. rewrite E3. kill_beq. cbv iota.
      destruct (parse_set_options (bulks rest) _) as [o'|] eqn:Eo; [|exact I].
      apply set_options_get_mono in Eo. cbn [o_get] in Eo. destruct Eo as [Eg _].
      intros Hp'. unfold plain in Hp'. rewrite (Eg eq_refl) in Hp'. discriminate. }
    destruct (beq (upper a) (bs "EX")) eqn:E4.
    { destruct px; [exact I|]. destruct rest as [|b rest']; [exact I|].
      rewrite bulks_cons. rewrite x_int_u64. destruct (parse_u64 b) as [m|]; [|exact I].
      destruct (m =? 0); [exact I|].
      cbn [length] in *.
      apply (IH rest' ltac:(lia) fuel {| o_nx := o_nx o; o_xx := o_xx o; o_get := o_get o; o_exp := Some (m * 1000); o_keepttl := o_keepttl o |} true false);
        [exact Hp|lia]. }
    destruct (beq (upper a) (bs "PX")) eqn:E5.
    { destruct ex; [exact I|]. destruct rest as [|b rest']; [exact I|].
      rewrite bulks_cons. rewrite x_int_u64. destruct (parse_u64 b) as [m|]; [|exact I].
      destruct (m =? 0); [exact I|].
      cbn [length] in *.
      apply (IH rest' ltac:(lia) fuel {| o_nx := o_nx o; o_xx := o_xx o; o_get := o_get o; o_exp := Some m; o_keepttl := o_keepttl o |} false true);
        [exact Hp|lia]. }
    destruct (beq (upper a) (bs "KEEPTTL")) eqn:E6; [|exact I].
    destruct (parse_set_options (bulks rest) _) as [o'|] eqn:Eo; [|exact I].
    apply set_options_get_mono in Eo. cbn [o_keepttl] in Eo. destruct Eo as [_ Ek].
    intros Hp'. unfold plain in Hp'. rewrite (Ek eq_refl), andb_false_r in Hp'. discriminate.
Qed.

Definition set_known (opts : list bytes) : bool :=
  match parse_set_options (bulks opts) default_options false false with
  | Some o => o_get o || o_keepttl o
  | None => false
  end.

Lemma parity_set args :
  match args with k :: _ => beq k [] = false | [] => True end ->
  set_known (skipn 2 args) = false ->
  via (parse_set (F :: bulks args)) = h_set now d (F :: bulks args).
Proof.
  destruct args as [|k [|v opts]]; intros Hk Hs; unfold h_set, nparts, parse_set, ExecFacts.via;
    rewrite ?bulks_cons, ?bulks_nil; cbn [nth_error x_bytes arg_bytes skipn]; lens; try reflexivity.
  len_bool. destruct (1 + (1 + (1 + len opts)) <? 3) eqn:E; [lia|]. rewrite Hk.
  cbn [skipn] in Hs. unfold set_known in Hs.
  pose proof (set_opts_rel (length opts) opts (le_n _) (length (F :: FBulk k :: FBulk v :: bulks opts)) default_options false false
                eq_refl ltac:(cbn [length]; unfold bulks; rewrite map_length; lia)) as R.
  cbn [o_exp o_nx o_xx default_options] in R.
  destruct (parse_set_options (bulks opts) default_options false false) as [o|].
  2:{ destruct (parse_set_opts _ _ None false false false false); [elim R|reflexivity|reflexivity]. }
  apply orb_false_elim in Hs. destruct Hs as [Hg Hkp].
  rewrite R by (unfold plain; now rewrite Hg, Hkp).
  cbn [execute]. rewrite Hkp, Hg. cbn [andb orb]. rewrite orb_false_r. unfold eng_set_nx, eng_set.
  destruct (o_nx o); destruct (o_xx o); cbn [andb]; try reflexivity;
    (destruct (o_exp o) as [ms|]; [destruct (ttl_ok ms)|]); destruct (eng_exists now d k); reflexivity.
Qed.
Lemma parity_noargs (c : xcmd) (h : db -> list frame -> frame * db) args :
  (forall parts, h d parts = if negb (nparts parts =? 1) then (r_err, d) else execute now d c None) ->
  via (parse_no_args c (F :: bulks args)) = h d (F :: bulks args).
Proof.
  intros Hh. rewrite Hh. destruct args as [|a r]; unfold parse_no_args, nparts, ExecFacts.via; rewrite ?bulks_cons, ?bulks_nil; lens; [reflexivity|].
  len_bool. destruct (1 + (1 + len r) =? 1) eqn:E; [lia|]. reflexivity.
Qed.
End StringsParity.

(** ---- the classes outside which the two paths agree (each with its refutation below) ---- *)
Definition arg1_empty (args : list bytes) : bool := match args with k :: _ => beq k [] | [] => false end.
Definition known (now : Z) (d : db) (name : bytes) (args : list bytes) : bool :=
  (* the direct SET / GET / INCR / INCRBY refuse the empty key (C01 empty-key); the direct SET has no GET / KEEPTTL *)
  if beq name (bs "SET") then arg1_empty args || set_known (skipn 2 args)
  else if beq name (bs "GET") || beq name (bs "INCR") || beq name (bs "INCRBY") then arg1_empty args
  else if beq name (bs "TYPE") then match args with [_] => true | _ => false end (* status reply vs bulk string *)
  else false.

Lemma catalogue_ascii : forallb ascii catalogue = true.
Proof. vm_compute. reflexivity. Qed.
Lemma catalogue_name_valid nm : In (upper nm) catalogue -> utf8_valid nm = true.
Proof.
  intros H. pose proof catalogue_ascii as G. rewrite forallb_forall in G.
  apply ascii_valid, upper_ascii, G, H.
Qed.

Ltac kill_beq_in H :=
  repeat match type of H with
  | context [beq (bs ?a) (bs ?b)] =>
      let v := eval vm_compute in (beq (bs a) (bs b)) in change (beq (bs a) (bs b)) with v in H
  end.
Theorem parity : forall now d nm args,
  In (upper nm) catalogue ->
  known now d (upper nm) args = false ->
  Some (exec_run now d (bulks (nm :: args)) None) = exec_db now d (upper nm) (bulks (nm :: args)) None.
Proof.
  intros now d nm args Hin Hk.
  pose proof (catalogue_name_valid nm Hin) as Hnm.
  unfold catalogue in Hin. cbn [map In] in Hin.
  repeat (destruct Hin as [Hin|Hin]; [
    unfold exec_run, parse; rewrite bulks_cons; rewrite (x_str_valid nm Hnm);
    rewrite <- Hin in *; clear Hin;
    cbv beta iota delta [parse_named]; kill_beq; cbv iota;
    unfold exec_db, exec_strings, exec_lists; kill_beq; cbv iota;
    unfold known in Hk; kill_beq_in Hk; cbv iota in Hk; cbn [orb] in Hk;
    f_equal | ]); [ .. | elim Hin ].
  (* SET *)
  { apply orb_false_elim in Hk. destruct Hk as [Hk1 Hk2].
    apply (parity_set now d (FBulk nm)); [destruct args; [exact I|exact Hk1] | exact Hk2]. }
  (* GET *)
  { apply (parity_get now d (FBulk nm)). destruct args as [|k [|? ?]]; try exact I. exact Hk. }
  (* MGET *) { apply (parity_mget now d (FBulk nm)). }
  (* MSET *) { apply (parity_mset now d (FBulk nm)). }
  (* INCR *)
  { apply (parity_incr now d (FBulk nm) true 1 XIncr); [reflexivity|]. destruct args as [|k [|? ?]]; try exact I. exact Hk. }
  (* INCRBY *)
  { apply (parity_incrby now d (FBulk nm)). destruct args; [exact I|exact Hk]. }
  (* DECR *)
  { apply (parity_incr now d (FBulk nm) false (-1) XDecr); [reflexivity|]. destruct args as [|k [|? ?]]; try exact I. reflexivity. }
  (* DECRBY *) { apply (parity_decrby now d (FBulk nm)). }
  (* SETNX *) { apply (parity_setnx now d (FBulk nm)). }
  (* SETEX *)
  { apply (parity_setex now d (FBulk nm) 1000 XSetEx); reflexivity. }
  (* PSETEX *)
  { apply (parity_setex now d (FBulk nm) 1 XPSetEx). intros k v n. cbn [execute]. now rewrite Z.mul_1_r. }
  (* APPEND *) { apply (parity_append now d (FBulk nm)). }
  (* STRLEN *) { apply (parity_strlen now d (FBulk nm)). }
  (* GETSET *) { apply (parity_getset now d (FBulk nm)). }
  (* GETRANGE *) { apply (parity_getrange now d (FBulk nm)). }
  (* SETRANGE *) { apply (parity_setrange now d (FBulk nm)). }
  (* DEL *) { apply (parity_del now d (FBulk nm)). }
  (* EXISTS *) { apply (parity_exists now d (FBulk nm)). }
  (* EXPIRE *) { apply (parity_expire now d (FBulk nm)). }
  (* PEXPIRE *) { apply (parity_pexpire now d (FBulk nm)). }
  (* TTL *) { apply (parity_ttl now d (FBulk nm)). }
  (* PTTL *) { apply (parity_pttl now d (FBulk nm)). }
  (* PERSIST *) { apply (parity_persist now d (FBulk nm)). }
  (* TYPE: only the wrong arities are outside the class *)
  { destruct args as [|k [|a r]]; [reflexivity|discriminate|].
    unfold h_type, nparts, parse_k. rewrite !bulks_cons. lens. len_bool.
    destruct (1 + (1 + (1 + len r)) =? 2) eqn:E; [lia|]. reflexivity. }
  (* RENAME *) { apply (parity_rename now d (FBulk nm)). }
  (* RENAMENX *) { apply (parity_renamenx now d (FBulk nm)). }
  (* KEYS *) { apply (parity_keys now d (FBulk nm)). }
  (* DBSIZE *) { apply (parity_noargs now d (FBulk nm) XDbSize h_dbsize). reflexivity. }
  (* FLUSHDB *) { apply (parity_noargs now d (FBulk nm) XFlushDb h_flushdb). reflexivity. }
  (* LPUSH *) { apply (shape_k_vs now d (FBulk nm) XLPush (e_push true) (h_push true)); reflexivity. }
  (* RPUSH *) { apply (shape_k_vs now d (FBulk nm) XRPush (e_push false) (h_push false)); reflexivity. }
  (* LPOP *) { apply (shape_k1 now d (FBulk nm) XLPop (e_pop true)); reflexivity. }
  (* RPOP *) { apply (shape_k1 now d (FBulk nm) XRPop (e_pop false)); reflexivity. }
  (* LLEN *) { apply (shape_k1 now d (FBulk nm) XLLen e_llen); reflexivity. }
  (* LINDEX *) { apply (shape_lindex now d (FBulk nm)). }
  (* LSET *) { apply (shape_int_bulk now d (FBulk nm) XLSet e_lset); reflexivity. }
  (* LRANGE *) { apply (shape_range now d (FBulk nm) XLRange e_lrange); reflexivity. }
  (* LTRIM *) { apply (shape_range now d (FBulk nm) XLTrim e_ltrim); reflexivity. }
  (* LREM *) { apply (shape_int_bulk now d (FBulk nm) XLRem e_lrem); reflexivity. }
  (* SADD *) { apply (shape_k_vs now d (FBulk nm) XSAdd e_sadd h_sadd); reflexivity. }
  (* SREM *) { apply (shape_k_vs_skipping now d (FBulk nm) XSRem e_srem); reflexivity. }
  (* SMEMBERS *) { apply (shape_k1 now d (FBulk nm) XSMembers e_smembers); reflexivity. }
  (* SCARD *) { apply (shape_k1 now d (FBulk nm) XSCard e_scard); reflexivity. }
  (* SISMEMBER *) { apply (shape_kv now d (FBulk nm) XSIsMember e_sismember); reflexivity. }
  (* SUNION *) { apply (shape_ks_setalg now d (FBulk nm) XSUnion eng_sunion); reflexivity. }
  (* SINTER *) { apply (shape_ks_setalg now d (FBulk nm) XSInter eng_sinter); reflexivity. }
  (* SDIFF *) { apply (shape_ks_setalg now d (FBulk nm) XSDiff eng_sdiff); reflexivity. }
  (* HSET *) { apply (shape_hset now d (FBulk nm) false XHSet); reflexivity. }
  (* HGET *) { apply (shape_kv now d (FBulk nm) XHGet e_hget); reflexivity. }
  (* HMSET *) { apply (shape_hset now d (FBulk nm) true XHMSet); reflexivity. }
  (* HMGET *) { apply (shape_k_vs now d (FBulk nm) XHMGet e_hmget h_hmget); reflexivity. }
  (* HGETALL *) { apply (shape_k1 now d (FBulk nm) XHGetAll e_hgetall); reflexivity. }
  (* HDEL *) { apply (shape_k_vs_skipping now d (FBulk nm) XHDel e_hdel); reflexivity. }
  (* HLEN *) { apply (shape_k1 now d (FBulk nm) XHLen e_hlen); reflexivity. }
  (* HEXISTS *) { apply (shape_kv now d (FBulk nm) XHExists e_hexists); reflexivity. }
  (* HKEYS *) { apply (shape_k1 now d (FBulk nm) XHKeys e_hkeys); reflexivity. }
  (* HVALS *) { apply (shape_k1 now d (FBulk nm) XHVals e_hvals); reflexivity. }
  (* HINCRBY *) { apply (shape_hincrby now d (FBulk nm)). }
Qed.
