(** Proofs for C02: the sweeper never deletes a live key, completes on indexed
    deadlines, TTL bookkeeping of the string/key commands. *)
From Ferrous Require Import Base.Bytes Generated Model.Resp Model.Types Model.Glob Model.Strings
  Model.Lists Model.ZSets Model.Streams Model.Server Proofs.BytesFacts Proofs.StringsFacts Proofs.ServerFacts.
From Coq Require Import ZifyBool.
Open Scope Z_scope.

(** ---- never early: the sweeper's delete phase, whatever candidates it was handed ---- *)
Lemma sweep_key_keeps_live now d t k k' e :
  get_entry d k' = Some e -> expired now e = false ->
  get_entry (fst (sweep_key now (d, t) k)) k' = Some e.
Proof.
  intros Hg He. unfold sweep_key.
  destruct (get_entry d k) as [ek|] eqn:Hk.
  - destruct (expired now ek) eqn:Ee.
    + cbn [fst]. rewrite get_entry_index_del. destruct (beq k' k) eqn:E.
      * apply beq_eq in E. subst k'. rewrite Hk in Hg. inversion Hg; subst. congruence.
      * rewrite get_entry_del_other by exact E. exact Hg.
    + destruct (e_exp ek); cbn [fst]; [rewrite get_entry_index|rewrite get_entry_index_del]; exact Hg.
  - cbn [fst]. rewrite get_entry_index_del. exact Hg.
Qed.

Lemma sweep_delete_keeps_live now : forall ks d t k' e,
  get_entry d k' = Some e -> expired now e = false ->
  get_entry (fst (sweep_delete now d t ks)) k' = Some e.
Proof.
  unfold sweep_delete. induction ks as [|k ks IH]; intros d t k' e Hg He; cbn [fold_left]; [exact Hg|].
  destruct (sweep_key now (d, t) k) as [d1 t1] eqn:E.
  apply IH; [|exact He]. pose proof (sweep_key_keeps_live now d t k k' e Hg He) as H. rewrite E in H. exact H.
Qed.

(** the racing window: candidates collected at [t0], deletions at [t1 >= t0] after arbitrary
    client activity that turned the database into [d1]: a key that is live in [d1] at [t1]
    survives with its value and deadline, whether or not it was a candidate *)
Lemma sweep_race_safe t0 t1 d0 d1 trk k e :
  get_entry d1 k = Some e -> expired t1 e = false ->
  get_entry (fst (sweep_delete t1 d1 trk (sweep_collect t0 d0))) k = Some e.
Proof. intros. apply sweep_delete_keeps_live; assumption. Qed.

(** the sweeper only ever removes keys: nothing is created or altered *)
Lemma sweep_key_only_removes now d t k k' :
  get_entry (fst (sweep_key now (d, t) k)) k' = get_entry d k' \/
  get_entry (fst (sweep_key now (d, t) k)) k' = None.
Proof.
  unfold sweep_key. destruct (get_entry d k) as [ek|] eqn:Hk.
  - destruct (expired now ek).
    + cbn [fst]. rewrite get_entry_index_del. destruct (beq k' k) eqn:E.
      * apply beq_eq in E. subst. right. apply get_entry_del_same.
      * left. apply get_entry_del_other; exact E.
    + left. destruct (e_exp ek); reflexivity.
  - left. reflexivity.
Qed.

(** ---- completeness: an entry whose indexed AND stored deadlines have passed is gone
    after a pass ---- *)
Lemma sweep_key_index_other now d t k k' :
  beq k' k = false -> alookup k' (d_index (fst (sweep_key now (d, t) k))) = alookup k' (d_index d).
Proof.
  intros Hn. unfold sweep_key. destruct (get_entry d k) as [ek|].
  - destruct (expired now ek); [cbn; apply alookup_aremove_other; exact Hn|].
    destruct (e_exp ek); cbn; [apply alookup_aset_other|apply alookup_aremove_other]; exact Hn.
  - cbn. apply alookup_aremove_other; exact Hn.
Qed.
Lemma sweep_key_removes_expired now d t k e :
  get_entry d k = Some e -> expired now e = true ->
  get_entry (fst (sweep_key now (d, t) k)) k = None.
Proof.
  intros Hg He. unfold sweep_key. rewrite Hg, He. cbn [fst].
  rewrite get_entry_index_del. apply get_entry_del_same.
Qed.
Lemma sweep_delete_stays_gone now : forall ks d t k,
  get_entry d k = None -> get_entry (fst (sweep_delete now d t ks)) k = None.
Proof.
  unfold sweep_delete. induction ks as [|k0 ks IH]; intros d t k Hg; cbn [fold_left]; [exact Hg|].
  destruct (sweep_key now (d, t) k0) as [d1 t1] eqn:E. apply IH.
  destruct (sweep_key_only_removes now d t k0 k) as [H|H]; rewrite E in H; cbn [fst] in H; congruence.
Qed.
Lemma sweep_delete_removes now : forall ks d t k e,
  In k ks -> get_entry d k = Some e -> expired now e = true ->
  get_entry (fst (sweep_delete now d t ks)) k = None.
Proof.
  unfold sweep_delete. induction ks as [|k0 ks IH]; intros d t k e Hin Hg He; [contradiction|].
  cbn [fold_left]. destruct (sweep_key now (d, t) k0) as [d1 t1] eqn:E.
  destruct (beq k k0) eqn:Ek.
  - apply beq_eq in Ek. subst k0.
    pose proof (sweep_key_removes_expired now d t k e Hg He) as H. rewrite E in H. cbn [fst] in H.
    apply (sweep_delete_stays_gone now ks d1 t1 k H).
  - destruct Hin as [->|Hin]; [rewrite beq_refl in Ek; discriminate|].
    destruct (sweep_key_only_removes now d t k0 k) as [H|H]; rewrite E in H; cbn [fst] in H.
    + eapply IH; [exact Hin|rewrite H; exact Hg|exact He].
    + apply (sweep_delete_stays_gone now ks d1 t1 k H).
Qed.
Lemma collect_in now d k ti : alookup k (d_index d) = Some ti -> ti <= now -> In k (sweep_collect now d).
Proof.
  unfold sweep_collect. intros Ha Ht. induction (d_index d) as [|[k0 t0] l IH]; [discriminate|].
  cbn [alookup] in Ha. cbn [filter snd]. destruct (beq k k0) eqn:E.
  - apply beq_eq in E. inversion Ha; subst. replace (ti <=? now) with true by lia. left. reflexivity.
  - destruct (t0 <=? now); [right|]; apply IH; exact Ha.
Qed.
Lemma sweep_complete now d t k e ti :
  alookup k (d_index d) = Some ti -> ti <= now -> get_entry d k = Some e -> expired now e = true ->
  get_entry (fst (sweep_delete now d t (sweep_collect now d))) k = None.
Proof. intros Ha Ht Hg He. eapply sweep_delete_removes; eauto. eapply collect_in; eauto. Qed.

(** ---- TTL bookkeeping of the commands ---- *)
(** SET (plain), GETSET, MSET go through set_value with no TTL: the deadline is cleared *)
Lemma set_value_clears now d k v : 
  exists e, get_entry (set_value now d k v None) k = Some e /\ e_exp e = None /\ e_val e = v.
Proof. eexists. rewrite set_value_get. repeat split. Qed.
Lemma persist_clears d k e :
  get_entry d k = Some e -> e_exp e <> None ->
  exists e', get_entry (snd (eng_persist d k)) k = Some e' /\ e_exp e' = None /\ e_val e' = e_val e.
Proof.
  intros Hg Hn. unfold eng_persist. rewrite Hg. destruct (e_exp e) eqn:Ee; [|congruence].
  cbn [snd]. rewrite get_entry_index_del, get_entry_put_same. eexists. repeat split.
Qed.
(** RENAME carries the value together with its deadline *)
Lemma rename_carries d o n e :
  get_entry d o = Some e -> get_entry (snd (eng_rename d o n)) n = Some e.
Proof. intros Hg. unfold eng_rename. rewrite Hg. cbn [snd]. apply get_entry_put_same. Qed.
(** in-place modifications keep the deadline *)
Lemma incr_keeps_deadline d k inc n d' e :
  get_entry d k = Some e -> eng_incr_by d k inc = (Some n, d') ->
  exists e', get_entry d' k = Some e' /\ e_exp e' = e_exp e.
Proof.
  intros Hg. unfold eng_incr_by. rewrite Hg. destruct (e_val e); try discriminate.
  destruct (parse_i64 b); [|discriminate]. destruct (in_i64 (z + inc)); [|discriminate].
  intros H; inversion H; subst. rewrite get_entry_put_same. eexists. split; reflexivity.
Qed.
Lemma append_keeps_deadline d k v e b r d' :
  get_entry d k = Some e -> e_val e = VStr b ->
  h_append d [FBulk (bs "APPEND"); FBulk k; FBulk v] = (r, d') ->
  exists e', get_entry d' k = Some e' /\ e_exp e' = e_exp e /\ e_val e' = VStr (b ++ v).
Proof.
  intros Hg Hv. unfold h_append, nparts, nth_arg.
  cbn [len length nth_error arg_bytes Z.of_nat Pos.of_succ_nat Pos.succ Z.eqb Pos.eqb negb].
  rewrite Hg, Hv. intros H; inversion H; subst. rewrite get_entry_put_same. eexists. repeat split.
Qed.

(** TTL / PTTL replies *)
Lemma ttl_reply now d k :
  fst (h_ttl now d [FBulk (bs "TTL"); FBulk k]) =
    match get_entry d k with
    | None => r_int (-2)
    | Some e => match e_exp e with
                | None => r_int (-1)
                | Some t => if now <? t then r_int ((t - now + 999) / 1000) else r_int (-2)
                end
    end.
Proof.
  unfold h_ttl, nparts, nth_arg, eng_ttl, eng_exists, expired.
  cbn [len length nth_error arg_bytes Z.of_nat Pos.of_succ_nat Pos.succ Z.eqb Pos.eqb negb fst].
  destruct (get_entry d k) as [e|]; [|reflexivity]. destruct (e_exp e) as [t|]; [|reflexivity].
  destruct (now <? t) eqn:E; cbn [fst].
  - replace (t - now =? 0) with false by lia. reflexivity.
  - reflexivity.
Qed.
Lemma pttl_reply now d k :
  fst (h_pttl now d [FBulk (bs "PTTL"); FBulk k]) =
    match get_entry d k with
    | None => r_int (-2)
    | Some e => match e_exp e with
                | None => r_int (-1)
                | Some t => if now <? t then r_int (Z.min (t - now) i64_max) else r_int 0
                end
    end.
Proof.
  unfold h_pttl, nparts, nth_arg, eng_ttl, eng_exists, expired.
  cbn [len length nth_error arg_bytes Z.of_nat Pos.of_succ_nat Pos.succ Z.eqb Pos.eqb negb fst].
  destruct (get_entry d k) as [e|]; [|reflexivity]. destruct (e_exp e) as [t|]; [|reflexivity].
  destruct (now <? t) eqn:E; cbn [fst]; [reflexivity|].
  replace (Z.min 0 i64_max) with 0 by (unfold i64_max; lia). reflexivity.
Qed.

(** lazy expiry where the code has it: GET and EXISTS never show an expired entry *)
Lemma get_hides_expired now d k e : k <> [] ->
  get_entry d k = Some e -> expired now e = true ->
  fst (h_get now d [FBulk (bs "GET"); FBulk k]) = r_nil.
Proof.
  intros Hk Hg He. unfold h_get, nparts, nth_arg, get_string, eng_get.
  cbn [len length nth_error arg_bytes Z.of_nat Pos.of_succ_nat Pos.succ Z.eqb Pos.eqb negb].
  destruct (beq k []) eqn:E; [apply beq_eq in E; congruence|]. rewrite Hg, He. reflexivity.
Qed.
Lemma exists_hides_expired now d k e :
  get_entry d k = Some e -> expired now e = true -> eng_exists now d k = false.
Proof. intros Hg He. unfold eng_exists. rewrite Hg, He. reflexivity. Qed.

(** the table regenerated from engine.rs: the sweeper's delete phase consults the stored deadline *)
Lemma sweeper_table : sweeper_rechecks_stored_deadline = true.
Proof. vm_compute. reflexivity. Qed.
