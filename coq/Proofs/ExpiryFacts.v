(** Proofs for C02: the sweeper never deletes a live key, completes on indexed
    deadlines, TTL bookkeeping of the string/key commands. *)
From Ferrous Require Import Base.Bytes Generated Model.Resp Model.Types Model.Glob Model.Strings
  Model.Lists Model.ZSets Model.Streams Model.Server Proofs.BytesFacts Proofs.StringsFacts Proofs.ServerFacts.
From Coq Require Import ZifyBool.
Open Scope Z_scope.

(** ---- never early: the sweeper's delete phase, whatever candidates it was handed ---- *)
Lemma sweep_key_keeps_live now d t k k' e :
  get_entry d k' = Some e -> expired now e = false ->
  get_entry (fst (sweep_key now (d, t) k)) k' = Some e.
Proof.
  intros Hg He. unfold sweep_key.
  destruct (get_entry d k) as [ek|] eqn:Hk.
  - destruct (expired now ek) eqn:Ee.
    + cbn [fst]. rewrite get_entry_index_del. destruct (beq k' k) eqn:E.
      * apply beq_eq in E. subst k'. rewrite Hk in Hg. inversion Hg; subst. congruence.
      * rewrite get_entry_del_other by exact E. exact Hg.
    + destruct (e_exp ek); cbn [fst]; [rewrite get_entry_index|rewrite get_entry_index_del]; exact Hg.
  - cbn [fst]. rewrite get_entry_index_del. exact Hg.
Qed.

Lemma sweep_delete_keeps_live now : forall ks d t k' e,
  get_entry d k' = Some e -> expired now e = false ->
  get_entry (fst (sweep_delete now d t ks)) k' = Some e.
Proof.
  unfold sweep_delete. induction ks as [|k ks IH]; intros d t k' e Hg He; cbn [fold_left]; [exact Hg|].
  destruct (sweep_key now (d, t) k) as [d1 t1] eqn:E.
  apply IH; [|exact He]. pose proof (sweep_key_keeps_live now d t k k' e Hg He) as H. rewrite E in H. exact H.
Qed.

(** the racing window: candidates collected at [t0], deletions at [t1 >= t0] after arbitrary
    client activity that turned the database into [d1]: a key that is live in [d1] at [t1]
    survives with its value and deadline, whether or not it was a candidate *)
Lemma sweep_race_safe t0 t1 d0 d1 trk k e :
  get_entry d1 k = Some e -> expired t1 e = false ->
  get_entry (fst (sweep_delete t1 d1 trk (sweep_collect t0 d0))) k = Some e.
Proof. intros. apply sweep_delete_keeps_live; assumption. Qed.

(** the sweeper only ever removes keys: nothing is created or altered *)
Lemma sweep_key_only_removes now d t k k' :
  get_entry (fst (sweep_key now (d, t) k)) k' = get_entry d k' \/
  get_entry (fst (sweep_key now (d, t) k)) k' = None.
Proof.
  unfold sweep_key. destruct (get_entry d k) as [ek|] eqn:Hk.
  - destruct (expired now ek).
    + cbn [fst]. rewrite get_entry_index_del. destruct (beq k' k) eqn:E.
      * apply beq_eq in E. subst. right. apply get_entry_del_same.
      * left. apply get_entry_del_other; exact E.
    + left. destruct (e_exp ek); reflexivity.
  - left. reflexivity.
Qed.

(** ---- completeness: an entry whose indexed AND stored deadlines have passed is gone
    after a pass ---- *)
Lemma sweep_key_index_other now d t k k' :
  beq k' k = false -> alookup k' (d_index (fst (sweep_key now (d, t) k))) = alookup k' (d_index d).
Proof.
  intros Hn. unfold sweep_key. destruct (get_entry d k) as [ek|].
  - destruct (expired now ek); [cbn; apply alookup_aremove_other; exact Hn|].
    destruct (e_exp ek); cbn; [apply alookup_aset_other|apply alookup_aremove_other]; exact Hn.
  - cbn. apply alookup_aremove_other; exact Hn.
Qed.
Lemma sweep_key_removes_expired now d t k e :
  get_entry d k = Some e -> expired now e = true ->
  get_entry (fst (sweep_key now (d, t) k)) k = None.
Proof.
  intros Hg He. unfold sweep_key. rewrite Hg, He. cbn [fst].
  rewrite get_entry_index_del. apply get_entry_del_same.
Qed.
Lemma sweep_delete_stays_gone now : forall ks d t k,
  get_entry d k = None -> get_entry (fst (sweep_delete now d t ks)) k = None.
Proof.
  unfold sweep_delete. induction ks as [|k0 ks IH]; intros d t k Hg; cbn [fold_left]; [exact Hg|].
  destruct (sweep_key now (d, t) k0) as [d1 t1] eqn:E. apply IH.
  destruct (sweep_key_only_removes now d t k0 k) as [H|H]; rewrite E in H; cbn [fst] in H; congruence.
Qed.
Lemma sweep_delete_removes now : forall ks d t k e,
  In k ks -> get_entry d k = Some e -> expired now e = true ->
  get_entry (fst (sweep_delete now d t ks)) k = None.
Proof.
  unfold sweep_delete. induction ks as [|k0 ks IH]; intros d t k e Hin Hg He; [contradiction|].
  cbn [fold_left]. destruct (sweep_key now (d, t) k0) as [d1 t1] eqn:E.
  destruct (beq k k0) eqn:Ek.
  - apply beq_eq in Ek. subst k0.
    pose proof (sweep_key_removes_expired now d t k e Hg He) as H. rewrite E in H. cbn [fst] in H.
    apply (sweep_delete_stays_gone now ks d1 t1 k H).
  - destruct Hin as [->|Hin]; [rewrite beq_refl in Ek; discriminate|].
    destruct (sweep_key_only_removes now d t k0 k) as [H|H]; rewrite E in H; cbn [fst] in H.
    + eapply IH; [exact Hin|rewrite H; exact Hg|exact He].
    + apply (sweep_delete_stays_gone now ks d1 t1 k H).
Qed.
Lemma collect_in now d k ti : alookup k (d_index d) = Some ti -> ti <= now -> In k (sweep_collect now d).
Proof.
  unfold sweep_collect. intros Ha Ht. induction (d_index d) as [|[k0 t0] l IH]; [discriminate|].
  cbn [alookup] in Ha. cbn [filter snd]. destruct (beq k k0) eqn:E.
  - apply beq_eq in E. inversion Ha; subst. replace (ti <=? now) with true by lia. left. reflexivity.
  - destruct (t0 <=? now); [right|]; apply IH; exact Ha.
Qed.
Lemma sweep_complete now d t k e ti :
  alookup k (d_index d) = Some ti -> ti <= now -> get_entry d k = Some e -> expired now e = true ->
  get_entry (fst (sweep_delete now d t (sweep_collect now d))) k = None.
Proof. intros Ha Ht Hg He. eapply sweep_delete_removes; eauto. eapply collect_in; eauto. Qed.

(** ---- TTL bookkeeping of the commands ---- *)
(** SET (plain), GETSET, MSET go through set_value with no TTL: the deadline is cleared *)
Lemma set_value_clears now d k v : 
  exists e, get_entry (set_value now d k v None) k = Some e /\ e_exp e = None /\ e_val e = v.
Proof. eexists. rewrite set_value_get. repeat split. Qed.
Lemma persist_clears d k e :
  get_entry d k = Some e -> e_exp e <> None ->
  exists e', get_entry (snd (eng_persist d k)) k = Some e' /\ e_exp e' = None /\ e_val e' = e_val e.
Proof.
  intros Hg Hn. unfold eng_persist. rewrite Hg. destruct (e_exp e) eqn:Ee; [|congruence].
  cbn [snd]. rewrite get_entry_index_del, get_entry_put_same. eexists. repeat split.
Qed.
(** RENAME carries the value together with its deadline *)
Lemma rename_carries d o n e :
  get_entry d o = Some e -> get_entry (snd (eng_rename d o n)) n = Some e.
Proof. intros Hg. unfold eng_rename. rewrite Hg. cbn [snd]. apply get_entry_put_same. Qed.
(** in-place modifications keep the deadline *)
Lemma incr_keeps_deadline d k inc n d' e :
  get_entry d k = Some e -> eng_incr_by d k inc = (Some n, d') ->
  exists e', get_entry d' k = Some e' /\ e_exp e' = e_exp e.
Proof.
  intros Hg. unfold eng_incr_by. rewrite Hg. destruct (e_val e); try discriminate.
  destruct (parse_canonical b); [|discriminate]. destruct (in_i64 (z + inc)); [|discriminate].
  intros H; inversion H; subst. rewrite get_entry_put_same. eexists. split; reflexivity.
Qed.
Lemma append_keeps_deadline d k v e b r d' :
  get_entry d k = Some e -> e_val e = VStr b ->
  h_append d [FBulk (bs "APPEND"); FBulk k; FBulk v] = (r, d') ->
  exists e', get_entry d' k = Some e' /\ e_exp e' = e_exp e /\ e_val e' = VStr (b ++ v).
Proof.
  intros Hg Hv. unfold h_append, nparts, nth_arg.
  cbn [len length nth_error arg_bytes Z.of_nat Pos.of_succ_nat Pos.succ Z.eqb Pos.eqb negb].
  rewrite Hg, Hv. intros H; inversion H; subst. rewrite get_entry_put_same. eexists. repeat split.
Qed.

(** TTL / PTTL replies *)
Lemma ttl_reply now d k :
  fst (h_ttl now d [FBulk (bs "TTL"); FBulk k]) =
    match get_entry d k with
    | None => r_int (-2)
    | Some e => match e_exp e with
                | None => r_int (-1)
                | Some t => if now <? t then r_int ((t - now + 999) / 1000) else r_int (-2)
                end
    end.
Proof.
  unfold h_ttl, nparts, nth_arg, eng_ttl, eng_exists, expired.
  cbn [len length nth_error arg_bytes Z.of_nat Pos.of_succ_nat Pos.succ Z.eqb Pos.eqb negb fst].
  destruct (get_entry d k) as [e|]; [|reflexivity]. destruct (e_exp e) as [t|]; [|reflexivity].
  destruct (now <? t) eqn:E; cbn [fst].
  - replace (t - now =? 0) with false by lia. reflexivity.
  - reflexivity.
Qed.
Lemma pttl_reply now d k :
  fst (h_pttl now d [FBulk (bs "PTTL"); FBulk k]) =
    match get_entry d k with
    | None => r_int (-2)
    | Some e => match e_exp e with
                | None => r_int (-1)
                | Some t => if now <? t then r_int (Z.min (t - now) i64_max) else r_int 0
                end
    end.
Proof.
  unfold h_pttl, nparts, nth_arg, eng_ttl, eng_exists, expired.
  cbn [len length nth_error arg_bytes Z.of_nat Pos.of_succ_nat Pos.succ Z.eqb Pos.eqb negb fst].
  destruct (get_entry d k) as [e|]; [|reflexivity]. destruct (e_exp e) as [t|]; [|reflexivity].
  destruct (now <? t) eqn:E; cbn [fst]; [reflexivity|].
  replace (Z.min 0 i64_max) with 0 by (unfold i64_max; lia). reflexivity.
Qed.

(** lazy expiry where the code has it: GET and EXISTS never show an expired entry *)
Lemma get_hides_expired now d k e : k <> [] ->
  get_entry d k = Some e -> expired now e = true ->
  fst (h_get now d [FBulk (bs "GET"); FBulk k]) = r_nil.
Proof.
  intros Hk Hg He. unfold h_get, nparts, nth_arg, get_string, eng_get.
  cbn [len length nth_error arg_bytes Z.of_nat Pos.of_succ_nat Pos.succ Z.eqb Pos.eqb negb].
  destruct (beq k []) eqn:E; [apply beq_eq in E; congruence|]. rewrite Hg, He. reflexivity.
Qed.
Lemma exists_hides_expired now d k e :
  get_entry d k = Some e -> expired now e = true -> eng_exists now d k = false.
Proof. intros Hg He. unfold eng_exists. rewrite Hg, He. reflexivity. Qed.


(** ================= lazy expiry before dispatch (bdd75e8) ================= *)
(** what one step does to the data of any key [k']: nothing, unless [k'] is the purged key
    and its stored deadline has passed - then it is gone *)
Lemma purge_key_data now d l k k' :
  get_entry (fst (purge_key now (d, l) k)) k' =
  if beq k' k then match get_entry d k with
                   | Some e => if expired now e then None else Some e
                   | None => None
                   end
  else get_entry d k'.
Proof.
  unfold purge_key. cbn [fst snd]. destruct (beq k' k) eqn:E.
  - apply beq_eq in E. subst k'. destruct (get_entry d k) as [e|] eqn:G; cbn [fst]; [|exact G].
    destruct (expired now e); cbn [fst]; [|exact G]. rewrite get_entry_index_del. apply get_entry_del_same.
  - destruct (get_entry d k) as [e|]; cbn [fst]; [|reflexivity].
    destruct (expired now e); cbn [fst]; [|reflexivity].
    rewrite get_entry_index_del. apply get_entry_del_other. exact E.
Qed.

(** never early, never spurious: a live entry survives any number of purge steps untouched *)
Lemma purge_fold_keeps_live now : forall ks d l k e,
  get_entry d k = Some e -> expired now e = false ->
  get_entry (fst (fold_left (purge_key now) ks (d, l))) k = Some e.
Proof.
  induction ks as [|k0 ks IH]; intros d l k e G E; cbn [fold_left]; [exact G|].
  destruct (purge_key now (d, l) k0) as [d1 l1] eqn:P.
  apply IH; [|exact E]. pose proof (purge_key_data now d l k0 k) as H. rewrite P in H. cbn [fst] in H.
  rewrite H. destruct (beq k k0) eqn:B; [|exact G].
  apply beq_eq in B. subst k0. rewrite G, E. reflexivity.
Qed.
(** only removes: every key is either untouched or absent afterwards *)
Lemma purge_fold_only_removes now : forall ks d l k,
  get_entry (fst (fold_left (purge_key now) ks (d, l))) k = get_entry d k \/
  get_entry (fst (fold_left (purge_key now) ks (d, l))) k = None.
Proof.
  induction ks as [|k0 ks IH]; intros d l k; cbn [fold_left]; [left; reflexivity|].
  destruct (purge_key now (d, l) k0) as [d1 l1] eqn:P.
  destruct (IH d1 l1 k) as [H|H]; [|right; exact H].
  rewrite H. pose proof (purge_key_data now d l k0 k) as Hd. rewrite P in Hd. cbn [fst] in Hd. rewrite Hd.
  destruct (beq k k0) eqn:B; [|left; reflexivity]. apply beq_eq in B. subst k0.
  destruct (get_entry d k) as [e|]; [|left; reflexivity]. destruct (expired now e); [right|left]; reflexivity.
Qed.
(** an absent key stays absent *)
Lemma purge_fold_absent now : forall ks d l k,
  get_entry d k = None -> get_entry (fst (fold_left (purge_key now) ks (d, l))) k = None.
Proof. intros ks d l k G. destruct (purge_fold_only_removes now ks d l k) as [H|H]; rewrite H; [exact G|reflexivity]. Qed.

(** complete: after the fold, no key of the list holds an entry whose deadline has passed *)
Definition fresh (now : Z) (d : db) (k : bytes) : Prop :=
  forall e, get_entry d k = Some e -> expired now e = false.
Lemma purge_fold_fresh now : forall ks d l k, In k ks -> fresh now (fst (fold_left (purge_key now) ks (d, l))) k.
Proof.
  induction ks as [|k0 ks IH]; intros d l k Hin; [destruct Hin|]. cbn [fold_left].
  destruct (purge_key now (d, l) k0) as [d1 l1] eqn:P. destruct Hin as [->|Hin]; [|apply IH; exact Hin].
  intros e G.
  pose proof (purge_key_data now d l k k) as Hd. rewrite P in Hd. cbn [fst] in Hd. rewrite beq_refl in Hd.
  destruct (purge_fold_only_removes now ks d1 l1 k) as [H|H]; rewrite H in G; [|discriminate].
  rewrite Hd in G. destruct (get_entry d k) as [e0|]; [|discriminate].
  destruct (expired now e0) eqn:E0; [discriminate|]. inversion G; subst. exact E0.
Qed.

(** what WATCHers are told: exactly the keys that were removed, nothing else *)
Lemma purge_key_removed now d l k :
  snd (purge_key now (d, l) k) =
  match get_entry d k with
  | Some e => if expired now e then k :: l else l
  | None => l
  end.
Proof. unfold purge_key. cbn [fst snd]. destruct (get_entry d k) as [e|]; [destruct (expired now e)|]; reflexivity. Qed.
Lemma purge_fold_removed_sound now : forall ks d l k,
  In k (snd (fold_left (purge_key now) ks (d, l))) ->
  In k l \/ (exists e, get_entry d k = Some e /\ expired now e = true).
Proof.
  induction ks as [|k0 ks IH]; intros d l k Hin; cbn [fold_left] in Hin; [left; exact Hin|].
  destruct (purge_key now (d, l) k0) as [d1 l1] eqn:P.
  destruct (IH d1 l1 k Hin) as [H|(e & G & E)].
  - pose proof (purge_key_removed now d l k0) as Hr. rewrite P in Hr. cbn [snd] in Hr. subst l1.
    destruct (get_entry d k0) as [e0|] eqn:G0; [|left; exact H].
    destruct (expired now e0) eqn:E0; [|left; exact H].
    destruct H as [<-|H]; [right; exists e0; split; assumption|left; exact H].
  - right. exists e. split; [|exact E].
    pose proof (purge_key_data now d l k0 k) as Hd. rewrite P in Hd. cbn [fst] in Hd. rewrite Hd in G.
    destruct (beq k k0) eqn:B; [|exact G]. apply beq_eq in B. subst k0.
    destruct (get_entry d k) as [e1|]; [|discriminate]. destruct (expired now e1); [discriminate|exact G].
Qed.
Lemma purge_fold_removed_complete now : forall ks d l k e,
  In k ks -> get_entry d k = Some e -> expired now e = true ->
  In k (snd (fold_left (purge_key now) ks (d, l))).
Proof.
  assert (Mono : forall ks d l k, In k l -> In k (snd (fold_left (purge_key now) ks (d, l)))).
  { induction ks as [|k0 ks IH]; intros d l k Hin; cbn [fold_left]; [exact Hin|].
    destruct (purge_key now (d, l) k0) as [d1 l1] eqn:P. apply IH.
    pose proof (purge_key_removed now d l k0) as Hr. rewrite P in Hr. cbn [snd] in Hr. subst l1.
    destruct (get_entry d k0) as [e0|]; [destruct (expired now e0)|]; try exact Hin. right. exact Hin. }
  induction ks as [|k0 ks IH]; intros d l k e Hin G E; [destruct Hin|]. cbn [fold_left].
  destruct (purge_key now (d, l) k0) as [d1 l1] eqn:P.
  destruct (beq k k0) eqn:B.
  - apply beq_eq in B. subst k0. apply Mono.
    pose proof (purge_key_removed now d l k) as Hr. rewrite P in Hr. cbn [snd] in Hr. subst l1.
    rewrite G, E. left. reflexivity.
  - destruct Hin as [->|Hin]; [rewrite beq_refl in B; discriminate|].
    apply (IH d1 l1 k e Hin); [|exact E].
    pose proof (purge_key_data now d l k0 k) as Hd. rewrite P in Hd. cbn [fst] in Hd. rewrite Hd, B. exact G.
Qed.

(** ---- the whole step before a command ---- *)
Lemma expire_before_unfold now d name parts :
  lazy_expires_every_arg = true ->
  expire_before now d name parts =
  let dr := fold_left (purge_key now) (lazy_args parts) (d, []) in
  if bmem name lazy_keyspace_commands then fold_left (purge_key now) (due_keys now (fst dr)) dr else dr.
Proof. intros H. unfold expire_before, purge_due. rewrite H. reflexivity. Qed.
Lemma lazy_tables : lazy_expires_every_arg = true /\ lazy_expiry_before_dispatch = true /\
  lazy_keyspace_commands = [bs "DBSIZE"; bs "KEYS"; bs "SCAN"; bs "RANDOMKEY"; bs "INFO"] /\
  lazy_alldb_commands = [bs "SAVE"; bs "BGSAVE"; bs "BGREWRITEAOF"; bs "SYNC"; bs "PSYNC"].
Proof. repeat split; reflexivity. Qed.

(** FROM THE DEADLINE ON A KEY IS ABSENT TO EVERY COMMAND: whatever the command, every key an
    argument names is, when the handler runs, either absent or not yet at its deadline *)
Lemma expire_before_fresh now d name parts k :
  In k (lazy_args parts) -> fresh now (fst (expire_before now d name parts)) k.
Proof.
  intros Hin. rewrite expire_before_unfold by reflexivity. cbv zeta.
  destruct (fold_left (purge_key now) (lazy_args parts) (d, [])) as [d1 l1] eqn:F.
  assert (F1 : fresh now d1 k).
  { pose proof (purge_fold_fresh now (lazy_args parts) d [] k Hin) as H. rewrite F in H. exact H. }
  destruct (bmem name lazy_keyspace_commands); [|exact F1]. cbn [fst].
  intros e G. destruct (purge_fold_only_removes now (due_keys now d1) d1 l1 k) as [H|H]; rewrite H in G; [|discriminate].
  exact (F1 e G).
Qed.
(** NEVER EARLY: a key that has not reached its deadline is untouched, value and deadline *)
Lemma expire_before_keeps_live now d name parts k e :
  get_entry d k = Some e -> expired now e = false ->
  get_entry (fst (expire_before now d name parts)) k = Some e.
Proof.
  intros G E. rewrite expire_before_unfold by reflexivity. cbv zeta.
  destruct (fold_left (purge_key now) (lazy_args parts) (d, [])) as [d1 l1] eqn:F.
  assert (G1 : get_entry d1 k = Some e).
  { pose proof (purge_fold_keeps_live now (lazy_args parts) d [] k e G E) as H. rewrite F in H. exact H. }
  destruct (bmem name lazy_keyspace_commands); [|exact G1]. cbn [fst].
  apply purge_fold_keeps_live; assumption.
Qed.
(** NEVER SPURIOUS: nothing is created or altered; a key is untouched or removed, and it is
    removed only when its stored deadline has passed *)
Lemma expire_before_only_expired now d name parts k :
  get_entry (fst (expire_before now d name parts)) k = get_entry d k \/
  (get_entry (fst (expire_before now d name parts)) k = None /\
   exists e, get_entry d k = Some e /\ expired now e = true).
Proof.
  destruct (get_entry d k) as [e|] eqn:G.
  - destruct (expired now e) eqn:E.
    + rewrite expire_before_unfold by reflexivity. cbv zeta.
      destruct (fold_left (purge_key now) (lazy_args parts) (d, [])) as [d1 l1] eqn:F.
      assert (H1 : get_entry d1 k = Some e \/ get_entry d1 k = None).
      { pose proof (purge_fold_only_removes now (lazy_args parts) d [] k) as H. rewrite F, G in H. exact H. }
      destruct (bmem name lazy_keyspace_commands).
      * cbn [fst]. destruct (purge_fold_only_removes now (due_keys now d1) d1 l1 k) as [H|H]; rewrite H.
        -- destruct H1 as [H1|H1]; rewrite H1; [left; reflexivity|right; split; [reflexivity|exists e; split; reflexivity || assumption]].
        -- right. split; [reflexivity|]. exists e. split; [reflexivity|exact E].
      * cbn [fst]. destruct H1 as [H1|H1]; rewrite H1; [left; reflexivity|].
        right. split; [reflexivity|]. exists e. split; [reflexivity|exact E].
    + left. apply expire_before_keeps_live; assumption.
  - left. rewrite expire_before_unfold by reflexivity. cbv zeta.
    destruct (fold_left (purge_key now) (lazy_args parts) (d, [])) as [d1 l1] eqn:F.
    assert (G1 : get_entry d1 k = None).
    { pose proof (purge_fold_absent now (lazy_args parts) d [] k G) as H. rewrite F in H. exact H. }
    destruct (bmem name lazy_keyspace_commands); [|exact G1]. cbn [fst]. apply purge_fold_absent. exact G1.
Qed.

(** the commands that look at the key space as a whole: when the deadline index covers every
    stored deadline ([indexed]), NO entry past its deadline is left in the database *)
Definition indexed (d : db) : Prop :=
  forall k e t, get_entry d k = Some e -> e_exp e = Some t ->
  exists ti, alookup k (d_index d) = Some ti /\ ti <= t.
Lemma purge_key_index_other now d l k k' :
  beq k' k = false -> alookup k' (d_index (fst (purge_key now (d, l) k))) = alookup k' (d_index d).
Proof.
  intros B. unfold purge_key. cbn [fst snd]. destruct (get_entry d k) as [e|]; [|reflexivity].
  destruct (expired now e); [|reflexivity]. cbn [fst index_del del_entry d_index].
  apply alookup_aremove_other. exact B.
Qed.
Lemma purge_key_indexed now d l k : indexed d -> indexed (fst (purge_key now (d, l) k)).
Proof.
  intros I k' e t G X. pose proof (purge_key_data now d l k k') as Hd. rewrite Hd in G.
  destruct (beq k' k) eqn:B.
  - apply beq_eq in B. subst k'. destruct (get_entry d k) as [e0|] eqn:G0; [|discriminate].
    destruct (expired now e0) eqn:E0; [discriminate|]. inversion G; subst e0.
    unfold purge_key. cbn [fst snd]. rewrite G0, E0. cbn [fst]. exact (I k e t G0 X).
  - rewrite purge_key_index_other by exact B. exact (I k' e t G X).
Qed.
Lemma purge_fold_indexed now : forall ks d l, indexed d -> indexed (fst (fold_left (purge_key now) ks (d, l))).
Proof.
  induction ks as [|k ks IH]; intros d l I; cbn [fold_left]; [exact I|].
  destruct (purge_key now (d, l) k) as [d1 l1] eqn:P. apply IH.
  pose proof (purge_key_indexed now d l k I) as H. rewrite P in H. exact H.
Qed.
Lemma alookup_in_pair {A} k (l : list (bytes * A)) v : alookup k l = Some v -> exists k', beq k k' = true /\ In (k', v) l.
Proof.
  induction l as [|[k1 v1] l IH]; cbn [alookup]; [discriminate|].
  destruct (beq k k1) eqn:B; intros H.
  - inversion H; subst. exists k1. split; [exact B|left; reflexivity].
  - destruct (IH H) as (k' & B' & I). exists k'. split; [exact B'|right; exact I].
Qed.
Lemma due_keys_in now d k ti : alookup k (d_index d) = Some ti -> ti <= now -> In k (due_keys now d).
Proof.
  intros H Hle. unfold due_keys. destruct (alookup_in_pair _ _ _ H) as (k' & B & I).
  apply beq_eq in B. subst k'. apply in_map_iff. exists (k, ti). split; [reflexivity|].
  apply filter_In. split; [exact I|]. cbn [snd]. lia.
Qed.
Lemma purge_due_all_fresh now d l k : indexed d -> fresh now (fst (purge_due now (d, l))) k.
Proof.
  intros I e G. unfold purge_due in G. cbn [fst] in G.
  destruct (purge_fold_only_removes now (due_keys now d) d l k) as [H|H]; rewrite H in G; [|discriminate].
  destruct (expired now e) eqn:E; [|reflexivity]. exfalso.
  unfold expired in E. destruct (e_exp e) as [t|] eqn:X; [|discriminate].
  destruct (I k e t G X) as (ti & Hi & Hle).
  assert (Hin : In k (due_keys now d)) by (eapply due_keys_in; [exact Hi|lia]).
  pose proof (purge_fold_fresh now (due_keys now d) d l k Hin e) as F.
  rewrite H in F. specialize (F G). unfold expired in F. rewrite X in F. congruence.
Qed.
Lemma expire_before_keyspace_fresh now d name parts k :
  indexed d -> bmem name lazy_keyspace_commands = true ->
  fresh now (fst (expire_before now d name parts)) k.
Proof.
  intros I B. rewrite expire_before_unfold by reflexivity. cbv zeta. rewrite B.
  destruct (fold_left (purge_key now) (lazy_args parts) (d, [])) as [d1 l1] eqn:F.
  assert (I1 : indexed d1).
  { pose proof (purge_fold_indexed now (lazy_args parts) d [] I) as H. rewrite F in H. exact H. }
  exact (purge_due_all_fresh now d1 l1 k I1).
Qed.

(** at the server: the handler of every command sees the purged database, and the keys
    removed on the way are marked for their WATCHers *)
Lemma normal_command_is_dispatch_on_purged now s c dbi nm rest oracle :
  normal_command now s c dbi (FBulk nm :: rest) oracle =
  dispatch_command now (lazy_expire now s dbi (upper nm) (FBulk nm :: rest)) c dbi (FBulk nm :: rest) oracle.
Proof. reflexivity. Qed.
Lemma lazy_expire_db now s dbi name parts :
  0 <= dbi < 16 -> length (s_dbs s) = 16%nat ->
  get_db (lazy_expire now s dbi name parts) dbi = fst (expire_before now (get_db s dbi) name parts).
Proof.
  intros Hd Hl. unfold lazy_expire. rewrite (proj1 (proj2 lazy_tables)).
  destruct (expire_before now (get_db s dbi) name parts) as [d1 removed]. cbn [fst].
  rewrite get_db_set_trk. unfold get_db, set_db. cbn [s_dbs]. apply nth_list_set_same. rewrite Hl. lia.
Qed.

(** the table regenerated from engine.rs: the sweeper's delete phase consults the stored deadline *)
Lemma sweeper_table : sweeper_rechecks_stored_deadline = true.
Proof. vm_compute. reflexivity. Qed.

(** ================= the deadline index covers the stored deadlines ================= *)
(** [indexed] is an invariant of the string / key-space family (the only commands that create
    or change a deadline: SET .. EX/PX, SETEX/PSETEX, EXPIRE/PEXPIRE, PERSIST, RENAME): it
    holds initially and every command of the family preserves it *)
Lemma indexed_empty : indexed empty_db.
Proof. intros k e t G. discriminate. Qed.
Lemma indexed_del d k : indexed d -> indexed (del_entry d k).
Proof.
  intros I k' e t G X. destruct (beq k' k) eqn:B.
  - apply beq_eq in B. subst. rewrite get_entry_del_same in G. discriminate.
  - rewrite get_entry_del_other in G by exact B. exact (I k' e t G X).
Qed.
Lemma indexed_index_del_absent d k : indexed d -> get_entry d k = None -> indexed (index_del d k).
Proof.
  intros I N k' e t G X. rewrite get_entry_index_del in G. destruct (beq k' k) eqn:B.
  - apply beq_eq in B. subst. congruence.
  - cbn [index_del d_index]. rewrite alookup_aremove_other by exact B. exact (I k' e t G X).
Qed.
Lemma indexed_put_none d k e : indexed d -> e_exp e = None -> indexed (put_entry d k e).
Proof.
  intros I N k' e' t G X. destruct (beq k' k) eqn:B.
  - apply beq_eq in B. subst. rewrite get_entry_put_same in G. inversion G; subst. congruence.
  - rewrite get_entry_put_other in G by exact B. exact (I k' e' t G X).
Qed.
Lemma indexed_put_same_exp d k e0 e : indexed d -> get_entry d k = Some e0 -> e_exp e = e_exp e0 -> indexed (put_entry d k e).
Proof.
  intros I G0 E k' e' t G X. destruct (beq k' k) eqn:B.
  - apply beq_eq in B. subst. rewrite get_entry_put_same in G. inversion G; subst. rewrite E in X. exact (I k e0 t G0 X).
  - rewrite get_entry_put_other in G by exact B. exact (I k' e' t G X).
Qed.
Lemma indexed_put_indexed d k e t : indexed d -> e_exp e = Some t -> indexed (index_set (put_entry d k e) k t).
Proof.
  intros I E k' e' t' G X. rewrite get_entry_index in G. destruct (beq k' k) eqn:B.
  - apply beq_eq in B. subst. rewrite get_entry_put_same in G. inversion G; subst. rewrite E in X. inversion X; subst.
    exists t'. split; [cbn [index_set d_index]; apply alookup_aset_same|lia].
  - rewrite get_entry_put_other in G by exact B. cbn [index_set put_entry d_index].
    rewrite alookup_aset_other by exact B. exact (I k' e' t' G X).
Qed.
Lemma indexed_index_del_none d k e : indexed d -> get_entry d k = Some e -> e_exp e = None -> indexed (index_del d k).
Proof.
  intros I G0 N k' e' t G X. rewrite get_entry_index_del in G. destruct (beq k' k) eqn:B.
  - apply beq_eq in B. subst. rewrite G0 in G. inversion G; subst. congruence.
  - cbn [index_del d_index]. rewrite alookup_aremove_other by exact B. exact (I k' e' t G X).
Qed.
Lemma indexed_set_value now d k v ttl : indexed d -> indexed (set_value now d k v ttl).
Proof.
  intros I. unfold set_value. destruct ttl as [ms|].
  - apply indexed_put_indexed; [exact I|reflexivity].
  - apply indexed_put_none; [exact I|reflexivity].
Qed.
Lemma indexed_delete d k b d' : indexed d -> eng_delete d k = (b, d') -> indexed d'.
Proof.
  intros I H. unfold eng_delete in H. destruct (get_entry d k); inversion H; subst; [|exact I].
  apply indexed_index_del_absent; [apply indexed_del; exact I|apply get_entry_del_same].
Qed.
Lemma indexed_expire now d k ms b d' : indexed d -> eng_expire now d k ms = (b, d') -> indexed d'.
Proof.
  intros I H. unfold eng_expire in H. destruct (get_entry d k); inversion H; subst; [|exact I].
  apply indexed_put_indexed; [exact I|reflexivity].
Qed.
Lemma indexed_persist d k b d' : indexed d -> eng_persist d k = (b, d') -> indexed d'.
Proof.
  intros I H. unfold eng_persist in H. destruct (get_entry d k) as [e|] eqn:G; [|inversion H; subst; exact I].
  destruct (e_exp e); inversion H; subst; [|exact I].
  eapply indexed_index_del_none; [apply indexed_put_none; [exact I|reflexivity]|apply get_entry_put_same|reflexivity].
Qed.
Lemma indexed_rename d o n b d' : indexed d -> eng_rename d o n = (b, d') -> indexed d'.
Proof.
  intros I H. unfold eng_rename in H. destruct (get_entry d o) as [e|] eqn:G; inversion H; subst; [|exact I].
  assert (I1 : indexed (index_del (del_entry d o) o)).
  { apply indexed_index_del_absent; [apply indexed_del; exact I|apply get_entry_del_same]. }
  destruct (e_exp e) as [t|] eqn:X.
  - (* put then index: reorder *)
    intros k' e' t' G' X'. destruct (beq k' n) eqn:B.
    + apply beq_eq in B. subst k'. rewrite get_entry_put_same in G'. inversion G'; subst e'. rewrite X in X'. inversion X'; subst t'.
      exists t. split; [cbn [put_entry index_set d_index]; apply alookup_aset_same|lia].
    + rewrite get_entry_put_other in G' by exact B. rewrite get_entry_index in G'.
      cbn [put_entry index_set d_index]. rewrite alookup_aset_other by exact B. exact (I1 k' e' t' G' X').
  - intros k' e' t' G' X'. destruct (beq k' n) eqn:B.
    + apply beq_eq in B. subst k'. rewrite get_entry_put_same in G'. inversion G'; subst e'. congruence.
    + rewrite get_entry_put_other in G' by exact B. rewrite get_entry_index_del in G'.
      cbn [put_entry index_del d_index]. cbn [index_del d_index] in I1.
      rewrite alookup_aremove_other by exact B. exact (I1 k' e' t' G' X').
Qed.
Lemma indexed_eng_get now d k g d' : indexed d -> eng_get now d k = (g, d') -> indexed d'.
Proof.
  intros I H. unfold eng_get in H. destruct (get_entry d k) as [e|]; [|inversion H; subst; exact I].
  destruct (expired now e); inversion H; subst; [|exact I].
  apply indexed_index_del_absent; [apply indexed_del; exact I|apply get_entry_del_same].
Qed.

(** ---- every command of the string / key-space family preserves [indexed] ---- *)
Create HintDb idx.
#[export] Hint Resolve indexed_empty indexed_del indexed_put_none indexed_put_same_exp indexed_put_indexed
  indexed_index_del_absent indexed_index_del_none indexed_set_value get_entry_del_same get_entry_put_same : idx.
Ltac ix_solve := intros; repeat wf_step; try discriminate; eauto 8 with idx.
Lemma ix_eng_incr d k inc o d' : indexed d -> eng_incr_by d k inc = (o, d') -> indexed d'.
Proof. unfold eng_incr_by. ix_solve. Qed.
Lemma ix_reply_incr d k inc r d' : indexed d -> reply_incr (eng_incr_by d k inc) = (r, d') -> indexed d'.
Proof.
  intros Hw H. unfold reply_incr in H. destruct (eng_incr_by d k inc) as [o d1] eqn:E.
  assert (indexed d1) by (eapply ix_eng_incr; eauto). destruct o; inversion H; subst; assumption.
Qed.
Lemma ix_eng_get now d k g d' : indexed d -> eng_get now d k = (g, d') -> indexed d'.
Proof. intros; eapply indexed_eng_get; eauto. Qed.
Lemma ix_get_string now d k g d' : indexed d -> get_string now d k = (g, d') -> indexed d'.
Proof.
  intros Hw H. unfold get_string in H. destruct (eng_get now d k) as [g1 d1] eqn:E.
  assert (indexed d1) by (eapply ix_eng_get; eauto).
  destruct g1 as [v| |]; [destruct v|..]; inversion H; subst; assumption.
Qed.
Lemma ix_eng_rename d o n ok d' : indexed d -> eng_rename d o n = (ok, d') -> indexed d'.
Proof. intros; eapply indexed_rename; eauto. Qed.
Lemma ix_del_loop : forall args d n m d', indexed d -> del_loop d args n = (m, d') -> indexed d'.
Proof.
  induction args as [|a args IH]; intros d n m d' Hw H; cbn [del_loop] in H.
  - inversion H; subst; exact Hw.
  - destruct a; try (eapply IH; eauto; fail).
    unfold eng_delete in H. destruct (get_entry d b).
    + eapply IH; [|exact H]. auto with idx.
    + eapply IH; eauto.
Qed.
Lemma ix_mget_loop now : forall args d acc r d', indexed d -> mget_loop now d args acc = (r, d') -> indexed d'.
Proof.
  induction args as [|a args IH]; intros d acc r d' Hw H; cbn [mget_loop] in H.
  - inversion H; subst; exact Hw.
  - destruct a; try (inversion H; subst; exact Hw).
    destruct (get_string now d b) as [[[v|]|] d1] eqn:E;
      assert (indexed d1) by (eapply ix_get_string; eauto).
    + eapply IH; eauto.
    + eapply IH; eauto.
    + inversion H; subst; assumption.
Qed.
Lemma ix_mset_loop now : forall (n : nat) args d r d', (length args <= n)%nat ->
  indexed d -> mset_loop now d args = (r, d') -> indexed d'.
Proof.
  induction n as [|n IH]; intros args d r d' Hl Hw H.
  - destruct args; [|cbn in Hl; lia]. inversion H; subst; exact Hw.
  - destruct args as [|a args]; [inversion H; subst; exact Hw|].
    cbn [mset_loop] in H. destruct a; try (inversion H; subst; exact Hw).
    destruct args as [|a2 args]; [inversion H; subst; exact Hw|].
    destruct a2; try (inversion H; subst; exact Hw).
    eapply (IH args); [cbn [length] in Hl; lia| |exact H]. auto with idx.
Qed.

Lemma exec_strings_indexed now d name parts r d' :
  indexed d -> exec_strings now d name parts = Some (r, d') -> indexed d'.
Proof.
  unfold exec_strings. intros Hw H.
  repeat match type of H with
  | (if ?c then _ else _) = _ => destruct c eqn:?
  end; try discriminate; inversion H as [H1]; clear H.
  - (* SET *) unfold h_set in H1. ix_solve.
  - unfold h_get in H1. destruct (negb (nparts parts =? 2)); [inversion H1; subst; exact Hw|].
    destruct (nth_arg parts 1); [|inversion H1; subst; exact Hw].
    destruct (beq b []); [inversion H1; subst; exact Hw|].
    destruct (get_string now d b) as [[[v|]|] d1] eqn:E; inversion H1; subst; eapply ix_get_string; eauto.
  - unfold h_incr in H1. repeat wf_step; auto; eapply ix_reply_incr; eauto.
  - unfold h_incr in H1. repeat wf_step; auto; eapply ix_reply_incr; eauto.
  - unfold h_incrby in H1. repeat wf_step; auto; eapply ix_reply_incr; eauto.
  - unfold h_decrby in H1. repeat wf_step; auto; eapply ix_reply_incr; eauto.
  - unfold h_del in H1. destruct (nparts parts <? 2); [inversion H1; subst; exact Hw|].
    destruct (del_loop d (tl parts) 0) eqn:E. inversion H1; subst. eapply ix_del_loop; eauto.
  - unfold h_exists in H1. ix_solve.
  - unfold h_expire, eng_expire, eng_delete in H1. ix_solve.
  - unfold h_pexpire, eng_expire in H1. ix_solve.
  - unfold h_ttl in H1. ix_solve.
  - unfold h_pttl in H1. ix_solve.
  - unfold h_persist, eng_persist in H1. ix_solve.
  - unfold h_setnx in H1. ix_solve.
  - unfold h_setex in H1. ix_solve.
  - unfold h_setex in H1. ix_solve.
  - unfold h_mget in H1. destruct (nparts parts <? 2); [inversion H1; subst; exact Hw|].
    eapply ix_mget_loop; eauto.
  - unfold h_mset in H1. destruct ((nparts parts <? 3) || (nparts parts mod 2 =? 0)); [inversion H1; subst; exact Hw|].
    destruct (mset_valid (tl parts)); [|inversion H1; subst; exact Hw].
    eapply (ix_mset_loop now (length (tl parts))); eauto.
  - unfold h_getset in H1. destruct (negb (nparts parts =? 3)); [inversion H1; subst; exact Hw|].
    destruct (nth_arg parts 1); [|inversion H1; subst; exact Hw].
    destruct (nth_arg parts 2); [|inversion H1; subst; exact Hw].
    destruct (get_string now d b) as [[o|] d1] eqn:E;
      assert (indexed d1) by (eapply ix_get_string; eauto); inversion H1; subst; auto with idx.
  - unfold h_append in H1. ix_solve.
  - unfold h_strlen in H1. ix_solve.
  - unfold h_getrange in H1. ix_solve.
  - unfold h_setrange, eng_setrange in H1. ix_solve.
  - unfold h_type in H1. ix_solve.
  - unfold h_rename in H1. destruct (negb (nparts parts =? 3)); [inversion H1; subst; exact Hw|].
    destruct (nth_arg parts 1); [|inversion H1; subst; exact Hw].
    destruct (nth_arg parts 2); [|inversion H1; subst; exact Hw].
    destruct (eng_rename d b b0) as [ok d1] eqn:E. pose proof (ix_eng_rename _ _ _ _ _ Hw E).
    destruct ok; inversion H1; subst; assumption.
  - unfold h_renamenx in H1. destruct (negb (nparts parts =? 3)); [inversion H1; subst; exact Hw|].
    destruct (nth_arg parts 1); [|inversion H1; subst; exact Hw].
    destruct (nth_arg parts 2); [|inversion H1; subst; exact Hw].
    destruct (negb (eng_exists now d b)); [inversion H1; subst; exact Hw|].
    destruct (eng_exists now d b0); [inversion H1; subst; exact Hw|].
    destruct (eng_rename d b b0) as [ok d1] eqn:E. pose proof (ix_eng_rename _ _ _ _ _ Hw E).
    destruct ok; inversion H1; subst; assumption.
  - unfold h_keys in H1. ix_solve.
  - unfold h_dbsize in H1. ix_solve.
  - unfold h_flushdb in H1. ix_solve.
Qed.


Lemma expire_before_indexed now d name parts : indexed d -> indexed (fst (expire_before now d name parts)).
Proof.
  intros I. rewrite expire_before_unfold by reflexivity. cbv zeta.
  destruct (fold_left (purge_key now) (lazy_args parts) (d, [])) as [d1 l1] eqn:F.
  assert (I1 : indexed d1).
  { pose proof (purge_fold_indexed now (lazy_args parts) d [] I) as H. rewrite F in H. exact H. }
  destruct (bmem name lazy_keyspace_commands); [|exact I1]. apply purge_fold_indexed. exact I1.
Qed.
