(** IEEE-754 side of C04, through Flocq (only this file and Props/C04F64.v
    depend on Flocq and hence on the four standard-library axioms of the real
    numbers; Props/C04.v does not): the f64 sum of ZINCRBY, and a
    check of the bit-pattern comparison of Model/SkipList.v against Flocq's
    [b64_compare] on a pool of patterns. *)
From Flocq Require Import IEEE754.BinarySingleNaN IEEE754.Binary IEEE754.Bits.
From Ferrous Require Import Base.Bytes Model.Resp Model.Types Model.Strings Model.SkipList Model.ZSets
  Spec.ZSet Proofs.ZSetsFacts.
Open Scope Z_scope.

(** `a + b` on f64 bit patterns, round to nearest even *)
Definition f64_add (a b : Z) : Z := bits_of_b64 (b64_plus mode_NE (b64_of_bits a) (b64_of_bits b)).

Lemma inf_minus_inf_is_nan : f_is_nan (f64_add pinf_bits ninf_bits) = true.
Proof. vm_compute. reflexivity. Qed.

(** the sum the ZINCRBY witness of Props/C04.v takes from the oracle is the IEEE sum *)
Lemma inf_minus_inf_bits : f64_add pinf_bits ninf_bits = nan_bits.
Proof. vm_compute. reflexivity. Qed.

(** the comparison on bit patterns agrees with IEEE comparison on a pool of
    patterns (zeros, ones, subnormals, 2^53 neighbours, max, infinities, NaNs) - a test *)
Definition f64_pool : list Z :=
  [0; 9223372036854775808; 1; 9223372036854775809; 4607182418800017408; 13830554455654793216;
   4607182418800017409; 4609434218613702656; 4611686018427387904; 4841369599423283200; 4841369599423283201;
   9218868437227405311; 18442240474082181119; 9218868437227405312; 18442240474082181120;
   9221120237041090560; 18444492273895866368; 9218868437227405313; 4503599627370496; 4503599627370495].
Definition pcmp_agrees (a b : Z) : bool :=
  match f_pcmp a b, b64_compare (b64_of_bits a) (b64_of_bits b) with
  | Some Lt, Some Lt | Some Eq, Some Eq | Some Gt, Some Gt | None, None => true
  | _, _ => false
  end.
Lemma f_pcmp_pool_check :
  forallb (fun a => forallb (fun b => pcmp_agrees a b) f64_pool) f64_pool = true.
Proof. vm_compute. reflexivity. Qed.
