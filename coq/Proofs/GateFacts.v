(** C17: the authentication gate for whole pipelines and for the pub/sub / EXEC path. *)
From Ferrous Require Import Base.Bytes Generated Model.Resp Model.Types Model.Server Model.Conn
  Proofs.BytesFacts Proofs.ServerFacts.
Open Scope Z_scope.

(** ================= C17 at the level of pipelines and of the pub/sub path ================= *)
(** the gate holds for the path that handles (P)SUBSCRIBE / PUBLISH / EXEC as well: an
    unauthenticated connection writes nothing to anybody and changes nothing *)
Lemma gate_closed_x now s c cn req oracle pw :
  s_password s = Some pw -> zlookup c (s_conns s) = Some cn -> c_auth cn = false ->
  beq (req_command req) (bs "AUTH") = false ->
  process_frame_x now s c req oracle = ([], gate_reply req, s).
Proof.
  intros Hpw Hc Ha Hn. unfold process_frame_x.
  rewrite (gate_closed now s c cn req oracle pw Hpw Hc Ha Hn).
  destruct req as [| | | | |l| | | | | | |]; try reflexivity.
  destruct l as [|first rest]; [reflexivity|]. destruct first; try reflexivity.
  rewrite Hc, Hpw, Ha. reflexivity.
Qed.

(** ... and for whole pipelines, whatever their length and whatever position a command has in
    them: as long as no frame is an AUTH, every frame is answered by the gate and the server
    state after the batch is the state before it *)
Lemma gate_closed_pipeline now c cn pw : forall fs s acc q,
  s_password s = Some pw -> zlookup c (s_conns s) = Some cn -> c_auth cn = false ->
  forallb (fun f => negb (beq (req_command f) (bs "AUTH"))) fs = true ->
  serve_frames now s c fs acc q = (rev acc ++ map gate_reply fs, s, q || existsb is_quit fs).
Proof.
  induction fs as [|f fs IH]; intros s acc q Hpw Hc Ha Hall; cbn [serve_frames map existsb].
  - rewrite app_nil_r, orb_false_r. reflexivity.
  - cbn [forallb] in Hall. apply andb_prop in Hall as [Hf Hall]. apply negb_true_iff in Hf.
    rewrite (gate_closed now s c cn f None pw Hpw Hc Ha Hf).
    rewrite (IH s (gate_reply f :: acc) (q || is_quit f) Hpw Hc Ha Hall).
    cbn [rev]. rewrite <- app_assoc, orb_assoc. reflexivity.
Qed.
