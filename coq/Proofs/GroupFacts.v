(** Lemmas for C16: the pending-entries list and its four representations. *)
From Ferrous Require Import Base.Bytes Model.Resp Model.Types Model.Strings Model.Streams
  Proofs.BytesFacts Proofs.StreamFacts.
From Coq Require Import Sorting.Sorted Sorting.Permutation.
Open Scope Z_scope.

(** ---- association lists ---- *)
Lemma beq_false_ne a b : beq a b = false <-> a <> b.
Proof.
  split.
  - intros H Heq. subst. rewrite beq_refl in H. discriminate.
  - intros H. destruct (beq a b) eqn:E; [|reflexivity]. apply beq_eq in E. contradiction.
Qed.
Lemma beq_sym a b : beq a b = beq b a.
Proof.
  destruct (beq a b) eqn:E1, (beq b a) eqn:E2; try reflexivity.
  - apply beq_eq in E1. subst. rewrite beq_refl in E2. discriminate.
  - apply beq_eq in E2. subst. rewrite beq_refl in E1. discriminate.
Qed.

Lemma NoDup_snoc {B} (x : B) l : NoDup l -> ~ In x l -> NoDup (l ++ [x]).
Proof.
  induction l as [|y l IH]; intros Hnd Hx; cbn [app]; [constructor; [tauto|constructor]|].
  inversion Hnd as [|? ? Hy Hnd']; subst. constructor.
  - intros Hin. apply in_app_or in Hin as [Hin|[Hin|[]]]; [contradiction|]. subst. apply Hx. left; reflexivity.
  - apply IH; [assumption|]. intros Hin. apply Hx. right; assumption.
Qed.

Section Assoc.
Context {A : Type}.
Implicit Types (l : list (bytes * A)).

Lemma alookup_aput k k' (v : A) l :
  alookup k' (aput k v l) = if beq k' k then Some v else alookup k' l.
Proof.
  induction l as [|[k0 v0] l IH]; cbn [aput alookup].
  - reflexivity.
  - destruct (beq k k0) eqn:E; cbn [alookup].
    + apply beq_eq in E. subst k0. destruct (beq k' k); reflexivity.
    + destruct (beq k' k0) eqn:E2; [|exact IH].
      apply beq_eq in E2. subst k0. rewrite beq_sym, E. reflexivity.
Qed.
Lemma alookup_aremove k k' l :
  alookup k' (aremove k l) = if beq k' k then None else alookup k' l.
Proof.
  induction l as [|[k0 v0] l IH]; cbn [aremove alookup].
  - destruct (beq k' k); reflexivity.
  - destruct (beq k k0) eqn:E.
    + apply beq_eq in E. subst k0. rewrite IH. destruct (beq k' k); reflexivity.
    + cbn [alookup]. destruct (beq k' k0) eqn:E2; [|exact IH].
      apply beq_eq in E2. subst k0. rewrite beq_sym, E. reflexivity.
Qed.
Lemma alookup_app_new k k' (v : A) l : alookup k l = None ->
  alookup k' (l ++ [(k, v)]) = if beq k' k then Some v else alookup k' l.
Proof.
  induction l as [|[k0 v0] l IH]; cbn [app alookup]; intros H.
  - destruct (beq k' k); reflexivity.
  - destruct (beq k k0) eqn:E; [discriminate|]. destruct (beq k' k0) eqn:E2.
    + apply beq_eq in E2. subst k0. rewrite beq_sym, E. reflexivity.
    + apply IH. assumption.
Qed.
Lemma alookup_In k l (v : A) : alookup k l = Some v -> In (k, v) l.
Proof.
  induction l as [|[k0 v0] l IH]; cbn [alookup]; [discriminate|].
  destruct (beq k k0) eqn:E.
  - intros H; inversion H; subst. apply beq_eq in E. subst. left; reflexivity.
  - intros H. right. auto.
Qed.
Lemma alookup_None_notin k l : alookup k l = None -> ~ In k (map fst l).
Proof.
  induction l as [|[k0 v0] l IH]; cbn [alookup map fst]; [tauto|].
  destruct (beq k k0) eqn:E; [discriminate|]. intros H [H1|H1].
  - subst. rewrite beq_refl in E. discriminate.
  - exact (IH H H1).
Qed.
Lemma alookup_notin_None k l : ~ In k (map fst l) -> alookup k l = None.
Proof.
  induction l as [|[k0 v0] l IH]; cbn [alookup map fst]; [reflexivity|]. intros H.
  destruct (beq k k0) eqn:E.
  - apply beq_eq in E. subst. exfalso. apply H. left; reflexivity.
  - apply IH. intros Hin. apply H. right. exact Hin.
Qed.
Lemma keys_aput_present k (v : A) l : alookup k l <> None -> map fst (aput k v l) = map fst l.
Proof.
  induction l as [|[k0 v0] l IH]; cbn [alookup aput map fst]; [congruence|].
  destruct (beq k k0) eqn:E; cbn [map fst].
  - apply beq_eq in E. subst. reflexivity.
  - intros H. f_equal. auto.
Qed.
Lemma keys_aremove k l : map fst (aremove k l) = filter (fun x => negb (beq k x)) (map fst l).
Proof.
  induction l as [|[k0 v0] l IH]; cbn [aremove map fst filter]; [reflexivity|].
  destruct (beq k k0); cbn [negb map fst]; [exact IH|f_equal; exact IH].
Qed.
Lemma len_aremove_nodup k l : NoDup (map fst l) -> alookup k l <> None -> len (aremove k l) = len l - 1.
Proof.
  induction l as [|[k0 v0] l IH]; cbn [alookup aremove map fst]; [congruence|].
  intros Hnd H. inversion Hnd as [|? ? Hn Hnd']; subst. destruct (beq k k0) eqn:E.
  - apply beq_eq in E. subst k0. rewrite len_cons.
    assert (aremove k l = l) as ->; [|lia].
    clear -Hn. induction l as [|[k1 v1] l IH]; [reflexivity|]. cbn [aremove map fst] in *.
    destruct (beq k k1) eqn:E; [apply beq_eq in E; subst; exfalso; apply Hn; left; reflexivity|].
    f_equal. apply IH. intros Hin. apply Hn. right. exact Hin.
  - rewrite !len_cons. rewrite IH by assumption. lia.
Qed.
Lemma NoDup_keys_aremove k l : NoDup (map fst l) -> NoDup (map fst (aremove k l)).
Proof. intros H. rewrite keys_aremove. apply NoDup_filter. assumption. Qed.
Lemma NoDup_keys_app_new k (v : A) l : NoDup (map fst l) -> alookup k l = None ->
  NoDup (map fst (l ++ [(k, v)])).
Proof.
  intros H Hn. rewrite map_app. cbn [map fst]. apply NoDup_snoc; [assumption|].
  apply alookup_None_notin. assumption.
Qed.
End Assoc.

(** ---- the BTreeMap of pending entries ---- *)
Definition plt (a b : pending) : Prop := sid_lt (p_id a) (p_id b).
Definition psorted (l : list pending) : Prop := StronglySorted plt l.
Definition owner (l : list pending) (id : sid) : option bytes := option_map p_consumer (pel_find id l).

Lemma psorted_inv p l : psorted (p :: l) -> psorted l /\ Forall (plt p) l.
Proof. intros H; inversion H; auto. Qed.

Lemma pel_find_insert id p l :
  pel_find id (pel_insert p l) = if sid_eqb id (p_id p) then Some p else pel_find id l.
Proof.
  induction l as [|q l IH]; cbn [pel_insert pel_find]; [reflexivity|].
  destruct (sid_cmp (p_id p) (p_id q)) eqn:E; cbn [pel_find].
  - apply sid_cmp_eq in E. destruct (sid_eqb id (p_id p)) eqn:E1; [reflexivity|].
    rewrite <- E, E1. reflexivity.
  - reflexivity.
  - rewrite IH. destruct (sid_eqb id (p_id q)) eqn:E1; [|reflexivity].
    apply sid_eqb_eq in E1. subst id. destruct (sid_eqb (p_id q) (p_id p)) eqn:E2; [|reflexivity].
    apply sid_eqb_eq in E2. rewrite E2 in E.
    assert (sid_cmp (p_id p) (p_id p) = Eq) by (apply sid_cmp_eq; reflexivity). congruence.
Qed.
Lemma pel_find_In id l p : pel_find id l = Some p -> In p l /\ p_id p = id.
Proof.
  induction l as [|q l IH]; cbn [pel_find]; [discriminate|].
  destruct (sid_eqb id (p_id q)) eqn:E.
  - intros H; inversion H; subst. apply sid_eqb_eq in E. split; [left; reflexivity|auto].
  - intros H. destruct (IH H). split; [right|]; assumption.
Qed.
Lemma pel_find_none_notin id l : pel_find id l = None -> forall p, In p l -> p_id p <> id.
Proof.
  induction l as [|q l IH]; cbn [pel_find]; intros H p Hp; [destruct Hp|].
  destruct (sid_eqb id (p_id q)) eqn:E; [discriminate|]. destruct Hp as [<-|Hp].
  - intros Heq. rewrite Heq, sid_eqb_refl in E. discriminate.
  - apply IH; assumption.
Qed.
Lemma pel_find_gt id l : Forall (fun q => sid_lt id (p_id q)) l -> pel_find id l = None.
Proof.
  induction 1 as [|q l Hq _ IH]; cbn [pel_find]; [reflexivity|].
  destruct (sid_eqb id (p_id q)) eqn:E; [|exact IH]. apply sid_eqb_eq in E. rewrite <- E in Hq.
  exfalso. eapply sid_lt_irrefl; eassumption.
Qed.

Lemma Forall_pel_insert (P : pending -> Prop) p l : Forall P l -> P p -> Forall P (pel_insert p l).
Proof.
  induction 1 as [|q l Hq Hl IH]; intros Hp; cbn [pel_insert]; [constructor; auto|].
  destruct (sid_cmp (p_id p) (p_id q)); constructor; auto.
Qed.
Lemma Forall_pel_remove (P : pending -> Prop) id l : Forall P l -> Forall P (pel_remove id l).
Proof.
  induction 1 as [|q l Hq Hl IH]; cbn [pel_remove]; [constructor|].
  destruct (sid_eqb id (p_id q)); [assumption|constructor; assumption].
Qed.

Lemma psorted_insert p l : psorted l -> psorted (pel_insert p l).
Proof.
  induction l as [|q l IH]; intros Hs; cbn [pel_insert]; [constructor; constructor|].
  apply psorted_inv in Hs as [Hs Hq]. destruct (sid_cmp (p_id p) (p_id q)) eqn:E.
  - apply sid_cmp_eq in E. constructor; [assumption|]. eapply Forall_impl; [|exact Hq].
    intros a Ha. unfold plt in *. rewrite E. assumption.
  - apply sid_cmp_lt in E. constructor; [constructor; assumption|]. constructor; [exact E|].
    eapply Forall_impl; [|exact Hq]. intros a Ha. unfold plt in *. eapply sid_lt_trans; eassumption.
  - apply sid_cmp_gt in E. constructor; [apply IH; assumption|].
    apply Forall_pel_insert; assumption.
Qed.
Lemma psorted_remove id l : psorted l -> psorted (pel_remove id l).
Proof.
  induction l as [|q l IH]; intros Hs; cbn [pel_remove]; [constructor|].
  apply psorted_inv in Hs as [Hs Hq]. destruct (sid_eqb id (p_id q)); [assumption|].
  constructor; [apply IH; assumption|]. apply Forall_pel_remove. assumption.
Qed.

Lemma pel_find_remove id id0 l : psorted l ->
  pel_find id (pel_remove id0 l) = if sid_eqb id id0 then None else pel_find id l.
Proof.
  induction l as [|q l IH]; intros Hs; cbn [pel_remove pel_find]; [destruct (sid_eqb id id0); reflexivity|].
  apply psorted_inv in Hs as [Hs Hq]. destruct (sid_eqb id0 (p_id q)) eqn:E.
  - apply sid_eqb_eq in E. subst id0. destruct (sid_eqb id (p_id q)) eqn:E1; [|reflexivity].
    apply sid_eqb_eq in E1. subst id. apply pel_find_gt. exact Hq.
  - cbn [pel_find]. rewrite (IH Hs). destruct (sid_eqb id (p_id q)) eqn:E1; [|reflexivity].
    apply sid_eqb_eq in E1. subst id. rewrite sid_eqb_sym, E. reflexivity.
Qed.

Lemma len_pel_insert p l : psorted l ->
  len (pel_insert p l) = len l + (match pel_find (p_id p) l with Some _ => 0 | None => 1 end).
Proof.
  induction l as [|q l IH]; intros Hs; cbn [pel_insert pel_find]; [reflexivity|].
  apply psorted_inv in Hs as [Hs Hq].
  destruct (sid_cmp (p_id p) (p_id q)) eqn:E.
  - apply sid_cmp_eq in E. rewrite E, sid_eqb_refl, !len_cons. lia.
  - apply sid_cmp_lt in E. destruct (sid_eqb (p_id p) (p_id q)) eqn:E1.
    + apply sid_eqb_eq in E1. rewrite E1 in E. exfalso. eapply sid_lt_irrefl; eassumption.
    + rewrite pel_find_gt; [rewrite !len_cons; lia|].
      eapply Forall_impl; [|exact Hq]. intros a Ha. unfold plt in Ha. eapply sid_lt_trans; eassumption.
  - apply sid_cmp_gt in E. destruct (sid_eqb (p_id p) (p_id q)) eqn:E1.
    + apply sid_eqb_eq in E1. rewrite E1 in E. exfalso. eapply sid_lt_irrefl; eassumption.
    + rewrite !len_cons, (IH Hs). lia.
Qed.
Lemma len_pel_remove id l :
  len (pel_remove id l) = len l - (match pel_find id l with Some _ => 1 | None => 0 end).
Proof.
  induction l as [|q l IH]; cbn [pel_remove pel_find]; [reflexivity|].
  destruct (sid_eqb id (p_id q)); rewrite !len_cons; lia.
Qed.

Lemma ids_insert_present p l q : psorted l -> pel_find (p_id p) l = Some q ->
  map p_id (pel_insert p l) = map p_id l.
Proof.
  induction l as [|a l IH]; intros Hs; cbn [pel_insert pel_find]; [discriminate|].
  apply psorted_inv in Hs as [Hs Ha]. destruct (sid_cmp (p_id p) (p_id a)) eqn:E.
  - apply sid_cmp_eq in E. intros _. cbn [map]. rewrite E. reflexivity.
  - apply sid_cmp_lt in E. destruct (sid_eqb (p_id p) (p_id a)) eqn:E1.
    + apply sid_eqb_eq in E1. rewrite E1 in E. exfalso. eapply sid_lt_irrefl; eassumption.
    + rewrite pel_find_gt; [discriminate|].
      eapply Forall_impl; [|exact Ha]. intros b Hb. unfold plt in Hb. eapply sid_lt_trans; eassumption.
  - destruct (sid_eqb (p_id p) (p_id a)) eqn:E1.
    + apply sid_eqb_eq in E1. apply sid_cmp_gt in E. rewrite E1 in E. exfalso. eapply sid_lt_irrefl; eassumption.
    + intros H. cbn [map]. f_equal. apply IH; assumption.
Qed.
Lemma pel_min_ids l : pel_min l = hd_error (map p_id l).
Proof. destruct l; reflexivity. Qed.
Lemma pel_max_ids l : pel_max l = hd_error (rev (map p_id l)).
Proof. unfold pel_max. rewrite <- map_rev. destruct (rev l); reflexivity. Qed.

Lemma owner_insert id p l :
  owner (pel_insert p l) id = if sid_eqb id (p_id p) then Some (p_consumer p) else owner l id.
Proof. unfold owner. rewrite pel_find_insert. destruct (sid_eqb id (p_id p)); reflexivity. Qed.
Lemma owner_remove id id0 l : psorted l ->
  owner (pel_remove id0 l) id = if sid_eqb id id0 then None else owner l id.
Proof. intros Hs. unfold owner. rewrite pel_find_remove by assumption. destruct (sid_eqb id id0); reflexivity. Qed.

Lemma pel_insert_after_remove p l : psorted l -> pel_insert p (pel_remove (p_id p) l) = pel_insert p l.
Proof.
  induction l as [|q l IH]; intros Hs; cbn [pel_remove pel_insert]; [reflexivity|].
  apply psorted_inv in Hs as [Hs Hq]. destruct (sid_eqb (p_id p) (p_id q)) eqn:E.
  - apply sid_eqb_eq in E. assert (sid_cmp (p_id p) (p_id q) = Eq) as -> by (apply sid_cmp_eq; assumption).
    (* the rest is above p's id: p goes in front *)
    destruct l as [|a l]; [reflexivity|]. cbn [pel_insert].
    inversion Hq as [|? ? Ha _]; subst. unfold plt in Ha. rewrite <- E in Ha.
    assert (sid_cmp (p_id p) (p_id a) = Lt) as -> by (apply sid_cmp_lt; assumption). reflexivity.
  - cbn [pel_insert]. destruct (sid_cmp (p_id p) (p_id q)) eqn:E1.
    + apply sid_cmp_eq in E1. rewrite E1, sid_eqb_refl in E. discriminate.
    + (* p before q: nothing with p's id further on *)
      f_equal. f_equal. apply sid_cmp_lt in E1.
      clear IH. induction l as [|a l IHl]; [reflexivity|]. cbn [pel_remove].
      inversion Hq as [|? ? Ha Hq']; subst. apply psorted_inv in Hs as [Hs' Ha'].
      destruct (sid_eqb (p_id p) (p_id a)) eqn:E2.
      * apply sid_eqb_eq in E2. unfold plt in Ha. rewrite <- E2 in Ha. exfalso.
        eapply sid_lt_asym; eassumption.
      * f_equal. apply IHl; assumption.
    + f_equal. apply IH. assumption.
Qed.

(** ---- the per-consumer index ---- *)
Definition bcg (c : bytes) (m : list (bytes * list sid)) : list sid :=
  match alookup c m with Some l => l | None => [] end.
Definition bc_nonempty (m : list (bytes * list sid)) : Prop :=
  forall c l, alookup c m = Some l -> l <> [].

Lemma bcg_push c' c id m :
  bcg c' (bc_push c id m) = if beq c' c then bcg c m ++ [id] else bcg c' m.
Proof.
  unfold bcg, bc_push. destruct (alookup c m) as [l|] eqn:E.
  - rewrite alookup_aput. destruct (beq c' c) eqn:E1; [|reflexivity]. reflexivity.
  - rewrite (alookup_app_new c c' [id] m E). destruct (beq c' c); reflexivity.
Qed.
Lemma bc_nonempty_push c id m : bc_nonempty m -> bc_nonempty (bc_push c id m).
Proof.
  intros H c' l. unfold bc_push. destruct (alookup c m) as [l0|] eqn:E.
  - rewrite alookup_aput. destruct (beq c' c); [|apply H]. intros Hl; inversion Hl. destruct l0; discriminate.
  - rewrite (alookup_app_new c c' [id] m E). destruct (beq c' c); [|apply H]. intros Hl; inversion Hl. discriminate.
Qed.
Definition drop_id (id : sid) (l : list sid) : list sid := filter (fun x => negb (sid_eqb x id)) l.
Lemma bcg_drop c' c id m :
  bcg c' (bc_drop c id m) = if beq c' c then drop_id id (bcg c m) else bcg c' m.
Proof.
  unfold bcg, bc_drop. destruct (alookup c m) as [l|] eqn:E.
  - fold (drop_id id l). destruct (drop_id id l) as [|x l'] eqn:El.
    + rewrite alookup_aremove. destruct (beq c' c); reflexivity.
    + rewrite alookup_aput. destruct (beq c' c); reflexivity.
  - destruct (beq c' c) eqn:E1; [|reflexivity]. apply beq_eq in E1. subst. rewrite E. reflexivity.
Qed.
Lemma bc_nonempty_drop c id m : bc_nonempty m -> bc_nonempty (bc_drop c id m).
Proof.
  intros H c' l. unfold bc_drop. destruct (alookup c m) as [l0|] eqn:E; [|apply H].
  fold (drop_id id l0). destruct (drop_id id l0) as [|x l'] eqn:El.
  - rewrite alookup_aremove. destruct (beq c' c); [discriminate|apply H].
  - rewrite alookup_aput. destruct (beq c' c); [|apply H]. intros Hl; inversion Hl. discriminate.
Qed.
Lemma bcg_aremove c' c m : bcg c' (aremove c m) = if beq c' c then [] else bcg c' m.
Proof. unfold bcg. rewrite alookup_aremove. destruct (beq c' c); reflexivity. Qed.
Lemma bc_nonempty_aremove c m : bc_nonempty m -> bc_nonempty (aremove c m).
Proof. intros H c' l. rewrite alookup_aremove. destruct (beq c' c); [discriminate|apply H]. Qed.

Lemma In_drop_id x id l : In x (drop_id id l) <-> In x l /\ x <> id.
Proof.
  unfold drop_id. rewrite filter_In. split; intros [H1 H2]; split; auto.
  - intros ->. rewrite sid_eqb_refl in H2. discriminate.
  - destruct (sid_eqb x id) eqn:E; [|reflexivity]. apply sid_eqb_eq in E. contradiction.
Qed.
Lemma NoDup_drop_id id l : NoDup l -> NoDup (drop_id id l).
Proof. apply NoDup_filter. Qed.
Lemma len_drop_id id l : NoDup l -> In id l -> len (drop_id id l) = len l - 1.
Proof.
  induction l as [|x l IH]; intros Hnd Hin; [destruct Hin|]. inversion Hnd as [|? ? Hx Hnd']; subst.
  unfold drop_id in *. cbn [filter]. destruct (sid_eqb x id) eqn:E; cbn [negb].
  - apply sid_eqb_eq in E. subst x. rewrite len_cons.
    assert (filter (fun y => negb (sid_eqb y id)) l = l) as ->; [|lia].
    apply filter_all_true. apply Forall_forall. intros y Hy. destruct (sid_eqb y id) eqn:E; [|reflexivity].
    apply sid_eqb_eq in E. subst. contradiction.
  - rewrite !len_cons. rewrite IH; [lia|assumption|]. destruct Hin as [->|Hin]; [|assumption].
    rewrite sid_eqb_refl in E. discriminate.
Qed.
Lemma drop_id_notin id l : ~ In id l -> drop_id id l = l.
Proof.
  intros H. apply filter_all_true. apply Forall_forall. intros y Hy. destruct (sid_eqb y id) eqn:E; [|reflexivity].
  apply sid_eqb_eq in E. subst. contradiction.
Qed.

(** ---- agreement of by-id map and per-consumer index ---- *)
Record PInv (byid : list pending) (bc : list (bytes * list sid)) : Prop := {
  pi_sorted : psorted byid;
  pi_nodup : forall c, NoDup (bcg c bc);
  pi_owner : forall c id, In id (bcg c bc) <-> owner byid id = Some c;
  pi_nonempty : bc_nonempty bc
}.

Lemma PInv_nil : PInv [] [].
Proof.
  split; [constructor|intros c; constructor| |intros c l; discriminate].
  intros c id. cbn. split; [tauto|discriminate].
Qed.

Lemma PInv_add byid bc p : PInv byid bc -> owner byid (p_id p) = None ->
  PInv (pel_insert p byid) (bc_push (p_consumer p) (p_id p) bc).
Proof.
  intros [H1 H2 H3 H4] Hn. split.
  - apply psorted_insert; assumption.
  - intros c. rewrite bcg_push. destruct (beq c (p_consumer p)) eqn:E; [|apply H2].
    apply NoDup_snoc; [apply H2|]. intros Hin. apply beq_eq in E. subst c. apply H3 in Hin. congruence.
  - intros c id. rewrite bcg_push, owner_insert. destruct (sid_eqb id (p_id p)) eqn:Ei.
    + apply sid_eqb_eq in Ei. subst id. destruct (beq c (p_consumer p)) eqn:E.
      * apply beq_eq in E. subst c. split; [reflexivity|]. intros _. apply in_or_app. right. left; reflexivity.
      * split.
        -- intros Hin. apply H3 in Hin. congruence.
        -- intros Heq. inversion Heq as [Heq']. rewrite Heq', beq_refl in E. discriminate.
    + destruct (beq c (p_consumer p)) eqn:E; [|apply H3]. apply beq_eq in E. subst c.
      rewrite <- H3. split.
      * intros Hin. apply in_app_or in Hin as [Hin|[Hin|[]]]; [assumption|]. subst. rewrite sid_eqb_refl in Ei. discriminate.
      * intros Hin. apply in_or_app. left; assumption.
  - apply bc_nonempty_push. assumption.
Qed.

Lemma PInv_remove byid bc id e : PInv byid bc -> pel_find id byid = Some e ->
  PInv (pel_remove id byid) (bc_drop (p_consumer e) id bc).
Proof.
  intros [H1 H2 H3 H4] Hf. split.
  - apply psorted_remove; assumption.
  - intros c. rewrite bcg_drop. destruct (beq c (p_consumer e)); [apply NoDup_drop_id|]; apply H2.
  - intros c id'. rewrite bcg_drop, (owner_remove id' id byid H1). destruct (sid_eqb id' id) eqn:Ei.
    + apply sid_eqb_eq in Ei. subst id'. split; [|discriminate].
      destruct (beq c (p_consumer e)) eqn:E.
      * intros Hin. apply In_drop_id in Hin as [_ Hne]. congruence.
      * intros Hin. apply H3 in Hin. unfold owner in Hin. rewrite Hf in Hin. cbn in Hin.
        inversion Hin as [Heq]. rewrite Heq, beq_refl in E. discriminate.
    + destruct (beq c (p_consumer e)) eqn:E; [|apply H3]. apply beq_eq in E. subst c.
      rewrite In_drop_id, H3. split; [tauto|]. intros H. split; [assumption|].
      intros ->. rewrite sid_eqb_refl in Ei. discriminate.
  - apply bc_nonempty_drop. assumption.
Qed.

(** transfer of ownership = removal then re-insertion under the new owner *)
Lemma PInv_transfer byid bc e p' : PInv byid bc -> pel_find (p_id e) byid = Some e -> p_id p' = p_id e ->
  PInv (pel_insert p' byid) (bc_push (p_consumer p') (p_id e) (bc_drop (p_consumer e) (p_id e) bc)).
Proof.
  intros Hp Hf Hid. pose proof (PInv_remove byid bc (p_id e) e Hp Hf) as Hr.
  rewrite <- Hid in *. rewrite <- (pel_insert_after_remove p' byid (pi_sorted _ _ Hp)).
  apply PInv_add; [assumption|]. rewrite owner_remove by apply (pi_sorted _ _ Hp). rewrite sid_eqb_refl. reflexivity.
Qed.

(** ---- the group invariant: the four representations agree ----
    [L] bounds the pending IDs (the cursor), [dc]/[dt] are the amounts by which the
    per-consumer counters / the total lag behind inside the loops of add_pending and
    acknowledge; the invariant proper has L = last_delivered_id and no lag. *)
Definition zero_off : bytes -> Z := fun _ => 0.
Record GInvX (g : group) (L : sid) (dc : bytes -> Z) (dt : Z) : Prop := {
  gi_pel : PInv (g_by_id g) (g_by_consumer g);
  gi_cursor : Forall (fun p => sid_le (p_id p) L) (g_by_id g);
  gi_keys : NoDup (map fst (g_consumers g));
  gi_counts : forall c n, alookup c (g_consumers g) = Some n -> n + dc c = len (bcg c (g_by_consumer g));
  gi_owners : forall c id, owner (g_by_id g) id = Some c -> alookup c (g_consumers g) <> None;
  gi_total : g_total g + dt = len (g_by_id g);
  gi_ncons : g_ncons g = len (g_consumers g);
  gi_min : g_min g = pel_min (g_by_id g);
  gi_max : g_max g = pel_max (g_by_id g)
}.
Definition GInvC (g : group) : Prop := GInvX g (g_last g) zero_off 0.

Lemma GInvX_ext g L dc dc' dt dt' : (forall c, dc c = dc' c) -> dt = dt' -> GInvX g L dc dt -> GInvX g L dc' dt'.
Proof.
  intros Hc Ht [H1 H2 H3 H4 H5 H6 H7 H8 H9]. subst dt'. split; try assumption.
  intros c n Hn. rewrite <- Hc. apply H4. assumption.
Qed.
Lemma GInvX_weaken g L L' dc dt : sid_le L L' -> GInvX g L dc dt -> GInvX g L' dc dt.
Proof.
  intros Hl [H1 H2 H3 H4 H5 H6 H7 H8 H9]. split; try assumption.
  eapply Forall_impl; [|exact H2]. intros p Hp. cbv beta in Hp. eapply sid_le_trans; eassumption.
Qed.

Lemma GInvC_mk st : GInvC (mk_group st).
Proof.
  split; cbn.
  - apply PInv_nil.
  - constructor.
  - constructor.
  - intros c n H; discriminate.
  - intros c id H; discriminate.
  - reflexivity.
  - reflexivity.
  - reflexivity.
  - reflexivity.
Qed.

Lemma GInvC_new : GInvC new_group.
Proof. apply GInvC_mk. Qed.

(** The agreement invariant proper: the by-ID map is strictly sorted; each consumer's ID
    vector is duplicate-free and holds exactly the IDs the map assigns to that consumer; no
    empty vector is stored; every owner is a registered consumer whose counter equals the
    length of its vector; total = size of the map; consumer counter = number of consumers
    (names distinct); the cached min/max are the map's bounds.  Nothing is said about the
    cursor: XGROUP SETID may put it anywhere. *)
Record GInv (g : group) : Prop := {
  ga_pel : PInv (g_by_id g) (g_by_consumer g);
  ga_keys : NoDup (map fst (g_consumers g));
  ga_counts : forall c n, alookup c (g_consumers g) = Some n -> n = len (bcg c (g_by_consumer g));
  ga_owners : forall c id, owner (g_by_id g) id = Some c -> alookup c (g_consumers g) <> None;
  ga_total : g_total g = len (g_by_id g);
  ga_ncons : g_ncons g = len (g_consumers g);
  ga_min : g_min g = pel_min (g_by_id g);
  ga_max : g_max g = pel_max (g_by_id g)
}.
(** no pending ID above the cursor (holds as long as SETID does not move the cursor back) *)
Definition BelowCursor (g : group) : Prop := Forall (fun p => sid_le (p_id p) (g_last g)) (g_by_id g).

Lemma GInv_of_X g L : GInvX g L zero_off 0 -> GInv g.
Proof.
  intros [H1 H2 H3 H4 H5 H6 H7 H8 H9]. split; try assumption.
  - intros c n Hn. specialize (H4 c n Hn). unfold zero_off in H4. lia.
  - lia.
Qed.
Lemma GInvX_of g L : GInv g -> Forall (fun p => sid_le (p_id p) L) (g_by_id g) -> GInvX g L zero_off 0.
Proof.
  intros [H1 H3 H4 H5 H6 H7 H8 H9] H2. split; try assumption.
  - intros c n Hn. specialize (H4 c n Hn). unfold zero_off. lia.
  - lia.
Qed.
Lemma GInvC_iff g : GInvC g <-> GInv g /\ BelowCursor g.
Proof.
  split.
  - intros H. split; [exact (GInv_of_X _ _ H) | exact (gi_cursor _ _ _ _ H)].
  - intros [H1 H2]. apply GInvX_of; assumption.
Qed.
Lemma sid_bound (l : list sid) : exists L, Forall (fun i => sid_le i L) l.
Proof.
  induction l as [|i l [L HL]]; [exists sid_zero; constructor|].
  destruct (sid_ltb L i) eqn:E.
  - apply sid_ltb_lt in E. exists i. constructor; [apply sid_le_refl|].
    eapply Forall_impl; [|exact HL]. intros a Ha. cbv beta in Ha. left. eapply sid_le_lt_trans; eassumption.
  - apply sid_ltb_nlt in E. exists L. constructor; assumption.
Qed.
(** a bound of the pending IDs and of any further list of IDs *)
Lemma GInv_bound g ids : GInv g -> exists L, GInvX g L zero_off 0 /\ Forall (fun i => sid_le i L) ids.
Proof.
  intros Hg. destruct (sid_bound (map p_id (g_by_id g) ++ ids)) as [L HL]. apply Forall_app in HL as [H1 H2].
  exists L. split; [|exact H2]. apply GInvX_of; [exact Hg|].
  apply (proj1 (@Forall_map _ _ p_id (fun i => sid_le i L) (g_by_id g))). exact H1.
Qed.
Lemma GInv_mk st : GInv (mk_group st).
Proof. exact (GInv_of_X _ _ (GInvC_mk st)). Qed.
Lemma GInv_new : GInv new_group.
Proof. apply GInv_mk. Qed.

Lemma amem_alookup {A} c (l : list (bytes * A)) : amem c l = false <-> alookup c l = None.
Proof. unfold amem. destruct (alookup c l); split; congruence. Qed.

(** an unknown consumer owns nothing *)
Lemma no_owner_no_ids g L dc dt c : GInvX g L dc dt -> alookup c (g_consumers g) = None ->
  bcg c (g_by_consumer g) = [].
Proof.
  intros Hg Hn. destruct (bcg c (g_by_consumer g)) as [|id l] eqn:E; [reflexivity|exfalso].
  assert (Hin : In id (bcg c (g_by_consumer g))) by (rewrite E; left; reflexivity).
  apply (pi_owner _ _ (gi_pel _ _ _ _ Hg)) in Hin. apply (gi_owners _ _ _ _ Hg) in Hin. contradiction.
Qed.

Lemma create_consumer_inv g L dc dt c : GInvX g L dc dt -> dc c = 0 ->
  GInvX (snd (g_create_consumer g c)) L dc dt /\
  alookup c (g_consumers (snd (g_create_consumer g c))) <> None /\
  g_by_id (snd (g_create_consumer g c)) = g_by_id g /\
  g_by_consumer (snd (g_create_consumer g c)) = g_by_consumer g /\
  g_last (snd (g_create_consumer g c)) = g_last g /\
  (forall c', alookup c' (g_consumers g) <> None -> alookup c' (g_consumers (snd (g_create_consumer g c))) = alookup c' (g_consumers g)).
Proof.
  intros Hg Hdc. unfold g_create_consumer. destruct (amem c (g_consumers g)) eqn:E; cbn [snd].
  - split; [assumption|]. split; [unfold amem in E; destruct (alookup c (g_consumers g)); congruence|]. auto.
  - apply amem_alookup in E. pose proof (no_owner_no_ids g L dc dt c Hg E) as Hnone.
    destruct Hg as [H1 H2 H3 H4 H5 H6 H7 H8 H9].
    cbn [g_by_id g_by_consumer g_consumers g_last]. split; [|split; [|split; [reflexivity|split; [reflexivity|split; [reflexivity|]]]]].
    + split; cbn [g_by_id g_by_consumer g_consumers g_total g_ncons g_min g_max]; try assumption.
      * apply NoDup_keys_app_new; assumption.
      * intros c' n. rewrite (alookup_app_new c c' 0 _ E). destruct (beq c' c) eqn:Ec; [|apply H4].
        apply beq_eq in Ec. subst c'. intros Hn; inversion Hn; subst. rewrite Hnone, Hdc. reflexivity.
      * intros c' id Ho. rewrite (alookup_app_new c c' 0 _ E). destruct (beq c' c); [discriminate|]. eapply H5; eassumption.
      * rewrite len_app, H7. reflexivity.
    + rewrite (alookup_app_new c c 0 _ E), beq_refl. discriminate.
    + intros c' Hc'. rewrite (alookup_app_new c c' 0 _ E). destruct (beq c' c) eqn:Ec; [|reflexivity].
      apply beq_eq in Ec. subst. contradiction.
Qed.

Lemma owner_none_find l id : owner l id = None -> pel_find id l = None.
Proof. unfold owner. destruct (pel_find id l); [discriminate|reflexivity]. Qed.

Lemma add_entry_inv g L dc dt id c t k : GInvX g L dc dt ->
  owner (g_by_id g) id = None -> sid_le id L -> alookup c (g_consumers g) <> None ->
  GInvX (pel_add_entry g {| p_id := id; p_consumer := c; p_time := t; p_count := k |}) L
        (fun c' => if beq c' c then dc c' + 1 else dc c') (dt + 1).
Proof.
  intros [H1 H2 H3 H4 H5 H6 H7 H8 H9] Hn Hl Hc. unfold pel_add_entry, set_pel.
  split; cbn [g_by_id g_by_consumer g_consumers g_total g_ncons g_min g_max p_id p_consumer]; try assumption; try reflexivity.
  - apply (PInv_add _ _ {| p_id := id; p_consumer := c; p_time := t; p_count := k |} H1 Hn).
  - apply Forall_pel_insert; assumption.
  - intros c' n Hn'. rewrite bcg_push. destruct (beq c' c) eqn:E.
    + apply beq_eq in E. subst c'. rewrite len_app. specialize (H4 c n Hn'). cbn. lia.
    + apply H4. assumption.
  - intros c' id'. rewrite owner_insert. cbn [p_id p_consumer]. destruct (sid_eqb id' id).
    + intros Heq; inversion Heq; subst. assumption.
    + apply H5.
  - rewrite (len_pel_insert _ _ (pi_sorted _ _ H1)). cbn [p_id]. rewrite (owner_none_find _ _ Hn). lia.
Qed.

Lemma add_entries_inv now c : forall ids g L dc dt, GInvX g L dc dt ->
  NoDup ids -> (forall id, In id ids -> owner (g_by_id g) id = None /\ sid_le id L) ->
  alookup c (g_consumers g) <> None ->
  let g' := fold_left (fun g id => pel_add_entry g {| p_id := id; p_consumer := c; p_time := now; p_count := 1 |}) ids g in
  GInvX g' L (fun c' => if beq c' c then dc c' + len ids else dc c') (dt + len ids) /\
  g_consumers g' = g_consumers g /\ g_total g' = g_total g /\ g_last g' = g_last g /\ g_ncons g' = g_ncons g /\
  (forall id, owner (g_by_id g') id = if sid_mem id ids then Some c else owner (g_by_id g) id).
Proof.
  induction ids as [|id ids IH]; intros g L dc dt Hg Hnd Hids Hc; cbn [fold_left].
  - split; [|auto]. eapply GInvX_ext; [| |exact Hg]; [intros c'; destruct (beq c' c); rewrite ?len_nil; lia|rewrite len_nil; lia].
  - inversion Hnd as [|? ? Hnin Hnd']; subst.
    destruct (Hids id (or_introl eq_refl)) as [Ho Hle].
    pose proof (add_entry_inv g L dc dt id c now 1 Hg Ho Hle Hc) as Hg1.
    set (g1 := pel_add_entry g {| p_id := id; p_consumer := c; p_time := now; p_count := 1 |}) in *.
    assert (Hids1 : forall id', In id' ids -> owner (g_by_id g1) id' = None /\ sid_le id' L).
    { intros id' Hin. destruct (Hids id' (or_intror Hin)) as [Ho' Hle']. split; [|assumption].
      subst g1. unfold pel_add_entry, set_pel. cbn [g_by_id]. rewrite owner_insert. cbn [p_id].
      destruct (sid_eqb id' id) eqn:E; [|assumption]. apply sid_eqb_eq in E. subst. contradiction. }
    specialize (IH g1 L _ _ Hg1 Hnd' Hids1 Hc). cbn zeta in IH.
    destruct IH as (IH1 & IH2 & IH3 & IH4 & IH5 & IH6). cbn zeta.
    split; [|split; [exact IH2|split; [exact IH3|split; [exact IH4|split; [exact IH5|]]]]].
    + eapply GInvX_ext; [| |exact IH1]; [intros c'; cbv beta; rewrite len_cons; destruct (beq c' c); lia|rewrite len_cons; lia].
    + intros id'. rewrite IH6. cbn [sid_mem]. subst g1. unfold pel_add_entry, set_pel. cbn [g_by_id].
      rewrite owner_insert. cbn [p_id p_consumer]. destruct (sid_eqb id' id) eqn:E; cbn [orb].
      * destruct (sid_mem id' ids); reflexivity.
      * reflexivity.
Qed.

Lemma alookup_upd_count c' c f cs :
  alookup c' (upd_count c f cs) = if beq c' c then option_map f (alookup c cs) else alookup c' cs.
Proof.
  unfold upd_count. destruct (alookup c cs) as [n|] eqn:E.
  - rewrite alookup_aput. destruct (beq c' c); reflexivity.
  - destruct (beq c' c) eqn:E1; [|reflexivity]. apply beq_eq in E1. subst. rewrite E. reflexivity.
Qed.
Lemma keys_upd_count c f cs : map fst (upd_count c f cs) = map fst cs.
Proof.
  unfold upd_count. destruct (alookup c cs) eqn:E; [|reflexivity]. apply keys_aput_present. congruence.
Qed.
Lemma len_map_fst {A B} (l : list (A * B)) : len (map fst l) = len l.
Proof. unfold len. rewrite map_length. reflexivity. Qed.
Lemma len_upd_count c f cs : len (upd_count c f cs) = len cs.
Proof. rewrite <- (len_map_fst (upd_count c f cs)), keys_upd_count, len_map_fst. reflexivity. Qed.

(** ---- add_pending (after the repair 92eb72a) ----
    Inside the loop the previous owners' counters, the reader's counter and the total lag
    behind; [cnt o prev] = how often [o] was recorded as a previous owner. *)
Definition cnt (o : bytes) (prev : list bytes) : Z := len (filter (beq o) prev).
Lemma cnt_nil o : cnt o [] = 0.
Proof. reflexivity. Qed.
Lemma cnt_snoc o prev x : cnt o (prev ++ [x]) = cnt o prev + (if beq o x then 1 else 0).
Proof. unfold cnt. rewrite filter_app, len_app. cbn [filter]. destruct (beq o x); rewrite ?len_cons, ?len_nil; lia. Qed.
Lemma cnt_cons o prev x : cnt o (x :: prev) = (if beq o x then 1 else 0) + cnt o prev.
Proof. unfold cnt. cbn [filter]. destruct (beq o x); rewrite ?len_cons; lia. Qed.
Lemma cnt_nonneg o prev : 0 <= cnt o prev.
Proof. apply len_nonneg. Qed.

Lemma GInvX_set_last g L dc dt i : GInvX g L dc dt -> GInvX (set_last g i) L dc dt.
Proof. intros [H1 H2 H3 H4 H5 H6 H7 H8 H9]. split; cbn [set_last g_by_id g_by_consumer g_consumers g_total g_ncons g_min g_max]; assumption. Qed.

(** PendingEntryList::remove_entry alone: the owner's counter and the total now lag *)
Lemma remove_entry_raw_inv g L dc dt id e g' : GInvX g L dc dt ->
  pel_remove_entry g id = (Some e, g') ->
  GInvX g' L (fun o => if beq o (p_consumer e) then dc o - 1 else dc o) (dt - 1) /\
  pel_find id (g_by_id g) = Some e /\ g_by_id g' = pel_remove id (g_by_id g) /\
  g_consumers g' = g_consumers g /\ g_total g' = g_total g /\ g_last g' = g_last g /\ g_ncons g' = g_ncons g.
Proof.
  intros Hg. unfold pel_remove_entry. destruct (pel_find id (g_by_id g)) as [e0|] eqn:Ef; [|discriminate].
  intros H; inversion H; subst e0 g'; clear H. split; [|cbn; auto 10].
  destruct Hg as [H1 H2 H3 H4 H5 H6 H7 H8 H9]. unfold set_pel.
  split; cbn [g_by_id g_by_consumer g_consumers g_total g_ncons g_min g_max]; try reflexivity; try assumption.
  - apply PInv_remove; assumption.
  - apply Forall_pel_remove; assumption.
  - intros c n Hn. rewrite bcg_drop. destruct (beq c (p_consumer e)) eqn:E; [|apply H4; assumption].
    apply beq_eq in E. subst c. specialize (H4 _ _ Hn).
    assert (Hin : In id (bcg (p_consumer e) (g_by_consumer g))).
    { apply (pi_owner _ _ H1). unfold owner. rewrite Ef. reflexivity. }
    rewrite (len_drop_id id _ (pi_nodup _ _ H1 _) Hin). lia.
  - intros c id'. rewrite (owner_remove _ _ _ (pi_sorted _ _ H1)).
    destruct (sid_eqb id' id); [discriminate|]. apply H5.
  - rewrite len_pel_remove, Ef. lia.
Qed.

Lemma filter_map_ext_in {A B} (f g : A -> option B) l : (forall x, In x l -> f x = g x) -> filter_map f l = filter_map g l.
Proof.
  induction l as [|x l IH]; intros H; cbn [filter_map]; [reflexivity|].
  rewrite (H x (or_introl eq_refl)), IH; [reflexivity|]. intros y Hy. apply H. right; assumption.
Qed.

Lemma add_pending_loop now c : forall ids g prev L k,
  GInvX g L (fun o => (if beq o c then k else 0) - cnt o prev) (k - len prev) ->
  NoDup ids -> (forall id, In id ids -> sid_le id L) -> alookup c (g_consumers g) <> None ->
  let r := fold_left (add_pending_one now c) ids (g, prev) in
  GInvX (fst r) L (fun o => (if beq o c then k + len ids else 0) - cnt o (snd r)) (k + len ids - len (snd r)) /\
  g_consumers (fst r) = g_consumers g /\ g_total (fst r) = g_total g /\ g_last (fst r) = g_last g /\
  g_ncons (fst r) = g_ncons g /\
  snd r = prev ++ filter_map (owner (g_by_id g)) ids /\
  (forall id, owner (g_by_id (fst r)) id = if sid_mem id ids then Some c else owner (g_by_id g) id).
Proof.
  induction ids as [|id ids IH]; intros g prev L k Hg Hnd Hle Hc; cbn [fold_left]; cbn zeta.
  - cbn [fst snd filter_map sid_mem]. rewrite app_nil_r, len_nil.
    split; [eapply GInvX_ext; [| |exact Hg]; [intros o; cbv beta; destruct (beq o c); lia | lia]|]. auto 10.
  - inversion Hnd as [|? ? Hnin Hnd']; subst.
    assert (Hsorted : psorted (g_by_id g)) by (apply (pi_sorted _ _ (gi_pel _ _ _ _ Hg))).
    set (p := {| p_id := id; p_consumer := c; p_time := now; p_count := 1 |}).
    assert (Estep : add_pending_one now c (g, prev) id
                    = match pel_remove_entry g id with
                      | (old, g') => (pel_add_entry g' p, match old with Some e => prev ++ [p_consumer e] | None => prev end)
                      end) by reflexivity.
    rewrite Estep. clear Estep.
    destruct (pel_remove_entry g id) as [[e|] g'] eqn:E.
    + destruct (remove_entry_raw_inv g L _ _ id e g' Hg E) as (Hg' & Hf & Hb' & Hcs' & Ht' & Hl' & Hn').
      assert (Hnone : owner (g_by_id g') id = None).
      { rewrite Hb', (owner_remove _ _ _ Hsorted), sid_eqb_refl. reflexivity. }
      assert (Hc' : alookup c (g_consumers g') <> None) by (rewrite Hcs'; exact Hc).
      pose proof (add_entry_inv g' L _ _ id c now 1 Hg' Hnone (Hle id (or_introl eq_refl)) Hc') as Hg2. fold p in Hg2.
      set (g2 := pel_add_entry g' p) in *.
      assert (Ho2 : forall id', owner (g_by_id g2) id' = if sid_eqb id' id then Some c else owner (g_by_id g) id').
      { intros id'. subst g2. unfold pel_add_entry, set_pel. cbn [g_by_id]. rewrite owner_insert. cbn [p p_id p_consumer].
        destruct (sid_eqb id' id) eqn:Ei; [reflexivity|]. rewrite Hb', (owner_remove _ _ _ Hsorted), Ei. reflexivity. }
      assert (Hg2' : GInvX g2 L (fun o => (if beq o c then k + 1 else 0) - cnt o (prev ++ [p_consumer e])) (k + 1 - len (prev ++ [p_consumer e]))).
      { eapply GInvX_ext; [| |exact Hg2].
        - intros o. cbv beta. rewrite cnt_snoc. destruct (beq o c); destruct (beq o (p_consumer e)); lia.
        - rewrite len_app, len_cons, len_nil. lia. }
      assert (Hc2 : alookup c (g_consumers g2) <> None) by (subst g2; cbn; exact Hc').
      specialize (IH g2 (prev ++ [p_consumer e]) L (k + 1) Hg2' Hnd' (fun i Hi => Hle i (or_intror Hi)) Hc2). cbn zeta in IH.
      destruct IH as (I1 & I2 & I3 & I4 & I5 & I6 & I7).
      split; [eapply GInvX_ext; [| |exact I1]; [intros o; cbv beta; rewrite len_cons; destruct (beq o c); lia | rewrite len_cons; lia]|].
      split; [rewrite I2; subst g2; cbn; exact Hcs'|]. split; [rewrite I3; subst g2; cbn; exact Ht'|].
      split; [rewrite I4; subst g2; cbn; exact Hl'|]. split; [rewrite I5; subst g2; cbn; exact Hn'|]. split.
      * rewrite I6, <- app_assoc. cbn [app filter_map]. unfold owner at 2. rewrite Hf. cbn [option_map]. f_equal. f_equal.
        apply filter_map_ext_in. intros id' Hin. rewrite Ho2. destruct (sid_eqb id' id) eqn:Ei; [|reflexivity].
        apply sid_eqb_eq in Ei. subst id'. contradiction.
      * intros id'. rewrite I7, Ho2. cbn [sid_mem]. destruct (sid_eqb id' id); cbn [orb]; [destruct (sid_mem id' ids); reflexivity | reflexivity].
    + assert (Hf : pel_find id (g_by_id g) = None /\ g' = g).
      { unfold pel_remove_entry in E. destruct (pel_find id (g_by_id g)); [discriminate|]. inversion E; auto. }
      destruct Hf as [Hf ->].
      assert (Hnone : owner (g_by_id g) id = None) by (unfold owner; rewrite Hf; reflexivity).
      pose proof (add_entry_inv g L _ _ id c now 1 Hg Hnone (Hle id (or_introl eq_refl)) Hc) as Hg2. fold p in Hg2.
      set (g2 := pel_add_entry g p) in *.
      assert (Ho2 : forall id', owner (g_by_id g2) id' = if sid_eqb id' id then Some c else owner (g_by_id g) id').
      { intros id'. subst g2. unfold pel_add_entry, set_pel. cbn [g_by_id]. rewrite owner_insert. reflexivity. }
      assert (Hg2' : GInvX g2 L (fun o => (if beq o c then k + 1 else 0) - cnt o prev) (k + 1 - len prev)).
      { eapply GInvX_ext; [| |exact Hg2]; [intros o; cbv beta; destruct (beq o c); lia | lia]. }
      assert (Hc2 : alookup c (g_consumers g2) <> None) by (subst g2; cbn; exact Hc).
      specialize (IH g2 prev L (k + 1) Hg2' Hnd' (fun i Hi => Hle i (or_intror Hi)) Hc2). cbn zeta in IH.
      destruct IH as (I1 & I2 & I3 & I4 & I5 & I6 & I7).
      split; [eapply GInvX_ext; [| |exact I1]; [intros o; cbv beta; rewrite len_cons; destruct (beq o c); lia | rewrite len_cons; lia]|].
      split; [rewrite I2; reflexivity|]. split; [rewrite I3; reflexivity|]. split; [rewrite I4; reflexivity|].
      split; [rewrite I5; reflexivity|]. split.
      * rewrite I6. cbn [filter_map]. rewrite Hnone. f_equal.
        apply filter_map_ext_in. intros id' Hin. rewrite Ho2. destruct (sid_eqb id' id) eqn:Ei; [|reflexivity].
        apply sid_eqb_eq in Ei. subst id'. contradiction.
      * intros id'. rewrite I7, Ho2. cbn [sid_mem]. destruct (sid_eqb id' id); cbn [orb]; [destruct (sid_mem id' ids); reflexivity | reflexivity].
Qed.

(** the deferred decrements of the previous owners' counters *)
Lemma sat_sub_sat m k : 0 <= k -> sat_sub (sat_sub m 1) k = sat_sub m (k + 1).
Proof.
  intros Hk. unfold sat_sub. destruct (Z.ltb_spec m 1); destruct (Z.ltb_spec m (k + 1)); try lia.
  - destruct (Z.ltb_spec 0 k); lia.
  - destruct (Z.ltb_spec (m - 1) k); lia.
  - destruct (Z.ltb_spec (m - 1) k); lia.
Qed.
Lemma sat_sub_exact m k : k <= m -> sat_sub m k = m - k.
Proof. intros H. unfold sat_sub. destruct (Z.ltb_spec m k); lia. Qed.
Lemma alookup_dec_owners prev : forall cs o, (forall o m, alookup o cs = Some m -> 0 <= m) ->
  alookup o (dec_owners prev cs) = option_map (fun m => sat_sub m (cnt o prev)) (alookup o cs).
Proof.
  unfold dec_owners. induction prev as [|x prev IH]; intros cs o Hnn; cbn [fold_left].
  - rewrite cnt_nil. destruct (alookup o cs) as [m|] eqn:E; [|reflexivity]. cbn [option_map].
    specialize (Hnn _ _ E). unfold sat_sub. destruct (Z.ltb_spec m 0); [lia|]. f_equal. lia.
  - rewrite IH.
    + rewrite alookup_upd_count, cnt_cons. destruct (beq o x) eqn:E.
      * apply beq_eq in E. subst x. destruct (alookup o cs) as [m|]; [|reflexivity]. cbn [option_map].
        rewrite (sat_sub_sat m _ (cnt_nonneg o prev)). f_equal. f_equal. lia.
      * destruct (alookup o cs); [|reflexivity]. cbn [option_map]. f_equal.
    + intros o' m. rewrite alookup_upd_count. destruct (beq o' x); [|apply Hnn].
      destruct (alookup x cs) as [m0|]; [|discriminate]. cbn [option_map]. intros H; inversion H.
      unfold sat_sub. destruct (Z.ltb_spec m0 1); lia.
Qed.
Lemma keys_dec_owners prev : forall cs, map fst (dec_owners prev cs) = map fst cs.
Proof.
  unfold dec_owners. induction prev as [|x prev IH]; intros cs; cbn [fold_left]; [reflexivity|].
  rewrite IH, keys_upd_count. reflexivity.
Qed.
Lemma len_dec_owners prev cs : len (dec_owners prev cs) = len cs.
Proof. rewrite <- (len_map_fst (dec_owners prev cs)), keys_dec_owners, len_map_fst. reflexivity. Qed.

(** an owner is recorded at most as often as it has pending entries *)
Lemma cnt_prev_bound byid bc o ids : PInv byid bc -> NoDup ids ->
  cnt o (filter_map (owner byid) ids) <= len (bcg o bc).
Proof.
  intros Hp Hnd.
  assert (Heq : cnt o (filter_map (owner byid) ids)
                = len (filter (fun id => match owner byid id with Some o' => beq o o' | None => false end) ids)).
  { clear Hnd. induction ids as [|id ids IH]; [reflexivity|]. cbn [filter_map filter].
    destruct (owner byid id) as [o'|]; [|exact IH]. rewrite cnt_cons, IH. destruct (beq o o'); rewrite ?len_cons; lia. }
  rewrite Heq. unfold len. apply inj_le. apply NoDup_incl_length.
  - apply NoDup_filter. exact Hnd.
  - intros id Hin. apply filter_In in Hin as [_ Hin]. apply (pi_owner _ _ Hp).
    destruct (owner byid id) as [o'|]; [|discriminate]. apply beq_eq in Hin. subst. reflexivity.
Qed.

(** add_pending keeps the agreement of the four representations for ANY list of distinct
    IDs - fresh or still pending for whatever consumer - and makes the reader the owner of
    every one of them; [L] is any bound of the pending and the added IDs *)
Theorem add_pending_invX now g c ids L : GInvX g L zero_off 0 -> NoDup ids ->
  (forall id, In id ids -> sid_le id L) ->
  GInvX (g_add_pending now g c ids) L zero_off 0 /\
  g_last (g_add_pending now g c ids)
    = (match rev ids with l :: _ => if sid_ltb (g_last g) l then l else g_last g | [] => g_last g end) /\
  (forall id, owner (g_by_id (g_add_pending now g c ids)) id = if sid_mem id ids then Some c else owner (g_by_id g) id) /\
  alookup c (g_consumers (g_add_pending now g c ids)) <> None.
Proof.
  intros Hg Hnd Hle. unfold g_add_pending.
  destruct (create_consumer_inv g L zero_off 0 c Hg eq_refl) as (Hg1 & Hc1 & Hb1 & Hbc1 & Hl1 & _).
  set (g1 := snd (g_create_consumer g c)) in *.
  assert (Hg1' : GInvX g1 L (fun o => (if beq o c then 0 else 0) - cnt o []) (0 - len (@nil bytes))).
  { eapply GInvX_ext; [| |exact Hg1]; [intros o; unfold zero_off; rewrite cnt_nil; destruct (beq o c); lia | reflexivity]. }
  pose proof (add_pending_loop now c ids g1 [] L 0 Hg1' Hnd Hle Hc1) as Hloop. cbn zeta in Hloop.
  destruct (fold_left (add_pending_one now c) ids (g1, [])) as [g2 prev]. cbn [fst snd app] in Hloop.
  destruct Hloop as (H2 & Hcs2 & Ht2 & Hl2 & Hn2 & Hprev & Ho2).
  set (cs' := upd_count c (fun n => n + len ids) (dec_owners prev (g_consumers g2))).
  set (g4 := set_total (set_consumers g2 cs') (g_total (set_consumers g2 cs') + (len ids - len prev))).
  assert (Hnn : forall o m, alookup o (g_consumers g2) = Some m -> 0 <= m).
  { intros o m Hm. rewrite Hcs2 in Hm. pose proof (gi_counts _ _ _ _ Hg1 _ _ Hm) as Hk. unfold zero_off in Hk.
    pose proof (len_nonneg (bcg o (g_by_consumer g1))). lia. }
  assert (Hbound : forall o m, alookup o (g_consumers g2) = Some m -> cnt o prev <= m).
  { intros o m Hm. rewrite Hcs2 in Hm. pose proof (gi_counts _ _ _ _ Hg1 _ _ Hm) as Hk. unfold zero_off in Hk.
    rewrite Hprev. pose proof (cnt_prev_bound _ _ o ids (gi_pel _ _ _ _ Hg1) Hnd). lia. }
  assert (Hc2 : alookup c (g_consumers g2) <> None) by (rewrite Hcs2; exact Hc1).
  assert (Hg4 : GInvX g4 L zero_off 0).
  { destruct H2 as [A1 A2 A3 A4 A5 A6 A7 A8 A9]. subst g4.
    split; cbn [set_total set_consumers g_by_id g_by_consumer g_consumers g_total g_ncons g_min g_max]; try assumption.
    - subst cs'. rewrite keys_upd_count, keys_dec_owners. assumption.
    - intros o m'. subst cs'. rewrite alookup_upd_count.
      unfold zero_off. destruct (beq o c) eqn:E; rewrite (alookup_dec_owners _ _ _ Hnn).
      + apply beq_eq in E. subst o. destruct (alookup c (g_consumers g2)) as [m|] eqn:Em; [|contradiction].
        cbn [option_map]. intros Hm; inversion Hm; subst m'. specialize (A4 _ _ Em). cbv beta in A4. rewrite beq_refl in A4.
        rewrite (sat_sub_exact _ _ (Hbound _ _ Em)). lia.
      + destruct (alookup o (g_consumers g2)) as [m|] eqn:Em; [|discriminate]. cbn [option_map].
        intros Hm; inversion Hm; subst m'. specialize (A4 _ _ Em). cbv beta in A4. rewrite E in A4.
        rewrite (sat_sub_exact _ _ (Hbound _ _ Em)). lia.
    - intros o id Ho. specialize (A5 _ _ Ho). subst cs'. rewrite alookup_upd_count.
      destruct (beq o c); rewrite (alookup_dec_owners _ _ _ Hnn).
      + destruct (alookup c (g_consumers g2)); [discriminate|contradiction].
      + destruct (alookup o (g_consumers g2)); [discriminate|contradiction].
    - lia.
    - subst cs'. rewrite len_upd_count, len_dec_owners. assumption. }
  assert (Hl4 : g_last g4 = g_last g) by (subst g4; cbn; rewrite Hl2; exact Hl1).
  assert (Ho4 : forall id, owner (g_by_id g4) id = if sid_mem id ids then Some c else owner (g_by_id g) id).
  { intros id. subst g4. cbn [set_total set_consumers g_by_id]. rewrite Ho2, Hb1. reflexivity. }
  assert (Hc4 : alookup c (g_consumers g4) <> None).
  { subst g4 cs'. cbn [set_total set_consumers g_consumers]. rewrite alookup_upd_count, beq_refl, (alookup_dec_owners _ _ _ Hnn).
    destruct (alookup c (g_consumers g2)); [discriminate|contradiction]. }
  fold cs'. fold g4. destruct (rev ids) as [|l r].
  - split; [exact Hg4|]. split; [exact Hl4|]. split; [exact Ho4|exact Hc4].
  - rewrite Hl4. destruct (sid_ltb (g_last g) l).
    + split; [apply GInvX_set_last; exact Hg4|]. split; [reflexivity|]. split; [exact Ho4|exact Hc4].
    + split; [exact Hg4|]. split; [exact Hl4|]. split; [exact Ho4|exact Hc4].
Qed.

(** ---- XACK ---- *)
Lemma remove_entry_inv g L dt id e g' : GInvX g L zero_off dt ->
  pel_remove_entry g id = (Some e, g') ->
  GInvX (set_consumers g' (upd_count (p_consumer e) (fun k => sat_sub k 1) (g_consumers g'))) L zero_off (dt - 1) /\
  pel_find id (g_by_id g) = Some e /\ g_by_id g' = pel_remove id (g_by_id g) /\ g_last g' = g_last g /\ g_total g' = g_total g.
Proof.
  intros Hg. unfold pel_remove_entry. destruct (pel_find id (g_by_id g)) as [e0|] eqn:Ef; [|discriminate].
  intros H; inversion H; subst e0 g'; clear H. split; [|auto].
  destruct Hg as [H1 H2 H3 H4 H5 H6 H7 H8 H9]. unfold set_pel.
  split; cbn [set_consumers g_by_id g_by_consumer g_consumers g_total g_ncons g_min g_max]; try reflexivity.
  - apply PInv_remove; assumption.
  - apply Forall_pel_remove; assumption.
  - rewrite keys_upd_count. assumption.
  - intros c n. rewrite alookup_upd_count, bcg_drop. destruct (beq c (p_consumer e)) eqn:E.
    + apply beq_eq in E. subst c. destruct (alookup (p_consumer e) (g_consumers g)) as [m|] eqn:Em; [|discriminate].
      cbn [option_map]. intros Hn; inversion Hn; subst n. specialize (H4 _ _ Em). unfold zero_off in *.
      assert (Hin : In id (bcg (p_consumer e) (g_by_consumer g))).
      { apply (pi_owner _ _ H1). unfold owner. rewrite Ef. reflexivity. }
      rewrite (len_drop_id id _ (pi_nodup _ _ H1 _) Hin).
      assert (1 <= len (bcg (p_consumer e) (g_by_consumer g))).
      { destruct (bcg (p_consumer e) (g_by_consumer g)); [destruct Hin|]. rewrite len_cons. pose proof (len_nonneg l). lia. }
      unfold sat_sub. replace (m <? 1) with false by lia. lia.
    + apply H4.
  - intros c id'. rewrite (owner_remove _ _ _ (pi_sorted _ _ H1)), alookup_upd_count.
    destruct (sid_eqb id' id); [discriminate|]. intros Ho. specialize (H5 c id' Ho).
    destruct (beq c (p_consumer e)) eqn:E; [|assumption]. apply beq_eq in E. subst c.
    destruct (alookup (p_consumer e) (g_consumers g)); [discriminate|contradiction].
  - rewrite len_pel_remove, Ef. lia.
  - rewrite len_upd_count. assumption.
Qed.

Lemma ack_one_inv g L n id : GInvX g L zero_off (- n) ->
  GInvX (snd (g_ack_one (n, g) id)) L zero_off (- fst (g_ack_one (n, g) id)) /\
  g_last (snd (g_ack_one (n, g) id)) = g_last g /\ g_total (snd (g_ack_one (n, g) id)) = g_total g /\
  fst (g_ack_one (n, g) id) = n + (match pel_find id (g_by_id g) with Some _ => 1 | None => 0 end) /\
  g_by_id (snd (g_ack_one (n, g) id)) = pel_remove id (g_by_id g).
Proof.
  intros Hg. unfold g_ack_one. destruct (pel_remove_entry g id) as [[e|] g'] eqn:E; cbn [fst snd].
  - destruct (remove_entry_inv g L (- n) id e g' Hg E) as (H1 & H2 & H3 & H4 & H5).
    split; [eapply GInvX_ext; [| |exact H1]; [reflexivity|lia]|].
    cbn [set_consumers g_last g_total g_by_id]. rewrite H2. auto.
  - unfold pel_remove_entry in E. destruct (pel_find id (g_by_id g)) eqn:Ef; [discriminate|].
    inversion E; subst g'. split; [assumption|]. split; [reflexivity|]. split; [reflexivity|]. split; [lia|].
    clear -Ef. induction (g_by_id g) as [|q l IH]; [reflexivity|]. cbn [pel_find pel_remove] in *.
    destruct (sid_eqb id (p_id q)); [discriminate|]. f_equal. auto.
Qed.

Lemma ack_fold_inv ids : forall n g L, GInvX g L zero_off (- n) ->
  GInvX (snd (fold_left g_ack_one ids (n, g))) L zero_off (- fst (fold_left g_ack_one ids (n, g))) /\
  g_last (snd (fold_left g_ack_one ids (n, g))) = g_last g /\
  g_total (snd (fold_left g_ack_one ids (n, g))) = g_total g /\
  n <= fst (fold_left g_ack_one ids (n, g)) /\
  g_by_id (snd (fold_left g_ack_one ids (n, g))) = fold_left (fun l id => pel_remove id l) ids (g_by_id g) /\
  fst (fold_left g_ack_one ids (n, g)) = n + (len (g_by_id g) - len (g_by_id (snd (fold_left g_ack_one ids (n, g))))).
Proof.
  induction ids as [|id ids IH]; intros n g L Hg; cbn [fold_left].
  - cbn [fst snd]. split; [assumption|]. split; [reflexivity|]. split; [reflexivity|]. split; [lia|]. split; [reflexivity|lia].
  - destruct (ack_one_inv g L n id Hg) as (H1 & H2 & H3 & H4 & H5).
    destruct (g_ack_one (n, g) id) as [n1 g1] eqn:E1. cbn [fst snd] in *.
    destruct (IH n1 g1 L H1) as (I1 & I2 & I3 & I4 & I5 & I6).
    split; [assumption|]. split; [congruence|]. split; [congruence|].
    split; [destruct (pel_find id (g_by_id g)); lia|]. split; [rewrite I5, H5; reflexivity|].
    rewrite I6, H4, H5. rewrite len_pel_remove. destruct (pel_find id (g_by_id g)); lia.
Qed.

Theorem acknowledge_invX g ids L : GInvX g L zero_off 0 ->
  GInvX (snd (g_acknowledge g ids)) L zero_off 0 /\ g_last (snd (g_acknowledge g ids)) = g_last g /\
  g_by_id (snd (g_acknowledge g ids)) = fold_left (fun l id => pel_remove id l) ids (g_by_id g) /\
  fst (g_acknowledge g ids) = len (g_by_id g) - len (g_by_id (snd (g_acknowledge g ids))).
Proof.
  intros Hg. unfold g_acknowledge.
  destruct (ack_fold_inv ids 0 g L Hg) as (H1 & H2 & H3 & H4 & H5 & H6).
  destruct (fold_left g_ack_one ids (0, g)) as [n g'] eqn:E. cbn [fst snd] in *.
  destruct (0 <? n) eqn:En; cbn [snd fst].
  - apply Z.ltb_lt in En. cbn [set_total g_last g_by_id]. split; [|split; [assumption|split; [assumption|lia]]].
    destruct H1 as [A1 A2 A3 A4 A5 A6 A7 A8 A9].
    split; cbn [set_total g_by_id g_by_consumer g_consumers g_total g_ncons g_min g_max]; try assumption.
    pose proof (len_nonneg (g_by_id g')). unfold sat_sub. replace (g_total g' <? n) with false by lia. lia.
  - apply Z.ltb_ge in En. assert (Hn0 : n = 0) by lia. split; [|split; [assumption|split; [assumption|lia]]].
    eapply GInvX_ext; [reflexivity| |exact H1]. lia.
Qed.
Theorem acknowledge_inv g ids : GInv g ->
  GInv (snd (g_acknowledge g ids)) /\ g_last (snd (g_acknowledge g ids)) = g_last g /\
  g_by_id (snd (g_acknowledge g ids)) = fold_left (fun l id => pel_remove id l) ids (g_by_id g) /\
  fst (g_acknowledge g ids) = len (g_by_id g) - len (g_by_id (snd (g_acknowledge g ids))).
Proof.
  intros Hg. destruct (GInv_bound g [] Hg) as (L & HL & _).
  destruct (acknowledge_invX g ids L HL) as (H1 & H2). split; [exact (GInv_of_X _ _ H1) | exact H2].
Qed.

(** ---- XCLAIM ---- *)
Lemma claim_one_inv now c min_idle force cl g L id : GInvX g L zero_off 0 ->
  alookup c (g_consumers g) <> None ->
  let r := g_claim_one now c min_idle force (cl, g) id in
  GInvX (snd r) L zero_off 0 /\ alookup c (g_consumers (snd r)) <> None /\ g_last (snd r) = g_last g /\
  map p_id (g_by_id (snd r)) = map p_id (g_by_id g).
Proof.
  intros Hg Hc. cbn zeta. unfold g_claim_one. destruct (pel_find id (g_by_id g)) as [e|] eqn:Ef; [|cbn [snd]; auto].
  destruct (negb force && (Z.max 0 (now - p_time e) <? min_idle)); [cbn [snd]; auto|]. cbn [snd].
  destruct (pel_find_In _ _ _ Ef) as [Hin Hid]. subst id.
  destruct Hg as [H1 H2 H3 H4 H5 H6 H7 H8 H9]. unfold pel_transfer.
  cbn [set_consumers g_by_id g_by_consumer g_consumers g_total g_ncons g_min g_max g_last].
  set (e' := {| p_id := p_id e; p_consumer := c; p_time := now; p_count := p_count e + 1 |}).
  assert (Hold : alookup (p_consumer e) (g_consumers g) <> None).
  { apply (H5 _ (p_id e)). unfold owner. rewrite Ef. reflexivity. }
  assert (Hids : map p_id (pel_insert e' (g_by_id g)) = map p_id (g_by_id g)).
  { apply (ids_insert_present e' _ e (pi_sorted _ _ H1)). exact Ef. }
  split; [|split; [|split; [reflexivity|exact Hids]]].
  - split; cbn [g_by_id g_by_consumer g_consumers g_total g_ncons g_min g_max].
    + apply (PInv_transfer _ _ e e' H1 Ef eq_refl).
    + apply Forall_pel_insert; [assumption|]. cbn [e' p_id]. rewrite Forall_forall in H2. apply (H2 e Hin).
    + rewrite !keys_upd_count. assumption.
    + intros c' n. rewrite !alookup_upd_count, bcg_push, !bcg_drop. unfold zero_off in *.
      assert (Hin' : In (p_id e) (bcg (p_consumer e) (g_by_consumer g))).
      { apply (pi_owner _ _ H1). unfold owner. rewrite Ef. reflexivity. }
      pose proof (len_drop_id (p_id e) _ (pi_nodup _ _ H1 _) Hin') as Hld.
      assert (Hge : 1 <= len (bcg (p_consumer e) (g_by_consumer g))).
      { destruct (bcg (p_consumer e) (g_by_consumer g)); [destruct Hin'|]. rewrite len_cons. pose proof (len_nonneg l). lia. }
      destruct (alookup (p_consumer e) (g_consumers g)) as [mo|] eqn:Emo; [|contradiction].
      pose proof (H4 _ _ Emo) as Hmo.
      destruct (beq c' c) eqn:E1.
      * apply beq_eq in E1. subst c'. rewrite len_app. change (len [p_id e]) with 1.
        destruct (beq c (p_consumer e)) eqn:E2.
        -- cbn [option_map]. intros Hn; inversion Hn; subst n.
           rewrite Hld. unfold sat_sub. replace (mo <? 1) with false by lia. lia.
        -- destruct (alookup c (g_consumers g)) as [mc|] eqn:Emc; [|contradiction]. cbn [option_map].
           intros Hn; inversion Hn; subst n. pose proof (H4 _ _ Emc). lia.
      * destruct (beq c' (p_consumer e)) eqn:E2.
        -- cbn [option_map]. intros Hn; inversion Hn; subst n.
           rewrite Hld. unfold sat_sub. replace (mo <? 1) with false by lia. lia.
        -- apply H4.
    + intros c' id'. rewrite owner_insert, !alookup_upd_count. cbn [e' p_id p_consumer].
      destruct (sid_eqb id' (p_id e)).
      * intros Heq; inversion Heq; subst c'. rewrite beq_refl.
        destruct (beq c (p_consumer e)) eqn:E2.
        -- apply beq_eq in E2. subst c. destruct (alookup (p_consumer e) (g_consumers g)); [discriminate|contradiction].
        -- destruct (alookup c (g_consumers g)); [discriminate|contradiction].
      * intros Ho. specialize (H5 c' id' Ho). destruct (beq c' c) eqn:E1.
        -- apply beq_eq in E1. subst c'. destruct (beq c (p_consumer e)).
           ++ destruct (alookup (p_consumer e) (g_consumers g)); [discriminate|contradiction].
           ++ destruct (alookup c (g_consumers g)); [discriminate|contradiction].
        -- destruct (beq c' (p_consumer e)) eqn:E2; [|assumption]. apply beq_eq in E2. subst c'.
           destruct (alookup (p_consumer e) (g_consumers g)); [discriminate|contradiction].
    + rewrite (len_pel_insert _ _ (pi_sorted _ _ H1)). cbn [e' p_id]. rewrite Ef. lia.
    + rewrite !len_upd_count. assumption.
    + rewrite H8, !pel_min_ids, Hids. reflexivity.
    + rewrite H9, !pel_max_ids, Hids. reflexivity.
  - rewrite !alookup_upd_count, beq_refl. destruct (beq c (p_consumer e)) eqn:E2.
    + apply beq_eq in E2. subst c. destruct (alookup (p_consumer e) (g_consumers g)); [discriminate|contradiction].
    + destruct (alookup c (g_consumers g)); [discriminate|contradiction].
Qed.

Lemma claim_fold_inv now c min_idle force ids : forall cl g L, GInvX g L zero_off 0 ->
  alookup c (g_consumers g) <> None ->
  let r := fold_left (g_claim_one now c min_idle force) ids (cl, g) in
  GInvX (snd r) L zero_off 0 /\ g_last (snd r) = g_last g /\ map p_id (g_by_id (snd r)) = map p_id (g_by_id g).
Proof.
  induction ids as [|id ids IH]; intros cl g L Hg Hc; cbn [fold_left]; cbn zeta.
  - cbn [snd]. auto.
  - destruct (claim_one_inv now c min_idle force cl g L id Hg Hc) as (H1 & H2 & H3 & H4). cbn zeta in *.
    destruct (g_claim_one now c min_idle force (cl, g) id) as [cl1 g1]. cbn [snd] in *.
    destruct (IH cl1 g1 L H1 H2) as (I1 & I2 & I3). cbn zeta in *.
    split; [assumption|]. split; congruence.
Qed.

Theorem claim_invX now g c min_idle ids force L : GInvX g L zero_off 0 ->
  GInvX (snd (g_claim now g c min_idle ids force)) L zero_off 0 /\
  g_last (snd (g_claim now g c min_idle ids force)) = g_last g /\
  map p_id (g_by_id (snd (g_claim now g c min_idle ids force))) = map p_id (g_by_id g).
Proof.
  intros Hg. unfold g_claim.
  destruct (create_consumer_inv g L zero_off 0 c Hg eq_refl) as (Hg1 & Hc1 & Hb1 & _ & Hl1 & _).
  destruct (claim_fold_inv now c min_idle force ids [] _ _ Hg1 Hc1) as (H1 & H2 & H3). cbn zeta in *.
  split; [exact H1|split; [congruence|congruence]].
Qed.
Theorem claim_inv now g c min_idle ids force : GInv g ->
  GInv (snd (g_claim now g c min_idle ids force)) /\
  g_last (snd (g_claim now g c min_idle ids force)) = g_last g /\
  map p_id (g_by_id (snd (g_claim now g c min_idle ids force))) = map p_id (g_by_id g).
Proof.
  intros Hg. destruct (GInv_bound g [] Hg) as (L & HL & _).
  destruct (claim_invX now g c min_idle ids force L HL) as (H1 & H2). split; [exact (GInv_of_X _ _ H1) | exact H2].
Qed.

(** ---- XGROUP DELCONSUMER ---- *)
Lemma owner_fold_remove ids : forall l, psorted l ->
  forall id, owner (fold_left (fun l id => pel_remove id l) ids l) id = if sid_mem id ids then None else owner l id.
Proof.
  induction ids as [|i ids IH]; intros l Hs id; cbn [fold_left sid_mem]; [reflexivity|].
  rewrite (IH _ (psorted_remove i l Hs)), (owner_remove _ _ _ Hs).
  destruct (sid_eqb id i); cbn [orb]; [destruct (sid_mem id ids); reflexivity|reflexivity].
Qed.
Lemma psorted_fold_remove ids : forall l, psorted l -> psorted (fold_left (fun l id => pel_remove id l) ids l).
Proof. induction ids as [|i ids IH]; intros l Hs; cbn [fold_left]; [assumption|]. apply IH. apply psorted_remove; assumption. Qed.
Lemma Forall_fold_remove (P : pending -> Prop) ids : forall l, Forall P l -> Forall P (fold_left (fun l id => pel_remove id l) ids l).
Proof. induction ids as [|i ids IH]; intros l H; cbn [fold_left]; [assumption|]. apply IH. apply Forall_pel_remove; assumption. Qed.
Lemma sid_mem_In id ids : sid_mem id ids = true <-> In id ids.
Proof.
  induction ids as [|i ids IH]; cbn [sid_mem In]; [split; [discriminate|tauto]|].
  rewrite Bool.orb_true_iff, IH, sid_eqb_eq. split; intros [H|H]; auto.
Qed.
Lemma len_fold_remove ids : forall l, psorted l -> NoDup ids -> (forall id, In id ids -> pel_find id l <> None) ->
  len (fold_left (fun l id => pel_remove id l) ids l) = len l - len ids.
Proof.
  induction ids as [|i ids IH]; intros l Hs Hnd Hin; cbn [fold_left]; [rewrite len_nil; lia|].
  inversion Hnd as [|? ? Hni Hnd']; subst. rewrite IH; [| apply psorted_remove; assumption|assumption|].
  - rewrite len_pel_remove, len_cons. specialize (Hin i (or_introl eq_refl)). destruct (pel_find i l); [lia|contradiction].
  - intros id Hid. rewrite (pel_find_remove _ _ _ Hs). destruct (sid_eqb id i) eqn:E.
    + apply sid_eqb_eq in E. subst. contradiction.
    + apply Hin. right; assumption.
Qed.

Theorem delete_consumer_invX g c L : GInvX g L zero_off 0 ->
  GInvX (snd (g_delete_consumer g c)) L zero_off 0 /\ g_last (snd (g_delete_consumer g c)) = g_last g /\
  alookup c (g_consumers (snd (g_delete_consumer g c))) = None /\
  fst (g_delete_consumer g c) = len (bcg c (g_by_consumer g)) /\
  (forall id, owner (g_by_id (snd (g_delete_consumer g c))) id =
              match owner (g_by_id g) id with Some c' => if beq c' c then None else Some c' | None => None end).
Proof.
  intros Hg. unfold g_delete_consumer. destruct (amem c (g_consumers g)) eqn:Em; cbn [fst snd].
  2:{ apply amem_alookup in Em. split; [assumption|]. split; [reflexivity|]. split; [assumption|].
      split; [rewrite (no_owner_no_ids _ _ _ _ c Hg Em); reflexivity|].
      intros id. destruct (owner (g_by_id g) id) as [c'|] eqn:Eo; [|reflexivity].
      destruct (beq c' c) eqn:E; [|reflexivity]. apply beq_eq in E. subst c'.
      apply (gi_owners _ _ _ _ Hg) in Eo. contradiction. }
  assert (Hc : alookup c (g_consumers g) <> None) by (unfold amem in Em; destruct (alookup c (g_consumers g)); congruence).
  destruct Hg as [H1 H2 H3 H4 H5 H6 H7 H8 H9]. unfold zero_off in *.
  destruct (alookup c (g_by_consumer g)) as [ids|] eqn:Eids; cbn [fst snd].
  - assert (Hbcg : bcg c (g_by_consumer g) = ids) by (unfold bcg; rewrite Eids; reflexivity).
    pose proof (pi_nodup _ _ H1 c) as Hnd. rewrite Hbcg in Hnd.
    assert (Hown : forall id, In id ids <-> owner (g_by_id g) id = Some c).
    { intros id. rewrite <- Hbcg. apply (pi_owner _ _ H1). }
    set (byid' := fold_left (fun l id => pel_remove id l) ids (g_by_id g)).
    assert (Ho' : forall id, owner byid' id = match owner (g_by_id g) id with Some c' => if beq c' c then None else Some c' | None => None end).
    { intros id. subst byid'. rewrite (owner_fold_remove ids _ (pi_sorted _ _ H1)).
      destruct (sid_mem id ids) eqn:Es.
      - apply sid_mem_In in Es. apply Hown in Es. rewrite Es, beq_refl. reflexivity.
      - destruct (owner (g_by_id g) id) as [c'|] eqn:Eo; [|reflexivity]. destruct (beq c' c) eqn:E; [|reflexivity].
        apply beq_eq in E. subst c'. apply Hown in Eo. apply sid_mem_In in Eo. congruence. }
    assert (Hlen : len byid' = len (g_by_id g) - len ids).
    { subst byid'. apply len_fold_remove; [apply (pi_sorted _ _ H1)|assumption|].
      intros id Hid. apply Hown in Hid. unfold owner in Hid. destruct (pel_find id (g_by_id g)); [discriminate|discriminate]. }
    unfold set_pel. cbn [g_last g_by_id g_by_consumer g_consumers g_total g_ncons g_min g_max].
    split; [|split; [reflexivity|split; [rewrite alookup_aremove, beq_refl; reflexivity|split; [congruence|exact Ho']]]].
    split; cbn [g_last g_by_id g_by_consumer g_consumers g_total g_ncons g_min g_max]; try reflexivity.
    + split.
      * apply psorted_fold_remove. apply (pi_sorted _ _ H1).
      * intros c'. rewrite bcg_aremove. destruct (beq c' c); [constructor|apply (pi_nodup _ _ H1)].
      * intros c' id. rewrite bcg_aremove, Ho'. destruct (beq c' c) eqn:E.
        -- apply beq_eq in E. subst c'. split; [intros []|]. destruct (owner (g_by_id g) id) as [c'|]; [|discriminate].
           destruct (beq c' c) eqn:E2; [discriminate|]. intros Heq; inversion Heq; subst. rewrite beq_refl in E2. discriminate.
        -- rewrite (pi_owner _ _ H1). destruct (owner (g_by_id g) id) as [c''|] eqn:Eo; [|split; discriminate].
           destruct (beq c'' c) eqn:E2.
           ++ apply beq_eq in E2. subst c''. split; [|discriminate]. intros Heq; inversion Heq; subst. rewrite beq_refl in E. discriminate.
           ++ reflexivity.
      * apply bc_nonempty_aremove. apply (pi_nonempty _ _ H1).
    + apply Forall_fold_remove. assumption.
    + apply NoDup_keys_aremove. assumption.
    + intros c' n. rewrite alookup_aremove, bcg_aremove. destruct (beq c' c); [discriminate|apply H4].
    + intros c' id. rewrite Ho', alookup_aremove. destruct (owner (g_by_id g) id) as [c''|] eqn:Eo; [|discriminate].
      destruct (beq c'' c) eqn:E2; [discriminate|]. intros Heq; inversion Heq; subst c''. rewrite E2. eapply H5; eassumption.
    + pose proof (len_nonneg byid'). unfold sat_sub. replace (g_total g <? len ids) with false by lia. lia.
    + rewrite (len_aremove_nodup c _ H3 Hc). pose proof (len_nonneg (aremove c (g_consumers g))).
      rewrite (len_aremove_nodup c _ H3 Hc) in H. unfold sat_sub. replace (g_ncons g <? 1) with false by lia. lia.
  - assert (Hbcg : bcg c (g_by_consumer g) = []) by (unfold bcg; rewrite Eids; reflexivity).
    cbn [g_last g_by_id g_by_consumer g_consumers g_total g_ncons g_min g_max].
    split; [|split; [reflexivity|split; [rewrite alookup_aremove, beq_refl; reflexivity|split; [rewrite Hbcg; reflexivity|]]]].
    + split; cbn [g_last g_by_id g_by_consumer g_consumers g_total g_ncons g_min g_max]; try assumption.
      * apply NoDup_keys_aremove. assumption.
      * intros c' n. rewrite alookup_aremove. destruct (beq c' c); [discriminate|apply H4].
      * intros c' id Ho. rewrite alookup_aremove. destruct (beq c' c) eqn:E; [|eapply H5; eassumption].
        apply beq_eq in E. subst c'. apply (pi_owner _ _ H1) in Ho. rewrite Hbcg in Ho. destruct Ho.
      * pose proof (len_nonneg (g_by_id g)). unfold sat_sub. replace (g_total g <? 0) with false by lia. lia.
      * rewrite (len_aremove_nodup c _ H3 Hc). pose proof (len_nonneg (aremove c (g_consumers g))).
        rewrite (len_aremove_nodup c _ H3 Hc) in H. unfold sat_sub. replace (g_ncons g <? 1) with false by lia. lia.
    + intros id. destruct (owner (g_by_id g) id) as [c'|] eqn:Eo; [|reflexivity]. destruct (beq c' c) eqn:E; [|reflexivity].
      apply beq_eq in E. subst c'. apply (pi_owner _ _ H1) in Eo. rewrite Hbcg in Eo. destruct Eo.
Qed.

Theorem delete_consumer_inv g c : GInv g ->
  GInv (snd (g_delete_consumer g c)) /\ g_last (snd (g_delete_consumer g c)) = g_last g /\
  alookup c (g_consumers (snd (g_delete_consumer g c))) = None /\
  fst (g_delete_consumer g c) = len (bcg c (g_by_consumer g)) /\
  (forall id, owner (g_by_id (snd (g_delete_consumer g c))) id =
              match owner (g_by_id g) id with Some c' => if beq c' c then None else Some c' | None => None end).
Proof.
  intros Hg. destruct (GInv_bound g [] Hg) as (L & HL & _).
  destruct (delete_consumer_invX g c L HL) as (H1 & H2). split; [exact (GInv_of_X _ _ H1) | exact H2].
Qed.

(** ---- XGROUP SETID: the agreement does not depend on the cursor at all ---- *)
Theorem set_last_inv g i : GInv g -> GInv (set_last g i).
Proof. intros [H1 H3 H4 H5 H6 H7 H8 H9]. split; cbn [set_last g_by_id g_by_consumer g_consumers g_total g_ncons g_min g_max]; assumption. Qed.
Theorem set_last_below g i : Forall (fun p => sid_le (p_id p) i) (g_by_id g) -> BelowCursor (set_last g i).
Proof. intros H. exact H. Qed.
Theorem create_consumer_ginv g c : GInv g -> GInv (snd (g_create_consumer g c)).
Proof.
  intros Hg. destruct (GInv_bound g [] Hg) as (L & HL & _).
  destruct (create_consumer_inv g L zero_off 0 c HL eq_refl) as (H1 & _). exact (GInv_of_X _ _ H1).
Qed.
Lemma create_consumer_same g c :
  g_by_id (snd (g_create_consumer g c)) = g_by_id g /\ g_last (snd (g_create_consumer g c)) = g_last g /\
  g_by_consumer (snd (g_create_consumer g c)) = g_by_consumer g /\ g_total (snd (g_create_consumer g c)) = g_total g /\
  g_min (snd (g_create_consumer g c)) = g_min g /\ g_max (snd (g_create_consumer g c)) = g_max g.
Proof. unfold g_create_consumer. destruct (amem c (g_consumers g)); cbn; auto 10. Qed.

(** ---- removal as a filter; XACK counts each pending ID once ---- *)
Lemma pel_remove_filter id l : psorted l ->
  pel_remove id l = filter (fun p => negb (sid_eqb (p_id p) id)) l.
Proof.
  induction l as [|q l IH]; intros Hs; cbn [pel_remove filter]; [reflexivity|].
  apply psorted_inv in Hs as [Hs Hq]. rewrite (sid_eqb_sym id (p_id q)). destruct (sid_eqb (p_id q) id) eqn:E; cbn [negb].
  - apply sid_eqb_eq in E. symmetry. apply filter_all_true. eapply Forall_impl; [|exact Hq].
    intros a Ha. unfold plt in Ha. destruct (sid_eqb (p_id a) id) eqn:E2; [|reflexivity].
    apply sid_eqb_eq in E2. rewrite E, E2 in Ha. exfalso. eapply sid_lt_irrefl; eassumption.
  - f_equal. apply IH. assumption.
Qed.
Lemma psorted_filter f l : psorted l -> psorted (filter f l).
Proof.
  induction l as [|q l IH]; intros Hs; cbn [filter]; [constructor|].
  apply psorted_inv in Hs as [Hs Hq]. destruct (f q); [|exact (IH Hs)].
  constructor; [exact (IH Hs)|]. apply Forall_forall. intros y Hy. apply filter_In in Hy as [Hy _].
  rewrite Forall_forall in Hq. auto.
Qed.
Lemma fold_remove_filter ids : forall l, psorted l ->
  fold_left (fun l id => pel_remove id l) ids l = filter (fun p => negb (sid_mem (p_id p) ids)) l.
Proof.
  induction ids as [|i ids IH]; intros l Hs; cbn [fold_left sid_mem].
  - symmetry. apply filter_all_true. apply Forall_forall. reflexivity.
  - rewrite (pel_remove_filter i l Hs), (IH _ (psorted_filter _ l Hs)), filter_filter'.
    apply filter_ext_in'. intros p _. rewrite Bool.negb_orb. apply andb_comm.
Qed.
Lemma len_filter_split {A} (f : A -> bool) l : len l = len (filter f l) + len (filter (fun x => negb (f x)) l).
Proof.
  induction l as [|x l IH]; [reflexivity|]. cbn [filter]. destruct (f x); cbn [negb]; rewrite !len_cons; lia.
Qed.

(** XACK: the reply is the number of listed IDs that were pending, each counted once,
    exactly those leave the pending set, and acknowledging them again answers 0 *)
Theorem ack_counts_once g ids : GInv g ->
  fst (g_acknowledge g ids) = len (filter (fun p => sid_mem (p_id p) ids) (g_by_id g)) /\
  g_by_id (snd (g_acknowledge g ids)) = filter (fun p => negb (sid_mem (p_id p) ids)) (g_by_id g) /\
  fst (g_acknowledge (snd (g_acknowledge g ids)) ids) = 0.
Proof.
  intros Hg. destruct (acknowledge_inv g ids Hg) as (H1 & H2 & H3 & H4).
  pose proof (pi_sorted _ _ (ga_pel _ Hg)) as Hs.
  rewrite (fold_remove_filter ids _ Hs) in H3. split; [|split; [exact H3|]].
  - rewrite H4, H3. rewrite (len_filter_split (fun p => sid_mem (p_id p) ids) (g_by_id g)). lia.
  - destruct (acknowledge_inv _ ids H1) as (_ & _ & K3 & K4). rewrite K4, K3.
    rewrite (fold_remove_filter ids _ (pi_sorted _ _ (ga_pel _ H1))), H3, filter_filter'.
    assert (Heq : filter (fun x => negb (sid_mem (p_id x) ids) && negb (sid_mem (p_id x) ids)) (g_by_id g)
                  = filter (fun p => negb (sid_mem (p_id p) ids)) (g_by_id g)).
    { apply filter_ext_in'. intros p _. apply andb_diag. }
    rewrite Heq. lia.
Qed.

(** ---- XPENDING: the summary is the pending set ---- *)
Lemma pel_find_of_In l p : psorted l -> In p l -> pel_find (p_id p) l = Some p.
Proof.
  induction l as [|q l IH]; intros Hs Hin; [destruct Hin|]. apply psorted_inv in Hs as [Hs Hq].
  cbn [pel_find]. destruct Hin as [->|Hin]; [rewrite sid_eqb_refl; reflexivity|].
  destruct (sid_eqb (p_id p) (p_id q)) eqn:E; [|auto]. apply sid_eqb_eq in E.
  rewrite Forall_forall in Hq. specialize (Hq p Hin). unfold plt in Hq. rewrite E in Hq.
  exfalso. eapply sid_lt_irrefl; eassumption.
Qed.
Lemma psorted_ids_nodup l : psorted l -> NoDup (map p_id l).
Proof.
  induction l as [|q l IH]; intros Hs; cbn [map]; [constructor|]. apply psorted_inv in Hs as [Hs Hq].
  constructor; [|auto]. intros Hin. apply in_map_iff in Hin as [a [Ha Hin]].
  rewrite Forall_forall in Hq. specialize (Hq a Hin). unfold plt in Hq. rewrite Ha in Hq.
  eapply sid_lt_irrefl; eassumption.
Qed.
Definition owned_by (c : bytes) (l : list pending) : list pending := filter (fun p => beq (p_consumer p) c) l.

Lemma index_agrees_len byid bc c : PInv byid bc -> len (bcg c bc) = len (owned_by c byid).
Proof.
  intros Hp. pose proof (pi_sorted _ _ Hp) as Hs.
  assert (Hperm : Permutation (bcg c bc) (map p_id (owned_by c byid))).
  { apply NoDup_Permutation.
    - apply (pi_nodup _ _ Hp).
    - apply psorted_ids_nodup. apply psorted_filter. assumption.
    - intros id. rewrite (pi_owner _ _ Hp). unfold owner, owned_by. split.
      + destruct (pel_find id byid) as [p|] eqn:Ef; [|discriminate]. cbn [option_map]. intros Heq; inversion Heq.
        apply pel_find_In in Ef as [Hin Hid]. apply in_map_iff. exists p. split; [assumption|].
        apply filter_In. split; [assumption|]. subst c. apply beq_refl.
      + intros Hin. apply in_map_iff in Hin as [p [Hid Hin]]. apply filter_In in Hin as [Hin Hc].
        subst id. rewrite (pel_find_of_In _ _ Hs Hin). cbn. apply beq_eq in Hc. congruence. }
  apply Permutation_length in Hperm. unfold len. rewrite Hperm, map_length. reflexivity.
Qed.

Theorem pending_summary_exact g : GInv g ->
  g_total g = len (g_by_id g) /\ g_min g = pel_min (g_by_id g) /\ g_max g = pel_max (g_by_id g) /\
  g_ncons g = len (g_consumers g) /\
  (forall c n, alookup c (g_consumers g) = Some n -> n = len (owned_by c (g_by_id g))) /\
  (forall p, In p (g_by_id g) -> alookup (p_consumer p) (g_consumers g) <> None) /\
  (forall c, bcg c (g_by_consumer g) <> [] <-> owned_by c (g_by_id g) <> []).
Proof.
  intros Hg. pose proof Hg as [H1 H3 H4 H5 H6 H7 H8 H9].
  split; [lia|]. split; [assumption|]. split; [assumption|]. split; [assumption|]. split; [|split].
  - intros c n Hn. rewrite <- (index_agrees_len _ _ c H1). specialize (H4 c n Hn). lia.
  - intros p Hin. apply (H5 _ (p_id p)). unfold owner. rewrite (pel_find_of_In _ _ (pi_sorted _ _ H1) Hin). reflexivity.
  - intros c. pose proof (index_agrees_len _ _ c H1) as Hl.
    destruct (bcg c (g_by_consumer g)), (owned_by c (g_by_id g)); rewrite ?len_cons, ?len_nil in Hl;
      try (pose proof (len_nonneg l)); try (pose proof (len_nonneg l0)); split; intros; try congruence; try lia.
Qed.

(** ---- XCLAIM moves one pending entry to the claimer ---- *)
Theorem claim_moves now g c min_idle id force e : GInv g ->
  pel_find id (g_by_id g) = Some e ->
  (force = true \/ min_idle <= Z.max 0 (now - p_time e)) ->
  fst (g_claim now g c min_idle [id] force) = [id] /\
  pel_find id (g_by_id (snd (g_claim now g c min_idle [id] force)))
    = Some {| p_id := id; p_consumer := c; p_time := now; p_count := p_count e + 1 |} /\
  (forall id', id' <> id -> pel_find id' (g_by_id (snd (g_claim now g c min_idle [id] force))) = pel_find id' (g_by_id g)).
Proof.
  intros Hg Hf Hok. unfold g_claim. cbn [fold_left].
  destruct (create_consumer_same g c) as (Hb1 & _).
  unfold g_claim_one. rewrite Hb1, Hf.
  assert (negb force && (Z.max 0 (now - p_time e) <? min_idle) = false) as ->.
  { destruct Hok as [->|Hok]; [reflexivity|]. apply andb_false_iff. right. apply Z.ltb_ge. assumption. }
  cbn [fst snd app]. destruct (pel_find_In _ _ _ Hf) as [_ Hid]. subst id.
  unfold pel_transfer. cbn [g_by_id set_consumers]. rewrite Hb1. split; [reflexivity|]. split.
  - rewrite pel_find_insert. cbn [p_id]. rewrite sid_eqb_refl. reflexivity.
  - intros id' Hne. rewrite pel_find_insert. cbn [p_id]. destruct (sid_eqb id' (p_id e)) eqn:E; [|reflexivity].
    apply sid_eqb_eq in E. contradiction.
Qed.
Theorem claim_respects_idle now g c min_idle id e : pel_find id (g_by_id g) = Some e ->
  Z.max 0 (now - p_time e) < min_idle ->
  fst (g_claim now g c min_idle [id] false) = [] /\
  g_by_id (snd (g_claim now g c min_idle [id] false)) = g_by_id g.
Proof.
  intros Hf Hidle. unfold g_claim. cbn [fold_left]. unfold g_claim_one.
  assert (Hb : g_by_id (snd (g_create_consumer g c)) = g_by_id g).
  { unfold g_create_consumer. destruct (amem c (g_consumers g)); reflexivity. }
  rewrite Hb, Hf. cbn [negb andb]. replace (Z.max 0 (now - p_time e) <? min_idle) with true by lia.
  cbn [fst snd]. auto.
Qed.

(** ---- XREADGROUP with ">" ---- *)
Lemma sorted_app_inv (a b : list sentry) : sorted (a ++ b) ->
  sorted a /\ sorted b /\ forall x y, In x a -> In y b -> elt x y.
Proof.
  induction a as [|e a IH]; cbn [app]; intros Hs.
  - split; [constructor|]. split; [assumption|]. intros x y [].
  - apply sorted_cons_inv in Hs as [Hs He]. destruct (IH Hs) as (Ha & Hb & Hab).
    apply Forall_app in He as [He1 He2]. split; [constructor; assumption|]. split; [assumption|].
    intros x y [<-|Hx] Hy; [rewrite Forall_forall in He2; auto|auto].
Qed.
Lemma sorted_firstn n es : sorted es -> sorted (firstn n es).
Proof. intros Hs. rewrite <- (firstn_skipn n es) in Hs. apply sorted_app_inv in Hs. tauto. Qed.
Lemma sorted_take_count count es : sorted es -> sorted (take_count count es).
Proof.
  intros Hs. destruct count as [c|]; [|assumption]. cbn [take_count]. unfold ztake.
  destruct (len es <=? c); [assumption|]. apply sorted_firstn; assumption.
Qed.
Lemma take_count_split {A} count (l : list A) : exists rest, l = take_count count l ++ rest.
Proof.
  destruct count as [c|]; cbn [take_count]; [|exists []; rewrite app_nil_r; reflexivity].
  unfold ztake. destruct (len l <=? c); [exists []; rewrite app_nil_r; reflexivity|].
  exists (skipn (Z.to_nat c) l). unfold zfirstn. symmetry. apply firstn_skipn.
Qed.
Lemma sorted_ids_nodup es : sorted es -> NoDup (map fst es).
Proof.
  induction es as [|e es IH]; intros Hs; cbn [map]; [constructor|]. apply sorted_cons_inv in Hs as [Hs He].
  constructor; [|auto]. intros Hin. apply in_map_iff in Hin as [a [Ha Hin]].
  rewrite Forall_forall in He. specialize (He a Hin). unfold elt in He. rewrite Ha in He.
  eapply sid_lt_irrefl; eassumption.
Qed.
Lemma rev_cons_inv {A} (l : list A) x r : rev l = x :: r -> l = rev r ++ [x].
Proof. intros H. rewrite <- (rev_involutive l), H. reflexivity. Qed.
Lemma sorted_last_max es e r : sorted es -> rev es = e :: r -> forall x, In x es -> sid_le (fst x) (fst e).
Proof.
  intros Hs Hr x Hx. apply rev_cons_inv in Hr. subst es. apply sorted_app_inv in Hs as (_ & _ & Hab).
  apply in_app_or in Hx as [Hx|[<-|[]]]; [left; apply (Hab x e Hx); left; reflexivity|apply sid_le_refl].
Qed.
Lemma sid_mem_map_fst id (es : list sentry) : sid_mem id (map fst es) = true <-> exists e, In e es /\ fst e = id.
Proof.
  rewrite sid_mem_In, in_map_iff. split; intros [e [H1 H2]]; exists e; auto.
Qed.

Lemma rev_map_head {A B} (f : A -> B) l x r : rev l = x :: r -> rev (map f l) = f x :: tl (rev (map f l)).
Proof. intros H. rewrite <- map_rev, H. reflexivity. Qed.

(** a read with ">": returns the first [count] present entries above the cursor, in ID
    order; the cursor moves to the last of them; unless NOACK they become pending under
    the reader - whether they were pending before (XGROUP SETID moved the cursor back) or
    not, and whoever owned them (with NOACK the pending set is untouched) *)
Theorem read_new_inv now s g c count noack : SInv s -> GInv g ->
  let r := st_read_group now s g c sid_max count noack in
  fst r = take_count count (filter (p_gt (g_last g)) (s_entries s)) /\
  GInv (snd r) /\
  sorted (fst r) /\ Forall (fun e => sid_lt (g_last g) (fst e)) (fst r) /\
  (fst r = [] -> snd r = g) /\
  (forall e rest, rev (fst r) = e :: rest -> g_last (snd r) = fst e) /\
  (forall id, owner (g_by_id (snd r)) id =
              if negb noack && sid_mem id (map fst (fst r)) then Some c else owner (g_by_id g) id).
Proof.
  intros Hs Hg. cbn zeta. unfold st_read_group. rewrite sid_eqb_refl. cbn [negb].
  rewrite (range_after_spec _ (g_last g) count (inv_sorted s Hs)).
  remember (take_count count (filter (p_gt (g_last g)) (s_entries s))) as es eqn:Hes.
  assert (Hsorted : sorted es) by (subst es; apply sorted_take_count, sorted_filter, (inv_sorted s Hs)).
  assert (Hgt : Forall (fun e => sid_lt (g_last g) (fst e)) es).
  { destruct (take_count_split count (filter (p_gt (g_last g)) (s_entries s))) as [rest Hsplit]. rewrite <- Hes in Hsplit.
    apply Forall_forall. intros e He.
    assert (Hin : In e (filter (p_gt (g_last g)) (s_entries s))) by (rewrite Hsplit; apply in_or_app; left; assumption).
    apply filter_In in Hin as [_ Hin]. unfold p_gt in Hin. apply sid_ltb_lt. assumption. }
  clear Hes.
  destruct (rev es) as [|el rest] eqn:Erev.
  - apply (f_equal (@rev _)) in Erev. rewrite rev_involutive in Erev. cbn [rev] in Erev. subst es.
    cbn [fst snd map sid_mem]. split; [reflexivity|]. split; [assumption|]. split; [constructor|]. split; [constructor|].
    split; [reflexivity|]. split; [intros e rest H; discriminate|]. intros id. rewrite andb_false_r. reflexivity.
  - destruct es as [|e0 es']; [discriminate|].
    assert (Hel : In el (e0 :: es')) by (apply in_rev; rewrite Erev; left; reflexivity).
    assert (Hlt : sid_lt (g_last g) (fst el)) by (rewrite Forall_forall in Hgt; apply Hgt; assumption).
    destruct noack; cbn [fst snd negb andb].
    + (* NOACK: only the cursor moves *)
      rewrite Erev. assert (sid_ltb (g_last g) (fst el) = true) as -> by (apply sid_ltb_lt; assumption).
      split; [reflexivity|]. split; [apply set_last_inv; assumption|].
      split; [assumption|]. split; [assumption|]. split; [intros Hnil; discriminate|].
      split; [|intros id; reflexivity].
      intros e rest' He. inversion He; subst. reflexivity.
    + assert (Hrev : rev (map fst (e0 :: es')) = fst el :: tl (rev (map fst (e0 :: es')))).
      { apply (rev_map_head fst _ el rest Erev). }
      destruct (GInv_bound g (map fst (e0 :: es')) Hg) as (L & HL & Hids). rewrite Forall_forall in Hids.
      destruct (add_pending_invX now g c (map fst (e0 :: es')) L HL (sorted_ids_nodup _ Hsorted) Hids) as (H1 & H2 & H3 & _).
      rewrite Hrev in H2. assert (Hb : sid_ltb (g_last g) (fst el) = true) by (apply sid_ltb_lt; assumption). rewrite Hb in H2.
      split; [reflexivity|]. split; [exact (GInv_of_X _ _ H1)|]. split; [assumption|]. split; [assumption|].
      split; [intros Hnil; discriminate|]. split; [|exact H3].
      intros e rest' He. rewrite He in Erev. inversion Erev; subst. exact H2.
Qed.

(** ... and while SETID does not move the cursor back, no pending ID is above the cursor *)
Lemma read_new_below now s g c count noack : SInv s -> GInv g -> BelowCursor g ->
  BelowCursor (snd (st_read_group now s g c sid_max count noack)).
Proof.
  intros Hs Hg Hb. destruct (read_new_inv now s g c count noack Hs Hg) as (_ & H2 & H3 & H4 & H5 & H6 & H7). cbn zeta in *.
  destruct (st_read_group now s g c sid_max count noack) as [es g1]. cbn [fst snd] in *.
  destruct (rev es) as [|el rest] eqn:Erev.
  - apply (f_equal (@rev _)) in Erev. rewrite rev_involutive in Erev. cbn [rev] in Erev. rewrite (H5 Erev). exact Hb.
  - pose proof (H6 _ _ eq_refl) as Hl1.
    assert (Hel : In el es) by (apply in_rev; rewrite Erev; left; reflexivity).
    assert (Hlt : sid_lt (g_last g) (fst el)) by (rewrite Forall_forall in H4; apply H4; assumption).
    unfold BelowCursor. rewrite Hl1. apply Forall_forall. intros p Hp.
    pose proof (pel_find_of_In _ _ (pi_sorted _ _ (ga_pel _ H2)) Hp) as Hf.
    assert (Ho : owner (g_by_id g1) (p_id p) = Some (p_consumer p)) by (unfold owner; rewrite Hf; reflexivity).
    rewrite H7 in Ho. destruct (negb noack && sid_mem (p_id p) (map fst es)) eqn:Em.
    + apply andb_prop in Em as [_ Em]. apply sid_mem_map_fst in Em as [e [He <-]].
      apply (sorted_last_max es el rest H3 Erev). assumption.
    + unfold owner in Ho. destruct (pel_find (p_id p) (g_by_id g)) as [q|] eqn:Eq; [|discriminate].
      apply pel_find_In in Eq as [Hq Hid]. unfold BelowCursor in Hb. rewrite Forall_forall in Hb. specialize (Hb q Hq).
      cbv beta in Hb. rewrite Hid in Hb. left. eapply sid_le_lt_trans; eassumption.
Qed.

(** the batch is a prefix: every present entry between the old and the new cursor is in it *)
Lemma read_new_complete now s g c count noack : SInv s -> GInv g ->
  let r := st_read_group now s g c sid_max count noack in
  forall e, In e (s_entries s) -> sid_lt (g_last g) (fst e) -> sid_le (fst e) (g_last (snd r)) -> In e (fst r).
Proof.
  intros Hs Hg. cbn zeta. destruct (read_new_inv now s g c count noack Hs Hg) as (H1 & H2 & H3 & H4 & H5 & H6 & _). cbn zeta in *.
  intros e He Hlt Hle.
  destruct (rev (fst (st_read_group now s g c sid_max count noack))) as [|el rest] eqn:Erev.
  - apply (f_equal (@rev _)) in Erev. rewrite rev_involutive in Erev. cbn in Erev.
    rewrite (H5 Erev) in Hle. exfalso. eapply sid_lt_not_le; eassumption.
  - rewrite (H6 _ _ eq_refl) in Hle.
    destruct (take_count_split count (filter (p_gt (g_last g)) (s_entries s))) as [rest' Hsplit].
    rewrite <- H1 in Hsplit.
    assert (Hin : In e (filter (p_gt (g_last g)) (s_entries s))).
    { apply filter_In. split; [assumption|]. unfold p_gt. apply sid_ltb_lt. assumption. }
    rewrite Hsplit in Hin. apply in_app_or in Hin as [Hin|Hin]; [assumption|exfalso].
    assert (Hsf : sorted (filter (p_gt (g_last g)) (s_entries s))) by (apply sorted_filter, (inv_sorted s Hs)).
    rewrite Hsplit in Hsf. apply sorted_app_inv in Hsf as (_ & _ & Hab).
    assert (Hel : In el (fst (st_read_group now s g c sid_max count noack))) by (apply in_rev; rewrite Erev; left; reflexivity).
    specialize (Hab el e Hel Hin). unfold elt in Hab. eapply sid_lt_not_le; eassumption.
Qed.

(** after a re-delivery (the cursor was moved back by XGROUP SETID, another consumer reads
    with ">"): every returned entry has exactly one owner, the reader - it is in the reader's
    index and in nobody else's *)
Theorem read_new_single_owner now s g c count : SInv s -> GInv g ->
  let r := st_read_group now s g c sid_max count false in
  forall e, In e (fst r) ->
    owner (g_by_id (snd r)) (fst e) = Some c /\
    forall c', In (fst e) (bcg c' (g_by_consumer (snd r))) <-> c' = c.
Proof.
  intros Hs Hg. cbn zeta. destruct (read_new_inv now s g c count false Hs Hg) as (_ & H2 & _ & _ & _ & _ & H7). cbn zeta in *.
  intros e He.
  assert (Ho : owner (g_by_id (snd (st_read_group now s g c sid_max count false))) (fst e) = Some c).
  { rewrite H7. cbn [negb andb]. assert (sid_mem (fst e) (map fst (fst (st_read_group now s g c sid_max count false))) = true) as ->; [|reflexivity].
    apply sid_mem_map_fst. exists e. auto. }
  split; [exact Ho|]. intros c'. rewrite (pi_owner _ _ (ga_pel _ H2)), Ho. split; [intros H; inversion H; reflexivity | intros ->; reflexivity].
Qed.

(** ---- XREADGROUP with an explicit ID (da451f0): the reader's own pending entries ---- *)
Definition keeps (f : pending -> pending) : Prop :=
  forall q, p_id (f q) = p_id q /\ p_consumer (f q) = p_consumer q.
Lemma pel_find_map f l id : keeps f -> pel_find id (map f l) = option_map f (pel_find id l).
Proof.
  intros Hf. induction l as [|q l IH]; cbn [map pel_find]; [reflexivity|].
  rewrite (proj1 (Hf q)). destruct (sid_eqb id (p_id q)); [reflexivity | exact IH].
Qed.
Lemma owner_map f l id : keeps f -> owner (map f l) id = owner l id.
Proof.
  intros Hf. unfold owner. rewrite (pel_find_map f l id Hf). destruct (pel_find id l) as [q|]; [|reflexivity].
  cbn [option_map]. rewrite (proj2 (Hf q)). reflexivity.
Qed.
Lemma ids_map f l : keeps f -> map p_id (map f l) = map p_id l.
Proof. intros Hf. rewrite map_map. apply map_ext. intros q. apply (Hf q). Qed.
Lemma psorted_ids_sorted l : psorted l <-> StronglySorted sid_lt (map p_id l).
Proof.
  induction l as [|q l IH]; cbn [map]; [split; constructor|]. split; intros H.
  - apply psorted_inv in H as [Hs Hq]. constructor; [apply IH; assumption|].
    apply (proj2 (@Forall_map _ _ p_id (sid_lt (p_id q)) l)). exact Hq.
  - inversion H as [|? ? Hs Hq]; subst. constructor; [apply IH; assumption|].
    apply (proj1 (@Forall_map _ _ p_id (sid_lt (p_id q)) l)) in Hq. exact Hq.
Qed.
Lemma psorted_same_ids l l' : map p_id l' = map p_id l -> psorted l -> psorted l'.
Proof. intros E H. apply psorted_ids_sorted. rewrite E. apply psorted_ids_sorted. exact H. Qed.
Lemma len_same_ids (l l' : list pending) : map p_id l' = map p_id l -> len l' = len l.
Proof. intros E. unfold len. rewrite <- (map_length p_id l'), E, map_length. reflexivity. Qed.

Lemma keeps_bump now id : keeps (fun q => if sid_eqb id (p_id q) then bump now q else q).
Proof. intros q. destruct (sid_eqb id (p_id q)); split; reflexivity. Qed.

Lemma bump_fold_facts now ids : forall l,
  map p_id (fold_left (pel_bump now) ids l) = map p_id l /\
  (forall id, owner (fold_left (pel_bump now) ids l) id = owner l id).
Proof.
  induction ids as [|i ids IH]; intros l; cbn [fold_left]; [auto|].
  destruct (IH (pel_bump now l i)) as [I1 I2]. unfold pel_bump in *. split.
  - rewrite I1. apply ids_map, keeps_bump.
  - intros id. rewrite I2. apply owner_map, keeps_bump.
Qed.
Lemma bump_fold_find now ids : forall l, NoDup ids -> forall id,
  pel_find id (fold_left (pel_bump now) ids l)
  = option_map (fun q => if sid_mem id ids then bump now q else q) (pel_find id l).
Proof.
  induction ids as [|i ids IH]; intros l Hnd id; cbn [fold_left sid_mem].
  - destruct (pel_find id l); reflexivity.
  - inversion Hnd as [|? ? Hni Hnd']; subst. rewrite (IH _ Hnd'). unfold pel_bump.
    rewrite (pel_find_map _ l id (keeps_bump now i)).
    destruct (pel_find id l) as [q|] eqn:Ef; [|reflexivity]. cbn [option_map]. f_equal.
    apply pel_find_In in Ef as [_ Hid]. rewrite Hid, (sid_eqb_sym i id).
    destruct (sid_eqb id i) eqn:E; cbn [orb]; [|reflexivity].
    apply sid_eqb_eq in E. subst i.
    assert (sid_mem id ids = false) as ->; [|reflexivity].
    destruct (sid_mem id ids) eqn:Em; [|reflexivity]. apply sid_mem_In in Em. contradiction.
Qed.

Theorem redeliver_invX now g c after count L : GInvX g L zero_off 0 ->
  GInvX (snd (g_redeliver_pending now g c after count)) L zero_off 0.
Proof.
  intros Hg. unfold g_redeliver_pending. cbn [snd].
  destruct (create_consumer_inv g L zero_off 0 c Hg eq_refl) as (Hg1 & _).
  set (g1 := snd (g_create_consumer g c)) in *.
  set (ids := map p_id (take_count count (filter (fun p => beq (p_consumer p) c) (pel_after after (g_by_id g1))))).
  destruct (bump_fold_facts now ids (g_by_id g1)) as [Hids Hown].
  set (l' := fold_left (pel_bump now) ids (g_by_id g1)) in *.
  destruct Hg1 as [A1 A2 A3 A4 A5 A6 A7 A8 A9].
  split; cbn [set_byid g_by_id g_by_consumer g_consumers g_total g_ncons g_min g_max]; try assumption.
  - destruct A1 as [B1 B2 B3 B4]. split; try assumption.
    + eapply psorted_same_ids; eassumption.
    + intros c' id. rewrite Hown. apply B3.
  - apply (proj1 (@Forall_map _ _ p_id (fun i => sid_le i L) l')). rewrite Hids.
    apply (proj2 (@Forall_map _ _ p_id (fun i => sid_le i L) (g_by_id g1))). exact A2.
  - intros c' id. rewrite Hown. apply A5.
  - rewrite (len_same_ids _ _ Hids). exact A6.
  - rewrite A8, !pel_min_ids, Hids. reflexivity.
  - rewrite A9, !pel_max_ids, Hids. reflexivity.
Qed.

Theorem redeliver_inv now g c after count : GInv g -> GInv (snd (g_redeliver_pending now g c after count)).
Proof.
  intros Hg. destruct (GInv_bound g [] Hg) as (L & HL & _). exact (GInv_of_X _ _ (redeliver_invX now g c after count L HL)).
Qed.

Definition own_pending_after (g : group) (c : bytes) (after : sid) : list pending :=
  filter (fun p => beq (p_consumer p) c) (pel_after after (g_by_id g)).

Lemma NoDup_app_l {A} (a b : list A) : NoDup (a ++ b) -> NoDup a.
Proof.
  induction a as [|x a IH]; cbn [app]; intros H; [constructor|]. inversion H as [|? ? Hn Hd]; subst.
  constructor; [|auto]. intros Hin. apply Hn. apply in_or_app. left; assumption.
Qed.
Lemma take_count_nodup_ids count (l : list pending) : NoDup (map p_id l) -> NoDup (map p_id (take_count count l)).
Proof.
  intros H. destruct (take_count_split count l) as [rest Hs]. rewrite Hs, map_app in H.
  apply NoDup_app_l in H. exact H.
Qed.

(** A read with an explicit ID returns the reader's own pending entries above that ID (the
    first COUNT of them, in ID order; those that were deleted from the stream are left out)
    and changes nothing but their delivery count and time: pending set, owners, per-consumer
    index, total, bounds and cursor are untouched; the reader is registered as a consumer if
    it was not. *)
Theorem read_own_spec now s g c after count noack : sid_eqb after sid_max = false -> GInv g ->
  let r := st_read_group now s g c after count noack in
  let sel := map p_id (take_count count (own_pending_after g c after)) in
  fst r = filter_map (fun id => find_entry id (s_entries s)) sel /\
  GInv (snd r) /\
  g_last (snd r) = g_last g /\ g_by_consumer (snd r) = g_by_consumer g /\ g_total (snd r) = g_total g /\
  g_min (snd r) = g_min g /\ g_max (snd r) = g_max g /\
  g_consumers (snd r) = g_consumers (snd (g_create_consumer g c)) /\
  g_ncons (snd r) = g_ncons (snd (g_create_consumer g c)) /\
  map p_id (g_by_id (snd r)) = map p_id (g_by_id g) /\
  (forall id, owner (g_by_id (snd r)) id = owner (g_by_id g) id) /\
  (forall id, pel_find id (g_by_id (snd r))
              = option_map (fun q => if sid_mem id sel then bump now q else q) (pel_find id (g_by_id g))).
Proof.
  intros Hne Hg. cbn zeta. unfold st_read_group. rewrite Hne. cbn [negb].
  destruct (GInv_bound g [] Hg) as (L & HL & _).
  pose proof (redeliver_invX now g c after count L HL) as Hinv.
  unfold g_redeliver_pending in *. cbn [fst snd] in *.
  destruct (create_consumer_same g c) as (Eb & El & Ebc & Et & Emin & Emax).
  unfold own_pending_after. rewrite Eb in *.
  set (sel := map p_id (take_count count (filter (fun p => beq (p_consumer p) c) (pel_after after (g_by_id g))))) in *.
  destruct (bump_fold_facts now sel (g_by_id g)) as [Hids Hown].
  assert (Hnd : NoDup sel).
  { subst sel. apply take_count_nodup_ids. apply psorted_ids_nodup. apply psorted_filter. unfold pel_after. apply psorted_filter.
    apply (pi_sorted _ _ (ga_pel _ Hg)). }
  split; [reflexivity|]. split; [exact (GInv_of_X _ _ Hinv)|].
  cbn [set_byid g_last g_by_id g_by_consumer g_consumers g_total g_ncons g_min g_max].
  repeat (split; [first [assumption | reflexivity]|]).
  intros id. apply bump_fold_find. exact Hnd.
Qed.

Lemma in_filter_map {A B} (f : A -> option B) l y : In y (filter_map f l) <-> exists x, In x l /\ f x = Some y.
Proof.
  induction l as [|x l IH]; cbn [filter_map In]; [split; [intros [] | intros (x & [] & _)]|].
  destruct (f x) as [z|] eqn:E.
  - cbn [In]. rewrite IH. split.
    + intros [->|(x' & H1 & H2)]; [exists x; auto | exists x'; auto].
    + intros (x' & [->|H1] & H2); [left; congruence | right; exists x'; auto].
  - rewrite IH. split.
    + intros (x' & H1 & H2). exists x'; auto.
    + intros (x' & [->|H1] & H2); [congruence | exists x'; auto].
Qed.
Lemma find_entry_some id es e : sorted es -> find_entry id es = Some e <-> In e es /\ fst e = id.
Proof.
  intros Hs. rewrite (find_entry_spec id es Hs). split.
  - destruct (filter (fun e0 => sid_eqb (fst e0) id) es) as [|e0 r] eqn:E; [discriminate|].
    intros H; inversion H; subst e0.
    assert (Hin : In e (filter (fun e0 => sid_eqb (fst e0) id) es)) by (rewrite E; left; reflexivity).
    apply filter_In in Hin as [H1 H2]. apply sid_eqb_eq in H2. auto.
  - intros [Hin Hid].
    assert (Hin' : In e (filter (fun e0 => sid_eqb (fst e0) id) es)).
    { apply filter_In. split; [assumption|]. apply sid_eqb_eq. assumption. }
    destruct (filter (fun e0 => sid_eqb (fst e0) id) es) as [|e0 r] eqn:E; [destruct Hin'|].
    f_equal. assert (Hs' : sorted (e0 :: r)) by (rewrite <- E; apply sorted_filter; assumption).
    assert (H0 : In e0 (filter (fun e1 => sid_eqb (fst e1) id) es)) by (rewrite E; left; reflexivity).
    apply filter_In in H0 as [_ H0]. apply sid_eqb_eq in H0.
    destruct Hin' as [->|Hr]; [reflexivity|exfalso].
    apply sorted_cons_inv in Hs' as [_ Hf]. rewrite Forall_forall in Hf. specialize (Hf e Hr). unfold elt in Hf.
    rewrite H0, Hid in Hf. eapply sid_lt_irrefl; eassumption.
Qed.
(** the reply as a set and its order: exactly the entries of the stream whose ID is one of
    the selected pending IDs, in ID order *)
Theorem read_own_entries now s g c after count noack : sid_eqb after sid_max = false -> SInv s -> GInv g ->
  let r := st_read_group now s g c after count noack in
  let sel := map p_id (take_count count (own_pending_after g c after)) in
  sorted (fst r) /\ forall e, In e (fst r) <-> In e (s_entries s) /\ In (fst e) sel.
Proof.
  intros Hne Hs Hg. cbn zeta. destruct (read_own_spec now s g c after count noack Hne Hg) as (H1 & _). cbn zeta in H1.
  rewrite H1. pose proof (inv_sorted s Hs) as Hso.
  set (sel := map p_id (take_count count (own_pending_after g c after))).
  assert (Hsel : StronglySorted sid_lt sel).
  { subst sel. unfold own_pending_after, pel_after.
    assert (Hp : psorted (filter (fun p => beq (p_consumer p) c) (filter (fun p => sid_ltb after (p_id p)) (g_by_id g)))).
    { apply psorted_filter, psorted_filter, (pi_sorted _ _ (ga_pel _ Hg)). }
    apply psorted_ids_sorted in Hp. revert Hp. generalize (filter (fun p => beq (p_consumer p) c) (filter (fun p => sid_ltb after (p_id p)) (g_by_id g))).
    intros l Hp. destruct (take_count_split count l) as [rest Hsp]. rewrite Hsp, map_app in Hp.
    clear Hsp. induction (map p_id (take_count count l)) as [|x xs IHx]; [constructor|]. cbn [app] in Hp.
    inversion Hp as [|? ? Hs' Hf']; subst. apply Forall_app in Hf' as [Hf' _]. constructor; auto. }
  split.
  - clear H1. induction Hsel as [|id sel' Hs' IH Hf]; cbn [filter_map]; [constructor|].
    destruct (find_entry id (s_entries s)) as [e|] eqn:E; [|exact IH]. constructor; [exact IH|].
    apply Forall_forall. intros e' He'. apply in_filter_map in He' as (id' & Hid' & Hf').
    apply (find_entry_some _ _ _ Hso) in E as [_ <-]. apply (find_entry_some _ _ _ Hso) in Hf' as [_ <-].
    rewrite Forall_forall in Hf. unfold elt. apply Hf. exact Hid'.
  - intros e. rewrite in_filter_map. split.
    + intros (id & Hid & Hf). apply (find_entry_some _ _ _ Hso) in Hf as [Hin <-]. auto.
    + intros [Hin Hid]. exists (fst e). split; [assumption|]. apply (find_entry_some _ _ _ Hso). auto.
Qed.

(** ---- histories of one group on one stream ---- *)
Inductive gop :=
| GStream (o : sop)                                   (* XADD / XDEL / XTRIM in between *)
| GRead (now : Z) (c : bytes) (count : option Z) (noack : bool)   (* XREADGROUP GROUP g c [COUNT n] [NOACK] STREAMS k > *)
| GReread (now : Z) (c : bytes) (after : sid) (count : option Z)  (* XREADGROUP ... STREAMS k <id>: the reader's own history *)
| GAck (ids : list sid)
| GClaim (now : Z) (c : bytes) (min_idle : Z) (ids : list sid) (force : bool)
| GDelConsumer (c : bytes)
| GCreateConsumer (c : bytes).
Definition gop_ok (o : gop) : Prop := match o with GStream o => sop_ok o | _ => True end.

(** one step: new stream and group, and the (consumer, id) deliveries it made through ">" *)
Definition gstep (s : stream) (g : group) (o : gop) : stream * group * list (bytes * sid) :=
  match o with
  | GStream o => (fst (sstep s o), g, [])
  | GRead now c count noack =>
      match st_read_group now s g c sid_max count noack with
      | (es, g') => (s, g', map (fun e => (c, fst e)) es)
      end
  | GReread now c after count => (s, snd (g_redeliver_pending now g c after count), [])
  | GAck ids => (s, snd (g_acknowledge g ids), [])
  | GClaim now c mi ids f => (s, snd (g_claim now g c mi ids f), [])
  | GDelConsumer c => (s, snd (g_delete_consumer g c), [])
  | GCreateConsumer c => (s, snd (g_create_consumer g c), [])
  end.
Fixpoint grun (s : stream) (g : group) (ops : list gop) : stream * group * list (bytes * sid) :=
  match ops with
  | [] => (s, g, [])
  | o :: r => match gstep s g o with
              | (s1, g1, d) => match grun s1 g1 r with (s2, g2, l) => (s2, g2, d ++ l) end
              end
  end.

Lemma sstep_entries s o : SInv s -> sop_ok o ->
  sid_le (s_last s) (s_last (fst (sstep s o))) /\
  forall e, In e (s_entries (fst (sstep s o))) -> In e (s_entries s) \/ sid_lt (s_last s) (fst e).
Proof.
  intros Hi Hok. destruct o as [now f|id f|ids|n]; cbn [sstep].
  - destruct (st_add_auto now s f) as [[id s']|] eqn:E; cbn [fst]; [|split; [apply sid_le_refl|auto]].
    destruct (add_auto_inv _ _ _ _ _ Hi E) as (_ & H2 & _ & H4 & H5). rewrite H4, H5. split; [left; assumption|].
    intros e He. apply in_app_or in He as [He|[<-|[]]]; auto.
  - destruct (st_add_with_id s id f) as [s'|] eqn:E; cbn [fst]; [|split; [apply sid_le_refl|auto]].
    destruct (add_with_id_inv _ _ _ _ Hi E) as (_ & H2 & H3 & H4). rewrite H3, H4. split; [left; assumption|].
    intros e He. apply in_app_or in He as [He|[<-|[]]]; auto.
  - cbn [fst]. destruct (delete_inv s ids Hi) as (_ & H2 & H3 & _). rewrite H2, H3. split; [apply sid_le_refl|].
    intros e He. apply filter_In in He. tauto.
  - cbn [fst]. destruct (trim_inv s n Hi Hok) as (_ & H2 & H3 & _). rewrite H2, H3. split; [apply sid_le_refl|].
    intros e He. left. unfold zskipn in He. rewrite <- (firstn_skipn (Z.to_nat (fst (st_trim s n))) (s_entries s)).
    apply in_or_app. right; assumption.
Qed.

(** what one step does to invariants, cursor and deliveries *)
Definition step_facts (s : stream) (g : group) (s1 : stream) (g1 : group) (d : list (bytes * sid)) : Prop :=
  SInv s1 /\ GInv g1 /\ sid_le (g_last g1) (s_last s1) /\
  StronglySorted sid_lt (g_last g :: map snd d) /\
  sid_le (g_last g) (g_last g1) /\ Forall (fun i => sid_le i (g_last g1)) (map snd d) /\
  sid_le (s_last s) (s_last s1) /\
  (forall e, In e (s_entries s1) -> In e (s_entries s) \/ sid_lt (s_last s) (fst e)) /\
  (forall e, In e (s_entries s1) -> sid_lt (g_last g) (fst e) -> sid_le (fst e) (g_last g1) -> In (fst e) (map snd d)).

Lemma step_facts_refl s g g1 : SInv s -> GInv g1 -> g_last g1 = g_last g -> sid_le (g_last g) (s_last s) ->
  step_facts s g s g1 [].
Proof.
  intros Hs Hg1 Hl Hle. unfold step_facts. rewrite Hl. cbn [map].
  split; [assumption|]. split; [assumption|]. split; [assumption|]. split; [constructor; constructor|].
  split; [apply sid_le_refl|]. split; [constructor|]. split; [apply sid_le_refl|]. split; [auto|].
  intros e _ H1 H2. exfalso. eapply sid_lt_not_le; eassumption.
Qed.

Lemma gstep_facts s g o : SInv s -> GInv g -> sid_le (g_last g) (s_last s) -> gop_ok o ->
  match gstep s g o with (s1, g1, d) => step_facts s g s1 g1 d end.
Proof.
  intros Hs Hg Hle Hok.
  destruct o as [o|now c count noack|now c after count|ids|now c mi ids f|c|c]; cbn [gstep].
  - cbn [gop_ok] in Hok. destruct (sstep_inv s o Hs Hok) as [Hs1 _]. destruct (sstep_entries s o Hs Hok) as [Hl1 He1].
    unfold step_facts. cbn [map].
    split; [assumption|]. split; [assumption|]. split; [eapply sid_le_trans; eassumption|].
    split; [constructor; constructor|]. split; [apply sid_le_refl|]. split; [constructor|]. split; [assumption|].
    split; [assumption|]. intros e _ H1 H2. exfalso. eapply sid_lt_not_le; eassumption.
  - pose proof (read_new_inv now s g c count noack Hs Hg) as Hr. pose proof (read_new_complete now s g c count noack Hs Hg) as Hc.
    cbn zeta in Hr, Hc. destruct (st_read_group now s g c sid_max count noack) as [es g1] eqn:Er. cbn [fst snd] in *.
    destruct Hr as (H1 & H2 & H3 & H4 & H5 & H6 & _). unfold step_facts.
    rewrite map_map. cbn [snd]. change (map (fun x : sentry => fst x) es) with (map fst es).
    assert (Hcur : sid_le (g_last g) (g_last g1) /\ Forall (fun i => sid_le i (g_last g1)) (map fst es) /\ sid_le (g_last g1) (s_last s)).
    { destruct (rev es) as [|el rest] eqn:Erev.
      - apply (f_equal (@rev _)) in Erev. rewrite rev_involutive in Erev. cbn [rev] in Erev.
        rewrite (H5 Erev), Erev. split; [apply sid_le_refl|]. split; [constructor|assumption].
      - rewrite (H6 _ _ eq_refl).
        assert (Hel : In el es) by (apply in_rev; rewrite Erev; left; reflexivity).
        split; [left; rewrite Forall_forall in H4; apply H4; assumption|]. split.
        + apply Forall_forall. intros i Hi. apply in_map_iff in Hi as [e [<- He]].
          apply (sorted_last_max es el rest H3 Erev). assumption.
        + assert (Hin : In el (s_entries s)).
          { destruct (take_count_split count (filter (p_gt (g_last g)) (s_entries s))) as [rest' Hsp]. rewrite <- H1 in Hsp.
            assert (Hin' : In el (filter (p_gt (g_last g)) (s_entries s))) by (rewrite Hsp; apply in_or_app; left; assumption).
            apply filter_In in Hin'. tauto. }
          pose proof (inv_last s Hs) as Hl. rewrite Forall_forall in Hl. apply (Hl el). assumption. }
    destruct Hcur as (Hc1 & Hc2 & Hc3).
    split; [assumption|]. split; [assumption|]. split; [assumption|]. split.
    { constructor.
      - clear -H3. induction H3 as [|e l Hl IH He]; cbn [map]; constructor; [assumption|].
        apply Forall_forall. intros i Hi. apply in_map_iff in Hi as [x [<- Hx]]. rewrite Forall_forall in He. apply He. assumption.
      - apply Forall_forall. intros i Hi. apply in_map_iff in Hi as [x [<- Hx]]. rewrite Forall_forall in H4. apply H4. assumption. }
    split; [assumption|]. split; [assumption|]. split; [apply sid_le_refl|]. split; [auto|].
    intros e He Hlt Hle'. apply in_map. apply Hc; assumption.
  - apply step_facts_refl; [assumption|apply redeliver_inv; assumption| |assumption].
    unfold g_redeliver_pending. cbn [snd set_byid g_last]. apply create_consumer_same.
  - destruct (acknowledge_inv g ids Hg) as (H1 & H2 & _). apply step_facts_refl; assumption.
  - destruct (claim_inv now g c mi ids f Hg) as (H1 & H2 & _). apply step_facts_refl; assumption.
  - destruct (delete_consumer_inv g c Hg) as (H1 & H2 & _). apply step_facts_refl; assumption.
  - pose proof (create_consumer_ginv g c Hg) as H1. apply step_facts_refl; [assumption|assumption| |assumption].
    unfold g_create_consumer. destruct (amem c (g_consumers g)); reflexivity.
Qed.

(** while XGROUP SETID does not move the cursor back, no pending ID is above the cursor *)
Lemma gstep_below s g o : SInv s -> GInv g -> BelowCursor g -> gop_ok o ->
  BelowCursor (snd (fst (gstep s g o))).
Proof.
  intros Hs Hg Hb Hok. pose proof (proj2 (GInvC_iff g) (conj Hg Hb)) as Hc. unfold GInvC in Hc.
  destruct o as [o|now c count noack|now c after count|ids|now c mi ids f|c|c]; cbn [gstep fst snd].
  - exact Hb.
  - pose proof (read_new_below now s g c count noack Hs Hg Hb) as H.
    destruct (st_read_group now s g c sid_max count noack). exact H.
  - pose proof (redeliver_invX now g c after count _ Hc) as H. apply gi_cursor in H.
    unfold BelowCursor. unfold g_redeliver_pending in *. cbn [snd set_byid g_last g_by_id] in *.
    rewrite (proj1 (proj2 (create_consumer_same g c))). exact H.
  - destruct (acknowledge_invX g ids _ Hc) as (H1 & H2 & _). unfold BelowCursor. rewrite H2. exact (gi_cursor _ _ _ _ H1).
  - destruct (claim_invX now g c mi ids f _ Hc) as (H1 & H2 & _). unfold BelowCursor. rewrite H2. exact (gi_cursor _ _ _ _ H1).
  - destruct (delete_consumer_invX g c _ Hc) as (H1 & H2 & _). unfold BelowCursor. rewrite H2. exact (gi_cursor _ _ _ _ H1).
  - unfold BelowCursor. destruct (create_consumer_same g c) as (E1 & E2 & _). rewrite E1, E2. exact Hb.
Qed.

Lemma step_facts_trans s g s1 g1 d s2 g2 l :
  sid_le (g_last g) (s_last s) -> step_facts s g s1 g1 d -> step_facts s1 g1 s2 g2 l -> step_facts s g s2 g2 (d ++ l).
Proof.
  intros Hle (A1 & A2 & A3 & A4 & A5 & A6 & A7 & A8 & A9) (B1 & B2 & B3 & B4 & B5 & B6 & B7 & B8 & B9).
  unfold step_facts. rewrite map_app.
  split; [assumption|]. split; [assumption|]. split; [assumption|]. split; [|split; [|split; [|split; [|split]]]].
  - inversion A4 as [|? ? A4s A4f]; subst. inversion B4 as [|? ? B4s B4f]; subst.
    assert (Hbig : Forall (sid_lt (g_last g)) (map snd l)).
    { eapply Forall_impl; [|exact B4f]. intros i Hi. eapply sid_le_lt_trans; eassumption. }
    constructor; [|apply Forall_app; split; assumption].
    clear - A4s B4s A6 B4f. induction (map snd d) as [|x xs IHx]; cbn [app]; [assumption|].
    inversion A4s as [|? ? Hs' Hf']; subst. inversion A6 as [|? ? Hx Hxs]; subst. constructor; [auto|].
    apply Forall_app. split; [assumption|]. eapply Forall_impl; [|exact B4f]. intros i Hi.
    eapply sid_le_lt_trans; eassumption.
  - eapply sid_le_trans; eassumption.
  - apply Forall_app. split; [|assumption]. eapply Forall_impl; [|exact A6]. intros i Hi. cbv beta in Hi.
    eapply sid_le_trans; eassumption.
  - eapply sid_le_trans; eassumption.
  - intros e He. destruct (B8 e He) as [H|H].
    + destruct (A8 e H) as [H'|H']; auto.
    + right. eapply sid_le_lt_trans; eassumption.
  - intros e He Hlt Hle2. apply in_or_app.
    destruct (sid_leb (fst e) (g_last g1)) eqn:Ec.
    + apply sid_leb_le in Ec. left. apply A9; [|assumption|assumption].
      destruct (B8 e He) as [H|H]; [assumption|exfalso].
      assert (sid_lt (fst e) (fst e)); [|eapply sid_lt_irrefl; eassumption].
      eapply sid_le_lt_trans; [exact Ec|]. exact (sid_le_lt_trans _ _ _ A3 H).
    + apply sid_leb_nle in Ec. right. apply B9; assumption.
Qed.

(** Exactly-once delivery through ">": over every history of reads, acknowledgements,
    claims, consumer administration and stream changes, the IDs delivered are strictly
    increasing (no entry is delivered twice; delivery is in ID order), all above the start
    position, and every present entry above the start position and at or below the cursor
    has been delivered *)
Theorem group_history ops : forall s g, SInv s -> GInv g -> sid_le (g_last g) (s_last s) -> Forall gop_ok ops ->
  match grun s g ops with (s2, g2, log) => step_facts s g s2 g2 log end.
Proof.
  induction ops as [|o ops IH]; intros s g Hs Hg Hle Hok; cbn [grun].
  - apply step_facts_refl; auto.
  - inversion Hok as [|? ? Ho Hok']; subst.
    pose proof (gstep_facts s g o Hs Hg Hle Ho) as Hstep. destruct (gstep s g o) as [[s1 g1] d].
    pose proof Hstep as (A1 & A2 & A3 & _).
    specialize (IH s1 g1 A1 A2 A3 Hok'). destruct (grun s1 g1 ops) as [[s2 g2] l].
    eapply step_facts_trans; eassumption.
Qed.

Theorem group_history_below ops : forall s g, SInv s -> GInv g -> BelowCursor g -> sid_le (g_last g) (s_last s) ->
  Forall gop_ok ops -> BelowCursor (snd (fst (grun s g ops))).
Proof.
  induction ops as [|o ops IH]; intros s g Hs Hg Hb Hle Hok; cbn [grun]; [exact Hb|].
  inversion Hok as [|? ? Ho Hok']; subst.
  pose proof (gstep_facts s g o Hs Hg Hle Ho) as Hstep. pose proof (gstep_below s g o Hs Hg Hb Ho) as Hb1.
  destruct (gstep s g o) as [[s1 g1] d]. cbn [fst snd] in Hb1. destruct Hstep as (A1 & A2 & A3 & _).
  specialize (IH s1 g1 A1 A2 Hb1 A3 Hok'). destruct (grun s1 g1 ops) as [[s2 g2] l]. exact IH.
Qed.

(** ---- all groups of a stream: CREATE, DESTROY and updates of one group ---- *)
Definition groups_ok (gs : list (bytes * group)) : Prop := forall gn g, alookup gn gs = Some g -> GInv g.
Lemma groups_ok_nil : groups_ok [].
Proof. intros gn g H; discriminate. Qed.
Lemma groups_ok_create gs gn st : groups_ok gs -> alookup gn gs = None -> groups_ok (gs ++ [(gn, mk_group st)]).
Proof.
  intros H Hn gn' g. rewrite (alookup_app_new gn gn' (mk_group st) gs Hn). destruct (beq gn' gn); [|apply H].
  intros Heq; inversion Heq; subst. apply GInv_mk.
Qed.
Lemma groups_ok_destroy gs gn : groups_ok gs -> groups_ok (aremove gn gs) /\ alookup gn (aremove gn gs) = None /\
  forall gn', gn' <> gn -> alookup gn' (aremove gn gs) = alookup gn' gs.
Proof.
  intros H. split; [|split].
  - intros gn' g. rewrite alookup_aremove. destruct (beq gn' gn); [discriminate|apply H].
  - rewrite alookup_aremove, beq_refl. reflexivity.
  - intros gn' Hne. rewrite alookup_aremove. apply beq_false_ne in Hne. rewrite Hne. reflexivity.
Qed.
Lemma groups_ok_update gs gn g' : groups_ok gs -> GInv g' -> groups_ok (aput gn g' gs) /\
  forall gn', gn' <> gn -> alookup gn' (aput gn g' gs) = alookup gn' gs.
Proof.
  intros H Hg. split.
  - intros gn' g. rewrite alookup_aput. destruct (beq gn' gn); [|apply H]. intros Heq; inversion Heq; subst. assumption.
  - intros gn' Hne. rewrite alookup_aput. apply beq_false_ne in Hne. rewrite Hne. reflexivity.
Qed.

(** ---- the stream invariant at the level of the database and the commands ---- *)
Definition DbInv (d : db) : Prop :=
  forall k e s, get_entry d k = Some e -> e_val e = VStream s -> SInv s.

Lemma get_put_entry d k e k' : get_entry (put_entry d k e) k' = if beq k' k then Some e else get_entry d k'.
Proof.
  unfold get_entry, put_entry, aset. cbn [d_data alookup]. destruct (beq k' k) eqn:E; [reflexivity|].
  rewrite alookup_aremove, E. reflexivity.
Qed.
Lemma DbInv_empty : DbInv empty_db.
Proof. intros k e s H; discriminate. Qed.
Lemma DbInv_put d k e s : DbInv d -> SInv s -> DbInv (put_entry d k {| e_val := VStream s; e_exp := e |}).
Proof.
  intros Hd Hs k' e' s'. rewrite get_put_entry. destruct (beq k' k); [|apply Hd].
  intros Heq; inversion Heq; subst. cbn. intros Hv; inversion Hv; subst. assumption.
Qed.
Lemma raw_stream_inv d k e s : DbInv d -> raw_stream d k = SStream e s -> SInv s.
Proof.
  intros Hd. unfold raw_stream. destruct (get_entry d k) as [e0|] eqn:E; [|discriminate].
  destruct (e_val e0) eqn:Ev; try discriminate. intros Heq; inversion Heq; subst. eapply Hd; eassumption.
Qed.

Ltac db_inv_finish :=
  try assumption;
  match goal with
  | |- DbInv (put_stream _ _ _ _) => unfold put_stream; apply DbInv_put; [assumption|]
  | |- DbInv (put_entry _ _ (new_entry _)) => unfold new_entry; apply DbInv_put; [assumption|]
  | _ => idtac
  end.

Theorem xadd_db_inv d parts oracle : DbInv d -> DbInv (snd (h_xadd d parts oracle)).
Proof.
  intros Hd. unfold h_xadd.
  repeat (first [ progress cbn [fst snd] | break_match ]); db_inv_finish.
  all: try match goal with
       | H : raw_stream _ _ = SStream _ _ |- _ => pose proof (raw_stream_inv _ _ _ _ Hd H)
       end.
  all: try match goal with
       | H : st_add_auto _ _ _ = Some _, Hs : SInv _ |- _ => apply (add_auto_inv _ _ _ _ _ Hs H)
       | H : st_add_auto _ empty_stream _ = Some _ |- _ => apply (add_auto_inv _ _ _ _ _ SInv_empty H)
       | H : st_add_with_id _ _ _ = Some _, Hs : SInv _ |- _ => apply (add_with_id_inv _ _ _ _ Hs H)
       | H : st_add_with_id empty_stream _ _ = Some _ |- _ => apply (add_with_id_inv _ _ _ _ SInv_empty H)
       end.
Qed.

Theorem xdel_db_inv d parts : DbInv d -> DbInv (snd (h_xdel d parts)).
Proof.
  intros Hd. unfold h_xdel.
  repeat (first [ progress cbn [fst snd] | break_match ]); db_inv_finish.
  all: try match goal with
       | H : raw_stream _ _ = SStream _ _ |- _ => pose proof (raw_stream_inv _ _ _ _ Hd H)
       end.
  all: match goal with
       | H : st_delete ?s ?ids = (_, ?s'), Hs : SInv ?s |- SInv ?s' =>
           let K := fresh in pose proof (delete_inv s ids Hs) as K; rewrite H in K; apply K
       end.
Qed.

Lemma parse_usize_nonneg b n : parse_usize b = Some n -> 0 <= n.
Proof.
  unfold parse_usize, parse_unsigned.
  assert (Hd : forall l acc v, 0 <= acc -> digits_val l acc = Some v -> 0 <= v).
  { induction l as [|c l IH]; cbn [digits_val]; intros acc v Ha H; [inversion H; subst; assumption|].
    destruct (is_digit c) eqn:E; [|discriminate]. unfold is_digit in E. apply andb_prop in E as [E1 E2].
    apply Z.leb_le in E1, E2. apply (IH (acc * 10 + (c - 48)) v); [lia|exact H]. }
  assert (Hp : forall l v, parse_digits l = Some v -> 0 <= v).
  { intros l v. unfold parse_digits. destruct l; [discriminate|]. apply Hd. lia. }
  assert (Hex : exists l', (match b with 43 :: d => parse_digits d | _ => parse_digits b end) = parse_digits l').
  { destruct b as [|c r]; [eexists; reflexivity|]. destruct c as [|p|p]; try (eexists; reflexivity).
    do 6 (try (destruct p as [p|p|]; try (eexists; reflexivity))). }
  destruct Hex as [l' Hl']. rewrite Hl'. destruct (parse_digits l') as [v|] eqn:E; [|discriminate].
  destruct (v <=? u64_max); [|discriminate]. intros H; inversion H; subst. eapply Hp; eassumption.
Qed.

Lemma xtrim_maxlen_nonneg parts n : xtrim_maxlen parts = Some n -> 0 <= n.
Proof.
  unfold xtrim_maxlen. intros H.
  repeat match type of H with
         | context [match ?x with _ => _ end] => destruct x eqn:?
         end; try discriminate; eapply parse_usize_nonneg; eassumption.
Qed.

Theorem xtrim_db_inv d parts : DbInv d -> DbInv (snd (h_xtrim d parts)).
Proof.
  intros Hd. unfold h_xtrim.
  repeat (first [ progress cbn [fst snd] | break_match ]); db_inv_finish.
  all: try match goal with
       | H : raw_stream _ _ = SStream _ _ |- _ => pose proof (raw_stream_inv _ _ _ _ Hd H)
       end.
  all: match goal with
       | H : st_trim ?s ?n = (_, ?s'), Hs : SInv ?s, Hm : xtrim_maxlen _ = Some ?n |- SInv ?s' =>
           let K2 := fresh in
           pose proof (trim_inv s n Hs (xtrim_maxlen_nonneg _ _ Hm)) as K2; rewrite H in K2; apply K2
       end.
Qed.

(** every command that changes the entries of a stream keeps the stream invariant of
    every stream in the database *)
Theorem stream_writes_db_inv d parts oracle : DbInv d ->
  DbInv (snd (h_xadd d parts oracle)) /\ DbInv (snd (h_xdel d parts)) /\ DbInv (snd (h_xtrim d parts)).
Proof. intros Hd. split; [apply xadd_db_inv|split; [apply xdel_db_inv|apply xtrim_db_inv]]; assumption. Qed.

(** ---- repaired classes: positive statements ---- *)
(** XPENDING with an inverted range selects nothing (it used to panic) *)
Lemma pel_range_inverted l st en : sid_lt en st -> pel_range l st en = [].
Proof.
  intros H. unfold pel_range. apply filter_all_false. apply Forall_forall. intros p _.
  destruct (sid_leb st (p_id p)) eqn:E1; [|reflexivity]. destruct (sid_leb (p_id p) en) eqn:E2; [|reflexivity].
  apply sid_leb_le in E1, E2. exfalso. apply (sid_lt_not_le _ _ H). eapply sid_le_trans; eassumption.
Qed.

(** XGROUP CREATE with "$": the cursor starts at the last present entry, which is not
    ahead of the stream *)
Lemma last_entry_le_last s i : SInv s -> last_entry_id s = Some i -> sid_le i (s_last s).
Proof.
  intros Hs. unfold last_entry_id. destruct (rev (s_entries s)) as [|e r] eqn:E; [discriminate|].
  intros H; inversion H; subst. pose proof (inv_last s Hs) as Hl. rewrite Forall_forall in Hl.
  apply (Hl e). apply in_rev. rewrite E. left; reflexivity.
Qed.

(** XGROUP CREATE that answers an error has no effect beyond the lazy removal of an
    expired key that any access through storage.get performs (after the repair 7f9490b) *)
Theorem xgroup_create_error_atomic now d parts :
  is_error (fst (h_xgroup_create now d parts)) = true ->
  snd (h_xgroup_create now d parts) = d \/
  exists k, nth_arg parts 2 = Some k /\ snd (h_xgroup_create now d parts) = snd (eng_get now d k).
Proof.
  unfold h_xgroup_create. destruct (nparts parts <? 5); [left; reflexivity|].
  destruct (nth_arg parts 2) as [k|]; [|left; reflexivity].
  destruct (nth_arg parts 3) as [gn|]; [|left; reflexivity].
  destruct (nth_arg parts 4) as [idb|]; [|left; reflexivity].
  destruct (negb (beq idb (bs "$")) && negb (beq idb (bs "0")) &&
            match sid_of_bytes idb with Some _ => false | None => true end) eqn:Echk; [left; reflexivity|].
  assert (Hstart : (if beq idb (bs "$") then Some sid_zero
                    else if beq idb (bs "0") || beq idb (bs "0-0") then Some sid_zero else sid_of_bytes idb) <> None).
  { destruct (beq idb (bs "$")); [discriminate|]. destruct (beq idb (bs "0")); [discriminate|].
    cbn [negb andb orb] in *. destruct (beq idb (bs "0-0")); [discriminate|]. destruct (sid_of_bytes idb); [discriminate|discriminate]. }
  intros Herr. right. exists k. split; [reflexivity|]. revert Herr.
  unfold get_stream. destruct (eng_get now d k) as [[v| |] d1] eqn:Eg; cbn [fst snd].
  - destruct v; cbn [fst snd]; try reflexivity.
    destruct (get_entry d k) as [e|] eqn:Ee; cbn [fst snd].
    + destruct (beq idb (bs "$")); [|destruct (beq idb (bs "0") || beq idb (bs "0-0")); [|destruct (sid_of_bytes idb); [|contradiction]]];
        (destruct (amem gn (s_groups s)); cbn [fst snd is_error r_ok r_busygroup]; [reflexivity|discriminate]).
    + destruct ((5 <? nparts parts) && is_kw (nth_error parts 5) "MKSTREAM"); cbn [fst snd]; [|reflexivity].
      destruct (beq idb (bs "$")); [|destruct (beq idb (bs "0") || beq idb (bs "0-0")); [|destruct (sid_of_bytes idb); [|contradiction]]];
        cbn [amem alookup s_groups empty_stream fst snd is_error r_ok]; discriminate.
  - destruct ((5 <? nparts parts) && is_kw (nth_error parts 5) "MKSTREAM"); cbn [fst snd]; [|reflexivity].
    destruct (beq idb (bs "$")); [|destruct (beq idb (bs "0") || beq idb (bs "0-0")); [|destruct (sid_of_bytes idb); [|contradiction]]];
      cbn [amem alookup s_groups empty_stream fst snd is_error r_ok]; discriminate.
  - destruct ((5 <? nparts parts) && is_kw (nth_error parts 5) "MKSTREAM"); cbn [fst snd]; [|reflexivity].
    destruct (beq idb (bs "$")); [|destruct (beq idb (bs "0") || beq idb (bs "0-0")); [|destruct (sid_of_bytes idb); [|contradiction]]];
      cbn [amem alookup s_groups empty_stream fst snd is_error r_ok]; discriminate.
Qed.

(** ---- the invariants at the level of the database: every command of the family ---- *)
Definition DbGInv (d : db) : Prop :=
  forall k e s, get_entry d k = Some e -> e_val e = VStream s -> SInv s /\ groups_ok (s_groups s).
Lemma DbGInv_empty : DbGInv empty_db.
Proof. intros k e s H; discriminate. Qed.
Lemma DbGInv_DbInv d : DbGInv d -> DbInv d.
Proof. intros H k e s H1 H2. apply (H k e s H1 H2). Qed.
Lemma DbGInv_put d k ex s : DbGInv d -> SInv s -> groups_ok (s_groups s) ->
  DbGInv (put_entry d k {| e_val := VStream s; e_exp := ex |}).
Proof.
  intros Hd Hs Hg k' e' s'. rewrite get_put_entry. destruct (beq k' k); [|apply Hd].
  intros Heq; inversion Heq; subst. cbn. intros Hv; inversion Hv; subst. auto.
Qed.
Lemma DbGInv_put_stream d k e s : DbGInv d -> SInv s -> groups_ok (s_groups s) -> DbGInv (put_stream d k e s).
Proof. intros. unfold put_stream. apply DbGInv_put; assumption. Qed.
Lemma DbGInv_put_group d k e s gn g : DbGInv d -> SInv s -> groups_ok (s_groups s) -> GInv g ->
  DbGInv (put_group d k e s gn g).
Proof.
  intros Hd Hs Hgs Hg. unfold put_group. apply DbGInv_put_stream; [assumption|apply SInv_set_groups; assumption|].
  cbn [set_groups s_groups]. apply groups_ok_update; assumption.
Qed.
Lemma DbGInv_eng_get now d k : DbGInv d -> DbGInv (snd (eng_get now d k)).
Proof.
  intros Hd. unfold eng_get. destruct (get_entry d k) as [e|]; [|exact Hd]. destruct (expired now e); [|exact Hd].
  cbn [snd]. intros k' e' s'. unfold get_entry, index_del, del_entry. cbn [d_data]. rewrite alookup_aremove.
  destruct (beq k' k); [discriminate|]. apply Hd.
Qed.
Lemma get_stream_facts now d k r d1 : DbGInv d -> get_stream now d k = (r, d1) ->
  DbGInv d1 /\ forall e s, r = SStream e s -> SInv s /\ groups_ok (s_groups s) /\ raw_stream d1 k = SStream e s.
Proof.
  intros Hd. unfold get_stream. pose proof (DbGInv_eng_get now d k Hd) as Hd1.
  unfold eng_get in *. destruct (get_entry d k) as [e0|] eqn:Eg.
  - destruct (expired now e0).
    + cbn [fst snd] in *. intros H; inversion H; subst. split; [assumption|]. intros e s Hc; discriminate.
    + cbn [fst snd] in *. destruct (e_val e0) as [ | | | | |s0] eqn:Ev; intros H; inversion H; subst; (split; [assumption|]); intros e' s' Hc; try discriminate.
      inversion Hc; subst. destruct (Hd k e' s' Eg Ev) as [H1 H2]. split; [assumption|]. split; [assumption|].
      unfold raw_stream. rewrite Eg, Ev. reflexivity.
  - cbn [fst snd]. intros H; inversion H; subst. split; [assumption|]. intros e s Hc; discriminate.
Qed.

Ltac gs_facts :=
  repeat match goal with
  | Hd : DbGInv ?d, H : get_stream _ ?d _ = (_, _) |- _ =>
      let F1 := fresh "Hd1" in let F2 := fresh "Hst" in
      destruct (get_stream_facts _ _ _ _ _ Hd H) as [F1 F2]; clear H;
      try (destruct (F2 _ _ eq_refl) as (? & ? & ?))
  end.
Ltac grp_of :=
  repeat match goal with
  | Hgs : groups_ok ?gs, H : alookup ?gn ?gs = Some ?g |- _ =>
      lazymatch goal with
      | _ : GInv g |- _ => fail
      | _ => pose proof (Hgs _ _ H)
      end
  end.

Theorem xgroup_dbg now d parts : DbGInv d -> DbGInv (snd (h_xgroup now d parts)).
Proof.
  intros Hd. unfold h_xgroup, h_xgroup_create, h_xgroup_destroy, h_xgroup_createconsumer, h_xgroup_delconsumer, h_xgroup_setid.
  repeat (first [ progress cbn [fst snd] | break_match ]); gs_facts; grp_of; try assumption.
  all: try (apply DbGInv_put_group; try assumption).
  all: try match goal with
       | H : g_create_consumer ?g ?c = (_, ?g') |- GInv ?g' =>
           replace g' with (snd (g_create_consumer g c)) by (rewrite H; reflexivity); apply create_consumer_ginv; assumption
       | H : g_delete_consumer ?g ?c = (_, ?g') |- GInv ?g' =>
           replace g' with (snd (g_delete_consumer g c)) by (rewrite H; reflexivity); apply delete_consumer_inv; assumption
       | |- GInv (set_last _ _) => apply set_last_inv; assumption
       end.
  all: try (apply DbGInv_put_stream; [assumption | apply SInv_set_groups; assumption | cbn [set_groups s_groups]]).
  all: try match goal with
       | H : amem ?gn ?gs = false |- groups_ok (?gs ++ [(?gn, mk_group _)]) =>
           apply groups_ok_create; [assumption | apply amem_alookup; exact H]
       | |- groups_ok (aremove _ _) => apply groups_ok_destroy; assumption
       end.
  all: assert (Hmk : forall d0 k, DbGInv d0 -> DbGInv (set_value now d0 k (VStream empty_stream) None))
         by (intros d0' k0 Hd0; unfold set_value; apply DbGInv_put; [exact Hd0 | exact SInv_empty | exact groups_ok_nil]).
  all: try (apply Hmk; assumption).
  apply DbGInv_put_stream; [apply Hmk; assumption | apply SInv_set_groups; exact SInv_empty | cbn [set_groups s_groups empty_stream app]].
  apply (groups_ok_create [] _ _ groups_ok_nil eq_refl).
Qed.

Lemma raw_stream_facts d k e s : DbGInv d -> raw_stream d k = SStream e s -> SInv s /\ groups_ok (s_groups s).
Proof.
  intros Hd. unfold raw_stream. destruct (get_entry d k) as [e0|] eqn:E; [|discriminate].
  destruct (e_val e0) eqn:Ev; try discriminate. intros Heq; inversion Heq; subst. eapply Hd; eassumption.
Qed.

(** XREADGROUP, whatever the ID: the group it reads satisfies the invariant afterwards *)
Theorem read_group_ginv now s g c a count noack : SInv s -> GInv g ->
  GInv (snd (st_read_group now s g c a count noack)).
Proof.
  intros Hs Hg. destruct (sid_eqb a sid_max) eqn:E.
  - apply sid_eqb_eq in E. subst a. apply (read_new_inv now s g c count noack Hs Hg).
  - apply (read_own_spec now s g c a count noack E Hg).
Qed.

Lemma resolve_dbg now gn : forall keys ids d acc, DbGInv d -> DbGInv (snd (xreadgroup_resolve now d gn keys ids acc)).
Proof.
  induction keys as [|kf keys IH]; intros ids d acc Hd; cbn [xreadgroup_resolve]; [exact Hd|].
  destruct ids as [|idf ids]; [exact Hd|]. destruct kf; try exact Hd. destruct idf; try exact Hd.
  destruct (get_stream now d b) as [r d1] eqn:Eg. destruct (get_stream_facts _ _ _ _ _ Hd Eg) as [Hd1 _].
  destruct r; cbn [snd]; try exact Hd1; [|apply IH; exact Hd1].
  repeat (first [ progress cbn [fst snd] | break_match ]); try exact Hd1. apply IH. exact Hd1.
Qed.
Lemma deliver_dbg now gn c o : forall reads d acc, DbGInv d -> DbGInv (snd (xreadgroup_deliver now d gn c o reads acc)).
Proof.
  induction reads as [|[k a] reads IH]; intros d acc Hd; cbn [xreadgroup_deliver].
  - destruct acc; [destruct (ro_block o)|]; exact Hd.
  - destruct (raw_stream d k) as [e s| |] eqn:Er; try (apply IH; exact Hd).
    destruct (raw_stream_facts _ _ _ _ Hd Er) as [Hs Hgs].
    destruct (alookup gn (s_groups s)) as [g|] eqn:Eg; [|exact Hd].
    pose proof (read_group_ginv now s g c a (ro_count o) (ro_noack o) Hs (Hgs _ _ Eg)) as Hg'.
    destruct (st_read_group now s g c a (ro_count o) (ro_noack o)) as [es g']. cbn [snd] in Hg'.
    assert (Hput : DbGInv (put_group d k e s gn g')) by (apply DbGInv_put_group; assumption).
    destruct es; [destruct (sid_eqb a sid_max)|]; apply IH; assumption.
Qed.
Theorem xreadgroup_dbg now d parts : DbGInv d -> DbGInv (snd (h_xreadgroup now d parts)).
Proof.
  intros Hd. unfold h_xreadgroup.
  repeat (first [ progress cbn [fst snd] | break_match ]); try assumption.
  - match goal with H : xreadgroup_resolve ?now ?d ?gn ?ks ?is ?acc = (_, ?d1) |- DbGInv ?d1 =>
      replace d1 with (snd (xreadgroup_resolve now d gn ks is acc)) by (rewrite H; reflexivity); apply resolve_dbg; assumption end.
  - apply deliver_dbg.
    match goal with H : xreadgroup_resolve ?now ?d ?gn ?ks ?is ?acc = (_, ?d1) |- DbGInv ?d1 =>
      replace d1 with (snd (xreadgroup_resolve now d gn ks is acc)) by (rewrite H; reflexivity); apply resolve_dbg; assumption end.
Qed.

Theorem xack_dbg now d parts : DbGInv d -> DbGInv (snd (h_xack now d parts)).
Proof.
  intros Hd. unfold h_xack.
  repeat (first [ progress cbn [fst snd] | break_match ]); gs_facts; grp_of; try assumption.
  apply DbGInv_put_group; try assumption.
  match goal with H : g_acknowledge ?g ?ids = (_, ?g') |- GInv ?g' =>
    replace g' with (snd (g_acknowledge g ids)) by (rewrite H; reflexivity); apply acknowledge_inv; assumption end.
Qed.
Theorem xclaim_dbg now d parts : DbGInv d -> DbGInv (snd (h_xclaim now d parts)).
Proof.
  intros Hd. unfold h_xclaim.
  repeat (first [ progress cbn [fst snd] | break_match ]); gs_facts; grp_of; try assumption.
  all: apply DbGInv_put_group; try assumption.
  all: match goal with H : g_claim ?now ?g ?c ?mi ?ids ?f = (_, ?g') |- GInv ?g' =>
    replace g' with (snd (g_claim now g c mi ids f)) by (rewrite H; reflexivity); apply claim_inv; assumption end.
Qed.
Theorem xpending_dbg now d parts : DbGInv d -> DbGInv (snd (h_xpending now d parts)).
Proof.
  intros Hd. unfold h_xpending.
  repeat (first [ progress cbn [fst snd] | break_match ]); gs_facts; try assumption.
Qed.
Theorem xinfo_dbg now d parts : DbGInv d -> DbGInv (snd (h_xinfo now d parts)).
Proof.
  intros Hd. unfold h_xinfo.
  repeat (first [ progress cbn [fst snd] | break_match ]); gs_facts; try assumption.
Qed.

(** the commands that change entries do not touch the groups *)
Lemma add_auto_groups now s f id s' : st_add_auto now s f = Some (id, s') -> s_groups s' = s_groups s.
Proof. unfold st_add_auto. destruct (gen_next now s) as [[[i ms] sq]|]; [|discriminate]. intros H; inversion H; reflexivity. Qed.
Lemma add_with_id_groups s id f s' : st_add_with_id s id f = Some s' -> s_groups s' = s_groups s.
Proof.
  unfold st_add_with_id. destruct (sid_leb id (s_last s)); [discriminate|]. destruct (has_id id (s_entries s)); [discriminate|].
  intros H; inversion H; reflexivity.
Qed.
Lemma delete_groups s ids : s_groups (snd (st_delete s ids)) = s_groups s.
Proof. unfold st_delete. destruct (0 <? _); reflexivity. Qed.
Lemma trim_groups s n : s_groups (snd (st_trim s n)) = s_groups s.
Proof. unfold st_trim. destruct (len (s_entries s) <=? n); reflexivity. Qed.

Ltac rs_facts Hd :=
  repeat match goal with
  | H : raw_stream _ _ = SStream _ _ |- _ =>
      let F1 := fresh "Hs" in let F2 := fresh "Hgs" in
      destruct (raw_stream_facts _ _ _ _ Hd H) as [F1 F2]; clear H
  end.

Theorem xadd_dbg d parts oracle : DbGInv d -> DbGInv (snd (h_xadd d parts oracle)).
Proof.
  intros Hd. unfold h_xadd.
  repeat (first [ progress cbn [fst snd] | break_match ]); try assumption; rs_facts Hd.
  all: first [ apply DbGInv_put_stream; [assumption| |] | unfold new_entry; apply DbGInv_put; [assumption| |] ].
  all: try match goal with
       | H : st_add_auto _ _ _ = Some _, Hs : SInv _ |- SInv _ => apply (add_auto_inv _ _ _ _ _ Hs H)
       | H : st_add_auto _ empty_stream _ = Some _ |- SInv _ => apply (add_auto_inv _ _ _ _ _ SInv_empty H)
       | H : st_add_with_id _ _ _ = Some _, Hs : SInv _ |- SInv _ => apply (add_with_id_inv _ _ _ _ Hs H)
       | H : st_add_with_id empty_stream _ _ = Some _ |- SInv _ => apply (add_with_id_inv _ _ _ _ SInv_empty H)
       | H : st_add_auto _ _ _ = Some _ |- groups_ok _ => rewrite (add_auto_groups _ _ _ _ _ H); first [assumption | exact groups_ok_nil]
       | H : st_add_with_id _ _ _ = Some _ |- groups_ok _ => rewrite (add_with_id_groups _ _ _ _ H); first [assumption | exact groups_ok_nil]
       end.
Qed.
Theorem xdel_dbg d parts : DbGInv d -> DbGInv (snd (h_xdel d parts)).
Proof.
  intros Hd. unfold h_xdel.
  repeat (first [ progress cbn [fst snd] | break_match ]); try assumption; rs_facts Hd.
  all: apply DbGInv_put_stream; [assumption| |].
  all: match goal with
       | H : st_delete ?s ?ids = (_, ?s'), Hs : SInv ?s |- SInv ?s' =>
           let K := fresh in pose proof (delete_inv s ids Hs) as K; rewrite H in K; apply K
       | H : st_delete ?s ?ids = (_, ?s') |- groups_ok (s_groups ?s') =>
           replace s' with (snd (st_delete s ids)) by (rewrite H; reflexivity); rewrite delete_groups; assumption
       end.
Qed.
Theorem xtrim_dbg d parts : DbGInv d -> DbGInv (snd (h_xtrim d parts)).
Proof.
  intros Hd. unfold h_xtrim.
  repeat (first [ progress cbn [fst snd] | break_match ]); try assumption; rs_facts Hd.
  all: apply DbGInv_put_stream; [assumption| |].
  all: match goal with
       | H : st_trim ?s ?n = (_, ?s'), Hs : SInv ?s, Hm : xtrim_maxlen _ = Some ?n |- SInv ?s' =>
           let K2 := fresh in
           pose proof (trim_inv s n Hs (xtrim_maxlen_nonneg _ _ Hm)) as K2; rewrite H in K2; apply K2
       | H : st_trim ?s ?n = (_, ?s') |- groups_ok (s_groups ?s') =>
           replace s' with (snd (st_trim s n)) by (rewrite H; reflexivity); rewrite trim_groups; assumption
       end.
Qed.

(** Every command of the stream family, with every argument list, at every time, keeps
    the stream invariant of every stream and the agreement invariant of every group of
    every stream in the database - XGROUP SETID to any ID, explicit-ID reads, re-delivery
    after SETID and failing commands included. *)
Theorem exec_streams_dbg now d name parts oracle r d' : DbGInv d ->
  exec_streams now d name parts oracle = Some (r, d') -> DbGInv d'.
Proof.
  intros Hd. unfold exec_streams.
  pose proof (xreads_pure d parts) as (P1 & P2 & P3 & P4).
  repeat match goal with |- context [if beq name ?x then _ else _] => destruct (beq name x) end;
    intros H; try discriminate; injection H as H; apply (f_equal snd) in H; cbn [snd] in H; subst d'.
  - apply xadd_dbg; assumption.
  - rewrite P1; assumption.
  - rewrite P2; assumption.
  - rewrite P3; assumption.
  - rewrite P4; assumption.
  - apply xtrim_dbg; assumption.
  - apply xdel_dbg; assumption.
  - apply xgroup_dbg; assumption.
  - apply xreadgroup_dbg; assumption.
  - apply xack_dbg; assumption.
  - apply xclaim_dbg; assumption.
  - apply xpending_dbg; assumption.
  - apply xinfo_dbg; assumption.
Qed.
(** ... hence along every history of commands (scripts as in the witnesses) *)
Theorem run_cmds_dbg now : forall cs d, DbGInv d -> DbGInv (snd (run_cmds now d cs)).
Proof.
  induction cs as [|c cs IH]; intros d Hd; cbn [run_cmds]; [exact Hd|].
  destruct c as [|[] ?]; try exact Hd.
  destruct (exec_streams now d (upper b) (FBulk b :: c) None) as [[f d1]|] eqn:E; [|exact Hd].
  pose proof (exec_streams_dbg _ _ _ _ _ _ _ Hd E) as Hd1. specialize (IH d1 Hd1).
  destruct (run_cmds now d1 cs). exact IH.
Qed.

(** ---- failure atomicity of XREADGROUP (after the repair 3384736) ---- *)
(** what storage.get does to the keys it visits: an expired key is removed *)
Definition expire_keys (now : Z) (ks : list bytes) (d : db) : db :=
  fold_left (fun d k => snd (eng_get now d k)) ks d.
Lemma get_stream_snd now d k : snd (get_stream now d k) = snd (eng_get now d k).
Proof. unfold get_stream. destruct (eng_get now d k) as [[[]| |] d1]; reflexivity. Qed.

(** a resolved read: the key holds a stream that is not expired and has the group *)
Definition resolved (now : Z) (gn : bytes) (d : db) (k : bytes) : Prop :=
  exists e s, get_entry d k = Some e /\ expired now e = false /\ e_val e = VStream s /\ alookup gn (s_groups s) <> None.
Lemma resolved_eng_get now gn d k k' : resolved now gn d k -> resolved now gn (snd (eng_get now d k')) k.
Proof.
  intros (e & s & H1 & H2 & H3 & H4). unfold eng_get. destruct (get_entry d k') as [e'|] eqn:E; [|exists e, s; auto].
  destruct (expired now e') eqn:Ex; [|exists e, s; auto]. cbn [snd].
  exists e, s. split; [|auto]. unfold get_entry, index_del, del_entry. cbn [d_data]. rewrite alookup_aremove.
  destruct (beq k k') eqn:Eb; [|exact H1]. apply beq_eq in Eb. subst k'. unfold get_entry in *. congruence.
Qed.
Lemma resolved_put_group now gn d k e s g k' :
  get_entry d k = Some e -> resolved now gn d k' -> resolved now gn (put_group d k e s gn g) k'.
Proof.
  intros He (e' & s' & H1 & H2 & H3 & H4). unfold put_group, put_stream, resolved. setoid_rewrite get_put_entry.
  destruct (beq k' k) eqn:Eb; [|exists e', s'; auto].
  apply beq_eq in Eb. subst k'. assert (e' = e) by congruence. subst e'.
  eexists _, _. split; [reflexivity|]. split; [exact H2|]. split; [reflexivity|].
  cbn [set_groups s_groups]. rewrite alookup_aput, beq_refl. discriminate.
Qed.

Lemma resolve_facts now gn : forall keys ids d acc r d1,
  Forall (fun ka => resolved now gn d (fst ka)) acc ->
  xreadgroup_resolve now d gn keys ids acc = (r, d1) ->
  (exists ks, d1 = expire_keys now ks d) /\
  (forall reads, r = inr reads -> Forall (fun ka => resolved now gn d1 (fst ka)) reads).
Proof.
  induction keys as [|kf keys IH]; intros ids d acc r d1 Hacc; cbn [xreadgroup_resolve].
  - intros H; inversion H; subst. split; [exists []; reflexivity|]. intros reads Hr; inversion Hr; subst. exact Hacc.
  - destruct ids as [|idf ids].
    { intros H; inversion H; subst. split; [exists []; reflexivity|]. intros reads Hr; inversion Hr; subst. exact Hacc. }
    destruct kf as [ | | |k| | | | | | | | | ]; try (intros H; inversion H; subst; split; [exists []; reflexivity | intros ? Hr; discriminate]).
    destruct idf as [ | | |ib| | | | | | | | | ]; try (intros H; inversion H; subst; split; [exists []; reflexivity | intros ? Hr; discriminate]).
    pose proof (get_stream_snd now d k) as Hsnd.
    assert (Hacc1 : Forall (fun ka => resolved now gn (snd (eng_get now d k)) (fst ka)) acc).
    { eapply Forall_impl; [|exact Hacc]. intros ka Hka. apply resolved_eng_get. exact Hka. }
    assert (Hone : exists ks, snd (eng_get now d k) = expire_keys now ks d) by (exists [k]; reflexivity).
    assert (Hchain : forall ks d2, d2 = expire_keys now ks (snd (eng_get now d k)) -> exists ks', d2 = expire_keys now ks' d).
    { intros ks d2 ->. exists (k :: ks). reflexivity. }
    destruct (get_stream now d k) as [res d0] eqn:Eg. cbn [snd] in Hsnd. subst d0.
    destruct res as [e s| |].
    + (* the key holds a live stream: the database is unchanged *)
      assert (Hlive : get_entry d k = Some e /\ expired now e = false /\ e_val e = VStream s /\ snd (eng_get now d k) = d).
      { unfold get_stream, eng_get in *. destruct (get_entry d k) as [e0|] eqn:Ee; [|discriminate].
        destruct (expired now e0) eqn:Ex; [discriminate|]. cbn [fst snd] in *. destruct (e_val e0) eqn:Ev; try discriminate.
        inversion Eg; subst. auto. }
      destruct Hlive as (L1 & L2 & L3 & L4).
      destruct (if beq ib (bs ">") then Some sid_max
                else if beq ib (bs "0") || beq ib (bs "0-0") then Some sid_zero else sid_of_bytes ib) as [a|].
      2:{ intros H; inversion H; subst. split; [exact Hone | intros ? Hr; discriminate]. }
      destruct (alookup gn (s_groups s)) as [g|] eqn:Egn.
      2:{ intros H; inversion H; subst. split; [exact Hone | intros ? Hr; discriminate]. }
      intros H. apply IH in H.
      * destruct H as [[ks Hks] Hr]. split; [eapply Hchain; exact Hks | exact Hr].
      * apply Forall_app. split; [exact Hacc1|]. constructor; [|constructor]. cbn [fst]. rewrite L4.
        exists e, s. rewrite Egn. repeat split; auto. discriminate.
    + intros H. apply IH in H; [|exact Hacc1].
      destruct H as [[ks Hks] Hr]. split; [eapply Hchain; exact Hks | exact Hr].
    + intros H; inversion H; subst. split; [exact Hone | intros ? Hr; discriminate].
Qed.

Lemma deliver_no_error now gn c o : forall reads d acc,
  Forall (fun ka => resolved now gn d (fst ka)) reads ->
  is_error (fst (xreadgroup_deliver now d gn c o reads acc)) = false.
Proof.
  induction reads as [|[k a] reads IH]; intros d acc Hres; cbn [xreadgroup_deliver].
  - destruct acc; [destruct (ro_block o)|]; reflexivity.
  - inversion Hres as [|? ? Hk Hrest]; subst. cbn [fst] in Hk. destruct Hk as (e & s & H1 & H2 & H3 & H4).
    unfold raw_stream. rewrite H1, H3. destruct (alookup gn (s_groups s)) as [g|] eqn:Eg; [|contradiction].
    assert (Hnext : forall g', Forall (fun ka => resolved now gn (put_group d k e s gn g') (fst ka)) reads).
    { intros g'. eapply Forall_impl; [|exact Hrest]. intros ka Hka. apply resolved_put_group; assumption. }
    destruct (st_read_group now s g c a (ro_count o) (ro_noack o)) as [es g'].
    destruct es; [destruct (sid_eqb a sid_max)|]; apply IH; auto.
Qed.

(** A failing XREADGROUP - whichever key, ID or group of a multi-key command is the
    offending one - changes no stream and no group: the database afterwards is the
    database before, minus the expired keys that storage.get removed on the way *)
Theorem xreadgroup_error_atomic now d parts :
  is_error (fst (h_xreadgroup now d parts)) = true ->
  exists ks, snd (h_xreadgroup now d parts) = expire_keys now ks d.
Proof.
  unfold h_xreadgroup.
  assert (Hsame : forall x : frame, exists ks, snd (x, d) = expire_keys now ks d) by (intros x; exists []; reflexivity).
  destruct (nparts parts <? 6); [intros _; apply (Hsame r_err)|].
  destruct (negb (is_kw (nth_error parts 1) "GROUP")); [intros _; apply (Hsame r_err)|].
  destruct (nth_arg parts 2) as [gn|]; [|intros _; apply (Hsame r_err)].
  destruct (nth_arg parts 3) as [c|]; [|intros _; apply (Hsame r_err)].
  destruct (scan_ropts _ _ _ _) as [o rest|]; [|intros _; apply (Hsame r_err)].
  destruct (negb (len rest mod 2 =? 0)); [intros _; apply (Hsame r_err)|].
  destruct (xreadgroup_resolve now d gn (firstn (Z.to_nat (len rest / 2)) rest) (skipn (Z.to_nat (len rest / 2)) rest) [])
    as [[err|reads] d1] eqn:E.
  - intros _. cbn [snd]. apply (resolve_facts now gn _ _ _ _ _ _ (Forall_nil _) E).
  - destruct (resolve_facts now gn _ _ _ _ _ _ (Forall_nil _) E) as [_ Hr]. specialize (Hr reads eq_refl).
    rewrite (deliver_no_error now gn c o reads d1 [] Hr). discriminate.
Qed.
Theorem xreadgroup_error_no_effect now d parts :
  (forall k e, get_entry d k = Some e -> expired now e = false) ->
  is_error (fst (h_xreadgroup now d parts)) = true -> snd (h_xreadgroup now d parts) = d.
Proof.
  intros Hne Herr. destruct (xreadgroup_error_atomic now d parts Herr) as [ks ->].
  unfold expire_keys. induction ks as [|k ks IH]; cbn [fold_left]; [reflexivity|].
  assert (snd (eng_get now d k) = d) as ->; [|exact IH].
  unfold eng_get. destruct (get_entry d k) as [e|] eqn:E; [|reflexivity]. rewrite (Hne k e E). reflexivity.
Qed.
