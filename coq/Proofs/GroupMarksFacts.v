(** C08 for the consumer-group commands (after ed8ba04): a group command that changes what
    is stored under a key marks that key - a key that is NOT marked has exactly the entry it
    had.  The stream analogue of Proofs/MarksFacts.v marks_complete_strings. *)
From Ferrous Require Import Base.Bytes Model.Resp Model.Types Model.Strings Model.Streams Model.Server
  Proofs.BytesFacts Proofs.StringsFacts Proofs.MarksFacts Proofs.StreamFacts Proofs.GroupFacts.
Open Scope Z_scope.

Lemma gone_is_removed d d' : gone_keys d d' = removed_keys d d'.
Proof. reflexivity. Qed.

Lemma get_stream_only_removes now d k : only_removes d (snd (get_stream now d k)).
Proof. rewrite get_stream_snd. apply eng_get_only_removes. Qed.
Lemma get_stream_other now d k0 k : beq k k0 = false -> get_entry (snd (get_stream now d k0)) k = get_entry d k.
Proof.
  intros H. rewrite get_stream_snd. unfold eng_get. destruct (get_entry d k0) as [e|]; [|reflexivity].
  destruct (expired now e); [|reflexivity]. cbn [snd]. rewrite get_entry_index_del. apply get_entry_del_other. exact H.
Qed.
(** a stream that was found is stored, unexpired, under its key, and the database is unchanged *)
Lemma get_stream_found now d k0 e s d1 : get_stream now d k0 = (SStream e s, d1) ->
  d1 = d /\ get_entry d k0 = Some e /\ e_val e = VStream s.
Proof.
  unfold get_stream, eng_get. destruct (get_entry d k0) as [e0|] eqn:E; [|discriminate].
  destruct (expired now e0); [discriminate|]. cbn [fst snd]. destruct (e_val e0) eqn:Ev; try discriminate.
  intros H; inversion H; subst. auto.
Qed.

(** the key the command names, when it is not marked as gone, kept its entry through storage.get *)
Lemma unmarked_after_get now d k0 res d1 k :
  get_stream now d k0 = (res, d1) -> bmem k (gone_keys d d1) = false -> get_entry d1 k = get_entry d k.
Proof.
  intros H Hn. apply removed_complete; [|exact Hn].
  replace d1 with (snd (get_stream now d k0)) by (rewrite H; reflexivity). apply get_stream_only_removes.
Qed.
(** ... and every other key is untouched by a write to the named key *)
Lemma unmarked_other now d k0 res d1 e k :
  get_stream now d k0 = (res, d1) -> beq k k0 = false -> get_entry (put_entry d1 k0 e) k = get_entry d k.
Proof.
  intros H Hk. rewrite (get_entry_put_other _ _ _ _ Hk).
  replace d1 with (snd (get_stream now d k0)) by (rewrite H; reflexivity). apply get_stream_other. exact Hk.
Qed.

Lemma aput_same {A} gn (g : A) gs : alookup gn gs = Some g -> aput gn g gs = gs.
Proof.
  induction gs as [|[k v] gs IH]; cbn [alookup aput]; [discriminate|].
  destruct (beq gn k) eqn:E; [intros H; inversion H; subst; apply beq_eq in E; subst; reflexivity|].
  intros H. f_equal. apply IH. exact H.
Qed.
(** writing back the group that was read stores the same entry *)
Lemma put_group_same d k0 e s gn g k : get_entry d k0 = Some e -> e_val e = VStream s ->
  alookup gn (s_groups s) = Some g -> get_entry (put_group d k0 e s gn g) k = get_entry d k.
Proof.
  intros He Hv Hg. unfold put_group, put_stream. rewrite (aput_same _ _ _ Hg).
  destruct (beq k k0) eqn:E.
  - apply beq_eq in E. subst k. rewrite get_entry_put_same, He. f_equal.
    destruct e as [v ex]. cbn [e_val e_exp] in *. subst v. destruct s; reflexivity.
  - apply get_entry_put_other. exact E.
Qed.

(** XACK that acknowledged nothing left the group as it was *)
Lemma ack_fold_zero ids : forall n g n' g', fold_left g_ack_one ids (n, g) = (n', g') -> n <= n' /\ (n' = n -> g' = g).
Proof.
  induction ids as [|id ids IH]; intros n g n' g' H; cbn [fold_left] in H; [inversion H; subst; split; [lia|auto]|].
  unfold g_ack_one at 2 in H. unfold pel_remove_entry in H. destruct (pel_find id (g_by_id g)) as [e|].
  - apply IH in H as [H1 H2]. split; [lia|]. intros ->. lia.
  - apply IH in H as [H1 H2]. split; [lia|exact H2].
Qed.
Lemma acknowledge_zero g ids g' : g_acknowledge g ids = (0, g') -> g' = g.
Proof.
  unfold g_acknowledge. destruct (fold_left g_ack_one ids (0, g)) as [n g1] eqn:E.
  apply ack_fold_zero in E as [H1 H2]. destruct (0 <? n) eqn:En; intros H; inversion H; subst; [apply Z.ltb_lt in En; lia|].
  apply H2. reflexivity.
Qed.

Ltac split_group_marks Hn :=
  unfold marks_streams in Hn; closed_beq; cbn [orb] in Hn;
  apply bmem_app_false in Hn as [Hgone Hn]; apply bmem_app_false in Hn as [Hreb Hn]; apply bmem_app_false in Hn as [Hfresh Hn];
  unfold marks_group_cmd in Hn; closed_beq.

Lemma acknowledge_nonneg g ids z g' : g_acknowledge g ids = (z, g') -> 0 <= z.
Proof.
  unfold g_acknowledge. destruct (fold_left g_ack_one ids (0, g)) as [n g1] eqn:E.
  apply ack_fold_zero in E as [H1 _]. intros H; inversion H; subst. exact H1.
Qed.

(** a write to the named key, which is marked: every other key is untouched *)
Ltac fin_marked :=
  match goal with
  | Hg : get_stream _ ?d ?k0 = (_, ?d1), Hn : bmem ?k [?k0] = false |- get_entry _ ?k = get_entry ?d ?k =>
      let Hk := fresh "Hk" in
      apply bmem_cons_false in Hn as [Hk _]; unfold put_group, put_stream; eapply unmarked_other; eassumption
  end.
(** no write: storage.get at most removed the named key, which would be marked as gone *)
Ltac fin_read := first [ reflexivity | eapply unmarked_after_get; eassumption ].

Theorem marks_complete_xack now d parts r d' k :
  h_xack now d parts = (r, d') -> bmem k (marks_streams d d' (bs "XACK") parts r) = false ->
  get_entry d' k = get_entry d k.
Proof.
  intros H Hn. split_group_marks Hn. unfold h_xack in H.
  repeat st_step; try fin_read; try fin_marked.
  (* nothing acknowledged: the group is written back unchanged *)
  destruct (get_stream_found _ _ _ _ _ _ Heqp) as (-> & He & Hv).
  pose proof (acknowledge_nonneg _ _ _ _ Heqp0). assert (z = 0) by lia. subst z.
  apply acknowledge_zero in Heqp0. subst g0. apply put_group_same; assumption.
Qed.

Lemma has_group_put_group d k e s gn g : has_group (put_group d k e s gn g) k gn = true.
Proof.
  unfold has_group, put_group, put_stream. rewrite get_entry_put_same. cbn [e_val set_groups s_groups].
  unfold amem. rewrite alookup_aput, beq_refl. reflexivity.
Qed.
Ltac fin_has_group :=
  exfalso;
  match goal with
  | H : context [has_group (put_group _ _ _ _ _ _) _ _] |- _ =>
      rewrite has_group_put_group in H; cbn [is_error negb andb r_entries] in H; discriminate
  end.

Theorem marks_complete_xclaim now d parts r d' k :
  h_xclaim now d parts = (r, d') -> bmem k (marks_streams d d' (bs "XCLAIM") parts r) = false ->
  get_entry d' k = get_entry d k.
Proof.
  intros H Hn. split_group_marks Hn. unfold h_xclaim in H.
  repeat st_step; try fin_read; try fin_marked; try fin_has_group.
Qed.
Theorem marks_complete_xpending now d parts r d' k :
  h_xpending now d parts = (r, d') -> bmem k (marks_streams d d' (bs "XPENDING") parts r) = false ->
  get_entry d' k = get_entry d k.
Proof.
  intros H Hn. split_group_marks Hn. unfold h_xpending in H.
  repeat st_step; try fin_read.
Qed.
Theorem marks_complete_xinfo now d parts r d' k :
  h_xinfo now d parts = (r, d') -> bmem k (marks_streams d d' (bs "XINFO") parts r) = false ->
  get_entry d' k = get_entry d k.
Proof.
  intros H Hn. split_group_marks Hn. unfold h_xinfo in H.
  repeat st_step; try fin_read.
Qed.
Ltac sub_marks Hn Hs Hu :=
  split_group_marks Hn; rewrite Hs in Hn; cbv zeta in Hn; rewrite Hu in Hn; closed_beq; cbn [orb] in Hn.

Ltac fin_absurd :=
  match goal with
  | H : (1 =? 1) = false |- _ => vm_compute in H; discriminate H
  | H : (0 =? 1) = true |- _ => vm_compute in H; discriminate H
  | H : amem _ (s_groups empty_stream) = true |- _ => cbn in H; discriminate H
  end.
(** MKSTREAM: set_value, then the group is stored - both on the named key *)
Ltac fin_mkstream :=
  match goal with
  | Hg : get_stream ?now ?d ?k0 = (_, ?d1), Hn : bmem ?k [?k0] = false
    |- get_entry (put_stream (put_entry ?d1 ?k0 _) ?k0 _ _) ?k = get_entry ?d ?k =>
      let Hk := fresh "Hk" in
      apply bmem_cons_false in Hn as [Hk _]; unfold put_stream; rewrite !(get_entry_put_other _ _ _ _ Hk);
      replace d1 with (snd (get_stream now d k0)) by (rewrite Hg; reflexivity); apply get_stream_other; exact Hk
  end.
Ltac fin_all := try fin_read; try fin_marked; try fin_has_group; try fin_absurd; try fin_mkstream.

Lemma mc_destroy now d parts r d' k sub : nth_arg parts 1 = Some sub -> upper sub = bs "DESTROY" ->
  h_xgroup_destroy now d parts = (r, d') -> bmem k (marks_streams d d' (bs "XGROUP") parts r) = false ->
  get_entry d' k = get_entry d k.
Proof.
  intros Hs Hu H Hn. sub_marks Hn Hs Hu. unfold h_xgroup_destroy in H.
  repeat st_step; fin_all.
Qed.
Lemma mc_createconsumer now d parts r d' k sub : nth_arg parts 1 = Some sub -> upper sub = bs "CREATECONSUMER" ->
  h_xgroup_createconsumer now d parts = (r, d') -> bmem k (marks_streams d d' (bs "XGROUP") parts r) = false ->
  get_entry d' k = get_entry d k.
Proof.
  intros Hs Hu H Hn. sub_marks Hn Hs Hu. unfold h_xgroup_createconsumer in H.
  repeat st_step; fin_all.
Qed.
Lemma mc_delconsumer now d parts r d' k sub : nth_arg parts 1 = Some sub -> upper sub = bs "DELCONSUMER" ->
  h_xgroup_delconsumer now d parts = (r, d') -> bmem k (marks_streams d d' (bs "XGROUP") parts r) = false ->
  get_entry d' k = get_entry d k.
Proof.
  intros Hs Hu H Hn. sub_marks Hn Hs Hu. unfold h_xgroup_delconsumer in H.
  repeat st_step; fin_all.
Qed.
Lemma mc_setid now d parts r d' k sub : nth_arg parts 1 = Some sub -> upper sub = bs "SETID" ->
  h_xgroup_setid now d parts = (r, d') -> bmem k (marks_streams d d' (bs "XGROUP") parts r) = false ->
  get_entry d' k = get_entry d k.
Proof.
  intros Hs Hu H Hn. sub_marks Hn Hs Hu. unfold h_xgroup_setid in H.
  repeat st_step; fin_all.
Qed.
Lemma mc_create now d parts r d' k sub : nth_arg parts 1 = Some sub -> upper sub = bs "CREATE" ->
  h_xgroup_create now d parts = (r, d') -> bmem k (marks_streams d d' (bs "XGROUP") parts r) = false ->
  get_entry d' k = get_entry d k.
Proof.
  intros Hs Hu H Hn. sub_marks Hn Hs Hu. unfold h_xgroup_create in H.
  repeat st_step; fin_all.
  (* the validation before MKSTREAM (7f9490b) and the start position disagree: impossible *)
  exfalso. destruct (beq b2 (bs "0")); cbn [negb andb orb] in *; discriminate.
Qed.

Theorem marks_complete_xgroup now d parts r d' k :
  h_xgroup now d parts = (r, d') -> bmem k (marks_streams d d' (bs "XGROUP") parts r) = false ->
  get_entry d' k = get_entry d k.
Proof.
  intros H Hn. unfold h_xgroup in H.
  destruct (nparts parts <? 2); [inversion H; reflexivity|].
  destruct (nth_arg parts 1) as [sub|] eqn:Hs; [|inversion H; reflexivity].
  cbv zeta in H.
  destruct (beq (upper sub) (bs "CREATE")) eqn:E1; [apply beq_eq in E1; eapply mc_create; eassumption|].
  destruct (beq (upper sub) (bs "DESTROY")) eqn:E2; [apply beq_eq in E2; eapply mc_destroy; eassumption|].
  destruct (beq (upper sub) (bs "CREATECONSUMER")) eqn:E3; [apply beq_eq in E3; eapply mc_createconsumer; eassumption|].
  destruct (beq (upper sub) (bs "DELCONSUMER")) eqn:E4; [apply beq_eq in E4; eapply mc_delconsumer; eassumption|].
  destruct (beq (upper sub) (bs "SETID")) eqn:E5; [apply beq_eq in E5; eapply mc_setid; eassumption|].
  destruct (beq (upper sub) (bs "HELP")); inversion H; reflexivity.
Qed.

(** ---- XREADGROUP ---- *)
Lemma bmem_filter_ext (f g : bytes -> bool) k l : f k = g k -> bmem k (filter f l) = bmem k (filter g l).
Proof.
  intros H. induction l as [|x l IH]; [reflexivity|]. cbn [filter].
  destruct (beq k x) eqn:E.
  - apply beq_eq in E. subst x. rewrite H. destruct (g k); cbn [bmem]; [rewrite beq_refl; reflexivity | exact IH].
  - destruct (f x), (g x); cbn [bmem]; rewrite ?E; cbn [orb]; exact IH.
Qed.
Lemma gone_keys_same_entry d X Y k : get_entry X k = get_entry Y k -> bmem k (gone_keys d X) = bmem k (gone_keys d Y).
Proof. intros H. unfold gone_keys. apply bmem_filter_ext. rewrite !amem_get_entry, H. reflexivity. Qed.

Lemma expire_keys_only_removes now ks : forall d, only_removes d (expire_keys now ks d).
Proof.
  unfold expire_keys. induction ks as [|k ks IH]; intros d; cbn [fold_left]; [apply only_removes_refl|].
  eapply only_removes_trans; [apply eng_get_only_removes | apply IH].
Qed.

Lemma reply_keys_snoc acc x : reply_keys (FArray (acc ++ [x])) =
  reply_keys (FArray acc) ++ match x with FArray (FBulk k :: _) => [k] | _ => [] end.
Proof. cbn [reply_keys]. rewrite flat_map_app. cbn [flat_map]. rewrite app_nil_r. reflexivity. Qed.

Lemma deliver_marks now gn c o k : forall reads d acc r d',
  Forall (fun ka => resolved now gn d (fst ka)) reads ->
  (forall a, In (k, a) reads -> a = sid_max) ->
  xreadgroup_deliver now d gn c o reads acc = (r, d') ->
  bmem k (reply_keys r) = false ->
  get_entry d' k = get_entry d k /\ bmem k (reply_keys (FArray acc)) = false.
Proof.
  induction reads as [|[k' a] reads IH]; intros d acc r d' Hres Hk H Hn; cbn [xreadgroup_deliver] in H.
  - destruct acc as [|x acc]; [destruct (ro_block o)|]; inversion H; subst; split; try reflexivity; exact Hn.
  - inversion Hres as [|? ? Hk' Hrest]; subst. cbn [fst] in Hk'. destruct Hk' as (e & s & H1 & H2 & H3 & H4).
    unfold raw_stream in H. rewrite H1, H3 in H. destruct (alookup gn (s_groups s)) as [g|] eqn:Eg; [|contradiction].
    assert (Hnext : forall g', Forall (fun ka => resolved now gn (put_group d k' e s gn g') (fst ka)) reads).
    { intros g'. eapply Forall_impl; [|exact Hrest]. intros ka Hka. apply resolved_put_group; assumption. }
    assert (Hk2 : forall a0, In (k, a0) reads -> a0 = sid_max) by (intros a0 Hin; apply Hk; right; exact Hin).
    assert (Hput : forall g', beq k k' = false -> get_entry (put_group d k' e s gn g') k = get_entry d k).
    { intros g' Hne. unfold put_group, put_stream. apply get_entry_put_other. exact Hne. }
    destruct (st_read_group now s g c a (ro_count o) (ro_noack o)) as [es g'].
    destruct es as [|e0 es].
    + destruct (sid_eqb a sid_max) eqn:Ea.
      * apply (IH _ _ _ _ Hrest Hk2 H Hn).
      * destruct (IH _ _ _ _ (Hnext g') Hk2 H Hn) as [I1 I2]. split; [|exact I2]. rewrite I1. apply Hput.
        destruct (beq k k') eqn:Eb; [|reflexivity]. apply beq_eq in Eb. subst k'.
        rewrite (Hk a (or_introl eq_refl)), sid_eqb_refl in Ea. discriminate.
    + destruct (IH _ _ _ _ (Hnext g') Hk2 H Hn) as [I1 I2]. rewrite reply_keys_snoc in I2.
      apply bmem_app_false in I2 as [I2 I3]. apply bmem_cons_false in I3 as [I3 _].
      split; [|exact I2]. rewrite I1. apply Hput. exact I3.
Qed.

(** the reads an XREADGROUP resolves: (key, ID) with [sid_max] standing for ">" *)
Definition xreadgroup_plan (now : Z) (d : db) (parts : list frame) : list (bytes * sid) :=
  match nth_arg parts 2 with
  | Some gn =>
      match scan_ropts (length parts) true (skipn 4 parts) {| ro_count := None; ro_block := None; ro_noack := false |} with
      | ScanOk o rest =>
          let n := Z.to_nat (len rest / 2) in
          match xreadgroup_resolve now d gn (firstn n rest) (skipn n rest) [] with
          | (inr reads, _) => reads
          | _ => []
          end
      | ScanErr => []
      end
  | None => []
  end.

(** XREADGROUP marks every stream it reports entries from; an unmarked key that is not read
    with an explicit ID has exactly the entry it had.  (A read with an explicit ID that
    reports nothing still registers the reader: finding group-reread-unmarked.) *)
Theorem marks_complete_xreadgroup now d parts r d' k :
  h_xreadgroup now d parts = (r, d') ->
  (forall a, In (k, a) (xreadgroup_plan now d parts) -> a = sid_max) ->
  bmem k (marks_streams d d' (bs "XREADGROUP") parts r) = false ->
  get_entry d' k = get_entry d k.
Proof.
  intros H Hplan Hn. split_group_marks Hn. unfold h_xreadgroup in H. unfold xreadgroup_plan in Hplan.
  destruct (nparts parts <? 6); [inversion H; reflexivity|].
  destruct (negb (is_kw (nth_error parts 1) "GROUP")); [inversion H; reflexivity|].
  destruct (nth_arg parts 2) as [gn|]; [|inversion H; reflexivity].
  destruct (nth_arg parts 3) as [c|]; [|inversion H; reflexivity].
  destruct (scan_ropts _ _ _ _) as [o rest|]; [|inversion H; reflexivity].
  destruct (negb (len rest mod 2 =? 0)); [inversion H; reflexivity|].
  cbv zeta in *.
  destruct (xreadgroup_resolve now d gn (firstn (Z.to_nat (len rest / 2)) rest) (skipn (Z.to_nat (len rest / 2)) rest) [])
    as [[err|reads] d1] eqn:E.
  - inversion H; subst. destruct (resolve_facts now gn _ _ _ _ _ _ (Forall_nil _) E) as [[ks ->] _].
    apply removed_complete; [apply expire_keys_only_removes | exact Hgone].
  - destruct (resolve_facts now gn _ _ _ _ _ _ (Forall_nil _) E) as [[ks Hks] Hr]. specialize (Hr reads eq_refl).
    destruct (deliver_marks now gn c o k reads d1 [] r d' Hr Hplan H Hn) as [Hsame _].
    rewrite Hsame. apply removed_complete; [subst d1; apply expire_keys_only_removes|].
    rewrite gone_is_removed in *. rewrite <- Hgone. symmetry. apply (gone_keys_same_entry d d' d1 k Hsame).
Qed.

(** the consumer-group commands together *)
Theorem marks_complete_groups now d name parts r d' k :
  (name = bs "XGROUP" /\ h_xgroup now d parts = (r, d')) \/ (name = bs "XACK" /\ h_xack now d parts = (r, d')) \/
  (name = bs "XCLAIM" /\ h_xclaim now d parts = (r, d')) \/ (name = bs "XPENDING" /\ h_xpending now d parts = (r, d')) \/
  (name = bs "XINFO" /\ h_xinfo now d parts = (r, d')) \/
  (name = bs "XREADGROUP" /\ h_xreadgroup now d parts = (r, d') /\
   forall a, In (k, a) (xreadgroup_plan now d parts) -> a = sid_max) ->
  bmem k (marks_streams d d' name parts r) = false ->
  get_entry d' k = get_entry d k.
Proof.
  intros [[-> H]|[[-> H]|[[-> H]|[[-> H]|[[-> H]|[-> [H Hp]]]]]]] Hn.
  - eapply marks_complete_xgroup; eassumption.
  - eapply marks_complete_xack; eassumption.
  - eapply marks_complete_xclaim; eassumption.
  - eapply marks_complete_xpending; eassumption.
  - eapply marks_complete_xinfo; eassumption.
  - eapply marks_complete_xreadgroup; eassumption.
Qed.
