(** C18, the reading half of isolation: what a command answers, and what it leaves in the
    selected database, is a function of the selected database alone (plus the connection table
    and the password, which are not databases).  Two servers that differ in the OTHER databases -
    and in their trackers, their append-only logs, their subscriptions - answer every command
    alike.  Model: Model/Server.v normal_command = dispatch_command after lazy_expire. *)
From Ferrous Require Import Base.Bytes Generated Model.Resp Model.Types Model.Server Model.Strings
  Proofs.ServerFacts Proofs.ExpiryFacts.
Open Scope Z_scope.

Definition agree (dbi : Z) (s1 s2 : server) : Prop :=
  length (s_dbs s1) = 16%nat /\ length (s_dbs s2) = 16%nat /\
  get_db s1 dbi = get_db s2 dbi /\ s_conns s1 = s_conns s2 /\ s_password s1 = s_password s2.

(** [s'] has the databases, connections and password of [s] *)
Definition same_core (s s' : server) : Prop :=
  s_dbs s' = s_dbs s /\ s_conns s' = s_conns s /\ s_password s' = s_password s.

Lemma agree_core dbi s1 s2 t1 t2 : agree dbi s1 s2 -> same_core s1 t1 -> same_core s2 t2 -> agree dbi t1 t2.
Proof.
  intros (L1 & L2 & D & C & P) (A1 & B1 & C1) (A2 & B2 & C2). unfold agree, get_db in *.
  rewrite A1, A2, B1, B2, C1, C2. repeat split; assumption.
Qed.
Lemma same_core_refl s : same_core s s. Proof. repeat split. Qed.
Lemma same_core_log_aof_in s dbi p : same_core s (log_aof_in s dbi p).
Proof. unfold log_aof_in, log_aof. destruct (same_db _ _); repeat split. Qed.
Lemma same_core_log_if (b : bool) s dbi p : same_core s (if b then log_aof_in s dbi p else s).
Proof. destruct b; [apply same_core_log_aof_in | apply same_core_refl]. Qed.

Lemma agree_set_conn dbi s1 s2 c cn : agree dbi s1 s2 -> agree dbi (set_conn s1 c cn) (set_conn s2 c cn).
Proof.
  intros (L1 & L2 & D & C & P). unfold agree, get_db, set_conn in *. cbn [s_dbs s_conns s_password].
  rewrite C. repeat split; assumption.
Qed.

Lemma len_list_set {A} (l : list A) : forall i x, length (list_set l i x) = length l.
Proof. induction l as [|y l IH]; intros [|i] x; cbn [list_set length]; try reflexivity. rewrite IH. reflexivity. Qed.
Lemma nth_map_const {A B} (e : B) (l : list A) : forall n, nth n (map (fun _ => e) l) e = e.
Proof. induction l as [|y l IH]; intros [|n]; cbn [map nth]; try reflexivity. apply IH. Qed.

(** writing the same database value into slot [dbi] of both servers keeps them in agreement *)
Lemma agree_set_db dbi s1 s2 d t1 t2 :
  0 <= dbi < 16 -> agree dbi s1 s2 -> agree dbi (set_trk (set_db s1 dbi d) dbi t1) (set_trk (set_db s2 dbi d) dbi t2).
Proof.
  intros Hd (L1 & L2 & D & C & P). unfold agree, get_db, set_trk, set_db in *. cbn [s_dbs s_conns s_password].
  rewrite !len_list_set. repeat split; try assumption.
  rewrite !nth_list_set_same by lia. reflexivity.
Qed.

Lemma agree_lazy_expire now dbi s1 s2 name parts :
  0 <= dbi < 16 -> agree dbi s1 s2 ->
  agree dbi (lazy_expire now s1 dbi name parts) (lazy_expire now s2 dbi name parts).
Proof.
  intros Hd Ha. unfold lazy_expire. destruct lazy_expiry_before_dispatch; [|exact Ha].
  destruct Ha as (L1 & L2 & D & C & P). rewrite D.
  destruct (expire_before now (get_db s2 dbi) name parts) as [d1 removed].
  apply agree_set_db; [exact Hd|]. repeat split; assumption.
Qed.

Ltac trivial_branch Ht := split; [reflexivity | exact Ht].

Lemma dispatch_local now s1 s2 c dbi parts oracle :
  0 <= dbi < 16 -> agree dbi s1 s2 -> beq (cmd_name parts) (bs "VERIF") = false ->
  fst (dispatch_command now s1 c dbi parts oracle) = fst (dispatch_command now s2 c dbi parts oracle) /\
  agree dbi (snd (dispatch_command now s1 c dbi parts oracle)) (snd (dispatch_command now s2 c dbi parts oracle)).
Proof.
  intros Hd Ha Hv. unfold dispatch_command. unfold cmd_name in Hv.
  destruct parts as [|first rest]; [trivial_branch Ha|].
  destruct first as [b|b|z|nm| |l| | | |b|bits|kvs|l]; try (trivial_branch Ha).
  cbv zeta. set (name := upper nm) in *.
  set (t1 := if logs_before name (FBulk nm :: rest) then log_aof_in s1 dbi (FBulk nm :: rest) else s1).
  set (t2 := if logs_before name (FBulk nm :: rest) then log_aof_in s2 dbi (FBulk nm :: rest) else s2).
  assert (Ht : agree dbi t1 t2).
  { apply (agree_core dbi s1 s2); [exact Ha | apply same_core_log_if | apply same_core_log_if]. }
  clearbody t1 t2. clear Ha s1 s2.
  destruct (beq name (bs "PING")); [trivial_branch Ht|].
  destruct (beq name (bs "ECHO")); [trivial_branch Ht|].
  destruct (beq name (bs "SELECT")).
  { destruct rest as [|a0 rest']; [trivial_branch Ht|].
    destruct rest' as [|a1 rest'']; [|destruct a0; trivial_branch Ht].
    destruct a0 as [b|b|z|a| |l| | | |b|bits|kvs|l]; try (trivial_branch Ht).
    destruct (parse_usize a) as [n|]; [|trivial_branch Ht].
    destruct (16 <=? n); [trivial_branch Ht|].
    assert (Hc : s_conns t1 = s_conns t2) by (destruct Ht as (_ & _ & _ & C & _); exact C).
    rewrite Hc. destruct (zlookup c (s_conns t2)) as [cn|]; [|trivial_branch Ht].
    split; [reflexivity|]. apply agree_set_conn. exact Ht. }
  destruct (beq name (bs "FLUSHALL")).
  { destruct (negb (len (FBulk nm :: rest) =? 1)); [trivial_branch Ht|].
    split; [reflexivity|]. destruct Ht as (L1 & L2 & D & C & P).
    unfold agree, get_db. cbn [snd s_dbs s_conns s_password]. rewrite !map_length, !nth_map_const.
    repeat split; assumption. }
  destruct (beq name (bs "RANDOMKEY")).
  { destruct Ht as (L1 & L2 & D & C & P). cbn [fst snd]. rewrite D. split; [reflexivity|]. repeat split; assumption. }
  destruct (beq name (bs "AUTH")).
  { unfold h_auth. destruct Ht as (L1 & L2 & D & C & P).
    assert (Ht : agree dbi t1 t2) by (repeat split; assumption).
    destruct rest as [|a0 rest']; [trivial_branch Ht|].
    destruct rest' as [|a1 rest'']; [|destruct a0; trivial_branch Ht].
    destruct a0 as [b|b|z|a| |l| | | |b|bits|kvs|l]; try (trivial_branch Ht).
    cbv beta iota. rewrite P. destruct (s_password t2) as [pw|]; [|trivial_branch Ht].
    destruct (beq a pw); [|trivial_branch Ht].
    rewrite C. destruct (zlookup 0 (s_conns t2)) as [cn|]; [|trivial_branch Ht].
    split; [reflexivity|]. apply agree_set_conn. exact Ht. }
  destruct (beq name (bs "QUIT")); [trivial_branch Ht|].
  rewrite Hv.
  assert (D : get_db t1 dbi = get_db t2 dbi) by (destruct Ht as (_ & _ & D & _); exact D).
  rewrite D.
  destruct (exec_db now (get_db t2 dbi) name (FBulk nm :: rest) oracle) as [[r d']|]; [|trivial_branch Ht].
  split; [reflexivity|]. cbn [snd].
  eapply agree_core; [apply (agree_set_db dbi t1 t2 d'); [exact Hd | exact Ht] | |];
    unfold same_core, log_after; cbn [s_dbs s_conns s_password]; repeat split.
Qed.

(** the whole of process_normal_command: the lazy expiry in front reads and writes the selected
    database (and its tracker) only *)
Lemma normal_command_local now s1 s2 c dbi parts oracle :
  0 <= dbi < 16 -> agree dbi s1 s2 -> beq (cmd_name parts) (bs "VERIF") = false ->
  fst (normal_command now s1 c dbi parts oracle) = fst (normal_command now s2 c dbi parts oracle) /\
  agree dbi (snd (normal_command now s1 c dbi parts oracle)) (snd (normal_command now s2 c dbi parts oracle)).
Proof.
  intros Hd Ha Hv. unfold normal_command.
  destruct parts as [|first rest]; [trivial_branch Ha|].
  destruct first as [b|b|z|nm| |l| | | |b|bits|kvs|l]; try (trivial_branch Ha).
  apply dispatch_local; [exact Hd | apply agree_lazy_expire; assumption | exact Hv].
Qed.

(** along any list of commands sent in one database: equal replies throughout *)
Fixpoint run_cmds_in (now : Z) (s : server) (c dbi : Z) (cmds : list (list frame)) : list frame * server :=
  match cmds with
  | [] => ([], s)
  | p :: r => match normal_command now s c dbi p None with
              | (rep, s1) => match run_cmds_in now s1 c dbi r with (reps, s2) => (rep :: reps, s2) end
              end
  end.
Lemma run_cmds_local now c dbi cmds : forall s1 s2,
  0 <= dbi < 16 -> agree dbi s1 s2 ->
  forallb (fun p => negb (beq (cmd_name p) (bs "VERIF"))) cmds = true ->
  fst (run_cmds_in now s1 c dbi cmds) = fst (run_cmds_in now s2 c dbi cmds) /\
  agree dbi (snd (run_cmds_in now s1 c dbi cmds)) (snd (run_cmds_in now s2 c dbi cmds)).
Proof.
  induction cmds as [|p r IH]; intros s1 s2 Hd Ha Hv; cbn [run_cmds_in].
  - split; [reflexivity|exact Ha].
  - cbn [forallb] in Hv. apply andb_prop in Hv. destruct Hv as [Hp Hr].
    apply Bool.negb_true_iff in Hp.
    destruct (normal_command_local now s1 s2 c dbi p None Hd Ha Hp) as [E A].
    destruct (normal_command now s1 c dbi p None) as [rep1 u1].
    destruct (normal_command now s2 c dbi p None) as [rep2 u2]. cbn [fst snd] in E, A.
    destruct (IH u1 u2 Hd A Hr) as [E2 A2].
    destruct (run_cmds_in now u1 c dbi r) as [reps1 v1]. destruct (run_cmds_in now u2 c dbi r) as [reps2 v2].
    cbn [fst snd] in *. subst. split; [reflexivity|exact A2].
Qed.

(** ---- FLUSHDB empties the selected database only, FLUSHALL every one ---- *)
Lemma exec_db_flushdb now d oracle :
  exec_db now d (upper (bs "FLUSHDB")) [FBulk (bs "FLUSHDB")] oracle = Some (r_ok, empty_db).
Proof. vm_compute. reflexivity. Qed.

Ltac eval_name_tests :=
  repeat match goal with
  | |- context [beq (upper (bs ?x)) (bs ?y)] =>
      let v := eval vm_compute in (beq (upper (bs x)) (bs y)) in
      change (beq (upper (bs x)) (bs y)) with v
  end; cbv beta iota.

Lemma flushall_empties now s c dbi oracle :
  fst (dispatch_command now s c dbi [FBulk (bs "FLUSHALL")] oracle) = r_ok /\
  forall j, get_db (snd (dispatch_command now s c dbi [FBulk (bs "FLUSHALL")] oracle)) j = empty_db.
Proof.
  unfold dispatch_command. cbv zeta.
  set (t := if logs_before _ _ then _ else _). clearbody t.
  eval_name_tests. change (negb (len [FBulk (bs "FLUSHALL")] =? 1)) with false. cbv beta iota.
  split; [reflexivity|]. intros j. unfold get_db. cbn [snd s_dbs]. apply nth_map_const.
Qed.

Lemma flushdb_empties now s c dbi oracle :
  0 <= dbi < 16 -> length (s_dbs s) = 16%nat ->
  fst (dispatch_command now s c dbi [FBulk (bs "FLUSHDB")] oracle) = r_ok /\
  get_db (snd (dispatch_command now s c dbi [FBulk (bs "FLUSHDB")] oracle)) dbi = empty_db /\
  forall j, 0 <= j -> j <> dbi -> get_db (snd (dispatch_command now s c dbi [FBulk (bs "FLUSHDB")] oracle)) j = get_db s j.
Proof.
  intros Hd Hl. split; [|split].
  - unfold dispatch_command. cbv zeta. set (t := if logs_before _ _ then _ else _). clearbody t.
    eval_name_tests. rewrite exec_db_flushdb. reflexivity.
  - unfold dispatch_command. cbv zeta. set (t := if logs_before _ _ then _ else _).
    assert (Lt : length (s_dbs t) = 16%nat).
    { subst t. destruct (logs_before _ _); [|exact Hl]. unfold log_aof_in, log_aof. destruct (same_db _ _); exact Hl. }
    clearbody t. eval_name_tests. rewrite exec_db_flushdb. cbn [snd].
    rewrite get_db_log_after, get_db_set_trk. unfold get_db, set_db. cbn [s_dbs]. apply nth_list_set_same. lia.
  - intros j Hj Hn. destruct (dispatch_command now s c dbi [FBulk (bs "FLUSHDB")] oracle) as [r s'] eqn:E.
    cbn [snd]. eapply dispatch_command_frame; [exact E | vm_compute; reflexivity | lia | exact Hj | exact Hn].
Qed.

(** ... for the whole of process_normal_command (the lazy expiry in front included) *)
Lemma lazy_expire_len now s dbi name parts :
  0 <= dbi < 16 -> length (s_dbs s) = 16%nat -> length (s_dbs (lazy_expire now s dbi name parts)) = 16%nat.
Proof.
  intros Hd Hl. assert (A : agree dbi s s) by (repeat split; assumption).
  destruct (agree_lazy_expire now dbi s s name parts Hd A) as (L & _). exact L.
Qed.
Lemma flushdb_normal now s c dbi oracle :
  0 <= dbi < 16 -> length (s_dbs s) = 16%nat ->
  fst (normal_command now s c dbi [FBulk (bs "FLUSHDB")] oracle) = r_ok /\
  get_db (snd (normal_command now s c dbi [FBulk (bs "FLUSHDB")] oracle)) dbi = empty_db /\
  forall j, 0 <= j -> j <> dbi -> get_db (snd (normal_command now s c dbi [FBulk (bs "FLUSHDB")] oracle)) j = get_db s j.
Proof.
  intros Hd Hl.
  change (normal_command now s c dbi [FBulk (bs "FLUSHDB")] oracle)
    with (dispatch_command now (lazy_expire now s dbi (upper (bs "FLUSHDB")) [FBulk (bs "FLUSHDB")]) c dbi [FBulk (bs "FLUSHDB")] oracle).
  destruct (flushdb_empties now (lazy_expire now s dbi (upper (bs "FLUSHDB")) [FBulk (bs "FLUSHDB")]) c dbi oracle Hd
              (lazy_expire_len now s dbi _ _ Hd Hl)) as (A & B & C).
  split; [exact A|]. split; [exact B|]. intros j Hj Hn. rewrite (C j Hj Hn). apply lazy_expire_frame; lia.
Qed.
Lemma flushall_normal now s c dbi oracle :
  fst (normal_command now s c dbi [FBulk (bs "FLUSHALL")] oracle) = r_ok /\
  forall j, get_db (snd (normal_command now s c dbi [FBulk (bs "FLUSHALL")] oracle)) j = empty_db.
Proof.
  change (normal_command now s c dbi [FBulk (bs "FLUSHALL")] oracle)
    with (dispatch_command now (lazy_expire now s dbi (upper (bs "FLUSHALL")) [FBulk (bs "FLUSHALL")]) c dbi [FBulk (bs "FLUSHALL")] oracle).
  apply flushall_empties.
Qed.
