(** Lemmas about the list / set / hash model (Model/Lists.v) for property C03. *)
From Coq Require Import Permutation.
From Ferrous Require Import Base.Bytes Model.Resp Model.Types Model.Strings Model.Lists
  Spec.Collections Proofs.BytesFacts.
From Ferrous Require Proofs.StringsFacts.
Open Scope Z_scope.

(** ------------------------------------------------------------------ *)
(** * zfirstn / zskipn *)

Lemma zfirstn_nonpos {A} n (l : list A) : n <= 0 -> zfirstn n l = [].
Proof. intros H. unfold zfirstn. replace (Z.to_nat n) with O by lia. reflexivity. Qed.
Lemma zfirstn_cons {A} n (x : A) l : 0 < n -> zfirstn n (x :: l) = x :: zfirstn (n - 1) l.
Proof.
  intros H. unfold zfirstn. replace (Z.to_nat n) with (S (Z.to_nat (n - 1))) by lia. reflexivity.
Qed.
Lemma zskipn_nonpos {A} n (l : list A) : n <= 0 -> zskipn n l = l.
Proof. intros H. unfold zskipn. replace (Z.to_nat n) with O by lia. reflexivity. Qed.
Lemma zskipn_cons {A} n (x : A) l : 0 < n -> zskipn n (x :: l) = zskipn (n - 1) l.
Proof.
  intros H. unfold zskipn. replace (Z.to_nat n) with (S (Z.to_nat (n - 1))) by lia. reflexivity.
Qed.
Lemma zfirstn_nil {A} n : zfirstn n (@nil A) = [].
Proof. unfold zfirstn. apply firstn_nil. Qed.
Lemma zskipn_nil {A} n : zskipn n (@nil A) = [].
Proof. unfold zskipn. apply skipn_nil. Qed.
Lemma zskipn_all {A} n (l : list A) : len l <= n -> zskipn n l = [].
Proof. intros H. unfold zskipn. apply skipn_all2. unfold len in H. lia. Qed.
Lemma zfirstn_all {A} n (l : list A) : len l <= n -> zfirstn n l = l.
Proof. intros H. unfold zfirstn. apply firstn_all2. unfold len in H. lia. Qed.
Lemma len_zskipn {A} n (l : list A) : 0 <= n <= len l -> len (zskipn n l) = len l - n.
Proof. intros H. unfold len, zskipn in *. rewrite skipn_length. lia. Qed.

(** ------------------------------------------------------------------ *)
(** * LRANGE / LTRIM normalisation *)

(** the scan keeps exactly the window [max s i, e] of global positions *)
Lemma slice_loop_window l : forall i s e,
  slice_loop i s e l = zfirstn (e + 1 - Z.max s i) (zskipn (s - i) l).
Proof.
  induction l as [|x r IH]; intros i s e.
  - cbn [slice_loop]. rewrite zskipn_nil, zfirstn_nil. reflexivity.
  - cbn [slice_loop]. rewrite IH.
    destruct (s <=? i) eqn:Hs; destruct (i <=? e) eqn:He; cbn [andb].
    + apply Z.leb_le in Hs. apply Z.leb_le in He.
      rewrite (zskipn_nonpos (s - i)) by lia. rewrite (zskipn_nonpos (s - (i + 1))) by lia.
      rewrite zfirstn_cons by lia. f_equal. f_equal. lia.
    + apply Z.leb_le in Hs. apply Z.leb_gt in He.
      rewrite (zfirstn_nonpos (e + 1 - Z.max s (i + 1))) by lia.
      rewrite (zfirstn_nonpos (e + 1 - Z.max s i)) by lia. reflexivity.
    + apply Z.leb_gt in Hs.
      rewrite (zskipn_cons (s - i)) by lia. f_equal; [lia | f_equal; lia].
    + apply Z.leb_gt in Hs.
      rewrite (zskipn_cons (s - i)) by lia. f_equal; [lia | f_equal; lia].
Qed.

Lemma norm_clamp_nonneg n i : 0 <= norm_clamp n i.
Proof. unfold norm_clamp. destruct (i <? 0) eqn:H; [lia | apply Z.ltb_ge in H; lia]. Qed.

Lemma list_slice_window l start stop :
  0 <= norm_stop (len l) stop ->
  list_slice l start stop =
  zfirstn (norm_stop (len l) stop + 1 - norm_clamp (len l) start)
          (zskipn (norm_clamp (len l) start) l).
Proof.
  intros He. unfold list_slice.
  replace (norm_stop (len l) stop <? 0) with false by (symmetry; apply Z.ltb_ge; lia).
  rewrite slice_loop_window.
  pose proof (norm_clamp_nonneg (len l) start).
  f_equal; [lia | f_equal; lia].
Qed.

(** LRANGE / LTRIM window = the Redis rule, for ALL lists, starts and stops *)
Lemma list_slice_spec l start stop : list_slice l start stop = redis_range l start stop.
Proof.
  unfold redis_range.
  pose proof (len_nonneg l) as Hn.
  assert (Hs : Z.max (if start <? 0 then len l + start else start) 0 = norm_clamp (len l) start).
  { unfold norm_clamp. destruct (start <? 0) eqn:H; [reflexivity | apply Z.ltb_ge in H; lia]. }
  rewrite Hs. pose proof (norm_clamp_nonneg (len l) start) as Hs0.
  change (if stop <? 0 then len l + stop else stop) with (norm_stop (len l) stop).
  destruct (Z.ltb_spec (norm_stop (len l) stop) 0) as [Hneg | Hpos].
  - (* stop before the head: nothing *)
    unfold list_slice. replace (norm_stop (len l) stop <? 0) with true by (symmetry; apply Z.ltb_lt; lia).
    replace (norm_stop (len l) stop <? norm_clamp (len l) start) with true by (symmetry; apply Z.ltb_lt; lia).
    reflexivity.
  - rewrite list_slice_window by exact Hpos.
    set (n := len l) in *. set (s := norm_clamp n start) in *. set (e := norm_stop n stop) in *.
    destruct (e <? s) eqn:H1; cbn [orb].
    + apply Z.ltb_lt in H1. apply zfirstn_nonpos. lia.
    + apply Z.ltb_ge in H1. destruct (n <=? s) eqn:H2.
      * apply Z.leb_le in H2. rewrite zskipn_all by (fold n; lia). apply zfirstn_nil.
      * apply Z.leb_gt in H2.
        destruct (Z.le_gt_cases e (n - 1)) as [Hin | Hout].
        { rewrite Z.min_l by lia. f_equal. lia. }
        rewrite Z.min_r by lia.
        rewrite !zfirstn_all; try reflexivity; rewrite len_zskipn; fold n; lia.
Qed.

(** ------------------------------------------------------------------ *)
(** * LINDEX / LSET addressing *)

Lemma list_index_spec l i : list_index l i = redis_index l i.
Proof.
  unfold list_index, redis_index, idx_ok, norm_idx.
  pose proof (len_nonneg l) as Hn. set (n := len l) in *.
  destruct (i <? 0) eqn:Hi.
  - apply Z.ltb_lt in Hi.
    replace (0 <=? i) with false by (symmetry; apply Z.leb_gt; lia). cbn [andb].
    destruct (0 <=? n + i) eqn:H1.
    + apply Z.leb_le in H1.
      replace (n + i <? n) with true by (symmetry; apply Z.ltb_lt; lia).
      replace (- n <=? i) with true by (symmetry; apply Z.leb_le; lia). reflexivity.
    + apply Z.leb_gt in H1.
      replace (- n <=? i) with false by (symmetry; apply Z.leb_gt; lia). reflexivity.
  - apply Z.ltb_ge in Hi.
    replace (0 <=? i) with true by (symmetry; apply Z.leb_le; lia). cbn [andb].
    destruct (i <? n); reflexivity.
Qed.

Lemma replace_nth_length l : forall i x, length (replace_nth l i x) = length l.
Proof. induction l as [|y r IH]; intros [|i] x; cbn; auto. Qed.
Lemma replace_nth_same l : forall i x, (i < length l)%nat -> nth_error (replace_nth l i x) i = Some x.
Proof.
  induction l as [|y r IH]; intros [|i] x H; cbn in *; try lia; auto. apply IH. lia.
Qed.
Lemma replace_nth_other l : forall i j x, i <> j -> nth_error (replace_nth l i x) j = nth_error l j.
Proof.
  induction l as [|y r IH]; intros [|i] [|j] x H; cbn; auto; try congruence.
Qed.

Lemma idx_ok_bounds n i : idx_ok n i = true -> 0 <= norm_idx n i < n.
Proof. unfold idx_ok. intros H. apply andb_prop in H. destruct H as [A B]. apply Z.leb_le in A. apply Z.ltb_lt in B. lia. Qed.

(** LSET then LINDEX: the addressed slot holds the new value, every other slot
    and the length are unchanged *)
Lemma lset_lindex l i v :
  idx_ok (len l) i = true ->
  let l' := replace_nth l (Z.to_nat (norm_idx (len l) i)) v in
  len l' = len l /\
  list_index l' i = Some v /\
  forall j, norm_idx (len l) j <> norm_idx (len l) i -> list_index l' j = list_index l j.
Proof.
  intros Hok l'. pose proof (idx_ok_bounds _ _ Hok) as Hb.
  assert (Hlen : len l' = len l) by (unfold len, l'; rewrite replace_nth_length; reflexivity).
  split; [exact Hlen | split].
  - unfold list_index. rewrite Hlen, Hok. unfold l'. apply replace_nth_same.
    set (m := norm_idx (len l) i) in *. unfold len in Hb. lia.
  - intros j Hj. unfold list_index. rewrite Hlen.
    destruct (idx_ok (len l) j) eqn:Hokj; [|reflexivity].
    pose proof (idx_ok_bounds _ _ Hokj) as Hbj.
    unfold l'. apply replace_nth_other. intros E. apply Hj. lia.
Qed.

(** ------------------------------------------------------------------ *)
(** * LREM *)

Lemma occ_cons x y l : occ x (y :: l) = (if beq y x then 1 else 0) + occ x l.
Proof. unfold occ. cbn [filter]. destruct (beq y x); [rewrite len_cons; lia | lia]. Qed.
Lemma occ_nonneg x l : 0 <= occ x l.
Proof. apply len_nonneg. Qed.
Lemma occ_app x a b : occ x (a ++ b) = occ x a + occ x b.
Proof. unfold occ. rewrite filter_app, len_app. reflexivity. Qed.
Lemma occ_rev x l : occ x (rev l) = occ x l.
Proof.
  induction l as [|y r IH]; [reflexivity|]. cbn [rev]. rewrite occ_app, IH, !occ_cons.
  unfold occ at 2. cbn. lia.
Qed.
Lemma without_app x a b : without x (a ++ b) = without x a ++ without x b.
Proof. apply filter_app. Qed.
Lemma without_rev x l : without x (rev l) = rev (without x l).
Proof.
  induction l as [|y r IH]; [reflexivity|]. cbn [rev]. rewrite without_app, IH.
  unfold without at 2 3. cbn [filter]. destruct (negb (beq y x)); cbn [rev app]; [reflexivity | apply app_nil_r].
Qed.

Lemma lrem_fwd_none x l : forall t, t <= 0 -> lrem_fwd x t l = (l, 0).
Proof.
  induction l as [|y r IH]; intros t Ht; [reflexivity|].
  cbn [lrem_fwd]. replace (0 <? t) with false by (symmetry; apply Z.ltb_ge; lia).
  rewrite andb_false_r. rewrite IH by lia. reflexivity.
Qed.

(** scanning with budget [t] removes the first min(t, occ) occurrences *)
Lemma lrem_fwd_spec x l : forall t r k, 0 <= t ->
  lrem_fwd x t l = (r, k) ->
  k = Z.min t (occ x l) /\ removed_prefix l x k r.
Proof.
  induction l as [|y l' IH]; intros t r k Ht H.
  - cbn in H. inversion H; subst. split; [unfold occ; cbn; lia|].
    exists [], []. repeat split.
  - destruct (Z.eq_dec t 0) as [E | NE].
    + rewrite lrem_fwd_none in H by lia. inversion H; subst.
      pose proof (occ_nonneg x (y :: l')). split; [lia|].
      exists [], (y :: l'). repeat split.
    + cbn [lrem_fwd] in H. replace (0 <? t) with true in H by (symmetry; apply Z.ltb_lt; lia).
      rewrite andb_true_r in H. rewrite occ_cons.
      destruct (beq y x) eqn:Hyx.
      * destruct (lrem_fwd x (t - 1) l') as [r' k'] eqn:Hrec. inversion H; subst.
        destruct (IH (t - 1) r k') as [Hk (p & s & Hl & Hr & Hp)]; [lia | exact Hrec |].
        split; [lia|]. exists (y :: p), s. repeat split.
        { cbn. rewrite Hl. reflexivity. }
        { unfold without. cbn [filter]. rewrite Hyx. cbn [negb]. exact Hr. }
        { rewrite occ_cons, Hyx. lia. }
      * destruct (lrem_fwd x t l') as [r' k'] eqn:Hrec. inversion H; subst.
        destruct (IH t r' k) as [Hk (p & s & Hl & Hr & Hp)]; [lia | exact Hrec |].
        split; [lia|]. exists (y :: p), s. repeat split.
        { cbn. rewrite Hl. reflexivity. }
        { unfold without. cbn [filter]. rewrite Hyx. cbn [negb app]. rewrite Hr. reflexivity. }
        { rewrite occ_cons, Hyx. lia. }
Qed.

Lemma list_rem_zero x l : list_rem 0 x l = (without x l, occ x l).
Proof. reflexivity. Qed.

Lemma list_rem_pos c x l : 0 < c ->
  exists r k, list_rem c x l = (r, k) /\ k = Z.min c (occ x l) /\ removed_prefix l x k r.
Proof.
  intros Hc. unfold list_rem.
  replace (c =? 0) with false by (symmetry; apply Z.eqb_neq; lia).
  replace (0 <? c) with true by (symmetry; apply Z.ltb_lt; lia).
  destruct (lrem_fwd x c l) as [r k] eqn:H. exists r, k. split; [reflexivity|].
  apply (lrem_fwd_spec x l c); [lia | exact H].
Qed.

(** every negative count, isize::MIN included *)
Lemma list_rem_neg c x l : c < 0 ->
  exists r k, list_rem c x l = (r, k) /\ k = Z.min (- c) (occ x l) /\ removed_suffix l x k r.
Proof.
  intros Hc. unfold list_rem.
  replace (c =? 0) with false by (symmetry; apply Z.eqb_neq; lia).
  replace (0 <? c) with false by (symmetry; apply Z.ltb_ge; lia).
  destruct (lrem_fwd x (- c) (rev l)) as [r k] eqn:H. exists (rev r), k. split; [reflexivity|].
  destruct (lrem_fwd_spec x (rev l) (- c) r k) as [Hk (p & s & Hl & Hr & Hp)]; [lia | exact H |].
  rewrite occ_rev in Hk. split; [exact Hk|].
  exists (rev s), (rev p). repeat split.
  - rewrite <- rev_app_distr, <- Hl. symmetry. apply rev_involutive.
  - rewrite Hr, rev_app_distr. f_equal. symmetry. apply without_rev.
  - rewrite occ_rev. exact Hp.
Qed.

(** the mirror law: a negative count is the positive count on the reversed list *)
Lemma list_rem_mirror c x l : c < 0 ->
  list_rem c x l = match list_rem (- c) x (rev l) with (r, k) => (rev r, k) end.
Proof.
  intros Hc. unfold list_rem.
  replace (c =? 0) with false by (symmetry; apply Z.eqb_neq; lia).
  replace (0 <? c) with false by (symmetry; apply Z.ltb_ge; lia).
  replace (- c =? 0) with false by (symmetry; apply Z.eqb_neq; lia).
  replace (0 <? - c) with true by (symmetry; apply Z.ltb_lt; lia).
  destruct (lrem_fwd x (- c) (rev l)); reflexivity.
Qed.

(** ------------------------------------------------------------------ *)
(** * membership / association-list facts *)

Lemma bmem_In x l : bmem x l = true <-> In x l.
Proof.
  induction l as [|y r IH]; cbn [bmem In]; [split; [discriminate | tauto]|].
  rewrite orb_true_iff, IH, beq_eq. split; intros [H | H]; auto.
Qed.
Lemma bmem_false x l : bmem x l = false <-> ~ In x l.
Proof. rewrite <- bmem_In. destruct (bmem x l); split; congruence. Qed.
Lemma beq_false a b : beq a b = false <-> a <> b.
Proof. rewrite <- beq_eq. destruct (beq a b); split; congruence. Qed.
Lemma beq_sym a b : beq a b = beq b a.
Proof.
  destruct (beq a b) eqn:H; symmetry.
  - apply beq_eq in H. subst. apply beq_refl.
  - apply beq_false. apply beq_false in H. congruence.
Qed.

Lemma bremove_In x y l : In y (bremove x l) <-> In y l /\ y <> x.
Proof.
  induction l as [|z r IH]; cbn [bremove In]; [tauto|].
  destruct (beq x z) eqn:H.
  - apply beq_eq in H. subst z. rewrite IH. split; [tauto|]. intros [[E | I] N]; [congruence | tauto].
  - apply beq_false in H. cbn [In]. rewrite IH. split.
    + intros [E | [I N]]; [subst; split; [auto | congruence] | tauto].
    + intros [[E | I] N]; tauto.
Qed.
Lemma bremove_NoDup x l : NoDup l -> NoDup (bremove x l).
Proof.
  induction 1 as [|z r Hn Hd IH]; cbn [bremove]; [constructor|].
  destruct (beq x z); [exact IH|]. constructor; [|exact IH].
  rewrite bremove_In. tauto.
Qed.
Lemma bremove_length x l : (length (bremove x l) <= length l)%nat.
Proof. induction l as [|z r IH]; cbn [bremove]; [lia|]. destruct (beq x z); cbn [length]; lia. Qed.

Lemma aremove_In {A} k (l : list (bytes * A)) p : In p (aremove k l) -> In p l.
Proof.
  induction l as [|[k' v] r IH]; cbn [aremove]; [tauto|].
  destruct (beq k k'); cbn [In]; intros H; [right; auto | destruct H; [left | right]; auto].
Qed.
Lemma alookup_In {A} k (l : list (bytes * A)) v : alookup k l = Some v -> In (k, v) l.
Proof.
  induction l as [|[k' v'] r IH]; cbn [alookup]; [discriminate|].
  destruct (beq k k') eqn:H; intros E.
  - apply beq_eq in H. inversion E; subst. left; reflexivity.
  - right; auto.
Qed.
Lemma aremove_fst_In {A} k y (l : list (bytes * A)) :
  In y (map fst (aremove k l)) <-> In y (map fst l) /\ y <> k.
Proof.
  induction l as [|[k' v] r IH]; cbn [aremove map In fst]; [tauto|].
  destruct (beq k k') eqn:H.
  - apply beq_eq in H. subst k'. rewrite IH. split; [tauto|]. intros [[E | I] N]; [congruence | tauto].
  - apply beq_false in H. cbn [map In fst]. rewrite IH. split.
    + intros [E | [I N]]; [subst; split; [auto | congruence] | tauto].
    + intros [[E | I] N]; tauto.
Qed.
Lemma aremove_NoDup {A} k (l : list (bytes * A)) : NoDup (map fst l) -> NoDup (map fst (aremove k l)).
Proof.
  induction l as [|[k' v] r IH]; cbn [aremove map fst]; intros H; [constructor|].
  inversion H as [|? ? Hn Hd]; subst.
  destruct (beq k k'); [auto|]. cbn [map fst]. constructor; [|auto].
  rewrite aremove_fst_In. tauto.
Qed.
Lemma aset_NoDup {A} k (v : A) l : NoDup (map fst l) -> NoDup (map fst (aset k v l)).
Proof.
  intros H. unfold aset. cbn [map fst]. constructor; [|apply aremove_NoDup; exact H].
  rewrite aremove_fst_In. tauto.
Qed.
Lemma amem_In {A} k (l : list (bytes * A)) : amem k l = true <-> In k (map fst l).
Proof.
  unfold amem. induction l as [|[k' v] r IH]; cbn [alookup map fst In]; [split; [discriminate | tauto]|].
  destruct (beq k k') eqn:H.
  - apply beq_eq in H. subst. split; auto.
  - apply beq_false in H. rewrite IH. split; [auto|]. intros [E | I]; [congruence | auto].
Qed.

(** ------------------------------------------------------------------ *)
(** * the per-key engine functions: refusals change nothing, stored collections stay
      non-empty and duplicate-free *)

Definition wf_opt (cur : option value) : Prop := match cur with Some v => wf_value v | None => True end.
Definition wf_upd (u : upd) : Prop := match u with Put v => wf_value v | _ => True end.
Definition atomic_e (f : option value -> frame * upd) : Prop :=
  forall cur, is_error (fst (f cur)) = true -> snd (f cur) = Keep.
Definition wf_e (f : option value -> frame * upd) : Prop :=
  forall cur, wf_opt cur -> wf_upd (snd (f cur)).

Ltac break_match :=
  match goal with
  | |- context [match ?x with _ => _ end] => destruct x eqn:?
  end.
Ltac red_reply :=
  cbn [fst snd is_error r_wrongtype r_err r_nil r_int r_bulk r_ok r_bulks PANIC BADORACLE opt_bulk wf_upd wf_opt].
Ltac solve_atomic :=
  intros cur; destruct cur as [[ | | | | | ]|]; red_reply;
  repeat break_match; red_reply; intros; try reflexivity; try discriminate.

Lemma atomic_push left els : atomic_e (e_push left els).
Proof. unfold atomic_e, e_push. solve_atomic. Qed.
Lemma atomic_pop left : atomic_e (e_pop left).
Proof. unfold atomic_e, e_pop. solve_atomic. Qed.
Lemma atomic_llen : atomic_e e_llen.
Proof. unfold atomic_e, e_llen. solve_atomic. Qed.
Lemma atomic_lrange s e : atomic_e (e_lrange s e).
Proof. unfold atomic_e, e_lrange. solve_atomic. Qed.
Lemma atomic_ltrim s e : atomic_e (e_ltrim s e).
Proof. unfold atomic_e, e_ltrim. solve_atomic. Qed.
Lemma atomic_lindex i : atomic_e (e_lindex i).
Proof. unfold atomic_e, e_lindex. solve_atomic. Qed.
Lemma atomic_lset i v : atomic_e (e_lset i v).
Proof. unfold atomic_e, e_lset. solve_atomic. Qed.
Lemma atomic_lrem c x : atomic_e (e_lrem c x).
Proof. unfold atomic_e, e_lrem. solve_atomic. Qed.
Lemma atomic_sadd ms : atomic_e (e_sadd ms).
Proof. unfold atomic_e, e_sadd. solve_atomic. Qed.
Lemma atomic_srem ms : atomic_e (e_srem ms).
Proof. unfold atomic_e, e_srem. solve_atomic. Qed.
Lemma atomic_smembers : atomic_e e_smembers.
Proof. unfold atomic_e, e_smembers. solve_atomic. Qed.
Lemma atomic_sismember m : atomic_e (e_sismember m).
Proof. unfold atomic_e, e_sismember. solve_atomic. Qed.
Lemma atomic_scard : atomic_e e_scard.
Proof. unfold atomic_e, e_scard. solve_atomic. Qed.
Lemma atomic_srandmember c o : atomic_e (e_srandmember c o).
Proof. unfold atomic_e, e_srandmember. solve_atomic. Qed.
Lemma atomic_spop sg c o : atomic_e (e_spop sg c o).
Proof. unfold atomic_e, e_spop. solve_atomic. Qed.
Lemma atomic_hset ok ps : atomic_e (e_hset ok ps).
Proof. unfold atomic_e, e_hset. solve_atomic. Qed.
Lemma atomic_hget f : atomic_e (e_hget f).
Proof. unfold atomic_e, e_hget. solve_atomic. Qed.
Lemma atomic_hmget fs : atomic_e (e_hmget fs).
Proof. unfold atomic_e, e_hmget. solve_atomic. Qed.
Lemma atomic_hgetall : atomic_e e_hgetall.
Proof. unfold atomic_e, e_hgetall. solve_atomic. Qed.
Lemma atomic_hdel fs : atomic_e (e_hdel fs).
Proof. unfold atomic_e, e_hdel. solve_atomic. Qed.
Lemma atomic_hlen : atomic_e e_hlen.
Proof. unfold atomic_e, e_hlen. solve_atomic. Qed.
Lemma atomic_hexists f : atomic_e (e_hexists f).
Proof. unfold atomic_e, e_hexists. solve_atomic. Qed.
Lemma atomic_hkeys : atomic_e e_hkeys.
Proof. unfold atomic_e, e_hkeys. solve_atomic. Qed.
Lemma atomic_hvals : atomic_e e_hvals.
Proof. unfold atomic_e, e_hvals. solve_atomic. Qed.
Lemma atomic_hincrby f inc : atomic_e (e_hincrby f inc).
Proof. unfold atomic_e, e_hincrby. solve_atomic. Qed.

(** ---- loops of the set / hash functions ---- *)
Lemma sadd_loop_spec ms : forall s a s' a', NoDup s ->
  sadd_loop s ms a = (s', a') ->
  NoDup s' /\ (forall m, In m s' <-> In m s \/ In m ms) /\ a' - a = len s' - len s.
Proof.
  induction ms as [|m r IH]; intros s a s' a' Hd H; cbn [sadd_loop] in H.
  - inversion H; subst. split; [auto | split; [cbn; tauto | lia]].
  - destruct (bmem m s) eqn:Hm.
    + destruct (IH _ _ _ _ Hd H) as (A & B & C). split; [auto | split; [|auto]].
      intros x. rewrite B. cbn [In]. apply bmem_In in Hm. split; [tauto|].
      intros [I | [E | I]]; [tauto | subst; tauto | tauto].
    + apply bmem_false in Hm.
      destruct (IH (m :: s) _ _ _ (NoDup_cons m Hm Hd) H) as (A & B & C).
      split; [auto | split].
      * intros x. rewrite B. cbn [In]. tauto.
      * rewrite len_cons in C. lia.
Qed.
Lemma sadd_loop_nonempty ms : forall s a, (s <> [] \/ ms <> []) -> fst (sadd_loop s ms a) <> [].
Proof.
  induction ms as [|m r IH]; intros s a H; cbn [sadd_loop].
  - cbn [fst]. destruct H; [auto | congruence].
  - destruct (bmem m s) eqn:Hm; apply IH; [|left; discriminate].
    left. intros E. subst s. discriminate.
Qed.

Lemma srem_loop_spec ms : forall s k s' k', NoDup s ->
  srem_loop s ms k = (s', k') ->
  NoDup s' /\ (forall m, In m s' <-> In m s /\ ~ In m ms) /\ k' - k = len s - len s'.
Proof.
  induction ms as [|m r IH]; intros s k s' k' Hd H; cbn [srem_loop] in H.
  - inversion H; subst. split; [auto | split; [cbn; tauto | lia]].
  - destruct (bmem m s) eqn:Hm.
    + destruct (IH _ _ _ _ (bremove_NoDup m s Hd) H) as (A & B & C). split; [auto | split].
      * intros x. rewrite B, bremove_In. cbn [In]. split; [intros [[I N] N2]; split; [auto|]; intros [E|I2]; [congruence | tauto] | ].
        intros [I N]. split; [split; [auto|] | tauto]. intros E. apply N. left. congruence.
      * (* exactly one element leaves: NoDup *)
        assert (L : len (bremove m s) = len s - 1).
        { apply bmem_In in Hm. clear - Hm Hd. induction Hd as [|z t Hn Hd IH]; [destruct Hm|].
          cbn [bremove]. destruct (beq m z) eqn:E.
          - apply beq_eq in E. subst z. rewrite len_cons.
            assert (bremove m t = t) as ->; [|lia].
            clear - Hn. induction t as [|y t IH]; [reflexivity|]. cbn [bremove].
            destruct (beq m y) eqn:E; [apply beq_eq in E; subst; exfalso; apply Hn; left; reflexivity|].
            f_equal. apply IH. intros I. apply Hn. right. exact I.
          - apply beq_false in E. destruct Hm as [E2 | I]; [congruence|].
            rewrite !len_cons, IH by exact I. lia. }
        lia.
    + destruct (IH _ _ _ _ Hd H) as (A & B & C). split; [auto | split; [|auto]].
      intros x. rewrite B. cbn [In]. apply bmem_false in Hm. split; [|tauto].
      intros [I N]. split; [auto|]. intros [E | I2]; [subst; tauto | tauto].
Qed.

Lemma remove_all_NoDup xs : forall s, NoDup s -> NoDup (remove_all xs s).
Proof.
  unfold remove_all. induction xs as [|x r IH]; intros s H; cbn [fold_left]; [auto|].
  apply IH. apply bremove_NoDup. exact H.
Qed.
Lemma remove_all_In xs : forall s m, In m (remove_all xs s) <-> In m s /\ ~ In m xs.
Proof.
  unfold remove_all. induction xs as [|x r IH]; intros s m; cbn [fold_left In]; [tauto|].
  rewrite IH, bremove_In. split; [intros [[I N] N2]; split; [auto|]; intros [E | I2]; [congruence | tauto] |].
  intros [I N]. split; [split; [auto|] | tauto]. intros E. apply N. left. congruence.
Qed.

Lemma hset_loop_NoDup ps : forall h a, NoDup (map fst h) -> NoDup (map fst (fst (hset_loop h ps a))).
Proof.
  induction ps as [|[f v] r IH]; intros h a H; cbn [hset_loop]; [exact H|].
  apply IH. apply aset_NoDup. exact H.
Qed.
Lemma hset_loop_nonempty ps : forall h a, (h <> [] \/ ps <> []) -> fst (hset_loop h ps a) <> [].
Proof.
  induction ps as [|[f v] r IH]; intros h a H; cbn [hset_loop].
  - cbn [fst]. destruct H; [auto | congruence].
  - apply IH. left. unfold aset. discriminate.
Qed.
Lemma hdel_loop_NoDup fs : forall h k, NoDup (map fst h) -> NoDup (map fst (fst (hdel_loop h fs k))).
Proof.
  induction fs as [|f r IH]; intros h k H; cbn [hdel_loop]; [exact H|].
  destruct (amem f h); apply IH; [apply aremove_NoDup|]; exact H.
Qed.

(** ---- every engine function keeps stored collections well-formed ---- *)
Ltac start_wf := intros cur Hwf; destruct cur as [[ | | | | | ]|]; red_reply; try exact I.

Lemma wf_push left els : els <> [] -> wf_e (e_push left els).
Proof.
  intros Hne. unfold wf_e, e_push. start_wf; cbn [wf_value].
  - destruct left; intros E; apply app_eq_nil in E; destruct E as [E1 E2]; [apply Hne | congruence].
    apply (f_equal (@rev bytes)) in E1. rewrite rev_involutive in E1. exact E1.
  - destruct left; [|exact Hne]. intros E. apply Hne.
    apply (f_equal (@rev bytes)) in E. rewrite rev_involutive in E. exact E.
Qed.
Lemma wf_pop left : wf_e (e_pop left).
Proof.
  unfold wf_e, e_pop. start_wf. destruct left.
  - destruct l as [|x [|y r]]; red_reply; try exact I. cbn [wf_value]. discriminate.
  - destruct (rev l) as [|x [|y r]]; red_reply; try exact I. cbn [wf_value rev].
    intros E. apply app_eq_nil in E. destruct E; discriminate.
Qed.
Lemma wf_keep_only f : (forall cur, snd (f cur) = Keep) -> wf_e f.
Proof. intros H cur _. rewrite H. exact I. Qed.
Ltac solve_keep := apply wf_keep_only; intros [[ | | | | | ]|]; red_reply; repeat break_match; reflexivity.
Lemma wf_llen : wf_e e_llen. Proof. unfold e_llen. solve_keep. Qed.
Lemma wf_lrange s e : wf_e (e_lrange s e). Proof. unfold e_lrange. solve_keep. Qed.
Lemma wf_lindex i : wf_e (e_lindex i). Proof. unfold e_lindex. solve_keep. Qed.
Lemma wf_smembers : wf_e e_smembers. Proof. unfold e_smembers. solve_keep. Qed.
Lemma wf_sismember m : wf_e (e_sismember m). Proof. unfold e_sismember. solve_keep. Qed.
Lemma wf_scard : wf_e e_scard. Proof. unfold e_scard. solve_keep. Qed.
Lemma wf_srandmember c o : wf_e (e_srandmember c o). Proof. unfold e_srandmember. solve_keep. Qed.
Lemma wf_hget f : wf_e (e_hget f). Proof. unfold e_hget. solve_keep. Qed.
Lemma wf_hmget fs : wf_e (e_hmget fs). Proof. unfold e_hmget. solve_keep. Qed.
Lemma wf_hgetall : wf_e e_hgetall. Proof. unfold e_hgetall. solve_keep. Qed.
Lemma wf_hlen : wf_e e_hlen. Proof. unfold e_hlen. solve_keep. Qed.
Lemma wf_hexists f : wf_e (e_hexists f). Proof. unfold e_hexists. solve_keep. Qed.
Lemma wf_hkeys : wf_e e_hkeys. Proof. unfold e_hkeys. solve_keep. Qed.
Lemma wf_hvals : wf_e e_hvals. Proof. unfold e_hvals. solve_keep. Qed.

Lemma wf_ltrim s e : wf_e (e_ltrim s e).
Proof.
  unfold wf_e, e_ltrim. start_wf. destruct (list_slice l s e) eqn:H; red_reply; [exact I|].
  cbn [wf_value]. discriminate.
Qed.
Lemma wf_lset i v : wf_e (e_lset i v).
Proof.
  unfold wf_e, e_lset. start_wf. destruct (idx_ok (len l) i); red_reply; [|exact I].
  cbn [wf_value] in *. intros E. apply Hwf. apply (f_equal (@length bytes)) in E.
  rewrite replace_nth_length in E. destruct l; [reflexivity | discriminate].
Qed.
Lemma wf_lrem c x : wf_e (e_lrem c x).
Proof.
  unfold wf_e, e_lrem. start_wf. destruct (list_rem c x l) as [[|y r] k]; red_reply; try exact I.
  cbn [wf_value]. discriminate.
Qed.
Lemma wf_sadd ms : ms <> [] -> wf_e (e_sadd ms).
Proof.
  intros Hne. unfold wf_e, e_sadd. start_wf.
  - destruct Hwf as [Hn Hd]. destruct (sadd_loop s ms 0) as [s' a] eqn:H. red_reply. cbn [wf_value].
    split; [|apply (sadd_loop_spec _ _ _ _ _ Hd H)].
    change s' with (fst (s', a)). rewrite <- H. apply sadd_loop_nonempty. left; exact Hn.
  - destruct (sadd_loop [] ms 0) as [s' a] eqn:H. red_reply. cbn [wf_value].
    split; [|apply (sadd_loop_spec _ _ _ _ _ (NoDup_nil _) H)].
    change s' with (fst (s', a)). rewrite <- H. apply sadd_loop_nonempty. right; exact Hne.
Qed.
Lemma wf_srem ms : wf_e (e_srem ms).
Proof.
  unfold wf_e, e_srem. start_wf. destruct Hwf as [Hn Hd].
  destruct (srem_loop s ms 0) as [[|y r] k] eqn:H; red_reply; [exact I|]. cbn [wf_value].
  split; [discriminate | apply (srem_loop_spec _ _ _ _ _ Hd H)].
Qed.
Lemma wf_spop sg c o : wf_e (e_spop sg c o).
Proof.
  unfold wf_e, e_spop. start_wf. destruct Hwf as [Hn Hd].
  destruct s as [|m0 s0]; red_reply; [destruct sg; exact I|].
  destruct (if sg then oracle_bulk o else oracle_bulks o) as [xs|]; red_reply; [|exact I].
  destruct (pick_distinct_ok (m0 :: s0) (Z.min c (len (m0 :: s0))) xs); red_reply; [|exact I].
  destruct (remove_all xs (m0 :: s0)) as [|y r] eqn:H; red_reply; [exact I|]. cbn [wf_value].
  split; [discriminate | rewrite <- H; apply remove_all_NoDup; exact Hd].
Qed.
Lemma wf_hset ok ps : ps <> [] -> wf_e (e_hset ok ps).
Proof.
  intros Hne. unfold wf_e, e_hset. start_wf.
  - destruct Hwf as [Hn Hd]. destruct (hset_loop h ps 0) as [h' a] eqn:H. red_reply. cbn [wf_value].
    change h' with (fst (h', a)). rewrite <- H.
    split; [apply hset_loop_nonempty; left; exact Hn | apply hset_loop_NoDup; exact Hd].
  - destruct (hset_loop [] ps 0) as [h' a] eqn:H. red_reply. cbn [wf_value].
    change h' with (fst (h', a)). rewrite <- H.
    split; [apply hset_loop_nonempty; right; exact Hne | apply hset_loop_NoDup; constructor].
Qed.
Lemma wf_hdel fs : wf_e (e_hdel fs).
Proof.
  unfold wf_e, e_hdel. start_wf. destruct Hwf as [Hn Hd].
  destruct (hdel_loop h fs 0) as [[|y r] k] eqn:H; red_reply; [exact I|]. cbn [wf_value].
  split; [discriminate|]. change (y :: r) with (fst (y :: r, k)). rewrite <- H. apply hdel_loop_NoDup. exact Hd.
Qed.
Lemma wf_hincrby f inc : wf_e (e_hincrby f inc).
Proof.
  unfold wf_e, e_hincrby. start_wf.
  - destruct Hwf as [Hn Hd]. destruct (alookup f h) as [b|].
    + destruct (parse_i64 b) as [c|]; red_reply; [|exact I].
      destruct (in_i64 (c + inc)); red_reply; [|exact I]. cbn [wf_value].
      split; [unfold aset; discriminate | apply aset_NoDup; exact Hd].
    + red_reply. cbn [wf_value]. split; [unfold aset; discriminate | apply aset_NoDup; exact Hd].
  - cbn [wf_value map fst]. split; [discriminate | constructor; [cbn; tauto | constructor]].
Qed.

(** ------------------------------------------------------------------ *)
(** * handlers *)

Lemma on_key_atomic d k f r d' :
  atomic_e f -> on_key d k f = (r, d') -> is_error r = true -> d' = d.
Proof.
  unfold on_key. intros Ha H He. specialize (Ha (option_map e_val (get_entry d k))).
  destruct (f (option_map e_val (get_entry d k))) as [r0 u]. inversion H; subst.
  cbn [fst snd] in Ha. rewrite (Ha He). reflexivity.
Qed.

Lemma on_key_wf d k f r d' :
  wf_e f -> on_key d k f = (r, d') -> wf_colls d -> wf_colls d'.
Proof.
  unfold on_key. intros Hw H Hd.
  assert (Hcur : wf_opt (option_map e_val (get_entry d k))).
  { unfold get_entry. destruct (alookup k (d_data d)) as [e|] eqn:E; cbn [option_map wf_opt]; [|exact I].
    apply (Hd k e). apply alookup_In. exact E. }
  specialize (Hw _ Hcur).
  destruct (f (option_map e_val (get_entry d k))) as [r0 u]. inversion H; subst. cbn [snd] in Hw.
  destruct u as [|v|]; cbn [apply_upd].
  - exact Hd.
  - intros k' e' Hin. unfold put_entry, aset in Hin. cbn [d_data In] in Hin.
    destruct Hin as [E | Hin]; [inversion E; subst; exact Hw | apply (Hd k' e'); eapply aremove_In; exact Hin].
  - intros k' e' Hin. unfold del_entry in Hin. cbn [d_data] in Hin.
    apply (Hd k' e'). eapply aremove_In; exact Hin.
Qed.

(** a handler is good: a refusal leaves the database untouched, and well-formed
    databases stay well-formed *)
Definition good_h (h : db -> list frame -> frame * db) : Prop :=
  forall d parts r d', h d parts = (r, d') ->
  (is_error r = true -> d' = d) /\ (wf_colls d -> wf_colls d').

Lemma good_refuse d r d' : (r_err, d) = (r, d') -> (is_error r = true -> d' = d) /\ (wf_colls d -> wf_colls d').
Proof. intros H. inversion H; subst. split; auto. Qed.
Lemma good_on_key d k f r d' : atomic_e f -> wf_e f -> on_key d k f = (r, d') ->
  (is_error r = true -> d' = d) /\ (wf_colls d -> wf_colls d').
Proof. intros A W H. split; [eapply on_key_atomic; eauto | eapply on_key_wf; eauto]. Qed.

Ltac refuse_or_go :=
  repeat match goal with
  | H : (r_err, _) = (_, _) |- _ => exact (good_refuse _ _ _ H)
  | H : context [if ?c then _ else _] |- _ => destruct c eqn:?
  | H : context [match ?x with _ => _ end] |- _ => destruct x eqn:?
  end.

Lemma all_bulks_nonempty l els : all_bulks l = Some els -> l <> [] -> els <> [].
Proof.
  destruct l as [|[]]; cbn [all_bulks]; intros H Hn; try congruence.
  destruct (all_bulks l); inversion H; subst. discriminate.
Qed.
Lemma pairs_of_nonempty l ps : pairs_of l = Some ps -> l <> [] -> ps <> [].
Proof.
  destruct l as [|[] [|[] l2]]; cbn [pairs_of]; intros H Hn; try congruence.
  destruct (pairs_of l2); inversion H; subst. discriminate.
Qed.
Lemma skipn2_nonempty (parts : list frame) : (nparts parts <? 3) = false -> skipn 2 parts <> [].
Proof.
  unfold nparts, len. intros H. apply Z.ltb_ge in H.
  destruct parts as [|a [|b [|c r]]]; cbn in H; try lia. cbn. discriminate.
Qed.
Lemma skipn2_nonempty4 (parts : list frame) : (nparts parts <? 4) = false -> skipn 2 parts <> [].
Proof.
  unfold nparts, len. intros H. apply Z.ltb_ge in H.
  destruct parts as [|a [|b [|c r]]]; cbn in H; try lia. cbn. discriminate.
Qed.

Lemma good_push left : good_h (h_push left).
Proof.
  intros d parts r d' H. unfold h_push in H. refuse_or_go.
  eapply good_on_key; [apply atomic_push | apply wf_push | exact H].
  eapply all_bulks_nonempty; [eassumption | apply skipn2_nonempty; assumption].
Qed.
Lemma good_key1 f : atomic_e f -> wf_e f -> good_h (h_key1 f).
Proof. intros A W d parts r d' H. unfold h_key1 in H. refuse_or_go. eapply good_on_key; eauto. Qed.
Lemma good_key_bulk f : (forall a, atomic_e (f a)) -> (forall a, wf_e (f a)) -> good_h (h_key_bulk f).
Proof. intros A W d parts r d' H. unfold h_key_bulk in H. refuse_or_go. eapply good_on_key; eauto. Qed.
Lemma good_range f : (forall s e, atomic_e (f s e)) -> (forall s e, wf_e (f s e)) -> good_h (h_range f).
Proof. intros A W d parts r d' H. unfold h_range in H. refuse_or_go. eapply good_on_key; eauto. Qed.
Lemma good_lindex : good_h h_lindex.
Proof.
  intros d parts r d' H. unfold h_lindex in H. refuse_or_go.
  eapply good_on_key; [apply atomic_lindex | apply wf_lindex | exact H].
Qed.
Lemma good_int_bulk f : (forall i v, atomic_e (f i v)) -> (forall i v, wf_e (f i v)) -> good_h (h_int_bulk f).
Proof. intros A W d parts r d' H. unfold h_int_bulk in H. refuse_or_go. eapply good_on_key; eauto. Qed.
Lemma good_sadd : good_h h_sadd.
Proof.
  intros d parts r d' H. unfold h_sadd in H. refuse_or_go.
  eapply good_on_key; [apply atomic_sadd | apply wf_sadd | exact H].
  eapply all_bulks_nonempty; [eassumption | apply skipn2_nonempty; assumption].
Qed.
Lemma good_skipping f : (forall ms, atomic_e (f ms)) -> (forall ms, wf_e (f ms)) -> good_h (h_skipping f).
Proof. intros A W d parts r d' H. unfold h_skipping in H. refuse_or_go. eapply good_on_key; eauto. Qed.
Lemma good_setalg f : good_h (h_setalg f).
Proof.
  intros d parts r d' H. unfold h_setalg in H. refuse_or_go. inversion H; subst. split; auto.
Qed.
Lemma good_srandmember o : good_h (fun d parts => h_srandmember d parts o).
Proof.
  intros d parts r d' H. unfold h_srandmember in H. refuse_or_go;
  (eapply good_on_key; [apply atomic_srandmember | apply wf_srandmember | exact H]).
Qed.
Lemma good_spop o : good_h (fun d parts => h_spop d parts o).
Proof.
  intros d parts r d' H. unfold h_spop in H. refuse_or_go;
  (eapply good_on_key; [apply atomic_spop | apply wf_spop | exact H]).
Qed.
Lemma good_hset ok : good_h (h_hset ok).
Proof.
  intros d parts r d' H. unfold h_hset in H. refuse_or_go.
  eapply good_on_key; [apply atomic_hset | apply wf_hset | exact H].
  eapply pairs_of_nonempty; [eassumption|].
  apply skipn2_nonempty4.
  match goal with Hx : (_ || _) = false |- _ => apply orb_false_elim in Hx; tauto end.
Qed.
Lemma good_hmget : good_h h_hmget.
Proof.
  intros d parts r d' H. unfold h_hmget in H. refuse_or_go.
  eapply good_on_key; [apply atomic_hmget | apply wf_hmget | exact H].
Qed.
Lemma good_hincrby : good_h h_hincrby.
Proof.
  intros d parts r d' H. unfold h_hincrby in H. refuse_or_go.
  eapply good_on_key; [apply atomic_hincrby | apply wf_hincrby | exact H].
Qed.

Lemma exec_lists_good now d name parts o r d' :
  exec_lists now d name parts o = Some (r, d') ->
  (is_error r = true -> d' = d) /\ (wf_colls d -> wf_colls d').
Proof.
  unfold exec_lists. intros H.
  repeat match type of H with
  | (if ?c then _ else _) = _ => destruct c
  end; try discriminate; inversion H as [H1]; clear H; revert H1.
  - apply good_push.
  - apply good_push.
  - apply good_key1; [apply atomic_pop | apply wf_pop].
  - apply good_key1; [apply atomic_pop | apply wf_pop].
  - apply good_key1; [apply atomic_llen | apply wf_llen].
  - apply good_range; [apply atomic_lrange | apply wf_lrange].
  - apply good_lindex.
  - apply good_int_bulk; [apply atomic_lset | apply wf_lset].
  - apply good_range; [apply atomic_ltrim | apply wf_ltrim].
  - apply good_int_bulk; [apply atomic_lrem | apply wf_lrem].
  - apply good_sadd.
  - apply good_skipping; [apply atomic_srem | apply wf_srem].
  - apply good_key1; [apply atomic_smembers | apply wf_smembers].
  - apply good_key_bulk; [apply atomic_sismember | apply wf_sismember].
  - apply good_key1; [apply atomic_scard | apply wf_scard].
  - apply good_setalg.
  - apply good_setalg.
  - apply good_setalg.
  - apply (good_srandmember o).
  - apply (good_spop o).
  - apply good_hset.
  - apply good_hset.
  - apply good_key_bulk; [apply atomic_hget | apply wf_hget].
  - apply good_hmget.
  - apply good_key1; [apply atomic_hgetall | apply wf_hgetall].
  - apply good_skipping; [apply atomic_hdel | apply wf_hdel].
  - apply good_key1; [apply atomic_hlen | apply wf_hlen].
  - apply good_key_bulk; [apply atomic_hexists | apply wf_hexists].
  - apply good_key1; [apply atomic_hkeys | apply wf_hkeys].
  - apply good_key1; [apply atomic_hvals | apply wf_hvals].
  - apply good_hincrby.
Qed.

(** the C01 invariant (keys of the dataset and of the deadline index are unique,
    Proofs/StringsFacts.v) is preserved by every command of this family as well *)
Lemma on_key_keys_wf d k f : StringsFacts.wf_db d -> StringsFacts.wf_db (snd (on_key d k f)).
Proof.
  intros H. unfold on_key. destruct (f (option_map e_val (get_entry d k))) as [r u]. cbn [snd].
  destruct u; cbn [apply_upd]; [exact H | apply StringsFacts.wf_put; exact H | apply StringsFacts.wf_del; exact H].
Qed.
Ltac go_keys :=
  repeat match goal with
  | |- StringsFacts.wf_db (snd (r_err, _)) => assumption
  | |- StringsFacts.wf_db (snd (on_key _ _ _)) => apply on_key_keys_wf; assumption
  | |- StringsFacts.wf_db (snd (if ?c then _ else _)) => destruct c
  | |- StringsFacts.wf_db (snd (match ?x with _ => _ end)) => destruct x
  end.
Lemma exec_lists_keys_wf now d name parts o r d' :
  exec_lists now d name parts o = Some (r, d') -> StringsFacts.wf_db d -> StringsFacts.wf_db d'.
Proof.
  unfold exec_lists. intros H Hw.
  repeat match type of H with
  | (if ?c then _ else _) = _ => destruct c
  end; try discriminate; inversion H as [H1]; clear H;
  change d' with (snd (r, d')); rewrite <- H1;
  unfold h_push, h_key1, h_key_bulk, h_range, h_lindex, h_int_bulk, h_sadd, h_skipping, h_setalg,
         h_srandmember, h_spop, h_hset, h_hmget, h_hincrby; go_keys; assumption.
Qed.

(** ---- histories ---- *)
(** one command of a history: logical time, upper-cased name, the whole request, the oracle *)
Record hcmd := { h_now : Z; h_name : bytes; h_parts : list frame; h_oracle : option frame }.
Definition c03_step (d : db) (c : hcmd) : db :=
  match exec_lists (h_now c) d (h_name c) (h_parts c) (h_oracle c) with
  | Some (_, d') => d'
  | None => d
  end.
Definition c03_run (d : db) (cs : list hcmd) : db := fold_left c03_step cs d.

Lemma wf_empty_db : wf_colls empty_db.
Proof. intros k e H. destruct H. Qed.
Lemma c03_step_wf d c : wf_colls d -> wf_colls (c03_step d c).
Proof.
  unfold c03_step. intros H.
  destruct (exec_lists (h_now c) d (h_name c) (h_parts c) (h_oracle c)) as [[r d']|] eqn:E; [|exact H].
  apply (exec_lists_good _ _ _ _ _ _ _ E). exact H.
Qed.
Lemma c03_run_wf cs : forall d, wf_colls d -> wf_colls (c03_run d cs).
Proof.
  unfold c03_run. induction cs as [|c r IH]; intros d H; cbn [fold_left]; [exact H|].
  apply IH. apply c03_step_wf. exact H.
Qed.

(** ------------------------------------------------------------------ *)
(** * random picks *)

Lemma nodupb_NoDup l : nodupb l = true <-> NoDup l.
Proof.
  induction l as [|x r IH]; cbn [nodupb]; [split; [constructor | reflexivity]|].
  rewrite andb_true_iff, negb_true_iff, bmem_false, IH. split.
  - intros [A B]. constructor; assumption.
  - intros H. inversion H; subst. tauto.
Qed.
Lemma all_in_incl xs s : all_in xs s = true <-> incl xs s.
Proof.
  unfold all_in, incl. rewrite forallb_forall. split; intros H x Hx; [apply bmem_In | apply bmem_In]; auto.
Qed.
Lemma pick_distinct_ok_spec s n xs :
  pick_distinct_ok s n xs = true <-> len xs = n /\ NoDup xs /\ incl xs s.
Proof.
  unfold pick_distinct_ok. rewrite !andb_true_iff, Z.eqb_eq, nodupb_NoDup, all_in_incl. tauto.
Qed.
Lemma pick_repeat_ok_spec s n xs :
  pick_repeat_ok s n xs = true <-> len xs = n /\ incl xs s.
Proof. unfold pick_repeat_ok. rewrite !andb_true_iff, Z.eqb_eq, all_in_incl. tauto. Qed.

Lemma binsert_perm x l : Permutation (binsert x l) (x :: l).
Proof.
  induction l as [|y r IH]; cbn [binsert]; [reflexivity|].
  destruct (bleb x y); [reflexivity|].
  rewrite IH. apply perm_swap.
Qed.
Lemma bsort_perm l : Permutation (bsort l) l.
Proof.
  unfold bsort. induction l as [|x r IH]; cbn [fold_right]; [reflexivity|].
  rewrite binsert_perm. constructor. exact IH.
Qed.
Lemma bsort_In l x : In x (bsort l) <-> In x l.
Proof. split; apply Permutation_in; [apply bsort_perm | symmetry; apply bsort_perm]. Qed.

Lemma all_bulks_map xs : all_bulks (map FBulk xs) = Some xs.
Proof. induction xs as [|x r IH]; cbn [map all_bulks]; [reflexivity | rewrite IH; reflexivity]. Qed.

(** what the reply of a pick looks like *)
Definition pick_reply (single : bool) (xs : list bytes) : frame :=
  if single then match xs with m :: _ => r_bulk m | [] => r_nil end else r_bulks (bsort xs).
Definition spop_upd (s xs : list bytes) : upd :=
  match remove_all xs s with [] => Del | s' => Put (VSet s') end.

(** SPOP: whatever the oracle says, an answer that is not an error removed exactly the
    members it returned, and those were min(count, card) distinct members *)
Lemma spop_sound sg c o s r u :
  s <> [] -> e_spop sg c o (Some (VSet s)) = (r, u) -> is_error r = false ->
  exists xs, len xs = Z.min c (len s) /\ NoDup xs /\ incl xs s /\
             r = pick_reply sg xs /\ u = spop_upd s xs /\
             forall m, In m (remove_all xs s) <-> In m s /\ ~ In m xs.
Proof.
  intros Hne H He. unfold e_spop in H. destruct s as [|m0 s0]; [congruence|].
  destruct (if sg then oracle_bulk o else oracle_bulks o) as [xs|];
    [|inversion H; subst; discriminate].
  destruct (pick_distinct_ok (m0 :: s0) (Z.min c (len (m0 :: s0))) xs) eqn:Hok;
    [|inversion H; subst; discriminate].
  apply pick_distinct_ok_spec in Hok. destruct Hok as (A & B & C).
  exists xs. inversion H; subst. repeat split; auto; try apply remove_all_In.
  - apply remove_all_In in H0. tauto.
  - apply remove_all_In in H0. tauto.
Qed.

(** ... and every admissible choice is followed *)
Lemma spop_follows c s xs :
  s <> [] -> len xs = Z.min c (len s) -> NoDup xs -> incl xs s ->
  e_spop false c (Some (FArray (map FBulk xs))) (Some (VSet s)) = (r_bulks (bsort xs), spop_upd s xs).
Proof.
  intros Hne A B C. unfold e_spop. destruct s as [|m0 s0]; [congruence|].
  cbn [oracle_bulks]. rewrite all_bulks_map.
  replace (pick_distinct_ok (m0 :: s0) (Z.min c (len (m0 :: s0))) xs) with true
    by (symmetry; apply pick_distinct_ok_spec; auto).
  reflexivity.
Qed.
Lemma spop_single_follows s m :
  In m s -> e_spop true 1 (Some (FBulk m)) (Some (VSet s)) = (r_bulk m, spop_upd s [m]).
Proof.
  intros Hin. unfold e_spop. destruct s as [|m0 s0]; [destruct Hin|].
  cbn [oracle_bulk].
  replace (pick_distinct_ok (m0 :: s0) (Z.min 1 (len (m0 :: s0))) [m]) with true; [reflexivity|].
  symmetry. apply pick_distinct_ok_spec. repeat split.
  - rewrite !len_cons, len_nil. pose proof (len_nonneg s0). lia.
  - constructor; [cbn; tauto | constructor].
  - intros x [E | []]. subst. exact Hin.
Qed.
(** an inadmissible oracle is refused with a distinctive error and changes nothing *)
Lemma spop_refuses_bad c s xs :
  s <> [] -> ~ (len xs = Z.min c (len s) /\ NoDup xs /\ incl xs s) ->
  e_spop false c (Some (FArray (map FBulk xs))) (Some (VSet s)) = (BADORACLE, Keep).
Proof.
  intros Hne Hbad. unfold e_spop. destruct s as [|m0 s0]; [congruence|].
  cbn [oracle_bulks]. rewrite all_bulks_map.
  destruct (pick_distinct_ok (m0 :: s0) (Z.min c (len (m0 :: s0))) xs) eqn:Hok; [|reflexivity].
  apply pick_distinct_ok_spec in Hok. tauto.
Qed.

(** SRANDMEMBER never changes anything *)
Lemma srandmember_readonly c o cur : snd (e_srandmember c o cur) = Keep.
Proof.
  unfold e_srandmember. destruct cur as [[ | | | | | ]|]; red_reply; repeat break_match; reflexivity.
Qed.

(** SRANDMEMBER: an answer that is not an error consists of current members only;
    without count one member, with count >= 0 min(count, card) distinct members,
    with count < 0 exactly -count members (repetition allowed) *)
Lemma srandmember_sound c o s r u :
  s <> [] -> e_srandmember c o (Some (VSet s)) = (r, u) -> is_error r = false ->
  u = Keep /\
  exists xs, incl xs s /\
    match c with
    | None => len xs = 1 /\ r = pick_reply true xs
    | Some n => r = pick_reply false xs /\
                if 0 <=? n then len xs = Z.min n (len s) /\ NoDup xs else len xs = - n
    end.
Proof.
  intros Hne H He. split.
  { pose proof (srandmember_readonly c o (Some (VSet s))) as K. rewrite H in K. exact K. }
  unfold e_srandmember in H. destruct s as [|m0 s0]; [congruence|].
  destruct c as [n|].
  - destruct (0 <=? n) eqn:Hn.
    + destruct (oracle_bulks o) as [xs|]; [|inversion H; subst; discriminate].
      destruct (pick_distinct_ok (m0 :: s0) (Z.min n (len (m0 :: s0))) xs) eqn:Hok;
        [|inversion H; subst; discriminate].
      apply pick_distinct_ok_spec in Hok. destruct Hok as (A & B & C).
      exists xs. inversion H; subst. auto.
    + destruct (n =? i64_min); [inversion H; subst; discriminate|].
      destruct (1048576 <? - n); [inversion H; subst; discriminate|].
      destruct (oracle_bulks o) as [xs|]; [|inversion H; subst; discriminate].
      destruct (pick_repeat_ok (m0 :: s0) (- n) xs) eqn:Hok; [|inversion H; subst; discriminate].
      apply pick_repeat_ok_spec in Hok. destruct Hok as (A & C).
      exists xs. inversion H; subst. auto.
  - destruct (oracle_bulk o) as [xs|]; [|inversion H; subst; discriminate].
    destruct (pick_distinct_ok (m0 :: s0) 1 xs) eqn:Hok; [|inversion H; subst; discriminate].
    apply pick_distinct_ok_spec in Hok. destruct Hok as (A & B & C).
    exists xs. inversion H; subst. auto.
Qed.

Lemma srandmember_follows_pos n s xs :
  s <> [] -> 0 <= n -> len xs = Z.min n (len s) -> NoDup xs -> incl xs s ->
  e_srandmember (Some n) (Some (FArray (map FBulk xs))) (Some (VSet s)) = (r_bulks (bsort xs), Keep).
Proof.
  intros Hne Hn A B C. unfold e_srandmember. destruct s as [|m0 s0]; [congruence|].
  replace (0 <=? n) with true by (symmetry; apply Z.leb_le; lia).
  cbn [oracle_bulks]. rewrite all_bulks_map.
  replace (pick_distinct_ok (m0 :: s0) (Z.min n (len (m0 :: s0))) xs) with true
    by (symmetry; apply pick_distinct_ok_spec; auto).
  reflexivity.
Qed.
(** every negative count above i64::MIN is followed; i64::MIN is refused ("value is out of range") *)
Lemma srandmember_follows_neg n s xs :
  s <> [] -> n < 0 -> - n <= 1048576 -> len xs = - n -> incl xs s ->
  e_srandmember (Some n) (Some (FArray (map FBulk xs))) (Some (VSet s)) = (r_bulks (bsort xs), Keep).
Proof.
  intros Hne Hn Hmin A C. unfold e_srandmember. destruct s as [|m0 s0]; [congruence|].
  replace (0 <=? n) with false by (symmetry; apply Z.leb_gt; lia).
  replace (n =? i64_min) with false by (symmetry; apply Z.eqb_neq; unfold i64_min; lia).
  replace (1048576 <? - n) with false by (symmetry; apply Z.ltb_ge; lia).
  cbn [oracle_bulks]. rewrite all_bulks_map.
  replace (pick_repeat_ok (m0 :: s0) (- n) xs) with true by (symmetry; apply pick_repeat_ok_spec; auto).
  reflexivity.
Qed.
Lemma srandmember_min_refused o s : s <> [] ->
  e_srandmember (Some i64_min) o (Some (VSet s)) = (r_err, Keep).
Proof. intros Hne. unfold e_srandmember. destruct s; [congruence | reflexivity]. Qed.
(** since 9dd4676 a request for more than 2^20 draws is refused: the work of SRANDMEMBER is
    bounded by a constant plus the size of the set, whatever the numeric argument *)
Lemma srandmember_cap_refused n o s : s <> [] -> n < - 1048576 ->
  e_srandmember (Some n) o (Some (VSet s)) = (r_err, Keep).
Proof.
  intros Hne Hn. unfold e_srandmember. destruct s; [congruence|].
  replace (0 <=? n) with false by (symmetry; apply Z.leb_gt; lia).
  destruct (n =? i64_min); [reflexivity|].
  replace (1048576 <? - n) with true by (symmetry; apply Z.ltb_lt; lia). reflexivity.
Qed.

(** ------------------------------------------------------------------ *)
(** * set algebra *)

Lemma set_at_get_val d k :
  set_at d k = match get_val d k with Some (VSet s) => Some s | Some _ => None | None => Some [] end.
Proof.
  unfold set_at, get_val, get_entry. destruct (alookup k (d_data d)) as [e|]; cbn [option_map]; reflexivity.
Qed.

Lemma set_union_spec s : forall acc, NoDup acc ->
  NoDup (set_union acc s) /\ forall m, In m (set_union acc s) <-> In m acc \/ In m s.
Proof.
  unfold set_union. induction s as [|x r IH]; intros acc Hd; cbn [fold_left].
  - split; [exact Hd | cbn; tauto].
  - destruct (bmem x acc) eqn:Hx.
    + destruct (IH acc Hd) as [A B]. split; [exact A|]. intros m. rewrite B. cbn [In].
      apply bmem_In in Hx. split; [tauto|]. intros [I | [E | I]]; [tauto | subst; tauto | tauto].
    + apply bmem_false in Hx. destruct (IH (x :: acc) (NoDup_cons x Hx Hd)) as [A B].
      split; [exact A|]. intros m. rewrite B. cbn [In]. tauto.
Qed.

(** the sets named by [keys], when every key is a set or missing *)
Definition all_typed (d : db) (keys : list bytes) : Prop := forall k, In k keys -> set_at d k <> None.
Definition in_some (d : db) (keys : list bytes) (m : bytes) : Prop :=
  exists k s, In k keys /\ set_at d k = Some s /\ In m s.
Definition in_every (d : db) (keys : list bytes) (m : bytes) : Prop :=
  forall k, In k keys -> exists s, set_at d k = Some s /\ In m s.
Definition in_none (d : db) (keys : list bytes) (m : bytes) : Prop :=
  forall k s, In k keys -> set_at d k = Some s -> ~ In m s.

Lemma all_typed_cons d k r : all_typed d (k :: r) -> set_at d k <> None /\ all_typed d r.
Proof. intros H. split; [apply H; left; reflexivity | intros k' Hk; apply H; right; exact Hk]. Qed.

Lemma sunion_loop_spec d keys : forall acc, NoDup acc -> all_typed d keys ->
  exists r, sunion_loop d keys acc = SOk r /\ NoDup r /\
            forall m, In m r <-> In m acc \/ in_some d keys m.
Proof.
  induction keys as [|k ks IH]; intros acc Hd Ht; cbn [sunion_loop].
  - exists acc. split; [reflexivity | split; [exact Hd|]]. intros m. split; [tauto|].
    intros [I | (k & s & [] & _)]. exact I.
  - apply all_typed_cons in Ht. destruct Ht as [Hk Ht]. rewrite set_at_get_val in Hk.
    pose proof (set_at_get_val d k) as Hsk.
    destruct (get_val d k) as [[ | |s| | | ]|]; try congruence.
    + destruct (set_union_spec s acc Hd) as [A B].
      destruct (IH _ A Ht) as (r & Hr & Hn & Hm). exists r. split; [exact Hr | split; [exact Hn|]].
      intros m. rewrite Hm, B. split.
      * intros [[I | I] | (k' & s' & Hin & Hs & Him)]; [tauto | right; exists k, s; cbn; tauto |].
        right. exists k', s'. cbn. tauto.
      * intros [I | (k' & s' & [E | Hin] & Hs & Him)]; [tauto | subst k'; left; right; congruence |].
        right. exists k', s'. tauto.
    + destruct (IH _ Hd Ht) as (r & Hr & Hn & Hm). exists r. split; [exact Hr | split; [exact Hn|]].
      intros m. rewrite Hm. split.
      * intros [I | (k' & s' & Hin & Hs & Him)]; [tauto|]. right. exists k', s'. cbn. tauto.
      * intros [I | (k' & s' & [E | Hin] & Hs & Him)]; [tauto | subst k'; rewrite Hsk in Hs; inversion Hs; subst; destruct Him |].
        right. exists k', s'. tauto.
Qed.

Lemma sinter_loop_spec d keys : forall acc, NoDup acc -> all_typed d keys ->
  exists r, sinter_loop d keys acc = SOk r /\ NoDup r /\
            forall m, In m r <-> In m acc /\ in_every d keys m.
Proof.
  induction keys as [|k ks IH]; intros acc Hd Ht; cbn [sinter_loop].
  - exists acc. split; [reflexivity | split; [exact Hd|]]. intros m. split; [|tauto].
    intros I. split; [exact I | intros k []].
  - apply all_typed_cons in Ht. destruct Ht as [Hk Ht]. rewrite set_at_get_val in Hk.
    pose proof (set_at_get_val d k) as Hsk.
    destruct (get_val d k) as [[ | |s| | | ]|]; try congruence.
    + destruct (IH (filter (fun m => bmem m s) acc) (NoDup_filter _ Hd) Ht) as (r & Hr & Hn & Hm).
      exists r. split; [exact Hr | split; [exact Hn|]].
      intros m. rewrite Hm, filter_In, bmem_In. split.
      * intros [[I1 I2] He]. split; [exact I1|]. intros k' [E | Hin]; [subst k'; exists s; tauto | apply He; exact Hin].
      * intros [I He]. split; [split; [exact I|] | intros k' Hin; apply He; right; exact Hin].
        destruct (He k (or_introl eq_refl)) as (s' & Hs & Him). congruence.
    + destruct (IH [] (NoDup_nil _) Ht) as (r & Hr & Hn & Hm).
      exists r. split; [exact Hr | split; [exact Hn|]]. intros m. rewrite Hm. split; [intros [[] _]|].
      intros [_ He]. destruct (He k (or_introl eq_refl)) as (s' & Hs & Him).
      rewrite Hsk in Hs. inversion Hs; subst. destruct Him.
Qed.

Lemma sdiff_loop_spec d keys : forall acc, NoDup acc -> all_typed d keys ->
  exists r, sdiff_loop d keys acc = SOk r /\ NoDup r /\
            forall m, In m r <-> In m acc /\ in_none d keys m.
Proof.
  induction keys as [|k ks IH]; intros acc Hd Ht; cbn [sdiff_loop].
  - exists acc. split; [reflexivity | split; [exact Hd|]]. intros m. split; [|tauto].
    intros I. split; [exact I | intros k s []].
  - apply all_typed_cons in Ht. destruct Ht as [Hk Ht]. rewrite set_at_get_val in Hk.
    pose proof (set_at_get_val d k) as Hsk.
    destruct (get_val d k) as [[ | |s| | | ]|]; try congruence.
    + destruct (IH (filter (fun m => negb (bmem m s)) acc) (NoDup_filter _ Hd) Ht) as (r & Hr & Hn & Hm).
      exists r. split; [exact Hr | split; [exact Hn|]].
      intros m. rewrite Hm, filter_In, negb_true_iff, bmem_false. split.
      * intros [[I1 I2] He]. split; [exact I1|]. intros k' s' [E | Hin] Hs; [subst k'; congruence | eapply He; eauto].
      * intros [I He]. split; [split; [exact I|] | intros k' s' Hin; apply He; right; exact Hin].
        apply (He k s); [left; reflexivity | exact Hsk].
    + destruct (IH acc Hd Ht) as (r & Hr & Hn & Hm). exists r. split; [exact Hr | split; [exact Hn|]].
      intros m. rewrite Hm. split.
      * intros [I He]. split; [exact I|]. intros k' s' [E | Hin] Hs; [subst k'; rewrite Hsk in Hs; inversion Hs; subst; tauto | eapply He; eauto].
      * intros [I He]. split; [exact I|]. intros k' s' Hin. apply He. right. exact Hin.
Qed.

(** SUNION / SINTER / SDIFF over any combination of existing and missing keys
    (every stored set duplicate-free): the result is duplicate-free and contains
    exactly the members the algebra prescribes *)
Lemma sunion_spec d keys : all_typed d keys ->
  exists r, eng_sunion d keys = SOk r /\ NoDup r /\ forall m, In m r <-> in_some d keys m.
Proof.
  intros Ht. destruct (sunion_loop_spec d keys [] (NoDup_nil _) Ht) as (r & Hr & Hn & Hm).
  exists r. split; [exact Hr | split; [exact Hn|]]. intros m. rewrite Hm. cbn [In]. tauto.
Qed.

Definition set_wf_at (d : db) (k : bytes) : Prop := forall s, set_at d k = Some s -> NoDup s.

Lemma sinter_spec d k ks : all_typed d (k :: ks) -> set_wf_at d k ->
  exists r, eng_sinter d (k :: ks) = SOk r /\ NoDup r /\ forall m, In m r <-> in_every d (k :: ks) m.
Proof.
  intros Ht Hw. apply all_typed_cons in Ht. destruct Ht as [Hk Ht]. unfold eng_sinter.
  rewrite set_at_get_val in Hk. pose proof (set_at_get_val d k) as Hsk.
  destruct (get_val d k) as [[ | |s| | | ]|]; try congruence.
  - destruct (sinter_loop_spec d ks s (Hw s Hsk) Ht) as (r & Hr & Hn & Hm).
    exists r. split; [exact Hr | split; [exact Hn|]]. intros m. rewrite Hm. split.
    + intros [I He] k' [E | Hin]; [subst k'; exists s; tauto | apply He; exact Hin].
    + intros He. split; [|intros k' Hin; apply He; right; exact Hin].
      destruct (He k (or_introl eq_refl)) as (s' & Hs & Him). congruence.
  - destruct (sinter_loop_spec d ks [] (NoDup_nil _) Ht) as (r & Hr & Hn & Hm).
    exists r. split; [exact Hr | split; [exact Hn|]]. intros m. rewrite Hm. split; [intros [[] _]|].
    intros He. destruct (He k (or_introl eq_refl)) as (s' & Hs & Him).
    rewrite Hsk in Hs. inversion Hs; subst. destruct Him.
Qed.

Lemma sdiff_spec d k ks : all_typed d (k :: ks) -> set_wf_at d k ->
  exists r, eng_sdiff d (k :: ks) = SOk r /\ NoDup r /\
            forall m, In m r <-> in_some d [k] m /\ in_none d ks m.
Proof.
  intros Ht Hw. apply all_typed_cons in Ht. destruct Ht as [Hk Ht]. unfold eng_sdiff.
  rewrite set_at_get_val in Hk. pose proof (set_at_get_val d k) as Hsk.
  destruct (get_val d k) as [[ | |s| | | ]|]; try congruence.
  - destruct (sdiff_loop_spec d ks s (Hw s Hsk) Ht) as (r & Hr & Hn & Hm).
    exists r. split; [exact Hr | split; [exact Hn|]]. intros m. rewrite Hm. split.
    + intros [I He]. split; [exists k, s; cbn; tauto | exact He].
    + intros [(k' & s' & [E | []] & Hs & Him) He]. subst k'. split; [congruence | exact He].
  - destruct (sdiff_loop_spec d ks [] (NoDup_nil _) Ht) as (r & Hr & Hn & Hm).
    exists r. split; [exact Hr | split; [exact Hn|]]. intros m. rewrite Hm. split; [intros [[] _]|].
    intros [(k' & s' & [E | []] & Hs & Him) _]. subst k'. rewrite Hsk in Hs. inversion Hs; subst. destruct Him.
Qed.

(** refusal: SUNION refuses whenever any key holds another type *)
Lemma sunion_loop_wrong d keys : forall acc, (exists k, In k keys /\ set_at d k = None) ->
  sunion_loop d keys acc = SWrong.
Proof.
  induction keys as [|k ks IH]; intros acc (k0 & Hin & Hs); [destruct Hin|].
  cbn [sunion_loop]. pose proof (set_at_get_val d k) as Hsk.
  destruct (get_val d k) as [[ | |s| | | ]|]; try reflexivity.
  - apply IH. destruct Hin as [E | Hin]; [subst; congruence | exists k0; tauto].
  - apply IH. destruct Hin as [E | Hin]; [subst; congruence | exists k0; tauto].
Qed.
Lemma sunion_wrong d keys : (exists k, In k keys /\ set_at d k = None) -> eng_sunion d keys = SWrong.
Proof. apply sunion_loop_wrong. Qed.

(** SINTER / SDIFF refuse a key of another type wherever it stands (every key is looked at) *)
Lemma sinter_loop_wrong d keys : forall acc,
  (exists k, In k keys /\ set_at d k = None) -> sinter_loop d keys acc = SWrong.
Proof.
  induction keys as [|k ks IH]; intros acc (k0 & Hin & Hs); [destruct Hin|].
  cbn [sinter_loop]. pose proof (set_at_get_val d k) as Hsk.
  destruct (get_val d k) as [[ | |s| | | ]|]; try reflexivity.
  - apply IH. destruct Hin as [E | Hin]; [subst; congruence | exists k0; tauto].
  - apply IH. destruct Hin as [E | Hin]; [subst; congruence | exists k0; tauto].
Qed.
Lemma sdiff_loop_wrong d keys : forall acc,
  (exists k, In k keys /\ set_at d k = None) -> sdiff_loop d keys acc = SWrong.
Proof.
  induction keys as [|k ks IH]; intros acc (k0 & Hin & Hs); [destruct Hin|].
  cbn [sdiff_loop]. pose proof (set_at_get_val d k) as Hsk.
  destruct (get_val d k) as [[ | |s| | | ]|]; try reflexivity.
  - apply IH. destruct Hin as [E | Hin]; [subst; congruence | exists k0; tauto].
  - apply IH. destruct Hin as [E | Hin]; [subst; congruence | exists k0; tauto].
Qed.
Lemma sinter_wrong d keys : (exists k, In k keys /\ set_at d k = None) -> eng_sinter d keys = SWrong.
Proof.
  intros (k0 & Hin & Hs). destruct keys as [|k ks]; [destruct Hin|]. unfold eng_sinter.
  pose proof (set_at_get_val d k) as Hsk.
  destruct (get_val d k) as [[ | |s| | | ]|]; try reflexivity;
    (apply sinter_loop_wrong; destruct Hin as [E | Hin]; [subst; congruence | exists k0; tauto]).
Qed.
Lemma sdiff_wrong d keys : (exists k, In k keys /\ set_at d k = None) -> eng_sdiff d keys = SWrong.
Proof.
  intros (k0 & Hin & Hs). destruct keys as [|k ks]; [destruct Hin|]. unfold eng_sdiff.
  pose proof (set_at_get_val d k) as Hsk.
  destruct (get_val d k) as [[ | |s| | | ]|]; try reflexivity;
    (apply sdiff_loop_wrong; destruct Hin as [E | Hin]; [subst; congruence | exists k0; tauto]).
Qed.

(** ------------------------------------------------------------------ *)
(** * hashes: lookups after HSET / HDEL / HINCRBY, reply counts *)

Lemma alookup_aremove {A} f g (h : list (bytes * A)) :
  alookup f (aremove g h) = if beq f g then None else alookup f h.
Proof.
  induction h as [|[k v] r IH]; cbn [aremove alookup]; [destruct (beq f g); reflexivity|].
  destruct (beq g k) eqn:Hgk.
  - apply beq_eq in Hgk. subst k. rewrite IH. destruct (beq f g); reflexivity.
  - cbn [alookup]. rewrite IH. destruct (beq f k) eqn:Hfk; [|reflexivity].
    apply beq_eq in Hfk. subst k. rewrite beq_sym, Hgk. reflexivity.
Qed.
Lemma alookup_aset {A} f g (v : A) h :
  alookup f (aset g v h) = if beq f g then Some v else alookup f h.
Proof. unfold aset. cbn [alookup]. rewrite alookup_aremove. destruct (beq f g); reflexivity. Qed.
Lemma alookup_app {A} f (a b : list (bytes * A)) :
  alookup f (a ++ b) = match alookup f a with Some v => Some v | None => alookup f b end.
Proof.
  induction a as [|[k v] r IH]; cbn [app alookup]; [reflexivity|]. destruct (beq f k); [reflexivity | exact IH].
Qed.

(** after HSET the last pair given for a field wins; other fields are untouched *)
Lemma hset_loop_lookup ps : forall h a f,
  alookup f (fst (hset_loop h ps a)) =
  match alookup f (rev ps) with Some v => Some v | None => alookup f h end.
Proof.
  induction ps as [|[g v] r IH]; intros h a f; cbn [hset_loop rev]; [reflexivity|].
  rewrite IH, alookup_app, alookup_aset. cbn [alookup].
  destruct (alookup f (rev r)); [reflexivity|]. destruct (beq f g); reflexivity.
Qed.

Lemma aremove_notin {A} g (h : list (bytes * A)) : ~ In g (map fst h) -> aremove g h = h.
Proof.
  induction h as [|[k v] r IH]; cbn [aremove map fst In]; intros H; [reflexivity|].
  destruct (beq g k) eqn:E; [apply beq_eq in E; subst; tauto|]. f_equal. apply IH. tauto.
Qed.
Lemma aremove_len_in {A} g (h : list (bytes * A)) :
  NoDup (map fst h) -> In g (map fst h) -> len (aremove g h) = len h - 1.
Proof.
  induction h as [|[k v] r IH]; cbn [aremove map fst In]; intros Hd Hin; [destruct Hin|].
  inversion Hd as [|? ? Hn Hd']; subst.
  destruct (beq g k) eqn:E.
  - apply beq_eq in E. subst k. rewrite aremove_notin by exact Hn. rewrite len_cons. lia.
  - apply beq_false in E. destruct Hin as [E2 | Hin]; [congruence|].
    rewrite !len_cons, IH by assumption. lia.
Qed.

(** the count HSET answers on an existing hash = growth of the hash = number of new fields *)
Lemma hset_loop_count ps : forall h a h' a', NoDup (map fst h) ->
  hset_loop h ps a = (h', a') -> a' - a = len h' - len h.
Proof.
  induction ps as [|[g v] r IH]; intros h a h' a' Hd H; cbn [hset_loop] in H.
  - inversion H; subst. lia.
  - apply IH in H; [|apply aset_NoDup; exact Hd]. unfold aset in H. rewrite len_cons in H.
    destruct (amem g h) eqn:Hm.
    + apply amem_In in Hm. rewrite aremove_len_in in H by assumption. lia.
    + assert (~ In g (map fst h)) as Hn by (rewrite <- amem_In; congruence).
      rewrite aremove_notin in H by exact Hn. lia.
Qed.

(** on a fresh key the answer is the number of pairs; that is the number of fields
    created exactly when no field is repeated in the command *)
Lemma hset_loop_fresh_len ps : forall h a, NoDup (map fst h) -> NoDup (map fst ps) ->
  (forall f, In f (map fst ps) -> ~ In f (map fst h)) ->
  len (fst (hset_loop h ps a)) = len h + len ps.
Proof.
  induction ps as [|[g v] r IH]; intros h a Hd Hp Hdis; cbn [hset_loop]; [rewrite len_nil; cbn [fst]; lia|].
  cbn [map fst] in Hp. inversion Hp as [|? ? Hn Hp']; subst.
  rewrite IH; [| apply aset_NoDup; exact Hd | exact Hp' |].
  - unfold aset. rewrite aremove_notin by (apply Hdis; left; reflexivity). rewrite !len_cons. lia.
  - intros f Hf. unfold aset. cbn [map fst In]. rewrite aremove_fst_In.
    intros [E | [I _]]; [subst; tauto | apply (Hdis f); [right; exact Hf | exact I]].
Qed.

(** HDEL: the named fields are gone, the others untouched, the count is the shrinkage *)
Lemma hdel_loop_spec fs : forall h k h' k', NoDup (map fst h) ->
  hdel_loop h fs k = (h', k') ->
  (forall f, alookup f h' = if bmem f fs then None else alookup f h) /\ k' - k = len h - len h'.
Proof.
  induction fs as [|g r IH]; intros h k h' k' Hd H; cbn [hdel_loop] in H.
  - inversion H; subst. split; [reflexivity | lia].
  - destruct (amem g h) eqn:Hm.
    + destruct (IH _ _ _ _ (aremove_NoDup g h Hd) H) as [A B]. split.
      * intros f. rewrite A, alookup_aremove. cbn [bmem]. destruct (beq f g); cbn [orb]; [destruct (bmem f r); reflexivity | reflexivity].
      * apply amem_In in Hm. rewrite aremove_len_in in B by assumption. lia.
    + destruct (IH _ _ _ _ Hd H) as [A B]. split; [|exact B].
      intros f. rewrite A. cbn [bmem]. destruct (beq f g) eqn:E; cbn [orb]; [|reflexivity].
      apply beq_eq in E. subst g. unfold amem in Hm. destruct (alookup f h); [discriminate|].
      destruct (bmem f r); reflexivity.
Qed.

(** ------------------------------------------------------------------ *)
(** * LRANGE / LTRIM at the level of the engine functions; whole-list read *)

Lemma lrange_reply_spec l start stop :
  e_lrange start stop (Some (VList l)) = (r_bulks (redis_range l start stop), Keep).
Proof. unfold e_lrange. rewrite list_slice_spec. reflexivity. Qed.
Lemma ltrim_spec l start stop :
  e_ltrim start stop (Some (VList l)) =
  (r_ok, match redis_range l start stop with [] => Del | l' => Put (VList l') end).
Proof. unfold e_ltrim. rewrite list_slice_spec. destruct (redis_range l start stop); reflexivity. Qed.

(** LRANGE k 0 -1 (the read the dumps use) returns the whole list, in order *)
Lemma list_slice_all l : list_slice l 0 (-1) = l.
Proof.
  pose proof (len_nonneg l) as Hn.
  destruct (Z.eq_dec (len l) 0) as [E | NE].
  - destruct l; [reflexivity | rewrite len_cons in E; pose proof (len_nonneg l); lia].
  - assert (Hs : norm_stop (len l) (-1) = len l - 1) by (unfold norm_stop; change (-1 <? 0) with true; cbv iota; lia).
    rewrite list_slice_window by lia. rewrite Hs.
    unfold norm_clamp. change (0 <? 0) with false. cbv iota.
    rewrite zskipn_nonpos by lia. apply zfirstn_all. lia.
Qed.

(** ------------------------------------------------------------------ *)
(** * no command of the family reaches a panicking operation *)

Definition panics (r : frame) : bool := match r with FError m => beq m (bs "PANIC") | _ => false end.
Definition nopanic_e (f : option value -> frame * upd) : Prop := forall cur, panics (fst (f cur)) = false.
Ltac solve_nopanic :=
  intros cur; destruct cur as [[ | | | | | ]|]; unfold opt_bulk; red_reply; repeat break_match; red_reply; reflexivity.
Lemma nopanic_push left els : nopanic_e (e_push left els). Proof. unfold nopanic_e, e_push. solve_nopanic. Qed.
Lemma nopanic_pop left : nopanic_e (e_pop left). Proof. unfold nopanic_e, e_pop. solve_nopanic. Qed.
Lemma nopanic_llen : nopanic_e e_llen. Proof. unfold nopanic_e, e_llen. solve_nopanic. Qed.
Lemma nopanic_lrange s e : nopanic_e (e_lrange s e). Proof. unfold nopanic_e, e_lrange. solve_nopanic. Qed.
Lemma nopanic_ltrim s e : nopanic_e (e_ltrim s e). Proof. unfold nopanic_e, e_ltrim. solve_nopanic. Qed.
Lemma nopanic_lindex i : nopanic_e (e_lindex i). Proof. unfold nopanic_e, e_lindex. solve_nopanic. Qed.
Lemma nopanic_lset i v : nopanic_e (e_lset i v). Proof. unfold nopanic_e, e_lset. solve_nopanic. Qed.
Lemma nopanic_sadd ms : nopanic_e (e_sadd ms). Proof. unfold nopanic_e, e_sadd. solve_nopanic. Qed.
Lemma nopanic_srem ms : nopanic_e (e_srem ms). Proof. unfold nopanic_e, e_srem. solve_nopanic. Qed.
Lemma nopanic_smembers : nopanic_e e_smembers. Proof. unfold nopanic_e, e_smembers. solve_nopanic. Qed.
Lemma nopanic_sismember m : nopanic_e (e_sismember m). Proof. unfold nopanic_e, e_sismember. solve_nopanic. Qed.
Lemma nopanic_scard : nopanic_e e_scard. Proof. unfold nopanic_e, e_scard. solve_nopanic. Qed.
Lemma nopanic_spop sg c o : nopanic_e (e_spop sg c o). Proof. unfold nopanic_e, e_spop. solve_nopanic. Qed.
Lemma nopanic_hset ok ps : nopanic_e (e_hset ok ps). Proof. unfold nopanic_e, e_hset. solve_nopanic. Qed.
Lemma nopanic_hget f : nopanic_e (e_hget f). Proof. unfold nopanic_e, e_hget. solve_nopanic. Qed.
Lemma nopanic_hmget fs : nopanic_e (e_hmget fs). Proof. unfold nopanic_e, e_hmget. solve_nopanic. Qed.
Lemma nopanic_hgetall : nopanic_e e_hgetall. Proof. unfold nopanic_e, e_hgetall. solve_nopanic. Qed.
Lemma nopanic_hdel fs : nopanic_e (e_hdel fs). Proof. unfold nopanic_e, e_hdel. solve_nopanic. Qed.
Lemma nopanic_hlen : nopanic_e e_hlen. Proof. unfold nopanic_e, e_hlen. solve_nopanic. Qed.
Lemma nopanic_hexists f : nopanic_e (e_hexists f). Proof. unfold nopanic_e, e_hexists. solve_nopanic. Qed.
Lemma nopanic_hkeys : nopanic_e e_hkeys. Proof. unfold nopanic_e, e_hkeys. solve_nopanic. Qed.
Lemma nopanic_hvals : nopanic_e e_hvals. Proof. unfold nopanic_e, e_hvals. solve_nopanic. Qed.

Lemma on_key_nopanic d k f : nopanic_e f -> panics (fst (on_key d k f)) = false.
Proof.
  intros H. unfold on_key. specialize (H (option_map e_val (get_entry d k))).
  destruct (f (option_map e_val (get_entry d k))). exact H.
Qed.
Definition nopanic_h (h : db -> list frame -> frame * db) : Prop := forall d parts, panics (fst (h d parts)) = false.
Ltac go_nopanic :=
  repeat match goal with
  | |- panics (fst (r_err, _)) = false => reflexivity
  | |- panics (fst (on_key _ _ _)) = false => apply on_key_nopanic
  | |- panics (fst (if ?c then _ else _)) = false => destruct c
  | |- panics (fst (match ?x with _ => _ end)) = false => destruct x
  end.
Lemma nopanic_h_push left : nopanic_h (h_push left).
Proof. intros d parts. unfold h_push. go_nopanic. apply nopanic_push. Qed.
Lemma nopanic_h_key1 f : nopanic_e f -> nopanic_h (h_key1 f).
Proof. intros H d parts. unfold h_key1. go_nopanic. exact H. Qed.
Lemma nopanic_h_key_bulk f : (forall a, nopanic_e (f a)) -> nopanic_h (h_key_bulk f).
Proof. intros H d parts. unfold h_key_bulk. go_nopanic. apply H. Qed.
Lemma nopanic_h_range f : (forall s e, nopanic_e (f s e)) -> nopanic_h (h_range f).
Proof. intros H d parts. unfold h_range. go_nopanic. apply H. Qed.
Lemma nopanic_h_lindex : nopanic_h h_lindex.
Proof. intros d parts. unfold h_lindex. go_nopanic. apply nopanic_lindex. Qed.
Lemma nopanic_h_int_bulk f : (forall i v, nopanic_e (f i v)) -> nopanic_h (h_int_bulk f).
Proof. intros H d parts. unfold h_int_bulk. go_nopanic. apply H. Qed.
Lemma nopanic_h_sadd : nopanic_h h_sadd.
Proof. intros d parts. unfold h_sadd. go_nopanic. apply nopanic_sadd. Qed.
Lemma nopanic_h_skipping f : (forall ms, nopanic_e (f ms)) -> nopanic_h (h_skipping f).
Proof. intros H d parts. unfold h_skipping. go_nopanic. apply H. Qed.
Lemma nopanic_h_setalg f : nopanic_h (h_setalg f).
Proof.
  intros d parts. unfold h_setalg. go_nopanic. cbn [fst]. destruct (f d l); reflexivity.
Qed.
Lemma nopanic_h_spop o : nopanic_h (fun d parts => h_spop d parts o).
Proof. intros d parts. unfold h_spop. go_nopanic; apply nopanic_spop. Qed.
Lemma nopanic_h_hset ok : nopanic_h (h_hset ok).
Proof. intros d parts. unfold h_hset. go_nopanic. apply nopanic_hset. Qed.
Lemma nopanic_h_hmget : nopanic_h h_hmget.
Proof. intros d parts. unfold h_hmget. go_nopanic. apply nopanic_hmget. Qed.

Lemma nopanic_lrem c x : nopanic_e (e_lrem c x). Proof. unfold nopanic_e, e_lrem. solve_nopanic. Qed.
Lemma nopanic_srandmember c o : nopanic_e (e_srandmember c o). Proof. unfold nopanic_e, e_srandmember. solve_nopanic. Qed.
Lemma nopanic_hincrby f inc : nopanic_e (e_hincrby f inc). Proof. unfold nopanic_e, e_hincrby. solve_nopanic. Qed.
Lemma nopanic_h_srandmember o : nopanic_h (fun d parts => h_srandmember d parts o).
Proof. intros d parts. unfold h_srandmember. go_nopanic; apply nopanic_srandmember. Qed.
Lemma nopanic_h_hincrby : nopanic_h h_hincrby.
Proof. intros d parts. unfold h_hincrby. go_nopanic. apply nopanic_hincrby. Qed.

(** no command, database, argument list or oracle makes the model take the PANIC outcome *)
Lemma exec_lists_no_panic now d name parts o r d' :
  exec_lists now d name parts o = Some (r, d') -> panics r = false.
Proof.
  unfold exec_lists. intros H.
  repeat match type of H with
  | (if beq ?a ?b then _ else _) = _ => destruct (beq a b)
  end; try discriminate;
  inversion H as [H1]; clear H;
  match type of H1 with ?lhs = _ => assert (Hn : panics (fst lhs) = false) end;
  try (rewrite H1 in Hn; cbn [fst] in Hn; exact Hn).
  - apply nopanic_h_push.
  - apply nopanic_h_push.
  - apply nopanic_h_key1, nopanic_pop.
  - apply nopanic_h_key1, nopanic_pop.
  - apply nopanic_h_key1, nopanic_llen.
  - apply nopanic_h_range, nopanic_lrange.
  - apply nopanic_h_lindex.
  - apply nopanic_h_int_bulk, nopanic_lset.
  - apply nopanic_h_range, nopanic_ltrim.
  - apply nopanic_h_int_bulk, nopanic_lrem.
  - apply nopanic_h_sadd.
  - apply nopanic_h_skipping, nopanic_srem.
  - apply nopanic_h_key1, nopanic_smembers.
  - apply nopanic_h_key_bulk, nopanic_sismember.
  - apply nopanic_h_key1, nopanic_scard.
  - apply nopanic_h_setalg.
  - apply nopanic_h_setalg.
  - apply nopanic_h_setalg.
  - apply (nopanic_h_srandmember o).
  - apply (nopanic_h_spop o).
  - apply nopanic_h_hset.
  - apply nopanic_h_hset.
  - apply nopanic_h_key_bulk, nopanic_hget.
  - apply nopanic_h_hmget.
  - apply nopanic_h_key1, nopanic_hgetall.
  - apply nopanic_h_skipping, nopanic_hdel.
  - apply nopanic_h_key1, nopanic_hlen.
  - apply nopanic_h_key_bulk, nopanic_hexists.
  - apply nopanic_h_key1, nopanic_hkeys.
  - apply nopanic_h_key1, nopanic_hvals.
  - apply nopanic_h_hincrby.
Qed.

(** the three formerly panicking inputs, for ALL arguments: *)
(** LREM with any negative count, isize::MIN included, answers an integer *)
Lemma lrem_total c x l : exists l' k, list_rem c x l = (l', k) /\
  e_lrem c x (Some (VList l)) = (r_int k, match l' with [] => Del | _ => Put (VList l') end).
Proof. unfold e_lrem. destruct (list_rem c x l) as [l' k]. exists l', k. split; reflexivity. Qed.

(** HINCRBY: inside the i64 range the sum is answered and stored as decimal text (and reads
    back as that integer); outside it the command is refused and nothing changes *)
Definition hincrby_overflows (h : list (bytes * bytes)) (f : bytes) (inc : Z) : bool :=
  match alookup f h with
  | Some v => match parse_i64 v with Some c => negb (in_i64 (c + inc)) | None => false end
  | None => false
  end.
Lemma hincrby_overflow_refused h f inc :
  hincrby_overflows h f inc = true -> e_hincrby f inc (Some (VHash h)) = (r_err, Keep).
Proof.
  unfold hincrby_overflows, e_hincrby. destruct (alookup f h) as [v|]; [|discriminate].
  destruct (parse_i64 v) as [c|]; [|discriminate]. destruct (in_i64 (c + inc)); [discriminate | reflexivity].
Qed.
Lemma hincrby_in_range h f inc v c :
  alookup f h = Some v -> parse_i64 v = Some c -> in_i64 (c + inc) = true ->
  exists h', e_hincrby f inc (Some (VHash h)) = (r_int (c + inc), Put (VHash h')) /\
             (exists v', alookup f h' = Some v' /\ parse_i64 v' = Some (c + inc)) /\
             forall g, g <> f -> alookup g h' = alookup g h.
Proof.
  intros Ha Hp Hi. unfold e_hincrby. rewrite Ha, Hp, Hi.
  exists (aset f (print_int (c + inc)) h). split; [reflexivity | split].
  - exists (print_int (c + inc)). rewrite alookup_aset, beq_refl. split; [reflexivity|].
    apply parse_i64_print. exact Hi.
  - intros g Hg. rewrite alookup_aset. replace (beq g f) with false; [reflexivity|].
    symmetry. apply beq_false. exact Hg.
Qed.

(** ------------------------------------------------------------------ *)
(** * statements as they appear in Props/C03.v *)

Lemma exec_lists_atomic now d name parts oracle r d' :
  exec_lists now d name parts oracle = Some (r, d') -> is_error r = true -> d' = d.
Proof. intros. eapply exec_lists_good; eauto. Qed.
Lemma exec_lists_wf now d name parts oracle r d' :
  exec_lists now d name parts oracle = Some (r, d') -> wf_colls d -> wf_colls d'.
Proof. intros. eapply exec_lists_good; eauto. Qed.
Lemma run_empty_removed cs k e : In (k, e) (d_data (c03_run empty_db cs)) ->
  match e_val e with VList l => l <> [] | VSet s => s <> [] | VHash h => h <> [] | _ => True end.
Proof.
  intros H. pose proof (c03_run_wf cs empty_db wf_empty_db k e H) as W.
  destruct (e_val e); cbn [wf_value] in W; tauto.
Qed.
Lemma run_unique cs k e : In (k, e) (d_data (c03_run empty_db cs)) ->
  match e_val e with VSet s => NoDup s | VHash h => NoDup (map fst h) | _ => True end.
Proof.
  intros H. pose proof (c03_run_wf cs empty_db wf_empty_db k e H) as W.
  destruct (e_val e); cbn [wf_value] in W; tauto.
Qed.
Lemma spop_every_choice count s xs : s <> [] ->
  (len xs = Z.min count (len s) /\ NoDup xs /\ incl xs s ->
   e_spop false count (Some (FArray (map FBulk xs))) (Some (VSet s)) = (r_bulks (bsort xs), spop_upd s xs)) /\
  (~ (len xs = Z.min count (len s) /\ NoDup xs /\ incl xs s) ->
   e_spop false count (Some (FArray (map FBulk xs))) (Some (VSet s)) = (BADORACLE, Keep)).
Proof.
  intros Hne. split.
  - intros (A & B & C). apply spop_follows; assumption.
  - apply spop_refuses_bad; assumption.
Qed.
Lemma srandmember_every_choice n s xs : s <> [] -> incl xs s ->
  (0 <= n -> len xs = Z.min n (len s) -> NoDup xs ->
   e_srandmember (Some n) (Some (FArray (map FBulk xs))) (Some (VSet s)) = (r_bulks (bsort xs), Keep)) /\
  (n < 0 -> - n <= 1048576 -> len xs = - n ->
   e_srandmember (Some n) (Some (FArray (map FBulk xs))) (Some (VSet s)) = (r_bulks (bsort xs), Keep)).
Proof.
  intros Hne Hin. split.
  - intros. apply srandmember_follows_pos; assumption.
  - intros. apply srandmember_follows_neg; assumption.
Qed.

(** HSET / HMSET on a fresh key: the count answered is the number of fields created *)
Lemma hset_fresh_count ps :
  exists h', e_hset false ps None = (r_int (len h'), Put (VHash h')) /\
             h' = fst (hset_loop [] ps 0) /\ snd (hset_loop [] ps 0) = len h'.
Proof.
  unfold e_hset. destruct (hset_loop [] ps 0) as [h' a] eqn:H. exists h'.
  split; [reflexivity | split; [reflexivity|]]. cbn [snd].
  pose proof (hset_loop_count ps [] 0 h' a (NoDup_nil _) H) as C. unfold len in C at 2. cbn [length Z.of_nat] in C. lia.
Qed.
(** ... which is the number of pairs exactly when no field repeats in the command *)
Lemma hset_count_fresh_nodup ps : NoDup (map fst ps) -> len (fst (hset_loop [] ps 0)) = len ps.
Proof.
  intros H. rewrite hset_loop_fresh_len; [reflexivity | constructor | exact H | intros f _ []].
Qed.

(** ------------------------------------------------------------------ *)
(** * concrete histories (regression witnesses of the repaired defects, non-vacuity) *)

Definition cmdf (l : list String.string) : list frame := map (fun s => FBulk (bs s)) l.
Definition cmd_name (parts : list frame) : bytes :=
  match parts with FBulk n :: _ => upper n | _ => [] end.
(** replies of a history of family commands without random picks, and the final database *)
Fixpoint play (d : db) (cs : list (list frame)) : list frame * db :=
  match cs with
  | [] => ([], d)
  | c :: r => match exec_lists 0 d (cmd_name c) c None with
              | Some (f, d') => match play d' r with (fs, d'') => (f :: fs, d'') end
              | None => match play d r with (fs, d'') => (FError (bs "NOTMINE") :: fs, d'') end
              end
  end.
Definition replies (cs : list (list String.string)) : list frame := fst (play empty_db (map cmdf cs)).
Definition b (s : String.string) : frame := FBulk (bs s).
Local Open Scope string_scope.

(** 2b792ef (was F-03a): a stop before the head selects / keeps nothing; LTRIM removes the key *)
Lemma lrange_fixed_history :
  replies [["RPUSH"; "l"; "a"; "b"; "c"]; ["LRANGE"; "l"; "0"; "-100"]; ["LRANGE"; "l"; "-100"; "-50"];
           ["LTRIM"; "l"; "0"; "-100"]; ["LRANGE"; "l"; "0"; "-1"]; ["LLEN"; "l"]]
  = [FInt 3; FArray []; FArray []; r_ok; FArray []; FInt 0].
Proof. vm_compute. reflexivity. Qed.
(** 61742d6 (was F-03b) *)
Lemma hset_fresh_fixed_history :
  replies [["HSET"; "hh"; "f"; "1"; "f"; "2"]; ["HLEN"; "hh"]; ["HGET"; "hh"; "f"]] = [FInt 1; FInt 1; b "2"].
Proof. vm_compute. reflexivity. Qed.
(** c5f1b6a (was F-06e) *)
Lemma hincrby_fixed_history :
  replies [["HSET"; "h"; "n"; "9223372036854775807"]; ["HINCRBY"; "h"; "n"; "1"]; ["HGET"; "h"; "n"];
           ["HINCRBY"; "h"; "n"; "-1"]]
  = [FInt 1; r_err; b "9223372036854775807"; FInt 9223372036854775806].
Proof. vm_compute. reflexivity. Qed.
(** 6f35e51 (was F-06g) *)
Lemma lrem_min_fixed_history :
  replies [["RPUSH"; "l"; "a"; "b"; "a"]; ["LREM"; "l"; "-9223372036854775808"; "a"]; ["LRANGE"; "l"; "0"; "-1"]]
  = [FInt 3; FInt 2; FArray [b "b"]].
Proof. vm_compute. reflexivity. Qed.
(** 84546fc (was F-06h) *)
Lemma srandmember_min_fixed_history :
  replies [["SADD"; "s"; "a"]; ["SRANDMEMBER"; "s"; "-9223372036854775808"]; ["SCARD"; "s"]]
  = [FInt 1; r_err; FInt 1].
Proof. vm_compute. reflexivity. Qed.
(** eab489c: every key is type-checked *)
Lemma setalg_type_checked_history :
  replies [["SADD"; "s"; "a"]; ["LPUSH"; "str"; "x"]; ["SDIFF"; "nokey"; "str"]; ["SINTER"; "nokey"; "str"];
           ["SINTER"; "s"; "nokey"; "str"]; ["SDIFF"; "s"; "str"]; ["SUNION"; "nokey"; "str"];
           ["SINTER"; "s"; "nokey"]; ["SDIFF"; "nokey"; "s"]; ["SDIFF"; "s"; "nokey"]]
  = [FInt 1; FInt 1; r_wrongtype; r_wrongtype; r_wrongtype; r_wrongtype; r_wrongtype;
     FArray []; FArray []; FArray [b "a"]].
Proof. vm_compute. reflexivity. Qed.

(** non-vacuity: a reachable database with all three collection types is well-formed and
    collections that become empty vanish *)
Lemma wf_reachable_example :
  let d := snd (play empty_db (map cmdf [["RPUSH"; "l"; "a"; "b"]; ["SADD"; "s"; "x"; "y"; "x"];
                                         ["HSET"; "h"; "f"; "1"; "g"; "2"]; ["LPOP"; "l"]; ["LPOP"; "l"];
                                         ["SREM"; "s"; "x"; "y"]; ["HDEL"; "h"; "f"]])) in
  map fst (d_data d) = [bs "h"].
Proof. vm_compute. reflexivity. Qed.
