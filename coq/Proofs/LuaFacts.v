(** Facts about the script layer (Model/Lua.v, Model/RunLua.v): UTF-8 / lossy decoding,
    the two value conversions and the exact domain on which they round-trip, call aborts /
    pcall continues / effects persist, one script = one step of the server, EVALSHA =
    EVAL of the cached source, KEYS / ARGV bytes, the sandbox tables. *)
From Ferrous Require Import Base.Bytes Generated Model.Resp Model.Types Model.Glob Model.Utf8 Model.Strings
  Model.Lists Model.ZSets Model.Streams Model.Scan Model.Exec Model.Lua Model.Server Model.Conn Model.RunBase
  Model.RunSrv Model.RunLua Proofs.BytesFacts Proofs.RespFacts Proofs.ExecFacts.
Open Scope Z_scope.

(** ---- UTF-8 ---- *)
Lemma utf8_step_pos c r : (1 <= fst (utf8_step (c :: r)))%nat.
Proof.
  unfold utf8_step.
  repeat match goal with
  | |- context [if ?b then _ else _] => destruct b
  | |- context [match ?l with [] => _ | _ :: _ => _ end] => destruct l
  end; cbn [fst]; lia.
Qed.

Lemma utf8_lossy_valid_f : forall fuel l, (length l < fuel)%nat ->
  utf8_valid_f fuel l = true -> utf8_lossy_f fuel l = l.
Proof.
  induction fuel as [|f IH]; intros l Hl Hv; [lia|].
  destruct l as [|c r]; [reflexivity|].
  cbn [utf8_valid_f utf8_lossy_f] in *.
  pose proof (utf8_step_pos c r) as Hp.
  destruct (utf8_step (c :: r)) as [n [|]]; [|discriminate]. cbn [fst] in Hp.
  rewrite IH; [apply firstn_skipn| |exact Hv].
  rewrite skipn_length. cbn [length] in *. lia.
Qed.
Lemma utf8_lossy_valid l : utf8_valid l = true -> utf8_lossy l = l.
Proof. unfold utf8_valid, utf8_lossy. apply utf8_lossy_valid_f. lia. Qed.

(** ---- the conversions as plain recursive equations ---- *)
Fixpoint conv_list (pc : bool) (l : list frame) : conv_l :=
  match l with
  | [] => LOk []
  | x :: r => match resp_to_lua pc x with
              | CVal v => match conv_list pc r with LOk t => LOk (v :: t) | LFail m => LFail m end
              | CErr m => LFail m
              end
  end.
Lemma resp_to_lua_array pc l :
  resp_to_lua pc (FArray l) = match conv_list pc l with LOk vs => CVal (LTable vs) | LFail m => CErr m end.
Proof.
  cbn [resp_to_lua].
  match goal with |- match ?f l with _ => _ end = _ => assert (E : f l = conv_list pc l) end.
  { induction l as [|x r IH]; [reflexivity|]. cbn [conv_list]. rewrite <- IH. reflexivity. }
  now rewrite E.
Qed.
Lemma lua_to_resp_table l : lua_to_resp (LTable l) = FArray (table_items l).
Proof.
  cbn [lua_to_resp]. f_equal.
  all: try (induction l as [|x r IH]; [reflexivity|cbn [table_items]; rewrite <- IH; reflexivity]).
Qed.

(** ---- the exact domain of the round trip RESP -> Lua -> RESP (after the repairs 38e52a4 2ecc978
    754e125 a6ba253) ----
    Every reply comes back unchanged except, pinned by the repository's own tests: a status reply
    (it comes back as a bulk string: lua-status-as-bulk) and an array with a nil inside (cut there:
    lua-nil-truncates); plus what Lua numbers cannot carry (integers beyond 2^53), the null array
    (nil), and the RESP3 frames no command produces.  An error reply comes back as the same error
    under redis.pcall when it carries an error code (every error the server builds does). *)
Definition int_ok (i : Z) : bool := match lua_to_resp (lua_int i) with FInt j => j =? i | _ => false end.
Definition err_ok (b : bytes) : bool := beq (fmt_err (utf8_lossy b)) b.
Fixpoint conv_safe_in (pc : bool) (f : frame) : bool :=
  match f with
  | FBulk _ => true
  | FInt i => int_ok i
  | FError b => pc && err_ok b
  | FArray l => forallb (conv_safe_in pc) l
  | _ => false
  end.
Definition conv_safe (pc : bool) (f : frame) : bool := match f with FNullBulk => true | _ => conv_safe_in pc f end.

Definition not_nil (v : lval) : Prop := match v with LNil => False | _ => True end.

Lemma round_double_small i : Z.abs i < two53 -> round_double i = i.
Proof. unfold round_double. intros H. apply Z.ltb_lt in H. now rewrite H. Qed.
Lemma int_ok_small i : Z.abs i < two53 -> int_ok i = true.
Proof.
  intros H. unfold int_ok, lua_int, of_integral. rewrite (round_double_small _ H).
  destruct ((- two63 <=? i) && (i <? two63)) eqn:E; [cbn [lua_to_resp]; apply Z.eqb_refl|].
  apply andb_false_iff in E. unfold two53, two63 in *. destruct E as [E|E]; [apply Z.leb_gt in E|apply Z.ltb_ge in E]; lia.
Qed.
Lemma int_ok_max : int_ok i64_max = true. Proof. vm_compute. reflexivity. Qed.
Lemma lua_int_not_nil i : not_nil (lua_int i).
Proof. unfold lua_int, of_integral. destruct ((- two63 <=? round_double i) && (round_double i <? two63)); exact I. Qed.
(** an error that starts with a code and is valid UTF-8 is kept as it is *)
Lemma err_ok_coded b : has_error_code b = true -> utf8_valid b = true -> err_ok b = true.
Proof. intros Hc Hv. unfold err_ok, fmt_err. rewrite (utf8_lossy_valid _ Hv), Hc. apply beq_refl. Qed.

Lemma table_items_no_nil vs : length (table_items vs) = length vs -> Forall not_nil vs.
Proof.
  induction vs as [|v r IH]; intros H; [constructor|].
  destruct v; cbn [table_items length] in H;
    try (constructor; [exact I|apply IH; lia]).
  discriminate.
Qed.
Lemma conv_list_length pc l vs : conv_list pc l = LOk vs -> length vs = length l.
Proof.
  revert vs; induction l as [|x r IH]; intros vs E; cbn [conv_list] in E; [now inversion E|].
  destruct (resp_to_lua pc x); [|discriminate]. destruct (conv_list pc r) as [t|]; [|discriminate].
  inversion E; subst. cbn [length]. now rewrite (IH t).
Qed.

(** forward and backward, for elements of arrays (where nil is not allowed) *)
Lemma conv_in_exact pc : forall f,
  conv_safe_in pc f = true <-> exists v, resp_to_lua pc f = CVal v /\ lua_to_resp v = f /\ not_nil v.
Proof.
  induction f using frame_ind'; cbn [conv_safe_in]; split;
    try (intros; discriminate);
    try (intros [v [E1 [E2 E3]]]; cbn [resp_to_lua] in E1; inversion E1; subst v;
         try (elim E3); try (cbn [lua_to_resp] in E2; discriminate E2); fail).
  - (* FError, forward *)
    intros Hs. apply andb_prop in Hs. destruct Hs as [Hp He]. subst pc.
    exists (LErr (fmt_err (utf8_lossy b))). cbn [resp_to_lua lua_to_resp]. split; [reflexivity|]. split; [|exact I].
    unfold err_ok in He. apply beq_eq in He. now rewrite He.
  - (* FError, backward *)
    intros [v [E1 [E2 _]]]. cbn [resp_to_lua] in E1. destruct pc; [|discriminate E1]. inversion E1; subst v.
    cbn [lua_to_resp] in E2. inversion E2 as [E]. cbn [andb]. unfold err_ok. rewrite E. rewrite E. apply beq_refl.
  - intros Hs. exists (lua_int z). cbn [resp_to_lua]. split; [reflexivity|]. split; [|apply lua_int_not_nil].
    unfold int_ok in Hs. destruct (lua_to_resp (lua_int z)); try discriminate. apply Z.eqb_eq in Hs. now subst.
  - intros [v [E1 [E2 _]]]. cbn [resp_to_lua] in E1. inversion E1; subst v. unfold int_ok. rewrite E2. apply Z.eqb_refl.
  - intros _. exists (LStr b). cbn [resp_to_lua lua_to_resp]. repeat split.
  - intros _. reflexivity.
  - (* arrays, forward *)
    intros Hs.
    assert (G : forall l, Forall (fun f => conv_safe_in pc f = true <->
                   exists v, resp_to_lua pc f = CVal v /\ lua_to_resp v = f /\ not_nil v) l ->
                forallb (conv_safe_in pc) l = true ->
                exists vs, conv_list pc l = LOk vs /\ table_items vs = l).
    { clear. induction l as [|x r IH]; intros Hf Hs; [exists []; split; reflexivity|].
      inversion Hf as [|? ? Hx Hr]; subst. cbn [forallb] in Hs. apply andb_prop in Hs. destruct Hs as [Hsx Hsr].
      destruct (proj1 Hx Hsx) as [v [E1 [E2 E3]]]. destruct (IH Hr Hsr) as [vs [E4 E5]].
      exists (v :: vs). cbn [conv_list]. rewrite E1, E4. split; [reflexivity|].
      destruct v; try (elim E3); cbn [table_items]; rewrite E2, E5; reflexivity. }
    destruct (G _ H Hs) as [vs [E1 E2]].
    exists (LTable vs). rewrite resp_to_lua_array, E1, lua_to_resp_table, E2. repeat split.
  - (* arrays, backward *)
    intros [v [E1 [E2 _]]]. rewrite resp_to_lua_array in E1.
    destruct (conv_list pc l) as [vs|] eqn:Ec; [|discriminate]. inversion E1; subst v.
    rewrite lua_to_resp_table in E2. injection E2 as Et.
    assert (Hn : Forall not_nil vs).
    { apply table_items_no_nil. rewrite Et. symmetry. now apply (conv_list_length pc). }
    clear E1.
    assert (G : forall l vs, Forall (fun f => conv_safe_in pc f = true <->
                   exists v, resp_to_lua pc f = CVal v /\ lua_to_resp v = f /\ not_nil v) l ->
                conv_list pc l = LOk vs -> Forall not_nil vs -> table_items vs = l -> forallb (conv_safe_in pc) l = true).
    { clear. induction l as [|x r IH]; intros vs Hf Ec Hn Et; [reflexivity|].
      inversion Hf as [|? ? Hx Hr]; subst. cbn [conv_list] in Ec.
      destruct (resp_to_lua pc x) as [v|] eqn:Ex; [|discriminate].
      destruct (conv_list pc r) as [t|] eqn:Er; [|discriminate]. inversion Ec; subst vs.
      inversion Hn as [|? ? Hv Ht]; subst.
      assert (Ei : table_items (v :: t) = lua_to_resp v :: table_items t) by (destruct v; try reflexivity; elim Hv).
      rewrite Ei in Et. injection Et as E1 E2.
      cbn [forallb]. rewrite (proj2 Hx) by (exists v; repeat split; assumption).
      rewrite (IH t Hr eq_refl Ht E2). reflexivity. }
    exact (G _ _ H Ec Hn Et).
Qed.

Lemma conv_in_roundtrip pc f : conv_safe_in pc f = true ->
  exists v, resp_to_lua pc f = CVal v /\ lua_to_resp v = f /\ not_nil v.
Proof. apply conv_in_exact. Qed.

(** the domain is exact *)
Theorem conv_exact pc f :
  conv_safe pc f = true <-> exists v, resp_to_lua pc f = CVal v /\ lua_to_resp v = f.
Proof.
  split.
  - destruct f; cbn [conv_safe]; intros Hs;
      try (destruct (conv_in_roundtrip pc _ Hs) as [v [E1 [E2 _]]]; exists v; split; assumption).
    exists LNil. split; reflexivity.
  - intros [v [E1 E2]]. destruct f; cbn [conv_safe]; try reflexivity;
      try (apply (conv_in_exact pc); exists v; repeat split; try assumption;
           cbn [resp_to_lua] in E1; try (destruct pc); inversion E1; subst v; try exact I; try discriminate; fail).
    + apply (conv_in_exact pc). exists v. repeat split; try assumption. cbn [resp_to_lua] in E1. inversion E1. apply lua_int_not_nil.
    + apply (conv_in_exact pc). exists v. repeat split; try assumption. rewrite resp_to_lua_array in E1.
      destruct (conv_list pc l); inversion E1. exact I.
Qed.

(** under redis.call the reply of a failing command ends the script with the command's own error *)
Lemma call_error_text b : resp_to_lua false (FError b) = CErr (fmt_err (utf8_lossy b)).
Proof. reflexivity. Qed.

(** pcall never aborts *)
Lemma pcall_never_aborts : forall f m, resp_to_lua true f <> CErr m.
Proof.
  induction f using frame_ind'; intros m; try (cbn [resp_to_lua]; discriminate).
  rewrite resp_to_lua_array.
  assert (G : forall m0, conv_list true l <> LFail m0).
  { induction l as [|x r IH]; [discriminate|]. inversion H as [|? ? Hx Hr]; subst. cbn [conv_list]. intros m0.
    destruct (resp_to_lua true x) as [v|mx] eqn:Ex; [|now elim (Hx mx)]. specialize (IH Hr).
    destruct (conv_list true r) as [t|mr] eqn:Er; [discriminate|]. now elim (IH mr). }
  destruct (conv_list true l) as [t|m1] eqn:Ec; [discriminate|]. now elim (G m1).
Qed.

(** ---- scripts ---- *)
Lemma run_body_app now keys argv : forall pre d res rest,
  run_body now d keys argv res (pre ++ rest) =
  match run_body now d keys argv res pre with
  | (BOk res', d') => run_body now d' keys argv res' rest
  | (BAbort m, d') => (BAbort m, d')
  end.
Proof.
  induction pre as [|s pre IH]; intros d res rest; [reflexivity|].
  cbn [app run_body]. destruct s as [pc args|i].
  - destruct (call_cmd now d pc _) as [[v|m] d']; [apply IH|reflexivity].
  - destruct (nth1 i res) as [[]|]; try reflexivity; [|apply IH]. destruct (all_strs l); [apply IH|reflexivity].
Qed.

(** a failing redis.call ends the script with the command's own error reply [m]; the statements
    after it do not run; the state is the one the successful prefix (and the failing command
    itself) left *)
Theorem call_aborts now d keys argv pre args rest rt res d1 d2 m :
  run_body now d keys argv [] pre = (BOk res, d1) ->
  call_cmd now d1 false (map (eval {| e_keys := keys; e_argv := argv; e_res := res |}) args) = (CErr m, d2) ->
  run_script now d keys argv {| s_body := pre ++ SCall false args :: rest; s_ret := rt |} = (FError m, d2).
Proof.
  intros Hpre Hc. unfold run_script. cbn [s_body]. rewrite run_body_app, Hpre. cbn [run_body]. now rewrite Hc.
Qed.
(** ... and [m] is the error the command answered: its code (WRONGTYPE, NOGROUP, ERR ...) and text *)
Theorem call_error_is_the_commands now d nm rest b d' :
  blocked (upper (utf8_lossy nm)) = false ->
  exec_run now (fst (expire_before now d (upper nm) (map FBulk (nm :: rest)))) (map FBulk (nm :: rest)) None = (FError b, d') ->
  call_cmd now d false (map LStr (nm :: rest)) = (CErr (fmt_err (utf8_lossy b)), d') /\
  call_cmd now d true (map LStr (nm :: rest)) = (CVal (LErr (fmt_err (utf8_lossy b))), d') /\
  (has_error_code b = true -> utf8_valid b = true -> fmt_err (utf8_lossy b) = b).
Proof.
  intros Hb He.
  assert (M : marshal_args (map LStr (nm :: rest)) = Some (nm :: rest)).
  { generalize (nm :: rest). induction l as [|x r IH]; [reflexivity|]. cbn [map marshal_args marshal_arg]. now rewrite IH. }
  unfold call_cmd. rewrite M, Hb. cbv zeta. rewrite He. repeat split.
  intros Hc Hv. unfold fmt_err. now rewrite (utf8_lossy_valid _ Hv), Hc.
Qed.

(** a redis.pcall never ends the script: it yields a value (for a failing command the table
    {err = message}, which is an error reply when returned) and the script goes on *)
Theorem pcall_continues now d keys argv res args rest :
  exists v d', call_cmd now d true (map (eval {| e_keys := keys; e_argv := argv; e_res := res |}) args) = (CVal v, d') /\
    run_body now d keys argv res (SCall true args :: rest) = run_body now d' keys argv (res ++ [v]) rest.
Proof.
  cbn [run_body].
  destruct (call_cmd now d true _) as [[v|m] d'] eqn:E.
  - exists v, d'. split; reflexivity.
  - exfalso. unfold call_cmd in E.
    destruct (marshal_args _) as [[|nm r]|]; try discriminate.
    destruct (blocked (upper (utf8_lossy nm))); [discriminate|]. cbv zeta in E.
    destruct (exec_run now _ _ None) as [rp d'']. inversion E. now apply (pcall_never_aborts rp m).
Qed.
Example pcall_error_value : lua_to_resp (LErr (bs "WRONGTYPE x")) = FError (bs "WRONGTYPE x").
Proof. reflexivity. Qed.

(** a refused (blocked) command does not reach the executor and changes nothing *)
Lemma blocked_no_effect now d pc nm rest :
  blocked (upper (utf8_lossy nm)) = true ->
  snd (call_cmd now d pc (LStr nm :: rest)) = d.
Proof.
  intros Hb. unfold call_cmd. cbn [marshal_args marshal_arg].
  destruct (marshal_args rest); [rewrite Hb|]; reflexivity.
Qed.

(** ---- KEYS and ARGV: the bytes as received (a6ba253) ---- *)
Theorem keys_bytes keys argv res i k :
  nth1 i keys = Some k -> eval {| e_keys := keys; e_argv := argv; e_res := res |} (EKeys i) = LStr k.
Proof. intros E. cbn [eval e_keys]. now rewrite E. Qed.
Theorem argv_bytes keys argv res i a :
  nth1 i argv = Some a -> eval {| e_keys := keys; e_argv := argv; e_res := res |} (EArgv i) = LStr a.
Proof. intros E. cbn [eval e_argv]. now rewrite E. Qed.
(** and the arguments of redis.call reach the executor as the bytes of the Lua strings *)
Theorem call_args_bytes en l : marshal_args (map (eval en) (map EStr l)) = Some l.
Proof. induction l as [|a r IH]; [reflexivity|]. cbn [map eval marshal_args marshal_arg]. now rewrite IH. Qed.

(** ---- one script = one step of the server ---- *)
Lemma exec_db_eval now d parts o : exec_db now d (bs "EVAL") parts o = Some (h_eval now d parts).
Proof. reflexivity. Qed.

Lemma nth_list_set_same {A} (l : list A) i x dflt : (i < length l)%nat -> nth i (list_set l i x) dflt = x.
Proof. revert i; induction l as [|y r IH]; intros [|i] H; cbn [length list_set nth] in *; try lia; [reflexivity|apply IH; lia]. Qed.
Lemma nth_list_set_other {A} (l : list A) i j x dflt : i <> j -> nth j (list_set l i x) dflt = nth j l dflt.
Proof.
  revert i j; induction l as [|y r IH]; intros [|i] [|j] H; cbn [list_set nth]; try reflexivity; try lia.
  apply IH. lia.
Qed.

(** EVAL handled by process_normal_command: after the lazy expiry every command starts with
    (state [s1]), the reply and the selected database are those of the script run to
    completion; every other database, every connection (selected database, MULTI queue,
    watches) and the password are untouched.  Since commands of other clients are other
    events of the transition system, none of them can observe a state between two calls of
    the script. *)
Lemma script_one_step_d now s c dbi parts nm :
  upper nm = bs "EVAL" -> parts = FBulk nm :: tl parts ->
  let r := h_eval now (get_db s dbi) parts in
  let s' := snd (dispatch_command now s c dbi parts None) in
  fst (dispatch_command now s c dbi parts None) = fst r /\
  s_conns s' = s_conns s /\ s_password s' = s_password s /\
  (forall j, j <> Z.to_nat dbi -> nth j (s_dbs s') empty_db = nth j (s_dbs s) empty_db) /\
  ((Z.to_nat dbi < length (s_dbs s))%nat -> get_db s' dbi = snd r).
Proof.
  intros Hn Hp. cbv zeta. rewrite Hp. unfold dispatch_command. rewrite Hn.
  repeat match goal with
  | |- context [beq (bs ?a) (bs ?b)] =>
      let v := eval vm_compute in (beq (bs a) (bs b)) in change (beq (bs a) (bs b)) with v
  end. cbv iota.
  match goal with |- context [logs_before (bs "EVAL") ?p] => destruct (logs_before (bs "EVAL") p) end.
  all: unfold log_aof_in; try destruct (same_db _ _).
  all: rewrite exec_db_eval; rewrite <- Hp.
  all: unfold get_db in *; cbn [s_dbs log_aof] in *.
  all: destruct (h_eval _ _ _) as [rr dd'] eqn:Eh.
  all: unfold get_db in *; cbn [fst snd s_conns s_password s_dbs set_trk set_db log_aof log_after get_db] in *.
  all: repeat split; try reflexivity.
  all: try (intros j Hj; now apply nth_list_set_other, not_eq_sym).
  all: intros Hl; now apply nth_list_set_same.
Qed.
Lemma list_set_length {A} (l : list A) : forall i x, length (list_set l i x) = length l.
Proof. induction l as [|y r IH]; intros [|i] x; cbn [list_set length]; try reflexivity. now rewrite IH. Qed.
Lemma lazy_expire_shape now s dbi name parts :
  let s1 := lazy_expire now s dbi name parts in
  s_conns s1 = s_conns s /\ s_password s1 = s_password s /\ length (s_dbs s1) = length (s_dbs s) /\
  (forall j, j <> Z.to_nat dbi -> nth j (s_dbs s1) empty_db = nth j (s_dbs s) empty_db).
Proof.
  cbv zeta. unfold lazy_expire. destruct lazy_expiry_before_dispatch; [|repeat split; reflexivity].
  destruct (expire_before now (get_db s dbi) name parts) as [d1 removed].
  cbn [set_trk set_db s_conns s_password s_dbs]. repeat split; try reflexivity.
  - apply list_set_length.
  - intros j Hj. now apply nth_list_set_other, not_eq_sym.
Qed.
Theorem script_one_step now s c dbi parts nm :
  upper nm = bs "EVAL" -> parts = FBulk nm :: tl parts ->
  let s1 := lazy_expire now s dbi (bs "EVAL") parts in
  let r := h_eval now (get_db s1 dbi) parts in
  let s' := snd (normal_command now s c dbi parts None) in
  fst (normal_command now s c dbi parts None) = fst r /\
  s_conns s' = s_conns s /\ s_password s' = s_password s /\
  (forall j, j <> Z.to_nat dbi -> nth j (s_dbs s') empty_db = nth j (s_dbs s) empty_db) /\
  ((Z.to_nat dbi < length (s_dbs s))%nat -> get_db s' dbi = snd r).
Proof.
  intros Hn Hp. cbv zeta.
  assert (E : normal_command now s c dbi parts None =
              dispatch_command now (lazy_expire now s dbi (bs "EVAL") parts) c dbi parts None).
  { rewrite Hp at 1. unfold normal_command. rewrite Hn. rewrite <- Hp. reflexivity. }
  rewrite E. set (s1 := lazy_expire now s dbi (bs "EVAL") parts).
  destruct (script_one_step_d now s1 c dbi parts nm Hn Hp) as (H1 & H2 & H3 & H4 & H5).
  destruct (lazy_expire_shape now s dbi (bs "EVAL") parts) as (L1 & L2 & L3 & L4). fold s1 in L1, L2, L3, L4.
  split; [exact H1|]. split; [rewrite H2; exact L1|]. split; [rewrite H3; exact L2|]. split.
  - intros j Hj. rewrite (H4 j Hj). apply L4. exact Hj.
  - intros Hl. apply H5. rewrite L3. exact Hl.
Qed.

(** ---- EVALSHA ---- *)
(** EVALSHA of a cached script is EVAL of its source, in the database the connection has selected;
    the digest is looked up lower-cased (0f156f9) *)
Theorem evalsha_eq_eval t s c dbi ca nm sha nk rest src :
  upper nm = bs "EVALSHA" -> utf8_valid sha = true -> alookup (lower sha) ca = Some src ->
  let r1 := h_evalsha t s c dbi ca (FBulk nm :: FBulk sha :: nk :: rest) in
  let r2 := normal_command t s c dbi (FBulk (bs "EVAL") :: FBulk src :: nk :: rest) None in
  fst r1 = fst r2 /\ s_dbs (snd r1) = s_dbs (snd r2) /\ s_conns (snd r1) = s_conns (snd r2).
Proof.
  intros Hn Hv Hc. cbv zeta. unfold h_evalsha, str_arg. rewrite Hv. cbv zeta. rewrite Hc. unfold evalsha_db.
  destruct (normal_command t s c dbi _ None) as [r s1]. repeat split.
Qed.

(** EVAL adds its script to the cache (0f156f9): afterwards EVALSHA of the digest, in lower or upper
    case, finds the source *)
Lemma lower_sha sha : is_sha sha = true -> lower sha = sha.
Proof.
  unfold is_sha. intros H. apply andb_prop in H. destruct H as [_ H].
  induction sha as [|c r IH]; [reflexivity|]. cbn [forallb] in H. apply andb_prop in H. destruct H as [Hc Hr].
  unfold lower. cbn [map]. fold (lower r). rewrite (IH Hr). f_equal.
  unfold lower1, is_hex_lc, is_digit in *.
  destruct ((65 <=? c) && (c <=? 90)) eqn:E; [|reflexivity]. exfalso.
  apply andb_prop in E. destruct E as [E1 E2]. apply Z.leb_le in E1, E2.
  apply orb_prop in Hc. destruct Hc as [Hc|Hc]; apply andb_prop in Hc; destruct Hc as [H1 H2]; apply Z.leb_le in H1, H2; lia.
Qed.
Lemma alookup_aset {A} k (v : A) l : alookup k (aset k v l) = Some v.
Proof. unfold aset. cbn [alookup]. now rewrite beq_refl. Qed.
Theorem evalsha_after_eval ca nm src rest sha ca' :
  utf8_valid src = true -> compile src = CompYes ->
  existsb (fun e => beq (snd e) src) ca = false ->
  eval_caches ca (FBulk nm :: FBulk src :: rest) (Some (FBulk sha)) = Some ca' ->
  is_sha sha = true /\ alookup (lower sha) ca' = Some src.
Proof.
  intros Hv Hc Hn E. unfold eval_caches, str_arg in E. rewrite Hv, Hn, Hc in E.
  destruct (sha_consistent ca sha src) eqn:Es; [|discriminate]. inversion E; subst ca'.
  unfold sha_consistent in Es. apply andb_prop in Es. destruct Es as [Hs _].
  split; [exact Hs|]. rewrite (lower_sha _ Hs). apply alookup_aset.
Qed.

(** ---- a script that calls one catalogue command = the direct command, converted ---- *)
Lemma catalogue_not_blocked : forallb (fun n => negb (blocked n)) Exec.catalogue = true.
Proof. vm_compute. reflexivity. Qed.
Lemma in_catalogue_not_blocked n : In n Exec.catalogue -> blocked n = false.
Proof.
  intros H. pose proof catalogue_not_blocked as G. rewrite forallb_forall in G.
  specialize (G n H). now destruct (blocked n).
Qed.

Definition single_call (pc : bool) (l : list bytes) : script :=
  {| s_body := [SCall pc (map EStr l)]; s_ret := RVal (ERes 1) |}.

(** redis.call / redis.pcall of a catalogue command with literal arguments, its result
    returned: the dataset effect is that of the directly sent command, the reply is the
    direct reply pushed through the two conversions (an error: abort under call, nil under pcall) *)
Theorem call_same_as_direct now d keys argv pc nm args r d' :
  In (upper nm) Exec.catalogue ->
  (* the database both paths work on: after the lazy expiry that precedes every command *)
  let d0 := fst (expire_before now d (upper nm) (ExecFacts.bulks (nm :: args))) in
  ExecFacts.known now d0 (upper nm) args = false ->
  exec_db now d0 (upper nm) (ExecFacts.bulks (nm :: args)) None = Some (r, d') ->
  run_script now d keys argv (single_call pc (nm :: args)) =
    (match resp_to_lua pc r with CVal v => lua_to_resp v | CErr m => FError m end, d').
Proof.
  intros Hin d0 Hk Hd.
  pose proof (ExecFacts.parity now d0 nm args Hin Hk) as P. rewrite Hd in P. inversion P as [P'].
  unfold run_script, single_call. cbn [s_body s_ret run_body].
  unfold call_cmd. rewrite (call_args_bytes _ (nm :: args)).
  rewrite (utf8_lossy_valid _ (ExecFacts.catalogue_name_valid nm Hin)).
  rewrite (in_catalogue_not_blocked _ Hin).
  subst d0. unfold ExecFacts.bulks in P'. cbn [map] in P' |- *. cbv zeta. rewrite P'.
  destruct (resp_to_lua pc r) as [v|m]; [|reflexivity].
  cbn [app eval e_res nth1]. reflexivity.
Qed.
