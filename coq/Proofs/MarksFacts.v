(** C08: every command of the string/key family marks every key whose entry it changes
    (value, deadline, existence): a key that is NOT marked has exactly the entry it had.
    This links "a watched key changed" to the tracker counters of Proofs/ServerFacts.v. *)
From Ferrous Require Import Base.Bytes Generated Model.Resp Model.Types Model.Glob Model.Strings
  Model.Lists Model.ZSets Model.Streams Model.Server Proofs.BytesFacts Proofs.StringsFacts Proofs.ServerFacts.
From Coq Require Import ZifyBool.
Open Scope Z_scope.

Lemma bmem_cons_false k k0 l : bmem k (k0 :: l) = false -> beq k k0 = false /\ bmem k l = false.
Proof. cbn [bmem]. intros H. apply orb_false_elim in H. exact H. Qed.
Lemma bmem_app_false k a b : bmem k (a ++ b) = false -> bmem k a = false /\ bmem k b = false.
Proof.
  induction a as [|x a IH]; cbn [app bmem]; [auto|]. intros H. apply orb_false_elim in H as [H1 H2].
  destruct (IH H2) as [Ha Hb]. rewrite H1, Ha. auto.
Qed.
Lemma bmem_true_iff k l : bmem k l = true <-> In k l.
Proof.
  induction l as [|x l IH]; cbn [bmem In]; [split; [discriminate|contradiction]|].
  rewrite orb_true_iff, IH. split; intros [H|H]; auto.
  - left. apply beq_eq in H. auto.
  - left. subst. apply beq_refl.
Qed.

(** ---- reads that lazily remove expired entries ---- *)
Definition only_removes (d d' : db) : Prop :=
  forall k, get_entry d' k = get_entry d k \/ get_entry d' k = None.
Lemma only_removes_refl d : only_removes d d.
Proof. intros k. left. reflexivity. Qed.
Lemma only_removes_trans a b c : only_removes a b -> only_removes b c -> only_removes a c.
Proof.
  intros H1 H2 k. destruct (H2 k) as [E|E]; [|right; exact E]. rewrite E. apply H1.
Qed.
Lemma eng_get_only_removes now d k : only_removes d (snd (eng_get now d k)).
Proof.
  unfold eng_get. destruct (get_entry d k) as [e|] eqn:Hg; [|apply only_removes_refl].
  destruct (expired now e); [|apply only_removes_refl]. cbn [snd]. intros k'.
  rewrite get_entry_index_del. destruct (beq k' k) eqn:E.
  - apply beq_eq in E. subst. right. apply get_entry_del_same.
  - left. apply get_entry_del_other; exact E.
Qed.
Lemma get_string_only_removes now d k : only_removes d (snd (get_string now d k)).
Proof.
  unfold get_string. pose proof (eng_get_only_removes now d k) as H.
  destruct (eng_get now d k) as [[v| |] d1]; cbn [snd] in *; try exact H. destruct v; exact H.
Qed.
Lemma mget_loop_only_removes now : forall args d acc r d',
  mget_loop now d args acc = (r, d') -> only_removes d d'.
Proof.
  induction args as [|a args IH]; intros d acc r d' H; cbn [mget_loop] in H.
  - inversion H; subst. apply only_removes_refl.
  - destruct a; try (inversion H; subst; apply only_removes_refl).
    pose proof (get_string_only_removes now d b) as Hv.
    destruct (get_string now d b) as [[[v|]|] d1]; cbn [snd] in Hv.
    + eapply only_removes_trans; [exact Hv|eapply IH; exact H].
    + eapply only_removes_trans; [exact Hv|eapply IH; exact H].
    + inversion H; subst. exact Hv.
Qed.

Lemma amem_get_entry d k : amem k (d_data d) = match get_entry d k with Some _ => true | None => false end.
Proof. reflexivity. Qed.
Lemma alookup_in_keys {A} k (l : list (bytes * A)) v : alookup k l = Some v -> In k (map fst l).
Proof.
  induction l as [|[k0 v0] l IH]; cbn [alookup map fst In]; [discriminate|].
  destruct (beq k k0) eqn:E; [apply beq_eq in E; auto|auto].
Qed.
Lemma removed_complete d d' k :
  only_removes d d' -> bmem k (removed_keys d d') = false -> get_entry d' k = get_entry d k.
Proof.
  intros Ho Hn. destruct (Ho k) as [E|E]; [exact E|].
  destruct (get_entry d k) as [e|] eqn:Hg; [|rewrite E; reflexivity].
  exfalso. assert (Hin : In k (removed_keys d d')).
  { unfold removed_keys. apply filter_In. split.
    - eapply alookup_in_keys. exact Hg.
    - rewrite amem_get_entry, E. reflexivity. }
  apply bmem_true_iff in Hin. congruence.
Qed.

(** ---- loops ---- *)
Lemma del_marks_data : forall l d1 d2, d_data d1 = d_data d2 -> del_marks d1 l = del_marks d2 l.
Proof.
  induction l as [|k l IH]; intros d1 d2 H; cbn [del_marks]; [reflexivity|].
  rewrite H. destruct (amem k (d_data d2)).
  - f_equal. apply IH. unfold del_entry. cbn [d_data]. rewrite H. reflexivity.
  - apply IH. exact H.
Qed.
Lemma del_loop_marks : forall args d n m d' k,
  del_loop d args n = (m, d') -> bmem k (del_marks d (bulk_args args)) = false ->
  get_entry d' k = get_entry d k.
Proof.
  induction args as [|a args IH]; intros d n m d' k H Hn; cbn [del_loop] in H.
  - inversion H; subst. reflexivity.
  - destruct a; try (cbn [bulk_args] in Hn; eapply IH; eauto; fail).
    cbn [bulk_args del_marks] in Hn. unfold eng_delete in H. rewrite amem_get_entry in Hn.
    destruct (get_entry d b) as [e|] eqn:Hg.
    + apply bmem_cons_false in Hn as [Hk Hr].
      rewrite (IH _ _ _ _ k H); [rewrite get_entry_index_del; apply get_entry_del_other; exact Hk|].
      (* del_marks is computed on del_entry d b; the loop continues on index_del (del_entry d b) b: same data *)
      rewrite (del_marks_data _ (index_del (del_entry d b) b) (del_entry d b) eq_refl). exact Hr.
    + eapply IH; eauto.
Qed.
Lemma mset_loop_marks now : forall (n : nat) args d r d' k, (length args <= n)%nat ->
  mset_loop now d args = (r, d') -> bmem k (mset_marks args) = false ->
  get_entry d' k = get_entry d k.
Proof.
  induction n as [|n IH]; intros args d r d' k Hl H Hn.
  - destruct args; [|cbn in Hl; lia]. inversion H; subst. reflexivity.
  - destruct args as [|a args]; [inversion H; subst; reflexivity|].
    cbn [mset_loop] in H. destruct a; try (inversion H; subst; reflexivity).
    destruct args as [|a2 args]; [inversion H; subst; reflexivity|].
    destruct a2; try (inversion H; subst; reflexivity).
    cbn [mset_marks] in Hn. apply bmem_cons_false in Hn as [Hk Hr].
    rewrite (IH args _ _ _ k ltac:(cbn [length] in Hl; lia) H Hr). apply set_value_other. exact Hk.
Qed.

(** ---- the family theorem ---- *)
Ltac closed_beq := repeat match goal with
  | |- context [beq (bs ?a) (bs ?b)] =>
      let v := eval vm_compute in (beq (bs a) (bs b)) in change (beq (bs a) (bs b)) with v
  | H : context [beq (bs ?a) (bs ?b)] |- _ =>
      let v := eval vm_compute in (beq (bs a) (bs b)) in change (beq (bs a) (bs b)) with v in H
  end; cbn [orb andb negb] in *.

Ltac st_step :=
  match goal with
  | H : (_, _) = (_, _) |- _ => inversion H; clear H; subst
  | H : Some _ = Some _ |- _ => inversion H; clear H; subst
  | H : context [if ?c then _ else _] |- _ => destruct c eqn:?
  | H : context [match ?x with _ => _ end] |- _ => destruct x eqn:?
  end.
Ltac unchanged :=
  repeat (rewrite ?get_entry_index, ?get_entry_index_del);
  repeat first [ rewrite get_entry_put_other by assumption
               | rewrite get_entry_del_other by assumption
               | rewrite get_entry_index | rewrite get_entry_index_del ];
  try reflexivity.
Ltac split_marks :=
  repeat match goal with
  | H : bmem _ (_ :: _) = false |- _ => apply bmem_cons_false in H; destruct H
  | H : bmem _ (_ ++ _) = false |- _ => apply bmem_app_false in H; destruct H
  end.

Ltac fin :=
  cbn [arg_bytes] in *;
  repeat match goal with H : Some _ = Some _ |- _ => inversion H; clear H; subst end;
  try discriminate; try (exfalso; congruence);
  split_marks; try reflexivity; unfold set_value in *;
  repeat match goal with |- context [match ?t with Some _ => _ | None => _ end] => destruct t end;
  unchanged.

Lemma set_value_unmarked now d k0 v ttl k : beq k k0 = false ->
  get_entry (set_value now d k0 v ttl) k = get_entry d k.
Proof. apply set_value_other. Qed.

Theorem marks_complete_strings now d name parts r d' k :
  exec_strings now d name parts = Some (r, d') ->
  bmem k (marks_strings d d' name parts r) = false ->
  get_entry d' k = get_entry d k.
Proof.
  unfold exec_strings. intros H Hn.
  repeat match type of H with
  | (if beq name ?c then _ else _) = _ =>
      let E := fresh "E" in destruct (beq name c) eqn:E;
      [apply beq_eq in E; subst name; inversion H as [H1]; clear H | ]
  end; try discriminate; unfold marks_strings in Hn; closed_beq.
  - (* SET *) unfold h_set in H1. unfold nth_arg in Hn.
    repeat st_step; cbn [arg_bytes is_error r_ok r_nil r_err negb] in Hn; fin.
  - (* GET *) apply removed_complete; [|exact Hn].
    unfold h_get in H1. repeat st_step; try apply only_removes_refl;
    match goal with E : get_string _ _ ?b = _ |- _ => pose proof (get_string_only_removes now d b) as Ho; rewrite E in Ho; exact Ho end.
  - (* INCR *) unfold h_incr, reply_incr, eng_incr_by, nth_arg in *. repeat st_step;
      cbn [arg_bytes r_int r_err] in Hn; fin.
  - (* DECR *) unfold h_incr, reply_incr, eng_incr_by, nth_arg in *. repeat st_step;
      cbn [arg_bytes r_int r_err] in Hn; fin.
  - (* INCRBY *) unfold h_incrby, reply_incr, eng_incr_by, nth_arg in *. repeat st_step;
      cbn [arg_bytes r_int r_err] in Hn; fin.
  - (* DECRBY *) unfold h_decrby, reply_incr, eng_incr_by, nth_arg in *. repeat st_step;
      cbn [arg_bytes r_int r_err] in Hn; fin.
  - (* DEL *) unfold h_del in H1. destruct (nparts parts <? 2) eqn:Ea; [inversion H1; reflexivity|].
    unfold nparts in Ea. rewrite Ea in Hn.
    destruct (del_loop d (tl parts) 0) as [m d1] eqn:El. inversion H1; subst. eapply del_loop_marks; eauto.
  - (* EXISTS *) unfold h_exists in H1. repeat st_step; reflexivity.
  - (* EXPIRE *) unfold h_expire, eng_expire, eng_delete, nth_arg in *. repeat st_step;
      cbn [arg_bytes r_int r_err] in Hn; fin.
  - (* PEXPIRE *) unfold h_pexpire, eng_expire, nth_arg in *. repeat st_step;
      cbn [arg_bytes r_int r_err] in Hn; fin.
  - (* TTL *) unfold h_ttl in H1. repeat st_step; reflexivity.
  - (* PTTL *) unfold h_pttl in H1. repeat st_step; reflexivity.
  - (* PERSIST *) unfold h_persist, eng_persist, nth_arg in *. repeat st_step;
      cbn [arg_bytes r_int r_err] in Hn; fin.
  - (* SETNX *) unfold h_setnx, nth_arg in *. repeat st_step;
      cbn [arg_bytes r_int r_err] in Hn; fin.
  - (* SETEX *) unfold h_setex, nth_arg in *. repeat st_step;
      cbn [arg_bytes is_error r_ok r_err negb] in Hn; fin.
  - (* PSETEX *) unfold h_setex, nth_arg in *. repeat st_step;
      cbn [arg_bytes is_error r_ok r_err negb] in Hn; fin.
  - (* MGET *) apply removed_complete; [|exact Hn].
    unfold h_mget in H1. destruct (nparts parts <? 2); [inversion H1; apply only_removes_refl|].
    eapply mget_loop_only_removes; exact H1.
  - (* MSET *) unfold h_mset in H1. unfold nparts in H1.
    destruct ((len parts <? 3) || (len parts mod 2 =? 0)); [inversion H1; reflexivity|].
    destruct (mset_valid (tl parts)); [|inversion H1; reflexivity].
    eapply (mset_loop_marks now (length (tl parts))); eauto.
  - (* GETSET *) unfold h_getset, nth_arg in *. unfold nparts in H1.
    destruct (negb (len parts =? 3)) eqn:Ea; [inversion H1; reflexivity|].
    apply negb_false_iff in Ea. rewrite Ea in Hn. cbn [andb] in Hn.
    repeat st_step; cbn [arg_bytes is_error r_bulk r_nil r_ok r_int r_wrongtype r_err negb andb] in *;
      try discriminate; split_marks; try reflexivity.
    all: match goal with E : get_string _ _ ?b = (_, ?d1) |- _ =>
           pose proof (get_string_only_removes now d b) as Ho; rewrite E in Ho; cbn [snd] in Ho end.
    all: unfold get_string, eng_get in *; repeat st_step;
         cbn [arg_bytes is_error r_bulk r_nil r_ok r_int r_wrongtype r_err negb andb] in *;
         try discriminate; fin.
  - (* APPEND *) unfold h_append, nth_arg in *. repeat st_step;
      cbn [arg_bytes r_int r_err r_wrongtype] in Hn; fin.
  - (* STRLEN *) unfold h_strlen in H1. repeat st_step; reflexivity.
  - (* GETRANGE *) unfold h_getrange in H1. repeat st_step; reflexivity.
  - (* SETRANGE *) unfold h_setrange, eng_setrange, nth_arg in *. repeat st_step;
      cbn [arg_bytes r_int r_err r_wrongtype] in Hn; fin.
  - (* TYPE *) unfold h_type in H1. repeat st_step; reflexivity.
  - (* RENAME *) unfold h_rename, eng_rename, nth_arg in *. repeat st_step;
      cbn [arg_bytes r_ok r_err app] in Hn; fin.
  - (* RENAMENX *) unfold h_renamenx, eng_rename, nth_arg in *. repeat st_step;
      cbn [arg_bytes r_int r_err app] in Hn; fin.
  - (* KEYS *) unfold h_keys in H1. repeat st_step; reflexivity.
  - (* DBSIZE *) unfold h_dbsize in H1. repeat st_step; reflexivity.
  - (* FLUSHDB *) unfold h_flushdb in H1. repeat st_step; try reflexivity;
      cbn [is_error r_ok negb] in *; try discriminate.
    destruct (get_entry d k) as [e|] eqn:Hg; [|reflexivity].
    exfalso. pose proof (alookup_in_keys _ _ _ Hg) as Hin. apply bmem_true_iff in Hin. congruence.
Qed.
