(** The C03 value invariant (no empty collection stored, unique members / fields) along
    histories that MIX the list/set/hash family with the string / key-space family
    (exec_db's first two dispatchers): the string family only stores strings, deletes
    entries, moves an existing entry (RENAME) or changes a deadline. *)
From Ferrous Require Import Base.Bytes Model.Resp Model.Types Model.Strings Model.Lists
  Spec.Collections Proofs.BytesFacts Proofs.ListsFacts.
Open Scope Z_scope.

Lemma wfc_put d k v x : wf_colls d -> wf_value v -> wf_colls (put_entry d k {| e_val := v; e_exp := x |}).
Proof.
  intros Hd Hv k' e' Hin. unfold put_entry, aset in Hin. cbn [d_data In] in Hin.
  destruct Hin as [E | Hin]; [inversion E; subst; exact Hv | apply (Hd k' e'); eapply aremove_In; exact Hin].
Qed.
Lemma wfc_put_entry d k e : wf_colls d -> wf_value (e_val e) -> wf_colls (put_entry d k e).
Proof. destruct e as [v x]. apply wfc_put. Qed.
Lemma wfc_del d k : wf_colls d -> wf_colls (del_entry d k).
Proof. intros Hd k' e' Hin. unfold del_entry in Hin. cbn [d_data] in Hin. apply (Hd k' e'). eapply aremove_In; exact Hin. Qed.
Lemma wfc_index_set d k t : wf_colls d -> wf_colls (index_set d k t).
Proof. intros Hd. exact Hd. Qed.
Lemma wfc_index_del d k : wf_colls d -> wf_colls (index_del d k).
Proof. intros Hd. exact Hd. Qed.
Lemma wfc_empty : wf_colls empty_db.
Proof. intros k e []. Qed.
Lemma wfc_str b : wf_value (VStr b).
Proof. exact I. Qed.
Lemma wfc_lookup d k e : get_entry d k = Some e -> wf_colls d -> wf_value (e_val e).
Proof. unfold get_entry. intros H Hd. apply (Hd k e). apply alookup_In. exact H. Qed.
Lemma wfc_set_value now d k b ttl : wf_colls d -> wf_colls (set_value now d k (VStr b) ttl).
Proof. intros H. unfold set_value. destruct ttl; [apply wfc_index_set|]; apply wfc_put; auto; exact I. Qed.
#[export] Hint Resolve wfc_put wfc_put_entry wfc_del wfc_index_set wfc_index_del wfc_empty wfc_str wfc_lookup wfc_set_value : wfc.

Ltac c_step :=
  match goal with
  | H : (_, _) = (_, _) |- _ => inversion H; clear H; subst
  | H : Some _ = Some _ |- _ => inversion H; clear H; subst
  | H : context [if ?c then _ else _] |- _ => destruct c eqn:?
  | H : context [match ?x with _ => _ end] |- _ => destruct x eqn:?
  end.
Ltac c_solve := intros; repeat c_step; try discriminate; eauto 8 with wfc.

Lemma wfc_eng_incr d k inc o d' : wf_colls d -> eng_incr_by d k inc = (o, d') -> wf_colls d'.
Proof. unfold eng_incr_by. c_solve. Qed.
Lemma wfc_reply_incr d k inc r d' : wf_colls d -> reply_incr (eng_incr_by d k inc) = (r, d') -> wf_colls d'.
Proof.
  intros Hw H. unfold reply_incr in H. destruct (eng_incr_by d k inc) as [o d1] eqn:E.
  assert (wf_colls d1) by (eapply wfc_eng_incr; eauto). destruct o; inversion H; subst; assumption.
Qed.
Lemma wfc_eng_get now d k g d' : wf_colls d -> eng_get now d k = (g, d') -> wf_colls d'.
Proof. unfold eng_get. c_solve. Qed.
Lemma wfc_get_string now d k g d' : wf_colls d -> get_string now d k = (g, d') -> wf_colls d'.
Proof.
  intros Hw H. unfold get_string in H. destruct (eng_get now d k) as [g1 d1] eqn:E.
  assert (wf_colls d1) by (eapply wfc_eng_get; eauto).
  destruct g1 as [v| |]; [destruct v|..]; inversion H; subst; assumption.
Qed.
Lemma wfc_eng_rename d o n ok d' : wf_colls d -> eng_rename d o n = (ok, d') -> wf_colls d'.
Proof.
  intros Hw E. unfold eng_rename in E. destruct (get_entry d o) as [e|] eqn:G; inversion E; subst; [|exact Hw].
  apply wfc_put_entry; [destruct (e_exp e); eauto 8 with wfc|]. eapply wfc_lookup; eauto.
Qed.
Lemma wfc_del_loop : forall args d n m d', wf_colls d -> del_loop d args n = (m, d') -> wf_colls d'.
Proof.
  induction args as [|a args IH]; intros d n m d' Hw H; cbn [del_loop] in H.
  - inversion H; subst; exact Hw.
  - destruct a; try (eapply IH; eauto; fail).
    unfold eng_delete in H. destruct (get_entry d b).
    + eapply IH; [|exact H]. auto with wfc.
    + eapply IH; eauto.
Qed.
Lemma wfc_mget_loop now : forall args d acc r d', wf_colls d -> mget_loop now d args acc = (r, d') -> wf_colls d'.
Proof.
  induction args as [|a args IH]; intros d acc r d' Hw H; cbn [mget_loop] in H.
  - inversion H; subst; exact Hw.
  - destruct a; try (inversion H; subst; exact Hw).
    destruct (get_string now d b) as [[[v|]|] d1] eqn:E;
      assert (wf_colls d1) by (eapply wfc_get_string; eauto).
    + eapply IH; eauto.
    + eapply IH; eauto.
    + inversion H; subst; assumption.
Qed.
Lemma wfc_mset_loop now : forall (n : nat) args d r d', (length args <= n)%nat ->
  wf_colls d -> mset_loop now d args = (r, d') -> wf_colls d'.
Proof.
  induction n as [|n IH]; intros args d r d' Hl Hw H.
  - destruct args; [|cbn in Hl; lia]. inversion H; subst; exact Hw.
  - destruct args as [|a args]; [inversion H; subst; exact Hw|].
    cbn [mset_loop] in H. destruct a; try (inversion H; subst; exact Hw).
    destruct args as [|a2 args]; [inversion H; subst; exact Hw|].
    destruct a2; try (inversion H; subst; exact Hw).
    eapply (IH args); [cbn [length] in Hl; lia| |exact H]. auto with wfc.
Qed.

Lemma exec_strings_colls now d name parts r d' :
  wf_colls d -> exec_strings now d name parts = Some (r, d') -> wf_colls d'.
Proof.
  unfold exec_strings. intros Hw H.
  repeat match type of H with
  | (if ?c then _ else _) = _ => destruct c eqn:?
  end; try discriminate; inversion H as [H1]; clear H.
  - unfold h_set in H1. c_solve.
  - unfold h_get in H1. destruct (negb (nparts parts =? 2)); [inversion H1; subst; exact Hw|].
    destruct (nth_arg parts 1); [|inversion H1; subst; exact Hw].
    destruct (beq b []); [inversion H1; subst; exact Hw|].
    destruct (get_string now d b) as [[[v|]|] d1] eqn:E; inversion H1; subst; eapply wfc_get_string; eauto.
  - unfold h_incr in H1. repeat c_step; auto; eapply wfc_reply_incr; eauto.
  - unfold h_incr in H1. repeat c_step; auto; eapply wfc_reply_incr; eauto.
  - unfold h_incrby in H1. repeat c_step; auto; eapply wfc_reply_incr; eauto.
  - unfold h_decrby in H1. repeat c_step; auto; eapply wfc_reply_incr; eauto.
  - unfold h_del in H1. destruct (nparts parts <? 2); [inversion H1; subst; exact Hw|].
    destruct (del_loop d (tl parts) 0) eqn:E. inversion H1; subst. eapply wfc_del_loop; eauto.
  - unfold h_exists in H1. c_solve.
  - unfold h_expire, eng_expire, eng_delete in H1. c_solve.
  - unfold h_pexpire, eng_expire in H1. c_solve.
  - unfold h_ttl in H1. c_solve.
  - unfold h_pttl in H1. c_solve.
  - unfold h_persist, eng_persist in H1. c_solve.
  - unfold h_setnx in H1. c_solve.
  - unfold h_setex in H1. c_solve.
  - unfold h_setex in H1. c_solve.
  - unfold h_mget in H1. destruct (nparts parts <? 2); [inversion H1; subst; exact Hw|].
    eapply wfc_mget_loop; eauto.
  - unfold h_mset in H1. destruct ((nparts parts <? 3) || (nparts parts mod 2 =? 0)); [inversion H1; subst; exact Hw|].
    destruct (mset_valid (tl parts)); [|inversion H1; subst; exact Hw].
    eapply (wfc_mset_loop now (length (tl parts))); eauto.
  - unfold h_getset in H1. destruct (negb (nparts parts =? 3)); [inversion H1; subst; exact Hw|].
    destruct (nth_arg parts 1); [|inversion H1; subst; exact Hw].
    destruct (nth_arg parts 2); [|inversion H1; subst; exact Hw].
    destruct (get_string now d b) as [[o|] d1] eqn:E;
      assert (wf_colls d1) by (eapply wfc_get_string; eauto); inversion H1; subst; auto with wfc.
  - unfold h_append in H1. c_solve.
  - unfold h_strlen in H1. c_solve.
  - unfold h_getrange in H1. c_solve.
  - unfold h_setrange, eng_setrange in H1. c_solve.
  - unfold h_type in H1. c_solve.
  - unfold h_rename in H1. destruct (negb (nparts parts =? 3)); [inversion H1; subst; exact Hw|].
    destruct (nth_arg parts 1); [|inversion H1; subst; exact Hw].
    destruct (nth_arg parts 2); [|inversion H1; subst; exact Hw].
    destruct (eng_rename d b b0) as [ok d1] eqn:E. pose proof (wfc_eng_rename _ _ _ _ _ Hw E).
    destruct ok; inversion H1; subst; assumption.
  - unfold h_renamenx in H1. destruct (negb (nparts parts =? 3)); [inversion H1; subst; exact Hw|].
    destruct (nth_arg parts 1); [|inversion H1; subst; exact Hw].
    destruct (nth_arg parts 2); [|inversion H1; subst; exact Hw].
    destruct (negb (eng_exists now d b)); [inversion H1; subst; exact Hw|].
    destruct (eng_exists now d b0); [inversion H1; subst; exact Hw|].
    destruct (eng_rename d b b0) as [ok d1] eqn:E. pose proof (wfc_eng_rename _ _ _ _ _ Hw E).
    destruct ok; inversion H1; subst; assumption.
  - unfold h_keys in H1. c_solve.
  - unfold h_dbsize in H1. c_solve.
  - unfold h_flushdb in H1. c_solve.
Qed.

(** mixed histories: any command of the two families, in any order *)
Definition mixed_step (d : db) (c : hcmd) : db :=
  match exec_strings (h_now c) d (h_name c) (h_parts c) with
  | Some (_, d') => d'
  | None => match exec_lists (h_now c) d (h_name c) (h_parts c) (h_oracle c) with
            | Some (_, d') => d'
            | None => d
            end
  end.
Definition mixed_run (d : db) (cs : list hcmd) : db := fold_left mixed_step cs d.

Lemma mixed_step_wf d c : wf_colls d -> wf_colls (mixed_step d c).
Proof.
  intros H. unfold mixed_step.
  destruct (exec_strings (h_now c) d (h_name c) (h_parts c)) as [[r d']|] eqn:E1.
  - eapply exec_strings_colls; eauto.
  - destruct (exec_lists (h_now c) d (h_name c) (h_parts c) (h_oracle c)) as [[r d']|] eqn:E2; [|exact H].
    eapply exec_lists_wf; eauto.
Qed.
Lemma mixed_run_wf cs : forall d, wf_colls d -> wf_colls (mixed_run d cs).
Proof.
  unfold mixed_run. induction cs as [|c r IH]; intros d H; cbn [fold_left]; [exact H|].
  apply IH. apply mixed_step_wf. exact H.
Qed.
Lemma mixed_run_empty_removed_unique cs k e : In (k, e) (d_data (mixed_run empty_db cs)) ->
  match e_val e with
  | VList l => l <> []
  | VSet s => s <> [] /\ NoDup s
  | VHash h => h <> [] /\ NoDup (map fst h)
  | _ => True
  end.
Proof.
  intros H. pose proof (mixed_run_wf cs empty_db wf_empty_db k e H) as W.
  destruct (e_val e); cbn [wf_value] in W; tauto.
Qed.
