(** C05, the reply path below the serialiser: whatever the socket accepts and however sends
    and flushes interleave, the bytes on the wire are exactly the bytes handed to
    send_frame, in order, none twice, none skipped. *)
From Ferrous Require Import Base.Bytes Generated Model.OutBuf.
From Coq Require Import Lia.
Open Scope nat_scope.

(** ---- what the regenerated pieces of [flush] must say (they break when the source changes) ---- *)
Lemma gen_offset_update off n : flush_offset_update off n = off + n.
Proof. reflexivity. Qed.
Lemma gen_writes_from off : flush_writes_from off = off.
Proof. reflexivity. Qed.
Lemma gen_clears off len : flush_clears off len = Nat.leb len off.
Proof. reflexivity. Qed.
Lemma gen_clear_sites : flush_clear_sites = 2.
Proof. reflexivity. Qed.

(** ---- list facts ---- *)
Lemma firstn_add {A} (a b : nat) (l : list A) : firstn (a + b) l = firstn a l ++ firstn b (skipn a l).
Proof.
  revert l; induction a as [|a IH]; intros l; [reflexivity|].
  destruct l as [|x l]; cbn [Nat.add firstn skipn app]; [rewrite firstn_nil; reflexivity|].
  rewrite IH. reflexivity.
Qed.
Lemma firstn_app_le {A} n (l1 l2 : list A) : n <= length l1 -> firstn n (l1 ++ l2) = firstn n l1.
Proof. intros H. rewrite firstn_app. replace (n - length l1) with 0 by lia. cbn [firstn]. apply app_nil_r. Qed.
Lemma skipn_app_le {A} n (l1 l2 : list A) : n <= length l1 -> skipn n (l1 ++ l2) = skipn n l1 ++ l2.
Proof. intros H. rewrite skipn_app. replace (n - length l1) with 0 by lia. reflexivity. Qed.

(** ---- the loop ---- *)
Lemma flush_loop_spec : forall fuel attempts o rs wire o' wire' rs' err,
  flush_loop fuel attempts o rs wire = (o', wire', rs', err) ->
  ob_off o <= length (ob_buf o) ->
  ob_buf o' = ob_buf o /\ ob_off o <= ob_off o' <= length (ob_buf o) /\
  exists w, wire' = wire ++ w /\ firstn (ob_off o') (ob_buf o) = firstn (ob_off o) (ob_buf o) ++ w.
Proof.
  induction fuel as [|fuel IH]; intros attempts o rs wire o' wire' rs' err H Hle.
  - cbn [flush_loop] in H. inversion H; subst. repeat split; try lia. exists []. rewrite !app_nil_r. split; reflexivity.
  - cbn [flush_loop] in H.
    assert (Hstop : forall e, (o, wire, rs, e) = (o', wire', rs', err) ->
      ob_buf o' = ob_buf o /\ ob_off o <= ob_off o' <= length (ob_buf o) /\
      exists w, wire' = wire ++ w /\ firstn (ob_off o') (ob_buf o) = firstn (ob_off o) (ob_buf o) ++ w).
    { intros e E. inversion E; subst. repeat split; try lia. exists []. rewrite !app_nil_r. split; reflexivity. }
    assert (Hstop' : forall e r, (o, wire, r, e) = (o', wire', rs', err) ->
      ob_buf o' = ob_buf o /\ ob_off o <= ob_off o' <= length (ob_buf o) /\
      exists w, wire' = wire ++ w /\ firstn (ob_off o') (ob_buf o) = firstn (ob_off o) (ob_buf o) ++ w).
    { intros e r E. inversion E; subst. repeat split; try lia. exists []. rewrite !app_nil_r. split; reflexivity. }
    destruct (Nat.ltb (ob_off o) (length (ob_buf o)) && Nat.ltb attempts max_attempts) eqn:Hc; [|eapply Hstop; exact H].
    destruct rs as [|r rs0]; [eapply Hstop; exact H|].
    destruct r as [n| | | |].
    + rewrite gen_writes_from, gen_offset_update in H.
      set (tail := skipn (ob_off o) (ob_buf o)) in *.
      set (n' := Nat.min n (length tail)) in *.
      destruct (Nat.eqb n' 0) eqn:E0; [eapply Hstop'; exact H|].
      apply Nat.eqb_neq in E0.
      assert (Hlt : length tail = length (ob_buf o) - ob_off o) by (unfold tail; apply skipn_length).
      assert (Hn : n' <= length (ob_buf o) - ob_off o) by (unfold n'; lia).
      apply IH in H; [|cbn [ob_buf ob_off]; lia].
      cbn [ob_buf ob_off] in H. destruct H as (Hb & Ho & w & Hw & Hf).
      split; [exact Hb|]. split; [lia|].
      exists (firstn n' tail ++ w). split; [rewrite Hw, app_assoc; reflexivity|].
      rewrite Hf, firstn_add. fold tail. rewrite app_assoc. reflexivity.
    + destruct (Nat.ltb (S attempts) max_attempts); [eapply IH; eassumption|eapply Hstop'; exact H].
    + eapply IH; eassumption.
    + destruct (Nat.ltb (S attempts) max_attempts); [eapply IH; eassumption|eapply Hstop'; exact H].
    + eapply Hstop'; exact H.
Qed.

(** ---- invariant of a connection's output side ---- *)
Definition ob_inv (s : ob_state) : Prop :=
  ob_off (os_buf s) <= length (ob_buf (os_buf s)) /\
  exists pre, os_sent s = pre ++ ob_buf (os_buf s) /\
              os_wire s = pre ++ firstn (ob_off (os_buf s)) (ob_buf (os_buf s)).

Lemma ob_inv_init : ob_inv os_init.
Proof. split; [cbn; lia|]. exists []. split; reflexivity. Qed.

Lemma ob_inv_step s op : ob_inv s -> ob_inv (ob_step s op).
Proof.
  intros (Hle & pre & Hs & Hw). destruct op as [b|rs]; cbn [ob_step].
  - split; cbn [os_buf ob_send ob_buf ob_off os_sent os_wire]; [rewrite app_length; lia|].
    exists pre. split; [rewrite Hs, app_assoc; reflexivity|].
    rewrite firstn_app_le by exact Hle. exact Hw.
  - unfold ob_flush. rewrite gen_clears.
    destruct (Nat.leb (length (ob_buf (os_buf s))) (ob_off (os_buf s))) eqn:Hc.
    + (* nothing to write: clear *)
      apply Nat.leb_le in Hc. assert (He : ob_off (os_buf s) = length (ob_buf (os_buf s))) by lia.
      split; cbn; [lia|]. exists (pre ++ ob_buf (os_buf s)).
      rewrite !app_nil_r. split; [exact Hs|]. rewrite Hw, He, firstn_all. reflexivity.
    + destruct (flush_loop (S (length rs)) 0 (os_buf s) rs []) as [[[o' wire] rs'] err] eqn:Hl.
      destruct (flush_loop_spec _ _ _ _ _ _ _ _ _ Hl Hle) as (Hb & Ho & w & Hwire & Hf).
      cbn [app] in Hwire. subst wire.
      assert (Hkeep : ob_inv {| os_buf := o'; os_sent := os_sent s; os_wire := os_wire s ++ w |}).
      { split; cbn [os_buf os_sent os_wire]; [rewrite Hb; lia|]. exists pre. rewrite Hb. split; [exact Hs|].
        rewrite Hw, Hf, app_assoc. reflexivity. }
      destruct err; [exact Hkeep|].
      unfold ob_settle. rewrite gen_clears.
      destruct (Nat.leb (length (ob_buf o')) (ob_off o')) eqn:Hd; [|exact Hkeep].
      apply Nat.leb_le in Hd. rewrite Hb in Hd.
      assert (He : ob_off o' = length (ob_buf (os_buf s))) by lia.
      split; cbn; [lia|]. exists (pre ++ ob_buf (os_buf s)). rewrite !app_nil_r. split; [exact Hs|].
      rewrite Hw, <- app_assoc. f_equal. rewrite <- Hf, He, firstn_all. reflexivity.
Qed.

Lemma ob_inv_run ops : ob_inv (ob_run ops).
Proof.
  unfold ob_run. assert (G : forall s, ob_inv s -> ob_inv (fold_left ob_step ops s)).
  { induction ops as [|op ops IH]; intros s Hs; cbn [fold_left]; [exact Hs|]. apply IH, ob_inv_step, Hs. }
  apply G, ob_inv_init.
Qed.

(** the wire carries exactly what was sent, up to the part still pending in the buffer *)
Theorem wire_is_sent ops :
  let s := ob_run ops in os_wire s ++ ob_pending (os_buf s) = os_sent s.
Proof.
  cbn zeta. destruct (ob_inv_run ops) as (Hle & pre & Hs & Hw).
  rewrite Hw, Hs, <- app_assoc. f_equal. unfold ob_pending. apply firstn_skipn.
Qed.

(** in particular the wire is always a prefix of what was sent, and equal to it once nothing is pending *)
Corollary wire_complete ops :
  ob_has_pending (os_buf (ob_run ops)) = false -> os_wire (ob_run ops) = os_sent (ob_run ops).
Proof.
  intros H. pose proof (wire_is_sent ops) as E. cbn zeta in E.
  destruct (ob_inv_run ops) as (Hle & _). unfold ob_has_pending in H. apply Nat.ltb_ge in H.
  unfold ob_pending in E. rewrite skipn_all2 in E by lia. rewrite app_nil_r in E. exact E.
Qed.

(** a full socket loses nothing: flush reports no error and keeps the unsent bytes *)
Lemma block_keeps o : ob_off o < length (ob_buf o) ->
  ob_flush o [WBlock; WBlock; WBlock; WBlock; WBlock] = (o, [], [], false).
Proof.
  intros H. unfold ob_flush. rewrite gen_clears.
  assert (E : Nat.leb (length (ob_buf o)) (ob_off o) = false) by (apply Nat.leb_gt; exact H). rewrite E.
  assert (L : Nat.ltb (ob_off o) (length (ob_buf o)) = true) by (apply Nat.ltb_lt; exact H).
  cbn [length flush_loop]. rewrite L.
  repeat match goal with
  | |- context [Nat.ltb ?a max_attempts] =>
      let v := eval vm_compute in (Nat.ltb a max_attempts) in change (Nat.ltb a max_attempts) with v
  end.
  cbn [andb]. unfold ob_settle. rewrite gen_clears, E. reflexivity.
Qed.

(** non-vacuity: a history with partial writes, a full socket and interleaved sends *)
Example partial_history :
  let ops := [OSend (bs "+OK" ++ [13; 10])%Z; OFlush [WAccept 2; WBlock]; OSend (bs ":1" ++ [13; 10])%Z;
              OFlush [WBlock; WBlock; WBlock; WBlock; WBlock]; OFlush [WAccept 1; WIntr; WAccept 100]] in
  os_wire (ob_run ops) = (bs "+OK" ++ [13; 10] ++ bs ":1" ++ [13; 10])%Z /\ ob_has_pending (os_buf (ob_run ops)) = false.
Proof. vm_compute. split; reflexivity. Qed.
