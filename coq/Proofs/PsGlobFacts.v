(** The pub/sub glob matcher (Model/PubSub.v ps_match, pubsub.rs:370-427) decides the
    declarative glob relation [GlobSpec]: soundness and completeness of the iterative
    single-star backtracking loop, for all patterns and texts. *)
From Ferrous Require Import Base.Bytes Model.Types Model.PubSub Proofs.BytesFacts.
Open Scope Z_scope.

(** Declarative glob: [*] = 42 any (possibly empty) string, [?] = 63 any one byte, [\x] = 92 x
    the byte x, a trailing backslash stands for itself, [[...]] = 91 ... 93 a character class
    standing for one byte, any other byte for itself.

    A class runs from the '[' to the FIRST ']' after it (so ']' cannot be a member and a
    backslash inside a class is an ordinary member); what is between them ([inner]) is a list
    of items read left to right: `x-y` (when at least three bytes remain and the middle one
    is '-') is the range of bytes x..y, any other byte is itself.  A leading '^' negates.
    `[]` accepts nothing, `[^]` every byte.  A '[' without any ']' after it matches nothing
    (there is no constructor for it). *)
Fixpoint class_items (body : bytes) : list (Z * Z) :=
  match body with
  | [] => []
  | lo :: rest =>
      match rest with
      | m :: hi :: rest' => if m =? 45 then (lo, hi) :: class_items rest' else (lo, lo) :: class_items rest
      | _ => (lo, lo) :: class_items rest
      end
  end.
Definition in_class (body : bytes) (c : Z) : Prop :=
  exists lo hi, In (lo, hi) (class_items body) /\ lo <= c <= hi.
Definition class_accepts (inner : bytes) (c : Z) : Prop :=
  match inner with
  | [] => False
  | c0 :: body => if c0 =? 94 then ~ in_class body c else in_class inner c
  end.

Inductive GlobSpec : bytes -> bytes -> Prop :=
| GS_nil : GlobSpec [] []
| GS_any : forall p c s, GlobSpec p s -> GlobSpec (63 :: p) (c :: s)
| GS_star0 : forall p s, GlobSpec p s -> GlobSpec (42 :: p) s
| GS_star1 : forall p c s, GlobSpec (42 :: p) s -> GlobSpec (42 :: p) (c :: s)
| GS_class : forall inner p c s, ~ In 93 inner -> class_accepts inner c -> GlobSpec p s ->
    GlobSpec (91 :: inner ++ 93 :: p) (c :: s)
| GS_esc : forall p c s, GlobSpec p s -> GlobSpec (92 :: c :: p) (c :: s)
| GS_esc_end : GlobSpec [92] [92]
| GS_lit : forall p c s, c <> 63 -> c <> 42 -> c <> 91 -> c <> 92 -> GlobSpec p s -> GlobSpec (c :: p) (c :: s).

(** ---- list facts ---- *)
Lemma app_suffix {A} : forall (x y a b : list A),
  x ++ a = y ++ b -> (length a <= length b)%nat -> exists z, b = z ++ a.
Proof.
  intros x y a b H L. apply app_eq_app in H. destruct H as [l [[H1 H2] | [H1 H2]]].
  - exists l. exact H2.
  - subst a. rewrite app_length in L. destruct l; [exists []; reflexivity | simpl in L; lia].
Qed.
Lemma app_same_suffix {A} : forall (x y a b : list A),
  x ++ a = y ++ b -> length a = length b -> a = b.
Proof.
  intros x y a b H L. destruct (app_suffix x y a b H) as [z Hz]; [lia|].
  subst b. rewrite app_length in L. destruct z; [reflexivity | simpl in L; lia].
Qed.

(** ---- the star ---- *)
Lemma star_iff p s : GlobSpec (42 :: p) s <-> exists u v, s = u ++ v /\ GlobSpec p v.
Proof.
  split.
  - remember (42 :: p) as q eqn:Hq. intros H. induction H; try discriminate.
    + injection Hq as ->. exists [], s. split; [reflexivity | assumption].
    + destruct (IHGlobSpec Hq) as [u [v [-> Hv]]]. injection Hq as ->.
      exists (c :: u), v. split; [reflexivity | assumption].
    + injection Hq as E _. congruence.
  - intros [u [v [-> Hv]]]. induction u as [|c u IH]; simpl.
    + apply GS_star0. exact Hv.
    + apply GS_star1. exact IH.
Qed.
Lemma star_prepend p z s : GlobSpec (42 :: p) s -> GlobSpec (42 :: p) (z ++ s).
Proof. intros H. induction z as [|c z IH]; simpl; [exact H | apply GS_star1; exact IH]. Qed.

Definition all_stars (p : bytes) : bool := is_nil (drop_while (fun c => c =? 42) p).
Lemma nil_iff p : GlobSpec p [] <-> all_stars p = true.
Proof.
  unfold all_stars. split.
  - remember [] as s eqn:Hs. intros H. induction H; try discriminate; simpl; auto.
  - induction p as [|c p IH]; simpl; intros H.
    + constructor.
    + destruct (Z.eqb_spec c 42) as [->|Hn]; [|discriminate]. apply GS_star0. auto.
Qed.

(** ---- classes ---- *)
Lemma split_close_spec : forall p a b, split_close p = Some (a, b) -> p = a ++ 93 :: b /\ ~ In 93 a.
Proof.
  induction p as [|c r IH]; intros a b; cbn [split_close]; [discriminate|].
  destruct (Z.eqb_spec c 93) as [->|N].
  - intros H; injection H as <- <-. split; [reflexivity | intros []].
  - destruct (split_close r) as [[a' b']|]; [|discriminate].
    intros H; injection H as <- <-. destruct (IH a' b' eq_refl) as [-> Hn].
    split; [reflexivity|]. intros [E|E]; [congruence | exact (Hn E)].
Qed.
Lemma split_close_app : forall a b, ~ In 93 a -> split_close (a ++ 93 :: b) = Some (a, b).
Proof.
  induction a as [|c a IH]; intros b Hn; cbn [app split_close].
  - reflexivity.
  - destruct (Z.eqb_spec c 93) as [->|N]; [exfalso; apply Hn; left; reflexivity|].
    rewrite IH; [reflexivity|]. intros E. apply Hn. right. exact E.
Qed.

Lemma class_loop_iff : forall n body c, (length body <= n)%nat -> class_loop body c = true <-> in_class body c.
Proof.
  unfold in_class.
  induction n as [|n IH]; intros body c L.
  - destruct body; [|simpl in L; lia]. cbn. split; [discriminate | intros (lo & hi & [] & _)].
  - destruct body as [|lo rest]; [cbn; split; [discriminate | intros (l & h & [] & _)]|].
    assert (Single : (if c =? lo then true else class_loop rest c) = true <->
                     exists l h, In (l, h) ((lo, lo) :: class_items rest) /\ l <= c <= h).
    { destruct (Z.eqb_spec c lo) as [->|N].
      - split; [|reflexivity]. intros _. exists lo, lo. split; [left; reflexivity | lia].
      - rewrite (IH rest c) by (simpl in L; lia). split.
        + intros (l & h & Hin & Hr). exists l, h. split; [right; exact Hin | exact Hr].
        + intros (l & h & [E|Hin] & Hr); [injection E as <- <-; lia|]. exists l, h. split; assumption. }
    destruct rest as [|m [|hi rest']]; try exact Single.
    cbn [class_loop class_items]. destruct (Z.eqb_spec m 45) as [->|N]; [|exact Single].
    destruct ((lo <=? c) && (c <=? hi)) eqn:E.
    + split; [|reflexivity]. intros _. exists lo, hi. split; [left; reflexivity | lia].
    + rewrite (IH rest' c) by (simpl in L; lia). split.
      * intros (l & h & Hin & Hr). exists l, h. split; [right; exact Hin | exact Hr].
      * intros (l & h & [E2|Hin] & Hr); [injection E2 as <- <-; lia|]. exists l, h. split; assumption.
Qed.

Lemma class_ok_iff inner c : class_ok inner c = true <-> class_accepts inner c.
Proof.
  unfold class_ok, class_accepts. destruct inner as [|c0 body].
  - cbn. split; [discriminate | intros []].
  - destruct (c0 =? 94); cbn [tl].
    + destruct (class_loop body c) eqn:E; cbn.
      * split; [discriminate|]. intros H. exfalso. apply H. apply (class_loop_iff _ _ _ (le_n _)). exact E.
      * split; [|reflexivity]. intros _ H. apply (class_loop_iff _ _ _ (le_n _)) in H. congruence.
    + rewrite <- (class_loop_iff _ (c0 :: body) c (le_n _)).
      destruct (class_loop (c0 :: body) c); cbn; split; congruence.
Qed.

(** the '[' arm *)
Lemma try_class p' tc : ps_try (91 :: p') tc =
  match split_close p' with
  | Some (inner, rest) => if class_ok inner tc then PAdvance rest else PFail
  | None => PFail
  end.
Proof. reflexivity. Qed.

(** a pattern starting with '[' matches only through its class *)
Lemma class_inv p' s : GlobSpec (91 :: p') s ->
  exists inner p c s', p' = inner ++ 93 :: p /\ s = c :: s' /\ ~ In 93 inner /\ class_accepts inner c /\ GlobSpec p s'.
Proof.
  intros G. inversion G; subst; try congruence.
  exists inner, p, c, s0. repeat split; assumption.
Qed.

(** ---- one attempt ---- *)
Lemma try_star p tc p2 : ps_try p tc = PStar p2 -> p = 42 :: p2.
Proof.
  unfold ps_try. destruct p as [|pc p']; [discriminate|].
  destruct (Z.eqb_spec pc 63); [discriminate|].
  destruct (Z.eqb_spec pc 42) as [->|]; [intros H; injection H as ->; reflexivity|].
  destruct (Z.eqb_spec pc 91).
  { destruct (split_close p') as [[inner rest]|]; [destruct (class_ok inner tc)|]; discriminate. }
  destruct (Z.eqb_spec pc 92); cbn [andb negb is_nil].
  - destruct p' as [|q p'']; cbn [andb negb is_nil].
    + destruct (pc =? tc); discriminate.
    + destruct (q =? tc); discriminate.
  - destruct (pc =? tc); discriminate.
Qed.

Lemma try_adv_len p tc p2 : ps_try p tc = PAdvance p2 -> (length p2 < length p)%nat.
Proof.
  unfold ps_try. destruct p as [|pc p']; [discriminate|].
  destruct (Z.eqb_spec pc 63); [intros H; injection H as <-; simpl; lia|].
  destruct (Z.eqb_spec pc 42); [discriminate|].
  destruct (Z.eqb_spec pc 91).
  { destruct (split_close p') as [[inner rest]|] eqn:E; [|discriminate].
    destruct (class_ok inner tc); [|discriminate]. intros H; injection H as <-.
    apply split_close_spec in E as [-> _]. simpl. rewrite app_length. simpl. lia. }
  destruct (Z.eqb_spec pc 92); cbn [andb negb is_nil].
  - destruct p' as [|q p'']; cbn [andb negb is_nil].
    + destruct (pc =? tc); [intros H; injection H as <-; simpl; lia | discriminate].
    + destruct (q =? tc); [intros H; injection H as <-; simpl; lia | discriminate].
  - destruct (pc =? tc); [intros H; injection H as <-; simpl; lia | discriminate].
Qed.

Lemma try_adv_fwd p tc p2 t' : ps_try p tc = PAdvance p2 -> GlobSpec p2 t' -> GlobSpec p (tc :: t').
Proof.
  unfold ps_try. destruct p as [|pc p']; [discriminate|].
  destruct (Z.eqb_spec pc 63) as [->|N1]; [intros H; injection H as <-; apply GS_any|].
  destruct (Z.eqb_spec pc 42) as [->|N2]; [discriminate|].
  destruct (Z.eqb_spec pc 91) as [->|N4].
  { destruct (split_close p') as [[inner rest]|] eqn:E; [|discriminate].
    destruct (class_ok inner tc) eqn:Ec; [|discriminate]. intros H; injection H as <-.
    apply split_close_spec in E as [-> Hn]. intros G. apply GS_class; [exact Hn | apply class_ok_iff; exact Ec | exact G]. }
  destruct (Z.eqb_spec pc 92) as [->|N3]; cbn [andb negb is_nil].
  - destruct p' as [|q p'']; cbn [andb negb is_nil].
    + destruct (Z.eqb_spec 92 tc) as [<-|]; [|discriminate].
      intros H; injection H as <-. intros G. inversion G; subst.
      apply GS_esc_end.
    + destruct (Z.eqb_spec q tc) as [->|]; [|discriminate].
      intros H; injection H as <-. apply GS_esc.
  - destruct (Z.eqb_spec pc tc) as [->|]; [|discriminate].
    intros H; injection H as <-. apply GS_lit; assumption.
Qed.

(** an advancing element consumes exactly one byte of any text the pattern matches *)
Lemma try_adv_inv p tc p2 s : ps_try p tc = PAdvance p2 -> GlobSpec p s ->
  exists c s', s = c :: s' /\ GlobSpec p2 s'.
Proof.
  unfold ps_try. destruct p as [|pc p']; [discriminate|].
  destruct (Z.eqb_spec pc 63) as [->|N1].
  { intros H; injection H as <-. intros G. inversion G; subst; try congruence. eauto. }
  destruct (Z.eqb_spec pc 42) as [->|N2]; [discriminate|].
  destruct (Z.eqb_spec pc 91) as [->|N4].
  { destruct (split_close p') as [[inner rest]|] eqn:E; [|discriminate].
    destruct (class_ok inner tc); [|discriminate]. intros H; injection H as <-. intros G.
    destruct (class_inv _ _ G) as (inner0 & p0 & c & s' & -> & -> & Hn & _ & G').
    rewrite (split_close_app _ _ Hn) in E. injection E as <- <-. eauto. }
  destruct (Z.eqb_spec pc 92) as [->|N3]; cbn [andb negb is_nil].
  - destruct p' as [|q p'']; cbn [andb negb is_nil].
    + destruct (Z.eqb_spec 92 tc) as [<-|]; [|discriminate].
      intros H; injection H as <-. intros G. inversion G; subst; try congruence.
      exists 92, []. split; [reflexivity | constructor].
    + destruct (Z.eqb_spec q tc) as [->|]; [|discriminate].
      intros H; injection H as <-. intros G. inversion G; subst; try congruence. eauto.
  - destruct (Z.eqb_spec pc tc) as [->|]; [|discriminate].
    intros H; injection H as <-. intros G. inversion G; subst; try congruence. eauto.
Qed.

Lemma try_fail p tc t' : ps_try p tc = PFail -> ~ GlobSpec p (tc :: t').
Proof.
  unfold ps_try. destruct p as [|pc p']; [intros _ G; inversion G|].
  destruct (Z.eqb_spec pc 63) as [->|N1]; [discriminate|].
  destruct (Z.eqb_spec pc 42) as [->|N2]; [discriminate|].
  destruct (Z.eqb_spec pc 91) as [->|N4].
  { intros H G. destruct (class_inv _ _ G) as (inner0 & p0 & c & s' & -> & Es & Hn & Ha & _).
    injection Es as <- <-. rewrite (split_close_app _ _ Hn) in H.
    apply class_ok_iff in Ha. rewrite Ha in H. discriminate. }
  destruct (Z.eqb_spec pc 92) as [->|N3]; cbn [andb negb is_nil].
  - destruct p' as [|q p'']; cbn [andb negb is_nil].
    + destruct (Z.eqb_spec 92 tc) as [<-|N]; [discriminate|].
      intros _ G. inversion G; subst; congruence.
    + destruct (Z.eqb_spec q tc) as [->|N]; [discriminate|].
      intros _ G. inversion G; subst; congruence.
  - destruct (Z.eqb_spec pc tc) as [->|N]; [discriminate|].
    intros _ G. inversion G; subst; congruence.
Qed.

(** ---- the part of the pattern after the last star consumed so far ---- *)
Inductive Pre (sp st : bytes) : bytes -> bytes -> Prop :=
| Pre_refl : Pre sp st sp st
| Pre_step : forall p tc t' p2,
    Pre sp st p (tc :: t') -> ps_try p tc = PAdvance p2 -> Pre sp st p2 t'.

Lemma pre_fwd sp st p t : Pre sp st p t -> GlobSpec p t -> GlobSpec sp st.
Proof.
  induction 1; intros G; [exact G|]. apply IHPre. eapply try_adv_fwd; eassumption.
Qed.
Lemma pre_split sp st p t : Pre sp st p t -> forall s, GlobSpec sp s ->
  exists s1 s2, s = s1 ++ s2 /\ (length s1 + length t = length st)%nat /\ GlobSpec p s2.
Proof.
  induction 1; intros s G.
  - exists [], s. split; [reflexivity | split; [simpl; lia | exact G]].
  - destruct (IHPre s G) as [s1 [s2 [-> [L G2]]]].
    destruct (try_adv_inv _ _ _ _ H0 G2) as [c [s' [-> G3]]].
    exists (s1 ++ [c]), s'. split; [|split].
    + rewrite <- app_assoc. reflexivity.
    + rewrite app_length. simpl in *. lia.
    + exact G3.
Qed.
Lemma pre_suffix sp st p t : Pre sp st p t -> exists u, st = u ++ t.
Proof.
  induction 1; [exists []; reflexivity|].
  destruct IHPre as [u ->]. exists (u ++ [tc]). rewrite <- app_assoc. reflexivity.
Qed.
Lemma pre_len sp st p t : Pre sp st p t -> (length p <= length sp)%nat.
Proof. induction 1; [lia|]. apply try_adv_len in H0. lia. Qed.

(** ---- the loop after a star was seen ---- *)
Lemma loop_star : forall fuel sp st p t W,
  Pre sp st p t -> (length sp + 2 <= W)%nat -> (length st * W + length p < fuel)%nat ->
  (ps_loop fuel p t (Some (sp, st)) = true <-> GlobSpec (42 :: sp) st).
Proof.
  induction fuel as [|f IH]; intros sp st p t W HP HW HF; [lia|].
  pose proof (pre_len _ _ _ _ HP) as HL.
  destruct (pre_suffix _ _ _ _ HP) as [u0 Hu0].
  destruct t as [|tc t']; cbn [ps_loop].
  - (* text exhausted *)
    fold (all_stars p). rewrite <- nil_iff. split.
    + intros G. apply GS_star0. eapply pre_fwd; eassumption.
    + intros G. apply star_iff in G. destruct G as [u [v [Hs Gv]]].
      destruct (pre_split _ _ _ _ HP v Gv) as [s1 [s2 [-> [L G2]]]].
      assert (s2 = []) as ->.
      { subst st. rewrite !app_length in L. simpl in L.
        assert (E : length (u ++ s1 ++ s2) = length (u0 ++ [])) by (rewrite Hs; reflexivity).
        rewrite !app_length in E. simpl in E. destruct s2; [reflexivity | simpl in *; lia]. }
      exact G2.
  - destruct (ps_try p tc) as [p2|p2|] eqn:E.
    + (* advance *)
      apply try_adv_len in E as HL2.
      apply (IH sp st p2 t' W); [eapply Pre_step; eassumption | exact HW | lia].
    + (* a new star *)
      apply try_star in E. subst p.
      assert (Lt : (length (tc :: t') <= length st)%nat) by (subst st; rewrite app_length; lia).
      rewrite (IH p2 (tc :: t') p2 (tc :: t') W (Pre_refl _ _)); [| simpl in HL; lia |].
      2:{ simpl in HF. assert (length (tc :: t') * W <= length st * W)%nat by (apply Nat.mul_le_mono_r; exact Lt). lia. }
      split.
      * intros G. apply GS_star0. eapply pre_fwd; eassumption.
      * intros G. apply star_iff in G. destruct G as [u [v [Hs Gv]]].
        destruct (pre_split _ _ _ _ HP v Gv) as [s1 [s2 [-> [L G2]]]].
        assert (Hlen : (length s2 <= length (tc :: t'))%nat).
        { assert (E : length st = length (u ++ s1 ++ s2)) by (rewrite Hs; reflexivity).
          rewrite !app_length in E. lia. }
        assert (Heq : (u ++ s1) ++ s2 = u0 ++ tc :: t') by (rewrite <- app_assoc, <- Hs; exact Hu0).
        destruct (app_suffix _ _ _ _ Heq Hlen) as [z ->].
        apply star_prepend. exact G2.
    + (* mismatch: restart after the star, one byte further *)
      assert (Hne : exists c0 st1, st = c0 :: st1).
      { subst st. destruct u0; simpl; eauto. }
      destruct Hne as [c0 [st1 Hst]].
      assert (Htl : tl st = st1) by (rewrite Hst; reflexivity).
      rewrite Htl.
      rewrite (IH sp st1 sp st1 W (Pre_refl _ _) HW).
      2:{ rewrite Hst in HF. simpl in HF. lia. }
      rewrite Hst. split.
      * apply GS_star1.
      * intros G. apply star_iff in G. destruct G as [u [v [Hs0 Gv]]].
        destruct u as [|c u]; simpl in Hs0.
        2:{ injection Hs0 as _ ->. apply star_iff. exists u, v. split; [reflexivity | exact Gv]. }
        exfalso. subst v. rewrite <- Hst in Gv.
        destruct (pre_split _ _ _ _ HP _ Gv) as [s1 [s2 [Hs [L G2]]]].
        assert (s2 = tc :: t') as ->.
        { pose proof (f_equal (@length _) Hs) as HLs. rewrite app_length in HLs.
          apply (app_same_suffix s1 u0); [rewrite <- Hs; exact Hu0 | lia]. }
        exact (try_fail _ _ _ E G2).
Qed.

(** ---- the loop before any star ---- *)
Lemma loop_none : forall fuel p t W,
  (length p + 2 <= W)%nat -> (length t * W + length p < fuel)%nat ->
  (ps_loop fuel p t None = true <-> GlobSpec p t).
Proof.
  induction fuel as [|f IH]; intros p t W HW HF; [lia|].
  destruct t as [|tc t']; cbn [ps_loop].
  - fold (all_stars p). symmetry. apply nil_iff.
  - destruct (ps_try p tc) as [p2|p2|] eqn:E.
    + apply try_adv_len in E as HL2.
      rewrite (IH p2 t' W); [| lia | simpl in HF; lia].
      split; [eapply try_adv_fwd; exact E|].
      intros G. destruct (try_adv_inv _ _ _ _ E G) as [c [s' [Hs G2]]].
      injection Hs as _ <-. exact G2.
    + apply try_star in E. subst p.
      apply (loop_star f p2 (tc :: t') p2 (tc :: t') W (Pre_refl _ _)); simpl in *; lia.
    + split; [discriminate|]. intros G. exfalso. exact (try_fail _ _ _ E G).
Qed.

Lemma ps_match_correct p t : ps_match p t = true <-> GlobSpec p t.
Proof.
  unfold ps_match, ps_fuel. apply (loop_none _ p t (length p + 2)%nat); lia.
Qed.
