(** The pub/sub glob matcher (Model/PubSub.v ps_match, pubsub.rs:370-427) decides the
    declarative glob relation [GlobSpec]: soundness and completeness of the iterative
    single-star backtracking loop, for all patterns and texts. *)
From Ferrous Require Import Base.Bytes Model.Types Model.Glob Model.PubSub Proofs.BytesFacts.
Open Scope Z_scope.

(** Declarative glob: [*] = 42 any (possibly empty) string, [?] = 63 any one byte, [\x] = 92 x
    the byte x, a trailing backslash stands for itself, [[...]] = 91 ... a character class
    standing for one byte, any other byte for itself.

    A class (after 5de9d19: as in Redis' stringmatchlen) is read left to right from the byte
    after the '[' - after a leading '^', which negates -: [class_parse] gives its items and
    the pattern that follows it.  A backslash followed by another byte is that byte; `x-y`
    (when at least three bytes remain) is the range between x and y, whichever is greater;
    any other byte is itself; the first unescaped ']' closes the class; a class that is
    never closed runs to the end of the pattern.  `[]` accepts nothing, `[^]` every byte. *)
Fixpoint class_parse (q : bytes) : list (Z * Z) * bytes :=
  match q with
  | [] => ([], [])
  | a :: r =>
      if a =? 93 then ([], r)
      else
        match r with
        | x :: r2 =>
            if a =? 92 then (let (it, rest) := class_parse r2 in ((x, x) :: it, rest))
            else
              match r2 with
              | b :: r3 =>
                  if x =? 45 then (let (it, rest) := class_parse r3 in ((Z.min a b, Z.max a b) :: it, rest))
                  else (let (it, rest) := class_parse r in ((a, a) :: it, rest))
              | [] => (let (it, rest) := class_parse r in ((a, a) :: it, rest))
              end
        | [] => ([(a, a)], [])
        end
  end.
Definition in_items (items : list (Z * Z)) (c : Z) : Prop :=
  exists lo hi, In (lo, hi) items /\ lo <= c <= hi.
(** (negated?, items, pattern after the class) of the pattern [91 :: p'] *)
Definition class_split (p' : bytes) : bool * list (Z * Z) * bytes :=
  let negate := match p' with c :: _ => c =? 94 | [] => false end in
  let (items, rest) := class_parse (if negate then tl p' else p') in (negate, items, rest).

Inductive GlobSpec : bytes -> bytes -> Prop :=
| GS_nil : GlobSpec [] []
| GS_any : forall p c s, GlobSpec p s -> GlobSpec (63 :: p) (c :: s)
| GS_star0 : forall p s, GlobSpec p s -> GlobSpec (42 :: p) s
| GS_star1 : forall p c s, GlobSpec (42 :: p) s -> GlobSpec (42 :: p) (c :: s)
| GS_class : forall p' c s neg items rest, class_split p' = (neg, items, rest) ->
    (in_items items c <-> neg = false) -> GlobSpec rest s -> GlobSpec (91 :: p') (c :: s)
| GS_esc : forall p c s, GlobSpec p s -> GlobSpec (92 :: c :: p) (c :: s)
| GS_esc_end : GlobSpec [92] [92]
| GS_lit : forall p c s, c <> 63 -> c <> 42 -> c <> 91 -> c <> 92 -> GlobSpec p s -> GlobSpec (c :: p) (c :: s).

(** ---- list facts ---- *)
Lemma app_suffix {A} : forall (x y a b : list A),
  x ++ a = y ++ b -> (length a <= length b)%nat -> exists z, b = z ++ a.
Proof.
  intros x y a b H L. apply app_eq_app in H. destruct H as [l [[H1 H2] | [H1 H2]]].
  - exists l. exact H2.
  - subst a. rewrite app_length in L. destruct l; [exists []; reflexivity | simpl in L; lia].
Qed.
Lemma app_same_suffix {A} : forall (x y a b : list A),
  x ++ a = y ++ b -> length a = length b -> a = b.
Proof.
  intros x y a b H L. destruct (app_suffix x y a b H) as [z Hz]; [lia|].
  subst b. rewrite app_length in L. destruct z; [reflexivity | simpl in L; lia].
Qed.

(** ---- the star ---- *)
Lemma star_iff p s : GlobSpec (42 :: p) s <-> exists u v, s = u ++ v /\ GlobSpec p v.
Proof.
  split.
  - remember (42 :: p) as q eqn:Hq. intros H. induction H; try discriminate.
    + injection Hq as ->. exists [], s. split; [reflexivity | assumption].
    + destruct (IHGlobSpec Hq) as [u [v [-> Hv]]]. injection Hq as ->.
      exists (c :: u), v. split; [reflexivity | assumption].
    + injection Hq as E _. congruence.
  - intros [u [v [-> Hv]]]. induction u as [|c u IH]; simpl.
    + apply GS_star0. exact Hv.
    + apply GS_star1. exact IH.
Qed.
Lemma star_prepend p z s : GlobSpec (42 :: p) s -> GlobSpec (42 :: p) (z ++ s).
Proof. intros H. induction z as [|c z IH]; simpl; [exact H | apply GS_star1; exact IH]. Qed.

Definition all_stars (p : bytes) : bool := is_nil (drop_while (fun c => c =? 42) p).
Lemma nil_iff p : GlobSpec p [] <-> all_stars p = true.
Proof.
  unfold all_stars. split.
  - remember [] as s eqn:Hs. intros H. induction H; try discriminate; simpl; auto.
  - induction p as [|c p IH]; simpl; intros H.
    + constructor.
    + destruct (Z.eqb_spec c 42) as [->|Hn]; [|discriminate]. apply GS_star0. auto.
Qed.

(** ---- classes ---- *)
Definition items_b (items : list (Z * Z)) (c : Z) : bool :=
  existsb (fun it => (fst it <=? c) && (c <=? snd it)) items.
Lemma items_b_iff items c : items_b items c = true <-> in_items items c.
Proof.
  unfold items_b, in_items. rewrite existsb_exists. split.
  - intros ([lo hi] & Hin & H). cbn [fst snd] in H. exists lo, hi. split; [exact Hin | lia].
  - intros (lo & hi & Hin & H). exists (lo, hi). split; [exact Hin | cbn [fst snd]; lia].
Qed.
Lemma eqb_range a c : (c =? a) = (a <=? c) && (c <=? a).
Proof. destruct (Z.eqb_spec c a); destruct (Z.leb_spec a c); destruct (Z.leb_spec c a); try reflexivity; lia. Qed.

Lemma class_scan_spec : forall n q tc m, (length q <= n)%nat ->
  class_scan q tc m = (m || items_b (fst (class_parse q)) tc, snd (class_parse q)).
Proof.
  induction n as [|n IH]; intros q tc m L.
  - destruct q; [|simpl in L; lia]. cbn. rewrite orb_false_r. reflexivity.
  - destruct q as [|a r]; [cbn; rewrite orb_false_r; reflexivity|].
    cbn [class_scan class_parse]. destruct (a =? 93); [cbn; rewrite orb_false_r; reflexivity|].
    assert (Single : forall r0, (length r0 <= n)%nat ->
              class_scan r0 tc (m || (tc =? a))
              = (m || items_b (fst (let (it, rest) := class_parse r0 in ((a, a) :: it, rest))) tc,
                 snd (let (it, rest) := class_parse r0 in ((a, a) :: it, rest)))).
    { intros r0 L0. rewrite (IH r0 tc _ L0). destruct (class_parse r0) as [it rest]. cbn [fst snd items_b existsb].
      rewrite (eqb_range a tc), orb_assoc. reflexivity. }
    destruct r as [|x r2].
    + cbn [fst snd items_b existsb]. rewrite (eqb_range a tc), orb_false_r. reflexivity.
    + destruct (a =? 92).
      * rewrite (IH r2 tc _) by (simpl in L; lia). destruct (class_parse r2) as [it rest]. cbn [fst snd items_b existsb].
        rewrite (eqb_range x tc), orb_assoc. reflexivity.
      * destruct r2 as [|b r3]; [apply Single; simpl in *; lia|].
        destruct (x =? 45); [|apply Single; simpl in *; lia].
        rewrite (IH r3 tc _) by (simpl in L; lia). destruct (class_parse r3) as [it rest]. cbn [fst snd items_b existsb].
        rewrite orb_assoc. reflexivity.
Qed.
Lemma class_parse_len : forall n q, (length q <= n)%nat -> (length (snd (class_parse q)) <= length q)%nat.
Proof.
  induction n as [|n IH]; intros q L; [destruct q; [cbn; lia | simpl in L; lia]|].
  destruct q as [|a r]; [cbn; lia|]. cbn [class_parse]. destruct (a =? 93); [cbn; lia|].
  destruct r as [|x r2]; [cbn; lia|].
  destruct (a =? 92).
  - pose proof (IH r2 ltac:(simpl in *; lia)). destruct (class_parse r2). cbn [snd length] in *. lia.
  - destruct r2 as [|b r3].
    + pose proof (IH [x] ltac:(simpl in *; lia)). destruct (class_parse [x]). cbn [snd length] in *. lia.
    + destruct (x =? 45).
      * pose proof (IH r3 ltac:(simpl in *; lia)). destruct (class_parse r3). cbn [snd length] in *. lia.
      * pose proof (IH (x :: b :: r3) ltac:(simpl in *; lia)). destruct (class_parse (x :: b :: r3)). cbn [snd length] in *. lia.
Qed.

(** the class test of the matchers in terms of the declarative reading *)
Lemma class_try_spec p' tc : class_try p' tc =
  match class_split p' with
  | (neg, items, rest) => if negb (Bool.eqb (items_b items tc) neg) then Some rest else None
  end.
Proof.
  unfold class_try, class_split.
  set (negate := match p' with c :: _ => c =? 94 | [] => false end).
  rewrite (class_scan_spec _ _ tc false (le_n _)). cbn [orb].
  destruct (class_parse (if negate then tl p' else p')) as [items rest]. reflexivity.
Qed.
Lemma class_split_len p' neg items rest : class_split p' = (neg, items, rest) -> (length rest <= length p')%nat.
Proof.
  unfold class_split. destruct p' as [|c p''].
  - cbn. intros E; inversion E; subst. cbn. lia.
  - destruct (c =? 94); cbn [tl].
    + pose proof (class_parse_len _ p'' (le_n _)) as H. destruct (class_parse p'') as [it r].
      intros E; inversion E; subst. cbn [snd length] in *. lia.
    + pose proof (class_parse_len _ (c :: p'') (le_n _)) as H. destruct (class_parse (c :: p'')) as [it r].
      intros E; inversion E; subst. cbn [snd] in *. exact H.
Qed.
Lemma accepts_iff items tc neg : negb (Bool.eqb (items_b items tc) neg) = true <-> (in_items items tc <-> neg = false).
Proof.
  rewrite <- items_b_iff. destruct (items_b items tc), neg; cbn; split; intros H; try reflexivity; try discriminate.
  - destruct H as [H _]. specialize (H eq_refl). discriminate.
  - split; congruence.
  - split; congruence.
  - destruct H as [_ H]. specialize (H eq_refl). discriminate.
Qed.

(** the '[' arm *)
Lemma try_class p' tc : ps_try (91 :: p') tc =
  match class_try p' tc with Some rest => PAdvance rest | None => PFail end.
Proof. reflexivity. Qed.

(** a pattern starting with '[' matches only through its class *)
Lemma class_inv p' s : GlobSpec (91 :: p') s ->
  exists c s' neg items rest, s = c :: s' /\ class_split p' = (neg, items, rest) /\
    (in_items items c <-> neg = false) /\ GlobSpec rest s'.
Proof.
  intros G. inversion G; subst; try congruence.
  exists c, s0, neg, items, rest. split; [reflexivity|]. split; [assumption|]. split; assumption.
Qed.

(** ---- one attempt ---- *)
Lemma try_star p tc p2 : ps_try p tc = PStar p2 -> p = 42 :: p2.
Proof.
  unfold ps_try. destruct p as [|pc p']; [discriminate|].
  destruct (Z.eqb_spec pc 63); [discriminate|].
  destruct (Z.eqb_spec pc 42) as [->|]; [intros H; injection H as ->; reflexivity|].
  destruct (Z.eqb_spec pc 91).
  { destruct (class_try p' tc); discriminate. }
  destruct (Z.eqb_spec pc 92); cbn [andb negb is_nil].
  - destruct p' as [|q p'']; cbn [andb negb is_nil].
    + destruct (pc =? tc); discriminate.
    + destruct (q =? tc); discriminate.
  - destruct (pc =? tc); discriminate.
Qed.

Lemma try_adv_len p tc p2 : ps_try p tc = PAdvance p2 -> (length p2 < length p)%nat.
Proof.
  unfold ps_try. destruct p as [|pc p']; [discriminate|].
  destruct (Z.eqb_spec pc 63); [intros H; injection H as <-; simpl; lia|].
  destruct (Z.eqb_spec pc 42); [discriminate|].
  destruct (Z.eqb_spec pc 91).
  { rewrite class_try_spec. destruct (class_split p') as [[neg items] rest] eqn:E.
    destruct (negb (Bool.eqb (items_b items tc) neg)); [|discriminate]. intros H; injection H as <-.
    apply class_split_len in E. simpl. lia. }
  destruct (Z.eqb_spec pc 92); cbn [andb negb is_nil].
  - destruct p' as [|q p'']; cbn [andb negb is_nil].
    + destruct (pc =? tc); [intros H; injection H as <-; simpl; lia | discriminate].
    + destruct (q =? tc); [intros H; injection H as <-; simpl; lia | discriminate].
  - destruct (pc =? tc); [intros H; injection H as <-; simpl; lia | discriminate].
Qed.

Lemma try_adv_fwd p tc p2 t' : ps_try p tc = PAdvance p2 -> GlobSpec p2 t' -> GlobSpec p (tc :: t').
Proof.
  unfold ps_try. destruct p as [|pc p']; [discriminate|].
  destruct (Z.eqb_spec pc 63) as [->|N1]; [intros H; injection H as <-; apply GS_any|].
  destruct (Z.eqb_spec pc 42) as [->|N2]; [discriminate|].
  destruct (Z.eqb_spec pc 91) as [->|N4].
  { rewrite class_try_spec. destruct (class_split p') as [[neg items] rest] eqn:E.
    destruct (negb (Bool.eqb (items_b items tc) neg)) eqn:Ec; [|discriminate]. intros H; injection H as <-.
    intros G. eapply GS_class; [exact E | apply accepts_iff; exact Ec | exact G]. }
  destruct (Z.eqb_spec pc 92) as [->|N3]; cbn [andb negb is_nil].
  - destruct p' as [|q p'']; cbn [andb negb is_nil].
    + destruct (Z.eqb_spec 92 tc) as [<-|]; [|discriminate].
      intros H; injection H as <-. intros G. inversion G; subst.
      apply GS_esc_end.
    + destruct (Z.eqb_spec q tc) as [->|]; [|discriminate].
      intros H; injection H as <-. apply GS_esc.
  - destruct (Z.eqb_spec pc tc) as [->|]; [|discriminate].
    intros H; injection H as <-. apply GS_lit; assumption.
Qed.

(** an advancing element consumes exactly one byte of any text the pattern matches *)
Lemma try_adv_inv p tc p2 s : ps_try p tc = PAdvance p2 -> GlobSpec p s ->
  exists c s', s = c :: s' /\ GlobSpec p2 s'.
Proof.
  unfold ps_try. destruct p as [|pc p']; [discriminate|].
  destruct (Z.eqb_spec pc 63) as [->|N1].
  { intros H; injection H as <-. intros G. inversion G; subst; try congruence. eauto. }
  destruct (Z.eqb_spec pc 42) as [->|N2]; [discriminate|].
  destruct (Z.eqb_spec pc 91) as [->|N4].
  { rewrite class_try_spec. destruct (class_split p') as [[neg items] rest] eqn:E.
    destruct (negb (Bool.eqb (items_b items tc) neg)); [|discriminate]. intros H; injection H as <-. intros G.
    destruct (class_inv _ _ G) as (c & s' & neg0 & items0 & rest0 & -> & E0 & _ & G').
    rewrite E in E0. injection E0 as <- <- <-. eauto. }
  destruct (Z.eqb_spec pc 92) as [->|N3]; cbn [andb negb is_nil].
  - destruct p' as [|q p'']; cbn [andb negb is_nil].
    + destruct (Z.eqb_spec 92 tc) as [<-|]; [|discriminate].
      intros H; injection H as <-. intros G. inversion G; subst; try congruence.
      exists 92, []. split; [reflexivity | constructor].
    + destruct (Z.eqb_spec q tc) as [->|]; [|discriminate].
      intros H; injection H as <-. intros G. inversion G; subst; try congruence. eauto.
  - destruct (Z.eqb_spec pc tc) as [->|]; [|discriminate].
    intros H; injection H as <-. intros G. inversion G; subst; try congruence. eauto.
Qed.

Lemma try_fail p tc t' : ps_try p tc = PFail -> ~ GlobSpec p (tc :: t').
Proof.
  unfold ps_try. destruct p as [|pc p']; [intros _ G; inversion G|].
  destruct (Z.eqb_spec pc 63) as [->|N1]; [discriminate|].
  destruct (Z.eqb_spec pc 42) as [->|N2]; [discriminate|].
  destruct (Z.eqb_spec pc 91) as [->|N4].
  { intros H G. destruct (class_inv _ _ G) as (c & s' & neg0 & items0 & rest0 & Es & E0 & Ha & _).
    injection Es as <- <-. rewrite class_try_spec, E0 in H.
    apply accepts_iff in Ha. rewrite Ha in H. discriminate. }
  destruct (Z.eqb_spec pc 92) as [->|N3]; cbn [andb negb is_nil].
  - destruct p' as [|q p'']; cbn [andb negb is_nil].
    + destruct (Z.eqb_spec 92 tc) as [<-|N]; [discriminate|].
      intros _ G. inversion G; subst; congruence.
    + destruct (Z.eqb_spec q tc) as [->|N]; [discriminate|].
      intros _ G. inversion G; subst; congruence.
  - destruct (Z.eqb_spec pc tc) as [->|N]; [discriminate|].
    intros _ G. inversion G; subst; congruence.
Qed.

(** ---- the part of the pattern after the last star consumed so far ---- *)
Inductive Pre (sp st : bytes) : bytes -> bytes -> Prop :=
| Pre_refl : Pre sp st sp st
| Pre_step : forall p tc t' p2,
    Pre sp st p (tc :: t') -> ps_try p tc = PAdvance p2 -> Pre sp st p2 t'.

Lemma pre_fwd sp st p t : Pre sp st p t -> GlobSpec p t -> GlobSpec sp st.
Proof.
  induction 1; intros G; [exact G|]. apply IHPre. eapply try_adv_fwd; eassumption.
Qed.
Lemma pre_split sp st p t : Pre sp st p t -> forall s, GlobSpec sp s ->
  exists s1 s2, s = s1 ++ s2 /\ (length s1 + length t = length st)%nat /\ GlobSpec p s2.
Proof.
  induction 1; intros s G.
  - exists [], s. split; [reflexivity | split; [simpl; lia | exact G]].
  - destruct (IHPre s G) as [s1 [s2 [-> [L G2]]]].
    destruct (try_adv_inv _ _ _ _ H0 G2) as [c [s' [-> G3]]].
    exists (s1 ++ [c]), s'. split; [|split].
    + rewrite <- app_assoc. reflexivity.
    + rewrite app_length. simpl in *. lia.
    + exact G3.
Qed.
Lemma pre_suffix sp st p t : Pre sp st p t -> exists u, st = u ++ t.
Proof.
  induction 1; [exists []; reflexivity|].
  destruct IHPre as [u ->]. exists (u ++ [tc]). rewrite <- app_assoc. reflexivity.
Qed.
Lemma pre_len sp st p t : Pre sp st p t -> (length p <= length sp)%nat.
Proof. induction 1; [lia|]. apply try_adv_len in H0. lia. Qed.

(** ---- the loop after a star was seen ---- *)
Lemma loop_star : forall fuel sp st p t W,
  Pre sp st p t -> (length sp + 2 <= W)%nat -> (length st * W + length p < fuel)%nat ->
  (ps_loop fuel p t (Some (sp, st)) = true <-> GlobSpec (42 :: sp) st).
Proof.
  induction fuel as [|f IH]; intros sp st p t W HP HW HF; [lia|].
  pose proof (pre_len _ _ _ _ HP) as HL.
  destruct (pre_suffix _ _ _ _ HP) as [u0 Hu0].
  destruct t as [|tc t']; cbn [ps_loop].
  - (* text exhausted *)
    fold (all_stars p). rewrite <- nil_iff. split.
    + intros G. apply GS_star0. eapply pre_fwd; eassumption.
    + intros G. apply star_iff in G. destruct G as [u [v [Hs Gv]]].
      destruct (pre_split _ _ _ _ HP v Gv) as [s1 [s2 [-> [L G2]]]].
      assert (s2 = []) as ->.
      { subst st. rewrite !app_length in L. simpl in L.
        assert (E : length (u ++ s1 ++ s2) = length (u0 ++ [])) by (rewrite Hs; reflexivity).
        rewrite !app_length in E. simpl in E. destruct s2; [reflexivity | simpl in *; lia]. }
      exact G2.
  - destruct (ps_try p tc) as [p2|p2|] eqn:E.
    + (* advance *)
      apply try_adv_len in E as HL2.
      apply (IH sp st p2 t' W); [eapply Pre_step; eassumption | exact HW | lia].
    + (* a new star *)
      apply try_star in E. subst p.
      assert (Lt : (length (tc :: t') <= length st)%nat) by (subst st; rewrite app_length; lia).
      rewrite (IH p2 (tc :: t') p2 (tc :: t') W (Pre_refl _ _)); [| simpl in HL; lia |].
      2:{ simpl in HF. assert (length (tc :: t') * W <= length st * W)%nat by (apply Nat.mul_le_mono_r; exact Lt). lia. }
      split.
      * intros G. apply GS_star0. eapply pre_fwd; eassumption.
      * intros G. apply star_iff in G. destruct G as [u [v [Hs Gv]]].
        destruct (pre_split _ _ _ _ HP v Gv) as [s1 [s2 [-> [L G2]]]].
        assert (Hlen : (length s2 <= length (tc :: t'))%nat).
        { assert (E : length st = length (u ++ s1 ++ s2)) by (rewrite Hs; reflexivity).
          rewrite !app_length in E. lia. }
        assert (Heq : (u ++ s1) ++ s2 = u0 ++ tc :: t') by (rewrite <- app_assoc, <- Hs; exact Hu0).
        destruct (app_suffix _ _ _ _ Heq Hlen) as [z ->].
        apply star_prepend. exact G2.
    + (* mismatch: restart after the star, one byte further *)
      assert (Hne : exists c0 st1, st = c0 :: st1).
      { subst st. destruct u0; simpl; eauto. }
      destruct Hne as [c0 [st1 Hst]].
      assert (Htl : tl st = st1) by (rewrite Hst; reflexivity).
      rewrite Htl.
      rewrite (IH sp st1 sp st1 W (Pre_refl _ _) HW).
      2:{ rewrite Hst in HF. simpl in HF. lia. }
      rewrite Hst. split.
      * apply GS_star1.
      * intros G. apply star_iff in G. destruct G as [u [v [Hs0 Gv]]].
        destruct u as [|c u]; simpl in Hs0.
        2:{ injection Hs0 as _ ->. apply star_iff. exists u, v. split; [reflexivity | exact Gv]. }
        exfalso. subst v. rewrite <- Hst in Gv.
        destruct (pre_split _ _ _ _ HP _ Gv) as [s1 [s2 [Hs [L G2]]]].
        assert (s2 = tc :: t') as ->.
        { pose proof (f_equal (@length _) Hs) as HLs. rewrite app_length in HLs.
          apply (app_same_suffix s1 u0); [rewrite <- Hs; exact Hu0 | lia]. }
        exact (try_fail _ _ _ E G2).
Qed.

(** ---- the loop before any star ---- *)
Lemma loop_none : forall fuel p t W,
  (length p + 2 <= W)%nat -> (length t * W + length p < fuel)%nat ->
  (ps_loop fuel p t None = true <-> GlobSpec p t).
Proof.
  induction fuel as [|f IH]; intros p t W HW HF; [lia|].
  destruct t as [|tc t']; cbn [ps_loop].
  - fold (all_stars p). symmetry. apply nil_iff.
  - destruct (ps_try p tc) as [p2|p2|] eqn:E.
    + apply try_adv_len in E as HL2.
      rewrite (IH p2 t' W); [| lia | simpl in HF; lia].
      split; [eapply try_adv_fwd; exact E|].
      intros G. destruct (try_adv_inv _ _ _ _ E G) as [c [s' [Hs G2]]].
      injection Hs as _ <-. exact G2.
    + apply try_star in E. subst p.
      apply (loop_star f p2 (tc :: t') p2 (tc :: t') W (Pre_refl _ _)); simpl in *; lia.
    + split; [discriminate|]. intros G. exfalso. exact (try_fail _ _ _ E G).
Qed.

Lemma ps_match_correct p t : ps_match p t = true <-> GlobSpec p t.
Proof.
  unfold ps_match, ps_fuel. apply (loop_none _ p t (length p + 2)%nat); lia.
Qed.


(** ---- the KEYS / SCAN MATCH matcher (engine.rs pattern_matches, Model/Glob.v) is the same
    algorithm: it decides the same declarative glob ---- *)
Lemma glob_try_ps p tc t' : glob_try p tc t' =
  match ps_try p tc with PAdvance p2 => GAdvance p2 t' | PStar p2 => GStar p2 | PFail => GFail end.
Proof.
  unfold glob_try, ps_try. destruct p as [|pc p']; [reflexivity|].
  destruct (pc =? 63); [reflexivity|]. destruct (pc =? 42); [reflexivity|].
  destruct (pc =? 91); [destruct (class_try p' tc); reflexivity|].
  destruct p' as [|q p'']; cbn [is_nil negb andb].
  - rewrite andb_false_r. destruct (pc =? tc); reflexivity.
  - destruct (pc =? 92); cbn [andb]; [destruct (q =? tc); reflexivity | destruct (pc =? tc); reflexivity].
Qed.
Lemma glob_loop_ps : forall fuel p t star, glob_loop fuel p t star = ps_loop fuel p t star.
Proof.
  induction fuel as [|f IH]; intros p t star; [reflexivity|]. cbn [glob_loop ps_loop].
  destruct t as [|tc t'].
  - unfold is_nil. destruct (drop_while (fun c => c =? 42) p); reflexivity.
  - rewrite glob_try_ps. destruct (ps_try p tc); [apply IH | apply IH |].
    destruct star as [[sp st]|]; [apply IH | reflexivity].
Qed.
Theorem glob_match_ps p t : glob_match p t = ps_match p t.
Proof. unfold glob_match, ps_match, glob_fuel, ps_fuel. apply glob_loop_ps. Qed.
Theorem glob_match_correct p t : glob_match p t = true <-> GlobSpec p t.
Proof. rewrite glob_match_ps. apply ps_match_correct. Qed.
