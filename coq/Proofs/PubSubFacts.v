(** Facts about the PubSubManager model (Model/PubSub.v): the maps-consistency invariant is
    preserved by every operation; publish delivers to exactly the connections that have a
    matching subscription, once per connection; acknowledgement counts; nothing is delivered
    after unsubscribing. *)
From Coq Require Import Sorting.Permutation.
From Ferrous Require Import Base.Bytes Model.Types Model.PubSub Proofs.BytesFacts Proofs.PsGlobFacts.
Open Scope Z_scope.

(** ---- bytes / Z list sets ---- *)
Lemma beq_false a b : beq a b = false <-> a <> b.
Proof.
  split; intros H.
  - intros E. apply beq_eq in E. congruence.
  - destruct (beq a b) eqn:E; [apply beq_eq in E; contradiction | reflexivity].
Qed.
Lemma beq_sym a b : beq a b = beq b a.
Proof.
  destruct (beq a b) eqn:E.
  - apply beq_eq in E. subst. symmetry. apply beq_refl.
  - symmetry. apply beq_false. apply beq_false in E. congruence.
Qed.
Lemma bmem_In x l : bmem x l = true <-> In x l.
Proof.
  induction l as [|y l IH]; simpl; [split; [discriminate | tauto]|].
  rewrite orb_true_iff, IH, beq_eq. split; intros [H|H]; auto.
Qed.
Lemma bmem_false x l : bmem x l = false <-> ~ In x l.
Proof. rewrite <- bmem_In. destruct (bmem x l); split; congruence. Qed.
Lemma In_bremove x y l : In x (bremove y l) <-> In x l /\ x <> y.
Proof.
  induction l as [|z l IH]; simpl; [tauto|].
  destruct (beq y z) eqn:E.
  - apply beq_eq in E. subst z. rewrite IH. split; [tauto|]. intros [[H|H] N]; [congruence | tauto].
  - apply beq_false in E. simpl. rewrite IH. split.
    + intros [H|[H N]]; [subst; split; [auto | congruence] | tauto].
    + tauto.
Qed.
Lemma NoDup_bremove y l : NoDup l -> NoDup (bremove y l).
Proof.
  induction 1 as [|z l Hn Hd IH]; simpl; [constructor|].
  destruct (beq y z); [exact IH|]. constructor; [|exact IH].
  rewrite In_bremove. tauto.
Qed.
Lemma zmem_In x l : zmem x l = true <-> In x l.
Proof.
  induction l as [|y l IH]; simpl; [split; [discriminate | tauto]|].
  rewrite orb_true_iff, IH, Z.eqb_eq. split; intros [H|H]; auto.
Qed.
Lemma zmem_false x l : zmem x l = false <-> ~ In x l.
Proof. rewrite <- zmem_In. destruct (zmem x l); split; congruence. Qed.
Lemma In_zremove x y l : In x (zdrop y l) <-> In x l /\ x <> y.
Proof.
  induction l as [|z l IH]; simpl; [tauto|].
  destruct (Z.eqb_spec y z) as [->|N].
  - rewrite IH. split; [tauto|]. intros [[H|H] N]; [congruence | tauto].
  - simpl. rewrite IH. split.
    + intros [H|[H N']]; [subst; split; [auto | congruence] | tauto].
    + tauto.
Qed.
Lemma NoDup_zremove y l : NoDup l -> NoDup (zdrop y l).
Proof.
  induction 1 as [|z l Hn Hd IH]; simpl; [constructor|].
  destruct (y =? z); [exact IH|]. constructor; [|exact IH].
  rewrite In_zremove. tauto.
Qed.

(** ---- association lists keyed by bytes ---- *)
Section Assoc.
Context {A : Type}.
Implicit Types (l : list (bytes * A)).
Lemma alookup_aremove_eq k l : alookup k (aremove k l) = None.
Proof.
  induction l as [|[k' v] l IH]; simpl; [reflexivity|].
  destruct (beq k k') eqn:E; [exact IH|]. simpl. rewrite E. exact IH.
Qed.
Lemma alookup_aremove_neq k k' l : k' <> k -> alookup k' (aremove k l) = alookup k' l.
Proof.
  intros N. induction l as [|[k2 v] l IH]; simpl; [reflexivity|].
  destruct (beq k k2) eqn:E.
  - apply beq_eq in E. subst k2. rewrite IH.
    assert (beq k' k = false) as -> by (apply beq_false; exact N). reflexivity.
  - simpl. rewrite IH. reflexivity.
Qed.
Lemma alookup_aset_eq k v l : alookup k (aset k v l) = Some v.
Proof. unfold aset. simpl. rewrite beq_refl. reflexivity. Qed.
Lemma alookup_aset_neq k k' v l : k' <> k -> alookup k' (aset k v l) = alookup k' l.
Proof.
  intros N. unfold aset. simpl.
  assert (beq k' k = false) as -> by (apply beq_false; exact N).
  apply alookup_aremove_neq. exact N.
Qed.
Lemma In_aremove k e l : In e (aremove k l) <-> In e l /\ fst e <> k.
Proof.
  induction l as [|[k2 v] l IH]; simpl; [tauto|].
  destruct (beq k k2) eqn:E.
  - apply beq_eq in E. subst k2. rewrite IH. split; [tauto|].
    intros [[H|H] N]; [subst e; simpl in N; congruence | tauto].
  - apply beq_false in E. simpl. rewrite IH. split.
    + intros [H|[H N]]; [subst e; simpl; split; [auto | congruence] | tauto].
    + tauto.
Qed.
Lemma keys_aremove k l : NoDup (map fst l) -> NoDup (map fst (aremove k l)).
Proof.
  induction l as [|[k2 v] l IH]; simpl; intros H; [constructor|].
  inversion H as [|? ? Hn Hd]; subst.
  destruct (beq k k2); [apply IH; exact Hd|]. simpl. constructor; [|apply IH; exact Hd].
  intros Hin. apply Hn. apply in_map_iff in Hin. destruct Hin as [e [E1 E2]].
  apply In_aremove in E2. apply in_map_iff. exists e. tauto.
Qed.
Lemma keys_aset k v l : NoDup (map fst l) -> NoDup (map fst (aset k v l)).
Proof.
  intros H. unfold aset. simpl. constructor; [|apply keys_aremove; exact H].
  intros Hin. apply in_map_iff in Hin. destruct Hin as [e [E1 E2]].
  apply In_aremove in E2. tauto.
Qed.
Lemma alookup_In k v l : NoDup (map fst l) -> (alookup k l = Some v <-> In (k, v) l).
Proof.
  induction l as [|[k2 v2] l IH]; simpl; intros H; [split; [discriminate | tauto]|].
  inversion H as [|? ? Hn Hd]; subst.
  destruct (beq k k2) eqn:E.
  - apply beq_eq in E. subst k2. split.
    + intros X. injection X as ->. auto.
    + intros [X|X]; [congruence|]. exfalso. apply Hn. apply in_map_iff. exists (k, v). auto.
  - apply beq_false in E. rewrite (IH Hd). split; [auto|]. intros [X|X]; [congruence | exact X].
Qed.
Lemma alookup_some_In k v l : alookup k l = Some v -> In (k, v) l.
Proof.
  induction l as [|[k2 v2] l IH]; simpl; [discriminate|].
  destruct (beq k k2) eqn:E; [|auto].
  apply beq_eq in E. subst k2. intros X. injection X as ->. auto.
Qed.
End Assoc.

(** ---- connection map ---- *)
Definition cinfo (m : cmap) (c : Z) : subinfo :=
  match clookup c m with Some i => i | None => empty_info end.
Lemma clookup_cremove_eq c m : clookup c (cremove c m) = None.
Proof.
  induction m as [|[c' i] m IH]; simpl; [reflexivity|].
  destruct (Z.eqb_spec c c'); [exact IH|]. simpl. destruct (Z.eqb_spec c c'); [contradiction | exact IH].
Qed.
Lemma clookup_cremove_neq c c' m : c' <> c -> clookup c' (cremove c m) = clookup c' m.
Proof.
  intros N. induction m as [|[c2 i] m IH]; simpl; [reflexivity|].
  destruct (Z.eqb_spec c c2) as [->|N2].
  - rewrite IH. destruct (Z.eqb_spec c' c2); [contradiction | reflexivity].
  - simpl. rewrite IH. reflexivity.
Qed.
Lemma clookup_cset_eq c i m : clookup c (cset c i m) = Some i.
Proof. unfold cset. simpl. rewrite Z.eqb_refl. reflexivity. Qed.
Lemma clookup_cset_neq c c' i m : c' <> c -> clookup c' (cset c i m) = clookup c' m.
Proof.
  intros N. unfold cset. simpl. destruct (Z.eqb_spec c' c); [contradiction|].
  apply clookup_cremove_neq. exact N.
Qed.
Lemma cremove_idem c m : cremove c (cremove c m) = cremove c m.
Proof.
  induction m as [|[c' i] m IH]; simpl; [reflexivity|].
  destruct (Z.eqb_spec c c'); [exact IH|]. simpl. destruct (Z.eqb_spec c c'); [contradiction|].
  rewrite IH. reflexivity.
Qed.

(** ---- global maps ---- *)
Definition GWf (g : gmap) : Prop :=
  NoDup (map fst g) /\ Forall (fun e => snd e <> [] /\ NoDup (snd e)) g.

Lemma GWf_nil : GWf [].
Proof. split; constructor. Qed.
Lemma gwf_lookup g n l : GWf g -> alookup n g = Some l -> l <> [] /\ NoDup l.
Proof.
  intros [_ F] H. apply alookup_some_In in H. rewrite Forall_forall in F. exact (F _ H).
Qed.
Lemma gwf_aremove n g : GWf g -> GWf (aremove n g).
Proof.
  intros [K F]. split; [apply keys_aremove; exact K|].
  rewrite Forall_forall in *. intros e He. apply In_aremove in He. apply F. tauto.
Qed.
Lemma gwf_aset n l g : GWf g -> l <> [] -> NoDup l -> GWf (aset n l g).
Proof.
  intros W Hl Hd. destruct (gwf_aremove n g W) as [K F]. destruct W as [K0 _].
  split; [apply keys_aset; exact K0|]. unfold aset. constructor; [simpl; auto | exact F].
Qed.

Lemma g_subs_add_eq n c g :
  g_subs n (g_add n c g) = if zmem c (g_subs n g) then g_subs n g else c :: g_subs n g.
Proof.
  unfold g_add, g_subs. destruct (alookup n g) as [subs|] eqn:E.
  - destruct (zmem c subs); [rewrite E; reflexivity | rewrite alookup_aset_eq; reflexivity].
  - cbn [zmem]. rewrite alookup_aset_eq. reflexivity.
Qed.
Lemma g_subs_add_neq n n' c g : n' <> n -> g_subs n' (g_add n c g) = g_subs n' g.
Proof.
  intros N. unfold g_add, g_subs. destruct (alookup n g) as [subs|] eqn:E.
  - destruct (zmem c subs); [reflexivity | rewrite alookup_aset_neq by exact N; reflexivity].
  - rewrite alookup_aset_neq by exact N. reflexivity.
Qed.
Lemma In_g_add n c g n' c' :
  In c' (g_subs n' (g_add n c g)) <-> In c' (g_subs n' g) \/ (n' = n /\ c' = c).
Proof.
  destruct (beq n' n) eqn:E.
  - apply beq_eq in E. subst n'. rewrite g_subs_add_eq.
    destruct (zmem c (g_subs n g)) eqn:M.
    + apply zmem_In in M. split; [auto|]. intros [H|[_ ->]]; assumption.
    + simpl. split; [intros [H|H]; auto | intros [H|[_ H]]; auto].
  - apply beq_false in E. rewrite g_subs_add_neq by exact E. split; [auto|]. intros [H|[H _]]; [exact H | contradiction].
Qed.
Lemma gwf_add n c g : GWf g -> GWf (g_add n c g).
Proof.
  intros W. unfold g_add. destruct (alookup n g) as [subs|] eqn:E.
  - destruct (zmem c subs) eqn:M; [exact W|].
    destruct (gwf_lookup _ _ _ W E) as [_ Hd].
    apply gwf_aset; [exact W | discriminate | constructor; [apply zmem_false; exact M | exact Hd]].
  - apply gwf_aset; [exact W | discriminate | constructor; [simpl; tauto | constructor]].
Qed.

Lemma g_subs_del_eq n c g : g_subs n (g_del n c g) = zdrop c (g_subs n g).
Proof.
  unfold g_del, g_subs. destruct (alookup n g) as [subs|] eqn:E.
  - destruct (zdrop c subs) as [|x r] eqn:Z.
    + rewrite alookup_aremove_eq. reflexivity.
    + rewrite alookup_aset_eq. reflexivity.
  - rewrite E. reflexivity.
Qed.
Lemma g_subs_del_neq n n' c g : n' <> n -> g_subs n' (g_del n c g) = g_subs n' g.
Proof.
  intros N. unfold g_del, g_subs. destruct (alookup n g) as [subs|] eqn:E; [|reflexivity].
  destruct (zdrop c subs); [rewrite alookup_aremove_neq by exact N | rewrite alookup_aset_neq by exact N]; reflexivity.
Qed.
Lemma In_g_del n c g n' c' :
  In c' (g_subs n' (g_del n c g)) <-> In c' (g_subs n' g) /\ ~ (n' = n /\ c' = c).
Proof.
  destruct (beq n' n) eqn:E.
  - apply beq_eq in E. subst n'. rewrite g_subs_del_eq, In_zremove. tauto.
  - apply beq_false in E. rewrite g_subs_del_neq by exact E. tauto.
Qed.
Lemma gwf_del n c g : GWf g -> GWf (g_del n c g).
Proof.
  intros W. unfold g_del. destruct (alookup n g) as [subs|] eqn:E; [|exact W].
  destruct (gwf_lookup _ _ _ W E) as [_ Hd].
  destruct (zdrop c subs) as [|x r] eqn:Z; [apply gwf_aremove; exact W|].
  apply gwf_aset; [exact W | discriminate | rewrite <- Z; apply NoDup_zremove; exact Hd].
Qed.

Lemma purge_keys c g : NoDup (map fst g) -> NoDup (map fst (g_purge c g)).
Proof.
  unfold g_purge. induction g as [|[n l] g IH]; simpl; intros H; [constructor|].
  inversion H as [|? ? Hn Hd]; subst.
  destruct (zdrop c l); simpl; [apply IH; exact Hd|].
  constructor; [|apply IH; exact Hd].
  intros Hin. apply Hn. apply in_map_iff in Hin. destruct Hin as [e [E1 E2]].
  apply filter_In in E2. destruct E2 as [E2 _]. apply in_map_iff in E2. destruct E2 as [e0 [E3 E4]].
  apply in_map_iff. exists e0. subst e. simpl in E1. auto.
Qed.
Lemma gwf_purge c g : GWf g -> GWf (g_purge c g).
Proof.
  intros [K F]. split; [apply purge_keys; exact K|].
  unfold g_purge. rewrite Forall_forall in *. intros e He.
  apply filter_In in He. destruct He as [He Hne]. apply in_map_iff in He. destruct He as [e0 [<- He0]].
  simpl in *. split.
  - destruct (zdrop c (snd e0)); [discriminate | discriminate].
  - apply NoDup_zremove. apply (F _ He0).
Qed.
Lemma g_subs_purge c g n : NoDup (map fst g) -> g_subs n (g_purge c g) = zdrop c (g_subs n g).
Proof.
  unfold g_purge, g_subs. induction g as [|[n2 l] g IH]; simpl; intros H; [reflexivity|].
  inversion H as [|? ? Hn Hd]; subst.
  destruct (beq n n2) eqn:E.
  - apply beq_eq in E. subst n2.
    destruct (zdrop c l) as [|x r] eqn:Z; simpl.
    + (* the entry disappears; no other binding of n *)
      rewrite IH by exact Hd.
      destruct (alookup n g) as [l2|] eqn:E2; [|reflexivity].
      exfalso. apply Hn. apply alookup_some_In in E2. apply in_map_iff. exists (n, l2). auto.
    + rewrite beq_refl. reflexivity.
  - destruct (zdrop c l) as [|x r] eqn:Z; simpl; [apply IH; exact Hd|].
    rewrite E. apply IH. exact Hd.
Qed.

(** ---- the subscribe / unsubscribe loops ---- *)
Lemma In_dec_b (n : bytes) l : In n l \/ ~ In n l.
Proof. destruct (bmem n l) eqn:E; [left; apply bmem_In | right; apply bmem_false]; exact E. Qed.
Lemma beq_dec (a b : bytes) : a = b \/ a <> b.
Proof. destruct (beq a b) eqn:E; [left; apply beq_eq | right; apply beq_false]; exact E. Qed.

Ltac split5 := split; [|split; [|split; [|split]]].

Lemma sub_loop_spec c : forall names mine other g rs mine' g',
  sub_loop c names mine other g = (rs, mine', g') ->
  (forall n, In n mine' <-> In n mine \/ In n names) /\
  (forall n c', In c' (g_subs n g') <-> In c' (g_subs n g) \/ (c' = c /\ In n names /\ ~ In n mine)) /\
  (GWf g -> GWf g') /\ (NoDup mine -> NoDup mine') /\ map r_name rs = names.
Proof.
  induction names as [|n0 rest IH]; intros mine other g rs mine' g' H; simpl in H.
  - injection H as <- <- <-. split5; simpl; auto; tauto.
  - destruct (sub_loop c rest (if bmem n0 mine then mine else n0 :: mine) other
                (if bmem n0 mine then g else g_add n0 c g)) as [[rs1 m1] g1] eqn:E.
    injection H as <- <- <-.
    destruct (IH _ _ _ _ _ _ E) as [I1 [I2 [I3 [I4 I5]]]]. clear IH E.
    destruct (bmem n0 mine) eqn:B.
    + apply bmem_In in B. split5.
      * intros n. rewrite I1. simpl. split; [tauto|]. intros [H|[H|H]]; subst; tauto.
      * intros n c'. rewrite I2. simpl. split; [tauto|].
        intros [H|[Hc [[Hn|Hn] Hm]]]; [tauto | subst; contradiction | tauto].
      * exact I3.
      * exact I4.
      * simpl. rewrite I5. reflexivity.
    + apply bmem_false in B. split5.
      * intros n. rewrite I1. simpl. tauto.
      * intros n c'. rewrite I2, In_g_add. simpl. split.
        -- intros [[H|[Hn Hc]]|[Hc [Hn Hm]]]; [tauto | subst; tauto | tauto].
        -- intros [H|[Hc [Hn Hm]]]; [tauto|].
           destruct (beq_dec n n0) as [->|Ne]; [tauto|].
           right. split; [exact Hc|]. split; [destruct Hn; [congruence | assumption]|].
           intros [X|X]; [congruence | contradiction].
      * intros W. apply I3. apply gwf_add. exact W.
      * intros D. apply I4. constructor; assumption.
      * simpl. rewrite I5. reflexivity.
Qed.

Lemma unsub_loop_spec c : forall names mine other g rs mine' g',
  unsub_loop c names mine other g = (rs, mine', g') ->
  (forall n, In n mine' <-> In n mine /\ ~ In n names) /\
  (forall n c', In c' (g_subs n g') <-> In c' (g_subs n g) /\ ~ (c' = c /\ In n names /\ In n mine)) /\
  (GWf g -> GWf g') /\ (NoDup mine -> NoDup mine') /\ map r_name rs = names.
Proof.
  induction names as [|n0 rest IH]; intros mine other g rs mine' g' H; simpl in H.
  - injection H as <- <- <-. split5; simpl; auto; tauto.
  - destruct (unsub_loop c rest (bremove n0 mine) other
                (if bmem n0 mine then g_del n0 c g else g)) as [[rs1 m1] g1] eqn:E.
    injection H as <- <- <-.
    destruct (IH _ _ _ _ _ _ E) as [I1 [I2 [I3 [I4 I5]]]]. clear IH E.
    assert (J1 : forall n, In n m1 <-> In n mine /\ ~ In n (n0 :: rest)).
    { intros n. rewrite I1, In_bremove. simpl. split.
      - intros [[A B] C]. split; [exact A | intros [X|X]; [congruence | contradiction]].
      - intros [A B]. split; [split; [exact A | intros X; apply B; auto] | intros X; apply B; auto]. }
    destruct (bmem n0 mine) eqn:B.
    + apply bmem_In in B. split5.
      * exact J1.
      * intros n c'. rewrite I2, In_g_del, In_bremove. simpl. split.
        -- intros [[H N1] N2]. split; [exact H|].
           intros [Hc [[Hn|Hn] Hm]]; [subst; tauto|].
           destruct (beq_dec n n0) as [->|Ne]; [tauto|]. tauto.
        -- intros [H N]. split; [split; [exact H | intros [X Y]; apply N; subst; auto] | intros [X [Y [Z Z']]]; apply N; auto].
      * intros W. apply I3. apply gwf_del. exact W.
      * intros D. apply I4. apply NoDup_bremove. exact D.
      * simpl. rewrite I5. reflexivity.
    + apply bmem_false in B. split5.
      * exact J1.
      * intros n c'. rewrite I2, In_bremove. simpl. split.
        -- intros [H N2]. split; [exact H|].
           intros [Hc [[Hn|Hn] Hm]]; [subst; contradiction|].
           destruct (beq_dec n n0) as [->|Ne]; [contradiction|]. tauto.
        -- intros [H N]. split; [exact H | intros [X [Y [Z Z']]]; apply N; auto].
      * exact I3.
      * intros D. apply I4. apply NoDup_bremove. exact D.
      * simpl. rewrite I5. reflexivity.
Qed.

(** ---- the invariant ---- *)
Lemma cinfo_cset_eq c i m : cinfo (cset c i m) c = i.
Proof. unfold cinfo. rewrite clookup_cset_eq. reflexivity. Qed.
Lemma cinfo_cset_neq c c' i m : c' <> c -> cinfo (cset c i m) c' = cinfo m c'.
Proof. intros N. unfold cinfo. rewrite clookup_cset_neq by exact N. reflexivity. Qed.
Lemma cinfo_cremove_eq c m : cinfo (cremove c m) c = empty_info.
Proof. unfold cinfo. rewrite clookup_cremove_eq. reflexivity. Qed.
Lemma cinfo_cremove_neq c c' m : c' <> c -> cinfo (cremove c m) c' = cinfo m c'.
Proof. intros N. unfold cinfo. rewrite clookup_cremove_neq by exact N. reflexivity. Qed.
Lemma cinfo_lookup c m i : clookup c m = Some i -> cinfo m c = i.
Proof. intros H. unfold cinfo. rewrite H. reflexivity. Qed.

(** the connection map after unsubscribe / punsubscribe *)
Definition conns_after (c : Z) (a b : list bytes) (m : cmap) : cmap :=
  if is_nil a && is_nil b then cremove c m else cset c {| si_ch := a; si_pat := b |} m.
Lemma cinfo_after_eq c a b m : cinfo (conns_after c a b m) c = {| si_ch := a; si_pat := b |}.
Proof.
  unfold conns_after. destruct a, b; simpl; try apply cinfo_cset_eq. apply cinfo_cremove_eq.
Qed.
Lemma cinfo_after_neq c c' a b m : c' <> c -> cinfo (conns_after c a b m) c' = cinfo m c'.
Proof.
  intros N. unfold conns_after. destruct (is_nil a && is_nil b);
    [apply cinfo_cremove_neq | apply cinfo_cset_neq]; exact N.
Qed.

Record Inv (s : pubsub) : Prop := {
  inv_wf_ch : GWf (ps_ch s);
  inv_wf_pat : GWf (ps_pat s);
  inv_ch : forall n c, In c (g_subs n (ps_ch s)) <-> In n (si_ch (cinfo (ps_conns s) c));
  inv_pat : forall n c, In c (g_subs n (ps_pat s)) <-> In n (si_pat (cinfo (ps_conns s) c));
  inv_nodup : forall c, NoDup (si_ch (cinfo (ps_conns s) c)) /\ NoDup (si_pat (cinfo (ps_conns s) c))
}.

Lemma Inv_init : Inv ps_init.
Proof.
  constructor; simpl; try apply GWf_nil; try tauto.
  intros c. split; constructor.
Qed.

Lemma Z_dec (a b : Z) : a = b \/ a <> b.
Proof. lia. Qed.

Lemma subscribe_inv s c names : Inv s -> Inv (snd (subscribe s c names)).
Proof.
  intros [W1 W2 Hc Hp Hd]. unfold subscribe, conn_info. fold (cinfo (ps_conns s) c).
  set (info := cinfo (ps_conns s) c) in *.
  destruct (sub_loop c names (si_ch info) (len (si_pat info)) (ps_ch s)) as [[rs mine] g] eqn:E.
  destruct (sub_loop_spec _ _ _ _ _ _ _ _ E) as [I1 [I2 [I3 [I4 _]]]].
  constructor; simpl.
  - apply I3. exact W1.
  - exact W2.
  - intros n c'. destruct (Z_dec c' c) as [->|N].
    + rewrite cinfo_cset_eq. simpl. rewrite I2, I1, Hc. fold info.
      destruct (In_dec_b n (si_ch info)); tauto.
    + rewrite cinfo_cset_neq by exact N. rewrite I2, Hc. tauto.
  - intros n c'. destruct (Z_dec c' c) as [->|N].
    + rewrite cinfo_cset_eq. simpl. apply Hp.
    + rewrite cinfo_cset_neq by exact N. apply Hp.
  - intros c'. destruct (Z_dec c' c) as [->|N].
    + rewrite cinfo_cset_eq. simpl. split; [apply I4; apply Hd | apply Hd].
    + rewrite cinfo_cset_neq by exact N. apply Hd.
Qed.

Lemma psubscribe_inv s c names : Inv s -> Inv (snd (psubscribe s c names)).
Proof.
  intros [W1 W2 Hc Hp Hd]. unfold psubscribe, conn_info. fold (cinfo (ps_conns s) c).
  set (info := cinfo (ps_conns s) c) in *.
  destruct (sub_loop c names (si_pat info) (len (si_ch info)) (ps_pat s)) as [[rs mine] g] eqn:E.
  destruct (sub_loop_spec _ _ _ _ _ _ _ _ E) as [I1 [I2 [I3 [I4 _]]]].
  constructor; simpl.
  - exact W1.
  - apply I3. exact W2.
  - intros n c'. destruct (Z_dec c' c) as [->|N].
    + rewrite cinfo_cset_eq. simpl. apply Hc.
    + rewrite cinfo_cset_neq by exact N. apply Hc.
  - intros n c'. destruct (Z_dec c' c) as [->|N].
    + rewrite cinfo_cset_eq. simpl. rewrite I2, I1, Hp. fold info.
      destruct (In_dec_b n (si_pat info)); tauto.
    + rewrite cinfo_cset_neq by exact N. rewrite I2, Hp. tauto.
  - intros c'. destruct (Z_dec c' c) as [->|N].
    + rewrite cinfo_cset_eq. simpl. split; [apply Hd | apply I4; apply Hd].
    + rewrite cinfo_cset_neq by exact N. apply Hd.
Qed.

Lemma unsubscribe_inv s c names : Inv s -> Inv (snd (unsubscribe s c names)).
Proof.
  intros HI. pose proof HI as [W1 W2 Hc Hp Hd]. unfold unsubscribe.
  destruct (clookup c (ps_conns s)) as [info|] eqn:L; [|exact HI].
  pose proof (cinfo_lookup _ _ _ L) as CI.
  set (todo := match names with Some l => l | None => bsort (si_ch info) end).
  destruct (unsub_loop c todo (si_ch info) (len (si_pat info)) (ps_ch s)) as [[rs mine] g] eqn:E.
  destruct (unsub_loop_spec _ _ _ _ _ _ _ _ E) as [I1 [I2 [I3 [I4 _]]]].
  simpl. fold (conns_after c mine (si_pat info) (ps_conns s)).
  constructor; simpl.
  - apply I3. exact W1.
  - exact W2.
  - intros n c'. destruct (Z_dec c' c) as [->|N].
    + rewrite cinfo_after_eq. simpl. rewrite I2, I1, Hc, CI. tauto.
    + rewrite cinfo_after_neq by exact N. rewrite I2, Hc. tauto.
  - intros n c'. destruct (Z_dec c' c) as [->|N].
    + rewrite cinfo_after_eq. simpl. rewrite Hp, CI. tauto.
    + rewrite cinfo_after_neq by exact N. apply Hp.
  - intros c'. destruct (Z_dec c' c) as [->|N].
    + rewrite cinfo_after_eq. simpl. specialize (Hd c). rewrite CI in Hd. split; [apply I4|]; apply Hd.
    + rewrite cinfo_after_neq by exact N. apply Hd.
Qed.

Lemma punsubscribe_inv s c names : Inv s -> Inv (snd (punsubscribe s c names)).
Proof.
  intros HI. pose proof HI as [W1 W2 Hc Hp Hd]. unfold punsubscribe.
  destruct (clookup c (ps_conns s)) as [info|] eqn:L; [|exact HI].
  pose proof (cinfo_lookup _ _ _ L) as CI.
  set (todo := match names with Some l => l | None => bsort (si_pat info) end).
  destruct (unsub_loop c todo (si_pat info) (len (si_ch info)) (ps_pat s)) as [[rs mine] g] eqn:E.
  destruct (unsub_loop_spec _ _ _ _ _ _ _ _ E) as [I1 [I2 [I3 [I4 _]]]].
  simpl. fold (conns_after c (si_ch info) mine (ps_conns s)).
  constructor; simpl.
  - exact W1.
  - apply I3. exact W2.
  - intros n c'. destruct (Z_dec c' c) as [->|N].
    + rewrite cinfo_after_eq. simpl. rewrite Hc, CI. tauto.
    + rewrite cinfo_after_neq by exact N. apply Hc.
  - intros n c'. destruct (Z_dec c' c) as [->|N].
    + rewrite cinfo_after_eq. simpl. rewrite I2, I1, Hp, CI. tauto.
    + rewrite cinfo_after_neq by exact N. rewrite I2, Hp. tauto.
  - intros c'. destruct (Z_dec c' c) as [->|N].
    + rewrite cinfo_after_eq. simpl. specialize (Hd c). rewrite CI in Hd. split; [|apply I4]; apply Hd.
    + rewrite cinfo_after_neq by exact N. apply Hd.
Qed.

Lemma unsubscribe_all_inv s c : Inv s -> Inv (unsubscribe_all s c).
Proof.
  intros [W1 W2 Hc Hp Hd]. unfold unsubscribe_all. constructor; simpl.
  - apply gwf_purge. exact W1.
  - apply gwf_purge. exact W2.
  - intros n c'. rewrite g_subs_purge by apply W1. rewrite In_zremove.
    destruct (Z_dec c' c) as [->|N].
    + rewrite cinfo_cremove_eq. simpl. tauto.
    + rewrite cinfo_cremove_neq by exact N. rewrite Hc. tauto.
  - intros n c'. rewrite g_subs_purge by apply W2. rewrite In_zremove.
    destruct (Z_dec c' c) as [->|N].
    + rewrite cinfo_cremove_eq. simpl. tauto.
    + rewrite cinfo_cremove_neq by exact N. rewrite Hp. tauto.
  - intros c'. destruct (Z_dec c' c) as [->|N].
    + rewrite cinfo_cremove_eq. simpl. split; constructor.
    + rewrite cinfo_cremove_neq by exact N. apply Hd.
Qed.

Lemma step_inv s o : Inv s -> Inv (snd (ps_step s o)).
Proof.
  intros H. destruct o; simpl.
  - pose proof (subscribe_inv s c names H). destruct (subscribe s c names). exact H0.
  - pose proof (psubscribe_inv s c names H). destruct (psubscribe s c names). exact H0.
  - pose proof (unsubscribe_inv s c names H). destruct (unsubscribe s c names). exact H0.
  - pose proof (punsubscribe_inv s c names H). destruct (punsubscribe s c names). exact H0.
  - apply unsubscribe_all_inv. exact H.
  - exact H.
Qed.

Lemma run_inv ops : forall s, Inv s -> Inv (ps_run s ops).
Proof.
  induction ops as [|o r IH]; intros s H; simpl; [exact H|].
  apply IH. apply step_inv. exact H.
Qed.

(** ---- no empty connection entry (when subscribe lists are non-empty, as the server guarantees) ---- *)
Definition NoEmptyEntry (s : pubsub) : Prop :=
  forall c i, clookup c (ps_conns s) = Some i -> si_ch i <> [] \/ si_pat i <> [].
Definition nonempty_subs (o : psop) : Prop :=
  match o with OSub _ [] | OPSub _ [] => False | _ => True end.

Lemma lookup_after c c' a b m i :
  clookup c' (conns_after c a b m) = Some i ->
  (c' = c /\ i = {| si_ch := a; si_pat := b |} /\ (a <> [] \/ b <> [])) \/ (c' <> c /\ clookup c' m = Some i).
Proof.
  unfold conns_after. destruct (Z_dec c' c) as [->|N].
  - destruct a, b; cbn [is_nil andb]; rewrite ?clookup_cremove_eq, ?clookup_cset_eq; try discriminate;
      intros H; injection H as <-; left; split; auto; split; auto; (left; discriminate) || (right; discriminate).
  - destruct (is_nil a && is_nil b);
      [rewrite clookup_cremove_neq by exact N | rewrite clookup_cset_neq by exact N]; auto.
Qed.

Lemma step_noempty s o : nonempty_subs o -> NoEmptyEntry s -> NoEmptyEntry (snd (ps_step s o)).
Proof.
  intros NE H. destruct o; simpl.
  - unfold subscribe. destruct (sub_loop c names (si_ch (conn_info s c)) (len (si_pat (conn_info s c))) (ps_ch s)) as [[rs mine] g] eqn:E.
    destruct (sub_loop_spec _ _ _ _ _ _ _ _ E) as [I1 _]. unfold NoEmptyEntry. cbn [snd ps_conns].
    intros c' i. destruct (Z_dec c' c) as [->|N].
    + rewrite clookup_cset_eq. intros X. injection X as <-. simpl. left.
      destruct names as [|n0 r]; [contradiction|]. intros Z. specialize (I1 n0). rewrite Z in I1. simpl in I1. tauto.
    + rewrite clookup_cset_neq by exact N. apply H.
  - unfold psubscribe. destruct (sub_loop c names (si_pat (conn_info s c)) (len (si_ch (conn_info s c))) (ps_pat s)) as [[rs mine] g] eqn:E.
    destruct (sub_loop_spec _ _ _ _ _ _ _ _ E) as [I1 _]. unfold NoEmptyEntry. cbn [snd ps_conns].
    intros c' i. destruct (Z_dec c' c) as [->|N].
    + rewrite clookup_cset_eq. intros X. injection X as <-. simpl. right.
      destruct names as [|n0 r]; [contradiction|]. intros Z. specialize (I1 n0). rewrite Z in I1. simpl in I1. tauto.
    + rewrite clookup_cset_neq by exact N. apply H.
  - unfold unsubscribe. destruct (clookup c (ps_conns s)) as [info|] eqn:L; [|exact H].
    destruct (unsub_loop c _ (si_ch info) (len (si_pat info)) (ps_ch s)) as [[rs mine] g]. unfold NoEmptyEntry. cbn [snd ps_conns].
    fold (conns_after c mine (si_pat info) (ps_conns s)).
    intros c' i X. apply lookup_after in X. destruct X as [[-> [-> X]]|[N X]]; [exact X | exact (H _ _ X)].
  - unfold punsubscribe. destruct (clookup c (ps_conns s)) as [info|] eqn:L; [|exact H].
    destruct (unsub_loop c _ (si_pat info) (len (si_ch info)) (ps_pat s)) as [[rs mine] g]. unfold NoEmptyEntry. cbn [snd ps_conns].
    fold (conns_after c (si_ch info) mine (ps_conns s)).
    intros c' i X. apply lookup_after in X. destruct X as [[-> [-> X]]|[N X]]; [exact X | exact (H _ _ X)].
  - unfold NoEmptyEntry, unsubscribe_all. cbn [ps_conns]. intros c' i. destruct (Z_dec c' c) as [->|N].
    + rewrite clookup_cremove_eq. discriminate.
    + rewrite clookup_cremove_neq by exact N. apply H.
  - exact H.
Qed.

Lemma run_noempty ops : forall s, Forall nonempty_subs ops -> NoEmptyEntry s -> NoEmptyEntry (ps_run s ops).
Proof.
  induction ops as [|o r IH]; intros s F H; simpl; [exact H|].
  inversion F; subst. apply IH; [assumption|]. apply step_noempty; assumption.
Qed.

(** ---- publish ---- *)
Lemma NoDup_app_intro {A} (l1 l2 : list A) :
  NoDup l1 -> NoDup l2 -> (forall x, In x l1 -> In x l2 -> False) -> NoDup (l1 ++ l2).
Proof.
  induction 1 as [|a l1 Hn Hd IH]; intros H2 Hx; simpl; [exact H2|].
  constructor.
  - rewrite in_app_iff. intros [X|X]; [contradiction|]. apply (Hx a); simpl; auto.
  - apply IH; [exact H2|]. intros x X Y. apply (Hx x); simpl; auto.
Qed.
Definition chan_subs (s : pubsub) (c : Z) : list bytes := si_ch (cinfo (ps_conns s) c).
Definition pat_subs (s : pubsub) (c : Z) : list bytes := si_pat (cinfo (ps_conns s) c).

(** what a delivery entry must be: a subscription of the connection that matches the channel *)
Definition is_matching (s : pubsub) (c : Z) (ch : bytes) (t : option bytes) : Prop :=
  match t with
  | None => In ch (chan_subs s c)
  | Some p => In p (pat_subs s c) /\ ps_match p ch = true
  end.
Definition has_matching (s : pubsub) (c : Z) (ch : bytes) : Prop :=
  In ch (chan_subs s c) \/ exists p, In p (pat_subs s c) /\ ps_match p ch = true.

Lemma g_subs_entry (g : gmap) n l : NoDup (map fst g) -> In (n, l) g -> g_subs n g = l.
Proof. intros K H. unfold g_subs. apply (alookup_In n l g K) in H. rewrite H. reflexivity. Qed.
Lemma g_subs_in_entry (g : gmap) n x : In x (g_subs n g) -> exists l, In (n, l) g /\ In x l.
Proof.
  unfold g_subs. destruct (alookup n g) as [l|] eqn:E; [|simpl; tauto].
  intros H. exists l. split; [apply alookup_some_In; exact E | exact H].
Qed.

Lemma In_pat_receivers ch pats c t :
  In (c, t) (pat_receivers ch pats) <->
  exists p subs, t = Some p /\ In (p, subs) pats /\ ps_match p ch = true /\ In c subs.
Proof.
  unfold pat_receivers. rewrite in_flat_map. split.
  - intros [[p subs] [H1 H2]]. simpl in H2. destruct (ps_match p ch) eqn:M; [|contradiction].
    apply in_map_iff in H2. destruct H2 as [c0 [E H2]]. injection E as -> <-. exists p, subs. auto.
  - intros [p [subs [-> [H1 [H2 H3]]]]]. exists (p, subs). split; [exact H1|]. simpl. rewrite H2.
    apply in_map_iff. exists c. auto.
Qed.

Lemma pat_receivers_NoDup ch : forall pats,
  NoDup (map fst pats) -> Forall (fun e => snd e <> [] /\ NoDup (snd e)) pats ->
  NoDup (pat_receivers ch pats).
Proof.
  induction pats as [|[p subs] r IH]; intros K F; [constructor|].
  inversion K as [|? ? Kn Kd]; inversion F as [|? ? [_ Fd] Fr]; subst.
  change (pat_receivers ch ((p, subs) :: r)) with
    ((if ps_match p ch then map (fun c => (c, Some p)) subs else []) ++ pat_receivers ch r).
  apply NoDup_app_intro; [| apply IH; assumption |].
  - destruct (ps_match p ch); [|constructor].
    simpl in Fd. clear -Fd. induction Fd as [|c l N D IH]; simpl; constructor; [|exact IH].
    intros X. apply in_map_iff in X. destruct X as [c' [E X]]. injection E as ->. contradiction.
  - intros [c t] X Y. destruct (ps_match p ch); [|contradiction].
    apply in_map_iff in X. destruct X as [c' [E _]]. injection E as _ <-.
    apply In_pat_receivers in Y. destruct Y as [p' [subs' [E [Y _]]]]. injection E as <-.
    apply Kn. apply in_map_iff. exists (p, subs'). auto.
Qed.

(** delivery = the set of (connection, matching subscription) pairs, each exactly once *)
Lemma In_publish s ch c t : Inv s -> (In (c, t) (publish s ch) <-> is_matching s c ch t).
Proof.
  intros HI. unfold publish. rewrite in_app_iff, in_map_iff, In_pat_receivers. split.
  - intros [[c0 [E H]]|[p [subs [-> [H1 [H2 H3]]]]]].
    + injection E as -> <-. simpl. apply (inv_ch s HI). exact H.
    + simpl. split; [|exact H2]. apply (inv_pat s HI).
      rewrite (g_subs_entry _ _ _ (proj1 (inv_wf_pat s HI)) H1). exact H3.
  - destruct t as [p|]; simpl.
    + intros [H1 H2]. right. apply (inv_pat s HI) in H1.
      destruct (g_subs_in_entry _ _ _ H1) as [l [X1 X2]]. exists p, l. auto.
    + intros H. left. exists c. split; [reflexivity|]. apply (inv_ch s HI). exact H.
Qed.

Lemma g_subs_NoDup (g : gmap) n : GWf g -> NoDup (g_subs n g).
Proof.
  intros W. unfold g_subs. destruct (alookup n g) as [l|] eqn:E; [|constructor].
  exact (proj2 (gwf_lookup _ _ _ W E)).
Qed.

Lemma publish_NoDup s ch : Inv s -> NoDup (publish s ch).
Proof.
  intros HI. unfold publish. apply NoDup_app_intro.
  - pose proof (g_subs_NoDup (ps_ch s) ch (inv_wf_ch s HI)) as D.
    induction D as [|c l N D IH]; simpl; constructor; [|exact IH].
    intros X. apply in_map_iff in X. destruct X as [c' [E X]]. injection E as ->. contradiction.
  - apply pat_receivers_NoDup; apply (inv_wf_pat s HI).
  - intros [c t] X Y. apply in_map_iff in X. destruct X as [c' [E _]]. injection E as _ <-.
    apply In_pat_receivers in Y. destruct Y as [p [subs [E _]]]. discriminate.
Qed.

(** ---- deliveries per connection ---- *)
Definition matching_subs (s : pubsub) (c : Z) (ch : bytes) : list (option bytes) :=
  (if bmem ch (chan_subs s c) then [None] else [])
  ++ map Some (filter (fun p => ps_match p ch) (pat_subs s c)).
Definition deliveries_to (c : Z) (l : list receiver) : list (option bytes) :=
  map snd (filter (fun r => fst r =? c) l).

Lemma In_matching s c ch t : In t (matching_subs s c ch) <-> is_matching s c ch t.
Proof.
  unfold matching_subs. rewrite in_app_iff. destruct t as [p|]; simpl.
  - rewrite in_map_iff. split.
    + intros [H|[x [E H]]]; [destruct (bmem ch (chan_subs s c)); simpl in H; [destruct H; [discriminate | contradiction] | contradiction]|].
      injection E as ->. apply filter_In in H. exact H.
    + intros H. right. exists p. split; [reflexivity | apply filter_In; exact H].
  - split.
    + intros [H|H].
      * destruct (bmem ch (chan_subs s c)) eqn:B; [apply bmem_In; exact B | contradiction].
      * apply in_map_iff in H. destruct H as [x [E _]]. discriminate.
    + intros H. left. apply bmem_In in H. rewrite H. simpl. auto.
Qed.

Lemma matching_subs_NoDup s c ch : Inv s -> NoDup (matching_subs s c ch).
Proof.
  intros HI. unfold matching_subs. apply NoDup_app_intro.
  - destruct (bmem ch (chan_subs s c)); constructor; [simpl; tauto | constructor].
  - pose proof (NoDup_filter (fun p => ps_match p ch) (proj2 (inv_nodup s HI c))) as D.
    fold (pat_subs s c) in D.
    induction D as [|p l N D IH]; simpl; constructor; [|exact IH].
    intros X. apply in_map_iff in X. destruct X as [p' [E X]]. injection E as ->. contradiction.
  - intros t X Y. apply in_map_iff in Y. destruct Y as [p [<- _]].
    destruct (bmem ch (chan_subs s c)); simpl in X; [destruct X; [discriminate | contradiction] | contradiction].
Qed.

Lemma In_deliveries_to c l t : In t (deliveries_to c l) <-> In (c, t) l.
Proof.
  unfold deliveries_to. rewrite in_map_iff. split.
  - intros [[c0 t0] [E H]]. simpl in E. subst t0. apply filter_In in H. destruct H as [H Q].
    simpl in Q. apply Z.eqb_eq in Q. subst c0. exact H.
  - intros H. exists (c, t). split; [reflexivity|]. apply filter_In. split; [exact H | simpl; apply Z.eqb_refl].
Qed.
Lemma deliveries_to_NoDup c l : NoDup l -> NoDup (deliveries_to c l).
Proof.
  unfold deliveries_to. induction 1 as [|[c0 t0] l N D IH]; simpl; [constructor|].
  destruct (Z.eqb_spec c0 c) as [->|Ne]; [|exact IH]. simpl. constructor; [|exact IH].
  intros X. apply (In_deliveries_to c l t0) in X. contradiction.
Qed.

Lemma delivery_full s ch c :
  Inv s -> Permutation.Permutation (deliveries_to c (publish s ch)) (matching_subs s c ch).
Proof.
  intros HI. apply Permutation.NoDup_Permutation.
  - apply deliveries_to_NoDup, publish_NoDup. exact HI.
  - apply matching_subs_NoDup. exact HI.
  - intros t. rewrite In_deliveries_to, In_matching. apply In_publish. exact HI.
Qed.

(** ---- nothing after unsubscribing ---- *)
(** the subscriptions of a connection only grow by its own SUBSCRIBE / PSUBSCRIBE *)
Definition no_resub_ch (c : Z) (ch : bytes) (o : psop) : Prop :=
  match o with OSub c' l => c' = c -> ~ In ch l | _ => True end.
Definition no_resub_pat (c : Z) (p : bytes) (o : psop) : Prop :=
  match o with OPSub c' l => c' = c -> ~ In p l | _ => True end.
Definition not_sub_by (c : Z) (o : psop) : Prop :=
  match o with OSub c' _ | OPSub c' _ => c' <> c | _ => True end.

Lemma subscribe_subs s c names c' :
  (forall n, In n (chan_subs (snd (subscribe s c names)) c') <->
             In n (chan_subs s c') \/ (c' = c /\ In n names)) /\
  pat_subs (snd (subscribe s c names)) c' = pat_subs s c'.
Proof.
  unfold subscribe, conn_info, chan_subs, pat_subs. fold (cinfo (ps_conns s) c).
  destruct (sub_loop c names _ _ (ps_ch s)) as [[rs mine] g] eqn:E.
  destruct (sub_loop_spec _ _ _ _ _ _ _ _ E) as [I1 _]. cbn [snd ps_conns].
  destruct (Z_dec c' c) as [->|N].
  - rewrite cinfo_cset_eq. simpl. split; [|reflexivity]. intros n. rewrite I1. tauto.
  - rewrite cinfo_cset_neq by exact N. split; [|reflexivity]. intros n. tauto.
Qed.
Lemma psubscribe_subs s c names c' :
  (forall n, In n (pat_subs (snd (psubscribe s c names)) c') <->
             In n (pat_subs s c') \/ (c' = c /\ In n names)) /\
  chan_subs (snd (psubscribe s c names)) c' = chan_subs s c'.
Proof.
  unfold psubscribe, conn_info, chan_subs, pat_subs. fold (cinfo (ps_conns s) c).
  destruct (sub_loop c names _ _ (ps_pat s)) as [[rs mine] g] eqn:E.
  destruct (sub_loop_spec _ _ _ _ _ _ _ _ E) as [I1 _]. cbn [snd ps_conns].
  destruct (Z_dec c' c) as [->|N].
  - rewrite cinfo_cset_eq. simpl. split; [|reflexivity]. intros n. rewrite I1. tauto.
  - rewrite cinfo_cset_neq by exact N. split; [|reflexivity]. intros n. tauto.
Qed.
Lemma unsubscribe_subs s c names c' :
  (forall n, In n (chan_subs (snd (unsubscribe s c names)) c') <->
             In n (chan_subs s c') /\
             ~ (c' = c /\ In n (match names with Some l => l | None => bsort (chan_subs s c) end))) /\
  pat_subs (snd (unsubscribe s c names)) c' = pat_subs s c'.
Proof.
  unfold unsubscribe, chan_subs, pat_subs.
  destruct (clookup c (ps_conns s)) as [info|] eqn:L.
  - pose proof (cinfo_lookup _ _ _ L) as CI. rewrite CI.
    destruct (unsub_loop c _ (si_ch info) _ (ps_ch s)) as [[rs mine] g] eqn:E.
    destruct (unsub_loop_spec _ _ _ _ _ _ _ _ E) as [I1 _]. cbn [snd ps_conns].
    fold (conns_after c mine (si_pat info) (ps_conns s)).
    destruct (Z_dec c' c) as [->|N].
    + rewrite cinfo_after_eq, CI. simpl. split; [|reflexivity]. intros n. rewrite I1. tauto.
    + rewrite cinfo_after_neq by exact N. split; [|reflexivity]. intros n. tauto.
  - cbn [snd]. split; [|reflexivity]. intros n. split; [|tauto]. intros H. split; [exact H|].
    intros [-> _]. unfold cinfo in H. rewrite L in H. exact H.
Qed.
Lemma punsubscribe_subs s c names c' :
  (forall n, In n (pat_subs (snd (punsubscribe s c names)) c') <->
             In n (pat_subs s c') /\
             ~ (c' = c /\ In n (match names with Some l => l | None => bsort (pat_subs s c) end))) /\
  chan_subs (snd (punsubscribe s c names)) c' = chan_subs s c'.
Proof.
  unfold punsubscribe, chan_subs, pat_subs.
  destruct (clookup c (ps_conns s)) as [info|] eqn:L.
  - pose proof (cinfo_lookup _ _ _ L) as CI. rewrite CI.
    destruct (unsub_loop c _ (si_pat info) _ (ps_pat s)) as [[rs mine] g] eqn:E.
    destruct (unsub_loop_spec _ _ _ _ _ _ _ _ E) as [I1 _]. cbn [snd ps_conns].
    fold (conns_after c (si_ch info) mine (ps_conns s)).
    destruct (Z_dec c' c) as [->|N].
    + rewrite cinfo_after_eq, CI. simpl. split; [|reflexivity]. intros n. rewrite I1. tauto.
    + rewrite cinfo_after_neq by exact N. split; [|reflexivity]. intros n. tauto.
  - cbn [snd]. split; [|reflexivity]. intros n. split; [|tauto]. intros H. split; [exact H|].
    intros [-> _]. unfold cinfo in H. rewrite L in H. exact H.
Qed.
Lemma unsubscribe_all_subs s c c' :
  chan_subs (unsubscribe_all s c) c' = (if c' =? c then [] else chan_subs s c') /\
  pat_subs (unsubscribe_all s c) c' = (if c' =? c then [] else pat_subs s c').
Proof.
  unfold unsubscribe_all, chan_subs, pat_subs. cbn [ps_conns].
  destruct (Z.eqb_spec c' c) as [->|N].
  - rewrite cinfo_cremove_eq. auto.
  - rewrite cinfo_cremove_neq by exact N. auto.
Qed.

Lemma step_keeps_unsub_ch s o c ch :
  no_resub_ch c ch o -> ~ In ch (chan_subs s c) -> ~ In ch (chan_subs (snd (ps_step s o)) c).
Proof.
  intros NR H. destruct o; simpl.
  - pose proof (proj1 (subscribe_subs s c0 names c) ch) as X. destruct (subscribe s c0 names). simpl in *.
    rewrite X. intros [Y|[-> Y]]; [contradiction | exact (NR eq_refl Y)].
  - pose proof (proj2 (psubscribe_subs s c0 names c)) as X. destruct (psubscribe s c0 names). simpl in *. rewrite X. exact H.
  - pose proof (proj1 (unsubscribe_subs s c0 names c) ch) as X. destruct (unsubscribe s c0 names). simpl in *. rewrite X. tauto.
  - pose proof (proj2 (punsubscribe_subs s c0 names c)) as X. destruct (punsubscribe s c0 names). simpl in *. rewrite X. exact H.
  - rewrite (proj1 (unsubscribe_all_subs s c0 c)). destruct (c =? c0); [simpl; tauto | exact H].
  - exact H.
Qed.
Lemma step_keeps_unsub_pat s o c p :
  no_resub_pat c p o -> ~ In p (pat_subs s c) -> ~ In p (pat_subs (snd (ps_step s o)) c).
Proof.
  intros NR H. destruct o; simpl.
  - pose proof (proj2 (subscribe_subs s c0 names c)) as X. destruct (subscribe s c0 names). simpl in *. rewrite X. exact H.
  - pose proof (proj1 (psubscribe_subs s c0 names c) p) as X. destruct (psubscribe s c0 names). simpl in *.
    rewrite X. intros [Y|[-> Y]]; [contradiction | exact (NR eq_refl Y)].
  - pose proof (proj2 (unsubscribe_subs s c0 names c)) as X. destruct (unsubscribe s c0 names). simpl in *. rewrite X. exact H.
  - pose proof (proj1 (punsubscribe_subs s c0 names c) p) as X. destruct (punsubscribe s c0 names). simpl in *. rewrite X. tauto.
  - rewrite (proj2 (unsubscribe_all_subs s c0 c)). destruct (c =? c0); [simpl; tauto | exact H].
  - exact H.
Qed.
Lemma run_keeps_unsub_ch c ch ops : forall s,
  Forall (no_resub_ch c ch) ops -> ~ In ch (chan_subs s c) -> ~ In ch (chan_subs (ps_run s ops) c).
Proof.
  induction ops as [|o r IH]; intros s F H; simpl; [exact H|].
  inversion F; subst. apply IH; [assumption|]. apply step_keeps_unsub_ch; assumption.
Qed.
Lemma run_keeps_unsub_pat c p ops : forall s,
  Forall (no_resub_pat c p) ops -> ~ In p (pat_subs s c) -> ~ In p (pat_subs (ps_run s ops) c).
Proof.
  induction ops as [|o r IH]; intros s F H; simpl; [exact H|].
  inversion F; subst. apply IH; [assumption|]. apply step_keeps_unsub_pat; assumption.
Qed.

Lemma after_unsubscribe_nothing s c names ch ops :
  Inv s -> In ch names -> Forall (no_resub_ch c ch) ops ->
  ~ In (c, None) (publish (ps_run (snd (unsubscribe s c (Some names))) ops) ch).
Proof.
  intros HI Hn F H.
  assert (HI' : Inv (ps_run (snd (unsubscribe s c (Some names))) ops)) by (apply run_inv, unsubscribe_inv; exact HI).
  apply (In_publish _ _ _ _ HI') in H. simpl in H. revert H.
  apply run_keeps_unsub_ch; [exact F|].
  rewrite (proj1 (unsubscribe_subs s c (Some names) c) ch). tauto.
Qed.
Lemma after_punsubscribe_nothing s c names p ch ops :
  Inv s -> In p names -> Forall (no_resub_pat c p) ops ->
  ~ In (c, Some p) (publish (ps_run (snd (punsubscribe s c (Some names))) ops) ch).
Proof.
  intros HI Hn F H.
  assert (HI' : Inv (ps_run (snd (punsubscribe s c (Some names))) ops)) by (apply run_inv, punsubscribe_inv; exact HI).
  apply (In_publish _ _ _ _ HI') in H. simpl in H. destruct H as [H _]. revert H.
  apply run_keeps_unsub_pat; [exact F|].
  rewrite (proj1 (punsubscribe_subs s c (Some names) c) p). tauto.
Qed.

Lemma not_sub_no_resub c o : not_sub_by c o -> (forall ch, no_resub_ch c ch o) /\ (forall p, no_resub_pat c p o).
Proof. destruct o; simpl; intros H; split; intros; auto; try tauto; intros E; congruence. Qed.

(** after unsubscribe_all (disconnect cleanup) the connection receives nothing, on any channel,
    until it subscribes again *)
Lemma after_unsubscribe_all_nothing s c ch ops :
  Inv s -> Forall (not_sub_by c) ops ->
  ~ In c (map fst (publish (ps_run (unsubscribe_all s c) ops) ch)).
Proof.
  intros HI F H.
  assert (HI' : Inv (ps_run (unsubscribe_all s c) ops)) by (apply run_inv, unsubscribe_all_inv; exact HI).
  apply in_map_iff in H. destruct H as [[c0 t] [E H]]. simpl in E. subst c0.
  apply (In_publish _ _ _ _ HI') in H.
  destruct t as [p|]; simpl in H.
  - destruct H as [H _]. revert H. apply run_keeps_unsub_pat.
    + eapply Forall_impl; [|exact F]. intros o X. apply not_sub_no_resub. exact X.
    + rewrite (proj2 (unsubscribe_all_subs s c c)), Z.eqb_refl. simpl. tauto.
  - revert H. apply run_keeps_unsub_ch.
    + eapply Forall_impl; [|exact F]. intros o X. apply not_sub_no_resub. exact X.
    + rewrite (proj1 (unsubscribe_all_subs s c c)), Z.eqb_refl. simpl. tauto.
Qed.

(** ---- acknowledgements ---- *)
Definition total_subs (s : pubsub) (c : Z) : Z := len (chan_subs s c) + len (pat_subs s c).

Lemma sub_loop_app c : forall l1 l2 mine other g,
  sub_loop c (l1 ++ l2) mine other g =
  match sub_loop c l1 mine other g with
  | (r1, m1, g1) => match sub_loop c l2 m1 other g1 with
                    | (r2, m2, g2) => (r1 ++ r2, m2, g2)
                    end
  end.
Proof.
  induction l1 as [|n l1 IH]; intros l2 mine other g; simpl.
  - destruct (sub_loop c l2 mine other g) as [[r2 m2] g2]. reflexivity.
  - rewrite IH.
    destruct (sub_loop c l1 _ other _) as [[r1 m1] g1].
    destruct (sub_loop c l2 m1 other g1) as [[r2 m2] g2]. reflexivity.
Qed.

Lemma cset_cset c i1 i2 m : cset c i2 (cset c i1 m) = cset c i2 m.
Proof. unfold cset. simpl. rewrite Z.eqb_refl, cremove_idem. reflexivity. Qed.

(** SUBSCRIBE a b c = SUBSCRIBE a; SUBSCRIBE b; SUBSCRIBE c (acknowledgements concatenated) *)
Lemma subscribe_app s c l1 l2 :
  subscribe s c (l1 ++ l2) =
  match subscribe s c l1 with
  | (r1, s1) => match subscribe s1 c l2 with (r2, s2) => (r1 ++ r2, s2) end
  end.
Proof.
  unfold subscribe, conn_info. rewrite sub_loop_app.
  destruct (sub_loop c l1 _ _ (ps_ch s)) as [[r1 m1] g1]. cbn [ps_conns ps_ch ps_pat].
  rewrite clookup_cset_eq. cbn [si_ch si_pat].
  destruct (sub_loop c l2 m1 _ g1) as [[r2 m2] g2]. rewrite cset_cset. reflexivity.
Qed.
Lemma psubscribe_app s c l1 l2 :
  psubscribe s c (l1 ++ l2) =
  match psubscribe s c l1 with
  | (r1, s1) => match psubscribe s1 c l2 with (r2, s2) => (r1 ++ r2, s2) end
  end.
Proof.
  unfold psubscribe, conn_info. rewrite sub_loop_app.
  destruct (sub_loop c l1 _ _ (ps_pat s)) as [[r1 m1] g1]. cbn [ps_conns ps_ch ps_pat].
  rewrite clookup_cset_eq. cbn [si_ch si_pat].
  destruct (sub_loop c l2 m1 _ g1) as [[r2 m2] g2]. rewrite cset_cset. reflexivity.
Qed.

(** one name: the acknowledgement carries the connection's subscription count after the
    operation, and is_new tells whether the subscription was added *)
Lemma subscribe_single s c n :
  fst (subscribe s c [n]) =
  [{| r_name := n; r_count := total_subs (snd (subscribe s c [n])) c;
      r_new := negb (bmem n (chan_subs s c)) |}].
Proof.
  unfold total_subs, chan_subs, pat_subs, subscribe, conn_info. fold (cinfo (ps_conns s) c).
  cbn [sub_loop fst snd ps_conns]. rewrite cinfo_cset_eq. reflexivity.
Qed.
Lemma psubscribe_single s c n :
  fst (psubscribe s c [n]) =
  [{| r_name := n; r_count := total_subs (snd (psubscribe s c [n])) c;
      r_new := negb (bmem n (pat_subs s c)) |}].
Proof.
  unfold total_subs, chan_subs, pat_subs, psubscribe, conn_info. fold (cinfo (ps_conns s) c).
  cbn [sub_loop fst snd ps_conns]. rewrite cinfo_cset_eq. cbn [si_ch si_pat]. rewrite Z.add_comm. reflexivity.
Qed.

(** unsubscribe of a connection that has an entry: one acknowledgement per name, the k-th
    carrying the count after the first k+1 names were removed *)
Definition bremove_all (names mine : list bytes) : list bytes :=
  fold_left (fun m n => bremove n m) names mine.
Lemma unsub_loop_counts c : forall names mine other g rs m' g' k r,
  unsub_loop c names mine other g = (rs, m', g') -> nth_error rs k = Some r ->
  r_count r = len (bremove_all (firstn (S k) names) mine) + other /\ r_new r = false /\
  nth_error names k = Some (r_name r).
Proof.
  induction names as [|n0 rest IH]; intros mine other g rs m' g' k r H N; simpl in H.
  - injection H as <- _ _. destruct k; discriminate.
  - destruct (unsub_loop c rest (bremove n0 mine) other _) as [[rs1 m1] g1] eqn:E.
    injection H as <- _ _. destruct k as [|k]; simpl in N.
    + injection N as <-. simpl. auto.
    + destruct (IH _ _ _ _ _ _ _ _ E N) as [A [B C]]. simpl. auto.
Qed.
Lemma unsub_loop_length c : forall names mine other g rs m' g',
  unsub_loop c names mine other g = (rs, m', g') -> length rs = length names.
Proof.
  intros. destruct (unsub_loop_spec _ _ _ _ _ _ _ _ H) as [_ [_ [_ [_ X]]]].
  rewrite <- X, map_length. reflexivity.
Qed.

Lemma unsubscribe_acks s c names info :
  clookup c (ps_conns s) = Some info ->
  length (fst (unsubscribe s c (Some names))) = length names /\
  forall k r, nth_error (fst (unsubscribe s c (Some names))) k = Some r ->
    nth_error names k = Some (r_name r) /\ r_new r = false /\
    r_count r = len (bremove_all (firstn (S k) names) (chan_subs s c)) + len (pat_subs s c).
Proof.
  intros L. unfold unsubscribe, chan_subs, pat_subs. rewrite L, (cinfo_lookup _ _ _ L).
  destruct (unsub_loop c names (si_ch info) _ (ps_ch s)) as [[rs m] g] eqn:E. cbn [fst].
  split; [eapply unsub_loop_length; exact E|].
  intros k r N. destruct (unsub_loop_counts _ _ _ _ _ _ _ _ _ _ E N) as [A [B C]]. auto.
Qed.
Lemma punsubscribe_acks s c names info :
  clookup c (ps_conns s) = Some info ->
  length (fst (punsubscribe s c (Some names))) = length names /\
  forall k r, nth_error (fst (punsubscribe s c (Some names))) k = Some r ->
    nth_error names k = Some (r_name r) /\ r_new r = false /\
    r_count r = len (bremove_all (firstn (S k) names) (pat_subs s c)) + len (chan_subs s c).
Proof.
  intros L. unfold punsubscribe, chan_subs, pat_subs. rewrite L, (cinfo_lookup _ _ _ L).
  destruct (unsub_loop c names (si_pat info) _ (ps_pat s)) as [[rs m] g] eqn:E. cbn [fst].
  split; [eapply unsub_loop_length; exact E|].
  intros k r N. destruct (unsub_loop_counts _ _ _ _ _ _ _ _ _ _ E N) as [A [B C]]. auto.
Qed.
(** ... and the last acknowledgement carries the count of the resulting state *)
Lemma bremove_all_In names : forall mine n, In n (bremove_all names mine) <-> In n mine /\ ~ In n names.
Proof.
  induction names as [|n0 r IH]; intros mine n; simpl; [tauto|].
  unfold bremove_all in *. simpl. rewrite IH, In_bremove. split.
  - intros [[A B] C]. split; [exact A | intros [X|X]; [congruence | contradiction]].
  - intros [A B]. split; [split; [exact A | intros X; apply B; auto] | intros X; apply B; auto].
Qed.
