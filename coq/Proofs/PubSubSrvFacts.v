(** Pub/sub at the server level (Model/Server.v process_frame_x, h_publish, h_sub, h_unsub,
    close_conn / del_conn): the manager invariant and "subscribers are connections" hold along
    every history; what a PUBLISH step writes; per-subscriber order; acknowledgements;
    nothing after disconnect. *)
From Coq Require Import Sorting.Permutation.
From Ferrous Require Import Base.Bytes Generated Model.Resp Model.Types Model.Strings Model.PubSub
  Model.Server Model.Conn Proofs.BytesFacts Proofs.RespFacts Proofs.ServerFacts Proofs.ConnFacts
  Proofs.PsGlobFacts Proofs.PubSubFacts.
Open Scope Z_scope.

(** ---- the rest of the server neither touches the manager nor drops a connection ---- *)
Definition keeps (s s' : server) : Prop :=
  s_pubsub s' = s_pubsub s /\ forall d, has_conn s d = true -> has_conn s' d = true.
Lemma keeps_refl s : keeps s s.
Proof. split; auto. Qed.
Lemma keeps_trans s1 s2 s3 : keeps s1 s2 -> keeps s2 s3 -> keeps s1 s3.
Proof. intros [A B] [C D]. split; [congruence | auto]. Qed.
Lemma has_conn_set_conn s c cn d : has_conn (set_conn s c cn) d = if d =? c then true else has_conn s d.
Proof.
  unfold has_conn, set_conn. cbn [s_conns]. destruct (Z.eqb_spec d c) as [->|N].
  - rewrite zlookup_zset_same. reflexivity.
  - rewrite zlookup_zset_other by exact N. reflexivity.
Qed.
Lemma keeps_set_conn s c cn : keeps s (set_conn s c cn).
Proof. split; [reflexivity|]. intros d H. rewrite has_conn_set_conn. destruct (d =? c); auto. Qed.
Lemma keeps_set_db s i d : keeps s (set_db s i d).
Proof. split; auto. Qed.
Lemma keeps_set_trk s i t : keeps s (set_trk s i t).
Proof. split; auto. Qed.
Lemma keeps_log_aof s p : keeps s (log_aof s p).
Proof. split; auto. Qed.
Lemma keeps_log_aof_in s dbi p : keeps s (log_aof_in s dbi p).
Proof. unfold log_aof_in. destruct (same_db _ _); split; auto. Qed.

Ltac kdone H := inversion H; subst; first [apply keeps_refl | assumption].

Lemma h_auth_keeps s c parts r s' : h_auth s c parts = (r, s') -> keeps s s'.
Proof.
  unfold h_auth. intros H.
  destruct parts as [|a [|b [|? ?]]]; try kdone H; try (destruct b; kdone H).
  destruct b; try kdone H.
  destruct (s_password s); [|kdone H].
  destruct (beq b b0); [|kdone H].
  destruct (zlookup c (s_conns s)); inversion H; subst; [apply keeps_set_conn | apply keeps_refl].
Qed.

Lemma dispatch_command_keeps now s c dbi parts oracle r s' :
  dispatch_command now s c dbi parts oracle = (r, s') -> keeps s s'.
Proof.
  unfold dispatch_command. intros H.
  destruct parts as [|first rest]; [kdone H|].
  destruct first; try kdone H.
  set (s0 := if mem_name (upper b) write_commands then log_aof_in s dbi (FBulk b :: rest) else s) in *.
  assert (K0 : keeps s s0) by (unfold s0; destruct (mem_name (upper b) write_commands); [apply keeps_log_aof_in | apply keeps_refl]).
  apply (keeps_trans _ _ _ K0). clear K0.
  destruct (beq (upper b) (bs "PING")); [kdone H|].
  destruct (beq (upper b) (bs "ECHO")); [kdone H|].
  destruct (beq (upper b) (bs "SELECT")).
  { destruct rest as [|a [|? ?]]; try kdone H; try (destruct a; kdone H).
    destruct a; try kdone H.
    destruct (parse_usize b0); [|kdone H].
    destruct (16 <=? z); [kdone H|].
    destruct (zlookup c (s_conns s0)); inversion H; subst; [apply keeps_set_conn | apply keeps_refl]. }
  destruct (beq (upper b) (bs "FLUSHALL")).
  { destruct (negb (len (FBulk b :: rest) =? 1)); inversion H; subst; [apply keeps_refl|]. split; auto. }
  destruct (beq (upper b) (bs "RANDOMKEY")); [kdone H|].
  destruct (beq (upper b) (bs "AUTH")); [eapply h_auth_keeps; exact H|].
  destruct (beq (upper b) (bs "QUIT")); [kdone H|].
  destruct (beq (upper b) (bs "VERIF")); [kdone H|].
  destruct (exec_db now (get_db s0 dbi) (upper b) (FBulk b :: rest) oracle) as [[r0 d']|];
    inversion H; subst; [|apply keeps_refl].
  eapply keeps_trans; [apply keeps_set_db | apply keeps_set_trk].
Qed.
Lemma lazy_expire_keeps now s dbi name parts : keeps s (lazy_expire now s dbi name parts).
Proof.
  unfold lazy_expire. destruct lazy_expiry_before_dispatch; [|apply keeps_refl].
  destruct (expire_before now (get_db s dbi) name parts) as [d1 removed].
  eapply keeps_trans; [apply keeps_set_db | apply keeps_set_trk].
Qed.
Lemma normal_command_keeps now s c dbi parts oracle r s' :
  normal_command now s c dbi parts oracle = (r, s') -> keeps s s'.
Proof.
  unfold normal_command. intros H.
  destruct parts as [|first rest]; [kdone H|].
  destruct first; try kdone H.
  eapply keeps_trans; [apply lazy_expire_keeps | eapply dispatch_command_keeps; exact H].
Qed.

Lemma exec_queue_keeps now dbi : forall q s acc reps s',
  exec_queue now s dbi q acc = (reps, s') -> keeps s s'.
Proof.
  induction q as [|parts q IH]; intros s acc reps s' H; cbn [exec_queue] in H; [kdone H|].
  destruct (normal_command now s 0 dbi parts None) as [rep s1] eqn:E.
  eapply keeps_trans; [eapply normal_command_keeps; exact E | eapply IH; exact H].
Qed.

Lemma process_frame_keeps now s c req oracle r s' :
  process_frame now s c req oracle = (r, s') -> keeps s s'.
Proof.
  unfold process_frame. intros H.
  destruct req; try kdone H.
  destruct l as [|first rest]; [kdone H|].
  destruct first; try kdone H.
  destruct (zlookup c (s_conns s)) as [cn|]; [|kdone H].
  destruct ((match s_password s with Some _ => true | None => false end) && negb (c_auth cn)).
  { destruct (beq (upper (trim b)) (bs "AUTH")); [eapply h_auth_keeps; exact H|].
    destruct (beq (upper (trim b)) (bs "PING")); [kdone H|].
    destruct (beq (upper (trim b)) (bs "QUIT")); kdone H. }
  destruct (beq (upper (trim b)) (bs "MULTI")).
  { destruct (c_intx cn); inversion H; subst; [apply keeps_refl | apply keeps_set_conn]. }
  destruct (beq (upper (trim b)) (bs "EXEC")).
  { unfold h_exec in H. destruct (negb (c_intx cn)); [kdone H|].
    destruct (existsb _ (c_watched cn)); [inversion H; subst; apply keeps_set_conn|].
    destruct (exec_queue now (set_conn s c (clear_tx cn)) (c_db cn) (c_queue cn) []) as [reps s2] eqn:E.
    inversion H; subst. eapply keeps_trans; [apply keeps_set_conn | eapply exec_queue_keeps; exact E]. }
  destruct (beq (upper (trim b)) (bs "DISCARD")).
  { destruct (negb (c_intx cn)); inversion H; subst; [apply keeps_refl | apply keeps_set_conn]. }
  destruct (beq (upper (trim b)) (bs "WATCH")).
  { destruct (len (FBulk b :: rest) <? 2); [kdone H|]. destruct (c_intx cn); [kdone H|].
    destruct (watch_loop_partial (get_trk s (c_db cn)) rest (c_watched cn)) as [[t' w'] okb].
    inversion H; subst. eapply keeps_trans; [apply keeps_set_trk | apply keeps_set_conn]. }
  destruct (beq (upper (trim b)) (bs "UNWATCH")).
  { inversion H; subst. eapply keeps_trans; [apply keeps_set_trk | apply keeps_set_conn]. }
  destruct (beq (upper (trim b)) (bs "AUTH")); [eapply h_auth_keeps; exact H|].
  destruct (c_intx cn && negb (mem_name (upper (trim b)) tx_not_queued)).
  { inversion H; subst. apply keeps_set_conn. }
  eapply normal_command_keeps; exact H.
Qed.

(** ---- the server-level invariant ---- *)
Definition SrvInv (s : server) : Prop :=
  Inv (s_pubsub s) /\ forall c, is_subscribed (s_pubsub s) c = true -> has_conn s c = true.

Lemma SrvInv_init pw : SrvInv (init_server pw).
Proof. split; [exact Inv_init | intros c H; discriminate]. Qed.

Lemma SrvInv_keeps s s' : keeps s s' -> SrvInv s -> SrvInv s'.
Proof. intros [A B] [I C]. split; rewrite A; [exact I | auto]. Qed.

Lemma is_subscribed_lookup p c : is_subscribed p c = true <-> exists i, clookup c (ps_conns p) = Some i.
Proof.
  unfold is_subscribed. destruct (clookup c (ps_conns p)) as [i|]; split; intros H; eauto; try discriminate.
  destruct H as [i H]. discriminate.
Qed.

(** which connection entries an operation can create: only the issuer's *)
Lemma subscribe_entries p c names d :
  is_subscribed (snd (subscribe p c names)) d = true -> d = c \/ is_subscribed p d = true.
Proof.
  unfold subscribe. destruct (sub_loop c names _ _ (ps_ch p)) as [[rs mine] g]. cbn [snd].
  unfold is_subscribed. cbn [ps_conns]. destruct (Z_dec d c) as [->|N]; [auto|].
  rewrite clookup_cset_neq by exact N. auto.
Qed.
Lemma psubscribe_entries p c names d :
  is_subscribed (snd (psubscribe p c names)) d = true -> d = c \/ is_subscribed p d = true.
Proof.
  unfold psubscribe. destruct (sub_loop c names _ _ (ps_pat p)) as [[rs mine] g]. cbn [snd].
  unfold is_subscribed. cbn [ps_conns]. destruct (Z_dec d c) as [->|N]; [auto|].
  rewrite clookup_cset_neq by exact N. auto.
Qed.
Lemma unsubscribe_entries p c names d :
  is_subscribed (snd (unsubscribe p c names)) d = true -> is_subscribed p d = true.
Proof.
  unfold unsubscribe, is_subscribed. destruct (clookup c (ps_conns p)) as [info|] eqn:L; [|auto].
  destruct (unsub_loop c _ (si_ch info) _ (ps_ch p)) as [[rs mine] g]. cbn [snd ps_conns].
  destruct (Z_dec d c) as [->|N]; [rewrite L; auto|].
  destruct (is_nil mine && is_nil (si_pat info));
    [rewrite clookup_cremove_neq by exact N | rewrite clookup_cset_neq by exact N]; auto.
Qed.
Lemma punsubscribe_entries p c names d :
  is_subscribed (snd (punsubscribe p c names)) d = true -> is_subscribed p d = true.
Proof.
  unfold punsubscribe, is_subscribed. destruct (clookup c (ps_conns p)) as [info|] eqn:L; [|auto].
  destruct (unsub_loop c _ (si_pat info) _ (ps_pat p)) as [[rs mine] g]. cbn [snd ps_conns].
  destruct (Z_dec d c) as [->|N]; [rewrite L; auto|].
  destruct (is_nil (si_ch info) && is_nil mine);
    [rewrite clookup_cremove_neq by exact N | rewrite clookup_cset_neq by exact N]; auto.
Qed.
Lemma unsubscribe_all_entries p c d :
  is_subscribed (unsubscribe_all p c) d = true -> d <> c /\ is_subscribed p d = true.
Proof.
  unfold unsubscribe_all, is_subscribed. cbn [ps_conns]. destruct (Z_dec d c) as [->|N].
  - rewrite clookup_cremove_eq. discriminate.
  - rewrite clookup_cremove_neq by exact N. auto.
Qed.

Lemma has_conn_set_pubsub s p d : has_conn (set_pubsub s p) d = has_conn s d.
Proof. reflexivity. Qed.
Lemma has_conn_del_conn s c d : has_conn (del_conn s c) d = if d =? c then false else has_conn s d.
Proof.
  unfold has_conn, del_conn. cbn [s_conns]. destruct (Z.eqb_spec d c) as [->|N].
  - rewrite zlookup_zremove_same. reflexivity.
  - rewrite zlookup_zremove_other by exact N. reflexivity.
Qed.

Lemma SrvInv_del_conn s c : SrvInv s -> SrvInv (del_conn s c).
Proof.
  intros [I C]. split; [apply unsubscribe_all_inv; exact I|].
  intros d H. cbn [del_conn s_pubsub] in H. apply unsubscribe_all_entries in H. destruct H as [N H].
  rewrite has_conn_del_conn. destruct (Z.eqb_spec d c); [contradiction | auto].
Qed.
Lemma SrvInv_close_conn s c : SrvInv s -> SrvInv (close_conn s c).
Proof. apply SrvInv_del_conn. Qed.
Lemma SrvInv_connect s c : SrvInv s -> SrvInv (connect s c).
Proof. intros H. eapply SrvInv_keeps; [apply keeps_set_conn | exact H]. Qed.

(** ---- the pub/sub handlers ---- *)
Lemma h_publish_state s parts d r s' : h_publish s parts = (d, r, s') -> s' = s.
Proof.
  unfold h_publish. intros H.
  repeat (match type of H with context [match ?x with _ => _ end] => destruct x end);
    inversion H; reflexivity.
Qed.

Lemma SrvInv_h_sub chan s c parts d r s' :
  SrvInv s -> has_conn s c = true -> h_sub chan s c parts = (d, r, s') -> SrvInv s'.
Proof.
  intros [I C] Hc. unfold h_sub. destruct (len parts <? 2); [intros H; inversion H; subst; split; assumption|].
  destruct (all_bulk (tl parts)) as [names|]; [|intros H; inversion H; subst; split; assumption].
  destruct chan.
  - pose proof (subscribe_inv (s_pubsub s) c names I) as I'.
    pose proof (subscribe_entries (s_pubsub s) c names) as E.
    destruct (subscribe (s_pubsub s) c names) as [rs p']. cbn [snd] in *.
    intros H; inversion H; subst. split; [exact I'|].
    intros x Hx. cbn [set_pubsub s_pubsub] in Hx. rewrite has_conn_set_pubsub.
    destruct (E x Hx) as [->|Y]; auto.
  - pose proof (psubscribe_inv (s_pubsub s) c names I) as I'.
    pose proof (psubscribe_entries (s_pubsub s) c names) as E.
    destruct (psubscribe (s_pubsub s) c names) as [rs p']. cbn [snd] in *.
    intros H; inversion H; subst. split; [exact I'|].
    intros x Hx. cbn [set_pubsub s_pubsub] in Hx. rewrite has_conn_set_pubsub.
    destruct (E x Hx) as [->|Y]; auto.
Qed.

Lemma SrvInv_h_unsub chan s c parts d r s' :
  SrvInv s -> h_unsub chan s c parts = (d, r, s') -> SrvInv s'.
Proof.
  intros [I C]. unfold h_unsub.
  set (reqo := match tl parts with [] => Some None | l => option_map Some (all_bulk l) end).
  destruct reqo as [req|]; [|intros H; inversion H; subst; split; assumption].
  destruct chan.
  - pose proof (unsubscribe_inv (s_pubsub s) c req I) as I'.
    pose proof (unsubscribe_entries (s_pubsub s) c req) as E.
    destruct (unsubscribe (s_pubsub s) c req) as [rs p']. cbn [snd] in *.
    assert (G : SrvInv (set_pubsub s p')).
    { split; [exact I'|]. intros x Hx. cbn [set_pubsub s_pubsub] in Hx. rewrite has_conn_set_pubsub. auto. }
    destruct rs; intros H; inversion H; subst; exact G.
  - pose proof (punsubscribe_inv (s_pubsub s) c req I) as I'.
    pose proof (punsubscribe_entries (s_pubsub s) c req) as E.
    destruct (punsubscribe (s_pubsub s) c req) as [rs p']. cbn [snd] in *.
    assert (G : SrvInv (set_pubsub s p')).
    { split; [exact I'|]. intros x Hx. cbn [set_pubsub s_pubsub] in Hx. rewrite has_conn_set_pubsub. auto. }
    destruct rs; intros H; inversion H; subst; exact G.
Qed.

Lemma SrvInv_step now s c req oracle d r s' :
  SrvInv s -> process_frame_x now s c req oracle = (d, r, s') -> SrvInv s'.
Proof.
  intros HI. unfold process_frame_x.
  assert (Other : forall d r s', (match process_frame now s c req oracle with (r0, s0) => (@nil (Z * frame), r0, s0) end) = (d, r, s') -> SrvInv s').
  { intros d0 r0 s0 H. destruct (process_frame now s c req oracle) as [r1 s1] eqn:E. inversion H; subst.
    eapply SrvInv_keeps; [eapply process_frame_keeps; exact E | exact HI]. }
  destruct req; try apply Other.
  destruct l as [|first rest]; [apply Other|].
  destruct first; try apply Other.
  destruct (zlookup c (s_conns s)) as [cn|] eqn:L; [|apply Other].
  assert (Hc : has_conn s c = true) by (unfold has_conn; rewrite L; reflexivity).
  destruct ((match s_password s with Some _ => true | None => false end) && negb (c_auth cn)); [apply Other|].
  destruct (beq (upper (trim b)) (bs "PUBLISH")).
  { intros H. apply h_publish_state in H. subst. exact HI. }
  destruct (beq (upper (trim b)) (bs "SUBSCRIBE")); [intros H; eapply SrvInv_h_sub; eassumption|].
  destruct (beq (upper (trim b)) (bs "PSUBSCRIBE")); [intros H; eapply SrvInv_h_sub; eassumption|].
  destruct (beq (upper (trim b)) (bs "UNSUBSCRIBE")).
  { intros H. eapply SrvInv_h_unsub; eassumption. }
  destruct (beq (upper (trim b)) (bs "PUNSUBSCRIBE")).
  { intros H. eapply SrvInv_h_unsub; eassumption. }
  apply Other.
Qed.

(** ---- histories of requests ---- *)
(** events: a request of a connection, a new connection, a connection that closes (QUIT /
    protocol error / EOF: Closing) or is torn down (read or write failure) *)
Inductive sev := EReq (c : Z) (req : frame) | EConnect (c : Z) | EClose (c : Z) | EDrop (c : Z).

Definition sev_step (now : Z) (s : server) (e : sev) : list (Z * frame) * server :=
  match e with
  | EReq c req =>
      match process_frame_x now s c req None with
      | (direct, resp, s') => (direct ++ (match resp with FNoResponse => [] | r => [(c, r)] end), s')
      end
  | EConnect c => ([], connect s c)
  | EClose c => ([], close_conn s c)
  | EDrop c => ([], del_conn s c)
  end.
(** everything written to connection buffers along a history, in order *)
Fixpoint sev_run (now : Z) (s : server) (h : list sev) : list (Z * frame) * server :=
  match h with
  | [] => ([], s)
  | e :: r => match sev_step now s e with
              | (out, s') => match sev_run now s' r with (out2, s2) => (out ++ out2, s2) end
              end
  end.
Definition stream_of (d : Z) (out : list (Z * frame)) : list frame :=
  map snd (filter (fun e => fst e =? d) out).

Lemma SrvInv_sev now s e : SrvInv s -> SrvInv (snd (sev_step now s e)).
Proof.
  intros H. destruct e; cbn [sev_step].
  - destruct (process_frame_x now s c req None) as [[d r] s'] eqn:E. cbn [snd]. eapply SrvInv_step; eassumption.
  - apply SrvInv_connect; exact H.
  - apply SrvInv_close_conn; exact H.
  - apply SrvInv_del_conn; exact H.
Qed.
Lemma SrvInv_run now : forall h s, SrvInv s -> SrvInv (snd (sev_run now s h)).
Proof.
  induction h as [|e r IH]; intros s H; cbn [sev_run]; [exact H|].
  pose proof (SrvInv_sev now s e H) as H1. destruct (sev_step now s e) as [out s'].
  pose proof (IH s' H1) as H2. destruct (sev_run now s' r) as [out2 s2]. exact H2.
Qed.

(** streams only grow, in event order: what a connection receives from an earlier event precedes
    what it receives from a later one (single command thread, append-only write buffers) *)
Lemma sev_run_app now : forall h1 h2 s,
  sev_run now s (h1 ++ h2) =
  match sev_run now s h1 with
  | (o1, s1) => match sev_run now s1 h2 with (o2, s2) => (o1 ++ o2, s2) end
  end.
Proof.
  induction h1 as [|e r IH]; intros h2 s; cbn [app sev_run].
  - destruct (sev_run now s h2) as [o2 s2]. reflexivity.
  - destruct (sev_step now s e) as [out s']. rewrite IH.
    destruct (sev_run now s' r) as [o1 s1]. destruct (sev_run now s1 h2) as [o2 s2].
    rewrite app_assoc. reflexivity.
Qed.
Lemma stream_of_app d a b : stream_of d (a ++ b) = stream_of d a ++ stream_of d b.
Proof. unfold stream_of. rewrite filter_app, map_app. reflexivity. Qed.

Lemma filter_all_id {A} (f : A -> bool) l : (forall x, In x l -> f x = true) -> filter f l = l.
Proof.
  induction l as [|x l IH]; intros H; simpl; [reflexivity|].
  rewrite (H x) by (simpl; auto). f_equal. apply IH. intros y Hy. apply H. simpl; auto.
Qed.

(** ---- a PUBLISH step ---- *)
Definition open_conn (s : server) (c : Z) : Prop :=
  exists cn, zlookup c (s_conns s) = Some cn /\
             (match s_password s with Some _ => true | None => false end) && negb (c_auth cn) = false.
Definition publish_req (ch msg : bytes) : frame := FArray [FBulk (bs "PUBLISH"); FBulk ch; FBulk msg].

Lemma trim_upper_lit : upper (trim (bs "PUBLISH")) = bs "PUBLISH".
Proof. reflexivity. Qed.

Lemma publish_step now s c ch msg oracle :
  SrvInv s -> open_conn s c ->
  process_frame_x now s c (publish_req ch msg) oracle =
  (map (push_frame ch msg) (publish (s_pubsub s) ch), FInt (len (publish (s_pubsub s) ch)), s).
Proof.
  intros [I C] [cn [L G]]. unfold process_frame_x, publish_req. rewrite L, G, trim_upper_lit.
  cbn [beq]. change (beq (bs "PUBLISH") (bs "PUBLISH")) with true. cbn iota.
  unfold h_publish.
  assert (F : filter (fun r => has_conn s (fst r)) (publish (s_pubsub s) ch) = publish (s_pubsub s) ch).
  { apply filter_all_id. intros [x t] Hx. cbn [fst].
    apply C. apply (In_publish _ _ _ _ I) in Hx. apply is_subscribed_lookup.
    unfold is_matching, chan_subs, pat_subs, cinfo in Hx.
    destruct (clookup x (ps_conns (s_pubsub s))) as [i|]; [eauto|].
    destruct t; simpl in Hx; [destruct Hx as [[] _] | destruct Hx]. }
  rewrite F. reflexivity.
Qed.

(** what each connection receives from one PUBLISH: its matching subscriptions' frames
    (a permutation-insensitive statement is c14_delivery), the publisher also its reply *)
Lemma stream_of_map_push d ch msg (l : list receiver) :
  stream_of d (map (push_frame ch msg) l) =
  map (fun t => snd (push_frame ch msg (d, t))) (deliveries_to d l).
Proof.
  unfold stream_of, deliveries_to. induction l as [|[x t] l IH]; simpl; [reflexivity|].
  destruct (Z.eqb_spec x d) as [->|N]; simpl; [f_equal|]; exact IH.
Qed.

Lemma publish_event_stream now s c ch msg d :
  SrvInv s -> open_conn s c ->
  stream_of d (fst (sev_step now s (EReq c (publish_req ch msg)))) =
  map (fun t => snd (push_frame ch msg (d, t))) (deliveries_to d (publish (s_pubsub s) ch))
  ++ (if c =? d then [FInt (len (publish (s_pubsub s) ch))] else []) /\
  snd (sev_step now s (EReq c (publish_req ch msg))) = s.
Proof.
  intros HI HO. cbn [sev_step]. rewrite (publish_step now s c ch msg None HI HO). cbn [fst snd].
  split; [|reflexivity]. rewrite stream_of_app, stream_of_map_push. f_equal.
  unfold stream_of. simpl. destruct (c =? d); reflexivity.
Qed.

(** requests other than PUBLISH write to nobody but the issuer; connection events write nothing *)
Definition req_command (req : frame) : bytes :=
  match req with FArray (FBulk nm :: _) => upper (trim nm) | _ => [] end.

Lemma direct_to_issuer_sub chan s c parts d r s' x :
  h_sub chan s c parts = (d, r, s') -> In x d -> fst x = c.
Proof.
  unfold h_sub. destruct (len parts <? 2); [intros H; inversion H; subst; contradiction|].
  destruct (all_bulk (tl parts)); [|intros H; inversion H; subst; contradiction].
  destruct chan.
  - destruct (subscribe (s_pubsub s) c l) as [rs p']. intros H; inversion H; subst.
    intros X. apply in_map_iff in X. destruct X as [y [<- _]]. reflexivity.
  - destruct (psubscribe (s_pubsub s) c l) as [rs p']. intros H; inversion H; subst.
    intros X. apply in_map_iff in X. destruct X as [y [<- _]]. reflexivity.
Qed.
Lemma direct_to_issuer_unsub chan s c parts d r s' x :
  h_unsub chan s c parts = (d, r, s') -> In x d -> fst x = c.
Proof.
  unfold h_unsub.
  set (reqo := match tl parts with [] => Some None | l => option_map Some (all_bulk l) end).
  destruct reqo as [req|]; [|intros H; inversion H; subst; contradiction].
  assert (G : forall (rs : list subres) p' kind,
    (match rs with
     | [] => (match req with
              | Some l => map (fun n => (c, ack_frame kind n (sub_total p' c))) l
              | None => [(c, ack_nil_frame kind (sub_total p' c))]
              end, FNoResponse, set_pubsub s p')
     | _ :: _ => (map (fun r0 => (c, ack_frame kind (r_name r0) (r_count r0))) rs, FNoResponse, set_pubsub s p')
     end) = (d, r, s') -> In x d -> fst x = c).
  { intros rs p' kind H X. destruct rs.
    - inversion H; subst. destruct req.
      + apply in_map_iff in X. destruct X as [y [<- _]]. reflexivity.
      + destruct X as [<-|[]]. reflexivity.
    - inversion H; subst. simpl in X. destruct X as [<-|X]; [reflexivity|]. apply in_map_iff in X. destruct X as [y [<- _]]. reflexivity. }
  destruct chan.
  - destruct (unsubscribe (s_pubsub s) c req) as [rs p']. apply G.
  - destruct (punsubscribe (s_pubsub s) c req) as [rs p']. apply G.
Qed.

Lemma stream_to_issuer d c (l : list (Z * frame)) :
  d <> c -> (forall x, In x l -> fst x = c) -> stream_of d l = [].
Proof.
  intros N A. unfold stream_of. induction l as [|x l IH]; simpl; [reflexivity|].
  destruct (Z.eqb_spec (fst x) d) as [E|E].
  - exfalso. apply N. rewrite <- E. apply A. simpl; auto.
  - apply IH. intros y Hy. apply A. simpl; auto.
Qed.

Lemma nonpublish_silent now s c req oracle dct r s' d :
  process_frame_x now s c req oracle = (dct, r, s') ->
  beq (req_command req) (bs "PUBLISH") = false -> d <> c -> stream_of d dct = [].
Proof.
  unfold process_frame_x, req_command.
  assert (Other : forall dct r s', (match process_frame now s c req oracle with (r0, s0) => (@nil (Z * frame), r0, s0) end) = (dct, r, s') -> stream_of d dct = []).
  { intros d0 r0 s0 H. destruct (process_frame now s c req oracle). inversion H; subst. reflexivity. }
  destruct req; try (intros H _ _; eapply Other; exact H).
  destruct l as [|first rest]; [intros H _ _; eapply Other; exact H|].
  destruct first; try (intros H _ _; eapply Other; exact H).
  destruct (zlookup c (s_conns s)) as [cn|]; [|intros H _ _; eapply Other; exact H].
  destruct ((match s_password s with Some _ => true | None => false end) && negb (c_auth cn));
    [intros H _ _; eapply Other; exact H|].
  intros H NP N. rewrite NP in H.
  pose proof (stream_to_issuer d c dct N) as ToC.
  destruct (beq (upper (trim b)) (bs "SUBSCRIBE")); [apply ToC; intros x; eapply direct_to_issuer_sub; exact H|].
  destruct (beq (upper (trim b)) (bs "PSUBSCRIBE")); [apply ToC; intros x; eapply direct_to_issuer_sub; exact H|].
  destruct (beq (upper (trim b)) (bs "UNSUBSCRIBE")).
  { apply ToC; intros x; eapply direct_to_issuer_unsub; exact H. }
  destruct (beq (upper (trim b)) (bs "PUNSUBSCRIBE")).
  { apply ToC; intros x; eapply direct_to_issuer_unsub; exact H. }
  eapply Other; exact H.
Qed.

(** ---- bytes on the wire ---- *)
Lemma push_frame_sendable ch msg (r : receiver) :
  len ch <= i64_max -> len msg <= i64_max -> (match snd r with Some p => len p <= i64_max | None => True end) ->
  sendable (snd (push_frame ch msg r)) /\ sanitize (snd (push_frame ch msg r)) = snd (push_frame ch msg r).
Proof.
  intros H1 H2 H3. apply Z.leb_le in H1, H2. destruct r as [x [p|]]; cbn [snd fst push_frame] in *.
  - apply Z.leb_le in H3. split; [|reflexivity]. unfold sendable, pmsg_frame. cbn. rewrite H1, H2, H3. reflexivity.
  - split; [|reflexivity]. unfold sendable, msg_frame. cbn. rewrite H1, H2. reflexivity.
Qed.

(** the subscriber decodes exactly the frames that were pushed: channel, pattern and payload
    bytes arrive intact whatever they contain (CR LF, RESP type bytes, NUL, 0xff ...) *)
Lemma pushed_frames_intact ch msg (l : list receiver) :
  len ch <= i64_max -> len msg <= i64_max ->
  Forall (fun r => match snd r with Some p => len p <= i64_max | None => True end) l ->
  decode_out (write_replies (map (fun r => snd (push_frame ch msg r)) l)) =
  (map (fun r => snd (push_frame ch msg r)) l, NeedMore).
Proof.
  intros H1 H2 F. rewrite decode_replies.
  - f_equal. rewrite map_map. apply map_ext_in. intros r Hr.
    rewrite Forall_forall in F. apply (push_frame_sendable ch msg r H1 H2 (F r Hr)).
  - apply Forall_forall. intros f Hf. apply in_map_iff in Hf. destruct Hf as [r [<- Hr]].
    rewrite Forall_forall in F. apply (push_frame_sendable ch msg r H1 H2 (F r Hr)).
Qed.

(** ---- acknowledgements at the server level ---- *)
Lemma sub_step_acks chan s c parts names :
  2 <= len parts -> all_bulk (tl parts) = Some names ->
  h_sub chan s c parts =
  (let kind := if chan then bs "subscribe" else bs "psubscribe" in
   let res := if chan then subscribe (s_pubsub s) c names else psubscribe (s_pubsub s) c names in
   (map (fun r => (c, ack_frame kind (r_name r) (r_count r))) (fst res), FNoResponse, set_pubsub s (snd res))).
Proof.
  intros L A. unfold h_sub. destruct (Z.ltb_spec (len parts) 2); [lia|]. rewrite A.
  destruct chan; [destruct (subscribe (s_pubsub s) c names) | destruct (psubscribe (s_pubsub s) c names)]; reflexivity.
Qed.

(** after 68e2e20 UNSUBSCRIBE / PUNSUBSCRIBE always confirm: one frame per named channel, or -
    when none is named - one per channel the connection had, and a single nil confirmation when it
    had none *)
Lemma unsub_step_always_acks chan s c parts d r s' :
  all_bulk (tl parts) <> None -> h_unsub chan s c parts = (d, r, s') ->
  r = FNoResponse /\ d <> [] \/ (exists l, tl parts = l /\ all_bulk l = Some [] /\ l <> []).
Proof.
  intros A. unfold h_unsub. destruct (tl parts) as [|f l] eqn:T.
  - (* no name *)
    destruct chan.
    + destruct (unsubscribe (s_pubsub s) c None) as [rs p']. destruct rs; intros H; inversion H; subst; left; split; auto; discriminate.
    + destruct (punsubscribe (s_pubsub s) c None) as [rs p']. destruct rs; intros H; inversion H; subst; left; split; auto; discriminate.
  - destruct (all_bulk (f :: l)) as [names|] eqn:E; [|contradiction]. cbn [option_map].
    assert (N : names <> []).
    { destruct f; simpl in E; try discriminate. destruct (all_bulk l); inversion E. discriminate. }
    destruct chan.
    + destruct (unsubscribe (s_pubsub s) c (Some names)) as [rs p']. destruct rs; intros H; inversion H; subst; left; split; auto.
      * destruct names; [contradiction | discriminate].
      * discriminate.
    + destruct (punsubscribe (s_pubsub s) c (Some names)) as [rs p']. destruct rs; intros H; inversion H; subst; left; split; auto.
      * destruct names; [contradiction | discriminate].
      * discriminate.
Qed.

(** ---- nothing after a connection is gone ---- *)
Definition unsubscribed (p : pubsub) (c : Z) : Prop := chan_subs p c = [] /\ pat_subs p c = [].

Lemma unsubscribed_no_delivery p ch c : Inv p -> unsubscribed p c -> ~ In c (map fst (publish p ch)).
Proof.
  intros I [A B] H. apply in_map_iff in H. destruct H as [[x t] [E H]]. simpl in E. subst x.
  apply (In_publish _ _ _ _ I) in H. unfold is_matching in H. rewrite A, B in H.
  destruct t; simpl in H; tauto.
Qed.

Lemma unsubscribed_after_all p c : unsubscribed (unsubscribe_all p c) c.
Proof.
  destruct (unsubscribe_all_subs p c c) as [A B]. rewrite Z.eqb_refl in A, B. split; assumption.
Qed.

Lemma nil_iff_noin {A} (l : list A) : l = [] <-> forall x, ~ In x l.
Proof. split; [intros -> x []|]. destruct l; [reflexivity|]. intros H. exfalso. apply (H a). simpl; auto. Qed.

(** operations of other connections do not give c subscriptions *)
Lemma unsubscribed_other_sub p c c' names : c' <> c -> unsubscribed p c ->
  unsubscribed (snd (subscribe p c' names)) c /\ unsubscribed (snd (psubscribe p c' names)) c.
Proof.
  intros N [A B]. split; split.
  - apply nil_iff_noin. intros n H. apply (proj1 (subscribe_subs p c' names c)) in H. rewrite A in H.
    destruct H as [[]|[E _]]. congruence.
  - rewrite (proj2 (subscribe_subs p c' names c)). exact B.
  - rewrite (proj2 (psubscribe_subs p c' names c)). exact A.
  - apply nil_iff_noin. intros n H. apply (proj1 (psubscribe_subs p c' names c)) in H. rewrite B in H.
    destruct H as [[]|[E _]]. congruence.
Qed.
Lemma unsubscribed_unsub p c c' names : unsubscribed p c ->
  unsubscribed (snd (unsubscribe p c' names)) c /\ unsubscribed (snd (punsubscribe p c' names)) c.
Proof.
  intros [A B]. split; split.
  - apply nil_iff_noin. intros n H. apply (proj1 (unsubscribe_subs p c' names c)) in H. rewrite A in H. destruct H as [[] _].
  - rewrite (proj2 (unsubscribe_subs p c' names c)). exact B.
  - rewrite (proj2 (punsubscribe_subs p c' names c)). exact A.
  - apply nil_iff_noin. intros n H. apply (proj1 (punsubscribe_subs p c' names c)) in H. rewrite B in H. destruct H as [[] _].
Qed.
Lemma unsubscribed_unsub_all p c c' : unsubscribed p c -> unsubscribed (unsubscribe_all p c') c.
Proof.
  intros [A B]. destruct (unsubscribe_all_subs p c' c) as [X Y]. split.
  - rewrite X. destruct (c =? c'); auto.
  - rewrite Y. destruct (c =? c'); auto.
Qed.

Lemma h_sub_unsubscribed chan s c' parts d r s' c :
  c' <> c -> unsubscribed (s_pubsub s) c -> h_sub chan s c' parts = (d, r, s') -> unsubscribed (s_pubsub s') c.
Proof.
  intros N U. unfold h_sub. destruct (len parts <? 2); [intros H; inversion H; subst; exact U|].
  destruct (all_bulk (tl parts)) as [names|]; [|intros H; inversion H; subst; exact U].
  destruct (unsubscribed_other_sub (s_pubsub s) c c' names N U) as [A B].
  destruct chan.
  - destruct (subscribe (s_pubsub s) c' names) as [rs p']. intros H; inversion H; subst. exact A.
  - destruct (psubscribe (s_pubsub s) c' names) as [rs p']. intros H; inversion H; subst. exact B.
Qed.
Lemma h_unsub_unsubscribed chan s c' parts d r s' c :
  unsubscribed (s_pubsub s) c -> h_unsub chan s c' parts = (d, r, s') -> unsubscribed (s_pubsub s') c.
Proof.
  intros U. unfold h_unsub.
  set (reqo := match tl parts with [] => Some None | l => option_map Some (all_bulk l) end).
  destruct reqo as [req|]; [|intros H; inversion H; subst; exact U].
  destruct (unsubscribed_unsub (s_pubsub s) c c' req U) as [A B].
  destruct chan.
  - destruct (unsubscribe (s_pubsub s) c' req) as [rs p']. destruct rs; intros H; inversion H; subst; exact A.
  - destruct (punsubscribe (s_pubsub s) c' req) as [rs p']. destruct rs; intros H; inversion H; subst; exact B.
Qed.

Lemma h_publish_direct s parts d r s' x :
  h_publish s parts = (d, r, s') -> In x d ->
  exists ch, In (fst x) (map fst (publish (s_pubsub s) ch)).
Proof.
  unfold h_publish. intros H.
  repeat (match type of H with context [match ?y with _ => _ end] => destruct y end);
    inversion H; subst; try contradiction.
  intros X. apply in_map_iff in X. destruct X as [rcv [<- X]]. apply filter_In in X. destruct X as [X _].
  exists b. apply in_map_iff. exists rcv. split; [destruct rcv; reflexivity | exact X].
Qed.

(** a request of another connection neither subscribes c nor writes to it *)
Lemma step_unsubscribed now s c' req oracle d r s' c :
  c' <> c -> SrvInv s -> unsubscribed (s_pubsub s) c ->
  process_frame_x now s c' req oracle = (d, r, s') ->
  unsubscribed (s_pubsub s') c /\ stream_of c d = [].
Proof.
  intros N HI U. unfold process_frame_x.
  assert (Other : forall d r s', (match process_frame now s c' req oracle with (r0, s0) => (@nil (Z * frame), r0, s0) end) = (d, r, s') ->
                  unsubscribed (s_pubsub s') c /\ stream_of c d = []).
  { intros d0 r0 s0 H. destruct (process_frame now s c' req oracle) as [r1 s1] eqn:E. inversion H; subst.
    destruct (process_frame_keeps _ _ _ _ _ _ _ E) as [K _]. rewrite K. auto. }
  destruct req; try apply Other.
  destruct l as [|first rest]; [apply Other|].
  destruct first; try apply Other.
  destruct (zlookup c' (s_conns s)) as [cn|]; [|apply Other].
  destruct ((match s_password s with Some _ => true | None => false end) && negb (c_auth cn)); [apply Other|].
  assert (N' : c <> c') by congruence.
  destruct (beq (upper (trim b)) (bs "PUBLISH")).
  { intros H. pose proof (h_publish_state _ _ _ _ _ H) as ->. split; [exact U|].
    unfold stream_of. destruct (filter (fun e => fst e =? c) d) as [|x l] eqn:F; [reflexivity|].
    exfalso. assert (X : In x (filter (fun e => fst e =? c) d)) by (rewrite F; simpl; auto).
    apply filter_In in X. destruct X as [X E]. apply Z.eqb_eq in E.
    destruct (h_publish_direct _ _ _ _ _ _ H X) as [ch Y]. rewrite E in Y.
    exact (unsubscribed_no_delivery _ ch c (proj1 HI) U Y). }
  destruct (beq (upper (trim b)) (bs "SUBSCRIBE")).
  { intros H. split; [eapply h_sub_unsubscribed; eassumption|].
    apply (stream_to_issuer c c' d N'). intros x. eapply direct_to_issuer_sub; exact H. }
  destruct (beq (upper (trim b)) (bs "PSUBSCRIBE")).
  { intros H. split; [eapply h_sub_unsubscribed; eassumption|].
    apply (stream_to_issuer c c' d N'). intros x. eapply direct_to_issuer_sub; exact H. }
  destruct (beq (upper (trim b)) (bs "UNSUBSCRIBE")).
  { intros H. split; [eapply h_unsub_unsubscribed; eassumption|].
    apply (stream_to_issuer c c' d N'). intros x. eapply direct_to_issuer_unsub; exact H. }
  destruct (beq (upper (trim b)) (bs "PUNSUBSCRIBE")).
  { intros H. split; [eapply h_unsub_unsubscribed; eassumption|].
    apply (stream_to_issuer c c' d N'). intros x. eapply direct_to_issuer_unsub; exact H. }
  apply Other.
Qed.

Definition not_by (c : Z) (e : sev) : Prop :=
  match e with EReq c' _ | EConnect c' => c' <> c | _ => True end.

Lemma unsubscribed_close s c c' : unsubscribed (s_pubsub s) c -> unsubscribed (s_pubsub (close_conn s c')) c.
Proof. intros U. cbn [close_conn del_conn s_pubsub]. apply unsubscribed_unsub_all. exact U. Qed.

(** once a connection is gone (torn down, or closed without subscriptions) nothing is written to
    it, whatever the other connections do, until the id connects again *)
Lemma after_gone_nothing now c : forall h s,
  SrvInv s -> unsubscribed (s_pubsub s) c -> Forall (not_by c) h ->
  stream_of c (fst (sev_run now s h)) = [].
Proof.
  induction h as [|e r IH]; intros s HI U F; cbn [sev_run]; [reflexivity|].
  inversion F as [|? ? Fe Fr]; subst.
  pose proof (SrvInv_sev now s e HI) as HI'.
  assert (G : unsubscribed (s_pubsub (snd (sev_step now s e))) c /\ stream_of c (fst (sev_step now s e)) = []).
  { destruct e; cbn [sev_step not_by] in *.
    - destruct (process_frame_x now s c0 req None) as [[d0 r0] s0] eqn:E. cbn [fst snd].
      destruct (step_unsubscribed now s c0 req None d0 r0 s0 c Fe HI U E) as [A B]. split; [exact A|].
      rewrite stream_of_app, B. destruct r0; simpl; unfold stream_of; simpl;
        try (destruct (Z.eqb_spec c0 c); [contradiction | reflexivity]); reflexivity.
    - split; [exact U | reflexivity].
    - split; [apply unsubscribed_close; exact U | reflexivity].
    - split; [cbn [del_conn s_pubsub]; apply unsubscribed_unsub_all; exact U | reflexivity]. }
  destruct (sev_step now s e) as [out s1]. cbn [fst snd] in *. destruct G as [U1 O1].
  specialize (IH s1 HI' U1 Fr). destruct (sev_run now s1 r) as [out2 s2]. cbn [fst] in *.
  rewrite stream_of_app, O1, IH. reflexivity.
Qed.

Lemma after_drop_nothing now s c h :
  SrvInv s -> Forall (not_by c) h -> stream_of c (fst (sev_run now (del_conn s c) h)) = [].
Proof.
  intros HI F. apply after_gone_nothing; [apply SrvInv_del_conn; exact HI | | exact F].
  cbn [del_conn s_pubsub]. apply unsubscribed_after_all.
Qed.

(** any disconnect - the client closes its socket, QUIT, a protocol error (Closing: EClose) or a
    torn-down connection (EDrop) - ends all deliveries to that connection *)
Definition disconnects (c : Z) (e : sev) : Prop := e = EClose c \/ e = EDrop c.
Lemma after_disconnect_nothing now s c e h :
  SrvInv s -> disconnects c e -> Forall (not_by c) h -> stream_of c (fst (sev_run now s (e :: h))) = [].
Proof.
  intros HI D F. cbn [sev_run].
  assert (E : sev_step now s e = ([], del_conn s c)) by (destruct D as [->| ->]; reflexivity).
  rewrite E. pose proof (after_drop_nothing now s c h HI F) as X.
  destruct (sev_run now (del_conn s c) h) as [o2 s2]. exact X.
Qed.

(** ---- coherence with the single-reply model (C05, C07, C17 ... are stated on process_frame /
    serve_frames): for requests that are not pub/sub commands nothing changes ---- *)
Definition no_pubsub (req : frame) : bool :=
  let n := req_command req in
  negb (beq n (bs "PUBLISH") || beq n (bs "SUBSCRIBE") || beq n (bs "PSUBSCRIBE")
        || beq n (bs "UNSUBSCRIBE") || beq n (bs "PUNSUBSCRIBE")).

Lemma process_frame_x_plain now s c req oracle :
  no_pubsub req = true ->
  process_frame_x now s c req oracle =
  ([], fst (process_frame now s c req oracle), snd (process_frame now s c req oracle)).
Proof.
  intros H. unfold process_frame_x.
  assert (O : (match process_frame now s c req oracle with (r, s') => (@nil (Z * frame), r, s') end) =
              ([], fst (process_frame now s c req oracle), snd (process_frame now s c req oracle)))
    by (destruct (process_frame now s c req oracle); reflexivity).
  destruct req; try exact O. destruct l as [|first rest]; [exact O|]. destruct first; try exact O.
  destruct (zlookup c (s_conns s)); [|exact O].
  destruct ((match s_password s with Some _ => true | None => false end) && negb (c_auth c0)); [exact O|].
  unfold no_pubsub, req_command in H. apply negb_true_iff in H.
  repeat (apply orb_false_iff in H; destruct H as [H ?]).
  rewrite H, H3, H2, H1, H0. exact O.
Qed.

Lemma drop_noresp_app a b : drop_noresp (a ++ b) = drop_noresp a ++ drop_noresp b.
Proof. unfold drop_noresp. apply filter_app. Qed.
Lemma drop_noresp_idem a : drop_noresp (drop_noresp a) = drop_noresp a.
Proof.
  unfold drop_noresp. induction a as [|f a IH]; simpl; [reflexivity|].
  destruct f; simpl; rewrite ?IH; reflexivity.
Qed.

Lemma serve_frames_x_plain now c : forall fs s written held pushes quit,
  forallb no_pubsub fs = true ->
  match serve_frames_x now s c fs written held pushes quit, serve_frames now s c fs [] quit with
  | (w', h', p', s1, q1), (reps, s2, q2) =>
      drop_noresp (w' ++ h') = drop_noresp (written ++ held ++ reps) /\ p' = pushes /\ s1 = s2 /\ q1 = q2
  end.
Proof.
  induction fs as [|f r IH]; intros s written held pushes quit H; cbn [serve_frames_x serve_frames].
  - rewrite app_nil_r. auto.
  - cbn [forallb] in H. apply andb_prop in H. destruct H as [Hf Hr].
    rewrite (process_frame_x_plain now s c f None Hf).
    destruct (process_frame now s c f None) as [rep s'] eqn:E. cbn [fst snd].
    cbn [filter map other_frames]. rewrite !app_nil_r.
    rewrite (serve_frames_acc now c r s' [rep]).
    set (flush := is_sub_cmd (loop_command f) && negb (match held with [] => true | _ :: _ => false end)).
    specialize (IH s' (if flush then written ++ drop_noresp held else written)
                   ((if flush then [] else held) ++ [rep]) pushes (quit || is_quit f) Hr).
    destruct (serve_frames_x now s' c r _ _ pushes (quit || is_quit f)) as [[[[w' h'] p'] s1] q1].
    destruct (serve_frames now s' c r [] (quit || is_quit f)) as [[reps s2] q2].
    destruct IH as [A [B [C D]]]. split; [|auto].
    rewrite A. cbn [rev app]. destruct flush.
    + cbn [app]. change (rep :: reps) with ([rep] ++ reps). rewrite !drop_noresp_app, drop_noresp_idem, <- !app_assoc. reflexivity.
    + cbn [app]. rewrite <- !app_assoc. reflexivity.
Qed.
