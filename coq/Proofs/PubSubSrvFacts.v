(** Pub/sub at the server level (Model/Server.v process_frame_x, h_publish, h_sub, h_unsub,
    close_conn / del_conn): the manager invariant and "subscribers are connections" hold along
    every history; what a PUBLISH step writes; per-subscriber order; acknowledgements;
    nothing after disconnect. *)
From Coq Require Import Sorting.Permutation.
From Ferrous Require Import Base.Bytes Generated Model.Resp Model.Types Model.Strings Model.PubSub
  Model.Server Model.Conn Proofs.BytesFacts Proofs.RespFacts Proofs.ServerFacts Proofs.ConnFacts
  Proofs.PsGlobFacts Proofs.PubSubFacts.
Open Scope Z_scope.

(** ---- the rest of the server neither touches the manager nor drops a connection ---- *)
Definition keeps (s s' : server) : Prop :=
  s_pubsub s' = s_pubsub s /\ forall d, has_conn s d = true -> has_conn s' d = true.
Lemma keeps_refl s : keeps s s.
Proof. split; auto. Qed.
Lemma keeps_trans s1 s2 s3 : keeps s1 s2 -> keeps s2 s3 -> keeps s1 s3.
Proof. intros [A B] [C D]. split; [congruence | auto]. Qed.
Lemma has_conn_set_conn s c cn d : has_conn (set_conn s c cn) d = if d =? c then true else has_conn s d.
Proof.
  unfold has_conn, set_conn. cbn [s_conns]. destruct (Z.eqb_spec d c) as [->|N].
  - rewrite zlookup_zset_same. reflexivity.
  - rewrite zlookup_zset_other by exact N. reflexivity.
Qed.
Lemma keeps_set_conn s c cn : keeps s (set_conn s c cn).
Proof. split; [reflexivity|]. intros d H. rewrite has_conn_set_conn. destruct (d =? c); auto. Qed.
Lemma keeps_set_db s i d : keeps s (set_db s i d).
Proof. split; auto. Qed.
Lemma keeps_set_trk s i t : keeps s (set_trk s i t).
Proof. split; auto. Qed.
Lemma keeps_log_aof s p : keeps s (log_aof s p).
Proof. split; auto. Qed.
Lemma keeps_log_aof_in s dbi p : keeps s (log_aof_in s dbi p).
Proof. unfold log_aof_in. destruct (same_db _ _); split; auto. Qed.

Ltac kdone H := inversion H; subst; first [apply keeps_refl | assumption].

Lemma h_auth_keeps s c parts r s' : h_auth s c parts = (r, s') -> keeps s s'.
Proof.
  unfold h_auth. intros H.
  destruct parts as [|a [|b [|? ?]]]; try kdone H; try (destruct b; kdone H).
  destruct b; try kdone H.
  destruct (s_password s); [|kdone H].
  destruct (beq b b0); [|kdone H].
  destruct (zlookup c (s_conns s)); inversion H; subst; [apply keeps_set_conn | apply keeps_refl].
Qed.

Lemma dispatch_command_keeps now s c dbi parts oracle r s' :
  dispatch_command now s c dbi parts oracle = (r, s') -> keeps s s'.
Proof.
  unfold dispatch_command. intros H.
  destruct parts as [|first rest]; [kdone H|].
  destruct first; try kdone H.
  set (s0 := if logs_before (upper b) (FBulk b :: rest) then log_aof_in s dbi (FBulk b :: rest) else s) in *.
  assert (K0 : keeps s s0) by (unfold s0; destruct (logs_before (upper b) (FBulk b :: rest)); [apply keeps_log_aof_in | apply keeps_refl]).
  apply (keeps_trans _ _ _ K0). clear K0.
  destruct (beq (upper b) (bs "PING")); [kdone H|].
  destruct (beq (upper b) (bs "ECHO")); [kdone H|].
  destruct (beq (upper b) (bs "SELECT")).
  { destruct rest as [|a [|? ?]]; try kdone H; try (destruct a; kdone H).
    destruct a; try kdone H.
    destruct (parse_usize b0); [|kdone H].
    destruct (16 <=? z); [kdone H|].
    destruct (zlookup c (s_conns s0)); inversion H; subst; [apply keeps_set_conn | apply keeps_refl]. }
  destruct (beq (upper b) (bs "FLUSHALL")).
  { destruct (negb (len (FBulk b :: rest) =? 1)); inversion H; subst; [apply keeps_refl|]. split; auto. }
  destruct (beq (upper b) (bs "RANDOMKEY")); [kdone H|].
  destruct (beq (upper b) (bs "AUTH")); [eapply h_auth_keeps; exact H|].
  destruct (beq (upper b) (bs "QUIT")); [kdone H|].
  destruct (beq (upper b) (bs "VERIF")); [kdone H|].
  destruct (exec_db now (get_db s0 dbi) (upper b) (FBulk b :: rest) oracle) as [[r0 d']|];
    inversion H; subst; [|apply keeps_refl].
  eapply keeps_trans; [apply keeps_set_db | apply keeps_set_trk].
Qed.
Lemma lazy_expire_keeps now s dbi name parts : keeps s (lazy_expire now s dbi name parts).
Proof.
  unfold lazy_expire. destruct lazy_expiry_before_dispatch; [|apply keeps_refl].
  destruct (expire_before now (get_db s dbi) name parts) as [d1 removed].
  eapply keeps_trans; [apply keeps_set_db | apply keeps_set_trk].
Qed.
Lemma normal_command_keeps now s c dbi parts oracle r s' :
  normal_command now s c dbi parts oracle = (r, s') -> keeps s s'.
Proof.
  unfold normal_command. intros H.
  destruct parts as [|first rest]; [kdone H|].
  destruct first; try kdone H.
  eapply keeps_trans; [apply lazy_expire_keeps | eapply dispatch_command_keeps; exact H].
Qed.

Lemma exec_queue_keeps now c : forall q s dbi acc reps s',
  exec_queue now s c dbi q acc = (reps, s') -> keeps s s'.
Proof.
  induction q as [|parts q IH]; intros s dbi acc reps s' H; cbn [exec_queue] in H; [kdone H|].
  destruct (beq (queued_name parts) (bs "SELECT")).
  - destruct (normal_command now s c dbi parts None) as [rep s1] eqn:E.
    eapply keeps_trans; [eapply normal_command_keeps; exact E | eapply IH; exact H].
  - destruct (normal_command now s 0 dbi parts None) as [rep s1] eqn:E.
    eapply keeps_trans; [eapply normal_command_keeps; exact E | eapply IH; exact H].
Qed.

Lemma unwatch_all_keeps w : forall s, keeps s (unwatch_all s w).
Proof.
  unfold unwatch_all. induction w as [|kb w IH]; intros s; cbn [fold_left]; [apply keeps_refl|].
  eapply keeps_trans; [apply keeps_set_trk | apply IH].
Qed.

Lemma process_frame_keeps now s c req oracle r s' :
  process_frame now s c req oracle = (r, s') -> keeps s s'.
Proof.
  unfold process_frame. intros H.
  destruct req; try kdone H.
  destruct l as [|first rest]; [kdone H|].
  destruct first; try kdone H.
  destruct (zlookup c (s_conns s)) as [cn|]; [|kdone H].
  destruct ((match s_password s with Some _ => true | None => false end) && negb (c_auth cn)).
  { destruct (beq (upper (trim b)) (bs "AUTH")); [eapply h_auth_keeps; exact H|].
    destruct (beq (upper (trim b)) (bs "PING")); [kdone H|].
    destruct (beq (upper (trim b)) (bs "QUIT")); kdone H. }
  destruct (c_intx cn && negb (mem_name (upper (trim b)) tx_not_queued)).
  { inversion H; subst. apply keeps_set_conn. }
  destruct (beq (upper (trim b)) (bs "MULTI")).
  { destruct (c_intx cn); inversion H; subst; [apply keeps_refl | apply keeps_set_conn]. }
  destruct (beq (upper (trim b)) (bs "EXEC")).
  { unfold h_exec in H. destruct (negb (c_intx cn)); [kdone H|].
    destruct (watch_violated now s cn); [inversion H; subst; apply keeps_set_conn|].
    destruct (exec_queue now (set_conn s c (clear_tx cn)) c (c_db cn) (c_queue cn) []) as [reps s2] eqn:E.
    inversion H; subst. eapply keeps_trans; [apply keeps_set_conn | eapply exec_queue_keeps; exact E]. }
  destruct (beq (upper (trim b)) (bs "DISCARD")).
  { destruct (negb (c_intx cn)); inversion H; subst; [apply keeps_refl | apply keeps_set_conn]. }
  destruct (beq (upper (trim b)) (bs "WATCH")).
  { destruct (len (FBulk b :: rest) <? 2); [kdone H|]. destruct (c_intx cn); [kdone H|].
    destruct (watch_loop_partial now (c_db cn) (get_db s (c_db cn)) (get_trk s (c_db cn)) rest (c_watched cn)) as [[[d' t'] w'] okb].
    inversion H; subst. eapply keeps_trans; [eapply keeps_trans; [apply keeps_set_db | apply keeps_set_trk] | apply keeps_set_conn]. }
  destruct (beq (upper (trim b)) (bs "UNWATCH")).
  { inversion H; subst. eapply keeps_trans; [apply unwatch_all_keeps | apply keeps_set_conn]. }
  destruct (beq (upper (trim b)) (bs "AUTH")); [eapply h_auth_keeps; exact H|].
  eapply normal_command_keeps; exact H.
Qed.

(** ---- the server-level invariant ---- *)
Definition SrvInv (s : server) : Prop :=
  Inv (s_pubsub s) /\ forall c, is_subscribed (s_pubsub s) c = true -> has_conn s c = true.

Lemma SrvInv_init pw : SrvInv (init_server pw).
Proof. split; [exact Inv_init | intros c H; discriminate]. Qed.

Lemma SrvInv_keeps s s' : keeps s s' -> SrvInv s -> SrvInv s'.
Proof. intros [A B] [I C]. split; rewrite A; [exact I | auto]. Qed.

Lemma is_subscribed_lookup p c : is_subscribed p c = true <-> exists i, clookup c (ps_conns p) = Some i.
Proof.
  unfold is_subscribed. destruct (clookup c (ps_conns p)) as [i|]; split; intros H; eauto; try discriminate.
  destruct H as [i H]. discriminate.
Qed.

(** which connection entries an operation can create: only the issuer's *)
Lemma subscribe_entries p c names d :
  is_subscribed (snd (subscribe p c names)) d = true -> d = c \/ is_subscribed p d = true.
Proof.
  unfold subscribe. destruct (sub_loop c names _ _ (ps_ch p)) as [[rs mine] g]. cbn [snd].
  unfold is_subscribed. cbn [ps_conns]. destruct (Z_dec d c) as [->|N]; [auto|].
  rewrite clookup_cset_neq by exact N. auto.
Qed.
Lemma psubscribe_entries p c names d :
  is_subscribed (snd (psubscribe p c names)) d = true -> d = c \/ is_subscribed p d = true.
Proof.
  unfold psubscribe. destruct (sub_loop c names _ _ (ps_pat p)) as [[rs mine] g]. cbn [snd].
  unfold is_subscribed. cbn [ps_conns]. destruct (Z_dec d c) as [->|N]; [auto|].
  rewrite clookup_cset_neq by exact N. auto.
Qed.
Lemma unsubscribe_entries p c names d :
  is_subscribed (snd (unsubscribe p c names)) d = true -> is_subscribed p d = true.
Proof.
  unfold unsubscribe, is_subscribed. destruct (clookup c (ps_conns p)) as [info|] eqn:L; [|auto].
  destruct (unsub_loop c _ (si_ch info) _ (ps_ch p)) as [[rs mine] g]. cbn [snd ps_conns].
  destruct (Z_dec d c) as [->|N]; [rewrite L; auto|].
  destruct (is_nil mine && is_nil (si_pat info));
    [rewrite clookup_cremove_neq by exact N | rewrite clookup_cset_neq by exact N]; auto.
Qed.
Lemma punsubscribe_entries p c names d :
  is_subscribed (snd (punsubscribe p c names)) d = true -> is_subscribed p d = true.
Proof.
  unfold punsubscribe, is_subscribed. destruct (clookup c (ps_conns p)) as [info|] eqn:L; [|auto].
  destruct (unsub_loop c _ (si_pat info) _ (ps_pat p)) as [[rs mine] g]. cbn [snd ps_conns].
  destruct (Z_dec d c) as [->|N]; [rewrite L; auto|].
  destruct (is_nil (si_ch info) && is_nil mine);
    [rewrite clookup_cremove_neq by exact N | rewrite clookup_cset_neq by exact N]; auto.
Qed.
Lemma unsubscribe_all_entries p c d :
  is_subscribed (unsubscribe_all p c) d = true -> d <> c /\ is_subscribed p d = true.
Proof.
  unfold unsubscribe_all, is_subscribed. cbn [ps_conns]. destruct (Z_dec d c) as [->|N].
  - rewrite clookup_cremove_eq. discriminate.
  - rewrite clookup_cremove_neq by exact N. auto.
Qed.

Lemma has_conn_set_pubsub s p d : has_conn (set_pubsub s p) d = has_conn s d.
Proof. reflexivity. Qed.
Lemma has_conn_del_conn s c d : has_conn (del_conn s c) d = if d =? c then false else has_conn s d.
Proof.
  unfold has_conn, del_conn. cbn [s_conns]. destruct (Z.eqb_spec d c) as [->|N].
  - rewrite zlookup_zremove_same. reflexivity.
  - rewrite zlookup_zremove_other by exact N. reflexivity.
Qed.

Lemma SrvInv_del_conn s c : SrvInv s -> SrvInv (del_conn s c).
Proof.
  intros [I C]. split; [apply unsubscribe_all_inv; exact I|].
  intros d H. cbn [del_conn s_pubsub] in H. apply unsubscribe_all_entries in H. destruct H as [N H].
  rewrite has_conn_del_conn. destruct (Z.eqb_spec d c); [contradiction | auto].
Qed.
Lemma SrvInv_close_conn s c : SrvInv s -> SrvInv (close_conn s c).
Proof. apply SrvInv_del_conn. Qed.
Lemma SrvInv_connect s c : SrvInv s -> SrvInv (connect s c).
Proof. intros H. eapply SrvInv_keeps; [apply keeps_set_conn | exact H]. Qed.

(** ---- the pub/sub handlers ---- *)
Lemma h_publish_state s parts d r s' : h_publish s parts = (d, r, s') -> s' = s.
Proof.
  unfold h_publish. intros H.
  repeat (match type of H with context [match ?x with _ => _ end] => destruct x end);
    inversion H; reflexivity.
Qed.

Lemma SrvInv_h_sub chan s c parts d r s' :
  SrvInv s -> has_conn s c = true -> h_sub chan s c parts = (d, r, s') -> SrvInv s'.
Proof.
  intros [I C] Hc. unfold h_sub. destruct (len parts <? 2); [intros H; inversion H; subst; split; assumption|].
  destruct (all_bulk (tl parts)) as [names|]; [|intros H; inversion H; subst; split; assumption].
  destruct chan.
  - pose proof (subscribe_inv (s_pubsub s) c names I) as I'.
    pose proof (subscribe_entries (s_pubsub s) c names) as E.
    destruct (subscribe (s_pubsub s) c names) as [rs p']. cbn [snd] in *.
    intros H; inversion H; subst. split; [exact I'|].
    intros x Hx. cbn [set_pubsub s_pubsub] in Hx. rewrite has_conn_set_pubsub.
    destruct (E x Hx) as [->|Y]; auto.
  - pose proof (psubscribe_inv (s_pubsub s) c names I) as I'.
    pose proof (psubscribe_entries (s_pubsub s) c names) as E.
    destruct (psubscribe (s_pubsub s) c names) as [rs p']. cbn [snd] in *.
    intros H; inversion H; subst. split; [exact I'|].
    intros x Hx. cbn [set_pubsub s_pubsub] in Hx. rewrite has_conn_set_pubsub.
    destruct (E x Hx) as [->|Y]; auto.
Qed.

Lemma SrvInv_h_unsub chan s c parts d r s' :
  SrvInv s -> h_unsub chan s c parts = (d, r, s') -> SrvInv s'.
Proof.
  intros [I C]. unfold h_unsub.
  set (reqo := match tl parts with [] => Some None | l => option_map Some (all_bulk l) end).
  destruct reqo as [req|]; [|intros H; inversion H; subst; split; assumption].
  destruct chan.
  - pose proof (unsubscribe_inv (s_pubsub s) c req I) as I'.
    pose proof (unsubscribe_entries (s_pubsub s) c req) as E.
    destruct (unsubscribe (s_pubsub s) c req) as [rs p']. cbn [snd] in *.
    assert (G : SrvInv (set_pubsub s p')).
    { split; [exact I'|]. intros x Hx. cbn [set_pubsub s_pubsub] in Hx. rewrite has_conn_set_pubsub. auto. }
    destruct rs; intros H; inversion H; subst; exact G.
  - pose proof (punsubscribe_inv (s_pubsub s) c req I) as I'.
    pose proof (punsubscribe_entries (s_pubsub s) c req) as E.
    destruct (punsubscribe (s_pubsub s) c req) as [rs p']. cbn [snd] in *.
    assert (G : SrvInv (set_pubsub s p')).
    { split; [exact I'|]. intros x Hx. cbn [set_pubsub s_pubsub] in Hx. rewrite has_conn_set_pubsub. auto. }
    destruct rs; intros H; inversion H; subst; exact G.
Qed.

(** one queued command at EXEC *)
Lemma has_conn_h_sub chan s c parts d r s' x : h_sub chan s c parts = (d, r, s') -> has_conn s' x = has_conn s x.
Proof.
  unfold h_sub. destruct (len parts <? 2); [intros H; inversion H; subst; reflexivity|].
  destruct (all_bulk (tl parts)); [|intros H; inversion H; subst; reflexivity].
  destruct chan; [destruct (subscribe (s_pubsub s) c l) | destruct (psubscribe (s_pubsub s) c l)];
    intros H; inversion H; subst; reflexivity.
Qed.
Lemma has_conn_h_unsub chan s c parts d r s' x : h_unsub chan s c parts = (d, r, s') -> has_conn s' x = has_conn s x.
Proof.
  unfold h_unsub.
  set (reqo := match tl parts with [] => Some None | l => option_map Some (all_bulk l) end).
  destruct reqo as [req|]; [|intros H; inversion H; subst; reflexivity].
  destruct chan; [destruct (unsubscribe (s_pubsub s) c req) as [rs p'] | destruct (punsubscribe (s_pubsub s) c req) as [rs p']];
    destruct rs; intros H; inversion H; subst; reflexivity.
Qed.

Lemma SrvInv_exec_one now s c dbi parts d reps s' dbi' :
  SrvInv s -> has_conn s c = true -> exec_one_x now s c dbi parts = (d, reps, s', dbi') ->
  SrvInv s' /\ has_conn s' c = true.
Proof.
  intros HI Hc. unfold exec_one_x.
  assert (NC : forall cc rep s1, normal_command now s cc dbi parts None = (rep, s1) -> SrvInv s1 /\ has_conn s1 c = true).
  { intros cc rep s1 E. pose proof (normal_command_keeps _ _ _ _ _ _ _ _ E) as K.
    split; [eapply SrvInv_keeps; eassumption | apply (proj2 K); exact Hc]. }
  assert (SUB : forall res d reps s' dbi',
     (forall d0 r0 s0, res = (d0, r0, s0) -> SrvInv s0 /\ has_conn s0 c = true) ->
     (match res with
      | (direct, FNoResponse, s0) => (@nil (Z * frame), map snd direct, s0, dbi)
      | (direct, r, s0) => (direct, [r], s0, dbi)
      end) = (d, reps, s', dbi') -> SrvInv s' /\ has_conn s' c = true).
  { intros [[d0 r0] s0] d1 reps1 s1 dbi1 A H. specialize (A d0 r0 s0 eq_refl).
    destruct r0; inversion H; subst; exact A. }
  destruct (beq (queued_name parts) (bs "SELECT")).
  { destruct (normal_command now s c dbi parts None) as [rep s1] eqn:E. intros H; inversion H; subst. eapply NC; exact E. }
  destruct (beq (queued_name parts) (bs "PUBLISH")).
  { destruct (h_publish s parts) as [[d0 r0] s0] eqn:E. intros H; inversion H; subst.
    apply h_publish_state in E. subst. auto. }
  destruct (beq (queued_name parts) (bs "SUBSCRIBE")).
  { apply SUB. intros d0 r0 s0 E. split; [eapply SrvInv_h_sub; eassumption | rewrite (has_conn_h_sub _ _ _ _ _ _ _ c E); exact Hc]. }
  destruct (beq (queued_name parts) (bs "PSUBSCRIBE")).
  { apply SUB. intros d0 r0 s0 E. split; [eapply SrvInv_h_sub; eassumption | rewrite (has_conn_h_sub _ _ _ _ _ _ _ c E); exact Hc]. }
  destruct (beq (queued_name parts) (bs "UNSUBSCRIBE")).
  { apply SUB. intros d0 r0 s0 E. split; [eapply SrvInv_h_unsub; eassumption | rewrite (has_conn_h_unsub _ _ _ _ _ _ _ c E); exact Hc]. }
  destruct (beq (queued_name parts) (bs "PUNSUBSCRIBE")).
  { apply SUB. intros d0 r0 s0 E. split; [eapply SrvInv_h_unsub; eassumption | rewrite (has_conn_h_unsub _ _ _ _ _ _ _ c E); exact Hc]. }
  destruct (beq (queued_name parts) (bs "AUTH")).
  { destruct (h_auth s c parts) as [r0 s0] eqn:E. intros H; inversion H; subst.
    pose proof (h_auth_keeps _ _ _ _ _ E) as K. split; [eapply SrvInv_keeps; eassumption | apply (proj2 K); exact Hc]. }
  destruct (normal_command now s 0 dbi parts None) as [rep s1] eqn:E. intros H; inversion H; subst. eapply NC; exact E.
Qed.
Lemma SrvInv_exec_queue now c : forall q s dbi dacc acc d reps s',
  SrvInv s -> has_conn s c = true -> exec_queue_x now s c dbi q dacc acc = (d, reps, s') -> SrvInv s'.
Proof.
  induction q as [|parts q IH]; intros s dbi dacc acc d reps s' HI Hc H; cbn [exec_queue_x] in H.
  - inversion H; subst. exact HI.
  - destruct (exec_one_x now s c dbi parts) as [[[d1 r1] s1] dbi1] eqn:E.
    destruct (SrvInv_exec_one _ _ _ _ _ _ _ _ _ HI Hc E) as [A B]. eapply IH; eassumption.
Qed.
Lemma SrvInv_h_exec_x now s c cn d r s' :
  SrvInv s -> zlookup c (s_conns s) = Some cn -> h_exec_x now s c cn = (d, r, s') -> SrvInv s'.
Proof.
  intros HI L. unfold h_exec_x. destruct (negb (c_intx cn)); [intros H; inversion H; subst; exact HI|].
  assert (K : SrvInv (set_conn s c (clear_tx cn))) by (eapply SrvInv_keeps; [apply keeps_set_conn | exact HI]).
  destruct (watch_violated now s cn); [intros H; inversion H; subst; exact K|].
  destruct (exec_queue_x now (set_conn s c (clear_tx cn)) c (c_db cn) (c_queue cn) [] []) as [[d0 r0] s0] eqn:E.
  intros H; inversion H; subst. eapply SrvInv_exec_queue; [exact K | | exact E].
  rewrite has_conn_set_conn, Z.eqb_refl. reflexivity.
Qed.

Lemma SrvInv_step now s c req oracle d r s' :
  SrvInv s -> process_frame_x now s c req oracle = (d, r, s') -> SrvInv s'.
Proof.
  intros HI. unfold process_frame_x.
  assert (Other : forall d r s', (match process_frame now s c req oracle with (r0, s0) => (@nil (Z * frame), r0, s0) end) = (d, r, s') -> SrvInv s').
  { intros d0 r0 s0 H. destruct (process_frame now s c req oracle) as [r1 s1] eqn:E. inversion H; subst.
    eapply SrvInv_keeps; [eapply process_frame_keeps; exact E | exact HI]. }
  destruct req; try apply Other.
  destruct l as [|first rest]; [apply Other|].
  destruct first; try apply Other.
  destruct (zlookup c (s_conns s)) as [cn|] eqn:L; [|apply Other].
  assert (Hc : has_conn s c = true) by (unfold has_conn; rewrite L; reflexivity).
  destruct ((match s_password s with Some _ => true | None => false end) && negb (c_auth cn)); [apply Other|].
  destruct (c_intx cn && negb (mem_name (upper (trim b)) tx_not_queued)); [apply Other|].
  destruct (beq (upper (trim b)) (bs "EXEC")); [intros H; eapply SrvInv_h_exec_x; eassumption|].
  destruct (beq (upper (trim b)) (bs "PUBLISH")).
  { intros H. apply h_publish_state in H. subst. exact HI. }
  destruct (beq (upper (trim b)) (bs "SUBSCRIBE")); [intros H; eapply SrvInv_h_sub; eassumption|].
  destruct (beq (upper (trim b)) (bs "PSUBSCRIBE")); [intros H; eapply SrvInv_h_sub; eassumption|].
  destruct (beq (upper (trim b)) (bs "UNSUBSCRIBE")); [intros H; eapply SrvInv_h_unsub; eassumption|].
  destruct (beq (upper (trim b)) (bs "PUNSUBSCRIBE")); [intros H; eapply SrvInv_h_unsub; eassumption|].
  apply Other.
Qed.

(** ---- histories of requests ---- *)
(** events: a request of a connection, a new connection, a connection that closes (QUIT /
    protocol error / EOF: Closing) or is torn down (read or write failure) *)
Inductive sev := EReq (c : Z) (req : frame) | EConnect (c : Z) | EClose (c : Z) | EDrop (c : Z).

Definition sev_step (now : Z) (s : server) (e : sev) : list (Z * frame) * server :=
  match e with
  | EReq c req =>
      match process_frame_x now s c req None with
      | (direct, resp, s') => (direct ++ (match resp with FNoResponse => [] | r => [(c, r)] end), s')
      end
  | EConnect c => ([], connect s c)
  | EClose c => ([], close_conn s c)
  | EDrop c => ([], del_conn s c)
  end.
(** everything written to connection buffers along a history, in order *)
Fixpoint sev_run (now : Z) (s : server) (h : list sev) : list (Z * frame) * server :=
  match h with
  | [] => ([], s)
  | e :: r => match sev_step now s e with
              | (out, s') => match sev_run now s' r with (out2, s2) => (out ++ out2, s2) end
              end
  end.
Definition stream_of (d : Z) (out : list (Z * frame)) : list frame :=
  map snd (filter (fun e => fst e =? d) out).

Lemma SrvInv_sev now s e : SrvInv s -> SrvInv (snd (sev_step now s e)).
Proof.
  intros H. destruct e; cbn [sev_step].
  - destruct (process_frame_x now s c req None) as [[d r] s'] eqn:E. cbn [snd]. eapply SrvInv_step; eassumption.
  - apply SrvInv_connect; exact H.
  - apply SrvInv_close_conn; exact H.
  - apply SrvInv_del_conn; exact H.
Qed.
Lemma SrvInv_run now : forall h s, SrvInv s -> SrvInv (snd (sev_run now s h)).
Proof.
  induction h as [|e r IH]; intros s H; cbn [sev_run]; [exact H|].
  pose proof (SrvInv_sev now s e H) as H1. destruct (sev_step now s e) as [out s'].
  pose proof (IH s' H1) as H2. destruct (sev_run now s' r) as [out2 s2]. exact H2.
Qed.

(** streams only grow, in event order: what a connection receives from an earlier event precedes
    what it receives from a later one (single command thread, append-only write buffers) *)
Lemma sev_run_app now : forall h1 h2 s,
  sev_run now s (h1 ++ h2) =
  match sev_run now s h1 with
  | (o1, s1) => match sev_run now s1 h2 with (o2, s2) => (o1 ++ o2, s2) end
  end.
Proof.
  induction h1 as [|e r IH]; intros h2 s; cbn [app sev_run].
  - destruct (sev_run now s h2) as [o2 s2]. reflexivity.
  - destruct (sev_step now s e) as [out s']. rewrite IH.
    destruct (sev_run now s' r) as [o1 s1]. destruct (sev_run now s1 h2) as [o2 s2].
    rewrite app_assoc. reflexivity.
Qed.
Lemma stream_of_app d a b : stream_of d (a ++ b) = stream_of d a ++ stream_of d b.
Proof. unfold stream_of. rewrite filter_app, map_app. reflexivity. Qed.

Lemma filter_all_id {A} (f : A -> bool) l : (forall x, In x l -> f x = true) -> filter f l = l.
Proof.
  induction l as [|x l IH]; intros H; simpl; [reflexivity|].
  rewrite (H x) by (simpl; auto). f_equal. apply IH. intros y Hy. apply H. simpl; auto.
Qed.

(** ---- a PUBLISH step ---- *)
(** a connection that has passed the authentication gate and is not inside MULTI *)
Definition open_conn (s : server) (c : Z) : Prop :=
  exists cn, zlookup c (s_conns s) = Some cn /\
             (match s_password s with Some _ => true | None => false end) && negb (c_auth cn) = false /\
             c_intx cn = false.
Definition publish_req (ch msg : bytes) : frame := FArray [FBulk (bs "PUBLISH"); FBulk ch; FBulk msg].

Lemma trim_upper_lit : upper (trim (bs "PUBLISH")) = bs "PUBLISH".
Proof. reflexivity. Qed.

Lemma publish_step now s c ch msg oracle :
  SrvInv s -> open_conn s c ->
  process_frame_x now s c (publish_req ch msg) oracle =
  (map (push_frame ch msg) (publish (s_pubsub s) ch), FInt (len (publish (s_pubsub s) ch)), s).
Proof.
  intros [I C] [cn [L [G T]]]. unfold process_frame_x, publish_req. rewrite L, G, T, trim_upper_lit.
  cbn [andb]. change (beq (bs "PUBLISH") (bs "EXEC")) with false.
  change (beq (bs "PUBLISH") (bs "PUBLISH")) with true. cbn iota.
  unfold h_publish.
  assert (F : filter (fun r => has_conn s (fst r)) (publish (s_pubsub s) ch) = publish (s_pubsub s) ch).
  { apply filter_all_id. intros [x t] Hx. cbn [fst].
    apply C. apply (In_publish _ _ _ _ I) in Hx. apply is_subscribed_lookup.
    unfold is_matching, chan_subs, pat_subs, cinfo in Hx.
    destruct (clookup x (ps_conns (s_pubsub s))) as [i|]; [eauto|].
    destruct t; simpl in Hx; [destruct Hx as [[] _] | destruct Hx]. }
  rewrite F. reflexivity.
Qed.

(** what each connection receives from one PUBLISH: its matching subscriptions' frames
    (a permutation-insensitive statement is c14_delivery), the publisher also its reply *)
Lemma stream_of_map_push d ch msg (l : list receiver) :
  stream_of d (map (push_frame ch msg) l) =
  map (fun t => snd (push_frame ch msg (d, t))) (deliveries_to d l).
Proof.
  unfold stream_of, deliveries_to. induction l as [|[x t] l IH]; simpl; [reflexivity|].
  destruct (Z.eqb_spec x d) as [->|N]; simpl; [f_equal|]; exact IH.
Qed.

Lemma publish_event_stream now s c ch msg d :
  SrvInv s -> open_conn s c ->
  stream_of d (fst (sev_step now s (EReq c (publish_req ch msg)))) =
  map (fun t => snd (push_frame ch msg (d, t))) (deliveries_to d (publish (s_pubsub s) ch))
  ++ (if c =? d then [FInt (len (publish (s_pubsub s) ch))] else []) /\
  snd (sev_step now s (EReq c (publish_req ch msg))) = s.
Proof.
  intros HI HO. cbn [sev_step]. rewrite (publish_step now s c ch msg None HI HO). cbn [fst snd].
  split; [|reflexivity]. rewrite stream_of_app, stream_of_map_push. f_equal.
  unfold stream_of. simpl. destruct (c =? d); reflexivity.
Qed.

(** requests other than PUBLISH write to nobody but the issuer; connection events write nothing *)
Definition req_command (req : frame) : bytes :=
  match req with FArray (FBulk nm :: _) => upper (trim nm) | _ => [] end.

Lemma direct_to_issuer_sub chan s c parts d r s' x :
  h_sub chan s c parts = (d, r, s') -> In x d -> fst x = c.
Proof.
  unfold h_sub. destruct (len parts <? 2); [intros H; inversion H; subst; contradiction|].
  destruct (all_bulk (tl parts)); [|intros H; inversion H; subst; contradiction].
  destruct chan.
  - destruct (subscribe (s_pubsub s) c l) as [rs p']. intros H; inversion H; subst.
    intros X. apply in_map_iff in X. destruct X as [y [<- _]]. reflexivity.
  - destruct (psubscribe (s_pubsub s) c l) as [rs p']. intros H; inversion H; subst.
    intros X. apply in_map_iff in X. destruct X as [y [<- _]]. reflexivity.
Qed.
Lemma direct_to_issuer_unsub chan s c parts d r s' x :
  h_unsub chan s c parts = (d, r, s') -> In x d -> fst x = c.
Proof.
  unfold h_unsub.
  set (reqo := match tl parts with [] => Some None | l => option_map Some (all_bulk l) end).
  destruct reqo as [req|]; [|intros H; inversion H; subst; contradiction].
  assert (G : forall (rs : list subres) p' kind,
    (match rs with
     | [] => (match req with
              | Some l => map (fun n => (c, ack_frame kind n (sub_total p' c))) l
              | None => [(c, ack_nil_frame kind (sub_total p' c))]
              end, FNoResponse, set_pubsub s p')
     | _ :: _ => (map (fun r0 => (c, ack_frame kind (r_name r0) (r_count r0))) rs, FNoResponse, set_pubsub s p')
     end) = (d, r, s') -> In x d -> fst x = c).
  { intros rs p' kind H X. destruct rs.
    - inversion H; subst. destruct req.
      + apply in_map_iff in X. destruct X as [y [<- _]]. reflexivity.
      + destruct X as [<-|[]]. reflexivity.
    - inversion H; subst. simpl in X. destruct X as [<-|X]; [reflexivity|]. apply in_map_iff in X. destruct X as [y [<- _]]. reflexivity. }
  destruct chan.
  - destruct (unsubscribe (s_pubsub s) c req) as [rs p']. apply G.
  - destruct (punsubscribe (s_pubsub s) c req) as [rs p']. apply G.
Qed.

Lemma stream_to_issuer d c (l : list (Z * frame)) :
  d <> c -> (forall x, In x l -> fst x = c) -> stream_of d l = [].
Proof.
  intros N A. unfold stream_of. induction l as [|x l IH]; simpl; [reflexivity|].
  destruct (Z.eqb_spec (fst x) d) as [E|E].
  - exfalso. apply N. rewrite <- E. apply A. simpl; auto.
  - apply IH. intros y Hy. apply A. simpl; auto.
Qed.

Lemma nonpublish_silent now s c req oracle dct r s' d :
  process_frame_x now s c req oracle = (dct, r, s') ->
  beq (req_command req) (bs "PUBLISH") = false -> beq (req_command req) (bs "EXEC") = false ->
  d <> c -> stream_of d dct = [].
Proof.
  unfold process_frame_x, req_command.
  assert (Other : forall dct r s', (match process_frame now s c req oracle with (r0, s0) => (@nil (Z * frame), r0, s0) end) = (dct, r, s') -> stream_of d dct = []).
  { intros d0 r0 s0 H. destruct (process_frame now s c req oracle). inversion H; subst. reflexivity. }
  destruct req; try (intros H _ _ _; eapply Other; exact H).
  destruct l as [|first rest]; [intros H _ _ _; eapply Other; exact H|].
  destruct first; try (intros H _ _ _; eapply Other; exact H).
  destruct (zlookup c (s_conns s)) as [cn|]; [|intros H _ _ _; eapply Other; exact H].
  destruct ((match s_password s with Some _ => true | None => false end) && negb (c_auth cn));
    [intros H _ _ _; eapply Other; exact H|].
  destruct (c_intx cn && negb (mem_name (upper (trim b)) tx_not_queued)); [intros H _ _ _; eapply Other; exact H|].
  intros H NP NE N. rewrite NP, NE in H.
  pose proof (stream_to_issuer d c dct N) as ToC.
  destruct (beq (upper (trim b)) (bs "SUBSCRIBE")); [apply ToC; intros x; eapply direct_to_issuer_sub; exact H|].
  destruct (beq (upper (trim b)) (bs "PSUBSCRIBE")); [apply ToC; intros x; eapply direct_to_issuer_sub; exact H|].
  destruct (beq (upper (trim b)) (bs "UNSUBSCRIBE")); [apply ToC; intros x; eapply direct_to_issuer_unsub; exact H|].
  destruct (beq (upper (trim b)) (bs "PUNSUBSCRIBE")); [apply ToC; intros x; eapply direct_to_issuer_unsub; exact H|].
  eapply Other; exact H.
Qed.

(** ---- bytes on the wire ---- *)
Lemma push_frame_sendable ch msg (r : receiver) :
  len ch <= i64_max -> len msg <= i64_max -> (match snd r with Some p => len p <= i64_max | None => True end) ->
  sendable (snd (push_frame ch msg r)) /\ sanitize (snd (push_frame ch msg r)) = snd (push_frame ch msg r).
Proof.
  intros H1 H2 H3. apply Z.leb_le in H1, H2. destruct r as [x [p|]]; cbn [snd fst push_frame] in *.
  - apply Z.leb_le in H3. split; [|reflexivity]. unfold sendable, pmsg_frame. cbn. rewrite H1, H2, H3. reflexivity.
  - split; [|reflexivity]. unfold sendable, msg_frame. cbn. rewrite H1, H2. reflexivity.
Qed.

(** the subscriber decodes exactly the frames that were pushed: channel, pattern and payload
    bytes arrive intact whatever they contain (CR LF, RESP type bytes, NUL, 0xff ...) *)
Lemma pushed_frames_intact ch msg (l : list receiver) :
  len ch <= i64_max -> len msg <= i64_max ->
  Forall (fun r => match snd r with Some p => len p <= i64_max | None => True end) l ->
  decode_out (write_replies (map (fun r => snd (push_frame ch msg r)) l)) =
  (map (fun r => snd (push_frame ch msg r)) l, NeedMore).
Proof.
  intros H1 H2 F. rewrite decode_replies.
  - f_equal. rewrite map_map. apply map_ext_in. intros r Hr.
    rewrite Forall_forall in F. apply (push_frame_sendable ch msg r H1 H2 (F r Hr)).
  - apply Forall_forall. intros f Hf. apply in_map_iff in Hf. destruct Hf as [r [<- Hr]].
    rewrite Forall_forall in F. apply (push_frame_sendable ch msg r H1 H2 (F r Hr)).
Qed.

(** ---- acknowledgements at the server level ---- *)
Lemma sub_step_acks chan s c parts names :
  2 <= len parts -> all_bulk (tl parts) = Some names ->
  h_sub chan s c parts =
  (let kind := if chan then bs "subscribe" else bs "psubscribe" in
   let res := if chan then subscribe (s_pubsub s) c names else psubscribe (s_pubsub s) c names in
   (map (fun r => (c, ack_frame kind (r_name r) (r_count r))) (fst res), FNoResponse, set_pubsub s (snd res))).
Proof.
  intros L A. unfold h_sub. destruct (Z.ltb_spec (len parts) 2); [lia|]. rewrite A.
  destruct chan; [destruct (subscribe (s_pubsub s) c names) | destruct (psubscribe (s_pubsub s) c names)]; reflexivity.
Qed.

(** after 68e2e20 UNSUBSCRIBE / PUNSUBSCRIBE always confirm: one frame per named channel, or -
    when none is named - one per channel the connection had, and a single nil confirmation when it
    had none *)
Lemma unsub_step_always_acks chan s c parts d r s' :
  all_bulk (tl parts) <> None -> h_unsub chan s c parts = (d, r, s') ->
  r = FNoResponse /\ d <> [] \/ (exists l, tl parts = l /\ all_bulk l = Some [] /\ l <> []).
Proof.
  intros A. unfold h_unsub. destruct (tl parts) as [|f l] eqn:T.
  - (* no name *)
    destruct chan.
    + destruct (unsubscribe (s_pubsub s) c None) as [rs p']. destruct rs; intros H; inversion H; subst; left; split; auto; discriminate.
    + destruct (punsubscribe (s_pubsub s) c None) as [rs p']. destruct rs; intros H; inversion H; subst; left; split; auto; discriminate.
  - destruct (all_bulk (f :: l)) as [names|] eqn:E; [|contradiction]. cbn [option_map].
    assert (N : names <> []).
    { destruct f; simpl in E; try discriminate. destruct (all_bulk l); inversion E. discriminate. }
    destruct chan.
    + destruct (unsubscribe (s_pubsub s) c (Some names)) as [rs p']. destruct rs; intros H; inversion H; subst; left; split; auto.
      * destruct names; [contradiction | discriminate].
      * discriminate.
    + destruct (punsubscribe (s_pubsub s) c (Some names)) as [rs p']. destruct rs; intros H; inversion H; subst; left; split; auto.
      * destruct names; [contradiction | discriminate].
      * discriminate.
Qed.

(** ---- nothing after a connection is gone ---- *)
Definition unsubscribed (p : pubsub) (c : Z) : Prop := chan_subs p c = [] /\ pat_subs p c = [].

Lemma unsubscribed_no_delivery p ch c : Inv p -> unsubscribed p c -> ~ In c (map fst (publish p ch)).
Proof.
  intros I [A B] H. apply in_map_iff in H. destruct H as [[x t] [E H]]. simpl in E. subst x.
  apply (In_publish _ _ _ _ I) in H. unfold is_matching in H. rewrite A, B in H.
  destruct t; simpl in H; tauto.
Qed.

Lemma unsubscribed_after_all p c : unsubscribed (unsubscribe_all p c) c.
Proof.
  destruct (unsubscribe_all_subs p c c) as [A B]. rewrite Z.eqb_refl in A, B. split; assumption.
Qed.

Lemma nil_iff_noin {A} (l : list A) : l = [] <-> forall x, ~ In x l.
Proof. split; [intros -> x []|]. destruct l; [reflexivity|]. intros H. exfalso. apply (H a). simpl; auto. Qed.

(** operations of other connections do not give c subscriptions *)
Lemma unsubscribed_other_sub p c c' names : c' <> c -> unsubscribed p c ->
  unsubscribed (snd (subscribe p c' names)) c /\ unsubscribed (snd (psubscribe p c' names)) c.
Proof.
  intros N [A B]. split; split.
  - apply nil_iff_noin. intros n H. apply (proj1 (subscribe_subs p c' names c)) in H. rewrite A in H.
    destruct H as [[]|[E _]]. congruence.
  - rewrite (proj2 (subscribe_subs p c' names c)). exact B.
  - rewrite (proj2 (psubscribe_subs p c' names c)). exact A.
  - apply nil_iff_noin. intros n H. apply (proj1 (psubscribe_subs p c' names c)) in H. rewrite B in H.
    destruct H as [[]|[E _]]. congruence.
Qed.
Lemma unsubscribed_unsub p c c' names : unsubscribed p c ->
  unsubscribed (snd (unsubscribe p c' names)) c /\ unsubscribed (snd (punsubscribe p c' names)) c.
Proof.
  intros [A B]. split; split.
  - apply nil_iff_noin. intros n H. apply (proj1 (unsubscribe_subs p c' names c)) in H. rewrite A in H. destruct H as [[] _].
  - rewrite (proj2 (unsubscribe_subs p c' names c)). exact B.
  - rewrite (proj2 (punsubscribe_subs p c' names c)). exact A.
  - apply nil_iff_noin. intros n H. apply (proj1 (punsubscribe_subs p c' names c)) in H. rewrite B in H. destruct H as [[] _].
Qed.
Lemma unsubscribed_unsub_all p c c' : unsubscribed p c -> unsubscribed (unsubscribe_all p c') c.
Proof.
  intros [A B]. destruct (unsubscribe_all_subs p c' c) as [X Y]. split.
  - rewrite X. destruct (c =? c'); auto.
  - rewrite Y. destruct (c =? c'); auto.
Qed.

Lemma h_sub_unsubscribed chan s c' parts d r s' c :
  c' <> c -> unsubscribed (s_pubsub s) c -> h_sub chan s c' parts = (d, r, s') -> unsubscribed (s_pubsub s') c.
Proof.
  intros N U. unfold h_sub. destruct (len parts <? 2); [intros H; inversion H; subst; exact U|].
  destruct (all_bulk (tl parts)) as [names|]; [|intros H; inversion H; subst; exact U].
  destruct (unsubscribed_other_sub (s_pubsub s) c c' names N U) as [A B].
  destruct chan.
  - destruct (subscribe (s_pubsub s) c' names) as [rs p']. intros H; inversion H; subst. exact A.
  - destruct (psubscribe (s_pubsub s) c' names) as [rs p']. intros H; inversion H; subst. exact B.
Qed.
Lemma h_unsub_unsubscribed chan s c' parts d r s' c :
  unsubscribed (s_pubsub s) c -> h_unsub chan s c' parts = (d, r, s') -> unsubscribed (s_pubsub s') c.
Proof.
  intros U. unfold h_unsub.
  set (reqo := match tl parts with [] => Some None | l => option_map Some (all_bulk l) end).
  destruct reqo as [req|]; [|intros H; inversion H; subst; exact U].
  destruct (unsubscribed_unsub (s_pubsub s) c c' req U) as [A B].
  destruct chan.
  - destruct (unsubscribe (s_pubsub s) c' req) as [rs p']. destruct rs; intros H; inversion H; subst; exact A.
  - destruct (punsubscribe (s_pubsub s) c' req) as [rs p']. destruct rs; intros H; inversion H; subst; exact B.
Qed.

Lemma h_publish_direct s parts d r s' x :
  h_publish s parts = (d, r, s') -> In x d ->
  exists ch, In (fst x) (map fst (publish (s_pubsub s) ch)).
Proof.
  unfold h_publish. intros H.
  repeat (match type of H with context [match ?y with _ => _ end] => destruct y end);
    inversion H; subst; try contradiction.
  intros X. apply in_map_iff in X. destruct X as [rcv [<- X]]. apply filter_In in X. destruct X as [X _].
  exists b. apply in_map_iff. exists rcv. split; [destruct rcv; reflexivity | exact X].
Qed.

(** a queued command run at EXEC by another connection neither subscribes c nor writes to it *)
Lemma exec_one_unsubscribed now s c' dbi parts d reps s' dbi' c :
  c' <> c -> SrvInv s -> unsubscribed (s_pubsub s) c ->
  exec_one_x now s c' dbi parts = (d, reps, s', dbi') ->
  unsubscribed (s_pubsub s') c /\ stream_of c d = [].
Proof.
  intros N HI U. unfold exec_one_x.
  assert (NC : forall cc rep s1, normal_command now s cc dbi parts None = (rep, s1) -> unsubscribed (s_pubsub s1) c).
  { intros cc rep s1 E. rewrite (proj1 (normal_command_keeps _ _ _ _ _ _ _ _ E)). exact U. }
  assert (SUB : forall res d reps s' dbi',
     (forall d0 r0 s0, res = (d0, r0, s0) -> unsubscribed (s_pubsub s0) c /\ (r0 <> FNoResponse -> d0 = [])) ->
     (match res with
      | (direct, FNoResponse, s0) => (@nil (Z * frame), map snd direct, s0, dbi)
      | (direct, r, s0) => (direct, [r], s0, dbi)
      end) = (d, reps, s', dbi') -> unsubscribed (s_pubsub s') c /\ stream_of c d = []).
  { intros [[d0 r0] s0] d1 reps1 s1 dbi1 A H. destruct (A d0 r0 s0 eq_refl) as [A1 A2].
    destruct r0; inversion H; subst; (split; [exact A1|]); try reflexivity; rewrite A2 by discriminate; reflexivity. }
  assert (HS : forall chan d0 r0 s0, h_sub chan s c' parts = (d0, r0, s0) -> unsubscribed (s_pubsub s0) c /\ (r0 <> FNoResponse -> d0 = [])).
  { intros chan d0 r0 s0 E. split; [eapply h_sub_unsubscribed; eassumption|].
    revert E. unfold h_sub. destruct (len parts <? 2); [intros E _; inversion E; reflexivity|].
    destruct (all_bulk (tl parts)); [|intros E _; inversion E; reflexivity].
    destruct chan; [destruct (subscribe (s_pubsub s) c' l) | destruct (psubscribe (s_pubsub s) c' l)];
      intros E X; inversion E; subst; contradiction. }
  assert (HU : forall chan d0 r0 s0, h_unsub chan s c' parts = (d0, r0, s0) -> unsubscribed (s_pubsub s0) c /\ (r0 <> FNoResponse -> d0 = [])).
  { intros chan d0 r0 s0 E. split; [eapply h_unsub_unsubscribed; eassumption|].
    revert E. unfold h_unsub.
    set (reqo := match tl parts with [] => Some None | l => option_map Some (all_bulk l) end).
    destruct reqo as [req|]; [|intros E _; inversion E; reflexivity].
    destruct chan; [destruct (unsubscribe (s_pubsub s) c' req) as [rs p'] | destruct (punsubscribe (s_pubsub s) c' req) as [rs p']];
      destruct rs; intros E X; inversion E; subst; contradiction. }
  destruct (beq (queued_name parts) (bs "SELECT")).
  { destruct (normal_command now s c' dbi parts None) as [rep s1] eqn:E. intros H; inversion H; subst. split; [eapply NC; exact E | reflexivity]. }
  destruct (beq (queued_name parts) (bs "PUBLISH")).
  { destruct (h_publish s parts) as [[d0 r0] s0] eqn:E. intros H; inversion H; subst.
    pose proof (h_publish_state _ _ _ _ _ E) as ->. split; [exact U|].
    unfold stream_of. destruct (filter (fun e => fst e =? c) d) as [|x l] eqn:F; [reflexivity|].
    exfalso. assert (X : In x (filter (fun e => fst e =? c) d)) by (rewrite F; simpl; auto).
    apply filter_In in X. destruct X as [X Q]. apply Z.eqb_eq in Q.
    destruct (h_publish_direct _ _ _ _ _ _ E X) as [ch Y]. rewrite Q in Y.
    exact (unsubscribed_no_delivery _ ch c (proj1 HI) U Y). }
  destruct (beq (queued_name parts) (bs "SUBSCRIBE")); [apply SUB; apply HS|].
  destruct (beq (queued_name parts) (bs "PSUBSCRIBE")); [apply SUB; apply HS|].
  destruct (beq (queued_name parts) (bs "UNSUBSCRIBE")); [apply SUB; apply HU|].
  destruct (beq (queued_name parts) (bs "PUNSUBSCRIBE")); [apply SUB; apply HU|].
  destruct (beq (queued_name parts) (bs "AUTH")).
  { destruct (h_auth s c' parts) as [r0 s0] eqn:E. intros H; inversion H; subst.
    rewrite (proj1 (h_auth_keeps _ _ _ _ _ E)). auto. }
  destruct (normal_command now s 0 dbi parts None) as [rep s1] eqn:E. intros H; inversion H; subst. split; [eapply NC; exact E | reflexivity].
Qed.
Lemma exec_queue_unsubscribed now c' c : c' <> c -> forall q s dbi dacc acc d reps s',
  SrvInv s -> has_conn s c' = true -> unsubscribed (s_pubsub s) c -> stream_of c dacc = [] ->
  exec_queue_x now s c' dbi q dacc acc = (d, reps, s') ->
  unsubscribed (s_pubsub s') c /\ stream_of c d = [].
Proof.
  intros N. induction q as [|parts q IH]; intros s dbi dacc acc d reps s' HI Hc U D H; cbn [exec_queue_x] in H.
  - inversion H; subst. auto.
  - destruct (exec_one_x now s c' dbi parts) as [[[d1 r1] s1] dbi1] eqn:E.
    destruct (SrvInv_exec_one _ _ _ _ _ _ _ _ _ HI Hc E) as [A B].
    destruct (exec_one_unsubscribed _ _ _ _ _ _ _ _ _ c N HI U E) as [U1 D1].
    eapply (IH s1 dbi1 (dacc ++ d1) (acc ++ r1)); [exact A | exact B | exact U1 | rewrite stream_of_app, D, D1; reflexivity | exact H].
Qed.

(** a request of another connection neither subscribes c nor writes to it *)
Lemma step_unsubscribed now s c' req oracle d r s' c :
  c' <> c -> SrvInv s -> unsubscribed (s_pubsub s) c ->
  process_frame_x now s c' req oracle = (d, r, s') ->
  unsubscribed (s_pubsub s') c /\ stream_of c d = [].
Proof.
  intros N HI U. unfold process_frame_x.
  assert (Other : forall d r s', (match process_frame now s c' req oracle with (r0, s0) => (@nil (Z * frame), r0, s0) end) = (d, r, s') ->
                  unsubscribed (s_pubsub s') c /\ stream_of c d = []).
  { intros d0 r0 s0 H. destruct (process_frame now s c' req oracle) as [r1 s1] eqn:E. inversion H; subst.
    destruct (process_frame_keeps _ _ _ _ _ _ _ E) as [K _]. rewrite K. auto. }
  destruct req; try apply Other.
  destruct l as [|first rest]; [apply Other|].
  destruct first; try apply Other.
  destruct (zlookup c' (s_conns s)) as [cn|] eqn:L; [|apply Other].
  destruct ((match s_password s with Some _ => true | None => false end) && negb (c_auth cn)); [apply Other|].
  destruct (c_intx cn && negb (mem_name (upper (trim b)) tx_not_queued)); [apply Other|].
  assert (N' : c <> c') by congruence.
  destruct (beq (upper (trim b)) (bs "EXEC")).
  { unfold h_exec_x. destruct (negb (c_intx cn)); [intros H; inversion H; subst; auto|].
    destruct (watch_violated now s cn); [intros H; inversion H; subst; auto|].
    destruct (exec_queue_x now (set_conn s c' (clear_tx cn)) c' (c_db cn) (c_queue cn) [] []) as [[d0 r0] s0] eqn:E.
    intros H; inversion H; subst.
    eapply (exec_queue_unsubscribed now c' c N); [ | | | | exact E]; auto.
    - eapply SrvInv_keeps; [apply keeps_set_conn | exact HI].
    - rewrite has_conn_set_conn, Z.eqb_refl. reflexivity. }
  destruct (beq (upper (trim b)) (bs "PUBLISH")).
  { intros H. pose proof (h_publish_state _ _ _ _ _ H) as ->. split; [exact U|].
    unfold stream_of. destruct (filter (fun e => fst e =? c) d) as [|x l] eqn:F; [reflexivity|].
    exfalso. assert (X : In x (filter (fun e => fst e =? c) d)) by (rewrite F; simpl; auto).
    apply filter_In in X. destruct X as [X E]. apply Z.eqb_eq in E.
    destruct (h_publish_direct _ _ _ _ _ _ H X) as [ch Y]. rewrite E in Y.
    exact (unsubscribed_no_delivery _ ch c (proj1 HI) U Y). }
  destruct (beq (upper (trim b)) (bs "SUBSCRIBE")).
  { intros H. split; [eapply h_sub_unsubscribed; eassumption|].
    apply (stream_to_issuer c c' d N'). intros x. eapply direct_to_issuer_sub; exact H. }
  destruct (beq (upper (trim b)) (bs "PSUBSCRIBE")).
  { intros H. split; [eapply h_sub_unsubscribed; eassumption|].
    apply (stream_to_issuer c c' d N'). intros x. eapply direct_to_issuer_sub; exact H. }
  destruct (beq (upper (trim b)) (bs "UNSUBSCRIBE")).
  { intros H. split; [eapply h_unsub_unsubscribed; eassumption|].
    apply (stream_to_issuer c c' d N'). intros x. eapply direct_to_issuer_unsub; exact H. }
  destruct (beq (upper (trim b)) (bs "PUNSUBSCRIBE")).
  { intros H. split; [eapply h_unsub_unsubscribed; eassumption|].
    apply (stream_to_issuer c c' d N'). intros x. eapply direct_to_issuer_unsub; exact H. }
  apply Other.
Qed.

Definition not_by (c : Z) (e : sev) : Prop :=
  match e with EReq c' _ | EConnect c' => c' <> c | _ => True end.

Lemma unsubscribed_close s c c' : unsubscribed (s_pubsub s) c -> unsubscribed (s_pubsub (close_conn s c')) c.
Proof. intros U. cbn [close_conn del_conn s_pubsub]. apply unsubscribed_unsub_all. exact U. Qed.

(** once a connection is gone (torn down, or closed without subscriptions) nothing is written to
    it, whatever the other connections do, until the id connects again *)
Lemma after_gone_nothing now c : forall h s,
  SrvInv s -> unsubscribed (s_pubsub s) c -> Forall (not_by c) h ->
  stream_of c (fst (sev_run now s h)) = [].
Proof.
  induction h as [|e r IH]; intros s HI U F; cbn [sev_run]; [reflexivity|].
  inversion F as [|? ? Fe Fr]; subst.
  pose proof (SrvInv_sev now s e HI) as HI'.
  assert (G : unsubscribed (s_pubsub (snd (sev_step now s e))) c /\ stream_of c (fst (sev_step now s e)) = []).
  { destruct e; cbn [sev_step not_by] in *.
    - destruct (process_frame_x now s c0 req None) as [[d0 r0] s0] eqn:E. cbn [fst snd].
      destruct (step_unsubscribed now s c0 req None d0 r0 s0 c Fe HI U E) as [A B]. split; [exact A|].
      rewrite stream_of_app, B. destruct r0; simpl; unfold stream_of; simpl;
        try (destruct (Z.eqb_spec c0 c); [contradiction | reflexivity]); reflexivity.
    - split; [exact U | reflexivity].
    - split; [apply unsubscribed_close; exact U | reflexivity].
    - split; [cbn [del_conn s_pubsub]; apply unsubscribed_unsub_all; exact U | reflexivity]. }
  destruct (sev_step now s e) as [out s1]. cbn [fst snd] in *. destruct G as [U1 O1].
  specialize (IH s1 HI' U1 Fr). destruct (sev_run now s1 r) as [out2 s2]. cbn [fst] in *.
  rewrite stream_of_app, O1, IH. reflexivity.
Qed.

Lemma after_drop_nothing now s c h :
  SrvInv s -> Forall (not_by c) h -> stream_of c (fst (sev_run now (del_conn s c) h)) = [].
Proof.
  intros HI F. apply after_gone_nothing; [apply SrvInv_del_conn; exact HI | | exact F].
  cbn [del_conn s_pubsub]. apply unsubscribed_after_all.
Qed.

(** any disconnect - the client closes its socket, QUIT, a protocol error (Closing: EClose) or a
    torn-down connection (EDrop) - ends all deliveries to that connection *)
Definition disconnects (c : Z) (e : sev) : Prop := e = EClose c \/ e = EDrop c.
Lemma after_disconnect_nothing now s c e h :
  SrvInv s -> disconnects c e -> Forall (not_by c) h -> stream_of c (fst (sev_run now s (e :: h))) = [].
Proof.
  intros HI D F. cbn [sev_run].
  assert (E : sev_step now s e = ([], del_conn s c)) by (destruct D as [->| ->]; reflexivity).
  rewrite E. pose proof (after_drop_nothing now s c h HI F) as X.
  destruct (sev_run now (del_conn s c) h) as [o2 s2]. exact X.
Qed.

(** ---- coherence with the single-reply model (C05, C07, C17 ... are stated on process_frame /
    serve_frames): for requests that are not pub/sub commands nothing changes ---- *)
Definition no_pubsub (req : frame) : bool :=
  let n := req_command req in
  negb (beq n (bs "PUBLISH") || beq n (bs "SUBSCRIBE") || beq n (bs "PSUBSCRIBE")
        || beq n (bs "UNSUBSCRIBE") || beq n (bs "PUNSUBSCRIBE") || beq n (bs "EXEC")).

Lemma process_frame_x_plain now s c req oracle :
  no_pubsub req = true ->
  process_frame_x now s c req oracle =
  ([], fst (process_frame now s c req oracle), snd (process_frame now s c req oracle)).
Proof.
  intros H. unfold process_frame_x.
  assert (O : (match process_frame now s c req oracle with (r, s') => (@nil (Z * frame), r, s') end) =
              ([], fst (process_frame now s c req oracle), snd (process_frame now s c req oracle)))
    by (destruct (process_frame now s c req oracle); reflexivity).
  destruct req; try exact O. destruct l as [|first rest]; [exact O|]. destruct first; try exact O.
  destruct (zlookup c (s_conns s)); [|exact O].
  destruct ((match s_password s with Some _ => true | None => false end) && negb (c_auth c0)); [exact O|].
  destruct (c_intx c0 && negb (mem_name (upper (trim b)) tx_not_queued)); [exact O|].
  unfold no_pubsub, req_command in H. apply negb_true_iff in H.
  repeat (apply orb_false_iff in H; destruct H as [H ?]).
  rewrite H, H4, H3, H2, H1, H0. exact O.
Qed.

(** EXEC whose queue holds no PUBLISH / (P)SUBSCRIBE / (P)UNSUBSCRIBE / AUTH: the pub/sub-aware
    executor is the plain one (C07's h_exec) and writes nothing directly *)
Definition plain_queued (parts : list frame) : bool :=
  let n := queued_name parts in
  negb (beq n (bs "PUBLISH") || beq n (bs "SUBSCRIBE") || beq n (bs "PSUBSCRIBE")
        || beq n (bs "UNSUBSCRIBE") || beq n (bs "PUNSUBSCRIBE") || beq n (bs "AUTH")).

Lemma exec_one_x_plain now s c dbi parts :
  plain_queued parts = true ->
  exec_one_x now s c dbi parts =
  (if beq (queued_name parts) (bs "SELECT") then
     match normal_command now s c dbi parts None with
     | (rep, s') => ([], [rep], s', match zlookup c (s_conns s') with Some cn => c_db cn | None => dbi end)
     end
   else match normal_command now s 0 dbi parts None with (rep, s') => ([], [rep], s', dbi) end).
Proof.
  intros H. unfold exec_one_x. destruct (beq (queued_name parts) (bs "SELECT")); [reflexivity|].
  unfold plain_queued in H. apply negb_true_iff in H.
  repeat (apply orb_false_iff in H; destruct H as [H ?]).
  rewrite H, H4, H3, H2, H1, H0. reflexivity.
Qed.

Lemma exec_queue_x_plain now c : forall q s dbi dacc acc,
  forallb plain_queued q = true ->
  exec_queue_x now s c dbi q dacc acc =
  (dacc, acc ++ fst (exec_queue now s c dbi q []), snd (exec_queue now s c dbi q [])).
Proof.
  induction q as [|parts q IH]; intros s dbi dacc acc H; cbn [exec_queue_x exec_queue].
  - cbn [rev fst snd]. rewrite app_nil_r. reflexivity.
  - cbn [forallb] in H. apply andb_prop in H. destruct H as [Hp Hq].
    rewrite (exec_one_x_plain now s c dbi parts Hp).
    destruct (beq (queued_name parts) (bs "SELECT")).
    + destruct (normal_command now s c dbi parts None) as [rep s1].
      rewrite (IH _ _ _ _ Hq), (exec_queue_acc now c q s1 _ [rep]).
      destruct (exec_queue now s1 c _ q []) as [reps s2]. cbn [fst snd rev app].
      rewrite app_nil_r, <- app_assoc. reflexivity.
    + destruct (normal_command now s 0 dbi parts None) as [rep s1].
      rewrite (IH _ _ _ _ Hq), (exec_queue_acc now c q s1 _ [rep]).
      destruct (exec_queue now s1 c dbi q []) as [reps s2]. cbn [fst snd rev app].
      rewrite app_nil_r, <- app_assoc. reflexivity.
Qed.

Lemma h_exec_x_plain now s c cn :
  forallb plain_queued (c_queue cn) = true ->
  h_exec_x now s c cn = ([], fst (h_exec now s c cn), snd (h_exec now s c cn)).
Proof.
  intros H. unfold h_exec_x, h_exec. destruct (negb (c_intx cn)); [reflexivity|].
  destruct (watch_violated now s cn); [reflexivity|].
  rewrite (exec_queue_x_plain now c _ _ _ [] [] H).
  destruct (exec_queue now (set_conn s c (clear_tx cn)) c (c_db cn) (c_queue cn) []) as [reps s2]. reflexivity.
Qed.

Lemma drop_noresp_app a b : drop_noresp (a ++ b) = drop_noresp a ++ drop_noresp b.
Proof. unfold drop_noresp. apply filter_app. Qed.
Lemma drop_noresp_idem a : drop_noresp (drop_noresp a) = drop_noresp a.
Proof.
  unfold drop_noresp. induction a as [|f a IH]; simpl; [reflexivity|].
  destruct f; simpl; rewrite ?IH; reflexivity.
Qed.

Lemma serve_frames_x_plain now c : forall fs s written held pushes quit,
  forallb no_pubsub fs = true ->
  match serve_frames_x now s c fs written held pushes quit, serve_frames now s c fs [] quit with
  | (w', h', p', s1, q1), (reps, s2, q2) =>
      drop_noresp (w' ++ h') = drop_noresp (written ++ held ++ reps) /\ p' = pushes /\ s1 = s2 /\ q1 = q2
  end.
Proof.
  induction fs as [|f r IH]; intros s written held pushes quit H; cbn [serve_frames_x serve_frames].
  - rewrite app_nil_r. auto.
  - cbn [forallb] in H. apply andb_prop in H. destruct H as [Hf Hr].
    rewrite (process_frame_x_plain now s c f None Hf).
    destruct (process_frame now s c f None) as [rep s'] eqn:E. cbn [fst snd].
    cbn [filter map other_frames]. rewrite !app_nil_r.
    rewrite (serve_frames_acc now c r s' [rep]).
    set (flush := is_sub_cmd (loop_command f) && negb (match held with [] => true | _ :: _ => false end)).
    specialize (IH s' (if flush then written ++ drop_noresp held else written)
                   ((if flush then [] else held) ++ [rep]) pushes (quit || is_quit f) Hr).
    destruct (serve_frames_x now s' c r _ _ pushes (quit || is_quit f)) as [[[[w' h'] p'] s1] q1].
    destruct (serve_frames now s' c r [] (quit || is_quit f)) as [[reps s2] q2].
    destruct IH as [A [B [C D]]]. split; [|auto].
    rewrite A. cbn [rev app]. destruct flush.
    + cbn [app]. change (rep :: reps) with ([rep] ++ reps). rewrite !drop_noresp_app, drop_noresp_idem, <- !app_assoc. reflexivity.
    + cbn [app]. rewrite <- !app_assoc. reflexivity.
Qed.

(** ---- transactions (51742a5: pub/sub commands are queued inside MULTI and run at EXEC) ---- *)
Definition in_tx (s : server) (c : Z) (cn : conn) : Prop :=
  zlookup c (s_conns s) = Some cn /\
  (match s_password s with Some _ => true | None => false end) && negb (c_auth cn) = false /\
  c_intx cn = true.

(** inside MULTI every command but the five control commands is only queued: nothing is written
    to anybody, no subscription changes *)
Lemma queued_inert now s c cn nm rest oracle :
  in_tx s c cn -> mem_name (upper (trim nm)) tx_not_queued = false ->
  process_frame_x now s c (FArray (FBulk nm :: rest)) oracle =
  ([], FSimple (bs "QUEUED"), set_conn s c (with_tx cn true (c_queue cn ++ [FBulk nm :: rest]) (c_watched cn))).
Proof.
  intros [L [G T]] Q. unfold process_frame_x, process_frame. rewrite L. cbn iota beta. rewrite G, T, Q. reflexivity.
Qed.
Lemma set_conn_pubsub s c cn : s_pubsub (set_conn s c cn) = s_pubsub s.
Proof. reflexivity. Qed.

(** DISCARD, and an EXEC aborted by a WATCH violation, drop the queue: nothing was and nothing is
    delivered, no subscription changed *)
Lemma discard_inert now s c cn oracle :
  in_tx s c cn ->
  process_frame_x now s c (FArray [FBulk (bs "DISCARD")]) oracle = ([], r_ok, set_conn s c (clear_tx cn)).
Proof.
  intros [L [G T]]. unfold process_frame_x, process_frame. rewrite L. cbn iota beta. rewrite G, T.
  change (upper (trim (bs "DISCARD"))) with (bs "DISCARD").
  change (mem_name (bs "DISCARD") tx_not_queued) with true. cbn [andb negb].
  change (beq (bs "DISCARD") (bs "MULTI")) with false. change (beq (bs "DISCARD") (bs "EXEC")) with false.
  change (beq (bs "DISCARD") (bs "DISCARD")) with true. cbn iota. reflexivity.
Qed.
Lemma exec_aborted_inert now s c cn oracle :
  in_tx s c cn -> watch_violated now s cn = true ->
  process_frame_x now s c (FArray [FBulk (bs "EXEC")]) oracle = ([], FNullArray, set_conn s c (clear_tx cn)).
Proof.
  intros [L [G T]] W. unfold process_frame_x. rewrite L, G, T.
  change (upper (trim (bs "EXEC"))) with (bs "EXEC").
  change (mem_name (bs "EXEC") tx_not_queued) with true. cbn [andb negb].
  change (beq (bs "EXEC") (bs "EXEC")) with true. cbn iota.
  unfold h_exec_x. rewrite T, W. reflexivity.
Qed.

(** EXEC that is not aborted runs the queue through the pub/sub-aware executor *)
Lemma exec_runs_x now s c cn oracle :
  in_tx s c cn -> watch_violated now s cn = false ->
  process_frame_x now s c (FArray [FBulk (bs "EXEC")]) oracle =
  match exec_queue_x now (set_conn s c (clear_tx cn)) c (c_db cn) (c_queue cn) [] [] with
  | (direct, reps, s2) => (direct, FArray reps, s2)
  end.
Proof.
  intros [L [G T]] W. unfold process_frame_x. rewrite L, G, T.
  change (upper (trim (bs "EXEC"))) with (bs "EXEC").
  change (mem_name (bs "EXEC") tx_not_queued) with true. cbn [andb negb].
  change (beq (bs "EXEC") (bs "EXEC")) with true. cbn iota.
  unfold h_exec_x. rewrite T, W. reflexivity.
Qed.

(** the accumulators are prefixes: direct frames and reply elements come out in queue order *)
Lemma exec_queue_x_acc now c : forall q s dbi dacc acc,
  exec_queue_x now s c dbi q dacc acc =
  match exec_queue_x now s c dbi q [] [] with (d, r, s') => (dacc ++ d, acc ++ r, s') end.
Proof.
  induction q as [|parts q IH]; intros s dbi dacc acc; cbn [exec_queue_x].
  - rewrite !app_nil_r. reflexivity.
  - destruct (exec_one_x now s c dbi parts) as [[[d1 r1] s1] dbi1].
    rewrite (IH s1 dbi1 (dacc ++ d1) (acc ++ r1)), (IH s1 dbi1 ([] ++ d1) ([] ++ r1)).
    destruct (exec_queue_x now s1 c dbi1 q [] []) as [[d r] s']. cbn [app]. rewrite !app_assoc. reflexivity.
Qed.
Lemma exec_queue_x_cons now c parts q s dbi :
  exec_queue_x now s c dbi (parts :: q) [] [] =
  match exec_one_x now s c dbi parts with
  | (d1, r1, s1, dbi1) =>
      match exec_queue_x now s1 c dbi1 q [] [] with (d, r, s') => (d1 ++ d, r1 ++ r, s') end
  end.
Proof.
  cbn [exec_queue_x]. destruct (exec_one_x now s c dbi parts) as [[[d1 r1] s1] dbi1].
  rewrite exec_queue_x_acc. reflexivity.
Qed.

(** a queued PUBLISH runs the very handler a direct PUBLISH runs, in the state reached at that point
    of the queue: same receiver list, same frames, the count in its slot of the EXEC reply *)
Lemma exec_one_publish now s c dbi parts :
  queued_name parts = bs "PUBLISH" ->
  exec_one_x now s c dbi parts =
  match h_publish s parts with (d, r, s') => (d, [r], s', dbi) end.
Proof.
  intros Q. unfold exec_one_x. rewrite Q.
  change (beq (bs "PUBLISH") (bs "SELECT")) with false. change (beq (bs "PUBLISH") (bs "PUBLISH")) with true.
  reflexivity.
Qed.
Lemma direct_publish_handler now s c cn nm rest oracle :
  zlookup c (s_conns s) = Some cn ->
  (match s_password s with Some _ => true | None => false end) && negb (c_auth cn) = false ->
  c_intx cn = false -> upper (trim nm) = bs "PUBLISH" ->
  process_frame_x now s c (FArray (FBulk nm :: rest)) oracle = h_publish s (FBulk nm :: rest).
Proof.
  intros L G T Q. unfold process_frame_x. rewrite L, G, T, Q. cbn [andb].
  change (beq (bs "PUBLISH") (bs "EXEC")) with false. change (beq (bs "PUBLISH") (bs "PUBLISH")) with true.
  reflexivity.
Qed.
Lemma exec_one_publish_req now s c dbi ch msg :
  SrvInv s ->
  exec_one_x now s c dbi [FBulk (bs "PUBLISH"); FBulk ch; FBulk msg] =
  (map (push_frame ch msg) (publish (s_pubsub s) ch), [FInt (len (publish (s_pubsub s) ch))], s, dbi).
Proof.
  intros [I C]. rewrite exec_one_publish by reflexivity. unfold h_publish.
  assert (F : filter (fun r => has_conn s (fst r)) (publish (s_pubsub s) ch) = publish (s_pubsub s) ch).
  { apply filter_all_id. intros [x t] Hx. cbn [fst].
    apply C. apply (In_publish _ _ _ _ I) in Hx. apply is_subscribed_lookup.
    unfold is_matching, chan_subs, pat_subs, cinfo in Hx.
    destruct (clookup x (ps_conns (s_pubsub s))) as [i|]; [eauto|].
    destruct t; simpl in Hx; [destruct Hx as [[] _] | destruct Hx]. }
  rewrite F. reflexivity.
Qed.

(** a queued (P)SUBSCRIBE / (P)UNSUBSCRIBE runs the handler of the direct command for the connection
    that sent EXEC; its confirmations - the manager's counts - become elements of the EXEC reply and
    nothing is written directly *)
Lemma exec_one_sub now s c dbi parts (chan : bool) names :
  queued_name parts = (if chan then bs "SUBSCRIBE" else bs "PSUBSCRIBE") ->
  2 <= len parts -> all_bulk (tl parts) = Some names ->
  exec_one_x now s c dbi parts =
  (let kind := if chan then bs "subscribe" else bs "psubscribe" in
   let res := if chan then subscribe (s_pubsub s) c names else psubscribe (s_pubsub s) c names in
   ([], map (fun r => ack_frame kind (r_name r) (r_count r)) (fst res), set_pubsub s (snd res), dbi)).
Proof.
  intros Q L A. unfold exec_one_x. rewrite Q.
  destruct chan.
  - change (beq (bs "SUBSCRIBE") (bs "SELECT")) with false. change (beq (bs "SUBSCRIBE") (bs "PUBLISH")) with false.
    change (beq (bs "SUBSCRIBE") (bs "SUBSCRIBE")) with true. cbn iota.
    rewrite (sub_step_acks true s c parts names L A). cbv beta zeta iota. rewrite map_map. reflexivity.
  - change (beq (bs "PSUBSCRIBE") (bs "SELECT")) with false. change (beq (bs "PSUBSCRIBE") (bs "PUBLISH")) with false.
    change (beq (bs "PSUBSCRIBE") (bs "SUBSCRIBE")) with false. change (beq (bs "PSUBSCRIBE") (bs "PSUBSCRIBE")) with true. cbn iota.
    rewrite (sub_step_acks false s c parts names L A). cbv beta zeta iota. rewrite map_map. reflexivity.
Qed.
Lemma exec_one_unsub now s c dbi parts (chan : bool) :
  queued_name parts = (if chan then bs "UNSUBSCRIBE" else bs "PUNSUBSCRIBE") ->
  exec_one_x now s c dbi parts =
  match h_unsub chan s c parts with
  | (direct, FNoResponse, s') => ([], map snd direct, s', dbi)
  | (direct, r, s') => (direct, [r], s', dbi)
  end.
Proof.
  intros Q. unfold exec_one_x. rewrite Q. destruct chan.
  - change (beq (bs "UNSUBSCRIBE") (bs "SELECT")) with false. change (beq (bs "UNSUBSCRIBE") (bs "PUBLISH")) with false.
    change (beq (bs "UNSUBSCRIBE") (bs "SUBSCRIBE")) with false. change (beq (bs "UNSUBSCRIBE") (bs "PSUBSCRIBE")) with false.
    change (beq (bs "UNSUBSCRIBE") (bs "UNSUBSCRIBE")) with true. reflexivity.
  - change (beq (bs "PUNSUBSCRIBE") (bs "SELECT")) with false. change (beq (bs "PUNSUBSCRIBE") (bs "PUBLISH")) with false.
    change (beq (bs "PUNSUBSCRIBE") (bs "SUBSCRIBE")) with false. change (beq (bs "PUNSUBSCRIBE") (bs "PSUBSCRIBE")) with false.
    change (beq (bs "PUNSUBSCRIBE") (bs "UNSUBSCRIBE")) with false. change (beq (bs "PUNSUBSCRIBE") (bs "PUNSUBSCRIBE")) with true.
    reflexivity.
Qed.
