(** Lemmas about the RDB model (Model/Rdb.v): wire integers, length encoding,
    strings, per-type payload round-trips, the whole-dataset round-trip. *)
From Ferrous Require Import Base.Bytes Model.Resp Model.Types Model.Strings Model.Rdb.
From Ferrous Require Import Proofs.BytesFacts.
Open Scope Z_scope.

(** ---- the reader monad ---- *)
Lemma bind_ok {A B} (m : rd -> rres A) (f : A -> rd -> rres B) s a s' :
  m s = (Some a, s') -> bind m f s = f a s'.
Proof. intros H. unfold bind. rewrite H. reflexivity. Qed.
Lemma bind_err {A B} (m : rd -> rres A) (f : A -> rd -> rres B) s s' :
  m s = (None, s') -> bind m f s = (None, s').
Proof. intros H. unfold bind. rewrite H. reflexivity. Qed.

Definition mkrd (b : bytes) (v : Z) : rd := {| r_in := b; r_resv := v |}.

Lemma frev_rev {A} (l : list A) : frev l = rev l.
Proof. unfold frev. rewrite rev_append_rev. apply app_nil_r. Qed.

(** ---- little endian ---- *)
Lemma le_val_le_bytes k : forall x, 0 <= x -> le_val (le_bytes k x) = x mod 256 ^ Z.of_nat k.
Proof.
  induction k as [|k IH]; intros x Hx.
  - cbn [le_bytes le_val]. change (256 ^ Z.of_nat 0) with 1. now rewrite Z.mod_1_r.
  - cbn [le_bytes le_val]. rewrite IH by (apply Z.div_pos; lia).
    rewrite Nat2Z.inj_succ, Z.pow_succ_r by lia.
    rewrite (Z.rem_mul_r x 256 (256 ^ Z.of_nat k)) by (try lia; apply Z.pow_pos_nonneg; lia).
    reflexivity.
Qed.
Lemma le_bytes_length k x : length (le_bytes k x) = k.
Proof. revert x. induction k; intros; cbn [le_bytes length]; auto. Qed.

Lemma take_app (a : bytes) : forall r, take (a ++ r) (len a) = Some (a, r).
Proof.
  induction a as [|c a IH]; intros r.
  - cbn [app]. rewrite len_nil. destruct r; reflexivity.
  - rewrite len_cons. cbn [app take].
    pose proof (len_nonneg a).
    destruct (1 + len a <=? 0) eqn:E; [lia|].
    replace (1 + len a - 1) with (len a) by lia. rewrite IH. reflexivity.
Qed.
Lemma take_n (a : bytes) n r : len a = n -> take (a ++ r) n = Some (a, r).
Proof. intros <-. apply take_app. Qed.

Lemma read_exact_app a r v n : len a = n -> read_exact n (mkrd (a ++ r) v) = (Some a, mkrd r v).
Proof. intros H. unfold read_exact, mkrd. cbn [r_in r_resv]. rewrite (take_n a n r H). reflexivity. Qed.
Lemma read_byte_cons c r v : read_byte (mkrd (c :: r) v) = (Some c, mkrd r v).
Proof. reflexivity. Qed.

Lemma len_le_bytes k x : len (le_bytes k x) = Z.of_nat k.
Proof. unfold len. now rewrite le_bytes_length. Qed.

Lemma read_u64_le_ok x r v : 0 <= x < two64 -> read_u64_le (mkrd (u64_le x ++ r) v) = (Some x, mkrd r v).
Proof.
  intros Hx. unfold read_u64_le.
  rewrite (bind_ok _ _ _ (u64_le x) (mkrd r v)) by (apply read_exact_app; apply len_le_bytes).
  unfold ret, u64_le. rewrite le_val_le_bytes by lia.
  change (256 ^ Z.of_nat 8) with two64. rewrite Z.mod_small by lia. reflexivity.
Qed.
Lemma read_u32_be_ok x r v : 0 <= x < two32 -> read_u32_be (mkrd (u32_be x ++ r) v) = (Some x, mkrd r v).
Proof.
  intros Hx. unfold read_u32_be.
  rewrite (bind_ok _ _ _ (u32_be x) (mkrd r v)).
  2:{ apply read_exact_app. unfold u32_be, len. rewrite rev_length, le_bytes_length. reflexivity. }
  unfold ret, be_val, u32_be. rewrite rev_involutive, le_val_le_bytes by lia.
  change (256 ^ Z.of_nat 4) with two32. rewrite Z.mod_small by lia. reflexivity.
Qed.

(** ---- length encoding: every 0 <= n < 2^32 ---- *)
Lemma read_length_write n r v :
  0 <= n < two32 -> read_length (mkrd (write_length n ++ r) v) = (Some n, mkrd r v).
Proof.
  intros Hn. unfold write_length, read_length.
  destruct (n <=? 63) eqn:E1.
  - apply Z.leb_le in E1. cbn [app]. rewrite (bind_ok _ _ _ n (mkrd r v)) by apply read_byte_cons.
    replace (n / 64) with 0 by (symmetry; apply Z.div_small; lia).
    reflexivity.
  - apply Z.leb_gt in E1. destruct (n <=? 16383) eqn:E2.
    + apply Z.leb_le in E2. cbn [app].
      rewrite (bind_ok _ _ _ (n / 256 + 64) (mkrd (n mod 256 :: r) v)) by apply read_byte_cons.
      assert (Hq : 0 <= n / 256 <= 63) by (pose proof (Z.div_mod n 256); pose proof (Z.mod_pos_bound n 256); lia).
      replace ((n / 256 + 64) / 64) with 1 by (apply Z.div_unique with (r := n / 256); [left; lia | lia]).
      change (1 =? 0) with false. change (1 =? 1) with true. cbv iota.
      rewrite (bind_ok _ _ _ (n mod 256) (mkrd r v)) by apply read_byte_cons.
      unfold ret. f_equal. f_equal.
      replace ((n / 256 + 64) mod 64) with (n / 256) by (apply Z.mod_unique with (q := 1); [left; lia | lia]).
      pose proof (Z.div_mod n 256). lia.
    + apply Z.leb_gt in E2. cbn [app].
      rewrite (bind_ok _ _ _ 128 (mkrd (u32_be (n mod two32) ++ r) v)) by apply read_byte_cons.
      change (128 / 64) with 2. change (2 =? 0) with false. change (2 =? 1) with false. change (2 =? 2) with true.
      cbv iota. rewrite Z.mod_small by lia. apply read_u32_be_ok. lia.
Qed.

(** ---- strings ---- *)
Lemma read_string_write s r v :
  len s < two32 ->
  read_string (mkrd (write_string s ++ r) v) = (Some s, mkrd r (Z.max v (len s))).
Proof.
  intros H. pose proof (len_nonneg s). unfold read_string, write_string. rewrite <- app_assoc.
  rewrite (bind_ok _ _ _ (len s) (mkrd (s ++ r) v)) by (apply read_length_write; lia).
  unfold bind at 1. unfold reserve. cbn [r_in r_resv mkrd].
  apply read_exact_app. reflexivity.
Qed.

(** ------------------------------------------------------------------ *)
(** * C10 (1): crash points of a save *)
Lemma do_writes_none ws : forall acc, do_writes ws None acc = (acc ++ concat ws, true).
Proof.
  induction ws as [|w r IH]; intros acc; cbn [do_writes concat].
  - now rewrite app_nil_r.
  - rewrite IH, app_assoc. reflexivity.
Qed.
Lemma do_writes_fail ws : forall k acc, (k < length ws)%nat -> snd (do_writes ws (Some k) acc) = false.
Proof.
  induction ws as [|w r IH]; intros k acc Hk; cbn [length] in Hk; [lia|].
  cbn [do_writes]. destruct k as [|k]; [reflexivity|]. apply IH. lia.
Qed.
(** what a failed save leaves in the temporary file is a prefix of the complete file *)
Lemma do_writes_prefix ws : forall f acc, exists rest, acc ++ concat ws = fst (do_writes ws f acc) ++ rest.
Proof.
  induction ws as [|w r IH]; intros f acc; cbn [do_writes concat].
  - exists []. reflexivity.
  - destruct f as [[|k]|].
    + cbn [fst]. eexists. reflexivity.
    + destruct (IH (Some k) (acc ++ w)) as [rest H]. exists rest. now rewrite app_assoc.
    + destruct (IH None (acc ++ w)) as [rest H]. exists rest. now rewrite app_assoc.
Qed.

Lemma failed_save_keeps_dump ws k o rn d :
  (k < length ws)%nat ->
  let r := save_run ws (Some k) o rn d in snd r = false /\ dk_dump (fst r) = dk_dump d.
Proof.
  intros Hk. unfold save_run. destruct o; [split; reflexivity|].
  pose proof (do_writes_fail ws k [] Hk) as H.
  destruct (do_writes ws (Some k) []) as [b ok]. cbn [snd] in H. subst ok. split; reflexivity.
Qed.
Lemma failed_save_any ws f o rn d :
  snd (save_run ws f o rn d) = false -> dk_dump (fst (save_run ws f o rn d)) = dk_dump d.
Proof.
  unfold save_run. destruct o; [reflexivity|].
  destruct (do_writes ws f []) as [b [|]]; [|reflexivity].
  destruct rn; [reflexivity|]. cbn [snd]. discriminate.
Qed.
Lemma good_save ws d : save_run ws None false false d = ({| dk_dump := Some (concat ws); dk_tmp := None |}, true).
Proof. unfold save_run. rewrite do_writes_none. reflexivity. Qed.
Lemma later_save_succeeds ws ws' f o rn d :
  save_run ws' None false false (fst (save_run ws f o rn d))
  = ({| dk_dump := Some (concat ws'); dk_tmp := None |}, true).
Proof. apply good_save. Qed.

(** at every instant the dump is absent or the complete output of one of the saves attempted *)
Definition dump_complete (d0 : disk) (hist : list attempt) (d : disk) : Prop :=
  dk_dump d = dk_dump d0 \/ exists a, In a hist /\ dk_dump d = Some (concat (a_writes a)).
Lemma do_writes_true ws : forall f acc b, do_writes ws f acc = (b, true) -> b = acc ++ concat ws.
Proof.
  induction ws as [|w r IH]; intros f acc b; cbn [do_writes concat].
  - intros H; inversion H. now rewrite app_nil_r.
  - destruct f as [[|k]|]; [discriminate| |]; intros H; apply IH in H; now rewrite H, app_assoc.
Qed.
Lemma run_attempt_cases d a :
  dk_dump (run_attempt d a) = dk_dump d \/ dk_dump (run_attempt d a) = Some (concat (a_writes a)).
Proof.
  unfold run_attempt, save_run. destruct (a_open_fails a); [left; reflexivity|].
  destruct (do_writes (a_writes a) (a_failat a) []) as [b ok] eqn:E. destruct ok; [|left; reflexivity].
  destruct (a_rename_fails a); [left; reflexivity|]. right. cbn [fst dk_dump].
  apply do_writes_true in E. now subst.
Qed.
Lemma dump_always_complete hist : forall d0, dump_complete d0 hist (fold_left run_attempt hist d0).
Proof.
  induction hist as [|a h IH] using rev_ind; intros d0.
  - left. reflexivity.
  - rewrite fold_left_app. cbn [fold_left].
    destruct (run_attempt_cases (fold_left run_attempt h d0) a) as [H|H].
    + destruct (IH d0) as [G|[a' [Hin G]]].
      * left. congruence.
      * right. exists a'. split; [apply in_or_app; now left | congruence].
    + right. exists a. split; [apply in_or_app; right; now left | exact H].
Qed.
